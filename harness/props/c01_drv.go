package props

// Typed drivers of C01/C34: for every (operand kind, operand kind, result kind) a generic driver
// runs an interpreter callable over a value grid and compares each result (value bitwise, NaN by class,
// -0 ≠ +0; panic class) with the native generic Go function instantiated for that kind.

import (
	"fmt"
	"math"
	"reflect"

	"github.com/cosmos72/gomacro/fast"

	"verif/harness/h"
	"verif/harness/native"
	"verif/harness/twin"
)

// c01Callable is one compiled interpreter unit. Arity tells which operands are run-time arguments:
// "xy", "x", "y" or "" (both constant).
type c01Callable struct {
	ir    *twin.Interp
	arity string
	fn    interface{} // func(T,U) R | func(T) R | func(U) R | func() R  (interpreted function called natively)
	set   interface{} // top-level shape: interpreted setter of the globals, func(T,U) bool | func(T) bool | func(U) bool
	expr  *fast.Expr  // top-level shape: compiled expression, run with RunExpr1 after set
	typ   string      // static type reported by the interpreter for expr (top-level shape only)
	cnst  bool        // interpreter folded expr to a constant
}

// c01TypeMismatch is raised when a top-level expression yields a value of an unexpected dynamic type.
type c01TypeMismatch struct{ got string }

func (e c01TypeMismatch) Error() string {
	return "static type mismatch: interpreter value has type " + e.got
}

func adapt[T, U, R any](cl *c01Callable) func(T, U) R {
	if cl.expr != nil {
		run := func() R {
			v, _ := cl.ir.RunExpr1(cl.expr)
			i := v.Interface()
			r, ok := i.(R)
			if !ok {
				panic(c01TypeMismatch{fmt.Sprintf("%T", i)})
			}
			return r
		}
		switch cl.arity {
		case "xy":
			set := cl.set.(func(T, U) bool)
			return func(x T, y U) R { set(x, y); return run() }
		case "x":
			set := cl.set.(func(T) bool)
			return func(x T, _ U) R { set(x); return run() }
		case "y":
			set := cl.set.(func(U) bool)
			return func(_ T, y U) R { set(y); return run() }
		}
		return func(T, U) R { return run() }
	}
	switch cl.arity {
	case "xy":
		return cl.fn.(func(T, U) R)
	case "x":
		f := cl.fn.(func(T) R)
		return func(x T, _ U) R { return f(x) }
	case "y":
		f := cl.fn.(func(U) R)
		return func(_ T, y U) R { return f(y) }
	}
	f := cl.fn.(func() R)
	return func(T, U) R { return f() }
}

func call2[T, U, R any](f func(T, U) R, x T, y U) (r R, p interface{}) {
	defer func() { p = recover() }()
	r = f(x, y)
	return
}

// c01NativePanics counts the evaluations whose compiled-Go outcome is a run-time panic (one interpreter thread per process).
var c01NativePanics int

// c01Driver is the kind-erased view of a typed driver.
type c01Driver interface {
	Has(op string) bool
	// Run evaluates cl and the native operator over xs × ys. nontriv (len(xs)*len(ys), may be nil) receives the
	// non-triviality flag of each pair; rep is called for each mismatch.
	Run(op string, cl *c01Callable, xs, ys []interface{}, nontriv []bool, rep func(i, j int, want, got string))
	// Native returns the canonical native outcome of one pair.
	Native(op string, x, y interface{}) string
}

type c01Drv[T, U, R comparable] struct {
	ops    map[string]func(T, U) R
	floaty bool                     // R is a float/complex kind
	nt     func(x T, y U, r R) bool // non-triviality of a non-panicking outcome
}

func (d *c01Drv[T, U, R]) Has(op string) bool { _, ok := d.ops[op]; return ok }

func outcome(v interface{}, p interface{}) string {
	if p != nil {
		if tm, ok := p.(c01TypeMismatch); ok {
			return "TYPE(" + tm.got + ")"
		}
		return "PANIC(" + h.PanicClass(p) + ")"
	}
	return h.Fmt(v)
}

func (d *c01Drv[T, U, R]) Native(op string, x, y interface{}) string {
	r, p := call2(d.ops[op], x.(T), y.(U))
	return outcome(r, p)
}

func (d *c01Drv[T, U, R]) Run(op string, cl *c01Callable, xs, ys []interface{}, nontriv []bool, rep func(i, j int, want, got string)) {
	nat := d.ops[op]
	f := adapt[T, U, R](cl)
	tx := make([]T, len(xs))
	for i, v := range xs {
		tx[i] = v.(T)
	}
	ty := make([]U, len(ys))
	for i, v := range ys {
		ty[i] = v.(U)
	}
	for i, x := range tx {
		for j, y := range ty {
			want, wp := call2(nat, x, y)
			got, gp := call2(f, x, y)
			if wp == nil && gp == nil {
				if nontriv != nil && d.nt(x, y, want) {
					nontriv[i*len(ty)+j] = true
				}
				if want == got && !d.floaty {
					continue
				}
				if d.floaty && sameFloaty(want, got) {
					continue
				}
			} else {
				if wp != nil {
					c01NativePanics++
				}
				if nontriv != nil {
					nontriv[i*len(ty)+j] = true
				}
				if wp != nil && gp != nil {
					if _, tm := gp.(c01TypeMismatch); !tm && h.PanicClass(wp) == h.PanicClass(gp) {
						continue
					}
				}
			}
			rep(i, j, outcome(want, wp), outcome(got, gp))
		}
	}
}

func sameF64(a, b float64) bool {
	if math.IsNaN(a) || math.IsNaN(b) {
		return math.IsNaN(a) && math.IsNaN(b)
	}
	return math.Float64bits(a) == math.Float64bits(b)
}

func sameFloaty(a, b interface{}) bool {
	switch x := a.(type) {
	case float32:
		return sameF64(float64(x), float64(b.(float32)))
	case float64:
		return sameF64(x, b.(float64))
	case complex64:
		y := b.(complex64)
		return sameF64(float64(real(x)), float64(real(y))) && sameF64(float64(imag(x)), float64(imag(y)))
	case complex128:
		y := b.(complex128)
		return sameF64(real(x), real(y)) && sameF64(imag(x), imag(y))
	}
	return reflect.DeepEqual(a, b)
}

// registry: key "kx|ky|arith" (result kind = kx), "kx|ky|bool" (comparison result) or "kx|ky|shift".
var c01Drivers = map[string]c01Driver{}

func c01Driver_(kx, ky string, boolResult bool) c01Driver {
	if ky == "" {
		ky = kx
	}
	k := kx + "|" + ky + "|arith"
	if boolResult {
		k = kx + "|" + ky + "|bool"
	}
	return c01Drivers[k]
}

func merge[T, U, R any](ms ...map[string]func(T, U) R) map[string]func(T, U) R {
	out := map[string]func(T, U) R{}
	for _, m := range ms {
		for k, v := range m {
			out[k] = v
		}
	}
	return out
}

func regArith[T comparable](kind string, floaty bool, ms ...map[string]func(T, T) T) {
	c01Drivers[kind+"|"+kind+"|arith"] = &c01Drv[T, T, T]{ops: merge(ms...), floaty: floaty,
		nt: func(x, y, r T) bool { return r != x && r != y }}
}

func regCmp[T comparable](kind string, ms ...map[string]func(T, T) bool) {
	c01Drivers[kind+"|"+kind+"|bool"] = &c01Drv[T, T, bool]{ops: merge(ms...),
		nt: func(x, y T, r bool) bool { return r }}
}

func regShift2[T native.Integer, U native.Integer](kx, ky string) {
	c01Drivers[kx+"|"+ky+"|shift"] = &c01Drv[T, U, T]{ops: native.ShiftOps[T, U](),
		nt: func(x T, n U, r T) bool { return r != x }}
}

func c01ShiftDriver(kx, ky string) c01Driver { return c01Drivers[kx+"|"+ky+"|shift"] }

func regShift[T native.Integer](kx string) {
	regShift2[T, int](kx, "int")
	regShift2[T, int8](kx, "int8")
	regShift2[T, int16](kx, "int16")
	regShift2[T, int32](kx, "int32")
	regShift2[T, int64](kx, "int64")
	regShift2[T, uint](kx, "uint")
	regShift2[T, uint8](kx, "uint8")
	regShift2[T, uint16](kx, "uint16")
	regShift2[T, uint32](kx, "uint32")
	regShift2[T, uint64](kx, "uint64")
	regShift2[T, uintptr](kx, "uintptr")
}

func regInteger[T native.Integer](kind string) {
	regArith[T](kind, false, native.IntegerOps[T](), native.IntegerUnary[T]())
	regCmp[T](kind, native.OrderedCmp[T]())
	regShift[T](kind)
}

func regFloat[T native.Float](kind string) {
	regArith[T](kind, true, native.FloatOps[T](), native.FloatUnary[T]())
	regCmp[T](kind, native.OrderedCmp[T]())
}

func regComplex[T native.Complex](kind string) {
	regArith[T](kind, true, native.ComplexOps[T](), native.ComplexUnary[T]())
	regCmp[T](kind, native.EqualCmp[T]())
}

func init() {
	regInteger[int]("int")
	regInteger[int8]("int8")
	regInteger[int16]("int16")
	regInteger[int32]("int32")
	regInteger[int64]("int64")
	regInteger[uint]("uint")
	regInteger[uint8]("uint8")
	regInteger[uint16]("uint16")
	regInteger[uint32]("uint32")
	regInteger[uint64]("uint64")
	regInteger[uintptr]("uintptr")
	regFloat[float32]("float32")
	regFloat[float64]("float64")
	regComplex[complex64]("complex64")
	regComplex[complex128]("complex128")
	regArith[string]("string", false, native.StringOps[string]())
	regCmp[string]("string", native.OrderedCmp[string]())
	// bool: logical operators and ! produce bool from bool: registered as the "arith" driver of bool
	c01Drivers["bool|bool|arith"] = &c01Drv[bool, bool, bool]{ops: merge(native.BoolOps(), native.BoolUnary()),
		nt: func(x, y, r bool) bool { return r }}
	regCmp[bool]("bool", native.EqualCmp[bool]())
}
