package props

// C29 — xreflect types are canonical and agree with reflect (and, for the typing predicates, with go/types).
// See c29_domain.go (which reflect types), c29_attrs.go (attribute comparison), c29_cons.go (constructor composites),
// c29_pairs.go (AssignableTo / ConvertibleTo / Implements over a core).

import (
	"encoding/json"
	"fmt"
	"time"

	xr "github.com/cosmos72/gomacro/xreflect"

	"verif/harness/core"
)

func init() {
	core.Register(&core.Check{ID: "C29", Level: "exploration", Workers: 6, Run: c29Run, Replay: c29Replay})
}

const c29CoreSize = 600

func c29Rule(c *core.Ctx) {
	c.Rule("domain A = every reflect.Type reachable from the import tables (quick: 22 packages, thorough: all) through Types, Binds, element/key/field/parameter/result/method types, plus about 185 compiled corner-case types " +
		"(among them: one struct type reached through several embedded fields at the same and at different depths - diamonds, sibling named types with one underlying struct, through pointers, overrides, self-references - " +
		"and every pattern of tagged/untagged fields over 3 fields and the gap patterns over 4, with one tag string so that a displaced tag yields another type of the list); " +
		"each converted twice in a fresh universe (forward order), re-converted after the universe is warm, and converted in a second universe in reverse order: same object every time, " +
		"and Kind/Size/Align/FieldAlign/String/Name/PkgPath/Comparable/Len/ChanDir/Elem/Key/In/Out/IsVariadic/NumField/Field(i)/FieldByName(every name at every depth)/methods equal reflect's, the go/types half of a struct has reflect's field names, embedding and TAGS position by position, " +
		"a method offered by an embedded type but absent from reflect's method set of *T (ambiguous) is never found exactly once, navigation results canonical; " +
		"domain B = composites built with ArrayOf/ChanOf/MapOf/PtrTo/SliceOf/FuncOf/StructOf/NamedOf to depth 2 over 8 base types, plus StructOf with every tag pattern over 3 fields (exported and unexported first field) and the gap patterns over 4, " +
		"constructed twice and against FromReflectType in both orders, attributes against reflect's own constructors; once all terms exist each is constructed again (same object: nothing was evicted) and " +
		"ALL ordered pairs of distinct terms are compared: never one object, never IdenticalTo, struct/struct AssignableTo as reflect; " +
		"domain C = run-time named struct types (NamedOf/StructOf/AddMethod) mirrored with the standard go/types constructors: 5 leaves (two with one underlying type, two self-referencing), 8 middle definitions each declared twice, " +
		"every struct of 1-2 embedded elements (by value / by pointer, with and without an own field), 3 embedded over 8 types, and 14 named tops embedded alone / in all ordered pairs / next to a leaf (depth 3): " +
		"FieldByName and MethodByName of every field, type and method name, twice (cache), against go/types.LookupFieldOrMethod (count 0 / 1 / ambiguous and the index path); " +
		"predicates IdenticalTo/AssignableTo/ConvertibleTo/Implements over all ordered pairs of a core of up to 600 types (every compiled corner-case type plus a per-class quota of the import tables) against reflect and (where expressible) standard go/types. " +
		"non-trivial = distinct non-predeclared domain types (A), distinct constructor terms (cons), field names resolved through embedding or ambiguous (fbn), ambiguous promoted methods (mbn), selectors of domain C that are ambiguous or resolved through embedding (emb), pairs with a true answer (P) or where reflect and go/types differ (RG)")
	c.Assume("xreflect answers are compared for types whose reflect.Type is exact (compiled types and composites reflect can build); run-time named types, structs with unexported/embedded fields built at run time and emulated interfaces are checked for canonicity only",
		"contract methods added to basic/array/chan/map/slice types by the generics emulation (package-less methods) are not part of Go's method sets and are ignored",
		"promoted fields: Offset is compared only at depth 0 (xreflect documents a cumulative offset)",
		"a field name that occurs unexported in several packages of one embedding tree is skipped (reflect matches by spelling only)")
}

func c29Run(c *core.Ctx) {
	c29Rule(c)
	thorough := c.Thorough()
	d := c29BuildDomain(thorough)
	c.Set("domain_reflect_types", len(d.types))
	c.Set("domain_packages", len(d.paths))
	k := &c29Checker{c: c, thorough: thorough, d: d}

	// ---- domain A, forward order, fresh universe
	mine := func(i int) bool { return c.Mine(d.owner[i]) }
	t0 := time.Now()
	phase := func(name string) { // wall time per phase, reporting only
		c.Count("ms_"+name, int(time.Since(t0)/time.Millisecond))
		t0 = time.Now()
	}
	k.domainPass(xr.NewUniverse(), "forward", mine, -1)
	phase("domain_forward")
	// ---- domain A, reverse order, second fresh universe
	if !c.Expired() {
		k.domainPass(xr.NewUniverse(), "reverse", mine, -1)
	}
	phase("domain_reverse")
	// ---- domain B and the pair core: one worker each
	n := c.NShards
	if n < 1 {
		n = 1
	}
	ts := c29ConsTerms(thorough)
	s2 := 0
	if n > 1 {
		s2 = n - 2
	}
	if c.Shard == n-1 {
		c.Set("constructor_terms", len(ts.list))
		k.consCheck(ts, "cons-first", "")
	}
	if c.Shard == s2 {
		k.consCheck(ts, "reflect-first", "")
	}
	phase("constructors")
	if c.Shard == (n-1)/2 {
		k.pairPass(-1, -1, "")
	}
	phase("pairs")
	// ---- embedding trees of run-time types against the standard go/types selector lookup: one worker
	if c.Shard == 3%n {
		k.embedCheck("")
	}
	phase("embed")
}

// domainPass converts and checks every domain type selected by mine, in the given order, in universe u.
func (k *c29Checker) domainPass(u *xr.Universe, order string, mine func(int) bool, only int) {
	c := k.c
	d := k.d
	k.u, k.order, k.consKey = u, order, ""
	first := map[int]uintptr{}
	idxs := make([]int, 0, len(d.types))
	for i := range d.types {
		if mine(i) {
			idxs = append(idxs, i)
		}
	}
	if order == "reverse" {
		for a, b := 0, len(idxs)-1; a < b; a, b = a+1, b-1 {
			idxs[a], idxs[b] = idxs[b], idxs[a]
		}
	}
	for _, i := range idxs {
		if c.Expired() {
			return
		}
		rt := d.types[i]
		report := only < 0 || only == i
		if k.panicked {
			// a panic inside FromReflectType leaves the universe in an unknown state (queued method scans dropped,
			// importer half-way): report the panic itself, do not pile consequences on it; continue in a fresh universe
			k.panicked = false
			k.u = xr.NewUniverse()
			first = map[int]uintptr{}
			c.Count("universes_discarded_after_panic", 1)
		}
		t := k.from(rt, i)
		if t == nil {
			continue
		}
		first[i] = c29Ptr(t)
		if !report {
			continue
		}
		t2 := k.from(rt, i)
		if t2 == nil {
			continue
		}
		if !t.IdenticalTo(t2) {
			k.viol("twice-not-identical", rt, i, "FromReflectType twice gives non-identical types %v / %v", t, t2)
		} else if c29Ptr(t2) != first[i] {
			k.viol("twice-not-canonical", rt, i, "FromReflectType twice gives identical but distinct objects")
		}
		k.attrs(t, rt, i)
		if c29Generic(rt, 0) {
			continue
		}
		if rt.Name() == "" || rt.PkgPath() != "" {
			c.Nontrivial("A|" + rt.PkgPath() + "|" + rt.String())
		}
		c.Count("kind_"+rt.Kind().String(), 1)
		if c.WantSample() && i%97 == 5 {
			c.Sample(map[string]interface{}{"reflect_type": rt.String(), "xreflect_string": t.String(), "size": rt.Size(), "order": order})
		}
	}
	// warmed universe: the same objects again
	for _, i := range idxs {
		if c.Expired() {
			return
		}
		if only >= 0 && only != i {
			continue
		}
		p, ok := first[i]
		if !ok {
			continue
		}
		rt := d.types[i]
		if k.panicked {
			break
		}
		t := k.from(rt, i)
		c.Eval(1)
		if t != nil && c29Ptr(t) != p {
			k.viol("warm-not-canonical", rt, i, "FromReflectType in the warmed universe returns another object than the first time (identical: %v)", t.IdenticalTo(t))
		}
	}
	k.panicked = false
	c.Count("universe_packages_"+order, len(k.u.Packages))
}

// pairPass runs the predicates over the core (or one pair when i, j >= 0).
func (k *c29Checker) pairPass(i, j int, pred string) {
	c := k.c
	d := k.d
	coreIdx := c29Core(d, c29CoreSize)
	if i >= 0 {
		coreIdx = []int{i, j}
		if i == j {
			coreIdx = []int{i}
		}
	}
	u := xr.NewUniverse()
	k.u, k.order, k.consKey = u, "core", ""
	ts := make([]xr.Type, len(coreIdx))
	for a, idx := range coreIdx {
		ts[a] = k.from(d.types[idx], idx)
	}
	c.Set("core_types", len(coreIdx))
	std := newC29Std()
	k.pairs(coreIdx, ts, std)
	var failed []string
	for p, e := range std.fail {
		failed = append(failed, p+": "+e)
	}
	if len(failed) > 0 {
		c.Set("go_types_import_failures", len(failed))
	}
}

func c29Replay(c *core.Ctx, raw json.RawMessage) {
	var cs c29Case
	if err := json.Unmarshal(raw, &cs); err != nil {
		panic(err)
	}
	c29Rule(c)
	d := c29BuildDomain(cs.Thorough)
	k := &c29Checker{c: c, thorough: cs.Thorough, d: d}
	check := func(i int, s string) {
		if i < 0 || i >= len(d.types) || d.types[i].String() != s {
			panic(fmt.Sprintf("c29 replay: domain type %d is not %s any more", i, s))
		}
	}
	switch cs.Kind {
	case "cons":
		ts := c29ConsTerms(cs.Thorough)
		if ts.by[cs.Recipe] == nil {
			panic("c29 replay: no term " + cs.Recipe)
		}
		k.consCheck(ts, cs.Order, cs.Recipe)
		if c.Violations() == 0 {
			k.consCheck(ts, cs.Order, "") // order-dependent: run the whole sequence
		}
	case "embed":
		k.embedCheck(cs.Recipe)
	case "pair":
		check(cs.Index, cs.Type)
		check(cs.Index2, cs.Other)
		k.pairPass(cs.Index, cs.Index2, cs.Pred)
	default:
		check(cs.Index, cs.Type)
		// the type alone in a fresh universe first; if that does not show it, the whole recorded order
		k.domainPass(xr.NewUniverse(), cs.Order, func(i int) bool { return i == cs.Index }, cs.Index)
		if c.Violations() == 0 {
			k.domainPass(xr.NewUniverse(), cs.Order, func(i int) bool { return true }, cs.Index)
		}
	}
}
