package props

// Nesting chains shared by the C06 escape family and the C08 escaped-address family.
//
// gomacro gives a run-time frame (Env) of its own to every scope that declares variables: a block with a
// declaration, a for/if/switch statement with an init declaration, every range statement, a type switch, a select
// clause with declarations, a function literal. The distance ("upn") between the frame that owns a variable and
// the frame in which &v (or a closure capturing v) is evaluated selects the code path of fast/address.go
// (upn 0, 1, 2, n, file level) and decides WHICH frame must be protected from recycling. A chain is a list of
// wrappers around the site, each adding exactly one frame between the owner of the variable and the site.

import (
	"fmt"
	"strings"
)

var c06Wrappers = []string{"blk", "for", "if", "sw", "rng", "tsw", "sel", "clo"}

// c06WrapOpen / c06WrapClose render wrapper w at nesting level l (names are unique per level).
// The int variable k must be in scope (it only feeds the init statements).
func c06WrapOpen(w string, l int) string {
	switch w {
	case "blk":
		return fmt.Sprintf("{\nw%d := k + %d\n_ = w%d", l, l, l)
	case "for":
		return fmt.Sprintf("for i%d := 0; i%d < 1; i%d++ {", l, l, l)
	case "if":
		return fmt.Sprintf("if y%d := k; y%d > 0 {", l, l)
	case "sw":
		return fmt.Sprintf("switch z%d := k; {\ncase z%d > 0:", l, l)
	case "rng":
		return fmt.Sprintf("for r%d := range [1]int{} {\n_ = r%d", l, l)
	case "tsw":
		return fmt.Sprintf("switch q%d := interface{}(k).(type) {\ncase int:\n_ = q%d", l, l)
	case "sel":
		return fmt.Sprintf("select {\ndefault:\nu%d := k\n_ = u%d", l, l)
	case "clo":
		return "func() {"
	}
	panic("wrapper " + w)
}

func c06WrapClose(w string) string {
	if w == "clo" {
		return "}()"
	}
	return "}"
}

// c06Chain renders "open" and "close" text of a chain such as "for.blk" ("" = no nesting).
func c06Chain(chain string) (open, close string) {
	if chain == "" {
		return "", ""
	}
	ws := strings.Split(chain, ".")
	var o, c []string
	for l, w := range ws {
		o = append(o, c06WrapOpen(w, l+1))
		c = append([]string{c06WrapClose(w)}, c...)
	}
	return strings.Join(o, "\n"), strings.Join(c, "\n")
}

func c06ChainDepth(chain string) int {
	if chain == "" {
		return 0
	}
	return strings.Count(chain, ".") + 1
}

// c06Chains: the bounded alphabet of chains. Every wrapper alone; pairs (quick: each wrapper followed by its
// successor; thorough: all 64); three chains of depth 3 and three of depth 4 (upn >= 3 is one generic code path
// that walks env.Outer in a loop).
func c06Chains(allPairs bool) []string {
	out := []string{""}
	out = append(out, c06Wrappers...)
	n := len(c06Wrappers)
	for i, a := range c06Wrappers {
		if allPairs {
			for _, b := range c06Wrappers {
				out = append(out, a+"."+b)
			}
		} else {
			out = append(out, a+"."+c06Wrappers[(i+1)%n])
		}
	}
	out = append(out, "blk.for.if", "for.rng.blk", "if.sw.tsw",
		"blk.for.if.blk", "for.for.for.for", "rng.clo.blk.for")
	return out
}

// c06ChainsOfDepth returns the chains of c06Chains(false) with the given depth.
func c06ChainsOfDepth(d int) []string {
	var out []string
	for _, c := range c06Chains(false) {
		if c06ChainDepth(c) == d {
			out = append(out, c)
		}
	}
	return out
}

// c06ExactChainsOfDepth: the chains of the given depth in which every wrapper adds exactly ONE frame and none is
// a function literal (a type switch adds two frames; a function literal marks the enclosing frames as captured,
// which keeps them out of the pool whatever the address-taken flag says). With these chains the distance between
// the owner frame and the site equals the depth.
func c06ExactChainsOfDepth(d int) []string {
	var out []string
	for _, c := range c06ChainsOfDepth(d) {
		if !strings.Contains(c, "tsw") && !strings.Contains(c, "clo") {
			out = append(out, c)
		}
	}
	return out
}

// c06Owners: storage classes of the variable whose address / capture escapes.
//
//	param    : a parameter of the maker function
//	local    : a variable declared in the function's outermost block
//	result   : a named result
//	blockvar : a variable declared in a nested block (that block's frame owns it)
//	forvar   : a variable declared in a for-statement header
var c06Owners = []string{"param", "local", "result", "blockvar", "forvar"}
