package props

// C23 — the forked scanner (go/scanner of gomacro) tokenizes extension-free input exactly like the
// standard go/scanner: bounded-exhaustive strings over an alphabet of lexeme fragments, every file of
// GOROOT/src and /repo, and the complete 1-edit neighbourhood of a set of small files; both scan modes.

import (
	"encoding/json"
	"fmt"
	stdscanner "go/scanner"
	"go/token"
	"os"
	"sort"
	"strconv"
	"strings"
	"time"

	"github.com/cosmos72/gomacro/go/etoken"
	gscanner "github.com/cosmos72/gomacro/go/scanner"

	"verif/harness/core"
)

func init() {
	core.Register(&core.Check{ID: "C23", Level: "exploration", Run: c23Run, Replay: c23Replay})
}

// alphabet of lexeme fragments (no '~', no '#', and the letters cannot spell "macro").
var c23Alphabet = []string{
	"0", "1", "9", "_", "x", "b", "o", "e", "p", ".", "+", "-", "'", "\"", "`", "\\", "/", "*",
	"\n", "\r", " ", "a", "i", "\ufeff", "\u00e9", "\x00", "=", "<", ":", ")",
}

type c23Tok struct {
	Off  int
	Line int
	Col  int
	File string
	Tok  token.Token
	Lit  string
}

func (t c23Tok) String() string {
	return fmt.Sprintf("%d(%d:%d) %s %q", t.Off, t.Line, t.Col, etoken.String(t.Tok), t.Lit)
}

func (t c23Tok) autoSemi() bool { return t.Tok == token.SEMICOLON && t.Lit == "\n" }
func (t c23Tok) comment() bool  { return t.Tok == token.COMMENT }

type c23Scan struct {
	Toks  []c23Tok
	Errs  []string
	Panic string
}

// c23World holds the per-goroutine file sets (etoken.FileSet is not safe for concurrent use).
type c23World struct {
	sfs *token.FileSet
	gfs *etoken.FileSet
	n   int
}

func (w *c23World) reset() {
	w.sfs = token.NewFileSet()
	w.gfs = etoken.NewFileSet()
	w.n = 0
}

func (w *c23World) tick() {
	w.n++
	if w.sfs == nil || w.n > 20000 {
		w.reset()
	}
}

func (w *c23World) scanStd(name string, src []byte, comments bool, out *c23Scan) {
	out.Toks, out.Errs, out.Panic = out.Toks[:0], out.Errs[:0], ""
	defer func() {
		if r := recover(); r != nil {
			out.Panic = fmt.Sprint(r)
		}
	}()
	f := w.sfs.AddFile(name, -1, len(src))
	var s stdscanner.Scanner
	var mode stdscanner.Mode
	if comments {
		mode = stdscanner.ScanComments
	}
	s.Init(f, src, func(pos token.Position, msg string) {
		out.Errs = append(out.Errs, fmt.Sprintf("%d:%d: %s", pos.Line, pos.Column, msg))
	}, mode)
	for {
		pos, tok, lit := s.Scan()
		if tok == token.EOF {
			break
		}
		out.Toks = append(out.Toks, c23Tok{Off: int(pos) - f.Base(), Tok: tok, Lit: lit})
	}
	// positions are computed after the scan: line directives and the line table are complete then
	for i := range out.Toks {
		p := f.Position(token.Pos(f.Base() + out.Toks[i].Off))
		out.Toks[i].Line, out.Toks[i].Col, out.Toks[i].File = p.Line, p.Column, p.Filename
	}
}

func (w *c23World) scanFork(name string, src []byte, comments bool, out *c23Scan) {
	out.Toks, out.Errs, out.Panic = out.Toks[:0], out.Errs[:0], ""
	defer func() {
		if r := recover(); r != nil {
			out.Panic = fmt.Sprint(r)
		}
	}()
	f := w.gfs.AddFile(name, -1, len(src), 0)
	var s gscanner.Scanner
	var mode gscanner.Mode
	if comments {
		mode = gscanner.ScanComments
	}
	s.Init(f, src, func(pos token.Position, msg string) {
		out.Errs = append(out.Errs, fmt.Sprintf("%d:%d: %s", pos.Line, pos.Column, msg))
	}, mode, '~')
	limit := 2*len(src) + 16
	for n := 0; ; n++ {
		pos, tok, lit := s.Scan()
		if tok == token.EOF {
			break
		}
		if n > limit {
			out.Panic = "scanner does not terminate"
			return
		}
		out.Toks = append(out.Toks, c23Tok{Off: int(pos) - f.Base(), Tok: tok, Lit: lit})
	}
	for i := range out.Toks {
		p := f.Position(token.Pos(f.Base() + out.Toks[i].Off))
		out.Toks[i].Line, out.Toks[i].Col, out.Toks[i].File = p.Line, p.Column, p.Filename
	}
}

// usesExtension tells whether the input uses one of gomacro's lexical extensions: the macro character '~',
// '#', or the word macro — judged on the standard scanner's token stream (so '~' or '#' inside strings and
// comments do not count).
func c23UsesExtension(std *c23Scan) bool {
	for _, t := range std.Toks {
		switch {
		case t.Tok == token.TILDE:
			return true
		case t.Tok == token.ILLEGAL && (t.Lit == "#" || t.Lit == "~"):
			return true
		case t.Tok == token.IDENT && t.Lit == "macro":
			return true
		}
	}
	return false
}

func c23Equal(a, b []c23Tok) bool {
	if len(a) != len(b) {
		return false
	}
	for i := range a {
		if a[i] != b[i] {
			return false
		}
	}
	return true
}

// c23Classify compares the token streams of one input in one mode. stdC is the standard scanner's stream of the
// same input WITH comments (used to locate comments independently of the mode under test).
// Result: "" identical; "exempt" differs only by the position of the automatic semicolon belonging to a comment
// that ends the input; "autosemi" differs only by the position (and order relative to comments) of automatic
// semicolons that have a comment between the preceding and the following token; otherwise a description.
func c23Classify(std, fork, stdC []c23Tok) (class string, detail string) {
	if c23Equal(std, fork) {
		return "", ""
	}
	// 1. allowed difference: automatic semicolon of the final comment
	lastReal := func(l []c23Tok) int {
		for i := len(l) - 1; i >= 0; i-- {
			if !l[i].autoSemi() && !l[i].comment() {
				return i
			}
		}
		return -1
	}
	finalComment := false
	if lr := lastReal(stdC); true {
		for _, t := range stdC[lr+1:] {
			if t.comment() {
				finalComment = true
			}
		}
	}
	dropTail := func(l []c23Tok) ([]c23Tok, int) {
		lr := lastReal(l)
		out := append([]c23Tok{}, l[:lr+1]...)
		n := 0
		for _, t := range l[lr+1:] {
			if t.autoSemi() {
				n++
			} else {
				out = append(out, t)
			}
		}
		return out, n
	}
	if finalComment {
		s, ns := dropTail(std)
		f, nf := dropTail(fork)
		if ns == nf && c23Equal(s, f) {
			return "exempt", ""
		}
	}
	// 2. automatic semicolons displaced by a comment in the middle of the input
	split := func(l []c23Tok) (real, comm []c23Tok, semis []int) {
		for _, t := range l {
			switch {
			case t.autoSemi():
				semis = append(semis, len(real)) // the semicolon sits after `len(real)` real tokens
			case t.comment():
				comm = append(comm, t)
			default:
				real = append(real, t)
			}
		}
		return
	}
	sr, sc, ss := split(std)
	fr, fc, fs := split(fork)
	if c23Equal(sr, fr) && c23Equal(sc, fc) && len(ss) == len(fs) {
		same := true
		for i := range ss {
			if ss[i] != fs[i] {
				same = false
			}
		}
		if same {
			// every automatic semicolon whose position differs must have a comment between its neighbours
			ok := true
			var stdSemis, forkSemis []c23Tok
			for _, t := range std {
				if t.autoSemi() {
					stdSemis = append(stdSemis, t)
				}
			}
			for _, t := range fork {
				if t.autoSemi() {
					forkSemis = append(forkSemis, t)
				}
			}
			var commentOffs []int
			for _, t := range stdC {
				if t.comment() {
					commentOffs = append(commentOffs, t.Off)
				}
			}
			for i := range stdSemis {
				if stdSemis[i] == forkSemis[i] {
					continue
				}
				// neighbours: real tokens number ss[i]-1 and ss[i]
				lo, hi := -1, 1<<60
				if ss[i] > 0 {
					lo = sr[ss[i]-1].Off
				}
				if ss[i] < len(sr) {
					hi = sr[ss[i]].Off
				}
				// first comment with offset > lo
				j := sort.SearchInts(commentOffs, lo+1)
				if j >= len(commentOffs) || commentOffs[j] >= hi {
					ok = false
					break
				}
			}
			if ok {
				return "autosemi", ""
			}
		}
	}
	// 3. anything else: describe the first difference
	n := len(std)
	if len(fork) < n {
		n = len(fork)
	}
	for i := 0; i < n; i++ {
		if std[i] != fork[i] {
			return "diff", fmt.Sprintf("token #%d: go/scanner %v, fork %v", i, std[i], fork[i])
		}
	}
	if len(std) > n {
		return "diff", fmt.Sprintf("token #%d: go/scanner %v, fork has no more tokens", n, std[n])
	}
	return "diff", fmt.Sprintf("token #%d: go/scanner has no more tokens, fork %v", n, fork[n])
}

type c23Case struct {
	Src      []byte `json:"src_base64"`
	Quoted   string `json:"src_quoted"`
	Comments bool   `json:"scan_comments"`
	Origin   string `json:"origin"`
	Name     string `json:"file_name,omitempty"` // name given to Init (default f.go); its directory is joined to relative //line file names
}

func c23ErrClass(msg string) string {
	// "3:4: illegal character U+0024 '$'" -> "illegal character"
	if i := strings.Index(msg, ": "); i >= 0 {
		msg = msg[i+2:]
	}
	for i, r := range msg {
		if r == '\'' || r == '"' || r == ':' || r == '%' || (r == 'U' && strings.HasPrefix(msg[i:], "U+")) {
			msg = msg[:i]
			break
		}
	}
	return strings.TrimSpace(msg)
}

type c23Worker struct {
	w                  c23World
	std, fork, stdC    c23Scan
	keys               *keyset
	kbuf               []byte
	evals, exempt, ext int64
	errInputs          int64
	name               string // file name passed to both scanners ("" = f.go)
	dirKeys            bool   // line-directive family: record the directive's observable outcome as non-triviality key
}

// check compares both scanners on src in one mode. Returns false when the input is skipped (uses an extension).
func (k *c23Worker) check(c *core.Ctx, vc *vcollector, idx int64, origin string, src []byte, comments bool) bool {
	k.w.tick()
	name := k.name
	if name == "" {
		name = "f.go"
	}
	k.w.scanStd(name, src, comments, &k.std)
	if comments {
		k.stdC.Toks = append(k.stdC.Toks[:0], k.std.Toks...)
	} else {
		k.w.scanStd(name, src, true, &k.stdC)
	}
	if c23UsesExtension(&k.stdC) {
		k.ext++
		return false
	}
	k.w.scanFork(name, src, comments, &k.fork)
	k.evals++
	mk := func(what string) func() (string, interface{}) {
		return func() (string, interface{}) {
			q := strconv.QuoteToASCII(string(src))
			if len(q) > 300 {
				q = q[:300] + "…"
			}
			return fmt.Sprintf("%s (ScanComments=%v) input %s: %s", origin, comments, q, what),
				c23Case{Src: append([]byte{}, src...), Quoted: q, Comments: comments, Origin: origin, Name: k.name}
		}
	}
	// non-triviality key: the standard scanner's token-kind sequence (+ error flag)
	k.kbuf = k.kbuf[:0]
	if comments {
		k.kbuf = append(k.kbuf, 'C')
	} else {
		k.kbuf = append(k.kbuf, 'c')
	}
	if len(k.std.Errs) > 0 {
		k.kbuf = append(k.kbuf, 'E')
	}
	for _, t := range k.std.Toks {
		k.kbuf = append(k.kbuf, byte(t.Tok))
	}
	if len(k.std.Toks) > 0 {
		k.keys.add(k.kbuf)
	}
	if k.dirKeys {
		k.directiveKey()
	}
	switch {
	case k.std.Panic != "":
		vc.add(idx, "C23|harness|go/scanner panics", mk("go/scanner panic: "+k.std.Panic))
		return true
	case k.fork.Panic != "":
		vc.add(idx, "C23|panic", mk("forked scanner panics: "+k.fork.Panic))
		return true
	}
	if (len(k.std.Errs) > 0) != (len(k.fork.Errs) > 0) {
		if len(k.std.Errs) > 0 {
			vc.add(idx, "C23|error-iff|go/scanner only|"+c23ErrClass(k.std.Errs[0]),
				mk(fmt.Sprintf("go/scanner reports %q, the fork reports no error", k.std.Errs[0])))
		} else {
			vc.add(idx, "C23|error-iff|fork only|"+c23ErrClass(k.fork.Errs[0]),
				mk(fmt.Sprintf("the fork reports %q, go/scanner reports no error", k.fork.Errs[0])))
		}
		return true
	}
	if len(k.std.Errs) > 0 {
		k.errInputs++
		return true // error on both sides: the token streams are not promised to agree
	}
	class, detail := c23Classify(k.std.Toks, k.fork.Toks, k.stdC.Toks)
	switch class {
	case "":
	case "exempt":
		k.exempt++
	case "autosemi":
		vc.add(idx, "C23|autosemi-position|comment before the line end, more tokens follow",
			mk(fmt.Sprintf("automatic semicolon of a line that ends in a comment (not the last of the input): go/scanner %v, fork %v",
				c23FirstDiff(k.std.Toks, k.fork.Toks, true), c23FirstDiff(k.std.Toks, k.fork.Toks, false))))
	default:
		sig := "C23|stream"
		if i := c23FirstDiffIdx(k.std.Toks, k.fork.Toks); i >= 0 {
			a, b := "none", "none"
			if i < len(k.std.Toks) {
				a = k.std.Toks[i].Tok.String()
			}
			if i < len(k.fork.Toks) {
				b = etoken.String(k.fork.Toks[i].Tok)
			}
			what := "kind"
			if a == b {
				what = "literal"
				if k.std.Toks[i].Lit == k.fork.Toks[i].Lit {
					what = "position"
				}
			}
			sig = fmt.Sprintf("C23|stream|%s|go/scanner %s|fork %s", what, a, b)
		}
		vc.add(idx, sig, mk(detail))
	}
	return true
}

func c23FirstDiffIdx(a, b []c23Tok) int {
	n := len(a)
	if len(b) < n {
		n = len(b)
	}
	for i := 0; i < n; i++ {
		if a[i] != b[i] {
			return i
		}
	}
	if len(a) != len(b) {
		return n
	}
	return -1
}

func c23FirstDiff(a, b []c23Tok, first bool) string {
	i := c23FirstDiffIdx(a, b)
	l := b
	if first {
		l = a
	}
	if i < 0 || i >= len(l) {
		return "(none)"
	}
	return l[i].String()
}

func (k *c23Worker) publish(c *core.Ctx) {
	c.Eval(int(k.evals))
	c.Count("exempt_final_comment_semicolon", int(k.exempt))
	c.Count("skipped_uses_extension", int(k.ext))
	c.Count("both_report_error", int(k.errInputs))
}

// c23Handcrafted are dense inputs exercising every patched or version-sensitive scanner path.
var c23Handcrafted = []string{
	"package p\n\nvar a = 0x1p-2 + 0b101 + 0o17 + 017 + 1_000.5e+3i + .5 + 0x.8p1\nvar r = '\\'' + '\\x41' + '\\u00e9' + '\\U0001F600' + '\\377' + '\\n'\n" +
		"var s = \"a\\\"b\\\\\\t\\x00\\u1234\" + `raw\r\nline` // trailing\r\n/* block\r\n comment */ var t = a /* in */ + 1 /* multi\nline */\nfunc f() { a++; a--; a <<= 1; a &^= 2; x := <-c; _ = x }\n",
	// (the directives go/scanner reports as invalid are in the last entry: an error on both sides ends the comparison of the whole input)
	"\ufeffpackage p // bom\n//line foo.go:10\nvar x int\n/*line bar.go:20:5*/var y int\n//line :30\nvar x1 int\n//line :31:7\r\nvar x2 int\r\n\t//line notatstart.go:7\nvar z = x + y\n//line big.go:1073741824\nvar w1 int\n/*line d/e.go:7:1073741824*/ var w3 int\n",
	"package p\nfunc f() int {\n\treturn 1 // c\n}\nfunc g() {\n\tbreak /* a */ /* b\n c */ ; continue // d\n\tfallthrough /* e */\n\tx := y /* f */ }\n// final comment",
	"package p\nvar (\n\ta = 1. + 1.e2 + 0x1.p1 + 1i + 0i + 0123i + 0b1i + 07 + 09.5 + 0_7 + 0x_f\n\tb = a == b != c <= d >= e && f || !g &^ h << 2 >> 3 ... )\nvar c = \"\u00e9\u4e16\" + 'é' + '世'\nvar _ = map[string]int{\"a\": 1,}[\"a\":]\n/* unterminated star * / **/ var d = 1 /**/\n",
	"package p\n//line baz.go:0\nvar a int\n//line q.go:4:0\nvar b int\n//line big.go:1073741825\nvar w2 int\n//line big.go:7:1073741825\nvar w3 int\n//line x.go:y\nvar c int\nvar d = 08 + 0b2 + 0x + 1e + 'ab' + 0_\n",
}

func c23Run(c *core.Ctx) {
	c.Rule("four input families, each scanned by the fork (Init(file, src, errh, mode, '~')) and by go/scanner of Go 1.23 in both modes (ScanComments on/off): " +
		"(1) every string of length <= L over a 30-symbol alphabet of lexeme fragments (digits, _, x b o e p a i, . + - = < : ), quotes, backquote, backslash, / *, LF, CR, space, BOM, é, NUL); " +
		"(2) every *.go file of GOROOT/src and /repo plus handcrafted dense files; (3) for N small files every single-byte deletion, duplication and substitution by each of 6 bytes at every offset; " +
		"(4) line directives: the product of comment position (9) x comment form and line end (13: //, /* */, unterminated, spanning lines; LF, CRLF, EOF, tokens on the same line) x directive text (keyword spelling x 7 file names x 17 line texts x 10 column texts x 5 trailing byte strings incl. CR) x continuation (plain tokens | further directives using the previous file name), file name given to Init with a directory; " +
		"and every comment body of length <= 5 over {CR, *, /, a, LF, space} in both comment forms (carriage-return stripping, line-end look-ahead). " +
		"Inputs on which go/scanner produces '~', '#' or the identifier macro as a token are skipped (lexical extensions). Oracle: error reported iff go/scanner reports one; if none, identical (offset, line, column, file, token, literal) streams, " +
		"except the position of the automatic semicolon that belongs to a comment after which no token follows. distinct_nontrivial = distinct (mode, error flag, token-kind sequence) produced by go/scanner")
	c.Assume("go/scanner of the installed Go 1.23 is the reference", "a comment 'ends the input' when no token follows it (only white space / further comments)")
	vc := newVCollector()
	workers := make([]*c23Worker, 64)
	get := func(w int) *c23Worker {
		if workers[w] == nil {
			workers[w] = &c23Worker{keys: newKeyset(c)}
		}
		return workers[w]
	}

	// ---- (1) bounded-exhaustive strings
	A := int64(len(c23Alphabet))
	L := c.Pick(4, 5)
	var total int64
	pow := int64(1)
	starts := []int64{}
	for l := 0; l <= L; l++ {
		starts = append(starts, total)
		total += pow
		pow *= A
	}
	build := func(i int64, buf []byte) []byte {
		l := 0
		for l+1 < len(starts) && i >= starts[l+1] {
			l++
		}
		i -= starts[l]
		buf = buf[:0]
		var syms [8]int
		for j := l - 1; j >= 0; j-- {
			syms[j] = int(i % A)
			i /= A
		}
		for j := 0; j < l; j++ {
			buf = append(buf, c23Alphabet[syms[j]]...)
		}
		return buf
	}
	bufs := make([][]byte, 64)
	parFor(c, total, 8192, func(w int, i int64) {
		k := get(w)
		bufs[w] = build(i, bufs[w])
		k.check(c, vc, 2*i, "string", bufs[w], false)
		k.check(c, vc, 2*i+1, "string", bufs[w], true)
	})
	c23Phase(c, "strings")
	c.Set("strings_max_length", L)
	c.Set("strings_enumerated", total)
	c.Set("alphabet_symbols", len(c23Alphabet))
	base := 2 * total

	// ---- (2) files
	files := corpus()
	nh := int64(len(c23Handcrafted))
	parFor(c, int64(len(files))+nh, 8, func(w int, i int64) {
		k := get(w)
		var src []byte
		origin := ""
		if i < nh {
			src, origin = []byte(c23Handcrafted[i]), fmt.Sprintf("handcrafted#%d", i)
		} else {
			origin = files[i-nh].Path
			if src = readFile(origin); src == nil {
				return
			}
		}
		k.check(c, vc, base+2*i, origin, src, false)
		k.check(c, vc, base+2*i+1, origin, src, true)
	})
	c23Phase(c, "files")
	c.Set("files_swept", len(files)+len(c23Handcrafted))
	base += 2 * (int64(len(files)) + nh)

	// ---- (3) complete 1-edit neighbourhoods
	nsmall := c.Pick(12, 40)
	var seeds [][]byte
	var seedNames []string
	for i, h := range c23Handcrafted {
		seeds = append(seeds, []byte(h))
		seedNames = append(seedNames, fmt.Sprintf("handcrafted#%d", i))
	}
	for _, f := range smallFiles(nsmall-len(seeds), 300, 1100, nil) {
		if src := readFile(f.Path); src != nil {
			seeds = append(seeds, src)
			seedNames = append(seedNames, f.Path)
		}
	}
	subst := []byte{'"', '`', '\'', '\n', '/', '*'}
	type job struct {
		seed int
		off  int
	}
	var jobs []job
	for si, s := range seeds {
		for off := 0; off < len(s); off++ {
			jobs = append(jobs, job{si, off})
		}
	}
	edits := int64(0)
	mbufs := make([][]byte, 64)
	var editCount [64]int64
	parFor(c, int64(len(jobs)), 16, func(w int, i int64) {
		k := get(w)
		j := jobs[i]
		s := seeds[j.seed]
		try := func(e int, m []byte, what string) {
			idx := base + (i*8+int64(e))*2
			origin := fmt.Sprintf("%s %s at offset %d", seedNames[j.seed], what, j.off)
			k.check(c, vc, idx, origin, m, false)
			k.check(c, vc, idx+1, origin, m, true)
			editCount[w]++
		}
		// deletion
		m := append(append(mbufs[w][:0], s[:j.off]...), s[j.off+1:]...)
		try(0, m, "deletion")
		// duplication
		m = append(append(append(m[:0], s[:j.off+1]...), s[j.off]), s[j.off+1:]...)
		try(1, m, "duplication")
		for bi, b := range subst {
			if s[j.off] == b {
				continue
			}
			m = append(append(append(m[:0], s[:j.off]...), b), s[j.off+1:]...)
			try(2+bi, m, fmt.Sprintf("substitution by %q", b))
		}
		mbufs[w] = m
	})
	for _, n := range editCount {
		edits += n
	}
	c23Phase(c, "edits")
	c.Set("edit_seed_files", len(seeds))
	c.Set("edit_inputs", edits)
	base += int64(len(jobs)) * 16

	// ---- (4) line directives and carriage returns in comments (c23_directives.go)
	base = c23Directives(c, vc, get, base)
	c23Phase(c, "directives")
	c23CommentCR(c, vc, get, base)
	c23Phase(c, "comment-cr")

	for _, k := range workers {
		if k != nil {
			k.publish(c)
		}
	}
	vc.flush(c)
	if c.WantSample() {
		c.Sample(map[string]string{"string": "0x_p-1i", "note": "each input is scanned 4 times (2 scanners x 2 modes)"})
		c.Sample(map[string]interface{}{"edit_seeds": seedNames})
	}
}

// c23Phase prints the elapsed time of a phase on stderr when VERIF_TIMING is set (diagnostics only).
func c23Phase(c *core.Ctx, name string) {
	if os.Getenv("VERIF_TIMING") != "" {
		fmt.Fprintf(os.Stderr, "%s: phase %s done at %.1fs\n", c.ID, name, time.Since(c.Start).Seconds())
	}
}

func c23Replay(c *core.Ctx, raw json.RawMessage) {
	var cas c23Case
	if err := json.Unmarshal(raw, &cas); err != nil {
		panic(err)
	}
	vc := newVCollector()
	k := &c23Worker{keys: newKeyset(c), name: cas.Name}
	k.check(c, vc, 0, cas.Origin, cas.Src, cas.Comments)
	vc.flush(c)
}
