package props

// C11, part 2b — the DATA side of concurrent callbacks.
//
// Part 2a (c11.go) explores how foreign goroutines obtain their runtime record (scheduling points: callback
// entry/exit and the spin-lock of the goroutine registry); all its callbacks are func(int) int, which gomacro
// compiles on a type-specialised path, and nothing can be interleaved INSIDE a call. Part 2b explores what a call
// does with its arguments and results while other calls of the same function literal / closure / method /
// proxy are in flight. Scheduling points of a thread that is inside a callback:
//     enter   compiled code is about to invoke the interpreted value
//     alloc   a frame was taken (fast.VerifHooks.Alloc): the callee has received its arguments but has not
//             stored them yet
//     free    a frame is being released (fast.VerifHooks.FreeEnv): the results are computed and not yet handed
//             to the caller; for nested blocks and nested calls this is a point in the middle of a body
//     exit    control is back in compiled code
// Every interleaving of these points within the preemption bound is executed on the real code. The callbacks,
// the interface implementations and their compiled twins are ONE text (package c11cb): compiled Go computes the
// expected result of every call.
//
// Alphabet: constructor (function shape: type-specialised and generic signatures, >= 2 results, named results,
// variadic, struct / interface values, nested interpreted calls, recursion, defer, panic, compiled code calling
// back; declared function, method values; sort.Slice, sort.Interface / fmt.Stringer / io.Reader through proxies)
// x {every thread has its own value made by the same constructor, all threads share one value}
// x {1, 2} foreign goroutines + the interpreter's own goroutine x {1, 2} calls each, different arguments in every call.

import (
	"errors"
	"fmt"
	"io"
	r "reflect"
	"sort"
	"strings"
	"sync"
	"sync/atomic"

	"github.com/cosmos72/gomacro/fast"

	"verif/harness/c11cb"
	"verif/harness/core"
	"verif/harness/sched"
	"verif/harness/twin"
)

type c11WCallback struct {
	Name     string // constructor in package c11cb
	Stateful bool   // the value is consumed by a call (sorted slice, reader): never shared between threads
	NoArgs   bool   // results depend on the value only: sharing it between threads shows nothing
}

var c11WCallbacks = []c11WCallback{
	{Name: "MkPair"}, {Name: "MkLess"}, {Name: "MkTriple"}, {Name: "MkNamed"}, {Name: "MkStrErr"}, {Name: "MkVariadic"},
	{Name: "MkStruct"}, {Name: "MkIface"}, {Name: "MkNested"}, {Name: "MkDefer"}, {Name: "MkRecur"}, {Name: "MkPanic"},
	{Name: "MkSortInside"}, {Name: "MkGlobal"}, {Name: "MkMethodPtr"}, {Name: "MkMethodVal"},
	{Name: "MkInt1"}, {Name: "MkStr1"}, {Name: "MkMapper"}, {Name: "MkNoArg", NoArgs: true},
	{Name: "MkSliceJob", Stateful: true}, {Name: "MkSortJob", Stateful: true}, {Name: "MkStringer", NoArgs: true}, {Name: "MkReader", Stateful: true},
}

// ---- the compiled consumer of a value (the same code runs on the interpreted value and on its compiled twin) ----

func c11Arg(t r.Type, k, pos int) r.Value {
	v := r.New(t).Elem()
	switch t.Kind() {
	case r.Int, r.Int8, r.Int16, r.Int32, r.Int64:
		v.SetInt(int64(k + pos*100))
	case r.Uint, r.Uint8, r.Uint16, r.Uint32, r.Uint64:
		v.SetUint(uint64(k + pos*100))
	case r.String:
		v.SetString(fmt.Sprint("s", k, ".", pos))
	case r.Bool:
		v.SetBool(k%2 == 1)
	case r.Float32, r.Float64:
		v.SetFloat(float64(k) + 0.5)
	case r.Struct:
		for i := 0; i < t.NumField(); i++ {
			v.Field(i).Set(c11Arg(t.Field(i).Type, k, pos+i))
		}
	case r.Interface:
		v.Set(r.ValueOf(k))
	default:
		panic("c11Arg: no value for " + t.String())
	}
	return v
}

// c11Show renders a value by kind only (interpreted named types are unnamed for reflect).
func c11Show(v r.Value) string {
	if !v.IsValid() {
		return "nil"
	}
	switch v.Kind() {
	case r.Interface:
		if v.IsNil() {
			return "nil"
		}
		if v.CanInterface() {
			if e, ok := v.Interface().(error); ok {
				return "error(" + e.Error() + ")"
			}
		}
		return c11Show(v.Elem())
	case r.Ptr:
		if v.IsNil() {
			return "nil"
		}
		if v.CanInterface() {
			if e, ok := v.Interface().(error); ok {
				return "error(" + e.Error() + ")"
			}
		}
		return "&" + c11Show(v.Elem())
	case r.Struct:
		var fs []string
		for i := 0; i < v.NumField(); i++ {
			fs = append(fs, c11Show(v.Field(i)))
		}
		return "{" + strings.Join(fs, " ") + "}"
	case r.Slice:
		if v.IsNil() {
			return "nil-slice"
		}
		fallthrough
	case r.Array:
		var es []string
		for i := 0; i < v.Len(); i++ {
			es = append(es, c11Show(v.Index(i)))
		}
		return "[" + strings.Join(es, " ") + "]"
	case r.String:
		return fmt.Sprintf("%q", v.String())
	case r.Bool:
		return fmt.Sprint(v.Bool())
	case r.Int, r.Int8, r.Int16, r.Int32, r.Int64:
		return fmt.Sprint(v.Int())
	case r.Uint, r.Uint8, r.Uint16, r.Uint32, r.Uint64:
		return fmt.Sprint(v.Uint())
	case r.Float32, r.Float64:
		return fmt.Sprint(v.Float())
	}
	return v.Kind().String()
}

// c11Job is what compiled code does with the value v made by constructor name, in call number k.
// A panic raised by the callback is part of the result, as for any Go function.
func c11Job(name string, v r.Value, k int) (res string) {
	defer func() {
		if p := recover(); p != nil {
			if _, abort := p.(c11Abort); abort {
				panic(p)
			}
			res = fmt.Sprint("PANIC(", p, ")")
		}
	}()
	if v.Kind() == r.Interface && !v.IsNil() {
		v = v.Elem()
	}
	switch name {
	case "MkSliceJob":
		x := v.FieldByName("X").Interface().([]int)
		sort.Slice(x, v.FieldByName("Less").Interface().(func(int, int) bool))
		return fmt.Sprint(x)
	case "MkSortJob":
		s := v.FieldByName("Sorter").Interface().(sort.Interface)
		sort.Sort(s)
		return fmt.Sprint(v.FieldByName("X").Interface().([]int))
	case "MkStringer":
		return v.Interface().(fmt.Stringer).String()
	case "MkReader":
		bs, err := io.ReadAll(v.Interface().(io.Reader))
		return fmt.Sprint(string(bs), err)
	case "MkMapper":
		return strings.Map(v.Interface().(func(rune) rune), fmt.Sprint("a", k%10))
	}
	t := v.Type()
	var args []r.Value
	n := t.NumIn()
	if t.IsVariadic() {
		n--
	}
	for i := 0; i < n; i++ {
		args = append(args, c11Arg(t.In(i), k, i))
	}
	if t.IsVariadic() {
		for i := 0; i < 2+k%2; i++ {
			args = append(args, c11Arg(t.In(n).Elem(), k, n+i))
		}
	}
	var outs []string
	for _, o := range v.Call(args) {
		outs = append(outs, c11Show(o))
	}
	return strings.Join(outs, ",")
}

// c11NativeValue returns the compiled twin of the interpreted expression name(c).
func c11NativeValue(name string, c int) r.Value {
	f, ok := c11cb.Native[name]
	if !ok {
		panic("C11: no compiled twin for " + name)
	}
	return r.ValueOf(f).Call([]r.Value{r.ValueOf(c)})[0]
}

// ---- scenarios ---------------------------------------------------------------------------------------------

type c11WScenario struct {
	Cb     string `json:"constructor"`
	Shared bool   `json:"one_value_shared_by_all_threads"`
	N      int    `json:"foreign_goroutines"`
	Calls  int    `json:"calls_per_thread"`
}

func (sc c11WScenario) String() string {
	mode := "own"
	if sc.Shared {
		mode = "shared"
	}
	return fmt.Sprintf("%s,%s,n=%d,calls=%d", sc.Cb, mode, sc.N, sc.Calls)
}

// the individualising constant of thread t's value, and the argument seed of its j-th call
func (sc c11WScenario) cOf(t int) int {
	if sc.Shared {
		return 5
	}
	return t + 2
}
func c11WK(t, j int) int { return t*10 + j + 3 }

func c11WExpected(sc c11WScenario) string {
	var res []string
	for t := 0; t <= sc.N; t++ {
		var v r.Value
		for j := 0; j < sc.Calls; j++ {
			if j == 0 || c11WStateful(sc.Cb) {
				v = c11NativeValue(sc.Cb, sc.cOf(t)+7*j)
			}
			k := c11WK(t, j)
			res = append(res, fmt.Sprintf("%d=%s", k, c11Job(sc.Cb, v, k)))
		}
	}
	sort.Strings(res)
	return strings.Join(res, " ; ")
}

func c11WStateful(name string) bool {
	for _, cb := range c11WCallbacks {
		if cb.Name == name {
			return cb.Stateful
		}
	}
	return false
}

func c11WScenarios(c *core.Ctx) []c11WScenario {
	var out []c11WScenario
	// quick tier: every constructor with 1 foreign goroutine + the interpreter's goroutine, 1 call each, own and shared values;
	// a second call per thread (frames come back from the pool, stale state after a panic) and a second foreign
	// goroutine for one constructor per mechanism. Thorough: everything, except that the constructors whose job
	// makes many calls (heavy) get a second goroutine OR a second call, not both.
	twoCalls := map[string]bool{"MkPair": true, "MkNested": true, "MkInt1": true, "MkPanic": true, "MkDefer": true}
	twoGoroutines := map[string]bool{"MkPair": true, "MkInt1": true, "MkStringer": true}
	heavy := map[string]bool{"MkSortJob": true, "MkSliceJob": true, "MkNested": true, "MkSortInside": true, "MkMapper": true, "MkRecur": true, "MkReader": true}
	for _, cb := range c11WCallbacks {
		for _, shared := range []bool{false, true} {
			if shared && (cb.Stateful || cb.NoArgs) {
				continue
			}
			for _, n := range []int{1, 2} {
				for calls := 1; calls <= 2; calls++ {
					if c.Quick() {
						if (n == 2 && calls == 2) || (n == 2 && !twoGoroutines[cb.Name]) || (calls == 2 && !twoCalls[cb.Name]) || (shared && (n == 2 || calls == 2)) {
							continue
						}
					} else if n == 2 && calls == 2 && (heavy[cb.Name] || shared) {
						continue
					}
					out = append(out, c11WScenario{Cb: cb.Name, Shared: shared, N: n, Calls: calls})
				}
			}
		}
	}
	return out
}

// ---- one execution -----------------------------------------------------------------------------------------

type c11WCase struct {
	Kind     string       `json:"kind"` // "window"
	Scenario c11WScenario `json:"scenario"`
	Schedule []int        `json:"schedule"`
	Note     string       `json:"note"`
}

var c11WSource = c11cb.Source()

// windowPoint parks the calling thread if it is inside a callback job of a window execution.
func (m *c11Model) windowPoint(s *sched.S, tid int, kind string) {
	m.mu.Lock()
	in := m.window && m.inside[tid] > 0
	m.mu.Unlock()
	if in && !s.PointOK(sched.Op{Kind: kind}) {
		panic(c11Abort{})
	}
}

func c11WExec(sc c11WScenario, prefix []int) c11Outcome {
	m := newC11Model()
	m.window = true
	sched.Install(m.callbacks())
	var panicked interface{}
	x := sched.RunOnce(m, prefix, 900, func(s *sched.S) {
		m.mu.Lock()
		m.s = s
		m.mu.Unlock()
		record := func(k int, v string) {
			m.mu.Lock()
			m.results = append(m.results, fmt.Sprintf("%d=%s", k, v))
			m.mu.Unlock()
		}
		ir := twin.NewFast() // created inside thread "0": registered under thread 0's virtual identity
		var mk r.Value
		value := func(t, j int) r.Value {
			return mk.Call([]r.Value{r.ValueOf(sc.cOf(t) + 7*j)})[0]
		}
		// job runs the calls of thread t; values are made by the interpreter's own goroutine before the threads start
		vals := map[[2]int]r.Value{}
		job := func(t int) {
			tid := s.Tid()
			for j := 0; j < sc.Calls; j++ {
				k := c11WK(t, j)
				v := vals[[2]int{t, 0}]
				if w, ok := vals[[2]int{t, j}]; ok {
					v = w
				}
				m.mu.Lock()
				m.inside[tid]++
				m.mu.Unlock()
				m.windowPoint(s, tid, "enter")
				res := c11Job(sc.Cb, v, k)
				m.windowPoint(s, tid, "exit")
				m.mu.Lock()
				m.inside[tid]--
				m.mu.Unlock()
				record(k, res)
			}
		}
		ir.DeclFunc("MainJob", func() { job(0) })
		ir.DeclFunc("Join", func() {
			if !s.PointOK(sched.Op{Kind: "join"}) {
				panic(c11Abort{})
			}
		})
		panicked = twin.Catch(func() {
			for _, im := range c11cb.Imports {
				ir.Eval(fmt.Sprintf("import %q", im))
			}
			ir.Eval(c11WSource)
			ir.Eval("func Scenario() {\n\tx := 1\n\tMainJob()\n\tJoin()\n\t_ = x\n}")
			mk = ir.ValueOf(sc.Cb).ReflectValue()
			for t := 0; t <= sc.N; t++ {
				for j := 0; j < sc.Calls; j++ {
					if j == 0 || c11WStateful(sc.Cb) {
						if sc.Shared && t > 0 {
							vals[[2]int{t, j}] = vals[[2]int{0, j}]
						} else {
							vals[[2]int{t, j}] = value(t, j)
						}
					}
				}
			}
			for t := 1; t <= sc.N; t++ {
				t := t
				s.Go(func() {
					defer func() {
						if p := recover(); p != nil {
							if _, abort := p.(c11Abort); !abort {
								m.mu.Lock()
								m.viol = append(m.viol, fmt.Sprintf("foreign goroutine panicked: %v", p))
								m.mu.Unlock()
							}
						}
					}()
					job(t)
				})
			}
			ir.Eval("Scenario()")
		})
	})
	m.mu.Lock()
	defer m.mu.Unlock()
	out := c11Outcome{x: x, viol: append([]string{}, m.viol...)}
	if panicked != nil {
		if _, abort := panicked.(c11Abort); !abort {
			out.viol = append(out.viol, fmt.Sprintf("main thread panicked: %v", panicked))
		}
	}
	sort.Strings(m.results)
	out.results = strings.Join(m.results, " ; ")
	return out
}

// c11RunWindow explores every scenario of part 2b.
func c11RunWindow(c *core.Ctx, work *int, outcomes map[string]bool, samples *int) {
	scen := c11WScenarios(c)
	c.Set("window_scenarios", len(scen))
	c.Set("window_constructors", len(c11WCallbacks))
	for _, sc := range scen {
		if c.Expired() {
			return
		}
		sc := sc
		bound := 2
		if c.Thorough() && sc.N == 1 && sc.Calls == 1 && sc.Cb != "MkSortJob" && sc.Cb != "MkSliceJob" {
			bound = 3
		}
		c11Explore(c, &c11Unit{
			name:    "window_executions[" + sc.String() + "]",
			sigBase: "C11|concurrent-data|" + sc.Cb + "|",
			desc:    fmt.Sprintf("scenario %+v", sc),
			bound:   bound,
			want:    c11WExpected(sc),
			exec:    func(prefix []int) c11Outcome { return c11WExec(sc, prefix) },
			cas: func(schedule []int) interface{} {
				return c11WCase{Kind: "window", Scenario: sc, Schedule: schedule,
					Note: "interpreted source: harness/c11cb/callbacks.go from the marker line on; thread t calls " + sc.Cb + "(c) values from compiled code (props.c11Job)"}
			},
			sample: func() interface{} { return sc },
		}, work, outcomes, samples)
	}
}

// ---- additive part: the same jobs free-running on real goroutines ----------------------------------------------
//
// Not a bounded-exhaustive exploration and not what decides the property: real goroutines, every result compared
// with compiled Go. It covers windows in which the cooperative scheduler has no scheduling point (e.g. inside
// xreflect.MakeFunc or reflect itself). A wrong result is a proof of a violation; the absence of one proves nothing.

type c11StressCase struct {
	Kind   string `json:"kind"` // "stress"
	Cb     string `json:"constructor"`
	Shared bool   `json:"one_value_shared_by_all_threads"`
	G      int    `json:"goroutines"`
	Calls  int    `json:"calls_per_goroutine"`
}

func c11StressOne(ir *twin.Interp, cb c11WCallback, shared bool, G, calls int) (wrong int64, first string, crashed interface{}) {
	mk := ir.ValueOf(cb.Name).ReflectValue()
	type call struct {
		v    r.Value
		k    int
		want string
	}
	plan := make([][]call, G)
	var sharedV, sharedN r.Value
	if shared {
		sharedV = mk.Call([]r.Value{r.ValueOf(5)})[0]
		sharedN = c11NativeValue(cb.Name, 5)
	}
	wantCache := map[[2]int]string{}
	for g := 0; g < G; g++ {
		var own, ownN r.Value
		if !shared && !cb.Stateful {
			own = mk.Call([]r.Value{r.ValueOf(g + 2)})[0]
			ownN = c11NativeValue(cb.Name, g+2)
		}
		for j := 0; j < calls; j++ {
			k := g*1000 + j%37 + 3
			cl := call{k: k}
			switch {
			case shared:
				cl.v = sharedV
				key := [2]int{-1, k}
				if _, ok := wantCache[key]; !ok {
					wantCache[key] = c11Job(cb.Name, sharedN, k)
				}
				cl.want = wantCache[key]
			case cb.Stateful:
				cc := g + 2 + j%5
				cl.v = mk.Call([]r.Value{r.ValueOf(cc)})[0]
				cl.want = c11Job(cb.Name, c11NativeValue(cb.Name, cc), k)
			default:
				cl.v = own
				key := [2]int{g, k}
				if _, ok := wantCache[key]; !ok {
					wantCache[key] = c11Job(cb.Name, ownN, k)
				}
				cl.want = wantCache[key]
			}
			plan[g] = append(plan[g], cl)
		}
	}
	var wg sync.WaitGroup
	var mu sync.Mutex
	start := make(chan struct{})
	for g := 0; g < G; g++ {
		g := g
		wg.Add(1)
		go func() {
			defer wg.Done()
			defer func() {
				if p := recover(); p != nil {
					mu.Lock()
					if crashed == nil {
						crashed = p
					}
					mu.Unlock()
				}
			}()
			<-start
			for _, cl := range plan[g] {
				if got := c11Job(cb.Name, cl.v, cl.k); got != cl.want {
					if atomic.AddInt64(&wrong, 1) == 1 {
						mu.Lock()
						first = fmt.Sprintf("goroutine %d call k=%d: compiled Go %q, interpreted callback %q", g, cl.k, cl.want, got)
						mu.Unlock()
					}
				}
			}
		}()
	}
	close(start)
	wg.Wait()
	return
}

func c11StressInterp() *twin.Interp {
	ir := twin.NewFast()
	for _, im := range c11cb.Imports {
		ir.Eval(fmt.Sprintf("import %q", im))
	}
	ir.Eval(c11WSource)
	return ir
}

func c11RunStress(c *core.Ctx) {
	G, calls := 4, c.Pick(4000, 60000)
	c.Assume("the free-running stress part (real goroutines, every result compared with compiled Go) is additive: it can only add violations, its silence is not used as evidence")
	var ir *twin.Interp
	n := 0
	for _, cb := range c11WCallbacks {
		for _, shared := range []bool{false, true} {
			if shared && (cb.Stateful || cb.NoArgs) {
				continue
			}
			n++
			if !c.Mine(n) || c.Expired() {
				continue
			}
			if ir == nil {
				ir = c11StressInterp()
			}
			wrong, first, crashed := c11StressOne(ir, cb, shared, G, calls)
			c.Count("stress_calls", G*calls)
			cas := c11StressCase{Kind: "stress", Cb: cb.Name, Shared: shared, G: G, Calls: calls}
			if crashed != nil {
				c.Violation("C11|concurrent-stress|"+cb.Name+"|panic", fmt.Sprintf("%s (shared=%v) called from %d real goroutines: panic %v", cb.Name, shared, G, crashed), cas)
			}
			if wrong > 0 {
				c.Violation("C11|concurrent-stress|"+cb.Name+"|results", fmt.Sprintf("%s (shared=%v) called from %d real goroutines x %d calls: %d wrong results, first: %s", cb.Name, shared, G, calls, wrong, first), cas)
			}
		}
	}
}

var _ = errors.New
var _ fast.Env
