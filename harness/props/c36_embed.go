package props

// C36, family "embedding lattice": which promoted names are VALID selectors is decided by Go's depth / ambiguity rule,
// which the single embedded type E of the declaration-sequence family never exercises. Here every struct type of a
// bounded lattice is declared in the interpreter and completed through a value variable, a pointer variable and the
// type name:
//   leaves    12 struct types  L<i>: the exported name Ab ∈ {absent, field, value method, pointer method} ×
//                                    the unexported name ab ∈ {absent, field, value method}
//             3 interface types I<j>: {Ab()}, {ab()}, {Ab(); ab()}
//   wrappers  M<i> = struct{ L<i> },  P<i> = struct{ L<i> }           (one level deeper)
//   units     pair     struct{ e1; e2 }            e ∈ { L<i>, *L<i>, I<j> }, every ordered pair of distinct leaves
//             pair+own struct{ L<i>; L<j>; Ab int } and struct{ L<i>; L<j> } with its own method ab (shadowing)
//             depth    struct{ M<i>; e2 }          (depth 2 against depth 1, L<i> itself reachable at two depths)
//             diamond  struct{ M<i>; P<j> }        (collisions at depth 2; i == j: the same type along two paths)
//             triple   struct{ L<i>; L<j>; L<k> }  (three candidates at one depth)
// words: every prefix of Ab / ab / the embedded type names, and one more step `q.<name>.` through every such name
// (a field: its members; a method or an ambiguous name: nothing).
// Oracle: go/types. The same declarations are type-checked as a Go package and a name n is valid after `q.` exactly
// when types.LookupFieldOrMethod(type of q, addressable, pkg, n) finds an object (that is: `q.n` compiles).

import (
	"fmt"
	"go/ast"
	"go/parser"
	"go/token"
	"go/types"
	"sort"
	"strings"

	"github.com/cosmos72/gomacro/fast"

	"verif/harness/core"
	"verif/harness/twin"
)

type c36EmbUnit struct {
	ID    int
	Class string
	Decl  string   // type S<ID> …, its own methods, var v<ID> S<ID>, var p<ID> *S<ID>
	Emb   []string // names of the directly embedded fields
}

type c36EmbItem struct {
	leaf string // type name
	ptr  bool
}

func (it c36EmbItem) src() string {
	if it.ptr {
		return "*" + it.leaf
	}
	return it.leaf
}

const c36EmbStructLeaves = 12

// c36EmbPrelude returns the declarations shared by all units.
func c36EmbPrelude() string {
	var sb strings.Builder
	i := 0
	for _, A := range []string{"", "field", "vmethod", "pmethod"} {
		for _, a := range []string{"", "field", "vmethod"} {
			n := fmt.Sprintf("L%d", i)
			var fields []string
			if A == "field" {
				fields = append(fields, "Ab int")
			}
			if a == "field" {
				fields = append(fields, "ab int")
			}
			fmt.Fprintf(&sb, "type %s struct { %s }\n", n, strings.Join(fields, "; "))
			switch A {
			case "vmethod":
				fmt.Fprintf(&sb, "func (%s) Ab() {}\n", n)
			case "pmethod":
				fmt.Fprintf(&sb, "func (*%s) Ab() {}\n", n)
			}
			if a == "vmethod" {
				fmt.Fprintf(&sb, "func (%s) ab() {}\n", n)
			}
			fmt.Fprintf(&sb, "type M%d struct { %s }\n", i, n)
			fmt.Fprintf(&sb, "type P%d struct { %s }\n", i, n)
			i++
		}
	}
	if i != c36EmbStructLeaves {
		panic("C36 embedded family: leaf count")
	}
	sb.WriteString("type I0 interface { Ab() }\n")
	sb.WriteString("type I1 interface { ab() }\n")
	sb.WriteString("type I2 interface { Ab(); ab() }\n")
	return sb.String()
}

func c36EmbUnits() []c36EmbUnit {
	var items []c36EmbItem
	for i := 0; i < c36EmbStructLeaves; i++ {
		items = append(items, c36EmbItem{fmt.Sprintf("L%d", i), false}, c36EmbItem{fmt.Sprintf("L%d", i), true})
	}
	for j := 0; j < 3; j++ {
		items = append(items, c36EmbItem{fmt.Sprintf("I%d", j), false})
	}
	var units []c36EmbUnit
	add := func(class string, embedded []string, names []string, own string) {
		id := len(units)
		S := fmt.Sprintf("S%d", id)
		body := strings.Join(embedded, "; ")
		decl := fmt.Sprintf("type %s struct { %s }\n", S, body)
		if own != "" {
			decl += fmt.Sprintf(own, S) + "\n"
		}
		decl += fmt.Sprintf("var v%d %s\nvar p%d *%s", id, S, id, S)
		units = append(units, c36EmbUnit{ID: id, Class: class, Decl: decl, Emb: names})
	}
	for _, e1 := range items {
		for _, e2 := range items {
			if e1.leaf == e2.leaf {
				continue
			}
			add("pair", []string{e1.src(), e2.src()}, []string{e1.leaf, e2.leaf}, "")
		}
	}
	for i := 0; i < c36EmbStructLeaves; i++ {
		for j := 0; j < c36EmbStructLeaves; j++ {
			if i == j {
				continue
			}
			li, lj := fmt.Sprintf("L%d", i), fmt.Sprintf("L%d", j)
			add("pair+own-field", []string{li, lj, "Ab int"}, []string{li, lj}, "")
			add("pair+own-method", []string{li, lj}, []string{li, lj}, "func (%s) ab() {}")
		}
	}
	for i := 0; i < c36EmbStructLeaves; i++ {
		for _, e2 := range items {
			mi := fmt.Sprintf("M%d", i)
			add("depth", []string{mi, e2.src()}, []string{mi, e2.leaf}, "")
		}
	}
	for i := 0; i < c36EmbStructLeaves; i++ {
		for j := 0; j < c36EmbStructLeaves; j++ {
			mi, pj := fmt.Sprintf("M%d", i), fmt.Sprintf("P%d", j)
			add("diamond", []string{mi, pj}, []string{mi, pj}, "")
		}
	}
	// three candidates at one depth: the leaves without the unexported name (L0 L3 L6 L9)
	tri := []string{"L0", "L3", "L6", "L9"}
	for _, a := range tri {
		for _, b := range tri {
			for _, c := range tri {
				if a == b || a == c || b == c {
					continue
				}
				add("triple", []string{a, b, c}, []string{a, b, c}, "")
			}
		}
	}
	return units
}

// ---------------------------------------------------------------------------------------------
// the go/types oracle

type c36EmbOracle struct {
	pkg *types.Package
}

func c36NewEmbOracle(units []c36EmbUnit) (*c36EmbOracle, error) {
	var sb strings.Builder
	sb.WriteString("package p\n")
	sb.WriteString(c36EmbPrelude())
	for _, u := range units {
		sb.WriteString(u.Decl)
		sb.WriteString("\n")
	}
	fset := token.NewFileSet()
	f, err := parser.ParseFile(fset, "p.go", sb.String(), 0)
	if err != nil {
		return nil, err
	}
	conf := types.Config{}
	pkg, err := conf.Check("p", fset, []*ast.File{f}, nil)
	if err != nil {
		return nil, err
	}
	return &c36EmbOracle{pkg: pkg}, nil
}

func (o *c36EmbOracle) typeOf(name string) types.Type {
	obj := o.pkg.Scope().Lookup(name)
	if obj == nil {
		panic("C36 embedded family: go/types has no " + name)
	}
	return obj.Type()
}

func c36Deref(t types.Type) types.Type {
	if p, ok := t.Underlying().(*types.Pointer); ok {
		return p.Elem()
	}
	return t
}

// occurrences lists, per depth, how many fields and methods are called name in t (Go's breadth-first search);
// used to enumerate the candidate names and to label a mismatch.
func c36EmbNames(t types.Type) map[string]bool {
	names := map[string]bool{}
	seen := map[types.Type]bool{}
	var walk func(t types.Type)
	walk = func(t types.Type) {
		t = c36Deref(t)
		if seen[t] {
			return
		}
		seen[t] = true
		if n, ok := t.(*types.Named); ok {
			for i := 0; i < n.NumMethods(); i++ {
				names[n.Method(i).Name()] = true
			}
		}
		switch u := t.Underlying().(type) {
		case *types.Struct:
			for i := 0; i < u.NumFields(); i++ {
				f := u.Field(i)
				names[f.Name()] = true
				if f.Embedded() {
					walk(f.Type())
				}
			}
		case *types.Interface:
			for i := 0; i < u.NumMethods(); i++ {
				names[u.Method(i).Name()] = true
			}
		}
	}
	walk(t)
	return names
}

// c36EmbShallowest: number of fields and methods called name at the shallowest depth where it occurs in t.
func c36EmbShallowest(t types.Type, name string) (fields, methods int) {
	level := []types.Type{c36Deref(t)}
	seen := map[types.Type]bool{}
	for len(level) > 0 {
		var next []types.Type
		for _, t := range level {
			if n, ok := t.(*types.Named); ok {
				for i := 0; i < n.NumMethods(); i++ {
					if n.Method(i).Name() == name {
						methods++
					}
				}
			}
			switch u := t.Underlying().(type) {
			case *types.Struct:
				for i := 0; i < u.NumFields(); i++ {
					f := u.Field(i)
					if f.Name() == name {
						fields++
					}
					if f.Embedded() {
						ft := c36Deref(f.Type())
						if !seen[ft] {
							next = append(next, ft)
						}
					}
				}
			case *types.Interface:
				for i := 0; i < u.NumMethods(); i++ {
					if u.Method(i).Name() == name {
						methods++
					}
				}
			}
		}
		if fields+methods > 0 {
			return
		}
		for _, t := range level {
			seen[t] = true
		}
		level = next
	}
	return
}

// complete: the reference for `q.w1.….wn` where q has type t. ok=false: the chain passes through a type outside the family.
func (o *c36EmbOracle) complete(t types.Type, words []string) (names []string, last types.Type, ok bool) {
	for _, w := range words[:len(words)-1] {
		if _, basic := t.Underlying().(*types.Basic); basic {
			return nil, nil, true // operator methods: nothing follows a method
		}
		obj, _, _ := types.LookupFieldOrMethod(t, true, o.pkg, w)
		v, isVar := obj.(*types.Var)
		if !isVar || !v.IsField() {
			return nil, nil, true // a method, an ambiguous or unknown name: nothing can follow
		}
		t = v.Type()
	}
	prefix := words[len(words)-1]
	var cands []string
	if b, basic := t.Underlying().(*types.Basic); basic {
		switch b.Kind() {
		case types.Int:
			cands = c36CtiInt
		case types.String:
			cands = c36CtiString
		default:
			return nil, nil, false
		}
		for _, n := range cands {
			if strings.HasPrefix(n, prefix) {
				names = append(names, n)
			}
		}
		sort.Strings(names)
		return names, t, true
	}
	for n := range c36EmbNames(t) {
		if !strings.HasPrefix(n, prefix) {
			continue
		}
		if obj, _, _ := types.LookupFieldOrMethod(t, true, o.pkg, n); obj != nil {
			names = append(names, n)
		}
	}
	sort.Strings(names)
	return names, t, true
}

// ---------------------------------------------------------------------------------------------

var c36EmbWords = []string{"", "A", "Ab", "Abc", "a", "ab", "L", "L1", "M", "M1", "P", "I", "z"}
var c36EmbWords2 = []string{"", "A", "a", "L"}

func c36EmbLines(u *c36EmbUnit) []string {
	var ls []string
	for _, q := range []string{fmt.Sprintf("v%d", u.ID), fmt.Sprintf("p%d", u.ID), fmt.Sprintf("S%d", u.ID)} {
		for _, w := range c36EmbWords {
			ls = append(ls, q+"."+w)
		}
		if q[0] == 'S' {
			continue
		}
		mids := append([]string{"Ab", "ab"}, u.Emb...)
		for _, mid := range mids {
			for _, w := range c36EmbWords2 {
				ls = append(ls, q+"."+mid+"."+w)
			}
		}
	}
	return ls
}

type c36EmbWorld struct {
	w        *c36World
	declared map[int]bool
	oracle   *c36EmbOracle
	units    []c36EmbUnit
}

func c36NewEmbWorld(c *core.Ctx) *c36EmbWorld {
	units := c36EmbUnits()
	o, err := c36NewEmbOracle(units)
	if err != nil {
		panic(fmt.Sprint("C36 embedded family: the declarations are not valid Go: ", err))
	}
	ew := &c36EmbWorld{declared: map[int]bool{}, oracle: o, units: units}
	ew.w = &c36World{outer: fast.New(), m: c36NewModel()}
	g := &ew.w.outer.Comp.Globals
	g.Stdout = &ew.w.out
	g.Stderr = &ew.w.out
	if p := twin.Catch(func() { ew.w.outer.Eval(c36EmbPrelude()) }); p != nil {
		c.Violation("C36|declaration-rejected|embedded-family", fmt.Sprint("the leaf declarations are rejected: ", p), c36Case{Family: "embedded"})
		return nil
	}
	return ew
}

func (ew *c36EmbWorld) declare(c *core.Ctx, u *c36EmbUnit) bool {
	if ew.declared[u.ID] {
		return true
	}
	if p := twin.Catch(func() { ew.w.outer.Eval(u.Decl) }); p != nil {
		c.Violation("C36|declaration-rejected|embedded-family|"+u.Class, fmt.Sprintf("valid Go declarations rejected: %q: %v", u.Decl, p), c36Case{Family: "embedded", Unit: u.ID})
		return false
	}
	ew.declared[u.ID] = true
	return true
}

func (ew *c36EmbWorld) check(c *core.Ctx, k *c36Checker, u *c36EmbUnit, line string, pos int) {
	head := line[:pos]
	words := strings.Split(head, ".")
	if len(words) < 2 {
		return
	}
	qt := ew.oracle.typeOf(words[0])
	names, last, ok := ew.oracle.complete(qt, words[1:])
	if !ok {
		k.excluded++
		return
	}
	w := words[len(words)-1]
	want := &c36Want{Names: names, Head: head[:len(head)-len(w)], Qual: "embedded-lattice"}
	want.class = func(name string, missing bool) string {
		if last == nil {
			return "after-a-name-nothing-can-follow"
		}
		if _, basic := last.Underlying().(*types.Basic); basic {
			return "operator-method"
		}
		f, m := c36EmbShallowest(last, name)
		vis := "unexported"
		if token.IsExported(name) {
			vis = "exported"
		}
		switch {
		case f > 0 && m > 0:
			return "ambiguous:field+method-at-one-depth:" + vis
		case f > 1:
			return "ambiguous:field+field-at-one-depth:" + vis
		case m > 1:
			return "ambiguous:method+method-at-one-depth:" + vis
		case f+m == 1:
			return "unambiguous:" + vis
		}
		return "not-a-member"
	}
	k.queries++
	if len(names) > 0 {
		k.nonEmpt++
		c.Nontrivial("embedded|" + u.Decl + "|" + head)
	}
	k.unit = u.ID
	k.checkOne(ew.w, ew.w.outer, []c36Op{{Kind: "raw", Arg: u.Decl}}, false, line, pos, want)
}

func c36EmbeddedFamily(c *core.Ctx, k *c36Checker, only *c36Case) {
	ew := c36NewEmbWorld(c)
	if ew == nil {
		return
	}
	k.family = "embedded"
	defer func() { k.family, k.unit = "", 0 }()
	if only != nil {
		if only.Unit < 0 || only.Unit >= len(ew.units) {
			return
		}
		u := &ew.units[only.Unit]
		if ew.declare(c, u) && only.Line != "" {
			ew.check(c, k, u, only.Line, only.Pos)
		}
		return
	}
	nUnits, nAmb := 0, 0
	for i := range ew.units {
		u := &ew.units[i]
		if !c.Mine(u.ID) || c.Expired() {
			continue
		}
		if !ew.declare(c, u) {
			continue
		}
		nUnits++
		// vacuity: how many names of the unit's closure are NOT valid selectors (ambiguous)
		st := ew.oracle.typeOf(fmt.Sprintf("S%d", u.ID))
		for n := range c36EmbNames(st) {
			if obj, _, _ := types.LookupFieldOrMethod(st, true, ew.oracle.pkg, n); obj == nil {
				nAmb++
			}
		}
		for _, line := range c36EmbLines(u) {
			ew.check(c, k, u, line, len(line))
		}
	}
	c.Count("embedded_family_struct_types", nUnits)
	c.Count("embedded_family_ambiguous_names", nAmb)
}
