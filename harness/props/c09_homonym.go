package props

// C09, third part: ONE name, several kinds of members.
//
// The base alphabet (c09.go) gives every member its own name: X is always a field, M and P are always methods, so the
// arbitration between a field and a method of the same name found at different depths (fast/selector.go
// TryLookupFieldOrMethod on top of the two separate, separately cached breadth-first searches of xreflect/lookup.go)
// is never exercised. Here every type of the embedding DAG independently gives the name Q one of five roles:
// absent, field `Q int`, field `Q func() int`, method `Q() int` with a value receiver, method `Q() int` with a
// pointer receiver. Go resolves `x.Q` to the shallowest declaration whatever its kind and rejects the selector when
// two declarations (of any kinds) sit at the shallowest depth. The hierarchy is combined with three configurations of
// *unrelated* methods (none anywhere / M on T0 / M and P on every type): look-up shortcuts keyed on "does this type
// declare methods" are then visible.
//
// Second dimension: *when* a method is declared. In the "late" hierarchies the methods of one type are declared in
// a second chunk, after every site has been compiled and run once against the first chunk: whatever the first
// look-ups cached must not survive a declaration that changes the answer (a shallower method appears, an ambiguity
// appears). Compiled Go sees one program.

import (
	"fmt"
	"go/types"
	"strings"

	"verif/harness/core"
)

func (hr *c09Hier) anyLate() bool {
	for k := 0; k < hr.n; k++ {
		if hr.late[k] {
			return true
		}
	}
	return false
}

func (hr *c09Hier) hasRole(roles string) bool {
	for k := 0; k < hr.n; k++ {
		if hr.q[k] != 0 && strings.IndexByte(roles, hr.q[k]) >= 0 {
			return true
		}
	}
	return false
}

// qShadowed describes what lies below the shallowest declarations of Q (part of the signature): the members of the
// other kind (fields below a method, methods below a field) at their own shallowest depth — one ("+over-field",
// "+over-method") or several ("+over-ambiguous-fields", "+over-ambiguous-methods"). Embedded types are counted once
// per path, at the depth where they are first reached, as Go's selector rule does.
func (hr *c09Hier) qShadowed() string {
	seen := [4]bool{true}
	level := map[int]int{0: 1} // type -> number of paths at the current depth
	type cnt struct{ fields, methods int }
	var found []cnt
	for len(level) > 0 {
		var c cnt
		next := map[int]int{}
		for k, paths := range level {
			switch hr.q[k] {
			case 'F', 'G':
				c.fields += paths
			case 'm', 'p':
				c.methods += paths
			}
			for j := k + 1; j < hr.n; j++ {
				if hr.edge[k][j] != 0 && !seen[j] {
					next[j] += paths
				}
			}
		}
		for j := range next {
			seen[j] = true
		}
		found = append(found, c)
		level = next
	}
	d0 := -1
	for d, c := range found {
		if c.fields+c.methods > 0 {
			d0 = d
			break
		}
	}
	if d0 < 0 || found[d0].fields+found[d0].methods != 1 {
		return "" // undeclared or ambiguous at the shallowest depth
	}
	isField := found[d0].fields == 1
	for _, c := range found[d0+1:] {
		other, name := c.fields, "field"
		if isField {
			other, name = c.methods, "method"
		}
		switch {
		case other == 1:
			return "+over-" + name
		case other > 1:
			return "+over-ambiguous-" + name + "s"
		}
	}
	return ""
}

// c09QSites: the sites on the homonym Q. Shapes whose failure on the unchanged tree is a known finding of the base
// alphabet for reasons unrelated to the homonym (method expression (*T).m of a value method, T.p of a pointer method
// promoted through a pointer, rvalue.p()) are left out: they would only repeat those findings under new signatures.
func c09QSites(hr *c09Hier) []c09Site {
	tag := "homonym"
	if hr.anyLate() {
		tag = "late-decl"
	}
	s := []c09Site{
		{tag + "|int=v.Q", "Q", true, "var r int = v.Q\nO(r)"},
		{tag + "|int=pv.Q", "Q", false, "var r int = pv.Q\nO(r)"},
		{tag + "|v.Q()", "Q", true, "r := v.Q()\nq := v.Q()\nO(r, q)"},
		{tag + "|pv.Q()", "Q", false, "O(pv.Q())"},
		{tag + "|f:=v.Q", "Q", true, "f := v.Q\nO(f())"},
		{tag + "|f:=pv.Q", "Q", false, "f := pv.Q\nO(f(), f())"},
		{tag + "|v.Q=int", "Q", true, "v.Q = 5\nvar r int = pv.Q\nO(r)"},
		{tag + "|v.Q=func", "Q", false, "pv.Q = func() int { return 9 }\nO(v.Q())"},
		{tag + "|&v.Q", "Q", true, "q := &v.Q\n*q = 8\nvar r int = v.Q\nO(r)"},
		{tag + "|v.Q=int-only", "Q", false, "v.Q = 5\nO(v.V0)"},
		{tag + "|pv.Q=func-only", "Q", false, "pv.Q = func() int { return 9 }\nO(v.V0)"},
		{tag + "|&v.Q-only", "Q", false, "q := &v.Q\n*q = 8\nO(*q)"},
		{tag + "|&pv.Q-func-only", "Q", false, "q := &pv.Q\n*q = func() int { return 4 }\nO((*q)())"},
		{tag + "|v.Q+=", "Q", false, "v.Q += 2\npv.Q++\nO(v.V0)"},
		{tag + "|IQ=v", "Q", true, "var i IQ@ = v\nO(i.Q())"},
		{tag + "|IQ=pv", "Q", true, "var i IQ@ = pv\nO(i.Q(), i.Q())"},
		{tag + "|IQ-param", "Q", false, "f := func(i IQ@) int { return i.Q() }\nO(f(pv))"},
	}
	if !hr.hasRole("p") {
		s = append(s,
			c09Site{tag + "|rvalue.Q()", "Q", false, "O(mk@(3).Q())"},
			c09Site{tag + "|T.Q", "Q", true, "f := T0@.Q\nO(f(v))"})
	}
	if !hr.hasRole("m") {
		s = append(s, c09Site{tag + "|(*T).Q", "Q", true, "g := (*T0@).Q\nO(g(pv))"})
	}
	// the same name selected on every embedded type explicitly: each type of the DAG is the root of a look-up
	for k := 1; k < hr.n; k++ {
		s = append(s,
			c09Site{fmt.Sprintf("%s|v.T%d.Q()", tag, k), "", false, fmt.Sprintf("O(v.T%d@.Q())", k)},
			c09Site{fmt.Sprintf("%s|int=v.T%d.Q", tag, k), "", false, fmt.Sprintf("var r int = v.T%d@.Q\nO(r)", k)})
	}
	return s
}

// addHierQ instantiates the Q sites on a hierarchy. The sites Go rejects are embedded in the program of the hierarchy
// (c09Group.embedRejects): the interpreter must refuse to compile every one of them.
func (g *c09Gen) addHierQ(id string, hr *c09Hier) {
	feat := ""
	g.addGroup(&c09Group{id: id, desc: hr.String(), imports: nil, decls: hr.decls, sites: c09QSites(hr),
		render: func(st *c09Site, id string) string { return st.render(hr, id) },
		sigOf: func(st *c09Site, pkg *types.Package) string {
			if feat == "" {
				feat = c09Feature(hr, pkg, id, 'Q') + hr.qShadowed()
			}
			sig := "C09|" + st.kind
			if st.names != "" {
				sig += "|" + feat
			}
			return sig
		},
		embedRejects: true})
}

// c09ExtraHiers enumerates the homonym hierarchies, then the late-declaration hierarchies.
func c09ExtraHiers(c *core.Ctx) []c09Hier {
	var out []c09Hier
	subset := func(q [4]byte, n int, roles string) bool {
		for k := 0; k < n; k++ {
			if q[k] != 0 && strings.IndexByte(roles, q[k]) < 0 {
				return false
			}
		}
		return true
	}
	pureKind := func(lab [4][4]byte) byte { // 'v' all by value, 'p' all by pointer, 'x' mixed (0 edges: 'v')
		v, p := false, false
		for a := 0; a < 4; a++ {
			for b := 0; b < 4; b++ {
				v = v || lab[a][b] == 'v'
				p = p || lab[a][b] == 'p'
			}
		}
		switch {
		case v && p:
			return 'x'
		case p:
			return 'p'
		}
		return 'v'
	}
	roles := []byte{0, 'F', 'G', 'm', 'p'}
	var assign func(n int, k int, cur [4]byte, f func([4]byte))
	assign = func(n, k int, cur [4]byte, f func([4]byte)) {
		if k == n {
			if cur != ([4]byte{}) {
				f(cur)
			}
			return
		}
		for _, r := range roles {
			cur[k] = r
			assign(n, k+1, cur, f)
		}
	}
	maxN := c.Pick(3, 4)
	for n := 1; n <= maxN; n++ {
		for si, shape := range c09Shapes(n) {
			if n == 4 && !(si == 0 || si == 5 || si == 10 || si == 11) {
				// thorough, four types: T0→{T1,T2,T3}; diamond T0→{T1,T2}→T3; chain; chain + T0→T3
				continue
			}
			for _, lab := range c09EdgeKinds(shape, n, n <= 2 || (c.Thorough() && n == 3)) {
				pk := pureKind(lab)
				assign(n, 0, [4]byte{}, func(q [4]byte) {
					small := subset(q, n, "Gm") // reduced role set {absent, func field, value method}
					for cfg := 0; cfg < 3; cfg++ {
						// cfg 0: no unrelated method; 1: M on T0; 2: M and P on every type
						switch {
						case n <= 2:
						case n == 3 && c.Thorough():
							if pk == 'x' && !(small && cfg == 0) {
								continue
							}
						case n == 3: // quick
							if pk == 'x' || (pk == 'p' && !(small && cfg == 0)) || (cfg != 0 && !small) {
								continue
							}
						default: // n == 4 (thorough)
							if pk != 'v' || !small || cfg == 2 {
								continue
							}
						}
						hr := c09Hier{n: n, edge: lab, q: q}
						switch cfg {
						case 1:
							hr.m[0] = true
						case 2:
							for k := 0; k < n; k++ {
								hr.m[k], hr.p[k] = true, true
							}
						}
						out = append(out, hr)
					}
				})
			}
		}
	}
	// late declarations: ≥ 2 declaring types, one of the method-declaring types declares its methods late
	for n := 2; n <= 3; n++ {
		for _, shape := range c09Shapes(n) {
			for _, lab := range c09EdgeKinds(shape, n, c.Thorough()) {
				if c.Quick() && pureKind(lab) != 'v' {
					continue
				}
				assign(n, 0, [4]byte{}, func(q [4]byte) {
					if !subset(q, n, "Fmp") || (n == 3 && c.Quick() && !subset(q, n, "Fm")) {
						return
					}
					hr := c09Hier{n: n, edge: lab, q: q}
					if hr.declared('Q') < 2 {
						return
					}
					for k := 0; k < n; k++ {
						if q[k] == 'm' || q[k] == 'p' {
							h2 := hr
							h2.late[k] = true
							out = append(out, h2)
						}
					}
				})
			}
		}
	}
	return out
}
