package props

import (
	"fmt"
)

// c08Cont is an indexable container built over the element kind.
type c08Cont struct {
	name   string
	setup  string // template; declares the container
	target string // printf pattern with one %s for the index expression
	l, cp  int    // length and capacity seen by the index expression
	after  string // observation after a write
	rdOnly bool   // Go rejects assignment / address-of (map element array, string, function result array)
	noAddr bool   // Go rejects &target only
}

func c08Containers() []c08Cont {
	return []c08Cont{
		{name: "arr", setup: "a := [3]$E{$0, $1, $2}\n", target: "a[%s]", l: 3, cp: 3, after: "O(a)\n"},
		{name: "sl", setup: "b := [3]$E{$0, $1, $2}\ns := b[0:2]\n", target: "s[%s]", l: 2, cp: 3, after: "O(s, b)\n"},
		{name: "parr", setup: "p := &[3]$E{$0, $1, $2}\n", target: "p[%s]", l: 3, cp: 3, after: "O(*p)\n"},
		{name: "mkslice", setup: "s := make([]$E, 2, 3)\ns[0], s[1] = $0, $1\n", target: "s[%s]", l: 2, cp: 3, after: "O(s, s[:3])\n"},
		{name: "arr-of-sl", setup: "n := [2][]$E{{$0, $1}, {$2}}\n", target: "n[0][%s]", l: 2, cp: 2, after: "O(n)\n"},
		{name: "sl-of-arr", setup: "n := [][3]$E{{$0, $1, $2}, {}}\n", target: "n[0][%s]", l: 3, cp: 3, after: "O(n)\n"},
		{name: "map-of-sl", setup: "m := map[string][]$E{\"k\": {$0, $1}}\n", target: "m[\"k\"][%s]", l: 2, cp: 2, after: "O(m)\n"},
		{name: "map-of-arr", setup: "m := map[string][3]$E{\"k\": {$0, $1, $2}}\n", target: "m[\"k\"][%s]", l: 3, cp: 3, after: "O(m)\n", rdOnly: true},
		{name: "struct-sl", setup: "var st struct {\nS []$E\nA [3]$E\n}\nst.S = []$E{$0, $1}\nst.A[0] = $2\n", target: "st.S[%s]", l: 2, cp: 2, after: "O(st)\n"},
		{name: "struct-arr", setup: "var st struct {\nS []$E\nA [3]$E\n}\nst.S = []$E{$0, $1}\nst.A[0] = $2\n", target: "st.A[%s]", l: 3, cp: 3, after: "O(st)\n"},
		{name: "ptr-struct-arr", setup: "st := &struct {\nA [3]$E\n}{[3]$E{$0, $1, $2}}\n", target: "st.A[%s]", l: 3, cp: 3, after: "O(st)\n"},
		{name: "func-sl", setup: "keep := []$E{$0, $1}\nf := func() []$E { return keep }\n", target: "f()[%s]", l: 2, cp: 2, after: "O(keep)\n"},
		{name: "func-arr", setup: "f := func() [3]$E { return [3]$E{$0, $1, $2} }\n", target: "f()[%s]", l: 3, cp: 3, after: "", rdOnly: true},
		{name: "nil-sl", setup: "var s []$E\n", target: "s[%s]", l: 0, cp: 0, after: "O(s)\n"},
		{name: "map-int", setup: "m := map[int]$E{0: $0, 1: $1}\n", target: "m[%s]", l: 2, cp: 3, after: "O(m, len(m))\n", noAddr: true},
	}
}

func (g *c08Gen) genIndex() {
	modes := []string{"lit", "var"}
	if g.c.Thorough() {
		modes = append(modes, "kconst", "u8var", "i64var", "fconst")
	}
	ops := []string{"read", "write", "addr"}
	for ki := range c08Kinds {
		k := &c08Kinds[ki]
		for _, ct := range c08Containers() {
			idxs := c08Idx(ct.l, ct.cp)
			for _, mode := range modes {
				if mode != "lit" && mode != "var" && !(ct.name == "arr" || ct.name == "sl" || ct.name == "parr" || ct.name == "map-int") {
					continue
				}
				for _, i := range idxs {
					decl, ix, ok := c08IdxMode(mode, "i", i)
					if !ok {
						continue
					}
					if ct.name == "map-int" && mode == "u8var" {
						continue // a uint8 variable is not a valid int map key
					}
					if ct.name == "map-int" && mode == "i64var" {
						continue
					}
					tgt := fmt.Sprintf(ct.target, ix)
					for _, op := range ops {
						var body string
						switch op {
						case "read":
							body = ct.setup + decl + "Site(1, func() {\nO(" + tgt + ")\n})\n"
						case "write":
							body = ct.setup + decl + "Site(1, func() {\n" + tgt + " = $3\n})\n" + ct.after
						case "addr":
							if ct.name == "map-int" && mode != "lit" && mode != "var" {
								continue
							}
							body = ct.setup + decl + "Site(1, func() {\nq := &" + tgt + "\n*q = $4\nO(*q)\n})\n" + ct.after
						}
						g.addK(k, "ix", "index|"+ct.name+"|"+mode+"|"+op, fmt.Sprintf("i=%d len=%d cap=%d", i, ct.l, ct.cp), body)
					}
				}
			}
		}
	}
	// strings: variable and constant strings, read; write and address-of are rejected by Go
	for _, mode := range modes {
		for _, i := range c08Idx(4, 4) {
			decl, ix, ok := c08IdxMode(mode, "i", i)
			if !ok {
				continue
			}
			g.add("ix", "index|string-var|"+mode+"|read", fmt.Sprintf("i=%d len=4", i), "s := \"h\\u00e9z\"\n"+decl+"Site(1, func() {\nO(s["+ix+"])\n})\n")
			g.add("ix", "index|string-const|"+mode+"|read", fmt.Sprintf("i=%d len=4", i), "const s = \"h\\u00e9z\"\n"+decl+"Site(1, func() {\nO(s["+ix+"])\n})\n")
			g.add("ix", "index|string-var|"+mode+"|write", fmt.Sprintf("i=%d len=4", i), "s := \"h\\u00e9z\"\n"+decl+"Site(1, func() {\ns["+ix+"] = 'x'\n})\nO(s)\n")
			g.add("ix", "index|string-var|"+mode+"|addr", fmt.Sprintf("i=%d len=4", i), "s := \"h\\u00e9z\"\n"+decl+"Site(1, func() {\nq := &s["+ix+"]\nO(*q)\n})\n")
		}
	}
	// index expression of a non-integer type, and indexing of non-indexable values: rejected by Go
	for _, bad := range []struct{ name, body string }{
		{"float-var-index", "a := [3]int{1, 2, 3}\nf := 1.0\nO(a[f])\n"},
		{"string-index", "a := []int{1, 2, 3}\nO(a[\"1\"])\n"},
		{"fractional-const-index", "a := []int{1, 2, 3}\nO(a[1.5])\n"},
		{"index-of-int", "a := 5\nO(a[0])\n"},
		{"index-of-struct", "a := struct{ A int }{1}\nO(a[0])\n"},
		{"index-of-ptr-to-slice", "a := &[]int{1, 2}\nO(a[0])\n"},
		{"map-wrong-key-type", "m := map[string]int{\"a\": 1}\nO(m[1])\n"},
		{"huge-const-index", "a := []int{1, 2, 3}\nO(a[1<<70])\n"},
	} {
		g.add("ix", "index|invalid|"+bad.name, bad.name, bad.body)
	}
}
