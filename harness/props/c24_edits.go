package props

// token-level edits for C24: every single-token deletion, duplication and adjacent swap of small files.

import (
	"fmt"
	stdscanner "go/scanner"
	"go/token"

	"verif/harness/oracle"
)

type c24Tok struct {
	off, end int
}

type c24Seed struct {
	name          string
	src           []byte
	toks          []c24Tok
	selfContained bool // a complete package on its own (plus the hooks package): go/types can decide validity of its edits
}

// c24Handcrafted: small files dense in constructs that the fork parses with patched code.
var c24Handcrafted = []string{
	`package p

import (
	"fmt"
	m "math"
)

type T struct {
	a, b int
	*U
	c    []map[string]chan<- int ` + "`json:\"c\"`" + `
}

type U interface {
	fmt.Stringer
	M(x int, y ...string) (r error)
}

func (t *T) f(x int) (y int, err error) {
L:
	for i, v := range t.c {
		switch z := v["k"]; {
		case z != nil && i > 0:
			continue L
		default:
			break L
		}
	}
	for range t.c {
	}
	defer func() { _ = recover() }()
	go t.f(1)
	select {
	case v, ok := <-t.c[0]["a"]:
		_, _ = v, ok
	default:
	}
	if x := m.Abs(-1.5e3); x > 0 {
		return int(x), nil
	} else if t == nil {
		goto L
	}
	var a [3]int
	b := a[1:2:3]
	_ = struct{ x int }{x: len(b)}
	switch q := interface{}(t).(type) {
	case nil, *T:
		_ = q
	}
	return
}
`,
	`package q

const (
	A = iota << 1
	B
	C, D = 'x', "s"
)

var (
	f   = func(a, b int, c ...interface{}) (int, error) { return a + b*len(c), nil }
	g   = [...]string{0: "a", 2: "c"}
	h   = map[[2]int]*struct{ p, q float64 }{{1, 2}: {p: 1}, {3, 4}: nil}
	i   chan (<-chan int)
	j   <-chan chan<- int
	k   = (*int)(nil)
	l   = -+!^0 + <-i&^1
)

func init() {
	i <- j
	x, y := 1, 2
	x, y = y, x
	x++
	y -= x
	{
		fallthroughLabel:
		;
		_ = fallthroughLabel
	}
	func() {}()
	for ; x < 10; x++ {
		if x%2 == 0 { continue }
	}
	for x < 3 {
		break
	}
	for {
		return
	}
}
`,
}

func c24Tokenize(name string, src []byte) *c24Seed {
	fset := token.NewFileSet()
	f := fset.AddFile(name, -1, len(src))
	var s stdscanner.Scanner
	nerr := 0
	s.Init(f, src, func(token.Position, string) { nerr++ }, 0)
	seed := &c24Seed{name: name, src: src}
	for {
		pos, tok, lit := s.Scan()
		if tok == token.EOF {
			break
		}
		if tok == token.SEMICOLON && lit == "\n" {
			continue // automatic semicolon: not a source token
		}
		off := int(pos) - f.Base()
		text := lit
		if !(tok.IsLiteral() || tok.IsKeyword() || tok == token.SEMICOLON) {
			text = tok.String()
		}
		end := off + len(text)
		if end > len(src) || string(src[off:end]) != text {
			return nil // literal text differs from the source (carriage returns): not used as a seed
		}
		seed.toks = append(seed.toks, c24Tok{off, end})
	}
	if nerr > 0 {
		return nil
	}
	return seed
}

func (s *c24Seed) text(i int) []byte { return s.src[s.toks[i].off:s.toks[i].end] }

// edit returns the source with token i deleted (kind 0), duplicated (1) or swapped with token i+1 (2).
func (s *c24Seed) edit(i, kind int) ([]byte, string) {
	t := s.toks[i]
	var out []byte
	switch kind {
	case 0:
		out = append(append(out, s.src[:t.off]...), s.src[t.end:]...)
		return out, fmt.Sprintf("deletion of token #%d %q at offset %d", i, s.text(i), t.off)
	case 1:
		out = append(out, s.src[:t.end]...)
		out = append(out, ' ')
		out = append(out, s.text(i)...)
		out = append(out, s.src[t.end:]...)
		return out, fmt.Sprintf("duplication of token #%d %q at offset %d", i, s.text(i), t.off)
	default:
		u := s.toks[i+1]
		out = append(out, s.src[:t.off]...)
		out = append(out, s.text(i+1)...)
		out = append(out, s.src[t.end:u.off]...)
		out = append(out, s.text(i)...)
		out = append(out, s.src[u.end:]...)
		return out, fmt.Sprintf("swap of tokens #%d %q and #%d %q at offset %d", i, s.text(i), i+1, s.text(i+1), t.off)
	}
}

// c24Seeds returns n seed files: the handcrafted ones, a few generated programs (both self-contained, so go/types can
// decide the validity of their edits) plus small corpus files that go/parser accepts, that are type-parameter-free and
// extension-free.
func c24Seeds(n int, progs []oracle.Prog) []*c24Seed {
	var seeds []*c24Seed
	for i, h := range c24Handcrafted {
		if s := c24Tokenize(fmt.Sprintf("handcrafted#%d", i), []byte(h)); s != nil {
			s.selfContained = true
			seeds = append(seeds, s)
		}
	}
	ngen := n / 5
	for i := 0; i < ngen && len(progs) > 0; i++ {
		p := progs[(i*len(progs))/ngen+len(progs)/(2*ngen)]
		src := "package p\n\nimport . \"orc/h\"\n\nvar _ = T\n\n" + p.Source()
		if s := c24Tokenize("generated C05 program "+p.ID, []byte(src)); s != nil {
			s.selfContained = true
			seeds = append(seeds, s)
		}
	}
	w := &c23Worker{}
	for _, f := range smallFiles(4*n, 300, 1400, nil) {
		if len(seeds) >= n {
			break
		}
		src := readFile(f.Path)
		if src == nil {
			continue
		}
		std := c24ParseStd("f.go", src)
		if std.err != nil || c24Generic(std.file) != "" || len(std.file.Decls) == 0 {
			continue
		}
		w.w.tick()
		w.w.scanStd("f.go", src, true, &w.stdC)
		if c23UsesExtension(&w.stdC) {
			continue
		}
		if s := c24Tokenize(f.Path, src); s != nil && len(s.toks) >= 30 {
			seeds = append(seeds, s)
		}
	}
	return seeds
}
