package props

// The classic interpreter's documented subset as a predicate over programs of ANY twin-execution corpus, decided on
// the type-checked AST (std go/parser + go/types) — conservative: a program is selected only if every construct and
// every expression type in it is on the white list below (classic/README.md lists the known limitations: untyped
// constant arithmetic, constants mixed with typed values, interfaces, interpreted types implementing interfaces,
// struct tags, embedded fields; the property names the positive list).

import (
	"go/ast"
	"go/constant"
	"go/token"
	"go/types"
	"regexp"
	"strings"

	"verif/harness/oracle"
)

// c38ExtraClassic: predicates selecting, from corpora owned by other checks, the programs inside the subset.
var c38ExtraClassic = map[string]func(p *oracle.Prog) bool{
	"C06": c38InSubset,
	"C07": c38InSubset,
	"C08": c38InSubset,
}

// c38OwnSig: signature functions of the corpora whose mismatches C38 classifies itself.
var c38OwnSig = map[string]func(p *oracle.Prog, want, got string) string{
	"C38r": c38ResultsSig,
	"C06":  c38ForeignSig("C06"),
	"C07":  c38ForeignSig("C07"),
	"C08":  c38ForeignSig("C08"),
}

// c38ForeignSig classifies a mismatch of a program of another check's corpus: corpus, family (the first two fields of
// the program header, without kinds) and either the class of the error raised by the classic interpreter (its message
// up to the first ": ", positions removed) or the kind of difference.
func c38ForeignSig(corpus string) func(p *oracle.Prog, want, got string) string {
	return func(p *oracle.Prog, want, got string) string {
		h := strings.TrimPrefix(c06Header(p), "sig: "+corpus+"|")
		var fam []string
		for _, f := range strings.Split(h, "|") {
			if strings.HasPrefix(f, "kind=") {
				continue
			}
			if corpus == "C06" && len(fam) == 1 {
				// "decl/a1r2/basic": keep the form, drop arity and kind class
				if i := strings.Index(f, "/"); i > 0 {
					f = f[:i]
				}
			}
			if corpus == "C07" && len(fam) == 1 {
				break // the action alphabet used by the tree: too fine
			}
			fam = append(fam, f)
			if len(fam) == 2 {
				break
			}
		}
		how := "value"
		switch {
		case strings.HasPrefix(got, "TIMEOUT"):
			how = "timeout"
		case strings.Contains(got, "PANIC(") && !strings.Contains(want, "PANIC(") || strings.HasPrefix(got, "ERROR") || strings.Contains(got, "PANIC(error:\"repl.go:"):
			msg := got
			if i := strings.Index(got, "PANIC("); i >= 0 {
				msg = got[i+6:]
			}
			msg = c38Pos.ReplaceAllString(msg, "")
			for _, pre := range []string{"error:\"", "rt:other:", "string:\"", "ERROR: "} {
				msg = strings.TrimPrefix(msg, pre)
			}
			if i := strings.Index(msg, ": "); i > 0 {
				msg = msg[:i]
			}
			msg = strings.TrimRight(msg, "\")")
			if len(msg) > 70 {
				msg = msg[:70]
			}
			how = "error:" + msg
		case !strings.Contains(got, "PANIC(") && strings.Contains(want, "PANIC("):
			how = "panic-lost"
		}
		return "C38|" + corpus + "|" + strings.Join(fam, "|") + "|" + how
	}
}

var c38Pos = regexp.MustCompile(`repl\.go:\d+:\d+: `)

// c38InSubset reports whether the program lies inside the documented subset.
func c38InSubset(p *oracle.Prog) bool {
	return c38WhyNot(p) == ""
}

// c38WhyNot returns "" for a program inside the subset, else the first construct that is outside.
func c38WhyNot(p *oracle.Prog) (why string) {
	if len(p.Imports) != 0 {
		return "imports"
	}
	if strings.Contains(p.Body, "//--") {
		return "multi-chunk program"
	}
	src := "package p\nimport . \"orc/h\"\nvar _ = T\n" + p.Source()
	_, info, err := oracle.CheckSourceFile(src)
	if err != nil || info == nil {
		return "does not type-check"
	}
	file := info.File
	bad := func(s string) {
		if why == "" {
			why = s
		}
	}
	var okType func(t types.Type, depth int) bool
	okType = func(t types.Type, depth int) bool {
		if depth > 8 {
			return false
		}
		if depth > 0 {
			// interface{} only as the type of an expression (recover()) and as (variadic) parameter of the trace hooks
			if it, ok := t.(*types.Interface); ok && it.NumMethods() == 0 {
				return false
			}
		}
		switch t := t.(type) {
		case nil:
			return true
		case *types.Basic:
			switch t.Kind() {
			case types.Int, types.Float64, types.String, types.Bool, types.Int32, types.Uint8,
				types.UntypedBool, types.UntypedInt, types.UntypedFloat, types.UntypedRune, types.UntypedString, types.UntypedNil, types.Invalid:
				return true
			}
			return false
		case *types.Slice:
			return okType(t.Elem(), depth+1)
		case *types.Map:
			return okType(t.Key(), depth+1) && okType(t.Elem(), depth+1)
		case *types.Struct:
			for i := 0; i < t.NumFields(); i++ {
				f := t.Field(i)
				if f.Embedded() || t.Tag(i) != "" || !f.Exported() || !okType(f.Type(), depth+1) {
					return false
				}
			}
			return true
		case *types.Named:
			if t.Obj() != nil && t.Obj().Pkg() == nil {
				return false // error
			}
			if t.NumMethods() != 0 || t.TypeParams() != nil {
				return false
			}
			_, isStruct := t.Underlying().(*types.Struct)
			return isStruct && okType(t.Underlying(), depth+1)
		case *types.Signature:
			if t.Recv() != nil || t.TypeParams() != nil {
				return false
			}
			for i := 0; i < t.Params().Len(); i++ {
				pt := t.Params().At(i).Type()
				if sl, ok := pt.(*types.Slice); ok && t.Variadic() && i == t.Params().Len()-1 {
					pt = sl.Elem()
				}
				if it, ok := pt.(*types.Interface); ok && it.NumMethods() == 0 {
					continue
				}
				if !okType(pt, depth+1) {
					return false
				}
			}
			return okType(t.Results(), depth+1)
		case *types.Tuple:
			for i := 0; i < t.Len(); i++ {
				if !okType(t.At(i).Type(), depth+1) {
					return false
				}
			}
			return true
		case *types.Interface:
			return t.NumMethods() == 0 && t.NumEmbeddeds() == 0 // interface{}: the parameters of the trace hooks
		}
		return false // pointers, arrays, channels, type parameters …
	}
	// package-level variables and types that the program never uses (preludes shared by a whole corpus) do not count
	used := map[types.Object]bool{}
	for _, obj := range info.Uses {
		used[obj] = true
	}
	skipped := map[types.Object]bool{}
	ast.Inspect(file, func(n ast.Node) bool {
		if why != "" {
			return false
		}
		if gd, ok := n.(*ast.GenDecl); ok && (gd.Tok == token.VAR || gd.Tok == token.TYPE) {
			unused := true
			var objs []types.Object
			for _, sp := range gd.Specs {
				switch sp := sp.(type) {
				case *ast.ValueSpec:
					for _, id := range sp.Names {
						objs = append(objs, info.Defs[id])
						if obj := info.Defs[id]; obj == nil || obj.Parent() != obj.Pkg().Scope() || used[obj] {
							unused = false
						}
					}
				case *ast.TypeSpec:
					objs = append(objs, info.Defs[sp.Name])
					if obj := info.Defs[sp.Name]; obj == nil || obj.Parent() != obj.Pkg().Scope() || used[obj] {
						unused = false
					}
				}
			}
			if unused {
				for _, o := range objs {
					skipped[o] = true
				}
				return false
			}
		}
		switch n := n.(type) {
		case *ast.GoStmt, *ast.SelectStmt, *ast.SendStmt, *ast.ChanType, *ast.TypeSwitchStmt, *ast.TypeAssertExpr, *ast.LabeledStmt, *ast.StarExpr, *ast.IndexListExpr:
			bad("statement or expression form")
		case *ast.BranchStmt:
			if n.Label != nil || n.Tok == token.GOTO {
				bad("label")
			}
		case *ast.UnaryExpr:
			if n.Op == token.AND || n.Op == token.ARROW {
				bad("address or receive")
			}
		case *ast.FuncDecl:
			if n.Recv != nil || n.Type.TypeParams != nil {
				bad("method or generic function")
			}
		case *ast.InterfaceType:
			if n.Methods != nil && len(n.Methods.List) != 0 {
				bad("interface")
			}
		case *ast.GenDecl:
			if n.Tok == token.CONST {
				bad("constant declaration") // typed/untyped constant arithmetic is a documented limitation
			}
		case *ast.BasicLit:
			tv, ok := info.Types[n]
			if !ok {
				break
			}
			b, _ := tv.Type.Underlying().(*types.Basic)
			if b == nil {
				bad("literal converted to a non-basic type")
				break
			}
			switch n.Kind {
			case token.INT:
				if b.Info()&types.IsInteger == 0 || (b.Kind() != types.Int && b.Kind() != types.UntypedInt) {
					bad("integer literal used as " + b.Name())
				}
			case token.FLOAT:
				if b.Info()&types.IsFloat == 0 {
					bad("float literal used as " + b.Name())
				}
			case token.IMAG:
				bad("imaginary literal")
			case token.CHAR:
				if b.Kind() != types.Int32 && b.Kind() != types.UntypedRune {
					bad("rune literal used as " + b.Name())
				}
			}
		case *ast.BinaryExpr:
			// constant folding beyond the default types is the documented limitation
			if tv, ok := info.Types[n]; ok && tv.Value != nil && tv.Value.Kind() == constant.Int {
				if _, exact := constant.Int64Val(tv.Value); !exact {
					bad("constant beyond int64")
				}
			}
			if n.Op == token.SHL || n.Op == token.SHR {
				bad("shift")
			}
		case *ast.CallExpr:
			// conversions: only between the default types
			if tv, ok := info.Types[n.Fun]; ok && tv.IsType() {
				if _, basic := tv.Type.Underlying().(*types.Basic); !basic {
					bad("conversion to a composite type")
				}
			}
			if id, ok := n.Fun.(*ast.Ident); ok {
				switch id.Name {
				case "new", "close", "complex", "real", "imag", "print", "println", "clear", "min", "max":
					if _, isBuiltin := info.Uses[id].(*types.Builtin); isBuiltin {
						bad("builtin " + id.Name)
					}
				}
			}
		}
		if e, ok := n.(ast.Expr); ok {
			if tv, ok := info.Types[e]; ok && !tv.IsBuiltin() && !okType(tv.Type, 0) {
				bad("type " + tv.Type.String())
			}
		}
		return true
	})
	if why != "" {
		return why
	}
	for _, obj := range info.Defs {
		if obj == nil {
			continue
		}
		if _, isPkg := obj.(*types.PkgName); isPkg || skipped[obj] {
			continue
		}
		if !okType(obj.Type(), 0) {
			return "declared " + obj.Name() + " " + obj.Type().String()
		}
	}
	return ""
}
