package props

// Generic "twin execution" runner: a deterministic generator produces a corpus of programs,
// compiled Go (oracle.GoResults, cached) gives the expected canonical result of each, and
// every program is run on a fresh fast interpreter in worker processes.

import (
	"encoding/json"
	"fmt"
	"strings"

	"verif/harness/core"
	"verif/harness/oracle"
	"verif/harness/twin"
)

type diffSpec struct {
	ID   string
	Rule string
	// Gen returns the whole corpus (deterministic in c.Tier only).
	Gen func(c *core.Ctx) []oracle.Prog
	// Sig maps a mismatch to a known-findings signature (default "<ID>|mismatch").
	Sig func(p *oracle.Prog, want, got string) string
	// Key returns the non-triviality key of a program given Go's result ("" = trivial).
	Key func(p *oracle.Prog, want string) string
	// RejectInvalid: programs rejected by go/types must be rejected by the interpreter before execution
	// (otherwise such programs are a generator error).
	RejectInvalid bool
	// Runner (optional) replaces the default fast-interpreter runner.
	Runner func(p *oracle.Prog) twin.Result
	Assume []string
	Level  string
	// Classic (optional) selects the programs of this corpus that lie inside the classic interpreter's documented subset (C38).
	Classic func(p *oracle.Prog) bool
}

type diffCase struct {
	Prog   oracle.Prog `json:"prog"`
	Want   string      `json:"want_compiled_go"`
	Got    string      `json:"got_interpreter"`
	Reject bool        `json:"go_rejects,omitempty"`
}

// diffSpecs lists every registered twin-execution corpus (C18 and C38 reuse them).
var diffSpecs []*diffSpec

func registerDiff(spec *diffSpec) {
	diffSpecs = append(diffSpecs, spec)
	level := spec.Level
	if level == "" {
		level = "exploration"
	}
	core.Register(&core.Check{ID: spec.ID, Level: level, Workers: -1,
		Prepare: func(c *core.Ctx) error {
			_, _, _, err := spec.corpus(c)
			return err
		},
		Run: func(c *core.Ctx) { spec.run(c) },
		Replay: func(c *core.Ctx, raw json.RawMessage) {
			var cas diffCase
			if err := json.Unmarshal(raw, &cas); err != nil {
				panic(err)
			}
			spec.runOne(c, &cas.Prog, cas.Want, cas.Reject)
		},
	})
}

// corpus generates, classifies (go/types) and computes the oracle results.
func (spec *diffSpec) corpus(c *core.Ctx) (valid []oracle.Prog, invalid []oracle.Prog, want map[string]string, err error) {
	progs := spec.Gen(c)
	seen := map[string]bool{}
	for i := range progs {
		if seen[progs[i].ID] {
			return nil, nil, nil, fmt.Errorf("generator produced duplicate id %s", progs[i].ID)
		}
		seen[progs[i].ID] = true
	}
	verdicts, err := oracle.Classify(spec.ID+"-"+c.Tier, progs)
	if err != nil {
		return nil, nil, nil, err
	}
	for i := range progs {
		if msg := verdicts[progs[i].ID]; msg == "" {
			valid = append(valid, progs[i])
		} else if spec.RejectInvalid {
			invalid = append(invalid, progs[i])
		} else {
			return nil, nil, nil, fmt.Errorf("generator error: program %s is not valid Go: %s\n%s", progs[i].ID, msg, progs[i].Source())
		}
	}
	want, err = oracle.GoResults(spec.ID+"-"+c.Tier, valid)
	return
}

func (spec *diffSpec) run(c *core.Ctx) {
	c.Rule(spec.Rule)
	c.Assume("the Go toolchain installed in the image (go1.23.5, module mode go 1.21) is the reference for 'compiled Go'")
	c.Assume(spec.Assume...)
	valid, invalid, want, err := spec.corpus(c)
	if err != nil {
		panic(err)
	}
	c.Set("programs_valid", len(valid))
	c.Set("programs_go_rejects", len(invalid))
	n := 0
	for i := range valid {
		n++
		if !c.Mine(n) {
			continue
		}
		if c.Expired() {
			return
		}
		spec.runOne(c, &valid[i], want[valid[i].ID], false)
	}
	for i := range invalid {
		n++
		if !c.Mine(n) {
			continue
		}
		if c.Expired() {
			return
		}
		spec.runOne(c, &invalid[i], "", true)
	}
}

func (spec *diffSpec) exec(p *oracle.Prog) twin.Result {
	if spec.Runner != nil {
		return spec.Runner(p)
	}
	return twin.Run(twin.NewFast(), p)
}

func (spec *diffSpec) runOne(c *core.Ctx, p *oracle.Prog, want string, goRejects bool) {
	c.Eval(1)
	res := spec.exec(p)
	got := res.Out
	if res.CompileErr != "" {
		got = "COMPILE-ERROR: " + res.CompileErr
	}
	if res.TimedOut {
		got = "TIMEOUT " + got
	}
	sig := func() string {
		if spec.Sig != nil {
			if s := spec.Sig(p, want, got); s != "" {
				return s
			}
		}
		return spec.ID + "|mismatch"
	}
	if goRejects {
		c.Nontrivial("reject|" + p.ID)
		if res.CompileErr == "" {
			c.Violation(sig(), fmt.Sprintf("Go rejects this program at compile time but the interpreter ran it (result %q):\n%s", got, p.Source()),
				diffCase{Prog: *p, Got: got, Reject: true})
		}
		return
	}
	if spec.Key != nil {
		if k := spec.Key(p, want); k != "" {
			c.Nontrivial(k)
		}
	} else if strings.Contains(want, " ") {
		c.Nontrivial(want + "|" + p.Body)
	}
	if c.WantSample() {
		c.Sample(map[string]string{"program": p.Source(), "result": want})
	}
	if got != want {
		// determinism: the same program must fail again on a fresh interpreter before it is believed
		res2 := spec.exec(p)
		got2 := res2.Out
		if res2.CompileErr != "" {
			got2 = "COMPILE-ERROR: " + res2.CompileErr
		}
		if got2 != got {
			c.Violation(spec.ID+"|nondeterministic", fmt.Sprintf("interpreter gave two different results %q / %q (Go: %q) for\n%s", got, got2, want, p.Source()),
				diffCase{Prog: *p, Want: want, Got: got})
			return
		}
		c.Violation(sig(), fmt.Sprintf("compiled Go: %q   interpreter: %q\n%s", want, got, p.Source()), diffCase{Prog: *p, Want: want, Got: got})
	}
}
