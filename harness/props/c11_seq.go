package props

// C11, part 1a — interpreted callbacks and interpreted implementations of compiled interfaces used by
// compiled standard-library code. The corpus is the product
//   entry point × callback shape / receiver shape × every input of a small alphabet
// and every program is executed by compiled Go (oracle) and by the interpreter (twin execution).
//
// Values of interpreted types always reach compiled code through a parameter whose static type is the
// compiled interface (fmt.Stringer, error, sort.Interface, io.Reader …): that is where gomacro installs
// its proxy. Passing such a value as interface{} (fmt.Sprint(v)) hands the bare emulated struct to
// compiled code, a documented limitation (doc/features-and-limitations.md, "named types created by
// interpreted code are emulated"), so fmt is exercised through the compiled helpers of h_c11.go.

import (
	"fmt"
	"strings"

	"verif/harness/core"
	"verif/harness/oracle"
)

type c11Gen struct {
	progs []oracle.Prog
	seq   map[string]int
}

func c11Ident(fam string) string {
	var sb strings.Builder
	for _, ch := range fam {
		if ch >= 'a' && ch <= 'z' || ch >= 'A' && ch <= 'Z' || ch >= '0' && ch <= '9' {
			sb.WriteRune(ch)
		}
	}
	return sb.String()
}

const c11Try = `
func try@(f func()) (r interface{}) {
	defer func() { r = recover() }()
	f()
	return nil
}
`

// add appends one program. '@' in decls/body is replaced by "_<id>" (top-level names must be unique in the corpus).
func (g *c11Gen) add(fam, shape, input string, imports []string, decls, body string) {
	g.seq[fam]++
	id := fmt.Sprintf("%s%d", c11Ident(fam), g.seq[fam])
	if strings.Contains(body, "try@") {
		decls += c11Try
	}
	rep := func(s string) string { return strings.ReplaceAll(s, "@", "_"+id) }
	g.progs = append(g.progs, oracle.Prog{ID: id, Imports: imports,
		Decls: strings.TrimSpace(rep(decls)),
		Body:  fmt.Sprintf("// %s | %s | %s\n%s", fam, shape, input, strings.TrimSpace(rep(body)))})
}

// ---- input alphabets -------------------------------------------------------------------------

// c11Perms returns all permutations of 1..n for n = 0..max.
func c11Perms(max int) [][]int {
	var out [][]int
	for n := 0; n <= max; n++ {
		cur := make([]int, 0, n)
		used := make([]bool, n+1)
		var rec func()
		rec = func() {
			if len(cur) == n {
				out = append(out, append([]int{}, cur...))
				return
			}
			for v := 1; v <= n; v++ {
				if !used[v] {
					used[v] = true
					cur = append(cur, v)
					rec()
					cur = cur[:len(cur)-1]
					used[v] = false
				}
			}
		}
		rec()
	}
	return out
}

// c11Seqs returns all sequences of length 0..max over the values vals.
func c11Seqs(vals []int, max int) [][]int {
	out := [][]int{{}}
	last := [][]int{{}}
	for n := 1; n <= max; n++ {
		var next [][]int
		for _, p := range last {
			for _, v := range vals {
				next = append(next, append(append([]int{}, p...), v))
			}
		}
		out = append(out, next...)
		last = next
	}
	return out
}

// c11Strs returns all strings of length 0..max over the alphabet.
func c11Strs(alpha string, max int) []string {
	out := []string{""}
	last := []string{""}
	for n := 1; n <= max; n++ {
		var next []string
		for _, p := range last {
			for _, ch := range alpha {
				next = append(next, p+string(ch))
			}
		}
		out = append(out, next...)
		last = next
	}
	return out
}

// c11Compositions returns all ordered ways of writing n as a sum of positive integers (chunkings of an n-byte stream).
func c11Compositions(n int) [][]int {
	if n == 0 {
		return [][]int{{}}
	}
	var out [][]int
	for first := 1; first <= n; first++ {
		for _, rest := range c11Compositions(n - first) {
			out = append(out, append([]int{first}, rest...))
		}
	}
	return out
}

func c11IntsLit(p []int) string {
	s := make([]string, len(p))
	for i, v := range p {
		s[i] = fmt.Sprint(v)
	}
	return "[]int{" + strings.Join(s, ", ") + "}"
}

// ---- callback shapes -------------------------------------------------------------------------

// c11Callback describes one func-typed callback: its parameter list, result type and body.
type c11Callback struct {
	params string // "r rune"
	result string // "rune"
	body   string // statements ending in return
}

// c11Shape renders the callback in one shape. It returns extra top-level declarations, statements that set up
// the callback (they run inside the program body before use), the expression to pass, and the expression that
// gives the number of invocations afterwards. Free variables of the body must be declared by `env`
// (top-level var declarations, '@'-suffixed) for the named and method shapes; closures capture locals of the same names.
type c11Shaped struct {
	decls, setup, expr, count string
	wrapTry                   bool // the use of the callback must be wrapped in try@
}

var c11FuncShapes = []string{"named", "closure", "method-value", "returned-closure", "panic@1", "panic@2"}

func c11ShapeOf(shape string, cb c11Callback) c11Shaped {
	sig := "(" + cb.params + ") " + cb.result
	switch shape {
	case "named":
		return c11Shaped{decls: "func cb@" + sig + " { C(0, 0); " + cb.body + " }\n", expr: "cb@", count: "Cnt(0)"}
	case "closure":
		return c11Shaped{setup: "calls := 0\ncb := func" + sig + " { calls++; " + cb.body + " }\n", expr: "cb", count: "calls"}
	case "method-value":
		return c11Shaped{decls: "type K@ struct{ calls int }\nfunc (k *K@) M" + sig + " { k.calls++; " + cb.body + " }\n",
			setup: "k := &K@{}\ncb := k.M\n", expr: "cb", count: "k.calls"}
	case "returned-closure":
		return c11Shaped{decls: "func mk@(pc *int) func" + sig + " { d := 0; return func" + sig + " { d++; *pc = d; " + cb.body + " } }\n",
			setup: "calls := 0\ncb := mk@(&calls)\n", expr: "cb", count: "calls"}
	case "panic@1", "panic@2":
		k := shape[len(shape)-1:]
		return c11Shaped{setup: "calls := 0\ncb := func" + sig + " { calls++; if calls == " + k + " { panic(\"boom" + k + "\") }; " + cb.body + " }\n", expr: "cb", count: "calls", wrapTry: true}
	}
	panic("unknown shape " + shape)
}

// ---- the corpus ------------------------------------------------------------------------------

func c11Corpus(c *core.Ctx) []oracle.Prog {
	g := &c11Gen{seq: map[string]int{}}
	thorough := c.Thorough()
	perms := c11Perms(4)
	if thorough {
		perms = c11Perms(5)
	}
	dups := c11Seqs([]int{1, 2}, 4)
	strs := c11Strs("aB ", 3)
	if thorough {
		strs = c11Strs("aB ", 4)
	}
	g.sortSlice(perms, dups)
	g.sortInterface(perms, dups)
	g.sortSearch()
	g.stringCallbacks(strs)
	g.fmtInterfaces()
	g.readers()
	g.writers()
	g.once()
	g.errorsFam()
	g.heap(perms)
	g.hookCallers()
	// identity dimensions (c11_seq2.go)
	g.sharedUnderlying(thorough)
	g.typedConstants()
	g.sharedUnderlyingBehaviour(c11Perms(4))
	g.oneTypeManyInterfaces()
	g.closureIdentity()
	return g.progs
}

func (g *c11Gen) sortSlice(perms, dups [][]int) {
	imp := []string{"sort"}
	for _, p := range perms {
		lit := c11IntsLit(p)
		in := fmt.Sprint(p)
		// the callback reads the slice being sorted: a global for the named/method shapes, a captured local otherwise
		g.add("sort.Slice", "named", in, imp,
			"var xs@ []int\nfunc less@(i, j int) bool { C(0, 0); return xs@[i] < xs@[j] }\n",
			"xs@ = "+lit+"\nsort.Slice(xs@, less@)\nO(xs@, Cnt(0))")
		g.add("sort.Slice", "closure", in, imp, "",
			"x := "+lit+"\nn := 0\nsort.Slice(x, func(i, j int) bool { n++; return x[i] < x[j] })\nO(x, n)")
		g.add("sort.Slice", "method-value", in, imp,
			"type K@ struct { v []int; n int }\nfunc (k *K@) Less(i, j int) bool { k.n++; return k.v[i] < k.v[j] }\n",
			"k := &K@{v: "+lit+"}\nsort.Slice(k.v, k.Less)\nO(k.v, k.n)")
		g.add("sort.Slice", "returned-closure", in, imp,
			"func mk@(x []int, n *int) func(i, j int) bool { d := 0; return func(i, j int) bool { d++; *n = d; return x[i] > x[j] } }\n",
			"x := "+lit+"\nn := 0\nsort.Slice(x, mk@(x, &n))\nO(x, n)")
		for _, k := range []string{"1", "2"} {
			g.add("sort.Slice", "panic@"+k, in, imp, "",
				"x := "+lit+"\nn := 0\nr := try@(func() { sort.Slice(x, func(i, j int) bool { n++; if n == "+k+" { panic(\"boom\") }; return x[i] < x[j] }) })\nO(r, n, x)\n"+
					"sort.Slice(x, func(i, j int) bool { return x[i] < x[j] })\nO(x)")
		}
	}
	for _, p := range dups {
		// stability: elements carry their original index
		var items []string
		for i, k := range p {
			items = append(items, fmt.Sprintf("{%d, %d}", k, i))
		}
		lit := "[]pr@{" + strings.Join(items, ", ") + "}"
		in := fmt.Sprint(p)
		g.add("sort.SliceStable", "closure", in, imp, "type pr@ struct{ k, i int }\n",
			"x := "+lit+"\nn := 0\nsort.SliceStable(x, func(i, j int) bool { n++; return x[i].k < x[j].k })\nO(x, n)")
		g.add("sort.SliceStable", "named", in, imp, "type pr@ struct{ k, i int }\nvar xs@ []pr@\nfunc less@(i, j int) bool { return xs@[i].k > xs@[j].k }\n",
			"xs@ = "+lit+"\nsort.SliceStable(xs@, less@)\nO(xs@, sort.SliceIsSorted(xs@, less@))")
	}
}

const c11SortMethodsValue = `func (s T@) Len() int { return len(s.v) }
func (s T@) Less(i, j int) bool { return s.v[i] < s.v[j] }
func (s T@) Swap(i, j int) { s.v[i], s.v[j] = s.v[j], s.v[i] }
`

func (g *c11Gen) sortInterface(perms, dups [][]int) {
	imp := []string{"sort"}
	for _, p := range perms {
		lit := c11IntsLit(p)
		in := fmt.Sprint(p)
		g.add("sort.Sort", "named-slice/value-receivers", in, imp,
			"type IS@ []int\nfunc (s IS@) Len() int { return len(s) }\nfunc (s IS@) Less(i, j int) bool { return s[i] < s[j] }\nfunc (s IS@) Swap(i, j int) { s[i], s[j] = s[j], s[i] }\n",
			"a := IS@("+lit+")\nsort.Sort(a)\nO([]int(a), sort.IsSorted(a))")
		g.add("sort.Sort", "struct/value-receivers", in, imp,
			"type T@ struct{ v []int }\n"+c11SortMethodsValue,
			"a := T@{"+lit+"}\nsort.Sort(a)\nO(a.v, sort.IsSorted(a))")
		g.add("sort.Sort", "struct/pointer-receivers", in, imp,
			"type T@ struct{ v []int; n int }\nfunc (s *T@) Len() int { return len(s.v) }\nfunc (s *T@) Less(i, j int) bool { s.n++; return s.v[i] < s.v[j] }\nfunc (s *T@) Swap(i, j int) { s.v[i], s.v[j] = s.v[j], s.v[i] }\n",
			"a := &T@{v: "+lit+"}\nsort.Sort(a)\nO(a.v, a.n)\nsort.Sort(sort.Reverse(a))\nO(a.v)")
		g.add("sort.Sort", "pointer-to-struct/value-receivers", in, imp,
			"type T@ struct{ v []int }\n"+c11SortMethodsValue,
			"a := &T@{"+lit+"}\nsort.Sort(a)\nO(a.v)")
		g.add("sort.Sort", "embedded-struct/promoted-methods", in, imp,
			"type T@ struct{ v []int }\n"+c11SortMethodsValue+"type E@ struct { T@; tag string }\n",
			"a := E@{T@{"+lit+"}, \"t\"}\nsort.Sort(a)\nO(a.v, a.tag)")
		g.add("sort.Sort", "interface-variable", in, imp,
			"type T@ struct{ v []int }\n"+c11SortMethodsValue,
			"a := T@{"+lit+"}\nvar si sort.Interface = a\nsort.Sort(si)\nO(a.v, si.Len())")
		for _, k := range []string{"1", "2"} {
			g.add("sort.Sort", "struct/pointer-receivers/Less-panics@"+k, in, imp,
				"type T@ struct{ v []int; n int }\nfunc (s *T@) Len() int { return len(s.v) }\nfunc (s *T@) Less(i, j int) bool { s.n++; if s.n == "+k+" { panic(\"boom\") }; return s.v[i] < s.v[j] }\nfunc (s *T@) Swap(i, j int) { s.v[i], s.v[j] = s.v[j], s.v[i] }\n",
				"a := &T@{v: "+lit+"}\nr := try@(func() { sort.Sort(a) })\nO(r, a.n, a.v)\nsort.Sort(a)\nO(a.v)")
		}
	}
	for _, p := range dups {
		var items []string
		for i, k := range p {
			items = append(items, fmt.Sprintf("{%d, %d}", k, i))
		}
		lit := "[]pr@{" + strings.Join(items, ", ") + "}"
		g.add("sort.Stable", "struct/pointer-receivers", fmt.Sprint(p), imp,
			"type pr@ struct{ k, i int }\ntype T@ struct{ v []pr@; n int }\nfunc (s *T@) Len() int { return len(s.v) }\nfunc (s *T@) Less(i, j int) bool { s.n++; return s.v[i].k < s.v[j].k }\nfunc (s *T@) Swap(i, j int) { s.v[i], s.v[j] = s.v[j], s.v[i] }\n",
			"a := &T@{v: "+lit+"}\nsort.Stable(a)\nO(a.v, a.n)")
		g.add("sort.Stable", "named-slice/value-receivers", fmt.Sprint(p), imp,
			"type pr@ struct{ k, i int }\ntype PS@ []pr@\nfunc (s PS@) Len() int { return len(s) }\nfunc (s PS@) Less(i, j int) bool { return s[i].k > s[j].k }\nfunc (s PS@) Swap(i, j int) { s[i], s[j] = s[j], s[i] }\n",
			"a := PS@("+lit+")\nsort.Stable(a)\nO([]pr@(a))")
	}
}

func (g *c11Gen) sortSearch() {
	imp := []string{"sort"}
	for n := 0; n <= 4; n++ {
		for t := 0; t <= n; t++ {
			in := fmt.Sprintf("n=%d threshold=%d", n, t)
			cb := c11Callback{params: "i int", result: "bool", body: fmt.Sprintf("return i >= %d", t)}
			for _, shape := range c11FuncShapes {
				sh := c11ShapeOf(shape, cb)
				use := fmt.Sprintf("res := sort.Search(%d, %s)\nO(res)", n, sh.expr)
				if sh.wrapTry {
					use = fmt.Sprintf("r := try@(func() { O(sort.Search(%d, %s)) })\nO(r)", n, sh.expr)
				}
				g.add("sort.Search", shape, in, imp, sh.decls, sh.setup+use+"\nO("+sh.count+")")
			}
		}
	}
}

func (g *c11Gen) stringCallbacks(strs []string) {
	type entry struct {
		fam  string
		imp  []string
		cb   c11Callback
		use  string // %[1]s = callback expression, %[2]s = quoted input
		shps []string
	}
	mapBody := "if r == 'a' { return 'X' }; if r == 'B' { return -1 }; return r"
	entries := []entry{
		{"strings.Map", []string{"strings"}, c11Callback{"r rune", "rune", mapBody}, "O(strings.Map(%[1]s, %[2]s))", c11FuncShapes},
		{"strings.FieldsFunc", []string{"strings"}, c11Callback{"r rune", "bool", "return r == ' '"}, "O(strings.FieldsFunc(%[2]s, %[1]s))", []string{"named", "closure", "method-value", "panic@2"}},
		{"strings.IndexFunc", []string{"strings"}, c11Callback{"r rune", "bool", "return r == 'B'"}, "O(strings.IndexFunc(%[2]s, %[1]s), strings.LastIndexFunc(%[2]s, %[1]s))", []string{"named", "closure", "method-value", "returned-closure", "panic@1"}},
		{"strings.TrimFunc", []string{"strings"}, c11Callback{"r rune", "bool", "return r == ' ' || r == 'a'"}, "O(strings.TrimFunc(%[2]s, %[1]s), strings.TrimLeftFunc(%[2]s, %[1]s), strings.TrimRightFunc(%[2]s, %[1]s))", []string{"named", "closure"}},
		{"bytes.Map", []string{"bytes"}, c11Callback{"r rune", "rune", mapBody}, "O(string(bytes.Map(%[1]s, []byte(%[2]s))), bytes.IndexFunc([]byte(%[2]s), func(r rune) bool { return r == 'B' }))", []string{"named", "closure", "method-value", "panic@2"}},
	}
	for _, e := range entries {
		for _, s := range strs {
			q := fmt.Sprintf("%q", s)
			for _, shape := range e.shps {
				sh := c11ShapeOf(shape, e.cb)
				use := fmt.Sprintf(e.use, sh.expr, q)
				if sh.wrapTry {
					use = "r := try@(func() { " + use + " })\nO(r)"
				}
				g.add(e.fam, shape, q, e.imp, sh.decls, sh.setup+use+"\nO("+sh.count+")")
			}
		}
	}
	// a compiled function value routed through interpreted code back to compiled code
	for _, s := range strs {
		q := fmt.Sprintf("%q", s)
		g.add("strings.Map", "compiled-func-value", q, []string{"strings", "unicode"}, "",
			"f := unicode.ToUpper\nO(strings.Map(f, "+q+"), strings.IndexFunc("+q+", unicode.IsSpace), strings.Map(unicode.ToLower, "+q+"))")
	}
}

func (g *c11Gen) fmtInterfaces() {
	imp := []string{"fmt"}
	for _, a := range []string{"0", "7", "-1"} {
		in := "A=" + a
		stv := "type St@ struct{ A int }\nfunc (s St@) String() string { return fmt.Sprintf(\"St<%d>\", s.A) }\n"
		g.add("fmt.Stringer", "struct/value-receiver/value", in, imp, stv, "O(SprintStringer(St@{"+a+"}))")
		g.add("fmt.Stringer", "struct/value-receiver/pointer", in, imp, stv, "O(SprintStringer(&St@{"+a+"}))")
		g.add("fmt.Stringer", "struct/pointer-receiver/pointer", in, imp,
			"type St@ struct{ A, n int }\nfunc (s *St@) String() string { s.n++; return fmt.Sprintf(\"St<%d,%d>\", s.A, s.n) }\n",
			"p := &St@{A: "+a+"}\nO(SprintStringer(p), p.n)")
		mi := "type MI@ int\nfunc (m MI@) String() string { return fmt.Sprintf(\"MI<%d>\", int(m)) }\n"
		g.add("fmt.Stringer", "named-int/value-receiver/variable", in, imp, mi, "m := MI@("+a+")\nO(SprintStringer(m))")
		g.add("fmt.Stringer", "named-slice/value-receiver", in, imp,
			"type SL@ []int\nfunc (s SL@) String() string { return fmt.Sprintf(\"SL<%d>\", len(s)+s[0]) }\n", "O(SprintStringer(SL@{"+a+", 1}))")
		g.add("fmt.Stringer", "named-func/value-receiver", in, imp,
			"type FN@ func() int\nfunc (f FN@) String() string { return fmt.Sprintf(\"FN<%d>\", f()) }\n", "O(SprintStringer(FN@(func() int { return "+a+" })))")
		g.add("fmt.Stringer", "embedded/promoted/value", in, imp, stv+"type E@ struct { St@; x int }\n", "O(SprintStringer(E@{St@{"+a+"}, 1}))")
		g.add("fmt.Stringer", "embedded/promoted/pointer", in, imp, stv+"type E@ struct { St@; x int }\n", "O(SprintStringer(&E@{St@{"+a+"}, 1}))")
		g.add("fmt.Stringer", "interface-variable", in, imp, stv, "var s fmt.Stringer = St@{"+a+"}\nO(SprintStringer(s), s.String())")
		g.add("fmt.Stringer", "many-values-through-one-conversion-site", in, imp, stv,
			"var ss []fmt.Stringer\nfor i := 0; i < 3; i++ {\n\tvar s fmt.Stringer = St@{"+a+" + i}\n\tss = append(ss, s)\n}\nfor _, s := range ss {\n\tO(SprintStringer(s))\n}")
		g.add("fmt.Stringer", "appended-to-slice-of-interface", in, imp, stv,
			"var ss []fmt.Stringer\nfor i := 0; i < 3; i++ {\n\tss = append(ss, St@{"+a+" + i})\n}\nfor _, s := range ss {\n\tO(SprintStringer(s))\n}")
		g.add("fmt.Stringer", "method-calls-compiled-with-interpreted-stringer", in, imp,
			stv+"type Bx@ struct{ in St@ }\nfunc (b Bx@) String() string { return \"[\" + SprintStringer(b.in) + \"]\" }\n", "O(SprintStringer(Bx@{St@{"+a+"}}))")
		g.add("error", "struct/pointer-receiver/pointer", in, imp,
			"type Er@ struct{ A int }\nfunc (e *Er@) Error() string { return fmt.Sprintf(\"Er<%d>\", e.A) }\n", "O(SprintError(&Er@{"+a+"}))")
		erv := "type Er@ struct{ A int }\nfunc (e Er@) Error() string { return fmt.Sprintf(\"Er<%d>\", e.A) }\n"
		g.add("error", "struct/value-receiver/value", in, imp, erv, "O(SprintError(Er@{"+a+"}))")
		g.add("error", "struct/value-receiver/pointer", in, imp, erv, "O(SprintError(&Er@{"+a+"}))")
		es := "type ES@ string\nfunc (e ES@) Error() string { return \"ES:\" + string(e) }\n"
		g.add("error", "named-string/value-receiver/variable", in, imp, es, "e := ES@(\"x"+a+"\")\nO(SprintError(e))")
		g.add("error", "error-variable", in, imp, erv, "var e error = Er@{"+a+"}\nO(SprintError(e), e.Error(), e != nil)")
		g.add("error", "returned-by-interpreted-func", in, imp, erv+"func f@(a int) error { if a == 0 { return nil }; return Er@{a} }\n",
			"e := f@("+a+")\nif e != nil { O(SprintError(e)) } else { O(\"nil error\") }")
		g.add("error", "many-values-through-one-conversion-site", in, imp, erv+"func f@(a int) error { return Er@{a} }\n",
			"var es []error\nfor i := 0; i < 3; i++ {\n\tes = append(es, f@("+a+" + i))\n}\nfor _, e := range es {\n\tO(SprintError(e))\n}")
		g.add("fmt.Formatter", "struct/value-receiver", in, imp,
			"type Fm@ struct{ A int }\nfunc (f Fm@) Format(s fmt.State, verb rune) {\n\tw, wok := s.Width()\n\tp, pok := s.Precision()\n\tfmt.Fprintf(s, \"Fm<%d,%c,%d,%v,%d,%v,%v,%v,%v,%v,%v>\", f.A, verb, w, wok, p, pok, s.Flag('+'), s.Flag('#'), s.Flag('-'), s.Flag(' '), s.Flag('0'))\n}\n",
			"O(SprintFormatter(Fm@{"+a+"}))")
		g.add("fmt.Formatter", "struct/pointer-receiver/writes-to-state", in, imp,
			"type Fm@ struct{ A, n int }\nfunc (f *Fm@) Format(s fmt.State, verb rune) { f.n++; s.Write([]byte{'<', byte(verb), '>'}); fmt.Fprint(s, f.A) }\n",
			"p := &Fm@{A: "+a+"}\nO(SprintFormatter(p), p.n)")
		g.add("fmt.GoStringer", "struct/value-receiver", in, imp,
			"type Gs@ struct{ A int }\nfunc (g Gs@) GoString() string { return fmt.Sprintf(\"Gs{%d}\", g.A) }\n", "O(SprintGoStringer(Gs@{"+a+"}))")
	}
}

const c11Reader = `type Rd@ struct {
	data        []byte
	chunks      []int
	k, n        int
	eofWithData bool
	failAt      int
}
var errBoom@ = errors.New("boom")
func (r *Rd@) Read(p []byte) (int, error) {
	r.n++
	if r.failAt > 0 && r.n == r.failAt {
		return 0, errBoom@
	}
	if len(r.data) == 0 {
		return 0, io.EOF
	}
	c := len(r.data)
	if r.k < len(r.chunks) {
		c = r.chunks[r.k]
		r.k++
	}
	if c > len(p) {
		c = len(p)
	}
	if c > len(r.data) {
		c = len(r.data)
	}
	copy(p, r.data[:c])
	r.data = r.data[c:]
	if len(r.data) == 0 && r.eofWithData {
		return c, io.EOF
	}
	return c, nil
}
`

const c11Writer = `type Wt@ struct {
	got     []string
	n       int
	shortAt int
	failAt  int
}
var errW@ = errors.New("wfail")
func (w *Wt@) Write(p []byte) (int, error) {
	w.n++
	if w.n == w.failAt {
		return 0, errW@
	}
	if w.n == w.shortAt && len(p) > 0 {
		w.got = append(w.got, string(p[:len(p)-1]))
		return len(p) - 1, nil
	}
	w.got = append(w.got, string(p))
	return len(p), nil
}
`

func (g *c11Gen) readers() {
	imp := []string{"bufio", "errors", "io"}
	type consumer struct{ name, data, decls, body string }
	consumers := []consumer{
		{"io.ReadAll", "abcd", "", "bs, err := io.ReadAll(rd)\nO(string(bs), err, err == errBoom@, rd.n)"},
		{"io.ReadFull", "abcd", "", "buf := make([]byte, 3)\nn, err := io.ReadFull(rd, buf)\nO(n, string(buf[:n]), err, rd.n)\nn, err = io.ReadFull(rd, buf)\nO(n, string(buf[:n]), err, err == io.EOF, err == io.ErrUnexpectedEOF, rd.n)"},
		{"bufio.Scanner/lines", "a\nbc", "", "sc := bufio.NewScanner(rd)\nfor sc.Scan() && Fuel() {\n\tO(sc.Text())\n}\nO(sc.Err(), sc.Err() == errBoom@, rd.n)"},
		{"bufio.Scanner/interpreted-SplitFunc", "abcd",
			"func split@(data []byte, atEOF bool) (int, []byte, error) {\n\tC(1, 0)\n\tif len(data) >= 2 {\n\t\treturn 2, data[:2], nil\n\t}\n\tif atEOF && len(data) > 0 {\n\t\treturn len(data), data, nil\n\t}\n\treturn 0, nil, nil\n}\n",
			"sc := bufio.NewScanner(rd)\nsc.Split(split@)\nfor sc.Scan() && Fuel() {\n\tO(sc.Text())\n}\nO(sc.Err(), rd.n, Cnt(1))"},
		{"bufio.Scanner/closure-SplitFunc-stops", "abcd", "",
			"sc := bufio.NewScanner(rd)\ncalls := 0\nsc.Split(func(data []byte, atEOF bool) (advance int, token []byte, err error) {\n\tcalls++\n\tif len(data) == 0 {\n\t\treturn 0, nil, nil\n\t}\n\tif data[0] == 'c' {\n\t\treturn 0, data[:1], bufio.ErrFinalToken\n\t}\n\treturn 1, data[:1], nil\n})\nfor sc.Scan() && Fuel() {\n\tO(sc.Text())\n}\nO(sc.Err(), calls)"},
		{"bufio.Reader.ReadString", "a\nbc", "", "br := bufio.NewReader(rd)\nfor Fuel() {\n\ts, err := br.ReadString('\\n')\n\tO(s, err)\n\tif err != nil {\n\t\tbreak\n\t}\n}\nO(rd.n)"},
		{"io.Copy/to-interpreted-writer", "abcd", c11Writer, "w := &Wt@{}\nn, err := io.Copy(w, rd)\nO(n, err, w.got, w.n, rd.n)"},
		{"io.Copy/to-interpreted-writer-short@2", "abcd", c11Writer, "w := &Wt@{shortAt: 2}\nn, err := io.Copy(w, rd)\nO(n, err, err == io.ErrShortWrite, w.got, w.n, rd.n)"},
		{"io.Copy/to-interpreted-writer-fail@2", "abcd", c11Writer, "w := &Wt@{failAt: 2}\nn, err := io.Copy(w, rd)\nO(n, err, err == errW@, w.got, w.n, rd.n)"},
	}
	for _, cons := range consumers {
		for _, ch := range c11Compositions(4) {
			for _, eofWith := range []bool{false, true} {
				for _, failAt := range []int{0, 2} {
					if failAt != 0 && (eofWith || len(ch) < 2) {
						continue // a failing second read needs at least two reads; one EOF mode is enough there
					}
					in := fmt.Sprintf("chunks=%v eofWithData=%v failAt=%d", ch, eofWith, failAt)
					body := fmt.Sprintf("rd := &Rd@{data: []byte(%q), chunks: %s, eofWithData: %v, failAt: %d}\n", cons.data, c11IntsLit(ch), eofWith, failAt)
					g.add(cons.name, "interpreted-io.Reader/pointer-receiver", in, imp, c11Reader+cons.decls, body+cons.body)
				}
			}
		}
	}
}

func (g *c11Gen) writers() {
	imp := []string{"bufio", "errors", "fmt", "io", "strings"}
	type producer struct{ name, body string }
	producers := []producer{
		{"io.Copy/from-strings.Reader", "n, err := io.Copy(w, strings.NewReader(\"abcd\"))\nO(n, err)"},
		{"fmt.Fprintf", "n, err := fmt.Fprintf(w, \"%d-%s|%v\", 5, \"x\", []int{1, 2})\nO(n, err)\nn, err = fmt.Fprintln(w, \"y\", 2)\nO(n, err)"},
		{"io.WriteString", "n, err := io.WriteString(w, \"abcd\")\nO(n, err)\nn, err = io.WriteString(w, \"\")\nO(n, err)"},
		{"bufio.Writer", "bw := bufio.NewWriterSize(w, 16)\nfor i := 0; i < 3; i++ {\n\tn, err := bw.WriteString(\"0123456789\")\n\tO(n, err)\n}\nO(bw.Flush(), bw.Buffered())"},
		{"io.MultiWriter", "w2 := &Wt@{}\nmw := io.MultiWriter(w, w2)\nn, err := mw.Write([]byte(\"ab\"))\nO(n, err)\nn, err = mw.Write([]byte(\"cd\"))\nO(n, err, w2.got, w2.n)"},
	}
	modes := []struct{ name, init string }{
		{"ok", "&Wt@{}"}, {"short@1", "&Wt@{shortAt: 1}"}, {"fail@1", "&Wt@{failAt: 1}"}, {"short@2", "&Wt@{shortAt: 2}"}, {"fail@2", "&Wt@{failAt: 2}"},
	}
	for _, p := range producers {
		for _, m := range modes {
			g.add(p.name, "interpreted-io.Writer/pointer-receiver", m.name, imp, c11Writer,
				"w := "+m.init+"\n"+p.body+"\nO(w.got, w.n)")
		}
	}
}

func (g *c11Gen) once() {
	imp := []string{"sync"}
	cb := c11Callback{params: "", result: "", body: "T(7)"}
	for _, shape := range c11FuncShapes {
		for calls := 1; calls <= 3; calls++ {
			sh := c11ShapeOf(shape, cb)
			var sb strings.Builder
			sb.WriteString("var once sync.Once\n")
			sb.WriteString(sh.setup)
			for i := 0; i < calls; i++ {
				if sh.wrapTry {
					fmt.Fprintf(&sb, "O(try@(func() { once.Do(%s) }))\n", sh.expr)
				} else {
					fmt.Fprintf(&sb, "once.Do(%s)\n", sh.expr)
				}
			}
			fmt.Fprintf(&sb, "O(%s)", sh.count)
			g.add("sync.Once.Do", shape, fmt.Sprintf("calls=%d", calls), imp, sh.decls, sb.String())
		}
	}
	g.add("sync.Once.Do", "once-in-interpreted-struct", "calls=2", imp,
		"type S@ struct { once sync.Once; n int }\nfunc (s *S@) init() { s.n++ }\nfunc (s *S@) Get() int { s.once.Do(s.init); return s.n }\n",
		"s := &S@{}\nO(s.Get(), s.Get())")
}

func (g *c11Gen) errorsFam() {
	imp := []string{"errors", "fmt"}
	er := "type Er@ struct{ A int }\nfunc (e *Er@) Error() string { return fmt.Sprintf(\"Er<%d>\", e.A) }\n"
	g.add("errors.Is", "interpreted-error/identity", "", imp, er,
		"var e error = &Er@{1}\nvar e2 error = &Er@{1}\nO(errors.Is(e, e), errors.Is(e, e2), errors.Is(e, nil), errors.Is(nil, e))")
	g.add("errors.Is", "interpreted-error-wrapped-by-compiled-code", "", imp, er,
		"var e error = &Er@{2}\nw := WrapErr(e)\nO(errors.Is(w, e), errors.Unwrap(w) == e, errors.Unwrap(e) == nil, ErrChain(w))\nw2 := WrapErr(w)\nO(errors.Is(w2, e), ErrChain(w2))")
	g.add("errors.As", "interpreted-error-wrapped/target-error-interface", "", imp, er,
		"var e error = &Er@{3}\nw := WrapErr(e)\nvar t error\nO(errors.As(w, &t), t == w, t.Error())")
	g.add("errors.Unwrap", "compiled-error-wrapped-by-interpreted-type/walked-by-interpreted-code", "", imp,
		"type Wr@ struct{ E error }\nfunc (w *Wr@) Error() string { return \"Wr(\" + w.E.Error() + \")\" }\nfunc (w *Wr@) Unwrap() error { return w.E }\nvar sentinel@ = errors.New(\"sentinel\")\n",
		"w := &Wr@{sentinel@}\nO(w.Unwrap() == sentinel@, w.Error(), SprintError(w), errors.Is(w.Unwrap(), sentinel@))")
	g.add("errors.New", "compiled-error-through-interpreted-func", "", imp,
		"var sentinel@ = errors.New(\"sentinel\")\nfunc f@(fail bool) (int, error) { if fail { return 0, sentinel@ }; return 1, nil }\n",
		"n, err := f@(true)\nO(n, err == sentinel@, errors.Is(err, sentinel@), errors.Is(WrapErr(err), sentinel@))\nn, err = f@(false)\nO(n, err)")
	// optional methods probed by compiled code with a type assertion on the value it was given
	wr := "type Wr@ struct{ E error }\nfunc (w *Wr@) Error() string { return \"Wr(\" + w.E.Error() + \")\" }\nfunc (w *Wr@) Unwrap() error { return w.E }\nvar sentinel@ = errors.New(\"sentinel\")\n"
	g.add("errors.Unwrap", "optional-method-of-interpreted-type", "", imp, wr,
		"var e error = &Wr@{sentinel@}\nO(errors.Unwrap(e) == sentinel@, errors.Is(e, sentinel@), ErrChain(e))")
	g.add("errors.Is", "optional-Is-method-of-interpreted-type", "", imp,
		er+"func (e *Er@) Is(target error) bool { return target == sentinel@ }\nvar sentinel@ = errors.New(\"sentinel\")\n",
		"var e error = &Er@{4}\nO(errors.Is(e, sentinel@))")
	g.add("errors.As", "target-pointer-to-interpreted-type", "", imp, er,
		"var e error = &Er@{5}\nvar t *Er@\nr := try@(func() { O(errors.As(WrapErr(e), &t)) })\nO(r == nil)\nif t != nil { O(t.A) }")
}

func (g *c11Gen) heap(perms [][]int) {
	imp := []string{"container/heap"}
	allPtr := "type H@ struct{ v []int; n int }\nfunc (h *H@) Len() int { return len(h.v) }\nfunc (h *H@) Less(i, j int) bool { h.n++; return h.v[i] < h.v[j] }\nfunc (h *H@) Swap(i, j int) { h.v[i], h.v[j] = h.v[j], h.v[i] }\n" +
		"func (h *H@) Push(x interface{}) { h.v = append(h.v, x.(int)) }\nfunc (h *H@) Pop() interface{} { old := h.v; n := len(old); x := old[n-1]; h.v = old[:n-1]; return x }\n"
	mixedSlice := "type H@ []int\nfunc (h H@) Len() int { return len(h) }\nfunc (h H@) Less(i, j int) bool { return h[i] < h[j] }\nfunc (h H@) Swap(i, j int) { h[i], h[j] = h[j], h[i] }\n" +
		"func (h *H@) Push(x interface{}) { *h = append(*h, x.(int)) }\nfunc (h *H@) Pop() interface{} { old := *h; n := len(old); x := old[n-1]; *h = old[:n-1]; return x }\n"
	mixedStruct := "type H@ struct{ v []int }\nfunc (h H@) Len() int { return len(h.v) }\nfunc (h H@) Less(i, j int) bool { return h.v[i] < h.v[j] }\nfunc (h H@) Swap(i, j int) { h.v[i], h.v[j] = h.v[j], h.v[i] }\n" +
		"func (h *H@) Push(x interface{}) { h.v = append(h.v, x.(int)) }\nfunc (h *H@) Pop() interface{} { old := h.v; n := len(old); x := old[n-1]; h.v = old[:n-1]; return x }\n"
	for _, p := range perms {
		in := fmt.Sprint(p)
		lit := c11IntsLit(p)
		pushpop := "for _, x := range " + lit + " {\n\theap.Push(h, x)\n}\nfor h.Len() > 0 && Fuel() {\n\tO(heap.Pop(h))\n}\n"
		g.add("container/heap", "struct/pointer-receivers/push-pop", in, imp, allPtr, "h := &H@{}\n"+pushpop+"O(h.n)")
		g.add("container/heap", "struct/pointer-receivers/init-fix-remove", in, imp, allPtr,
			"h := &H@{v: "+lit+"}\nheap.Init(h)\nO(h.v)\nif h.Len() > 1 {\n\th.v[h.Len()-1] = 0\n\theap.Fix(h, h.Len()-1)\n\tO(h.v)\n\tO(heap.Remove(h, 1), h.v)\n}\nO(h.n)")
		g.add("container/heap", "named-slice/value+pointer-receivers (the container/heap documentation example)", in, imp, mixedSlice,
			"h := &H@{}\n"+pushpop+"O(len(*h))")
		g.add("container/heap", "struct/value+pointer-receivers", in, imp, mixedStruct, "h := &H@{}\n"+pushpop+"O(len(h.v))")
	}
}

func (g *c11Gen) hookCallers() {
	cb := c11Callback{params: "i int", result: "int", body: "return i*7 + 1"}
	for _, shape := range c11FuncShapes {
		sh := c11ShapeOf(shape, cb)
		use := "O(Call3(" + sh.expr + "))"
		if sh.wrapTry {
			use = "O(try@(func() { " + use + " }))"
		}
		g.add("compiled-caller/Call3", shape, "", nil, sh.decls, sh.setup+use+"\nO("+sh.count+")")
	}
	multi := c11Callback{params: "s string, n int, b bool", result: "(int, string, error)",
		body: "if b { return n + len(s), s + \"!\", nil }; return -n, s, errOdd@"}
	for _, shape := range []string{"named", "closure", "method-value", "returned-closure", "panic@2"} {
		for _, n := range []string{"3", "4"} {
			sh := c11ShapeOf(shape, multi)
			use := "O(CallMulti(" + sh.expr + ", \"ab\", " + n + "))"
			if sh.wrapTry {
				use = "O(try@(func() { " + use + " }))"
			}
			g.add("compiled-caller/CallMulti", shape+"/multiple-results", "n="+n, []string{"errors"}, "var errOdd@ = errors.New(\"odd\")\n"+sh.decls, sh.setup+use+"\nO("+sh.count+")")
		}
	}
}
