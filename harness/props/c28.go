package props

// C28 — type identity (go/typeutil Identical / IdenticalIgnoreTags), Hasher and type-keyed Map.
//
// Part 1 (this file): ALL ordered pairs of the bounded universe of c28_types.go: no panic, reflexive, symmetric,
// agreement with the reference of c28_oracle.go, Identical => equal hash (shared hasher and fresh hasher),
// Identical => IdenticalIgnoreTags; transitivity over ALL triples (a,x,c) with Identical(a,x) and Identical(x,c)
// (the other triples are vacuous), evaluated directly on the implementation.
// Part 2 (c28_map.go): explicit-state BFS over typeutil.Map operation sequences against an association list.

import (
	"encoding/json"
	"fmt"
	"time"

	"github.com/cosmos72/gomacro/go/types"
	"github.com/cosmos72/gomacro/go/typeutil"

	"verif/harness/core"
)

func init() {
	core.Register(&core.Check{ID: "C28", Level: "model_checking", Workers: -1, Run: c28Run, Replay: c28Replay})
}

type c28Case struct {
	Kind     string   `json:"kind"` // pair | triple | hash | map
	Thorough bool     `json:"thorough_universe"`
	I        int      `json:"i"`
	J        int      `json:"j"`
	K        int      `json:"k,omitempty"`
	Types    []string `json:"types,omitempty"`
	Ops      []c28Op  `json:"ops,omitempty"`
	Shared   bool     `json:"shared_hasher,omitempty"`
}

// c28Try evaluates f; a panic is returned as text.
func c28Try(f func() bool) (res bool, pan string) {
	defer func() {
		if r := recover(); r != nil {
			pan = fmt.Sprint(r)
		}
	}()
	return f(), ""
}

// c28Kids lists the corresponding component pairs of x and y (when their shapes match) and a detail string
// for the signature.
func c28Kids(x, y types.Type) (kids [][2]types.Type, detail string) {
	add := func(a, b types.Type) { kids = append(kids, [2]types.Type{a, b}) }
	tup := func(a, b *types.Tuple) {
		if a.Len() == b.Len() {
			for i := 0; i < a.Len(); i++ {
				add(a.At(i).Type(), b.At(i).Type())
			}
		}
	}
	switch x := x.(type) {
	case *types.Pointer:
		if y, ok := y.(*types.Pointer); ok {
			add(x.Elem(), y.Elem())
		}
	case *types.Slice:
		if y, ok := y.(*types.Slice); ok {
			add(x.Elem(), y.Elem())
		}
	case *types.Array:
		if y, ok := y.(*types.Array); ok {
			add(x.Elem(), y.Elem())
		}
	case *types.Chan:
		if y, ok := y.(*types.Chan); ok {
			add(x.Elem(), y.Elem())
		}
	case *types.Map:
		if y, ok := y.(*types.Map); ok {
			add(x.Key(), y.Key())
			add(x.Elem(), y.Elem())
		}
	case *types.Signature:
		if y, ok := y.(*types.Signature); ok {
			if x.Recv() != nil && y.Recv() != nil {
				add(x.Recv().Type(), y.Recv().Type())
			}
			tup(x.Params(), y.Params())
			tup(x.Results(), y.Results())
			detail = fmt.Sprintf("|variadic %v/%v recv %v/%v", x.Variadic(), y.Variadic(), x.Recv() != nil, y.Recv() != nil)
		}
	case *types.Struct:
		if y, ok := y.(*types.Struct); ok && x.NumFields() == y.NumFields() {
			for i := 0; i < x.NumFields(); i++ {
				add(x.Field(i).Type(), y.Field(i).Type())
			}
		}
	case *types.Interface:
		if y, ok := y.(*types.Interface); ok {
			// the implementation walks ALL methods (declared and inherited) position by position: follow it
			if x.NumMethods() == y.NumMethods() {
				for i := 0; i < x.NumMethods(); i++ {
					xs, ys := x.Method(i).Type().(*types.Signature), y.Method(i).Type().(*types.Signature)
					if xs.Recv() != nil && ys.Recv() != nil && (xs.Recv().Type() != types.Type(x) || ys.Recv().Type() != types.Type(y)) {
						add(xs.Recv().Type(), ys.Recv().Type()) // a shared method object keeps the receiver of its first interface
					}
					tup(xs.Params(), ys.Params())
					tup(xs.Results(), ys.Results())
				}
			}
			eq := func(a, b int) string {
				if a == b {
					return "same"
				}
				return "different"
			}
			detail = fmt.Sprintf("|%s total method count, %s embedded count", eq(x.NumMethods(), y.NumMethods()), eq(x.NumEmbeddeds(), y.NumEmbeddeds()))
		}
	}
	return kids, detail
}

// c28Where finds a minimal pair of corresponding components on which implementation and reference already
// disagree (or the implementation panics) and describes it: that is the class signature of the failure.
func c28Where(x, y types.Type, tags bool, depth int) string {
	bad := func(a, b types.Type) bool {
		r, p := c28Try(func() bool {
			if tags {
				return typeutil.Identical(a, b)
			}
			return typeutil.IdenticalIgnoreTags(a, b)
		})
		if p != "" {
			return true
		}
		r2, p2 := c28Try(func() bool {
			if tags {
				return typeutil.Identical(b, a)
			}
			return typeutil.IdenticalIgnoreTags(b, a)
		})
		return p2 != "" || r != r2 || r != c28Identical(a, b, tags)
	}
	kids, detail := c28Kids(x, y)
	if depth < 6 {
		for _, k := range kids {
			if bad(k[0], k[1]) {
				return c28Where(k[0], k[1], tags, depth+1)
			}
		}
	}
	return c28Kind(x) + "~" + c28Kind(y) + detail
}

// c28WhereHash finds the innermost corresponding pair that is identical but hashes differently.
func c28WhereHash(x, y types.Type, depth int) string {
	kids, detail := c28Kids(x, y)
	if depth < 6 {
		h := typeutil.MakeHasher()
		for _, k := range kids {
			if typeutil.Identical(k[0], k[1]) && h.Hash(k[0]) != h.Hash(k[1]) {
				return c28WhereHash(k[0], k[1], depth+1)
			}
		}
	}
	return c28Kind(x) + "~" + c28Kind(y) + detail
}

type c28Checker struct {
	c        *core.Ctx
	thorough bool
	u        []c28Type
	hash     []uint32
	tagsOnly bool
}

func (k *c28Checker) cas(kind string, idx ...int) c28Case {
	cs := c28Case{Kind: kind, Thorough: k.thorough}
	for n, i := range idx {
		switch n {
		case 0:
			cs.I = i
		case 1:
			cs.J = i
		case 2:
			cs.K = i
		}
		cs.Types = append(cs.Types, k.u[i].Name())
	}
	return cs
}

// row checks every pair (i, j) and (j, i) for all j, starting at j0; returns the next j to resume from after a panic.
func (k *c28Checker) row(i, j0, jEnd int, rowS, colS *[]int) (next int) {
	c := k.c
	x := k.u[i].T
	j := j0
	var dir string
	defer func() {
		if r := recover(); r != nil {
			a, b := i, j
			if dir == "yx" {
				a, b = j, i
			}
			// Identical(u[a], u[b]) panicked
			tags := dir == "xy" || dir == "yx"
			sig := "C28|identical-panics|" + c28Where(k.u[a].T, k.u[b].T, tags, 0)
			c.Violation(sig, fmt.Sprintf("Identical(%s, %s) panics: %v (reference says identical=%v)", k.u[a].Name(), k.u[b].Name(), r,
				c28Identical(k.u[a].T, k.u[b].T, true)), k.cas("pair", a, b))
			next = j + 1
		}
	}()
	for ; j < jEnd; j++ {
		y := k.u[j].T
		dir = "xy"
		r1 := typeutil.Identical(x, y)
		dir = "yx"
		r2 := typeutil.Identical(y, x)
		dir = "t-xy"
		t1 := typeutil.IdenticalIgnoreTags(x, y)
		dir = ""
		o := c28Identical(x, y, true)
		ot := c28Identical(x, y, false)
		c.Eval(1)
		if r1 {
			*rowS = append(*rowS, j)
		}
		if r2 {
			*colS = append(*colS, j)
		}
		if i == j && !r1 {
			c.Violation("C28|not-reflexive|"+c28Kind(x), fmt.Sprintf("Identical(x, x) = false for x = %s", k.u[i].Name()), k.cas("pair", i, j))
		}
		if r1 != r2 && i <= j {
			c.Violation("C28|asymmetric|"+c28Where(x, y, true, 0), fmt.Sprintf("Identical(%s, %s) = %v but Identical(%[2]s, %[1]s) = %v (reference: %v)",
				k.u[i].Name(), k.u[j].Name(), r1, r2, o), k.cas("pair", i, j))
		}
		if r1 != o {
			c.Violation("C28|differs-from-reference|"+c28Where(x, y, true, 0), fmt.Sprintf("Identical(%s, %s) = %v, structural reference says %v",
				k.u[i].Name(), k.u[j].Name(), r1, o), k.cas("pair", i, j))
		}
		if t1 != ot {
			c.Violation("C28|ignoretags-differs-from-reference|"+c28Where(x, y, false, 0), fmt.Sprintf("IdenticalIgnoreTags(%s, %s) = %v, structural reference says %v",
				k.u[i].Name(), k.u[j].Name(), t1, ot), k.cas("pair", i, j))
		}
		if r1 && !t1 {
			c.Violation("C28|identical-but-not-ignoretags|"+c28Kind(x), fmt.Sprintf("Identical(%s, %s) but not IdenticalIgnoreTags", k.u[i].Name(), k.u[j].Name()), k.cas("pair", i, j))
		}
		if r1 && k.hash[i] != k.hash[j] {
			c.Violation("C28|identical-different-hash|"+c28WhereHash(x, y, 0), fmt.Sprintf("Identical(%s, %s) but Hash = %d vs %d",
				k.u[i].Name(), k.u[j].Name(), k.hash[i], k.hash[j]), k.cas("pair", i, j))
		}
		if i < j {
			if o {
				c.Nontrivial(fmt.Sprintf("I|%d|%d", i, j))
				if c.WantSample() && i > 2000 && (i+j)%7 == 0 {
					c.Sample(map[string]interface{}{"identical_distinct_objects": []string{k.u[i].Name(), k.u[j].Name()}})
				}
			} else if k.hash[i] == k.hash[j] {
				c.Nontrivial(fmt.Sprintf("H|%d|%d", i, j))
				c.Count("hash_collisions_non_identical", 1)
			} else if ot {
				c.Nontrivial(fmt.Sprintf("T|%d|%d", i, j))
			}
		}
	}
	return j
}

func (k *c28Checker) triples(i int, rowS, colS []int) {
	c := k.c
	for _, a := range colS {
		for _, b := range rowS {
			c.Count("triples_with_true_premises", 1)
			r, p := c28Try(func() bool { return typeutil.Identical(k.u[a].T, k.u[b].T) })
			if p != "" || !r {
				c.Violation("C28|not-transitive|"+c28Where(k.u[a].T, k.u[b].T, true, 0),
					fmt.Sprintf("Identical(a, x) and Identical(x, c) but Identical(a, c) = %v %s; a = %s, x = %s, c = %s", r, p, k.u[a].Name(), k.u[i].Name(), k.u[b].Name()),
					k.cas("triple", a, i, b))
			}
		}
	}
}

func c28Hashes(c *core.Ctx, k *c28Checker) {
	shared := typeutil.MakeHasher()
	k.hash = make([]uint32, len(k.u))
	for i := range k.u {
		i := i
		_, p := c28Try(func() bool { k.hash[i] = shared.Hash(k.u[i].T); return true })
		if p != "" {
			c.Violation("C28|hash-panics|"+c28Kind(k.u[i].T), fmt.Sprintf("Hash(%s) panics: %s", k.u[i].Name(), p), k.cas("hash", i))
		}
	}
	if c.Shard == 0 {
		// a fresh hasher (empty memo) and a second look-up in the shared one must give the same value
		for i := range k.u {
			i := i
			var h1, h2 uint32
			_, p := c28Try(func() bool { h1 = typeutil.MakeHasher().Hash(k.u[i].T); h2 = shared.Hash(k.u[i].T); return true })
			c.Eval(1)
			if p != "" || h1 != k.hash[i] || h2 != k.hash[i] {
				c.Violation("C28|hash-depends-on-memo|"+c28Kind(k.u[i].T), fmt.Sprintf("Hash(%s): shared hasher %d, again %d, fresh hasher %d %s", k.u[i].Name(), k.hash[i], h2, h1, p), k.cas("hash", i))
			}
		}
	}
}

func c28Run(c *core.Ctx) {
	c.Rule("universe = every type term of c28_types.go (basic int/string/bool/byte-alias/uint8, named a/p.A (two *Named objects of one declaration), b/p.A, named interfaces a/p.I, b/p.I, a/p.K; " +
		"closed under pointer, slice, array[1|2], chan x3, map, func (0-2 params/results, variadic and its []T twin, 3 receivers), struct (0-2 fields, exported/unexported names whose package is one of " +
		"{a/p, b/p (same package name), nil (no package), a second *Package object of path a/p}, embedded fields of exported and of unexported named types with the same package choices, tags), " +
		"interface (0-2 methods with fresh or shared *Func objects, method names with the same four package choices, 0-2 embedded named interfaces) to depth 2, thorough: depth 3 over a reduced base), each built twice as disjoint object graphs; " +
		"ALL ordered pairs checked (panic, reflexive, symmetric, reference, hash, ignore-tags) and all triples with true premises; " +
		"map: explicit-state BFS (state = sorted association list) over all sequences of length <= 5 of 53 operations {Set k v (2 values), At k, Delete k, Delete-k-inside-Iterate, Len, Iterate, Keys/Values} on 10 keys " +
		"(two identical-but-distinct slice objects, byte/uint8, three hash-colliding pairwise non-identical structs {a int} of package a/p, b/p and of no package, three such interfaces {m()}), full observation after every step, " +
		"plus ALL un-merged sequences of length <= 4 (thorough: also length 5 over the first 8 keys, and over the two slices + the three colliding structs) with a shared hasher (tests the state abstraction: holes left by Delete are hidden state). non-trivial = distinct unordered pairs of distinct objects that are identical (I), or non-identical with equal hash (H), or identical only when tags are ignored (T), " +
		"plus distinct (map state, operation) transitions")
	c.Assume("identity is specified by the documented definition in go/typeutil/predicates.go: spec identity, receivers take part in signature identity, interfaces compare explicit methods and embedded named interfaces in (sorted) order",
		"interfaces are Complete()d and embed only named interfaces, as the package requires")
	thorough := c.Thorough()
	_, u := c28Universe(thorough)
	k := &c28Checker{c: c, thorough: thorough, u: u}
	c.Set("types", len(u))
	c.Set("pairs_ordered", int64(len(u))*int64(len(u)))
	c28Hashes(c, k)
	var rowS, colS []int
	t0 := time.Now()
	defer func() { c.Count("ms_map", int(time.Since(t0)/time.Millisecond)) }() // reporting only (summed over the workers)
	for i := range u {
		if !c.Mine(i) {
			continue
		}
		if c.Expired() {
			break
		}
		rowS, colS = rowS[:0], colS[:0]
		for j := 0; j < len(u); {
			j = k.row(i, j, len(u), &rowS, &colS)
		}
		k.triples(i, rowS, colS)
	}
	c.Count("ms_pairs", int(time.Since(t0)/time.Millisecond))
	t0 = time.Now()
	c28MapCheck(c)
}

func c28Replay(c *core.Ctx, raw json.RawMessage) {
	var cs c28Case
	if err := json.Unmarshal(raw, &cs); err != nil {
		panic(err)
	}
	if cs.Kind == "map" {
		c28MapReplay(c, cs)
		return
	}
	_, u := c28Universe(cs.Thorough)
	k := &c28Checker{c: c, thorough: cs.Thorough, u: u}
	idx := []int{cs.I, cs.J, cs.K}
	for n, name := range cs.Types {
		if idx[n] >= len(u) || u[idx[n]].Name() != name {
			panic(fmt.Sprintf("c28 replay: type %d is not %s any more", idx[n], name))
		}
	}
	c28Hashes(c, k)
	switch cs.Kind {
	case "hash":
	case "pair":
		for _, p := range [][2]int{{cs.I, cs.J}, {cs.J, cs.I}} {
			var rowS, colS []int
			k.row(p[0], p[1], p[1]+1, &rowS, &colS)
		}
	case "triple":
		k.triples(cs.J, []int{cs.K}, []int{cs.I})
	}
}
