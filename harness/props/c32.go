package props

// C32 — untyped constant serialisation (base/untyped/val.go Marshal/Unmarshal) round-trips exactly.
//
// Population (every element is checked, nothing is sampled):
//  A. every distinct result (untyped kind, go/constant representation, exact value) of C04's constant expression
//     trees (literals, depth 1, and depth-2 blocks; more blocks in the thorough tier), computed with go/types;
//  B. a hand-built boundary set: nil, booleans, integers/runes up to 10^1000, every float edge (huge and tiny
//     exponents at both ends of big.Float's exponent range, rationals whose denominator is not a power of two
//     up to the 4096-bit limit of go/constant's rational representation and just beyond it, 512-bit mantissas),
//     each numeric value under every untyped kind label it is valid for, complex numbers with both parts
//     ranging over the float set, strings containing ':' '/' newline NUL, non-UTF-8 bytes, the empty string,
//     strings that look like marshalled constants;
//  C. every entry of every import table (imports.Packages[*].Untypeds): decode, encode, decode.
// Check: Unmarshal(Marshal(k, v)) returns k and exactly v (constant.Compare / byte equality), through both the
// function pair and the Val methods, and the decoded constant round-trips exactly again.

import (
	"encoding/json"
	"fmt"
	"go/constant"
	"go/token"
	"runtime"
	"sort"
	"strings"
	"sync"

	"github.com/cosmos72/gomacro/base/untyped"
	"github.com/cosmos72/gomacro/imports"

	"verif/harness/core"
)

func init() {
	core.Register(&core.Check{ID: "C32", Level: "exploration", Run: c32Run, Replay: c32Replay})
}

// c32Case describes one constant so that a replay can rebuild it without the enumerator.
type c32Case struct {
	Origin string `json:"origin"`          // "expr" | "built" | "import-table"
	Kind   string `json:"kind"`            // untyped kind label
	Expr   string `json:"expr,omitempty"`  // origin expr: Go constant expression (value from go/types)
	Built  string `json:"built,omitempty"` // origin built: name in the boundary set
	Entry  string `json:"entry,omitempty"` // origin import-table: "path.Name"
	Text   string `json:"text,omitempty"`  // marshalled text (import table) or Marshal output
	Got    string `json:"got,omitempty"`
}

type c32Item struct {
	cas  c32Case
	kind untyped.Kind
	val  constant.Value
}

func c32KindByName(s string) untyped.Kind {
	switch s {
	case "bool":
		return untyped.Bool
	case "int":
		return untyped.Int
	case "rune":
		return untyped.Rune
	case "float":
		return untyped.Float
	case "complex":
		return untyped.Complex
	case "string":
		return untyped.String
	}
	return untyped.None
}

func c32ValueClass(v constant.Value) string {
	if v == nil {
		return "nil"
	}
	s := fmt.Sprintf("%T", v)
	return strings.TrimPrefix(strings.TrimPrefix(s, "*"), "constant.")
}

type c32Viol struct {
	sig, what string
	cas       c32Case
}

// c32Check performs the round trip on one constant; returns nil if it round-trips exactly.
func c32Check(it *c32Item) *c32Viol {
	kname := c04UntypedKind(it.kind)
	cls := c32ValueClass(it.val)
	if it.val != nil && it.val.Kind() == constant.Complex {
		cls += "(" + c32ValueClass(constant.Real(it.val)) + "," + c32ValueClass(constant.Imag(it.val)) + ")"
	}
	sig := func(what string) string { return "C32|" + kname + "|" + cls + "|" + what }
	var text string
	var k2 untyped.Kind
	var v2 constant.Value
	cas := it.cas
	if p := core.Catch(func() { text = untyped.Marshal(it.kind, it.val) }); p != nil {
		cas.Got = fmt.Sprint("Marshal panics: ", p)
		return &c32Viol{sig("marshal-panic"), c32Describe(it) + ": " + cas.Got, cas}
	}
	cas.Text = c04Clip(text)
	if p := core.Catch(func() { k2, v2 = untyped.Unmarshal(text) }); p != nil {
		cas.Got = fmt.Sprint("Unmarshal panics: ", p)
		return &c32Viol{sig("unmarshal-panic"), c32Describe(it) + " marshalled as " + c04Clip(text) + ": " + cas.Got, cas}
	}
	if k2 != it.kind {
		cas.Got = "kind " + c04UntypedKind(k2)
		return &c32Viol{sig("kind"), fmt.Sprintf("%s marshalled as %s decodes with kind %s", c32Describe(it), c04Clip(text), c04UntypedKind(k2)), cas}
	}
	if !c32Same(it.val, v2) {
		cas.Got = c32Exact(v2)
		return &c32Viol{sig("value"), fmt.Sprintf("%s marshalled as %s decodes to %s", c32Describe(it), c04Clip(text), c04Clip(c32Exact(v2))), cas}
	}
	// the decoded constant is itself an untyped constant: it must round-trip exactly too.
	// (The text need not be identical: a float held as a 512-bit big.Float is written with a binary exponent and
	// may decode into the equal exact fraction, which is written as num/den. Only kind and value are compared.)
	var text2 string
	var k3 untyped.Kind
	var v3 constant.Value
	if p := core.Catch(func() { text2 = untyped.Marshal(k2, v2); k3, v3 = untyped.Unmarshal(text2) }); p != nil || k3 != it.kind || !c32Same(it.val, v3) {
		cas.Got = c04Clip(text2) + " -> " + c04Clip(c32Exact(v3))
		return &c32Viol{sig("second-round-trip"), fmt.Sprintf("%s: Marshal gives %s; the decoded constant marshals as %s which decodes to %s %s (%v)",
			c32Describe(it), c04Clip(text), c04Clip(text2), c04UntypedKind(k3), c04Clip(c32Exact(v3)), p), cas}
	}
	// the method pair must agree with the function pair
	var text3 string
	var val3 *untyped.Val
	if p := core.Catch(func() {
		text3 = (&untyped.Val{Kind: it.kind, Val: it.val}).Marshal()
		val3 = untyped.UnmarshalVal(text3)
	}); p != nil || text3 != text || val3 == nil || val3.Kind != it.kind || !c32Same(it.val, val3.Val) {
		cas.Got = c04Clip(text3)
		return &c32Viol{sig("val-methods"), fmt.Sprintf("%s: Val.Marshal/UnmarshalVal disagree with Marshal/Unmarshal (%v)", c32Describe(it), p), cas}
	}
	return nil
}

func c32Describe(it *c32Item) string {
	src := it.cas.Expr
	if src == "" {
		src = it.cas.Built + it.cas.Entry
	}
	return fmt.Sprintf("untyped %s %s [%s]", c04UntypedKind(it.kind), c04Clip(c32Exact(it.val)), c04Clip(src))
}

func c32Exact(v constant.Value) string {
	if v == nil {
		return "<nil>"
	}
	return v.ExactString()
}

// c32Same: exact equality (nil only equals nil).
func c32Same(a, b constant.Value) bool {
	if a == nil || b == nil {
		return a == nil && b == nil
	}
	if a.Kind() == constant.Unknown || b.Kind() == constant.Unknown {
		return false
	}
	return c04SameValue(a, b)
}

// ---------------------------------------------------------------------------
// population A: results of C04's trees

func c32TreeValues(c *core.Ctx) []*c32Item {
	o := newC04Oracle()
	lits, v1 := c04Reps(o, c04Lits)
	seen := map[string]bool{}
	var nodes []*c04Node
	nodes = c04Merge(seen, nodes, lits)
	nodes = c04Merge(seen, nodes, v1)
	sub := c04Small
	if c.Thorough() {
		sub = c04Medium
	}
	_, subL1 := c04Reps(o, sub)
	blocks := []*c04Block{
		{Name: "u(L1)", Un: true, Ops: c04Unops, L: v1},
		{Name: "L1 op L1 (sub-alphabet)", Ops: c04Binops, L: subL1, R: subL1},
	}
	if c.Thorough() {
		blocks = append(blocks,
			&c04Block{Name: "L1 op lit", Ops: c04Binops, L: v1, R: lits},
			&c04Block{Name: "lit op L1", Ops: c04Binops, L: lits, R: v1})
	}
	trees := len(lits) + 4*len(lits) + len(c04Binops)*len(lits)*len(lits)
	for _, b := range blocks {
		trees += b.size()
	}
	c.Set("population_A_trees_evaluated_by_go_types", trees)
	nodes = append(nodes, c04ParallelMerge(blocks, seen)...)
	items := make([]*c32Item, len(nodes))
	for i, n := range nodes {
		items[i] = &c32Item{cas: c32Case{Origin: "expr", Kind: n.Kind, Expr: n.Src}, kind: c32KindByName(n.Kind), val: n.Val}
	}
	return items
}

// ---------------------------------------------------------------------------
// population B: boundary set

type c32Named struct {
	name string
	val  constant.Value
}

func c32Lit(s string, tok token.Token) constant.Value {
	v := constant.MakeFromLiteral(s, tok, 0)
	if v == nil || v.Kind() == constant.Unknown {
		panic("C32 generator: bad literal " + s)
	}
	return v
}

func c32Pow(base int64, exp int) constant.Value {
	v := constant.MakeInt64(1)
	b := constant.MakeInt64(base)
	for i := 0; i < exp; i++ {
		v = constant.BinaryOp(v, token.MUL, b)
	}
	return v
}

func c32Op(x constant.Value, op token.Token, y constant.Value) constant.Value {
	v := constant.BinaryOp(x, op, y)
	if v == nil || v.Kind() == constant.Unknown {
		panic("C32 generator: unknown result")
	}
	return v
}

func c32Ints() []c32Named {
	one := constant.MakeInt64(1)
	sh := func(n uint) constant.Value { return constant.Shift(one, token.SHL, n) }
	neg := func(v constant.Value) constant.Value { return constant.UnaryOp(token.SUB, v, 0) }
	return []c32Named{
		{"0", constant.MakeInt64(0)}, {"1", one}, {"-1", constant.MakeInt64(-1)}, {"97", constant.MakeInt64(97)}, {"0x10FFFF", constant.MakeInt64(0x10FFFF)},
		{"maxint64", constant.MakeInt64(1<<63 - 1)}, {"minint64", constant.MakeInt64(-1 << 63)}, {"2^63", sh(63)}, {"-2^63-1", c32Op(constant.MakeInt64(-1<<63), token.SUB, one)},
		{"2^64-1", c32Op(sh(64), token.SUB, one)}, {"2^64", sh(64)}, {"2^200", sh(200)}, {"-2^200", neg(sh(200))}, {"2^511+1", c32Op(sh(511), token.ADD, one)},
		{"2^512-1", c32Op(sh(512), token.SUB, one)}, {"10^1000", c32Pow(10, 1000)}, {"-10^1000", neg(c32Pow(10, 1000))}, {"2^5000", sh(5000)},
	}
}

func c32Floats() []c32Named {
	one := constant.MakeInt64(1)
	f := func(s string) c32Named { return c32Named{s, c32Lit(s, token.FLOAT)} }
	q := func(name string, x, y constant.Value) c32Named {
		return c32Named{name, c32Op(constant.ToFloat(x), token.QUO, y)}
	}
	out := []c32Named{
		f("0.0"), f("1.0"), f("0.5"), f("0.1"), f("2.5"), f("1e3"), f("0x1p-1074"), f("0x1.fffffffffffffp1023"), f("0x1.000001000000001p0"),
		f("1e400"), f("1e-400"), f("1e5000"), f("1e-5000"), f("123456789.123456789e-4000"),
		// the ends of big.Float's exponent range (largest/smallest decimal exponents that do not overflow/underflow)
		f("1e646456992"), f("2e646456992"), f("1e-646456992"), f("1e-646456993"), f("0x1p2147483646"), f("0x1p-2147483647"), f("0x1.8p-2147483648"),
		q("1/3", one, constant.MakeInt64(3)), q("-1/7", constant.MakeInt64(-1), constant.MakeInt64(7)), q("22/7", constant.MakeInt64(22), constant.MakeInt64(7)),
		q("1e400/3", c32Pow(10, 400), constant.MakeInt64(3)), q("1/3^100", one, c32Pow(3, 100)),
		// denominators around go/constant's 4096-bit limit for exact rationals: 3^2500 (3963 bits) stays a fraction, 3^2600 (4121 bits) switches to a 512-bit float
		q("1/3^2500", one, c32Pow(3, 2500)), q("-7/3^2500", constant.MakeInt64(-7), c32Pow(3, 2500)), q("1/3^2600", one, c32Pow(3, 2600)),
		q("3^2500/7", c32Pow(3, 2500), constant.MakeInt64(7)), q("3^2600/7", c32Pow(3, 2600), constant.MakeInt64(7)),
		q("10^1200/3^2500", c32Pow(10, 1200), c32Pow(3, 2500)),
		// 512-bit mantissas in the float representation
		{"1e5000/3", c32Op(c32Lit("1e5000", token.FLOAT), token.QUO, constant.MakeInt64(3))},
		{"-1e-5000/7", c32Op(constant.UnaryOp(token.SUB, c32Lit("1e-5000", token.FLOAT), 0), token.QUO, constant.MakeInt64(7))},
		{"1e5000/1e4999", c32Op(c32Lit("1e5000", token.FLOAT), token.QUO, c32Lit("1e4999", token.FLOAT))},
		{"1e646456992/3", c32Op(c32Lit("1e646456992", token.FLOAT), token.QUO, constant.MakeInt64(3))},
	}
	n := len(out)
	for i := 0; i < n; i++ { // negatives
		if constant.Sign(out[i].val) > 0 && !strings.HasPrefix(out[i].name, "-") {
			out = append(out, c32Named{"-(" + out[i].name + ")", constant.UnaryOp(token.SUB, out[i].val, 0)})
		}
	}
	return out
}

func c32Strings() []string {
	long := strings.Repeat("ab:/\n\x00", 2000)
	return []string{"", "a", ":", "a:b", "::", ":a", "a:", "/", "1/2", "a/b:c/d", "\n", "a\nb", "\x00", "a\x00b", "\xff", "\xff\xfe\xfd", "a\xc3", "\xed\xa0\x80",
		"é", "日本語", "\"quoted\"", "`", "\\", "\\n", " ", "\t", "\r\n", "string:x", "nil", "bool:true", "int:1", "float:1/3", "complex:1:2", "rune:97", "%s", "%!s(MISSING)", long}
}

func c32Built() []*c32Item {
	var items []*c32Item
	add := func(kind untyped.Kind, name string, v constant.Value) {
		items = append(items, &c32Item{cas: c32Case{Origin: "built", Kind: c04UntypedKind(kind), Built: name}, kind: kind, val: v})
	}
	add(untyped.None, "nil", nil)
	add(untyped.Bool, "true", constant.MakeBool(true))
	add(untyped.Bool, "false", constant.MakeBool(false))
	ints, floats := c32Ints(), c32Floats()
	for _, n := range ints {
		add(untyped.Int, n.name, n.val)
		add(untyped.Rune, n.name, n.val)
		if constant.BitLen(n.val) <= 512 { // integer-valued constants under a float/complex label (e.g. the result of 2.0 * 4 kept as an integer representation)
			add(untyped.Float, n.name, n.val)
			add(untyped.Complex, n.name, n.val)
		}
	}
	for _, n := range floats {
		add(untyped.Float, n.name, n.val)
		add(untyped.Complex, n.name, n.val) // real value under the complex label
	}
	// complex: every pair of parts from the float set plus a few integers
	parts := append([]c32Named{}, floats...)
	parts = append(parts, ints[0], ints[1], ints[2], ints[11], ints[13])
	for _, re := range parts {
		for _, im := range parts {
			v := c32Op(constant.ToComplex(re.val), token.ADD, constant.MakeImag(im.val))
			add(untyped.Complex, "("+re.name+") + ("+im.name+")i", v)
		}
	}
	for _, s := range c32Strings() {
		add(untyped.String, fmt.Sprintf("%.40q", s), constant.MakeString(s))
	}
	return items
}

// rebuild one element of the boundary set by name (replay)
func c32BuiltByName(kind, name string) *c32Item {
	for _, it := range c32Built() {
		if it.cas.Kind == kind && it.cas.Built == name {
			return it
		}
	}
	return nil
}

// ---------------------------------------------------------------------------
// population C: import tables

func c32ImportEntries() (paths []string, n int) {
	for p, pkg := range imports.Packages {
		if len(pkg.Untypeds) > 0 {
			paths = append(paths, p)
			n += len(pkg.Untypeds)
		}
	}
	sort.Strings(paths)
	return
}

func c32CheckImportEntry(c *core.Ctx, path, name, text string) {
	c.Eval(1)
	cas := c32Case{Origin: "import-table", Entry: path + "." + name, Text: c04Clip(text)}
	var k1, k2 untyped.Kind
	var v1, v2 constant.Value
	var text2 string
	p := core.Catch(func() {
		k1, v1 = untyped.Unmarshal(text)
		text2 = untyped.Marshal(k1, v1)
		k2, v2 = untyped.Unmarshal(text2)
	})
	cas.Kind = c04UntypedKind(k1)
	switch {
	case p != nil:
		cas.Got = fmt.Sprint("panic: ", p)
		c.Violation("C32|import-table|panic", fmt.Sprintf("%s = %q: %v", cas.Entry, text, p), cas)
	case k1 == untyped.None || v1 == nil || v1.Kind() == constant.Unknown:
		cas.Got = "undecodable"
		c.Violation("C32|import-table|undecodable", fmt.Sprintf("%s = %q decodes to kind %v value %v", cas.Entry, text, k1, c32Exact(v1)), cas)
	case k2 != k1 || !c32Same(v1, v2):
		cas.Got = c32Exact(v2)
		c.Violation("C32|import-table|"+c04UntypedKind(k1)+"|"+c32ValueClass(v1), fmt.Sprintf("%s = %q decodes to %s %s, re-encoded %q decodes to %s %s",
			cas.Entry, text, c04UntypedKind(k1), c04Clip(c32Exact(v1)), c04Clip(text2), c04UntypedKind(k2), c04Clip(c32Exact(v2))), cas)
	default:
		if text2 == text {
			c.Count("import_entries_canonical", 1)
		}
		c.Nontrivial("imp|" + c04UntypedKind(k1) + "|" + v1.ExactString())
	}
}

// ---------------------------------------------------------------------------

func c32Run(c *core.Ctx) {
	c.Rule("population A: distinct (untyped kind, representation, exact value) results of C04's expression trees (go/types); B: boundary set (nil, bools, ints/runes to 10^1000, " +
		"float exponent-range ends, non-dyadic rationals around the 4096-bit fraction limit, 512-bit mantissas, each value under every valid kind label, complex = pairs over the float set, " +
		"strings with ':' '/' newline NUL, non-UTF-8, empty, marshalled look-alikes); C: every Untypeds entry of imports.Packages. " +
		"non-trivial = distinct (kind, representation class, exact value) constants whose marshalled text is not a plain decimal integer/bool (fractions, binary-exponent floats, complex, strings, nil, negative or >64-bit integers)")
	c.Assume("go/constant's Compare/ExactString are exact (they are the representation the interpreter itself uses)")
	items := c32TreeValues(c)
	nA := len(items)
	built := c32Built()
	items = append(items, built...)
	c.Set("population_A_distinct_values", nA)
	c.Set("population_B_boundary_values", len(built))

	// pure function of its input: run on all CPUs, results gathered per item (verdict does not depend on scheduling)
	viols := make([]*c32Viol, len(items))
	nw := runtime.NumCPU()
	var wg sync.WaitGroup
	for w := 0; w < nw; w++ {
		wg.Add(1)
		go func(w int) {
			defer wg.Done()
			for i := w; i < len(items); i += nw {
				it := items[i]
				viols[i] = c32Check(it)
				if key := c32Nontrivial(it); key != "" {
					c.Nontrivial(key)
				}
				c.Count("kind_"+c04UntypedKind(it.kind)+"_"+c32ValueClass(it.val), 1)
			}
		}(w)
	}
	wg.Wait()
	c.Eval(len(items))
	for _, v := range viols { // reported in population order: the recorded examples do not depend on scheduling
		if v != nil {
			c.Violation(v.sig, v.what, v.cas)
		}
	}
	for _, i := range []int{nA / 3, nA / 2, nA + 40, nA + 200, len(items) - 20} {
		if i >= 0 && i < len(items) {
			it := items[i]
			c.Sample(map[string]string{"constant": c32Describe(it), "marshalled": c04Clip(untyped.Marshal(it.kind, it.val))})
		}
	}
	// C: import tables
	paths, n := c32ImportEntries()
	c.Set("population_C_import_table_entries", n)
	c.Set("population_C_packages", len(paths))
	for _, p := range paths {
		pkg := imports.Packages[p]
		names := make([]string, 0, len(pkg.Untypeds))
		for name := range pkg.Untypeds {
			names = append(names, name)
		}
		sort.Strings(names)
		for _, name := range names {
			c32CheckImportEntry(c, p, name, pkg.Untypeds[name])
		}
	}
}

func c32Report(c *core.Ctx, v *c32Viol) {
	c.Eval(1)
	if v != nil {
		c.Violation(v.sig, v.what, v.cas)
	}
}

func c32Nontrivial(it *c32Item) string {
	if it.val == nil {
		return "nil"
	}
	switch it.val.Kind() {
	case constant.Bool:
		return ""
	case constant.Int:
		if _, small := constant.Int64Val(it.val); small && constant.Sign(it.val) >= 0 && (it.kind == untyped.Int || it.kind == untyped.Rune) {
			return ""
		}
	}
	return c04UntypedKind(it.kind) + "|" + c32ValueClass(it.val) + "|" + it.val.ExactString()
}

func c32Replay(c *core.Ctx, raw json.RawMessage) {
	var cas c32Case
	if err := json.Unmarshal(raw, &cas); err != nil {
		panic(err)
	}
	switch cas.Origin {
	case "expr":
		o := newC04Oracle()
		kind, val, err := o.eval(cas.Expr)
		if err != "" {
			panic("replay: " + err)
		}
		c32Report(c, c32Check(&c32Item{cas: cas, kind: c32KindByName(kind), val: val}))
	case "built":
		if it := c32BuiltByName(cas.Kind, cas.Built); it != nil {
			c32Report(c, c32Check(it))
		} else {
			panic("replay: unknown boundary value " + cas.Built)
		}
	case "import-table":
		i := strings.LastIndex(cas.Entry, ".")
		path, name := cas.Entry[:i], cas.Entry[i+1:]
		c32CheckImportEntry(c, path, name, imports.Packages[path].Untypeds[name])
	}
}
