package props

// C18: runner of the own corpus (c18_corpus.go). Every program is evaluated under all 64 option combinations in both
// generics modes, through Eval and through the REPL entry points (EvalReader for a whole stream, ParseEvalPrint input by
// input); the oracle is configuration 0 of the same mode and path, the two modes are compared in the parent.

import (
	"encoding/json"
	"fmt"
	"sort"
	"strings"

	"github.com/cosmos72/gomacro/base"

	"verif/harness/core"
	"verif/harness/h"
	"verif/harness/twin"
)

const c18AllOpts = base.OptDebugger | base.OptCollectDeclarations | base.OptCollectStatements | base.OptTrapPanic | base.OptPanicStackTrace | base.OptKeepUntyped

// c18ResetOptions puts the interpreter's options back to configuration k (an earlier input may have leaked a change).
func c18ResetOptions(ir *twin.Interp, k int) {
	o, _ := c18Options(k)
	g := &ir.Comp.Globals
	g.Options = (g.Options &^ (c18AllOpts | base.OptMacroExpandOnly)) | o
}

type c18OwnCase struct {
	Own     c18Own   `json:"program"`
	Config  int      `json:"config"`
	Base    int      `json:"baseline_config"`
	Options []string `json:"options"`
	Mode    string   `json:"generics"`
	Path    string   `json:"path"`
}

// c18OwnPaths: the entry points a program is driven through.
func c18OwnPaths(p *c18Own) []string {
	if p.Inputs != nil {
		return []string{"REPL", "EvalReader"}
	}
	return []string{"Eval", "EvalReader"}
}

// c18RunOwn evaluates p in ir through path; the result is the hook trace plus the canonical panic class
// (REPL: one line per input).
func c18RunOwn(ir *twin.Interp, p *c18Own, path string) (out string, detail string) {
	switch path {
	case "Eval":
		for _, im := range p.Imports {
			if perr := twin.Catch(func() { ir.Eval(fmt.Sprintf("import %q", im)) }); perr != nil {
				return "COMPILE-ERROR", fmt.Sprint(perr)
			}
		}
		res := twin.RunSrc(ir, p.Src, p.Call)
		if res.CompileErr != "" {
			return "COMPILE-ERROR", res.CompileErr
		}
		return res.Out, ""
	case "EvalReader":
		var src string
		if p.Inputs != nil {
			src = strings.Join(p.Inputs, "\n") + "\n"
		} else {
			for _, im := range p.Imports {
				src += fmt.Sprintf("import %q\n", im)
			}
			src += p.Src + "\n" + p.Call + "\n"
		}
		ir.Out.Reset()
		h.Reset()
		_, err := ir.EvalReader(strings.NewReader(src))
		trace := h.Finish(nil)
		msg := ""
		if err != nil {
			msg = err.Error()
		} else {
			msg = c18FirstLine(ir.Out.String())
		}
		return trace + c18MsgClass(msg), msg
	case "REPL":
		var sb strings.Builder
		for i, in := range p.Inputs {
			ir.Out.Reset()
			h.Reset()
			perr := twin.Catch(func() { ir.ParseEvalPrint(in) })
			seg := h.Finish(nil)
			msg := ""
			if perr != nil {
				msg = fmt.Sprint(perr)
			} else {
				msg = c18FirstLine(ir.Out.String())
			}
			if msg != "" {
				detail += fmt.Sprintf("[%d] %s\n", i, msg)
			}
			sb.WriteString(seg + c18MsgClass(msg) + "\n")
		}
		return sb.String(), detail
	}
	panic("c18RunOwn: unknown path " + path)
}

// c18FirstLine returns the first line printed by the interpreter, skipping the warnings about redefinitions
// (the interpreters are shared: a program evaluated through two entry points is declared twice).
func c18FirstLine(out string) string {
	for _, line := range strings.Split(out, "\n") {
		line = strings.TrimSpace(line)
		if line == "" || strings.HasPrefix(line, "// warning: redefined ") {
			continue
		}
		return line
	}
	return ""
}

func c18MsgClass(msg string) string {
	if msg == "" {
		return ""
	}
	cl := h.ErrClass(msg, false)
	if cl == "" {
		cl = "msg:" + msg
	}
	return "PANIC(" + cl + ")"
}

// c18NormLines applies c18Norm line by line (REPL results have one line per input).
func c18NormLines(s string) string {
	lines := strings.Split(s, "\n")
	for i := range lines {
		lines[i] = c18Norm(lines[i])
	}
	return strings.Join(lines, "\n")
}

// c18FamClass shortens a family name to the part used in signatures.
func c18FamClass(p *c18Own) string {
	if strings.HasPrefix(p.Fam, "repl|") {
		// the set of input kinds of the sequence (forced / command / plain ...), not the sequence itself
		kinds := map[string]bool{}
		for _, l := range strings.Split(strings.TrimPrefix(p.Fam, "repl|"), ",") {
			kinds[strings.SplitN(l, "-", 2)[0]] = true
		}
		var ks []string
		for k := range kinds {
			ks = append(ks, k)
		}
		sort.Strings(ks)
		if kinds["forced"] {
			return "repl|forced-input"
		}
		return "repl|" + strings.Join(ks, "+")
	}
	return p.Fam
}

type c18OwnRunner struct {
	c       *core.Ctx
	mode    string
	irs     []*twin.Interp // one interpreter per configuration, shared by all programs and paths (every program declares all it uses)
	sigSeen map[string]int
	found   map[string]*c18Found // signature -> first confirmed example and number of occurrences (reported by the parent)
	results map[string]string    // id|path -> configuration-0 result (compared across generics modes by the parent)
}

// c18Found is one class of mismatches of the own corpus. The workers only record them; the parent reports them together with
// the differences between the two generics modes, one signature of every family in turn, so that one defect with many
// occurrences cannot use up all the report slots of the framework.
type c18Found struct {
	What string     `json:"what"`
	Case c18OwnCase `json:"case"`
	N    int        `json:"n"`
}

func (r *c18OwnRunner) record(sig, what string, cas c18OwnCase, confirmed bool) {
	if f := r.found[sig]; f != nil {
		f.N++
		if confirmed && len(cas.Own.Text()) < len(f.Case.Own.Text()) { // keep the smallest confirmed example
			f.What, f.Case = what, cas
		}
		return
	}
	r.found[sig] = &c18Found{What: what, Case: cas, N: 1}
}

func (r *c18OwnRunner) interp(k int) *twin.Interp {
	if r.irs == nil {
		r.irs = make([]*twin.Interp, 1<<uint(len(c18Opts)))
	}
	if r.irs[k] == nil {
		r.irs[k] = c18NewInterp(k) // creating an interpreter costs as much as some twenty evaluations
	}
	ir := r.irs[k]
	c18ResetOptions(ir, k)
	return ir
}

// c18SkipConfig: the quick tier skips, on the EvalReader path, the 32 configurations with PanicStackTrace
// (the option only adds a stack dump to the report of a trapped panic) for the streams that do not panic;
// the thorough tier runs them all.
func c18SkipConfig(c *core.Ctx, path string, k int, panics bool) bool {
	return c.Quick() && path == "EvalReader" && k&16 != 0 && !panics
}

// baselineOf: the configuration whose result configuration k must reproduce on the given path.
// A stream evaluated by EvalReader stops at the first panic unless panics are trapped (that is what the option is for),
// so on that path a stream that panics is compared within the same setting of TrapPanic.
func c18BaselineOf(k int, path string, panics bool) int {
	if path == "EvalReader" && panics {
		return k & 8
	}
	return 0
}

func (r *c18OwnRunner) run(p *c18Own) {
	c := r.c
	nconf := 1 << uint(len(c18Opts))
	for _, path := range c18OwnPaths(p) {
		outs := make([]string, nconf)
		panics := false
		for k := 0; k < nconf; k++ {
			if k == 16 {
				panics = strings.Contains(outs[0], "PANIC(") || strings.Contains(outs[8], "PANIC(")
			}
			if c18SkipConfig(c, path, k, panics) {
				continue
			}
			outs[k], _ = c18RunOwn(r.interp(k), p, path)
			c.Eval(1)
		}
		r.results[p.ID+"|"+path] = c18NormLines(outs[0])
		nontrivial := strings.Count(outs[0], " ") >= 2 && !strings.HasPrefix(outs[0], "COMPILE-ERROR")
		if outs[0] == "COMPILE-ERROR" {
			c.Count("own_baseline_rejected_"+r.mode, 1)
		}
		mism := make([]bool, nconf)
		any := false
		for k := 1; k < nconf; k++ {
			b := c18BaselineOf(k, path, panics)
			if b == k || c18SkipConfig(c, path, k, panics) {
				continue
			}
			if nontrivial {
				c.Nontrivial(fmt.Sprintf("own|%s|%s|%d|%s", p.ID, path, k, r.mode))
			}
			if c18NormLines(outs[k]) != c18NormLines(outs[b]) {
				mism[k], any = true, true
			}
		}
		// report the minimal failing option sets only: a configuration that fails while one of its sub-configurations
		// already fails is counted, not reported (the signature names the options that matter)
		for k := 1; any && k < nconf; k++ {
			if !mism[k] {
				continue
			}
			minimal := true
			for s := (k - 1) & k; s > 0; s = (s - 1) & k {
				if mism[s] {
					minimal = false
					break
				}
			}
			if !minimal {
				c.Count("own_mismatches_implied_by_a_smaller_option_set", 1)
				continue
			}
			b := c18BaselineOf(k, path, panics)
			r.mismatch(p, k, b, path, outs[b], outs[k])
		}
		if c.WantSample() && nontrivial && path != "Eval" {
			c.Sample(map[string]interface{}{"own_program": p.Text(), "family": p.Fam, "path": path, "baseline_result": outs[0], "configurations": nconf, "generics": r.mode})
		}
	}
}

// mismatch confirms on fresh interpreters (the first times a class is seen) and reports.
func (r *c18OwnRunner) mismatch(p *c18Own, k, b int, path, want, got string) {
	_, names := c18Options(k)
	sig := "C18|" + c18FamClass(p) + "|" + path + "|" + strings.Join(names, "+")
	cas := c18OwnCase{Own: *p, Config: k, Base: b, Options: names, Mode: r.mode, Path: path}
	r.sigSeen[sig]++
	// the first occurrences of a class, and every candidate for a smaller example, are re-run on fresh interpreters
	confirm := r.sigSeen[sig] <= 2 || r.found[sig] == nil || len(p.Text()) < len(r.found[sig].Case.Own.Text())
	if confirm {
		w2, wd := c18RunOwn(c18NewInterp(b), p, path)
		g2, gd := c18RunOwn(c18NewInterp(k), p, path)
		if c18NormLines(w2) == c18NormLines(g2) {
			r.record("C18|history-dependent|"+c18FamClass(p)+"|"+strings.Join(names, "+"),
				fmt.Sprintf("generics=%s path=%s options=%v: result differs from configuration %d only when evaluated after the preceding corpus programs in the same interpreter: %q vs %q\n%s", r.mode, path, names, b, want, got, p.Text()), cas, true)
			return
		}
		want, got = w2, g2
		if wd != "" || gd != "" {
			got += " {messages: baseline " + strings.TrimSpace(wd) + " / this configuration " + strings.TrimSpace(gd) + "}"
		}
	}
	r.record(sig, fmt.Sprintf("generics=%s path=%s options=%v: configuration %d gives %q, this configuration %q\n%s", r.mode, path, names, b, want, got, p.Text()), cas, confirm)
}

// c18RunOwnCorpus evaluates the group's share of the own corpus. Returns false when the deadline expired.
func c18RunOwnCorpus(c *core.Ctx, mode string, group, ngroups int) (*c18OwnRunner, bool) {
	progs := c18OwnCorpus(c.Thorough())
	r := &c18OwnRunner{c: c, mode: mode, sigSeen: map[string]int{}, results: map[string]string{}, found: map[string]*c18Found{}}
	c.Set("own_corpus_programs", len(progs))
	fams := map[string]int{}
	done := true
	for i := range progs {
		fams[strings.SplitN(progs[i].Fam, "|", 2)[0]]++
		if i%ngroups != group {
			continue
		}
		if c.Expired() {
			done = false
			break
		}
		r.run(&progs[i])
	}
	c.Set("own_corpus_families", fams)
	c.Set(fmt.Sprintf("own_results_%s_%d", mode, group), r.results)
	if len(r.found) > 0 {
		c.Set(fmt.Sprintf("own_found_%s_%d", mode, group), r.found)
	}
	return r, done
}

// c18FinishOwn compares the configuration-0 results of the two generics modes, program by program and path by path.
func c18FinishOwn(c *core.Ctx) {
	byID := map[string]*c18Own{}
	progs := c18OwnCorpus(c.Thorough())
	for i := range progs {
		byID[progs[i].ID] = &progs[i]
	}
	compared, nontrivial := 0, 0
	found := map[string]*c18Found{}
	for g := 0; g < 256; g++ {
		// the mismatches recorded by the workers (generics v2 first: deterministic choice of the example)
		for _, mode := range []string{"v2", "none"} {
			key := fmt.Sprintf("own_found_%s_%d", mode, g)
			if raw := c.Extra(key); raw != nil {
				var m map[string]*c18Found
				if data, err := json.Marshal(raw); err == nil && json.Unmarshal(data, &m) == nil {
					for sig, f := range m {
						if old := found[sig]; old != nil {
							if len(f.Case.Own.Text()) < len(old.Case.Own.Text()) {
								old.What, old.Case = f.What, f.Case
							}
							old.N += f.N
						} else {
							found[sig] = f
						}
					}
				}
				c.Set(key, nil)
			}
		}
		ka, kb := fmt.Sprintf("own_results_v2_%d", g), fmt.Sprintf("own_results_none_%d", g)
		am, _ := c.Extra(ka).(map[string]interface{})
		bm, _ := c.Extra(kb).(map[string]interface{})
		c.Set(ka, nil)
		c.Set(kb, nil)
		keys := make([]string, 0, len(am))
		for key := range am {
			keys = append(keys, key)
		}
		sort.Strings(keys)
		for _, key := range keys {
			vb, ok := bm[key]
			if !ok {
				continue
			}
			compared++
			va := am[key]
			if !strings.HasPrefix(fmt.Sprint(vb), "COMPILE-ERROR") && strings.Count(fmt.Sprint(vb), " ") >= 2 {
				nontrivial++
			}
			if fmt.Sprint(va) != fmt.Sprint(vb) {
				parts := strings.SplitN(key, "|", 2)
				p := byID[parts[0]]
				if p == nil {
					continue
				}
				sig := "C18|generics-mode|" + c18FamClass(p) + "|" + parts[1]
				if old := found[sig]; old != nil {
					old.N++
				} else {
					found[sig] = &c18Found{N: 1, Case: c18OwnCase{Own: *p, Config: 0, Mode: "both", Path: parts[1]},
						What: fmt.Sprintf("path=%s, no option set: with the generics extension off the result is %q, with generics v2 (CTI) on it is %q\n%s", parts[1], vb, va, p.Text())}
				}
			}
		}
	}
	// report: one signature of every class in turn (class = the first two fields of the signature)
	byClass := map[string][]string{}
	var classes []string
	sigs := make([]string, 0, len(found))
	for sig := range found {
		sigs = append(sigs, sig)
	}
	sort.Strings(sigs)
	for _, sig := range sigs {
		parts := strings.SplitN(sig, "|", 3)
		cl := parts[1]
		if byClass[cl] == nil {
			classes = append(classes, cl)
		}
		byClass[cl] = append(byClass[cl], sig)
	}
	total := 0
	for round := 0; ; round++ {
		any := false
		for _, cl := range classes {
			if round < len(byClass[cl]) {
				any = true
				f := found[byClass[cl][round]]
				total += f.N
				c.Violation(byClass[cl][round], fmt.Sprintf("[%d occurrence(s)] %s", f.N, f.What), f.Case)
			}
		}
		if !any {
			break
		}
	}
	c.Set("own_mismatch_signatures", len(sigs))
	c.Set("own_mismatch_occurrences", total)
	c.Set("own_results_compared_across_generics_modes", compared)
	c.Set("own_results_compared_across_generics_modes_nontrivial", nontrivial)
}

func c18ReplayOwn(c *core.Ctx, cas *c18OwnCase) {
	w, wd := c18RunOwn(c18NewInterp(cas.Base), &cas.Own, cas.Path)
	g, gd := c18RunOwn(c18NewInterp(cas.Config), &cas.Own, cas.Path)
	fmt.Printf("generics mode of this process: %s (recorded: %s)\nconfiguration %d: %q %s\nconfiguration %d %v: %q %s\n", c18Mode(), cas.Mode, cas.Base, w, wd, cas.Config, cas.Options, g, gd)
	if cas.Mode == "both" {
		fmt.Println("note: a difference between the two generics modes needs two processes: run this replay with and without VERIF_GENERICS=none and compare the configuration-0 lines")
		return
	}
	if c18NormLines(w) != c18NormLines(g) {
		c.Violation("C18|"+c18FamClass(&cas.Own)+"|"+cas.Path+"|"+strings.Join(cas.Options, "+"), "results differ", cas)
	}
}
