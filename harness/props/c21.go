package props

// C21 — quote and quasiquote build the documented syntax trees in both interpreters, fresh per evaluation.
//
// Templates: base forms (expressions, statements, lists) with holes at every expression position
// (kind E), statement-list position (S) and expression-list position (A). A hole is a plain
// identifier, ~unquote{E} with E ∈ {variable holding a node, variable holding another node, call
// returning a node} or — in list positions — ~unquote_splice{L} with L ∈ {list of length 0, 1, 2,
// block of two statements}. Nesting depth 1..3: the form sits inside 1..3 ~quasiquote, the hole is an
// unquote chain of length 1..depth (only a chain as long as the depth is evaluated; the innermost
// unquote pairs with the outermost quasiquote, a spliced list is distributed over the remaining chain).
//
// Oracles: (1) a reference substitution written on go/ast (c21Ref) — strict structural equality, positions
// ignored; (2) fast ≡ classic; (3) freshness: the compiled template is evaluated three times; the first two
// results share no interior node (nodes of the inserted values excepted); the first result is then
// mutated destructively (names, literals, tokens, children) and the third evaluation must still equal the
// reference.
//
// Strengthening (seeded changes C21-nested-unquote-stack-reversed, C21-classic-empty-list-shared):
//   * unquote chains carry EVERY stack of operators {~unquote, ~unquote_splice}^(k-1) over every innermost
//     operator at every depth (quick too), so the order of a re-built operator stack is observable;
//   * nested quasiquotes are written in three styles: statement of a list ("pre"), only statement ("sole"),
//     single-node position ("index": w[~quasiquote{...}]) — the list and the single-node code paths differ;
//   * pairs of full-length chains in one template at depth 2 and 3;
//   * forms for every node kind in its empty / minimal configuration (empty block, empty parameter list, bare
//     return, empty declaration group, empty struct/interface/composite/call/switch/select/case, literals of every
//     kind, ...): the node kinds and shapes covered by the templates are measured (see c21Shapes);
//   * freshness compares the pointers of ALL nodes (leaves and empty lists included) between evaluations, the
//     destructive mutation is also ADDITIVE (an element is injected into every list, empty ones included, and a
//     node into every empty slot), and the template is also evaluated from a function called three times.

import (
	"encoding/json"
	"fmt"
	"go/ast"
	"go/token"
	"os"
	"reflect"
	"strings"

	"github.com/cosmos72/gomacro/ast2"
	"github.com/cosmos72/gomacro/go/etoken"

	"verif/harness/core"
)

func init() {
	core.Register(&core.Check{ID: "C21", Level: "exploration", Workers: -1, Run: c21Run, Replay: c21Replay, Finish: c21Finish})
}

// ---------------------------------------------------------------------------------------------
// values available to the templates

const c21Setup = `import "go/ast"
var x1 ast.Node = ~'xx
var xe ast.Node = ~'{ea + eb}
func mk() ast.Node { return ~'{made(1)} }
var l0 = []ast.Node{}
var l1 = []ast.Node{~'p1}
var l2 = []ast.Node{~'p1, ~'{g(p2)}}
var lb2 ast.Node = ~'{q1; q2()}`

func c21NodeValue(name string) ast.Node {
	switch name {
	case "x1":
		return idn("xx")
	case "xe":
		return &ast.BinaryExpr{X: idn("ea"), Op: token.ADD, Y: idn("eb")}
	case "mk()":
		return &ast.CallExpr{Fun: idn("made"), Args: []ast.Expr{&ast.BasicLit{Kind: token.INT, Value: "1"}}}
	}
	return nil
}

func c21ListValue(name string) ([]ast.Node, bool) {
	switch name {
	case "l0":
		return []ast.Node{}, true
	case "l1":
		return []ast.Node{idn("p1")}, true
	case "l2":
		return []ast.Node{idn("p1"), &ast.CallExpr{Fun: idn("g"), Args: []ast.Expr{idn("p2")}}}, true
	case "lb2":
		return []ast.Node{&ast.ExprStmt{X: idn("q1")}, &ast.ExprStmt{X: &ast.CallExpr{Fun: idn("q2")}}}, true
	}
	return nil, false
}

// ---------------------------------------------------------------------------------------------
// reference substitution

type c21Ref struct{}

type c21Unsupported struct{ why string }

// chain returns the operators of a run of directly nested unquotes starting at u and the innermost body.
func c21Chain(u *ast.UnaryExpr) (ops []token.Token, body *ast.BlockStmt) {
	for {
		ops = append(ops, u.Op)
		body = u.X.(*ast.FuncLit).Body
		if len(body.List) != 1 {
			return
		}
		var inner ast.Node = body.List[0]
		if es, ok := inner.(*ast.ExprStmt); ok {
			inner = es.X
		}
		iu, ok := inner.(*ast.UnaryExpr)
		if !ok || (iu.Op != etoken.UNQUOTE && iu.Op != etoken.UNQUOTE_SPLICE) {
			return
		}
		if _, ok := iu.X.(*ast.FuncLit); !ok {
			return
		}
		u = iu
	}
}

func c21ExprText(body *ast.BlockStmt) string {
	if len(body.List) != 1 {
		panic(c21Unsupported{"unquote body is not a single expression"})
	}
	es, ok := body.List[0].(*ast.ExprStmt)
	if !ok {
		panic(c21Unsupported{"unquote body is not an expression"})
	}
	switch x := es.X.(type) {
	case *ast.Ident:
		return x.Name
	case *ast.CallExpr:
		if id, ok := x.Fun.(*ast.Ident); ok && len(x.Args) == 0 {
			return id.Name + "()"
		}
	}
	panic(c21Unsupported{"unknown expression in unquote"})
}

func c21MakeQuote(op token.Token, v ast.Node) *ast.UnaryExpr {
	var body *ast.BlockStmt
	switch x := v.(type) {
	case *ast.BlockStmt:
		body = x
	case nil:
		body = &ast.BlockStmt{}
	default:
		body = &ast.BlockStmt{List: []ast.Stmt{asStmt(v)}}
	}
	return &ast.UnaryExpr{Op: op, X: &ast.FuncLit{Type: &ast.FuncType{Params: &ast.FieldList{}}, Body: body}}
}

func c21Wrap(ops []token.Token, v ast.Node) ast.Node {
	for i := len(ops) - 1; i >= 0; i-- {
		v = c21MakeQuote(ops[i], v)
	}
	return v
}

func asUnquote(n ast.Node) *ast.UnaryExpr {
	for {
		switch x := n.(type) {
		case *ast.ExprStmt:
			n = x.X
			continue
		case *ast.UnaryExpr:
			if x.Op == etoken.UNQUOTE || x.Op == etoken.UNQUOTE_SPLICE {
				if _, ok := x.X.(*ast.FuncLit); ok {
					return x
				}
			}
		}
		return nil
	}
}

// substList substitutes inside one list at quasiquote depth d; conv adapts an inserted node to the element type.
func (r *c21Ref) substList(list []ast.Node, d int) []ast.Node {
	var out []ast.Node
	for _, e := range list {
		if u := asUnquote(e); u != nil {
			ops, body := c21Chain(u)
			k := len(ops)
			if k > d {
				panic(c21Unsupported{"unquote outside quasiquote"})
			}
			if k == d {
				name := c21ExprText(body)
				if ops[k-1] == etoken.UNQUOTE_SPLICE {
					vals, ok := c21ListValue(name)
					if !ok {
						panic(c21Unsupported{"splice of a non-list"})
					}
					for _, v := range vals {
						out = append(out, c21Wrap(ops[:k-1], astClone(v)))
					}
				} else {
					v := c21NodeValue(name)
					if v == nil {
						panic(c21Unsupported{"unquote of a list"})
					}
					out = append(out, c21Wrap(ops[:k-1], v))
				}
				continue
			}
		}
		out = append(out, r.subst(e, d))
	}
	return out
}

func (r *c21Ref) subst(n ast.Node, d int) ast.Node {
	if isNilNode(n) {
		return nil
	}
	if u, ok := n.(*ast.UnaryExpr); ok {
		if _, isq := u.X.(*ast.FuncLit); isq {
			switch u.Op {
			case etoken.QUASIQUOTE:
				d++
			case etoken.UNQUOTE, etoken.UNQUOTE_SPLICE:
				ops, body := c21Chain(u)
				k := len(ops)
				if k > d {
					panic(c21Unsupported{"unquote outside quasiquote"})
				}
				if k == d {
					if ops[k-1] == etoken.UNQUOTE_SPLICE {
						panic(c21Unsupported{"splice in a single-node position"})
					}
					v := c21NodeValue(c21ExprText(body))
					if v == nil {
						panic(c21Unsupported{"unquote of a list"})
					}
					return c21Wrap(ops[:k-1], v)
				}
				d--
			}
		}
	}
	v := reflect.ValueOf(n).Elem()
	p := astPlanOf(v.Type())
	out := reflect.New(v.Type())
	o := out.Elem()
	for _, af := range p.Fields {
		f := v.Field(af.Idx)
		switch af.Kind {
		case fkIgnore, fkPos:
			if af.Kind == fkPos && af.Flag {
				o.Field(af.Idx).Set(f)
			}
		case fkNode:
			if c := rvNode(f); c != nil {
				o.Field(af.Idx).Set(reflect.ValueOf(c21Conv(r.subst(c, d), f.Type())))
			}
		case fkSlice:
			if f.Len() == 0 {
				continue
			}
			in := make([]ast.Node, 0, f.Len())
			for i, k := 0, f.Len(); i < k; i++ {
				in = append(in, rvNode(f.Index(i)))
			}
			res := r.substList(in, d)
			s := reflect.MakeSlice(f.Type(), len(res), len(res))
			for i, e := range res {
				if !isNilNode(e) {
					s.Index(i).Set(reflect.ValueOf(c21Conv(e, f.Type().Elem())))
				}
			}
			o.Field(af.Idx).Set(s)
		default:
			o.Field(af.Idx).Set(f)
		}
	}
	return out.Interface().(ast.Node)
}

// c21Conv adapts an inserted node to the static type of the slot (what go/ast's typing forces).
func c21Conv(n ast.Node, t reflect.Type) ast.Node {
	if isNilNode(n) {
		return n
	}
	switch t {
	case rtStmt:
		return asStmt(n)
	case rtExpr:
		switch x := n.(type) {
		case *ast.ExprStmt:
			return x.X
		case ast.Expr:
			return x
		}
		panic(c21Unsupported{"statement in expression position"})
	case rtBlockStmt:
		if b, ok := n.(*ast.BlockStmt); ok {
			return b
		}
		return &ast.BlockStmt{List: []ast.Stmt{asStmt(n)}}
	}
	if !reflect.TypeOf(n).AssignableTo(t) {
		panic(c21Unsupported{fmt.Sprintf("%T in a %v position", n, t)})
	}
	return n
}

// c21Simplify is what ~quote / ~quasiquote return for a body: nothing → empty statement; one statement →
// that statement without its ExprStmt / DeclStmt / parenthesis wrapper; several → the block.
func c21Simplify(body *ast.BlockStmt) ast.Node {
	switch len(body.List) {
	case 0:
		return &ast.EmptyStmt{}
	case 1:
		switch x := body.List[0].(type) {
		case *ast.ExprStmt:
			return x.X
		case *ast.DeclStmt:
			return x.Decl
		default:
			return x
		}
	}
	return body
}

// c21Expected computes the reference result of evaluating the template (a ~quote or ~quasiquote expression).
func c21Expected(tmpl ast.Node) (res ast.Node, unsupported string) {
	defer func() {
		if p := recover(); p != nil {
			if u, ok := p.(c21Unsupported); ok {
				res, unsupported = nil, u.why
				return
			}
			panic(p)
		}
	}()
	u, ok := tmpl.(*ast.UnaryExpr)
	if !ok {
		return nil, "template is not a quote form"
	}
	body := u.X.(*ast.FuncLit).Body
	switch u.Op {
	case etoken.QUOTE:
		return c21Simplify(astClone(body).(*ast.BlockStmt)), ""
	case etoken.QUASIQUOTE:
		r := &c21Ref{}
		in := make([]ast.Node, len(body.List))
		for i, s := range body.List {
			in[i] = s
		}
		out := r.substList(in, 1)
		nb := &ast.BlockStmt{}
		for _, e := range out {
			nb.List = append(nb.List, asStmt(e))
		}
		if len(body.List) >= 2 {
			// X is a statement list: its syntax tree is a block, whatever the splices contribute
			return nb, ""
		}
		return c21Simplify(nb), ""
	}
	return nil, "template is not a quote form"
}

// ---------------------------------------------------------------------------------------------
// templates

type c21Tmpl struct {
	ID    string `json:"id"`
	Src   string `json:"src"`
	Form  string `json:"form"`
	Depth int    `json:"depth"`
	Holes string `json:"holes"`
	Style string `json:"style,omitempty"` // how nested quasiquotes are written: "" = pre, "sole", "index"
	Site  string `json:"site,omitempty"`  // "" = the template is the evaluated expression, "func" = body of a function called repeatedly
}

type c21Form struct {
	Name string
	Text string // holes: @1E @2S @3A ...
}

func c21Forms() []c21Form {
	return []c21Form{
		{"binary", "@1E + @2E"},
		{"call-args", "f(@1A, @2A)"},
		{"call-fun", "@1E(@2A)"},
		{"index", "@1E[@2E]"},
		{"slice", "@1E[@2E:@3E]"},
		{"composite", "T{@1A, @2A}"},
		{"keyvalue", "T{k: @1E}"},
		{"unary", "-@1E"},
		{"star", "*@1E"},
		{"addr", "&@1E"},
		{"recv", "<-@1E"},
		{"paren", "(@1E)"},
		{"selector", "@1E.sel"},
		{"typeassert", "@1E.(T)"},
		{"assign", "@1E = @2E"},
		{"define", "a, b := @1A, @2A"},
		{"incdec", "@1E++"},
		{"send", "@1E <- @2E"},
		{"stmts", "@1S; @2S"},
		{"stmts3", "@1S; mid(); @2S"},
		{"single-stmt", "@1S"},
		{"block", "{ @1S; @2S }"},
		{"if", "if @1E { @2S; @3S }"},
		{"if-else", "if @1E { @2S } else { @3S }"},
		{"for", "for @1E { @2S }"},
		{"range", "for i := range @1E { @2S }"},
		{"return", "return @1A, @2A"},
		{"switch", "switch @1E { case @2A: @3S; @4S }"},
		{"funclit", "func(p int) int { @1S; return @2A }"},
		{"var", "var v T = @1A"},
		{"go", "go @1E(@2A)"},
		{"defer", "defer f(@1A)"},
		{"labeled", "L: @1T"},
		{"quote-in-qq", "f(~quote{@1S})"},
		{"paren-binary", "a * (@1E + @2E)"},
		{"select", "select { case v := <-@1E: @2S }"},
		{"ellipsis-call", "f(@1A...)"},
		{"map-type", "map[@1E]@2E"},
		{"array-type", "[@1E]int"},
		{"func-decl", "func fd(p int) { @1S; @2S }"},
	}
}

var c21NodeE = []string{"x1", "xe", "mk()"}
var c21ListE = []string{"l0", "l1", "l2", "lb2"}

// reduced value alphabet of the pair-of-chains family
var c21NodeR = []string{"x1"}
var c21ListR = []string{"l0", "l2"}

type c21Hole struct {
	marker string // "@1E"
	kind   byte   // E S A
}

func c21HolesOf(text string) []c21Hole {
	var out []c21Hole
	for i := 0; i+2 < len(text); i++ {
		if text[i] == '@' && text[i+1] >= '1' && text[i+1] <= '9' {
			out = append(out, c21Hole{text[i : i+3], text[i+2]})
		}
	}
	return out
}

// hole kinds: E expression, S statement-list element, A expression-list element, T single statement (no list)
// c21Fillers returns the texts that can fill a hole of the given kind at quasiquote depth d:
// plain identifier first, then every unquote chain of length 1..d.
// (historic alphabet: the outer operators of a chain are all the same; kept for C25 part D, which prints the results)
func c21Fillers(kind byte, d int, idx int, full bool) []string {
	out := []string{fmt.Sprintf("h%d", idx)}
	chains := func(k int, inner string, e string) []string {
		// outer k-1 operators: all ~unquote, or (for k>=2) all ~unquote_splice as well
		var res []string
		outers := []string{"~unquote"}
		if k >= 2 && full && (kind == 'S' || kind == 'A') {
			outers = append(outers, "~unquote_splice")
		}
		for _, o := range outers {
			s := inner + "{" + e + "}"
			for i := 0; i < k-1; i++ {
				s = o + "{" + s + "}"
			}
			res = append(res, s)
		}
		return res
	}
	for k := 1; k <= d; k++ {
		for _, e := range c21NodeE {
			out = append(out, chains(k, "~unquote", e)...)
		}
		if kind == 'S' || kind == 'A' {
			for _, l := range c21ListE {
				out = append(out, chains(k, "~unquote_splice", l)...)
			}
		}
	}
	return out
}

// c21Chains returns every unquote chain of exactly k operators for a hole of the given kind: the k-1 outer
// operators range over ALL of {~unquote, ~unquote_splice}^(k-1) (a splice operator needs a list position),
// the innermost operator over ~unquote of every node value and — in list positions — ~unquote_splice of
// every list value.
func c21Chains(kind byte, k int, nodeE, listE []string) []string {
	list := kind == 'S' || kind == 'A'
	ops := []string{"~unquote"}
	if list {
		ops = append(ops, "~unquote_splice")
	}
	stacks := []string{""} // prefix texts "op{op{"
	for i := 0; i < k-1; i++ {
		var next []string
		for _, s := range stacks {
			for _, o := range ops {
				next = append(next, s+o+"{")
			}
		}
		stacks = next
	}
	var out []string
	for _, st := range stacks {
		closing := strings.Repeat("}", k-1)
		for _, e := range nodeE {
			out = append(out, st+"~unquote{"+e+"}"+closing)
		}
		if list {
			for _, l := range listE {
				out = append(out, st+"~unquote_splice{"+l+"}"+closing)
			}
		}
	}
	return out
}

// c21ChainLen is the number of operators of a filler written by c21Chains (0 for a plain identifier).
func c21ChainLen(filler string) int {
	return strings.Count(filler, "~unquote{") + strings.Count(filler, "~unquote_splice{")
}

// c21FillersX: plain identifier, then every chain of length 1..d with every operator stack.
func c21FillersX(kind byte, d int, idx int) []string {
	out := []string{fmt.Sprintf("h%d", idx)}
	for k := 1; k <= d; k++ {
		out = append(out, c21Chains(kind, k, c21NodeE, c21ListE)...)
	}
	return out
}

// c21FormsX: node kinds in their empty / minimal / maximal configurations (every form has a hole, so that it
// is evaluated as a genuine quasiquote at every depth).
func c21FormsX() []c21Form {
	return []c21Form{
		// empty list nodes that have an identity
		{"empty-block", "@1S; {}; @2S"},
		{"empty-block-if", "if @1E {} else {}"},
		{"empty-block-for", "for @1E {}"},
		{"empty-block-nested", "if c { {}; { @1S } }"},
		{"empty-params", "func() { @1S }"},
		{"empty-func", "func() {}(@1A)"},
		{"empty-func-results", "func() () { return @1A }"},
		{"bare-return", "if @1E { return }"},
		{"bare-return-last", "func() { @1S; return }"},
		{"empty-var-group", "var (); @1S"},
		{"empty-const-group", "const (); @1S"},
		{"empty-type-group", "type (); @1S"},
		{"empty-import-group", "import (); @1S"},
		{"empty-struct", "var v struct{} = @1A"},
		{"empty-interface", "@1E.(interface{})"},
		{"empty-composite", "f(T{}, @1A)"},
		{"empty-call", "@1E()"},
		{"empty-switch", "switch @1E {}"},
		{"empty-typeswitch", "switch @1E.(type) {}"},
		{"empty-select", "select {}; @1S"},
		{"empty-case", "switch { case @1A: }"},
		{"empty-default", "switch @1E { default: }"},
		{"empty-comm", "select { case <-@1E: ; default: }"},
		{"empty-stmt", "for c { ; @1S }"},
		{"empty-method", "~func (T) m() {}; @1S"},
		{"empty-funcdecl", "~func fe() {}; @1S"},
		{"empty-else-chain", "if a {} else if @1E {} else {}"},
		// leaves of every kind
		{"literals", "f(1, 2.5, 3i, 'c', \"s\", `r`, @1A)"},
		{"branches", "L: for @1E { break; continue L; goto L; break L }"},
		{"fallthrough", "switch @1E { case 1: fallthrough; case 2: @2S }"},
		// optional children absent / present
		{"for-ever", "for { @1S }"},
		{"for-3", "for i := 0; @1E; i++ { @2S }"},
		{"for-cond-post", "for ; @1E; i++ { @2S }"},
		{"if-init", "if v := @1E; v { @2S } else if w { @3S } else { @4S }"},
		{"switch-init", "switch v := @1E; v { case 1, 2: @2S; default: @3S }"},
		{"switch-notag", "switch { case @1A: @2S; default: @3S }"},
		{"type-switch", "switch v := @1E.(type) { case int, T: @2S; default: @3S }"},
		{"select-full", "select { case v, ok := <-@1E: @2S; case c <- @3E: @4S; default: @5S }"},
		{"range-kv", "for k, v := range @1E { @2S }"},
		{"range-assign", "for k = range @1E { @2S }"},
		{"range-novars", "for range @1E { @2S }"},
		{"slice3", "@1E[@2E:@3E:@4E]"},
		{"slice-open", "@1E[:]"},
		{"slice-lo", "@1E[@2E:]"},
		{"assign-op", "@1E += @2E"},
		{"assign-multi", "a, b = @1A, @2A"},
		{"dec", "@1E--"},
		{"goto", "goto L; @1S"},
		{"func-results", "func(a, b int) (x, y int) { return @1A, @2A }"},
		{"func-variadic", "func(a int, b ...int) { @1S }"},
		{"func-unnamed", "func(int, string) bool { return @1A }"},
		{"method", "~func (r *T) m(p int) int { @1S; return @2A }"},
		{"funcdecl", "~func fd(p int, q ...T) (r int) { @1S; return @2A }"},
		{"funcdecl-nobody-args", "~func fd() { @1S }"},
		{"array-type-var", "var v [@1E]int"},
		{"map-type-var", "var v map[@1E]@2E"},
		{"chan-type-var", "var v chan @1E"},
		{"func-type-var", "var v func(@1E) @2E"},
		{"const", "const c, d = @1A, @2A"},
		{"const-typed", "const c int = @1A"},
		{"var-group", "var ( a = @1A; b int; c, d T = @2A, @3A )"},
		{"var-notype", "var v = @1A"},
		{"var-novalue", "var v T; @1S"},
		{"typespec", "type T struct{ a, b int; c string; E }; @1S"},
		{"type-alias", "type T = int; @1S"},
		{"type-group", "type ( T int; U = T ); @1S"},
		{"import", "import ( \"fmt\"; m \"math\"; . \"os\"; _ \"io\" ); @1S"},
		{"interface-type", "var v interface{ M(a int) int; N(); E } = @1A"},
		{"func-type", "var fn func(a, b int, c ...string) (r int, e error) = @1A"},
		{"chan-types", "f(make(chan int), make(chan<- int), make(<-chan int), @1A)"},
		{"array-types", "f([]int{}, [3]int{1}, [...]int{1, 2}, map[string][]int{\"a\": {1}}, @1A)"},
		{"pointer-type", "var p *T = @1A"},
		{"composite-kv", "T{a: @1E, b: U{c: 1}, d: []int{}}"},
		{"composite-nested", "[][]int{{@1A}, {}, {1, 2}}"},
		{"closure-defer", "defer func() { @1S }()"},
		{"closure-go", "go func(c chan int) { c <- @1E }(ch)"},
		{"star-paren", "(*@1E).f(@2A)"},
		{"typeassert-paren", "(@1E).(*T)"},
		{"unary-ops", "f(+a, !b, ^c, @1A)"},
		{"binary-ops", "a && b || c == d && @1E != e"},
		{"labeled-block", "L: { @1S; break L }"},
		{"decl-in-block", "for c { var a int; @1S }"},
		{"define-in-block", "L: { a := @1E }"},
	}
}

// c21WrapQuasi writes the nested quasiquotes around a body.
func c21WrapQuasi(body string, depth int, style string) string {
	src := body
	for i := 0; i < depth; i++ {
		switch {
		case i == 0 || style == "sole":
			src = "~quasiquote{" + src + "}"
		case style == "index":
			src = "~quasiquote{w" + fmt.Sprint(i) + "[" + src + "]}"
		default:
			src = "~quasiquote{pre" + fmt.Sprint(i) + "; " + src + "}"
		}
	}
	return src
}

func c21Fill(text string, holes []c21Hole, fill func(j int) string) string {
	body := text
	for j, h := range holes {
		body = strings.Replace(body, h.marker, fill(j), 1)
	}
	return body
}

// c21HandForm names a hand-written shape in signatures (the text itself: each shape is its own class).
func c21HandForm(ext bool, src string) string {
	if !ext {
		return "hand"
	}
	return "hand(" + src + ")"
}

// c21Templates is the historic template set (also the domain of C25 part D).
func c21Templates(c *core.Ctx) []c21Tmpl { return c21TemplatesOpt(c, false) }

func c21TemplatesOpt(c *core.Ctx, ext bool) []c21Tmpl {
	out := make([]c21Tmpl, 0, 1<<12)
	if ext {
		out = make([]c21Tmpl, 0, 1<<16)
	}
	add := func(form string, depth int, holes, style, site, body string) {
		out = append(out, c21Tmpl{ID: fmt.Sprintf("t%d", len(out)), Src: c21WrapQuasi(body, depth, style), Form: form, Depth: depth, Holes: holes, Style: style, Site: site})
	}
	forms := c21Forms()
	maxDepth := 3
	if ext {
		forms = append(forms, c21FormsX()...)
		if c.Thorough() {
			maxDepth = 4
		}
	}
	for _, f := range forms {
		holes := c21HolesOf(f.Text)
		plainFill := func(j int) string { return fmt.Sprintf("h%d", j+1) }
		// ~quote of the plain form
		out = append(out, c21Tmpl{ID: fmt.Sprintf("t%d", len(out)), Src: "~quote{" + c21Fill(f.Text, holes, plainFill) + "}", Form: f.Name, Depth: 0, Holes: "quote"})
		for d := 1; d <= maxDepth; d++ {
			full := c.Thorough() || d <= 2
			fillers := make([][]string, len(holes))
			for i, h := range holes {
				if ext {
					fillers[i] = c21FillersX(h.kind, d, i+1)
				} else {
					fillers[i] = c21Fillers(h.kind, d, i+1, full)
				}
			}
			styles := []string{""}
			if ext && d >= 2 {
				styles = append(styles, "sole", "index")
			}
			// (a) one active hole at a time (the others plain), every filler, every style of nesting
			for _, style := range styles {
				for i := range holes {
					for fi := range fillers[i] {
						if fi == 0 && i > 0 {
							continue // all-plain only once
						}
						if style != "" && fi > 0 && c.Quick() && c21ChainLen(fillers[i][fi]) != d {
							continue // quick: the other styles of nesting only with the chains that reach the outermost quasiquote
						}
						body := c21Fill(f.Text, holes, func(j int) string {
							if j == i {
								return fillers[i][fi]
							}
							return fillers[j][0]
						})
						add(f.Name, d, fmt.Sprintf("%d:%d", i+1, fi), style, "", body)
					}
				}
			}
			// (b) two active holes: every pair of fillers (depth 1; thorough: also depth 2)
			if d == 1 || (d == 2 && c.Thorough()) {
				for i := 0; i < len(holes); i++ {
					for j := i + 1; j < len(holes); j++ {
						for fi := 1; fi < len(fillers[i]); fi++ {
							for fj := 1; fj < len(fillers[j]); fj++ {
								body := c21Fill(f.Text, holes, func(k int) string {
									switch k {
									case i:
										return fillers[i][fi]
									case j:
										return fillers[j][fj]
									}
									return fillers[k][0]
								})
								add(f.Name, d, fmt.Sprintf("%d:%d,%d:%d", i+1, fi, j+1, fj), "", "", body)
							}
						}
					}
				}
			}
			if !ext {
				continue
			}
			// (c) two active holes at depth >= 2: every pair of full-length chains (every operator stack) over the
			// reduced value alphabet — two deep splices / unquotes side by side
			if d >= 2 && d <= 3 {
				for i := 0; i < len(holes); i++ {
					listR := c21ListR
					if d == 3 && c.Quick() {
						listR = c21ListR[1:]
					}
					ci := c21Chains(holes[i].kind, d, c21NodeR, listR)
					for j := i + 1; j < len(holes); j++ {
						cj := c21Chains(holes[j].kind, d, c21NodeR, listR)
						for fi := range ci {
							for fj := range cj {
								body := c21Fill(f.Text, holes, func(k int) string {
									switch k {
									case i:
										return ci[fi]
									case j:
										return cj[fj]
									}
									return fillers[k][0]
								})
								add(f.Name, d, fmt.Sprintf("%d:c%d,%d:c%d", i+1, fi, j+1, fj), "", "", body)
							}
						}
					}
				}
			}
			// (d) the template as body of a function that is called three times: all-plain, and the first hole filled
			// with the first full-length chain of every innermost operator
			if d <= 3 && len(holes) > 0 {
				add(f.Name, d, "plain", "", "func", c21Fill(f.Text, holes, plainFill))
				for _, ch := range [][]string{c21Chains(holes[0].kind, d, c21NodeR[:1], nil), c21Chains(holes[0].kind, d, nil, c21ListR[1:])} {
					if len(ch) > 0 {
						body := c21Fill(f.Text, holes, func(k int) string {
							if k == 0 {
								return ch[0]
							}
							return fillers[k][0]
						})
						add(f.Name, d, "1:f", "", "func", body)
					}
				}
			}
		}
	}
	// a few hand-written shapes: quote inside quasiquote, unquote around a nested quasiquote, shorthand syntax
	hand := []string{
		"~quasiquote{~quote{a + ~unquote{x1}}}",
		"~quasiquote{~quasiquote{a; ~unquote{b}; ~unquote{~unquote{x1}}; ~unquote_splice{~unquote_splice{l2}}; ~unquote{~unquote_splice{l2}}}}",
		"~\"{1 + ~,xe}",
		"~\"{zero ; ~,@l2 ; one}",
		"~\"~\"{zero ; ~,~,@l2 ; one}",
		"~\"~\"{zero ; ~,@~,@l2 ; one}",
		"~'{a; b}",
		"~quote{}",
		"~quasiquote{}",
		"~quote{{}}",
		"~quote{(a)}",
		"~quote{{a}}",
		"~quote{{a; b}}",
		"~quote{x.y}",
		"~quote{package p}",
		"~quote{import \"fmt\"}",
		"~quote{type T struct{ a, b int }}",
		"~quote{case 1, 2: a; b}",
		"~quasiquote{case ~unquote{x1}: ~unquote_splice{l2}}",
		"~quasiquote{type T struct{ a ~unquote{x1} }}",
		"~quasiquote{func f(p ~unquote{x1}) ~unquote{xe} { ~unquote_splice{lb2} }}",
	}
	if ext {
		hand = append(hand,
			"~\"~\"~\"{a; ~,~,@~,@l2; b}",
			"~\"~\"~\"{a; ~,@~,~,@l2; b}",
			"~\"~\"~\"{a; ~,~,~,x1; ~,@~,@~,@l2; b}",
			"~quasiquote{{}}",
			"~quasiquote{func() {}}",
			"~quasiquote{return}",
			"~quasiquote{var ()}",
			"~quasiquote{var v struct{}}",
			"~quasiquote{x.(interface{})}",
			"~quasiquote{~func f() {}}",
			"~quasiquote{~func f(p ~unquote{x1}) ~unquote{xe} { ~unquote_splice{lb2} }}",
			"~quasiquote{f()}",
			"~quasiquote{T{}}",
			"~quasiquote{for {}}",
			"~quasiquote{select {}}",
			"~quasiquote{switch {}}",
			"~quasiquote{case 1:}",
			"~quasiquote{default:}",
			"~quasiquote{x}",
			"~quasiquote{1}",
			"~quasiquote{\"s\"}",
			"~quasiquote{break}",
			"~quasiquote{~quasiquote{}}",
			"~quasiquote{~quasiquote{{}}}",
			"~quasiquote{~quasiquote{~unquote{}}}",
			"~quasiquote{a; ~quasiquote{return; ~unquote{f()}; ~unquote{~unquote{x1}}}}",
			"~quasiquote{a; ~quasiquote{b; ~unquote{fe(func() {}, T{}, struct{}{})}; ~unquote{~unquote{x1}}}}",
			"~quasiquote{~quasiquote{~unquote{func() { return }}}}",
			"~quasiquote{w[~quasiquote{~unquote{func() { for {}; select {}; switch {} }}}]}",
			"~quasiquote{a; ~quasiquote{b; ~quasiquote{c; ~unquote{~unquote{func() {}}}; ~unquote{~unquote{~unquote_splice{l2}}}}}}",
		)
	}
	for _, src := range hand {
		out = append(out, c21Tmpl{ID: fmt.Sprintf("t%d", len(out)), Src: src, Form: c21HandForm(ext, src), Depth: strings.Count(src, "~quasiquote") + strings.Count(src, "~\""), Holes: "hand"})
	}
	return out
}

// ---------------------------------------------------------------------------------------------
// running

type c21Runner struct {
	name string
	// prepare returns a function that evaluates the (once parsed / compiled) template
	prepare func(src string) func() interface{}
}

// c21SiteFunc is the function the "func" site declares (redeclared for every template) and the call evaluated three times.
const c21SiteFunc = "c21site"

func c21SiteSrc(t *c21Tmpl) (decl, src string) {
	if t.Site == "func" {
		return "func " + c21SiteFunc + "() ast.Node { return " + t.Src + " }", c21SiteFunc + "()"
	}
	return "", t.Src
}

func c21Runners(w *c20World) []c21Runner {
	return []c21Runner{
		{"fast", func(src string) func() interface{} {
			e := w.fast.Compile(src)
			return func() interface{} {
				vs, _ := w.fast.RunExpr(e)
				if len(vs) == 0 || !vs[0].IsValid() {
					return nil
				}
				return vs[0].Interface()
			}
		}},
		{"classic", func(src string) func() interface{} {
			form := w.classic.Parse(src)
			return func() interface{} {
				v, _ := w.classic.EvalAst(form)
				if !v.IsValid() || !v.CanInterface() {
					return nil
				}
				return v.Interface()
			}
		}},
	}
}

// c21Declare evaluates a declaration in one engine.
func c21Declare(w *c20World, engine, decl string) {
	if decl == "" {
		return
	}
	switch engine {
	case "fast":
		w.fast.Eval(decl)
	case "classic":
		w.classic.Eval(decl)
	}
}

func c21AsNode(v interface{}) (ast.Node, string) {
	switch x := v.(type) {
	case nil:
		return nil, "nil"
	case ast.Node:
		return x, ""
	case ast2.AstWithNode:
		return x.Node(), ""
	}
	return nil, fmt.Sprintf("%T", v)
}

// c21Ptrs collects the nodes of a tree (leaves and empty lists included unless interiorOnly), not descending
// into nodes of `skip`.
func c21Ptrs(n ast.Node, skip map[ast.Node]bool, interiorOnly bool) map[ast.Node]bool {
	out := map[ast.Node]bool{}
	astWalk(n, func(x ast.Node) bool {
		if skip[x] {
			return false
		}
		if interiorOnly {
			leaf := true
			astChildren(x, func(ast.Node) { leaf = false })
			if leaf {
				return true
			}
		}
		out[x] = true
		return true
	})
	return out
}

var (
	rtDecl = reflect.TypeOf((*ast.Decl)(nil)).Elem()
	rtSpec = reflect.TypeOf((*ast.Spec)(nil)).Elem()
)

// c21Injected builds a recognisable node assignable to a slot of static type t (nil if there is none).
func c21Injected(t reflect.Type) ast.Node {
	inj := func() *ast.Ident { return idn("INJECTED") }
	switch t {
	case rtExpr, rtNode:
		return inj()
	case rtStmt:
		return &ast.ExprStmt{X: inj()}
	case rtDecl:
		return &ast.GenDecl{Tok: token.VAR, Specs: []ast.Spec{&ast.ValueSpec{Names: []*ast.Ident{inj()}}}}
	case rtSpec:
		return &ast.ValueSpec{Names: []*ast.Ident{inj()}}
	case rtBlockStmt:
		return &ast.BlockStmt{List: []ast.Stmt{&ast.ExprStmt{X: inj()}}}
	}
	switch t {
	case reflect.TypeOf((*ast.Ident)(nil)):
		return inj()
	case reflect.TypeOf((*ast.Field)(nil)):
		return &ast.Field{Type: inj()}
	case reflect.TypeOf((*ast.FieldList)(nil)):
		return &ast.FieldList{List: []*ast.Field{{Type: inj()}}}
	case reflect.TypeOf((*ast.BasicLit)(nil)):
		return &ast.BasicLit{Kind: token.STRING, Value: "\"INJECTED\""}
	case reflect.TypeOf((*ast.FuncType)(nil)):
		return &ast.FuncType{Params: &ast.FieldList{List: []*ast.Field{{Type: inj()}}}}
	case reflect.TypeOf((*ast.CallExpr)(nil)):
		return &ast.CallExpr{Fun: inj()}
	}
	return nil
}

// c21Mutate destroys a tree in place (post-order), leaving alone the subtrees rooted at nodes of skip.
// Every node is changed visibly whatever its shape: names, literals, tokens and flags are altered, present
// children removed, ABSENT children and the elements of every list — empty ones included — replaced by an
// injected node (an empty block, an empty parameter list or a bare return have nothing else to alter).
func c21Mutate(n ast.Node, skip map[ast.Node]bool) {
	if isNilNode(n) || skip[n] {
		return
	}
	astChildren(n, func(c ast.Node) { c21Mutate(c, skip) })
	v := reflect.ValueOf(n).Elem()
	for _, af := range astPlanOf(v.Type()).Fields {
		f := v.Field(af.Idx)
		switch af.Kind {
		case fkStr:
			f.SetString(f.String() + "_mutated")
		case fkTok:
			f.SetInt(int64(token.ILLEGAL))
		case fkBool:
			f.SetBool(!f.Bool())
		case fkInt:
			f.SetInt(0)
		case fkNode:
			if rvNode(f) != nil {
				f.Set(reflect.Zero(f.Type()))
			} else if inj := c21Injected(f.Type()); inj != nil {
				f.Set(reflect.ValueOf(inj))
			}
		case fkSlice:
			for i, k := 0, f.Len(); i < k; i++ {
				f.Index(i).Set(reflect.Zero(f.Type().Elem())) // visible through any alias of the backing array
			}
			if inj := c21Injected(f.Type().Elem()); inj != nil {
				s := reflect.MakeSlice(f.Type(), 1, 1)
				s.Index(0).Set(reflect.ValueOf(inj))
				f.Set(s)
			} else {
				f.Set(reflect.Zero(f.Type()))
			}
		}
	}
}

// c21SharedClass names the kinds of the nodes two results share: "BlockStmt(empty),Ident".
func c21SharedClass(shared []ast.Node) string {
	set := map[string]int{}
	for _, x := range shared {
		name := astTypeName(x)
		leaf := true
		astChildren(x, func(ast.Node) { leaf = false })
		if leaf {
			switch x.(type) {
			case *ast.Ident, *ast.BasicLit, *ast.EmptyStmt, *ast.BranchStmt:
			default:
				name += "(empty)"
			}
		}
		set[name]++
	}
	return strings.Join(sortedKeys(set), ",")
}

type c21Case struct {
	Tmpl   c21Tmpl `json:"template"`
	Engine string  `json:"engine,omitempty"`
}

// ParenExpr is transparent: both interpreters document that they unwrap parentheses inside a quasiquote (the tree shape carries the grouping)
var c21Eq = &eqOpts{Pos: posFlags, StripParens: true}

func c21Kind(t *c21Tmpl) string {
	switch {
	case strings.Contains(t.Src, "~unquote_splice") || strings.Contains(t.Src, "~,@"):
		return "splice"
	case strings.Contains(t.Src, "~unquote") || strings.Contains(t.Src, "~,"):
		return "unquote"
	case strings.HasPrefix(t.Src, "~quote") || strings.HasPrefix(t.Src, "~'"):
		return "quote"
	}
	return "plain"
}

// c21RunOne evaluates one template on every engine. Returns the results (first evaluation) per engine for C25.
func c21RunOne(c *core.Ctx, w *c20World, runners []c21Runner, values map[ast.Node]bool, t *c21Tmpl) map[string]ast.Node {
	results := map[string]ast.Node{}
	_, nodes, err, panicked := forkParse("tmpl.go", []byte(t.Src), 0)
	if err != nil || panicked != nil || len(nodes) != 1 {
		c.Count("templates_not_parseable_by_design", 1)
		return results
	}
	want, unsupported := c21Expected(nodes[0])
	if unsupported != "" {
		c.Count("templates_outside_reference("+unsupported+")", 1)
		return results
	}
	if why := c25IllFormed(want); why != "" {
		// an empty splice leaves something that is not a syntax tree of any program (go/ast's own End() panics on it)
		c.Count("templates_with_ill_formed_result("+why+")", 1)
		return results
	}
	c.Count("templates_run", 1)
	kind := c21Kind(t)
	ctxSig := fmt.Sprintf("%s|depth%d|%s", t.Form, t.Depth, kind)
	if t.Style != "" {
		ctxSig += "|" + t.Style
	}
	decl, evalSrc := c21SiteSrc(t)
	sig := func(engine, class string) string {
		s := "C21|" + engine + "|" + class
		if os.Getenv("VERIF_DEBUG_SIGS") != "" {
			fmt.Printf("SIG %s\t%s\n", s, t.Src)
		}
		return s
	}
	wantDump := astDump(want)
	for _, rn := range runners {
		cas := c21Case{Tmpl: *t, Engine: rn.name}
		c.Eval(1)
		var r1, r2, r3 interface{}
		var run func() interface{}
		if p := core.Catch(func() { c21Declare(w, rn.name, decl); run = rn.prepare(evalSrc); r1 = run() }); p != nil {
			c.Violation(sig(rn.name, ctxSig+"|fails|"+c21MsgClass(fmt.Sprint(p))), fmt.Sprintf("%s (%s): evaluation fails: %v; reference: %s", t.Src, rn.name, clip(fmt.Sprint(p), 300), wantDump), cas)
			continue
		}
		n1, bad := c21AsNode(r1)
		if bad != "" {
			c.Violation(sig(rn.name, ctxSig+"|not-a-node"), fmt.Sprintf("%s (%s): result is %s, reference: %s", t.Src, rn.name, bad, wantDump), cas)
			continue
		}
		results[rn.name] = n1
		if d := astDiff(want, n1, c21Eq); d != "" {
			cls := ctxSig + "|wrong-tree|" + c25Class(d)
			nest := "top"
			if t.Depth >= 2 {
				nest = "nested"
			}
			if astDiff(n20Root(want), n20Root(n1), c21Eq) == "" {
				cls = t.Form + "|" + nest + "|wrapper-differs" // same tree modulo one-statement blocks / statement wrappers
			}
			c.Violation(sig(rn.name, cls), fmt.Sprintf("%s (%s): expected %s, got %s [%s]", t.Src, rn.name, wantDump, astDump(n1), d), cas)
			continue
		}
		// freshness
		if p := core.Catch(func() { r2 = run() }); p != nil {
			c.Violation(sig(rn.name, ctxSig+"|second-evaluation-fails"), fmt.Sprintf("%s (%s): second evaluation fails: %v", t.Src, rn.name, p), cas)
			continue
		}
		n2, _ := c21AsNode(r2)
		if d := astDiff(want, n2, c21Eq); d != "" {
			c.Violation(sig(rn.name, ctxSig+"|second-evaluation-differs"), fmt.Sprintf("%s (%s): second evaluation gives %s, expected %s", t.Src, rn.name, astDump(n2), wantDump), cas)
			continue
		}
		// every node — leaves and empty lists included — must be a new one (the inserted values excepted)
		p1, p2 := c21Ptrs(n1, values, false), c21Ptrs(n2, values, false)
		var sharedNodes []ast.Node
		sharedInterior := 0
		astWalk(n1, func(x ast.Node) bool { // deterministic order
			if values[x] {
				return false
			}
			if p1[x] && p2[x] {
				sharedNodes = append(sharedNodes, x)
				leaf := true
				astChildren(x, func(ast.Node) { leaf = false })
				if !leaf {
					sharedInterior++
				}
			}
			return true
		})
		shared := len(sharedNodes)
		if shared > 0 {
			cls := "quasiquote-not-fresh|shared-nodes|" + c21SharedClass(sharedNodes)
			if sharedInterior > 0 {
				cls = "quasiquote-not-fresh|shared-interior-nodes|" + t.Form
			}
			if kind == "quote" {
				cls = "quote-not-fresh"
			}
			c.Violation(sig(rn.name, cls), fmt.Sprintf("%s (%s%s): two evaluations share %d nodes (%s), e.g. %s", t.Src, rn.name, c21SiteNote(t), shared, c21SharedClass(sharedNodes), astBrief(sharedNodes[0])), cas)
		}
		c21Mutate(n1, values)
		if p := core.Catch(func() { r3 = run() }); p != nil {
			c.Violation(sig(rn.name, ctxSig+"|not-fresh|evaluation-after-mutation-fails"), fmt.Sprintf("%s (%s): after mutating the first result the next evaluation fails: %v", t.Src, rn.name, clip(fmt.Sprint(p), 200)), cas)
			continue
		}
		n3, _ := c21AsNode(r3)
		if d := astDiff(want, n3, c21Eq); d != "" {
			cls := "quasiquote-not-fresh|mutation-visible|" + t.Form
			if kind == "quote" {
				cls = "quote-not-fresh"
			} else if sharedInterior == 0 && c21OnlyLeavesDiffer(want, n3) {
				cls = "quasiquote-leaves-shared-with-template" // interior nodes are fresh, identifiers / literals are the template's own nodes
			}
			c.Violation(sig(rn.name, cls), fmt.Sprintf("%s (%s): after mutating the first result the next evaluation gives %s, expected %s [%s]", t.Src, rn.name, astDump(n3), wantDump, d), cas)
			continue
		}
		// results 2 and 3 (a tree cached from the second evaluation on would pass the comparison of 1 and 2)
		if shared == 0 {
			p3 := c21Ptrs(n3, values, false)
			var later []ast.Node
			astWalk(n2, func(x ast.Node) bool {
				if values[x] {
					return false
				}
				if p2[x] && p3[x] {
					later = append(later, x)
				}
				return true
			})
			if len(later) > 0 {
				cls := "quasiquote-not-fresh|later-evaluations-share-nodes|" + c21SharedClass(later)
				if kind == "quote" {
					cls = "quote-not-fresh"
				}
				c.Violation(sig(rn.name, cls), fmt.Sprintf("%s (%s%s): the second and third evaluation share %d nodes (%s), e.g. %s", t.Src, rn.name, c21SiteNote(t), len(later), c21SharedClass(later), astBrief(later[0])), cas)
			}
		}
	}
	if kind != "plain" && kind != "quote" {
		c.Nontrivial(t.Site + "|" + t.Src)
	}
	if t.Site != "" {
		c.Count("templates_run_in_"+t.Site, 1)
	}
	return results
}

// c21OnlyLeavesDiffer reports whether got differs from want only in names / literal values of leaf nodes.
func c21OnlyLeavesDiffer(want, got ast.Node) bool {
	return astDiff(want, got, &eqOpts{Pos: posFlags, Norm: func(n ast.Node) ast.Node {
		switch x := n.(type) {
		case *ast.Ident:
			return &ast.Ident{Name: strings.TrimSuffix(x.Name, "_mutated")}
		case *ast.BasicLit:
			return &ast.BasicLit{Kind: token.INT, Value: "0"}
		}
		return n
	}}) == ""
}

func c21SiteNote(t *c21Tmpl) string {
	if t.Site == "func" {
		return ", returned by a function called repeatedly"
	}
	return ""
}

func c21MsgClass(msg string) string {
	for _, k := range []string{"nil pointer dereference", "expecting statement or expression, found *ast.GenDecl", "cannot convert to ast.Node", "cannot splice in single-statement context",
		"not inside quasiquote", "index out of range", "cannot convert"} {
		if strings.Contains(msg, k) {
			return k
		}
	}
	return "other"
}

func c21Values(w *c20World) map[ast.Node]bool {
	vals := map[ast.Node]bool{}
	for _, e := range w.engines {
		e.eval(c21Setup)
	}
	collect := func(v interface{}) {
		switch x := v.(type) {
		case ast.Node:
			astWalk(x, func(n ast.Node) bool { vals[n] = true; return true })
		case []ast.Node:
			for _, e := range x {
				astWalk(e, func(n ast.Node) bool { vals[n] = true; return true })
			}
		}
	}
	for _, name := range []string{"x1", "xe", "mk()", "l0", "l1", "l2", "lb2"} {
		vs, _ := w.fast.Eval(name)
		if len(vs) > 0 && vs[0].IsValid() {
			collect(vs[0].Interface())
		}
		v, _ := w.classic.Eval(name)
		if v.IsValid() && v.CanInterface() {
			collect(v.Interface())
		}
	}
	return vals
}

func c21Run(c *core.Ctx) {
	c.Rule("templates = 123 base forms (40 general, 3 of which the forked parser never accepts + 83 node kinds in empty / minimal / maximal configuration; every go/ast node kind that can be written in a quasiquote occurs, see template_node_kinds_missing) × nesting depth 1..3 (thorough 4) × style of nesting (inner quasiquote as element of a statement list, as only statement, in a single-node position) × every hole (expression, statement-list, expression-list position) × every filler (plain, ~unquote of 3 node-valued expressions, ~unquote_splice of 4 lists, as unquote chains of length 1..depth under EVERY stack of outer operators {~unquote,~unquote_splice}^(k-1)) with one active hole; all filler pairs for two active holes (depth 1; thorough depth 2); all pairs of full-length chains over a reduced value alphabet (depth 2, 3); quick restricts the second and third style of nesting to the plain form and the chains that reach the outermost quasiquote; the template returned by a function called three times; ~quote of every form; hand-written shorthand/nesting shapes; " +
		"each template is compiled once and evaluated three times in the fast and the classic interpreter: results 1 and 2 share no node at all (leaves and empty lists included), result 1 is then destroyed (every field altered, an element injected into every list and every empty slot), result 3 must still equal the reference and share no node with result 2; non-trivial = distinct (site, template) containing an unquote or unquote_splice that were evaluated and compared with the reference")
	c.Assume("templates the forked parser rejects (unquote in a position where the grammar wants a type or a simple statement) are dropped and counted",
		"inserted values are shared, not copied (as in Lisp): their nodes are excluded from the freshness check")
	w := newC20World()
	values := c21Values(w)
	runners := c21Runners(w)
	tmpls := c21TemplatesOpt(c, true)
	c.Set("templates_generated", len(tmpls))
	if os.Getenv("VERIF_DEBUG_SIGS") != "" {
		fam := map[string]int{}
		for _, t := range tmpls {
			k := "single"
			if strings.Contains(t.Holes, ":c") {
				k = "chain-pair"
			} else if strings.Contains(t.Holes, ",") {
				k = "pair"
			}
			fam[fmt.Sprintf("depth%d style=%s site=%s %s", t.Depth, t.Style, t.Site, k)]++
		}
		for _, k := range sortedKeys(fam) {
			fmt.Printf("FAMILY %s\t%d\n", k, fam[k])
		}
	}
	for i := range tmpls {
		if !c.Mine(i) {
			continue
		}
		if c.Expired() {
			return
		}
		c21RunOne(c, w, runners, values, &tmpls[i])
		if c.WantSample() && i%499 == 17 {
			c.Sample(map[string]interface{}{"template": tmpls[i].Src})
		}
	}
}

// c21Finish measures what the templates contain: the go/ast node kinds and the shapes (kind × list field empty /
// one / several elements × optional child absent / present) that occur in the quoted part of the templates.
func c21Finish(c *core.Ctx) {
	kinds, shapes := map[string]int{}, map[string]int{}
	forms := map[string]int{}
	for _, t := range c21TemplatesOpt(c, true) {
		forms[t.Form] |= 0
		_, nodes, err, panicked := forkParse("tmpl.go", []byte(t.Src), 0)
		if err != nil || panicked != nil || len(nodes) != 1 {
			continue
		}
		forms[t.Form]++
		astWalk(nodes[0], func(x ast.Node) bool {
			if u, ok := x.(*ast.UnaryExpr); ok && (u.Op == etoken.UNQUOTE || u.Op == etoken.UNQUOTE_SPLICE) {
				if _, ok := u.X.(*ast.FuncLit); ok {
					return false // evaluated code, not template
				}
			}
			v := reflect.ValueOf(x).Elem()
			p := astPlanOf(v.Type())
			kinds[p.Name]++
			for _, af := range p.Fields {
				f := v.Field(af.Idx)
				switch af.Kind {
				case fkNode:
					if rvNode(f) == nil {
						shapes[p.Name+"."+af.Name+"=absent"]++
					} else {
						shapes[p.Name+"."+af.Name+"=present"]++
					}
				case fkSlice:
					switch f.Len() {
					case 0:
						shapes[p.Name+"."+af.Name+"=[]"]++
					case 1:
						shapes[p.Name+"."+af.Name+"=[1]"]++
					default:
						shapes[p.Name+"."+af.Name+"=[2+]"]++
					}
				}
			}
			return true
		})
	}
	c.Set("template_node_kinds", len(kinds))
	c.Set("template_node_shapes", len(shapes))
	var missing, unparsed []string
	for _, t := range c22NodeTypes() {
		switch t.Name() {
		case "BadDecl", "BadExpr", "BadStmt", "File", "Package": // cannot be written inside a quasiquote
			continue
		}
		if kinds[t.Name()] == 0 {
			missing = append(missing, t.Name())
		}
	}
	for _, f := range sortedKeys(forms) {
		if forms[f] == 0 {
			unparsed = append(unparsed, f)
		}
	}
	c.Set("template_node_kinds_missing", strings.Join(missing, ","))
	c.Set("template_forms_never_parsed", strings.Join(unparsed, ","))
	c.Set("template_empty_list_shapes", strings.Join(func() []string {
		var out []string
		for _, k := range sortedKeys(shapes) {
			if strings.HasSuffix(k, "=[]") {
				out = append(out, strings.TrimSuffix(k, "=[]"))
			}
		}
		return out
	}(), ","))
}

func c21Replay(c *core.Ctx, raw json.RawMessage) {
	var cas c21Case
	if err := json.Unmarshal(raw, &cas); err != nil {
		panic(err)
	}
	w := newC20World()
	values := c21Values(w)
	runners := c21Runners(w)
	var sel []c21Runner
	for _, r := range runners {
		if cas.Engine == "" || r.name == cas.Engine {
			sel = append(sel, r)
		}
	}
	c21RunOne(c, w, sel, values, &cas.Tmpl)
}
