package props

// C21 — quote and quasiquote build the documented syntax trees in both interpreters, fresh per evaluation.
//
// Templates: base forms (expressions, statements, lists) with holes at every expression position
// (kind E), statement-list position (S) and expression-list position (A). A hole is a plain
// identifier, ~unquote{E} with E ∈ {variable holding a node, variable holding another node, call
// returning a node} or — in list positions — ~unquote_splice{L} with L ∈ {list of length 0, 1, 2,
// block of two statements}. Nesting depth 1..3: the form sits inside 1..3 ~quasiquote, the hole is an
// unquote chain of length 1..depth (only a chain as long as the depth is evaluated; the innermost
// unquote pairs with the outermost quasiquote, a spliced list is distributed over the remaining chain).
//
// Oracles: (1) a reference substitution written on go/ast (c21Ref) — strict structural equality, positions
// ignored; (2) fast ≡ classic; (3) freshness: the compiled template is evaluated three times; the first two
// results share no interior node (nodes of the inserted values excepted); the first result is then
// mutated destructively (names, literals, tokens, children) and the third evaluation must still equal the
// reference.

import (
	"encoding/json"
	"fmt"
	"go/ast"
	"go/token"
	"os"
	"reflect"
	"strings"

	"github.com/cosmos72/gomacro/ast2"
	"github.com/cosmos72/gomacro/go/etoken"

	"verif/harness/core"
)

func init() {
	core.Register(&core.Check{ID: "C21", Level: "exploration", Workers: -1, Run: c21Run, Replay: c21Replay})
}

// ---------------------------------------------------------------------------------------------
// values available to the templates

const c21Setup = `import "go/ast"
var x1 ast.Node = ~'xx
var xe ast.Node = ~'{ea + eb}
func mk() ast.Node { return ~'{made(1)} }
var l0 = []ast.Node{}
var l1 = []ast.Node{~'p1}
var l2 = []ast.Node{~'p1, ~'{g(p2)}}
var lb2 ast.Node = ~'{q1; q2()}`

func c21NodeValue(name string) ast.Node {
	switch name {
	case "x1":
		return idn("xx")
	case "xe":
		return &ast.BinaryExpr{X: idn("ea"), Op: token.ADD, Y: idn("eb")}
	case "mk()":
		return &ast.CallExpr{Fun: idn("made"), Args: []ast.Expr{&ast.BasicLit{Kind: token.INT, Value: "1"}}}
	}
	return nil
}

func c21ListValue(name string) ([]ast.Node, bool) {
	switch name {
	case "l0":
		return []ast.Node{}, true
	case "l1":
		return []ast.Node{idn("p1")}, true
	case "l2":
		return []ast.Node{idn("p1"), &ast.CallExpr{Fun: idn("g"), Args: []ast.Expr{idn("p2")}}}, true
	case "lb2":
		return []ast.Node{&ast.ExprStmt{X: idn("q1")}, &ast.ExprStmt{X: &ast.CallExpr{Fun: idn("q2")}}}, true
	}
	return nil, false
}

// ---------------------------------------------------------------------------------------------
// reference substitution

type c21Ref struct{}

type c21Unsupported struct{ why string }

// chain returns the operators of a run of directly nested unquotes starting at u and the innermost body.
func c21Chain(u *ast.UnaryExpr) (ops []token.Token, body *ast.BlockStmt) {
	for {
		ops = append(ops, u.Op)
		body = u.X.(*ast.FuncLit).Body
		if len(body.List) != 1 {
			return
		}
		var inner ast.Node = body.List[0]
		if es, ok := inner.(*ast.ExprStmt); ok {
			inner = es.X
		}
		iu, ok := inner.(*ast.UnaryExpr)
		if !ok || (iu.Op != etoken.UNQUOTE && iu.Op != etoken.UNQUOTE_SPLICE) {
			return
		}
		if _, ok := iu.X.(*ast.FuncLit); !ok {
			return
		}
		u = iu
	}
}

func c21ExprText(body *ast.BlockStmt) string {
	if len(body.List) != 1 {
		panic(c21Unsupported{"unquote body is not a single expression"})
	}
	es, ok := body.List[0].(*ast.ExprStmt)
	if !ok {
		panic(c21Unsupported{"unquote body is not an expression"})
	}
	switch x := es.X.(type) {
	case *ast.Ident:
		return x.Name
	case *ast.CallExpr:
		if id, ok := x.Fun.(*ast.Ident); ok && len(x.Args) == 0 {
			return id.Name + "()"
		}
	}
	panic(c21Unsupported{"unknown expression in unquote"})
}

func c21MakeQuote(op token.Token, v ast.Node) *ast.UnaryExpr {
	var body *ast.BlockStmt
	switch x := v.(type) {
	case *ast.BlockStmt:
		body = x
	case nil:
		body = &ast.BlockStmt{}
	default:
		body = &ast.BlockStmt{List: []ast.Stmt{asStmt(v)}}
	}
	return &ast.UnaryExpr{Op: op, X: &ast.FuncLit{Type: &ast.FuncType{Params: &ast.FieldList{}}, Body: body}}
}

func c21Wrap(ops []token.Token, v ast.Node) ast.Node {
	for i := len(ops) - 1; i >= 0; i-- {
		v = c21MakeQuote(ops[i], v)
	}
	return v
}

func asUnquote(n ast.Node) *ast.UnaryExpr {
	for {
		switch x := n.(type) {
		case *ast.ExprStmt:
			n = x.X
			continue
		case *ast.UnaryExpr:
			if x.Op == etoken.UNQUOTE || x.Op == etoken.UNQUOTE_SPLICE {
				if _, ok := x.X.(*ast.FuncLit); ok {
					return x
				}
			}
		}
		return nil
	}
}

// substList substitutes inside one list at quasiquote depth d; conv adapts an inserted node to the element type.
func (r *c21Ref) substList(list []ast.Node, d int) []ast.Node {
	var out []ast.Node
	for _, e := range list {
		if u := asUnquote(e); u != nil {
			ops, body := c21Chain(u)
			k := len(ops)
			if k > d {
				panic(c21Unsupported{"unquote outside quasiquote"})
			}
			if k == d {
				name := c21ExprText(body)
				if ops[k-1] == etoken.UNQUOTE_SPLICE {
					vals, ok := c21ListValue(name)
					if !ok {
						panic(c21Unsupported{"splice of a non-list"})
					}
					for _, v := range vals {
						out = append(out, c21Wrap(ops[:k-1], astClone(v)))
					}
				} else {
					v := c21NodeValue(name)
					if v == nil {
						panic(c21Unsupported{"unquote of a list"})
					}
					out = append(out, c21Wrap(ops[:k-1], v))
				}
				continue
			}
		}
		out = append(out, r.subst(e, d))
	}
	return out
}

func (r *c21Ref) subst(n ast.Node, d int) ast.Node {
	if isNilNode(n) {
		return nil
	}
	if u, ok := n.(*ast.UnaryExpr); ok {
		if _, isq := u.X.(*ast.FuncLit); isq {
			switch u.Op {
			case etoken.QUASIQUOTE:
				d++
			case etoken.UNQUOTE, etoken.UNQUOTE_SPLICE:
				ops, body := c21Chain(u)
				k := len(ops)
				if k > d {
					panic(c21Unsupported{"unquote outside quasiquote"})
				}
				if k == d {
					if ops[k-1] == etoken.UNQUOTE_SPLICE {
						panic(c21Unsupported{"splice in a single-node position"})
					}
					v := c21NodeValue(c21ExprText(body))
					if v == nil {
						panic(c21Unsupported{"unquote of a list"})
					}
					return c21Wrap(ops[:k-1], v)
				}
				d--
			}
		}
	}
	v := reflect.ValueOf(n).Elem()
	p := astPlanOf(v.Type())
	out := reflect.New(v.Type())
	o := out.Elem()
	for _, af := range p.Fields {
		f := v.Field(af.Idx)
		switch af.Kind {
		case fkIgnore, fkPos:
			if af.Kind == fkPos && af.Flag {
				o.Field(af.Idx).Set(f)
			}
		case fkNode:
			if c := rvNode(f); c != nil {
				o.Field(af.Idx).Set(reflect.ValueOf(c21Conv(r.subst(c, d), f.Type())))
			}
		case fkSlice:
			if f.Len() == 0 {
				continue
			}
			in := make([]ast.Node, 0, f.Len())
			for i, k := 0, f.Len(); i < k; i++ {
				in = append(in, rvNode(f.Index(i)))
			}
			res := r.substList(in, d)
			s := reflect.MakeSlice(f.Type(), len(res), len(res))
			for i, e := range res {
				if !isNilNode(e) {
					s.Index(i).Set(reflect.ValueOf(c21Conv(e, f.Type().Elem())))
				}
			}
			o.Field(af.Idx).Set(s)
		default:
			o.Field(af.Idx).Set(f)
		}
	}
	return out.Interface().(ast.Node)
}

// c21Conv adapts an inserted node to the static type of the slot (what go/ast's typing forces).
func c21Conv(n ast.Node, t reflect.Type) ast.Node {
	if isNilNode(n) {
		return n
	}
	switch t {
	case rtStmt:
		return asStmt(n)
	case rtExpr:
		switch x := n.(type) {
		case *ast.ExprStmt:
			return x.X
		case ast.Expr:
			return x
		}
		panic(c21Unsupported{"statement in expression position"})
	case rtBlockStmt:
		if b, ok := n.(*ast.BlockStmt); ok {
			return b
		}
		return &ast.BlockStmt{List: []ast.Stmt{asStmt(n)}}
	}
	if !reflect.TypeOf(n).AssignableTo(t) {
		panic(c21Unsupported{fmt.Sprintf("%T in a %v position", n, t)})
	}
	return n
}

// c21Simplify is what ~quote / ~quasiquote return for a body: nothing → empty statement; one statement →
// that statement without its ExprStmt / DeclStmt / parenthesis wrapper; several → the block.
func c21Simplify(body *ast.BlockStmt) ast.Node {
	switch len(body.List) {
	case 0:
		return &ast.EmptyStmt{}
	case 1:
		switch x := body.List[0].(type) {
		case *ast.ExprStmt:
			return x.X
		case *ast.DeclStmt:
			return x.Decl
		default:
			return x
		}
	}
	return body
}

// c21Expected computes the reference result of evaluating the template (a ~quote or ~quasiquote expression).
func c21Expected(tmpl ast.Node) (res ast.Node, unsupported string) {
	defer func() {
		if p := recover(); p != nil {
			if u, ok := p.(c21Unsupported); ok {
				res, unsupported = nil, u.why
				return
			}
			panic(p)
		}
	}()
	u, ok := tmpl.(*ast.UnaryExpr)
	if !ok {
		return nil, "template is not a quote form"
	}
	body := u.X.(*ast.FuncLit).Body
	switch u.Op {
	case etoken.QUOTE:
		return c21Simplify(astClone(body).(*ast.BlockStmt)), ""
	case etoken.QUASIQUOTE:
		r := &c21Ref{}
		in := make([]ast.Node, len(body.List))
		for i, s := range body.List {
			in[i] = s
		}
		out := r.substList(in, 1)
		nb := &ast.BlockStmt{}
		for _, e := range out {
			nb.List = append(nb.List, asStmt(e))
		}
		if len(body.List) >= 2 {
			// X is a statement list: its syntax tree is a block, whatever the splices contribute
			return nb, ""
		}
		return c21Simplify(nb), ""
	}
	return nil, "template is not a quote form"
}

// ---------------------------------------------------------------------------------------------
// templates

type c21Tmpl struct {
	ID    string `json:"id"`
	Src   string `json:"src"`
	Form  string `json:"form"`
	Depth int    `json:"depth"`
	Holes string `json:"holes"`
}

type c21Form struct {
	Name string
	Text string // holes: @1E @2S @3A ...
}

func c21Forms() []c21Form {
	return []c21Form{
		{"binary", "@1E + @2E"},
		{"call-args", "f(@1A, @2A)"},
		{"call-fun", "@1E(@2A)"},
		{"index", "@1E[@2E]"},
		{"slice", "@1E[@2E:@3E]"},
		{"composite", "T{@1A, @2A}"},
		{"keyvalue", "T{k: @1E}"},
		{"unary", "-@1E"},
		{"star", "*@1E"},
		{"addr", "&@1E"},
		{"recv", "<-@1E"},
		{"paren", "(@1E)"},
		{"selector", "@1E.sel"},
		{"typeassert", "@1E.(T)"},
		{"assign", "@1E = @2E"},
		{"define", "a, b := @1A, @2A"},
		{"incdec", "@1E++"},
		{"send", "@1E <- @2E"},
		{"stmts", "@1S; @2S"},
		{"stmts3", "@1S; mid(); @2S"},
		{"single-stmt", "@1S"},
		{"block", "{ @1S; @2S }"},
		{"if", "if @1E { @2S; @3S }"},
		{"if-else", "if @1E { @2S } else { @3S }"},
		{"for", "for @1E { @2S }"},
		{"range", "for i := range @1E { @2S }"},
		{"return", "return @1A, @2A"},
		{"switch", "switch @1E { case @2A: @3S; @4S }"},
		{"funclit", "func(p int) int { @1S; return @2A }"},
		{"var", "var v T = @1A"},
		{"go", "go @1E(@2A)"},
		{"defer", "defer f(@1A)"},
		{"labeled", "L: @1T"},
		{"quote-in-qq", "f(~quote{@1S})"},
		{"paren-binary", "a * (@1E + @2E)"},
		{"select", "select { case v := <-@1E: @2S }"},
		{"ellipsis-call", "f(@1A...)"},
		{"map-type", "map[@1E]@2E"},
		{"array-type", "[@1E]int"},
		{"func-decl", "func fd(p int) { @1S; @2S }"},
	}
}

var c21NodeE = []string{"x1", "xe", "mk()"}
var c21ListE = []string{"l0", "l1", "l2", "lb2"}

type c21Hole struct {
	marker string // "@1E"
	kind   byte   // E S A
}

func c21HolesOf(text string) []c21Hole {
	var out []c21Hole
	for i := 0; i+2 < len(text); i++ {
		if text[i] == '@' && text[i+1] >= '1' && text[i+1] <= '9' {
			out = append(out, c21Hole{text[i : i+3], text[i+2]})
		}
	}
	return out
}

// hole kinds: E expression, S statement-list element, A expression-list element, T single statement (no list)
// c21Fillers returns the texts that can fill a hole of the given kind at quasiquote depth d:
// plain identifier first, then every unquote chain of length 1..d.
func c21Fillers(kind byte, d int, idx int, full bool) []string {
	out := []string{fmt.Sprintf("h%d", idx)}
	chains := func(k int, inner string, e string) []string {
		// outer k-1 operators: all ~unquote, or (for k>=2) all ~unquote_splice as well
		var res []string
		outers := []string{"~unquote"}
		if k >= 2 && full && (kind == 'S' || kind == 'A') {
			outers = append(outers, "~unquote_splice")
		}
		for _, o := range outers {
			s := inner + "{" + e + "}"
			for i := 0; i < k-1; i++ {
				s = o + "{" + s + "}"
			}
			res = append(res, s)
		}
		return res
	}
	for k := 1; k <= d; k++ {
		for _, e := range c21NodeE {
			out = append(out, chains(k, "~unquote", e)...)
		}
		if kind == 'S' || kind == 'A' {
			for _, l := range c21ListE {
				out = append(out, chains(k, "~unquote_splice", l)...)
			}
		}
	}
	return out
}

func c21Templates(c *core.Ctx) []c21Tmpl {
	var out []c21Tmpl
	add := func(form string, depth int, holes string, body string) {
		src := body
		for i := 0; i < depth; i++ {
			if i == 0 {
				src = "~quasiquote{" + src + "}"
			} else {
				src = "~quasiquote{pre" + fmt.Sprint(i) + "; " + src + "}"
			}
		}
		out = append(out, c21Tmpl{ID: fmt.Sprintf("t%d", len(out)), Src: src, Form: form, Depth: depth, Holes: holes})
	}
	forms := c21Forms()
	maxDepth := 3
	for _, f := range forms {
		holes := c21HolesOf(f.Text)
		// ~quote of the plain form
		plain := f.Text
		for i, h := range holes {
			plain = strings.Replace(plain, h.marker, fmt.Sprintf("h%d", i+1), 1)
		}
		out = append(out, c21Tmpl{ID: fmt.Sprintf("t%d", len(out)), Src: "~quote{" + plain + "}", Form: f.Name, Depth: 0, Holes: "quote"})
		for d := 1; d <= maxDepth; d++ {
			full := c.Thorough() || d <= 2
			fillers := make([][]string, len(holes))
			for i, h := range holes {
				fillers[i] = c21Fillers(h.kind, d, i+1, full)
			}
			// (a) one active hole at a time (the others plain), every filler
			for i := range holes {
				for fi := range fillers[i] {
					if fi == 0 && i > 0 {
						continue // all-plain only once
					}
					body := f.Text
					for j, h := range holes {
						fill := fillers[j][0]
						if j == i {
							fill = fillers[i][fi]
						}
						body = strings.Replace(body, h.marker, fill, 1)
					}
					add(f.Name, d, fmt.Sprintf("%d:%d", i+1, fi), body)
				}
			}
			// (b) two active holes: every pair of fillers (depth 1; thorough: also depth 2)
			if d == 1 || (d == 2 && c.Thorough()) {
				for i := 0; i < len(holes); i++ {
					for j := i + 1; j < len(holes); j++ {
						for fi := 1; fi < len(fillers[i]); fi++ {
							for fj := 1; fj < len(fillers[j]); fj++ {
								body := f.Text
								for k, h := range holes {
									fill := fillers[k][0]
									if k == i {
										fill = fillers[i][fi]
									} else if k == j {
										fill = fillers[j][fj]
									}
									body = strings.Replace(body, h.marker, fill, 1)
								}
								add(f.Name, d, fmt.Sprintf("%d:%d,%d:%d", i+1, fi, j+1, fj), body)
							}
						}
					}
				}
			}
		}
	}
	// a few hand-written shapes: quote inside quasiquote, unquote around a nested quasiquote, shorthand syntax
	for _, src := range []string{
		"~quasiquote{~quote{a + ~unquote{x1}}}",
		"~quasiquote{~quasiquote{a; ~unquote{b}; ~unquote{~unquote{x1}}; ~unquote_splice{~unquote_splice{l2}}; ~unquote{~unquote_splice{l2}}}}",
		"~\"{1 + ~,xe}",
		"~\"{zero ; ~,@l2 ; one}",
		"~\"~\"{zero ; ~,~,@l2 ; one}",
		"~\"~\"{zero ; ~,@~,@l2 ; one}",
		"~'{a; b}",
		"~quote{}",
		"~quasiquote{}",
		"~quote{{}}",
		"~quote{(a)}",
		"~quote{{a}}",
		"~quote{{a; b}}",
		"~quote{x.y}",
		"~quote{package p}",
		"~quote{import \"fmt\"}",
		"~quote{type T struct{ a, b int }}",
		"~quote{case 1, 2: a; b}",
		"~quasiquote{case ~unquote{x1}: ~unquote_splice{l2}}",
		"~quasiquote{type T struct{ a ~unquote{x1} }}",
		"~quasiquote{func f(p ~unquote{x1}) ~unquote{xe} { ~unquote_splice{lb2} }}",
	} {
		out = append(out, c21Tmpl{ID: fmt.Sprintf("t%d", len(out)), Src: src, Form: "hand", Depth: strings.Count(src, "~quasiquote") + strings.Count(src, "~\""), Holes: "hand"})
	}
	return out
}

// ---------------------------------------------------------------------------------------------
// running

type c21Runner struct {
	name string
	// prepare returns a function that evaluates the (once parsed / compiled) template
	prepare func(src string) func() interface{}
}

func c21Runners(w *c20World) []c21Runner {
	return []c21Runner{
		{"fast", func(src string) func() interface{} {
			e := w.fast.Compile(src)
			return func() interface{} {
				vs, _ := w.fast.RunExpr(e)
				if len(vs) == 0 || !vs[0].IsValid() {
					return nil
				}
				return vs[0].Interface()
			}
		}},
		{"classic", func(src string) func() interface{} {
			form := w.classic.Parse(src)
			return func() interface{} {
				v, _ := w.classic.EvalAst(form)
				if !v.IsValid() || !v.CanInterface() {
					return nil
				}
				return v.Interface()
			}
		}},
	}
}

func c21AsNode(v interface{}) (ast.Node, string) {
	switch x := v.(type) {
	case nil:
		return nil, "nil"
	case ast.Node:
		return x, ""
	case ast2.AstWithNode:
		return x.Node(), ""
	}
	return nil, fmt.Sprintf("%T", v)
}

// interiorPtrs collects the non-leaf nodes of a tree, not descending into nodes of `skip`.
func c21Ptrs(n ast.Node, skip map[ast.Node]bool, interiorOnly bool) map[ast.Node]bool {
	out := map[ast.Node]bool{}
	astWalk(n, func(x ast.Node) bool {
		if skip[x] {
			return false
		}
		if interiorOnly {
			leaf := true
			astChildren(x, func(ast.Node) { leaf = false })
			if leaf {
				return true
			}
		}
		out[x] = true
		return true
	})
	return out
}

// c21Mutate destroys a tree in place (post-order), leaving alone the subtrees rooted at nodes of skip.
func c21Mutate(n ast.Node, skip map[ast.Node]bool) {
	if isNilNode(n) || skip[n] {
		return
	}
	astChildren(n, func(c ast.Node) { c21Mutate(c, skip) })
	v := reflect.ValueOf(n).Elem()
	for _, af := range astPlanOf(v.Type()).Fields {
		f := v.Field(af.Idx)
		switch af.Kind {
		case fkStr:
			f.SetString(f.String() + "_mutated")
		case fkTok:
			f.SetInt(int64(token.ILLEGAL))
		case fkBool:
			f.SetBool(!f.Bool())
		case fkInt:
			f.SetInt(0)
		case fkNode:
			f.Set(reflect.Zero(f.Type()))
		case fkSlice:
			for i, k := 0, f.Len(); i < k; i++ {
				f.Index(i).Set(reflect.Zero(f.Type().Elem()))
			}
			f.Set(reflect.Zero(f.Type()))
		}
	}
}

type c21Case struct {
	Tmpl   c21Tmpl `json:"template"`
	Engine string  `json:"engine,omitempty"`
}

// ParenExpr is transparent: both interpreters document that they unwrap parentheses inside a quasiquote (the tree shape carries the grouping)
var c21Eq = &eqOpts{Pos: posFlags, StripParens: true}

func c21Kind(t *c21Tmpl) string {
	switch {
	case strings.Contains(t.Src, "~unquote_splice") || strings.Contains(t.Src, "~,@"):
		return "splice"
	case strings.Contains(t.Src, "~unquote") || strings.Contains(t.Src, "~,"):
		return "unquote"
	case strings.HasPrefix(t.Src, "~quote") || strings.HasPrefix(t.Src, "~'"):
		return "quote"
	}
	return "plain"
}

// c21RunOne evaluates one template on every engine. Returns the results (first evaluation) per engine for C25.
func c21RunOne(c *core.Ctx, w *c20World, runners []c21Runner, values map[ast.Node]bool, t *c21Tmpl) map[string]ast.Node {
	results := map[string]ast.Node{}
	_, nodes, err, panicked := forkParse("tmpl.go", []byte(t.Src), 0)
	if err != nil || panicked != nil || len(nodes) != 1 {
		c.Count("templates_not_parseable_by_design", 1)
		return results
	}
	want, unsupported := c21Expected(nodes[0])
	if unsupported != "" {
		c.Count("templates_outside_reference("+unsupported+")", 1)
		return results
	}
	if why := c25IllFormed(want); why != "" {
		// an empty splice leaves something that is not a syntax tree of any program (go/ast's own End() panics on it)
		c.Count("templates_with_ill_formed_result("+why+")", 1)
		return results
	}
	c.Count("templates_run", 1)
	kind := c21Kind(t)
	ctxSig := fmt.Sprintf("%s|depth%d|%s", t.Form, t.Depth, kind)
	sig := func(engine, class string) string {
		s := "C21|" + engine + "|" + class
		if os.Getenv("VERIF_DEBUG_SIGS") != "" {
			fmt.Printf("SIG %s\t%s\n", s, t.Src)
		}
		return s
	}
	wantDump := astDump(want)
	for _, rn := range runners {
		cas := c21Case{Tmpl: *t, Engine: rn.name}
		c.Eval(1)
		var r1, r2, r3 interface{}
		var run func() interface{}
		if p := core.Catch(func() { run = rn.prepare(t.Src); r1 = run() }); p != nil {
			c.Violation(sig(rn.name, ctxSig+"|fails|"+c21MsgClass(fmt.Sprint(p))), fmt.Sprintf("%s (%s): evaluation fails: %v; reference: %s", t.Src, rn.name, clip(fmt.Sprint(p), 300), wantDump), cas)
			continue
		}
		n1, bad := c21AsNode(r1)
		if bad != "" {
			c.Violation(sig(rn.name, ctxSig+"|not-a-node"), fmt.Sprintf("%s (%s): result is %s, reference: %s", t.Src, rn.name, bad, wantDump), cas)
			continue
		}
		results[rn.name] = n1
		if d := astDiff(want, n1, c21Eq); d != "" {
			cls := ctxSig + "|wrong-tree|" + c25Class(d)
			nest := "top"
			if t.Depth >= 2 {
				nest = "nested"
			}
			if astDiff(n20Root(want), n20Root(n1), c21Eq) == "" {
				cls = t.Form + "|" + nest + "|wrapper-differs" // same tree modulo one-statement blocks / statement wrappers
			}
			c.Violation(sig(rn.name, cls), fmt.Sprintf("%s (%s): expected %s, got %s [%s]", t.Src, rn.name, wantDump, astDump(n1), d), cas)
			continue
		}
		// freshness
		if p := core.Catch(func() { r2 = run() }); p != nil {
			c.Violation(sig(rn.name, ctxSig+"|second-evaluation-fails"), fmt.Sprintf("%s (%s): second evaluation fails: %v", t.Src, rn.name, p), cas)
			continue
		}
		n2, _ := c21AsNode(r2)
		if d := astDiff(want, n2, c21Eq); d != "" {
			c.Violation(sig(rn.name, ctxSig+"|second-evaluation-differs"), fmt.Sprintf("%s (%s): second evaluation gives %s, expected %s", t.Src, rn.name, astDump(n2), wantDump), cas)
			continue
		}
		p1, p2 := c21Ptrs(n1, values, true), c21Ptrs(n2, values, true)
		shared := 0
		var example ast.Node
		for x := range p1 {
			if p2[x] {
				shared++
				if example == nil {
					example = x
				}
			}
		}
		if shared > 0 {
			cls := "quasiquote-not-fresh|shared-interior-nodes|" + t.Form
			if kind == "quote" {
				cls = "quote-not-fresh"
			}
			c.Violation(sig(rn.name, cls), fmt.Sprintf("%s (%s): two evaluations share %d interior nodes, e.g. %s", t.Src, rn.name, shared, astBrief(example)), cas)
		}
		c21Mutate(n1, values)
		if p := core.Catch(func() { r3 = run() }); p != nil {
			c.Violation(sig(rn.name, ctxSig+"|not-fresh|evaluation-after-mutation-fails"), fmt.Sprintf("%s (%s): after mutating the first result the next evaluation fails: %v", t.Src, rn.name, clip(fmt.Sprint(p), 200)), cas)
			continue
		}
		n3, _ := c21AsNode(r3)
		if d := astDiff(want, n3, c21Eq); d != "" {
			cls := "quasiquote-not-fresh|mutation-visible|" + t.Form
			if kind == "quote" {
				cls = "quote-not-fresh"
			} else if shared == 0 && c21OnlyLeavesDiffer(want, n3) {
				cls = "quasiquote-leaves-shared-with-template" // interior nodes are fresh, identifiers / literals are the template's own nodes
			}
			c.Violation(sig(rn.name, cls), fmt.Sprintf("%s (%s): after mutating the first result the next evaluation gives %s, expected %s [%s]", t.Src, rn.name, astDump(n3), wantDump, d), cas)
		}
	}
	if kind != "plain" && kind != "quote" {
		c.Nontrivial(t.Src)
	}
	return results
}

// c21OnlyLeavesDiffer reports whether got differs from want only in names / literal values of leaf nodes.
func c21OnlyLeavesDiffer(want, got ast.Node) bool {
	return astDiff(want, got, &eqOpts{Pos: posFlags, Norm: func(n ast.Node) ast.Node {
		switch x := n.(type) {
		case *ast.Ident:
			return &ast.Ident{Name: strings.TrimSuffix(x.Name, "_mutated")}
		case *ast.BasicLit:
			return &ast.BasicLit{Kind: token.INT, Value: "0"}
		}
		return n
	}}) == ""
}

func c21MsgClass(msg string) string {
	for _, k := range []string{"nil pointer dereference", "expecting statement or expression, found *ast.GenDecl", "cannot convert to ast.Node", "cannot splice in single-statement context",
		"not inside quasiquote", "index out of range", "cannot convert"} {
		if strings.Contains(msg, k) {
			return k
		}
	}
	return "other"
}

func c21Values(w *c20World) map[ast.Node]bool {
	vals := map[ast.Node]bool{}
	for _, e := range w.engines {
		e.eval(c21Setup)
	}
	collect := func(v interface{}) {
		switch x := v.(type) {
		case ast.Node:
			astWalk(x, func(n ast.Node) bool { vals[n] = true; return true })
		case []ast.Node:
			for _, e := range x {
				astWalk(e, func(n ast.Node) bool { vals[n] = true; return true })
			}
		}
	}
	for _, name := range []string{"x1", "xe", "mk()", "l0", "l1", "l2", "lb2"} {
		vs, _ := w.fast.Eval(name)
		if len(vs) > 0 && vs[0].IsValid() {
			collect(vs[0].Interface())
		}
		v, _ := w.classic.Eval(name)
		if v.IsValid() && v.CanInterface() {
			collect(v.Interface())
		}
	}
	return vals
}

func c21Run(c *core.Ctx) {
	c.Rule("templates = 38 base forms × nesting depth 1..3 × every hole (expression, statement-list, expression-list position) × every filler (plain, ~unquote of 3 node-valued expressions, ~unquote_splice of 4 lists, as unquote chains of length 1..depth) with one active hole, all filler pairs for two active holes (depth 1; thorough depth 2), ~quote of every form, hand-written shorthand/nesting shapes; " +
		"each template is compiled once and evaluated three times in the fast and the classic interpreter; non-trivial = distinct templates containing an unquote or unquote_splice that were evaluated and compared with the reference")
	c.Assume("templates the forked parser rejects (unquote in a position where the grammar wants a type or a simple statement) are dropped and counted",
		"inserted values are shared, not copied (as in Lisp): their nodes are excluded from the freshness check")
	w := newC20World()
	values := c21Values(w)
	runners := c21Runners(w)
	tmpls := c21Templates(c)
	c.Set("templates_generated", len(tmpls))
	for i := range tmpls {
		if !c.Mine(i) {
			continue
		}
		if c.Expired() {
			return
		}
		c21RunOne(c, w, runners, values, &tmpls[i])
		if c.WantSample() && i%499 == 17 {
			c.Sample(map[string]interface{}{"template": tmpls[i].Src})
		}
	}
}

func c21Replay(c *core.Ctx, raw json.RawMessage) {
	var cas c21Case
	if err := json.Unmarshal(raw, &cas); err != nil {
		panic(err)
	}
	w := newC20World()
	values := c21Values(w)
	runners := c21Runners(w)
	var sel []c21Runner
	for _, r := range runners {
		if cas.Engine == "" || r.name == cas.Engine {
			sel = append(sel, r)
		}
	}
	c21RunOne(c, w, sel, values, &cas.Tmpl)
}
