package props

// Corpus for C39: small complete packages. Function bodies come from the C05 generator (control flow
// with trace hooks); around them a rotating choice of declaration forms (const/var/type/func/method in
// most syntactic shapes) and import shapes. A second, smaller family uses macros (defined with `:macro`,
// which preprocessor mode evaluates and does not collect) and carries its hand-written expansion.

import (
	"fmt"
	"sort"
	"strings"

	"verif/harness/core"
)

type c39Pkg struct {
	Name  string `json:"name"`
	Src   string `json:"gomacro_source"`
	Ref   string `json:"reference_go_source"` // what the output has to be equivalent to (== Src for macro-free sources)
	Macro bool   `json:"uses_macros,omitempty"`
	Class string `json:"class"`
	// member of a multi-argument invocation (c39_multi.go): mechanism class (what the same interpreter processed before it), shape#position, invocation name
	Inv      string `json:"invocation_member_class,omitempty"`
	InvShape string `json:"invocation_shape_and_position,omitempty"`
	InvName  string `json:"invocation,omitempty"`
}

type c39Form struct {
	name string
	decl string
	uses []string // expressions printed by Run()
	imps []string // imports needed: "fmt", "strings" (imported as str)
}

var c39Forms = []c39Form{
	{"const-iota-group", "const (\n\tKA = iota * 10\n\tKB\n\tKC\n)", []string{"KA", "KB", "KC"}, nil},
	{"const-multi-untyped", "const KS, KF = \"s\", 2.5", []string{"KS", "KF"}, nil},
	{"const-typed-shift", "const KT uint8 = 1 << 3", []string{"KT", "KT>>1"}, nil},
	{"var-multi", "var VA, VB = 3, \"vb\"", []string{"VA", "VB"}, nil},
	{"var-group-typed", "var (\n\tVC []int = []int{1, 2, 3}\n\tVD     = map[string]int{\"k\": 1}\n)", []string{"VC", "VD"}, nil},
	{"var-array2d", "var VE [2][2]int = [2][2]int{{1, 2}, {3, 4}}", []string{"VE", "VE[1][0]"}, nil},
	{"var-array-ellipsis-keys", "var VF = [...]string{2: \"c\", 0: \"a\"}", []string{"VF", "len(VF)"}, nil},
	{"struct-tags-embedded", "type TS struct {\n\tA int `json:\"a\"`\n\tB string\n\tTE\n\tp *TS\n}\n\ntype TE struct{ X, Y float64 }", []string{"TS{A: 1, B: \"b\", TE: TE{1, 2}}", "TS{}.X"}, nil},
	{"interface-embedding", "type TI interface {\n\tM(int) string\n\tfmt.Stringer\n}\n\ntype TIm int\n\nfunc (t TIm) M(i int) string { return fmt.Sprint(int(t) + i) }\n\nfunc (t TIm) String() string { return \"TIm\" }", []string{"TI(TIm(3)).M(1)", "TI(TIm(3))"}, []string{"fmt"}},
	{"func-type-variadic-named-results", "type TF func(a, b int, rest ...string) (n int, err error)\n\nvar vTF TF = func(a, b int, rest ...string) (int, error) { return a + b + len(rest), nil }", []string{"fmt.Sprint(vTF(1, 2, \"x\"))"}, []string{"fmt"}},
	{"map-of-chan-type", "type TM map[string][]chan<- int", []string{"len(TM{\"a\": nil})"}, nil},
	{"pointer-method-chain", "type TP struct{ N int }\n\nfunc (t *TP) Inc(d int) *TP {\n\tt.N += d\n\treturn t\n}", []string{"(&TP{1}).Inc(2).Inc(3).N"}, nil},
	{"variadic-func", "func helper(xs ...int) (sum int) {\n\tfor _, x := range xs {\n\t\tsum += x\n\t}\n\treturn\n}", []string{"helper(1, 2, 3)", "helper([]int{4, 5}...)", "helper()"}, nil},
	{"var-funclit-defer", "var fn = func(x int) (r int) {\n\tdefer func() { r *= 2 }()\n\treturn x + 1\n}", []string{"fn(3)"}, nil},
	{"slice-3index", "func sl() []int {\n\ts := []int{1, 2, 3, 4, 5}\n\tt := s[1:3:4]\n\tu := s[:2]\n\tv := s[3:]\n\tw := s[:]\n\treturn append(append(t[:1:1], u...), cap(t), len(v), len(w))\n}", []string{"sl()"}, nil},
	{"type-switch-assert", "func ty(v interface{}) string {\n\tswitch x := v.(type) {\n\tcase int:\n\t\treturn \"i\"\n\tcase string, []byte:\n\t\t_ = x\n\t\treturn \"s\"\n\t}\n\tif _, ok := v.(error); ok {\n\t\treturn \"e\"\n\t}\n\treturn \"?\"\n}", []string{"ty(1)", "ty(\"x\")", "ty(nil)", "ty(fmt.Errorf(\"e\"))"}, []string{"fmt"}},
	{"label-select-chan", "func ch() (n int) {\n\tc := make(chan int, 2)\n\tc <- 1\n\tc <- 2\n\tclose(c)\nL:\n\tfor {\n\t\tselect {\n\t\tcase v, ok := <-c:\n\t\t\tif !ok {\n\t\t\t\tbreak L\n\t\t\t}\n\t\t\tn += v\n\t\t}\n\t}\n\treturn\n}", []string{"ch()"}, nil},
	{"anon-struct-pointer-literal", "type TE2 struct{ Z int }\n\nvar VG = &struct {\n\tP *TE2\n\tQ []TE2\n}{&TE2{1}, []TE2{{2}, {3}}}", []string{"VG.P.Z", "VG.Q"}, nil},
	{"operator-precedence-parens", "func ex(a, b int) int {\n\treturn (a+b)*(a-b)/2%7&^1 | a<<2 ^ -b + (^a)*(b>>1)\n}", []string{"ex(9, 4)", "ex(-3, 17)"}, nil},
	{"pointer-deref-incdec", "func pt() int {\n\tx := 5\n\tp := &x\n\t*p++\n\tpp := &p\n\t**pp += 2\n\t(*p)--\n\treturn x\n}", []string{"pt()"}, nil},
	{"const-iota-skip-typed", "type TK uint16\n\nconst (\n\t_     = iota\n\tE1 TK = 1 << iota\n\tE2\n)\n\nfunc (k TK) String() string { return fmt.Sprintf(\"TK(%d)\", uint16(k)) }", []string{"E1", "E2", "E1|E2"}, []string{"fmt"}},
	{"multi-result", "func mr() (a int, b string, c []interface{}) { return 1, \"b\", []interface{}{1, \"x\", nil} }", []string{"fmt.Sprint(mr())"}, []string{"fmt"}},
	{"literals", "var VS = []interface{}{'a', '\\n', '\\x41', \"q\\\"uote\\t\", `raw\\n`, 0x1F, 1e3, 0.5i, 07, 1_000}", []string{"VS"}, nil},
	{"method-expr-value", "type TV struct{ n int }\n\nfunc (v TV) Get() int { return v.n }\n\nvar mv = TV.Get\n\nvar mp = (*TV).Get", []string{"mv(TV{4})", "mp(&TV{5})", "TV{6}.Get()"}, nil},
	{"defer-recover-nilmap", "func dr() (s string) {\n\tdefer func() {\n\t\tif r := recover(); r != nil {\n\t\t\ts = \"recovered\"\n\t\t}\n\t}()\n\tvar m map[string]int\n\tm[\"a\"] = 1\n\treturn \"no\"\n}", []string{"dr()"}, nil},
	{"anon-interface-var", "type TL []int\n\nfunc (l TL) Len() int { return len(l) }\n\nvar VI interface{ Len() int } = TL{1, 2}", []string{"VI.Len()", "VI"}, nil},
	{"map-struct-key", "var VM = map[struct{ a, b int }]string{{1, 2}: \"x\"}", []string{"VM[struct{ a, b int }{1, 2}]", "len(VM)"}, nil},
	{"chan-directions", "func cd(in <-chan int, out chan<- int) { out <- <-in }\n\nfunc cdrun() int {\n\ta, b := make(chan int, 1), make(chan int, 1)\n\ta <- 7\n\tcd(a, b)\n\treturn <-b\n}", []string{"cdrun()"}, nil},
	{"go-statement", "func gs() int {\n\tdone := make(chan int)\n\tgo func(v int) { done <- v * 2 }(21)\n\treturn <-done\n}", []string{"gs()"}, nil},
	{"strings-renamed-import", "func up(s string) string { return str.ToUpper(s) + str.Repeat(\"-\", 2) }", []string{"up(\"ab\")"}, []string{"strings"}},
	{"if-else-chain-init", "func ie(n int) (r string) {\n\tif m := n % 3; m == 0 {\n\t\tr = \"zero\"\n\t} else if m == 1 {\n\t\tr = \"one\"\n\t} else {\n\t\tr = \"two\"\n\t}\n\treturn\n}", []string{"ie(3)", "ie(4)", "ie(5)"}, nil},
	{"goto-fallthrough", "func gf(n int) (s string) {\n\ti := 0\nagain:\n\tswitch {\n\tcase i < n:\n\t\ts += \"a\"\n\t\tfallthrough\n\tcase i == 100:\n\t\ts += \"b\"\n\tdefault:\n\t\treturn s\n\t}\n\ti++\n\tgoto again\n}", []string{"gf(2)"}, nil},
	{"complex-conversion", "var VZ = complex(1, 2) * complex128(complex64(3i))\n\nvar VR, VIm = real(VZ), imag(VZ)", []string{"VZ", "VR", "VIm", "float32(VR) / 4", "string(rune(65))", "[]byte(\"hi\")"}, nil},
	{"closure-counter", "func counter() func() int {\n\tn := 0\n\treturn func() int {\n\t\tn++\n\t\treturn n\n\t}\n}\n\nvar cnt = counter()", []string{"cnt()", "cnt()", "cnt() + cnt()"}, nil},
	{"array-value-semantics", "func av() ([3]int, [3]int) {\n\ta := [3]int{1, 2, 3}\n\tb := a\n\tb[0] = 9\n\tp := &a\n\tp[2] = 7\n\treturn a, b\n}", []string{"fmt.Sprint(av())"}, []string{"fmt"}},
	{"embedded-pointer-promotion", "type Base struct{ ID int }\n\nfunc (b *Base) SetID(i int) { b.ID = i }\n\nfunc (b Base) GetID() int { return b.ID }\n\ntype Derived struct {\n\t*Base\n\tName string\n}", []string{"func() int { d := Derived{&Base{1}, \"n\"}; d.SetID(5); return d.GetID() + d.ID }()"}, nil},
}

// c39ImportShapes renders the import declarations for the needed packages in different syntactic shapes.
func c39ImportShape(shape int, needFmt, needStrings bool) string {
	var specs []string
	specs = append(specs, ". \"orc/h\"")
	if needFmt {
		specs = append(specs, "\"fmt\"")
	}
	if needStrings {
		specs = append(specs, "str \"strings\"")
	}
	switch shape % 4 {
	case 0: // one group
		return "import (\n\t" + strings.Join(specs, "\n\t") + "\n)\n"
	case 1: // one declaration each
		var sb strings.Builder
		for _, s := range specs {
			sb.WriteString("import " + s + "\n")
		}
		return sb.String()
	case 2: // a group and a blank import on its own
		return "import (\n\t" + strings.Join(specs, "\n\t") + "\n)\n\nimport _ \"os\"\n"
	default: // first alone, rest grouped, blank import inside the group
		if len(specs) == 1 {
			return "import " + specs[0] + "\n\nimport (\n\t_ \"sort\"\n)\n"
		}
		return "import " + specs[0] + "\n\nimport (\n\t" + strings.Join(specs[1:], "\n\t") + "\n\t_ \"sort\"\n)\n"
	}
}

// c39Render assembles a package: imports, declaration forms, the C05 bodies as functions, Run().
func c39Render(name string, shape int, forms []int, bodies []string, bodyNames []string) string {
	needFmt, needStrings := true, false
	for _, fi := range forms {
		for _, im := range c39Forms[fi].imps {
			if im == "strings" {
				needStrings = true
			}
		}
	}
	var sb strings.Builder
	if shape%3 == 0 {
		sb.WriteString("// Package " + name + " is a generated test package.\n")
	}
	sb.WriteString("package " + name + "\n\n")
	sb.WriteString(c39ImportShape(shape, needFmt, needStrings))
	sb.WriteString("\n")
	// declaration forms: half before, half after the functions (order of mixed kinds must be preserved)
	half := (len(forms) + 1) / 2
	for _, fi := range forms[:half] {
		sb.WriteString(c39Forms[fi].decl + "\n\n")
	}
	for i, b := range bodies {
		fmt.Fprintf(&sb, "func P%d() {\n%s\n}\n\n", i, b)
	}
	for _, fi := range forms[half:] {
		sb.WriteString(c39Forms[fi].decl + "\n\n")
	}
	sb.WriteString("func Run() string {\n\tres := \"\"\n")
	for i := range bodies {
		fmt.Fprintf(&sb, "\tres += Exec(P%d) + \"|\"\n", i)
	}
	for _, fi := range forms {
		for _, u := range c39Forms[fi].uses {
			fmt.Fprintf(&sb, "\tres += fmt.Sprint(%s) + \";\"\n", u)
		}
	}
	sb.WriteString("\treturn res\n}\n")
	_ = bodyNames
	return sb.String()
}

var c39BodiesAvailable, c39BodiesUsed int

// c39Corpus builds the deterministic corpus of the tier.
func c39Corpus(c *core.Ctx) []c39Pkg {
	progs := c05Gen_(c)
	sort.SliceStable(progs, func(i, j int) bool { return progs[i].ID < progs[j].ID })
	npk := c.Pick(300, 1000)
	// bodies per package: quick takes a stride through the corpus (3 per package), thorough uses every body
	// (few, larger packages: the cost of the comparison build is per package)
	per, stride := 3, 1
	if c.Quick() {
		stride = len(progs) / (npk * per)
	} else {
		per = (len(progs) + npk - 1) / npk
		if per > 40 {
			per = 40
		}
	}
	if stride < 1 {
		stride = 1
	}
	c39BodiesAvailable, c39BodiesUsed = len(progs), 0
	var pkgs []c39Pkg
	nf := len(c39Forms)
	for n := 0; n < npk; n++ {
		var bodies, names []string
		for j := 0; j < per; j++ {
			idx := (n*per + j) * stride
			if idx >= len(progs) {
				break
			}
			bodies = append(bodies, progs[idx].Body)
			names = append(names, progs[idx].ID)
			c39BodiesUsed++
		}
		// 4 declaration forms, rotating so that every form meets every import shape and position
		seen := map[int]bool{}
		var forms []int
		for _, f := range []int{n % nf, (n*3 + 1) % nf, (n*5 + 2) % nf, (n/nf + n*7 + 3) % nf} {
			if !seen[f] {
				seen[f] = true
				forms = append(forms, f)
			}
		}
		name := fmt.Sprintf("p%d", n)
		src := c39Render(name, n, forms, bodies, names)
		var fnames []string
		for _, f := range forms {
			fnames = append(fnames, c39Forms[f].name)
		}
		pkgs = append(pkgs, c39Pkg{Name: name, Src: src, Ref: src, Class: strings.Join(fnames, "+")})
	}
	pkgs = append(pkgs, c39MacroCorpus(c)...)
	var bodies []string
	for i := range progs {
		bodies = append(bodies, progs[i].Body)
	}
	pkgs = append(pkgs, c39GroupCorpus(c, bodies)...)
	return pkgs
}

// ---------------------------------------------------------------------------------------------
// macro family

type c39Macro struct {
	name string
	def  string                      // `:macro …` definition
	call func(args ...string) string // invocation text
	exp  func(args ...string) string // hand-written expansion (statements spliced into the enclosing list)
	args [][]string
}

var c39Macros = []c39Macro{
	{"twice", ":macro twice(x ast.Node) ast.Node {\n\treturn ~\"{ ~,x; ~,x }\n}",
		func(a ...string) string { return "twice; " + a[0] },
		func(a ...string) string { return a[0] + "\n" + a[0] },
		[][]string{{"n++"}, {"n += 2"}, {"S(\"t\")"}, {"n = n*2 + 1"}}},
	{"unless", ":macro unless(cond, body ast.Node) ast.Node {\n\treturn ~\"{ if !(~,cond) { ~,body } }\n}",
		func(a ...string) string { return "unless; " + a[0] + "; " + a[1] },
		func(a ...string) string { return "if !(" + a[0] + ") {\n" + a[1] + "\n}" },
		[][]string{{"n > 5", "n += 100"}, {"n == 0", "S(\"nz\")"}, {"n < 0 || m > 3", "m--"}}},
	{"swap", ":macro swap(a, b ast.Node) ast.Node {\n\treturn ~\"{ ~,a, ~,b = ~,b, ~,a }\n}",
		func(a ...string) string { return "swap; " + a[0] + "; " + a[1] },
		func(a ...string) string { return a[0] + ", " + a[1] + " = " + a[1] + ", " + a[0] },
		[][]string{{"n", "m"}, {"arr[0]", "arr[2]"}, {"arr[n%3]", "m"}}},
	{"repeat3", ":macro repeat3(x ast.Node) ast.Node {\n\treturn ~\"{ for i := 0; i < 3; i++ { ~,x } }\n}",
		func(a ...string) string { return "repeat3; " + a[0] },
		func(a ...string) string { return "for i := 0; i < 3; i++ {\n" + a[0] + "\n}" },
		[][]string{{"n += 2"}, {"arr[i] += n"}, {"O(i, n)"}}},
	{"guard", ":macro guard(x, lim ast.Node) ast.Node {\n\treturn ~\"{ if ~,x > ~,lim { ~,x = ~,lim } else if ~,x < -~,lim { ~,x = -~,lim } }\n}",
		func(a ...string) string { return "guard; " + a[0] + "; " + a[1] },
		func(a ...string) string {
			return "if " + a[0] + " > " + a[1] + " {\n" + a[0] + " = " + a[1] + "\n} else if " + a[0] + " < -" + a[1] + " {\n" + a[0] + " = -" + a[1] + "\n}"
		},
		[][]string{{"n", "4"}, {"m", "n"}, {"arr[1]", "2"}}},
	{"trace", ":macro trace(x ast.Node) ast.Node {\n\treturn ~\"{ S(\"in\"); ~,x; S(\"out\") }\n}",
		func(a ...string) string { return "trace; " + a[0] },
		func(a ...string) string { return "S(\"in\")\n" + a[0] + "\nS(\"out\")" },
		[][]string{{"n++"}, {"O(n, m)"}, {"m = n * 3"}}},
}

type c39Wrap struct {
	name string
	f    func(stmt string) string
}

var c39Wraps = []c39Wrap{
	{"top", func(s string) string { return s }},
	{"in-for", func(s string) string { return "for j := 0; j < 2; j++ {\n" + s + "\nm += j\n}" }},
	{"in-else", func(s string) string { return "if n > 100 {\nS(\"big\")\n} else {\n" + s + "\n}" }},
	{"in-switch-case", func(s string) string { return "switch n {\ncase 1:\n" + s + "\ndefault:\nS(\"d\")\n}" }},
}

// c39MacroPkg renders one package using a statement macro at the given position, with its hand-written expansion.
func c39MacroPkg(name string, mc c39Macro, args []string, w c39Wrap) c39Pkg {
	body := func(stmt string) string {
		return "n, m := 1, 2\narr := [3]int{5, 6, 7}\n" + w.f(stmt) + "\nO(n, m, arr)"
	}
	head := "package " + name + "\n\n"
	imports := "import (\n\t. \"orc/h\"\n)\n\n"
	run := "func Run() string { return Exec(P0) }\n"
	src := head + ":import \"go/ast\"\n\n" + mc.def + "\n\n" + imports + "func P0() {\n" + body(mc.call(args...)) + "\n}\n\n" + run
	ref := head + imports + "func P0() {\n" + body(mc.exp(args...)) + "\n}\n\n" + run
	return c39Pkg{Name: name, Src: src, Ref: ref, Macro: true, Class: "macro-" + mc.name + "-" + w.name}
}

// c39MacroCorpus: every macro × every argument list × 4 positions (function top level, inside a for body,
// inside an if/else branch, inside a switch case) + the declaration-generating macro + the force-evaluated chunks.
func c39MacroCorpus(c *core.Ctx) []c39Pkg {
	var pkgs []c39Pkg
	k := 0
	for _, mc := range c39Macros {
		for _, args := range mc.args {
			for _, w := range c39Wraps {
				pkgs = append(pkgs, c39MacroPkg(fmt.Sprintf("m%d", k), mc, args, w))
				k++
			}
		}
	}
	// a macro producing declarations (function per type), as in _example/make_fibonacci.gomacro
	for _, typ := range []string{"int", "uint8", "float64", "string"} {
		name := fmt.Sprintf("m%d", k)
		k++
		head := "package " + name + "\n\n"
		imports := "import \"fmt\"\n\n"
		def := ":macro mkdouble(name, typ ast.Node) ast.Node {\n\tret := ~\"{\n\t\t~func FOO(v ~,typ) ~,typ {\n\t\t\treturn v + v\n\t\t}\n\t}\n\tret.Name = name.(*ast.Ident)\n\treturn ret\n}\n\n"
		val := "3"
		if typ == "string" {
			val = "\"x\""
		}
		run := "func Run() string { return fmt.Sprint(dbl(" + val + "), second(" + val + ")) }\n"
		src := head + ":import \"go/ast\"\n\n" + def + imports + "mkdouble; dbl; " + typ + "\n\nvar between = 1\n\nmkdouble; second; " + typ + "\n\n" + run
		ref := head + imports + "func dbl(v " + typ + ") " + typ + " {\n\treturn v + v\n}\n\nvar between = 1\n\nfunc second(v " + typ + ") " + typ + " {\n\treturn v + v\n}\n\n" + run
		pkgs = append(pkgs, c39Pkg{Name: name, Src: src, Ref: ref, Macro: true, Class: "macro-mkdouble-decl"})
	}
	pkgs = append(pkgs, c39ForceCorpus(c, k)...)
	return pkgs
}
