package props

// C05 — control flow. Bounded-exhaustive nestings of control constructs with a jump (or plain)
// leaf at every hole: outer construct × hole × inner construct × hole × leaf, each program
// instrumented with trace points; compiled Go (go 1.21 loop-variable semantics) is the oracle.

import (
	"fmt"
	"strings"

	"verif/harness/core"
	"verif/harness/oracle"
)

const (
	kOther = iota
	kLoop
	kSwitch // switch or select: break allowed, continue not
	kFunc   // function literal boundary: no jump may cross it
)

type c05Frame struct {
	kind  int
	label string // label name available for this frame
	used  *bool  // set when a labelled jump targets it
}

type c05Gen struct {
	k int // trace point counter
	d int // nesting depth counter (unique variable suffixes)
}

func (g *c05Gen) t() string { g.k++; return fmt.Sprintf("T(%d)", g.k) }
func (g *c05Gen) n() int    { g.k++; return g.k }

// construct renders a control statement; holes[i] receives the context stack for hole i and returns its text.
type c05Construct struct {
	name   string
	nholes int
	render func(g *c05Gen, ctx []c05Frame, hole func(i int, ctx []c05Frame) string) string
}

// lbl attaches the label (if a jump used it) at the @L@ marker, or in front of the statement.
func lbl(name string, used *bool, stmt string) string {
	l := ""
	if *used {
		l = name + ":\n"
	}
	if strings.Contains(stmt, "@L@") {
		return strings.Replace(stmt, "@L@", l, 1)
	}
	return l + stmt
}

func c05Constructs() []c05Construct {
	loop := func(name string, nholes int, mk func(g *c05Gen, d int, h func(i int) string) string) c05Construct {
		return c05Construct{name, nholes, func(g *c05Gen, ctx []c05Frame, hole func(int, []c05Frame) string) string {
			g.d++
			d := g.d
			used := false
			l := fmt.Sprintf("L%d", d)
			inner := append(append([]c05Frame{}, ctx...), c05Frame{kLoop, l, &used})
			body := mk(g, d, func(i int) string { return hole(i, inner) })
			return lbl(l, &used, body)
		}}
	}
	sw := func(name string, nholes int, mk func(g *c05Gen, d int, h func(i int) string) string) c05Construct {
		return c05Construct{name, nholes, func(g *c05Gen, ctx []c05Frame, hole func(int, []c05Frame) string) string {
			g.d++
			d := g.d
			used := false
			l := fmt.Sprintf("L%d", d)
			inner := append(append([]c05Frame{}, ctx...), c05Frame{kSwitch, l, &used})
			body := mk(g, d, func(i int) string { return hole(i, inner) })
			return lbl(l, &used, body)
		}}
	}
	plain := func(name string, nholes int, mk func(g *c05Gen, d int, h func(i int) string) string) c05Construct {
		return c05Construct{name, nholes, func(g *c05Gen, ctx []c05Frame, hole func(int, []c05Frame) string) string {
			g.d++
			d := g.d
			return mk(g, d, func(i int) string { return hole(i, ctx) })
		}}
	}
	return []c05Construct{
		plain("if-else", 2, func(g *c05Gen, d int, h func(int) string) string {
			return fmt.Sprintf("if Tb(%d, x%%2 == 0) {\n%s\n} else {\n%s\n}", g.n(), h(0), h(1))
		}),
		plain("if-init-elseif", 2, func(g *c05Gen, d int, h func(int) string) string {
			return fmt.Sprintf("if v%d := x + 1; Tb(%d, v%d > 2) {\n%s\n} else if Tb(%d, v%d > 1) {\n%s\n} else {\n%s\n_ = v%d\n}", d, g.n(), d, h(0), g.n(), d, h(1), g.t(), d)
		}),
		loop("for3", 1, func(g *c05Gen, d int, h func(int) string) string {
			return fmt.Sprintf("for i%d := 0; i%d < 3 && Fuel(); i%d++ {\n%s\nx++\n%s\n%s\n}", d, d, d, g.t(), h(0), g.t())
		}),
		loop("for-cond", 1, func(g *c05Gen, d int, h func(int) string) string {
			return fmt.Sprintf("for x < 4 && Fuel() {\nx++\n%s\n%s\n}", h(0), g.t())
		}),
		loop("for-ever", 1, func(g *c05Gen, d int, h func(int) string) string {
			return fmt.Sprintf("for {\nif !Fuel() {\nbreak\n}\nx++\nif x > 3 {\n%s\nbreak\n}\n%s\n%s\n}", g.t(), h(0), g.t())
		}),
		loop("for-post-only", 1, func(g *c05Gen, d int, h func(int) string) string {
			return fmt.Sprintf("for ; ; y++ {\nif y > 2 || !Fuel() {\nbreak\n}\n%s\n%s\n}", h(0), g.t())
		}),
		loop("range-slice", 1, func(g *c05Gen, d int, h func(int) string) string {
			return fmt.Sprintf("for i%d, v%d := range []int{5, 6, 7} {\nO(i%d, v%d)\nx++\n%s\n%s\n}", d, d, d, d, h(0), g.t())
		}),
		loop("range-array-index", 1, func(g *c05Gen, d int, h func(int) string) string {
			return fmt.Sprintf("for i%d := range [3]string{} {\nO(i%d)\nx++\n%s\n%s\n}", d, d, h(0), g.t())
		}),
		loop("range-novars", 1, func(g *c05Gen, d int, h func(int) string) string {
			return fmt.Sprintf("for range []bool{true, false} {\nx++\n%s\n%s\n}", h(0), g.t())
		}),
		loop("range-string", 1, func(g *c05Gen, d int, h func(int) string) string {
			return fmt.Sprintf("for i%d, r%d := range \"a\\u00e9z\" {\nO(i%d, r%d)\nx++\n%s\n%s\n}", d, d, d, d, h(0), g.t())
		}),
		loop("range-map1", 1, func(g *c05Gen, d int, h func(int) string) string {
			return fmt.Sprintf("for k%d, v%d := range map[int]string{4: \"q\"} {\nO(k%d, v%d)\nx++\n%s\n%s\n}", d, d, d, d, h(0), g.t())
		}),
		loop("range-map3-multiset", 1, func(g *c05Gen, d int, h func(int) string) string {
			// order-insensitive: the hole runs only for key 2 (whatever its position in the iteration order), before the
			// key is collected; the collected keys are printed (as a multiset) only if all three were collected.
			return fmt.Sprintf("{\nvar ks%d []int\n@L@for k%d, v%d := range map[int]int{1: 10, 2: 20, 3: 30} {\nif k%d == 2 {\nx++\n%s\n}\nks%d = append(ks%d, k%d+v%d)\n}\nif len(ks%d) == 3 {\nOm(ks%d)\n} else {\n%s\n}\n}",
				d, d, d, d, h(0), d, d, d, d, d, d, g.t())
		}),
		loop("range-assign-slice", 1, func(g *c05Gen, d int, h func(int) string) string {
			return fmt.Sprintf("{\nvar i%d, v%d int\n@L@for i%d, v%d = range []int{5, 6, 7} {\nx++\n%s\n%s\n}\nO(i%d, v%d)\n}", d, d, d, d, h(0), g.t(), d, d)
		}),
		loop("range-assign-string", 1, func(g *c05Gen, d int, h func(int) string) string {
			return fmt.Sprintf("{\nvar i%d int\nvar r%d rune\n@L@for i%d, r%d = range \"a\\u00e9z\" {\nx++\n%s\n%s\n}\nO(i%d, r%d)\n}", d, d, d, d, h(0), g.t(), d, d)
		}),
		loop("range-assign-iface-empty", 1, func(g *c05Gen, d int, h func(int) string) string {
			return fmt.Sprintf("{\nvar i%d interface{} = \"unset\"\nj%d := 9\nfor j%d = range []int{} {\n%s\n}\n@L@for i%d = range [2]bool{} {\nx++\n%s\n%s\n}\nO(i%d, j%d)\n}", d, d, d, g.t(), d, h(0), g.t(), d, d)
		}),
		loop("range-key-modified", 1, func(g *c05Gen, d int, h func(int) string) string {
			return fmt.Sprintf("for i%d, v%d := range []int{5, 6, 7} {\ni%d += 2\nO(i%d, v%d)\nx++\n%s\n%s\n}", d, d, d, d, d, h(0), g.t())
		}),
		loop("range-array-pointer", 1, func(g *c05Gen, d int, h func(int) string) string {
			return fmt.Sprintf("for i%d, v%d := range &[3]int{1, 2, 3} {\nO(i%d, v%d)\nx++\n%s\n%s\n}", d, d, d, d, h(0), g.t())
		}),
		loop("range-chan", 1, func(g *c05Gen, d int, h func(int) string) string {
			return fmt.Sprintf("{\nch%d := make(chan int, 3)\nch%d <- 1\nch%d <- 2\nch%d <- 3\nclose(ch%d)\n@L@for v%d := range ch%d {\nO(v%d)\nx++\n%s\n%s\n}\n}", d, d, d, d, d, d, d, d, h(0), g.t())
		}),
		loop("closure-capture-for3", 1, func(g *c05Gen, d int, h func(int) string) string {
			return fmt.Sprintf("{\nvar fs%d []func() int\n@L@for i%d := 0; i%d < 3 && Fuel(); i%d++ {\nfs%d = append(fs%d, func() int { return i%d })\nx++\n%s\n}\nfor _, f := range fs%d {\nO(f())\n}\n}", d, d, d, d, d, d, d, h(0), d)
		}),
		loop("closure-capture-range", 1, func(g *c05Gen, d int, h func(int) string) string {
			return fmt.Sprintf("{\nvar fs%d []func() int\n@L@for i%d, v%d := range []int{7, 8, 9} {\nfs%d = append(fs%d, func() int { return i%d*100 + v%d })\nx++\n%s\n}\nfor _, f := range fs%d {\nO(f())\n}\n}", d, d, d, d, d, d, d, h(0), d)
		}),
		loop("for3-bodylocal", 1, func(g *c05Gen, d int, h func(int) string) string {
			// the loop header and the body both own variables: jumps out of nested ones cross many frames
			return fmt.Sprintf("for i%d := 0; i%d < 2 && Fuel(); i%d++ {\nb%d := i%d + 10\nx++\n%s\nO(b%d)\n}", d, d, d, d, d, h(0), d)
		}),
		loop("range-bodylocal", 1, func(g *c05Gen, d int, h func(int) string) string {
			return fmt.Sprintf("for i%d, v%d := range []int{3, 4} {\nb%d := i%d*10 + v%d\nx++\n%s\nO(b%d)\n}", d, d, d, d, d, h(0), d)
		}),
		sw("switch-caselocal", 2, func(g *c05Gen, d int, h func(int) string) string {
			return fmt.Sprintf("switch s%d := x %% 3; s%d {\ncase 0:\nb%d := s%d + 20\n%s\nO(b%d)\ncase 1:\nc%d := s%d + 30\n%s\nO(c%d)\ndefault:\n%s\n}", d, d, d, d, h(0), d, d, d, h(1), d, g.t())
		}),
		sw("switch-mixed-const-call-cases", 2, func(g *c05Gen, d int, h func(int) string) string {
			// constants and side-effecting expressions mixed inside one clause: evaluation is left-to-right, top-to-bottom, until a match
			return fmt.Sprintf("switch x %% 5 {\ncase 0, Ti(%d, 7), 1:\n%s\ncase 2:\n%s\ncase Ti(%d, 3), 4:\n%s\ncase 9, Ti(%d, 8):\n%s\n}", g.n(), h(0), g.t(), g.n(), h(1), g.n(), g.t())
		}),
		sw("switch-notag-case-lists", 1, func(g *c05Gen, d int, h func(int) string) string {
			return fmt.Sprintf("switch {\ncase Tb(%d, x == 1), Tb(%d, x == 2):\n%s\ncase Tb(%d, x > 2), true:\n%s\n}", g.n(), g.n(), h(0), g.n(), g.t())
		}),
		sw("switch-tag-fallthrough", 2, func(g *c05Gen, d int, h func(int) string) string {
			return fmt.Sprintf("switch Ti(%d, x) %% 3 {\ncase 0:\n%s\ncase 1:\n%s\nfallthrough\ncase 2:\n%s\ndefault:\n%s\n}", g.n(), h(0), g.t(), h(1), g.t())
		}),
		sw("switch-notag-default-first", 2, func(g *c05Gen, d int, h func(int) string) string {
			return fmt.Sprintf("switch {\ndefault:\n%s\ncase Tb(%d, x > 1):\n%s\ncase Tb(%d, x == 1):\n%s\n}", h(0), g.n(), h(1), g.n(), g.t())
		}),
		sw("switch-default-middle-fallthrough", 2, func(g *c05Gen, d int, h func(int) string) string {
			return fmt.Sprintf("switch y%d := x %% 4; y%d {\ncase 0:\n%s\nfallthrough\ndefault:\n%s\ncase 1:\n%s\nfallthrough\ncase 3:\n%s\n}", d, d, g.t(), h(0), h(1), g.t())
		}),
		sw("switch-int-6cases", 2, func(g *c05Gen, d int, h func(int) string) string {
			return fmt.Sprintf("switch x {\ncase 0:\n%s\ncase 1, 2:\n%s\ncase 3:\n%s\ncase 4:\n%s\ncase 5:\n%s\ncase 6, 7, 8:\n%s\n}", h(0), h(1), g.t(), g.t(), g.t(), g.t())
		}),
		sw("switch-string-6cases", 2, func(g *c05Gen, d int, h func(int) string) string {
			return fmt.Sprintf("switch []string{\"a\", \"b\", \"c\", \"d\", \"e\", \"zz\"}[x%%6] {\ncase \"a\":\n%s\ncase \"b\":\n%s\ncase \"c\":\n%s\ncase \"d\":\n%s\ncase \"e\", \"f\":\n%s\ndefault:\n%s\n}", h(0), h(1), g.t(), g.t(), g.t(), g.t())
		}),
		sw("switch-init-only", 1, func(g *c05Gen, d int, h func(int) string) string {
			return fmt.Sprintf("switch z%d := x; {\ncase z%d < 2:\n%s\ncase z%d >= 2:\n%s\n}", d, d, h(0), d, g.t())
		}),
		sw("typeswitch-bind", 2, func(g *c05Gen, d int, h func(int) string) string {
			return fmt.Sprintf("switch v%d := ([]interface{}{1, \"s\", nil, 2.5, uint8(3)}[x%%5]).(type) {\ncase int:\nO(v%d)\n%s\ncase string, uint8:\nO(v%d)\n%s\ncase nil:\n%s\ndefault:\nO(v%d)\n%s\n}", d, d, h(0), d, h(1), g.t(), d, g.t())
		}),
		sw("typeswitch-nobind-default-first", 1, func(g *c05Gen, d int, h func(int) string) string {
			return fmt.Sprintf("switch ([]interface{}{int8(1), \"s\", nil, error(nil)}[x%%4]).(type) {\ndefault:\n%s\ncase int8:\n%s\ncase nil:\n%s\n}", g.t(), h(0), g.t())
		}),
		sw("select-default", 2, func(g *c05Gen, d int, h func(int) string) string {
			return fmt.Sprintf("{\nch%d := make(chan int, 1)\nif x%%2 == 0 {\nch%d <- 7\n}\n@L@select {\ncase v%d := <-ch%d:\nO(v%d)\n%s\ndefault:\n%s\n}\n}", d, d, d, d, d, h(0), h(1))
		}),
		sw("select-one-ready-send", 1, func(g *c05Gen, d int, h func(int) string) string {
			return fmt.Sprintf("{\nch%d := make(chan int, 1)\nvar nilch%d chan int\n@L@select {\ncase ch%d <- Ti(%d, 5):\n%s\ncase v%d, ok%d := <-nilch%d:\nO(v%d, ok%d)\n}\nO(len(ch%d))\n}", d, d, d, g.n(), h(0), d, d, d, d, d, d)
		}),
		plain("block-shadow", 1, func(g *c05Gen, d int, h func(int) string) string {
			return fmt.Sprintf("{\nx := x + 10\n%s\nO(x)\n}", h(0))
		}),
		c05GotoBack(),
		c05Construct{"funclit", 1, func(g *c05Gen, ctx []c05Frame, hole func(int, []c05Frame) string) string {
			g.d++
			return fmt.Sprintf("func() {\n%s\n%s\n}()", hole(0, append(append([]c05Frame{}, ctx...), c05Frame{kind: kFunc})), g.t())
		}},
	}
}

// leaves valid in ctx. Each returns the statement text.
func c05Leaves(g *c05Gen, ctx []c05Frame, probe bool) []func() string {
	var out []func() string
	out = append(out, func() string { return g.t() })
	out = append(out, func() string { return "x += 2" })
	// innermost breakable / continuable frames (not crossing a function literal)
	canBreak, canCont := false, false
	for i := len(ctx) - 1; i >= 0; i-- {
		if ctx[i].kind == kFunc {
			break
		}
		if ctx[i].kind == kLoop || ctx[i].kind == kSwitch {
			canBreak = true
		}
		if ctx[i].kind == kLoop {
			canCont = true
		}
	}
	if canBreak {
		out = append(out, func() string { return "break" })
		out = append(out, func() string { return fmt.Sprintf("if x%%2 == 1 {\n%s\nbreak\n}", g.t()) })
	}
	if canCont {
		out = append(out, func() string { return "continue" })
		out = append(out, func() string { return fmt.Sprintf("if x%%2 == 1 {\n%s\ncontinue\n}", g.t()) })
	}
	for i := len(ctx) - 1; i >= 0; i-- {
		f := ctx[i]
		if f.kind == kFunc {
			break
		}
		if f.label == "" {
			continue
		}
		if f.kind == kLoop || f.kind == kSwitch {
			f := f
			out = append(out, func() string { *f.used = true; return fmt.Sprintf("if x%%2 == 1 {\nbreak %s\n}", f.label) })
		}
		if f.kind == kLoop {
			f := f
			out = append(out, func() string { *f.used = true; return fmt.Sprintf("if x%%2 == 0 {\ncontinue %s\n}", f.label) })
		}
	}
	out = append(out, func() string { return "return" })
	out = append(out, func() string { return fmt.Sprintf("if x > 1 {\n%s\nreturn\n}", g.t()) })
	return out
}

func c05GotoBack() c05Construct {
	return c05Construct{"goto-back", 1, func(g *c05Gen, ctx []c05Frame, hole func(int, []c05Frame) string) string {
		g.d++
		d := g.d
		return fmt.Sprintf("{\nG%d:\nx++\n%s\nif x < 3 && Fuel() {\ngoto G%d\n}\n}", d, hole(0, ctx), d)
	}}
}

// c05Programs enumerates: every construct nesting path of the given depth (construct, hole index)…, and for the
// innermost hole every leaf valid there; other holes get a trace point.
func c05Programs(depth int, constructs []c05Construct, prefix string) []oracle.Prog {
	var progs []oracle.Prog
	type step struct{ ci, hole int }
	var paths [][]step
	var rec func(cur []step)
	rec = func(cur []step) {
		if len(cur) == depth {
			paths = append(paths, append([]step{}, cur...))
			return
		}
		for ci := range constructs {
			for h := 0; h < constructs[ci].nholes; h++ {
				rec(append(cur, step{ci, h}))
			}
		}
	}
	rec(nil)
	for pi, path := range paths {
		// number of leaves depends on the context: probe first
		nleaves := -1
		for li := 0; nleaves < 0 || li < nleaves; li++ {
			g := &c05Gen{}
			var build func(level int, ctx []c05Frame) string
			build = func(level int, ctx []c05Frame) string {
				if level == len(path) {
					leaves := c05Leaves(g, ctx, false)
					if nleaves < 0 {
						nleaves = len(leaves)
					}
					return leaves[li]() + "\n" + g.t()
				}
				st := path[level]
				return constructs[st.ci].render(g, ctx, func(i int, inner []c05Frame) string {
					if i == st.hole {
						return build(level+1, inner)
					}
					return g.t()
				})
			}
			body := "x, y := 0, 0\n_ = y\n" + build(0, nil) + "\n" + g.t() + "\nO(x, y)"
			var names []string
			for _, st := range path {
				names = append(names, fmt.Sprintf("%s.%d", constructs[st.ci].name, st.hole))
			}
			// wrap so that the program runs with x = 0, 1, 2 initial values? keep single run; x evolves in loops
			progs = append(progs, oracle.Prog{ID: fmt.Sprintf("%s%d_%d", prefix, pi, li), Body: "// " + strings.Join(names, " > ") + "\n" + body})
		}
	}
	return progs
}

func c05Gen_(c *core.Ctx) []oracle.Prog {
	all := c05Constructs()
	progs := c05Programs(1, all, "a")
	progs = append(progs, c05Programs(2, all, "b")...)
	{
		// depth 3 over the constructs whose header AND body own variables (jumps crossing >= 5 frames)
		var deep []c05Construct
		keep := map[string]bool{"for3-bodylocal": true, "range-bodylocal": true, "switch-caselocal": true, "block-shadow": true}
		if c.Thorough() {
			keep["if-init-elseif"], keep["switch-mixed-const-call-cases"] = true, true
		}
		for _, k := range all {
			if keep[k.name] {
				deep = append(deep, k)
			}
		}
		progs = append(progs, c05Programs(3, deep, "d")...)
	}
	if c.Thorough() {
		// depth 3 over a reduced alphabet: one representative per jump-patching family
		var red []c05Construct
		keep := map[string]bool{"if-else": true, "for3": true, "range-slice": true, "switch-tag-fallthrough": true, "typeswitch-bind": true,
			"select-default": true, "goto-back": true, "funclit": true, "switch-int-6cases": true, "for-ever": true, "range-chan": true}
		for _, k := range all {
			if keep[k.name] {
				red = append(red, k)
			}
		}
		progs = append(progs, c05Programs(3, red, "c")...)
	}
	return progs
}

func init() {
	registerDiff(&diffSpec{
		ID: "C05",
		Rule: "all nestings (construct, hole)^d of 38 control constructs (if/else-if/init, 4 for forms, 13 range forms (incl. assignment to existing variables, key modified by the body), 7 switch forms incl. fallthrough/default positions/>=5 cases, 2 type switches, 2 selects, block, backward goto, func literal) " +
			"for d=1,2, d=3 over the 4 (thorough 6) constructs whose header and body both own variables (thorough: also d=3 over 11 further constructs) × every jump/plain leaf valid at the innermost hole (trace point, assignment, [conditional] break/continue, labelled break/continue to every enclosing target, [conditional] return); " +
			"each program records a trace of executed points and final variables; non-trivial = distinct (program, Go trace) pairs whose trace has at least two points",
		Gen: c05Gen_,
		// classic subset: no type switches on non-default kinds, no select/goroutine constructs
		Classic: func(p *oracle.Prog) bool {
			for _, bad := range []string{"typeswitch", "select", "range-chan", "goto"} {
				if strings.Contains(p.Body[:strings.Index(p.Body, "\n")], bad) {
					return false
				}
			}
			return true
		},
		Sig: func(p *oracle.Prog, want, got string) string {
			line := p.Body
			if i := strings.Index(line, "\n"); i > 0 {
				line = line[:i]
			}
			return "C05|" + strings.TrimPrefix(line, "// ")
		},
	})
}
