package props

// go/types scope without imports (the shared oracle.PkgScope type-checks the hooks package and its standard-library
// imports from source first, ~2 CPU-seconds per worker process, which C01/C34 do not need).

import (
	"go/ast"
	"go/parser"
	"go/token"
	"go/types"

	"verif/harness/oracle"
)

type c01Scope struct {
	fset *token.FileSet
	pkg  *types.Package
}

func newC01Scope(decls string) (*c01Scope, error) {
	fset := token.NewFileSet()
	f, err := parser.ParseFile(fset, "p.go", "package p\n"+decls, 0)
	if err != nil {
		return nil, err
	}
	var first error
	conf := types.Config{GoVersion: "go1.21", Error: func(e error) {
		if first == nil {
			first = e
		}
	}}
	pkg, _ := conf.Check("p", fset, []*ast.File{f}, nil)
	return &c01Scope{fset, pkg}, first
}

func (s *c01Scope) Eval(expr string) oracle.ExprInfo {
	tv, err := types.Eval(s.fset, s.pkg, token.NoPos, expr)
	if err != nil {
		return oracle.ExprInfo{Err: err}
	}
	return oracle.ExprInfo{Type: types.TypeString(tv.Type, func(*types.Package) string { return "" }), Const: tv.Value}
}
