package props

// C33 — goroutine identity and per-goroutine runtime state are never shared.
// Stateless model checking of the REAL registry code (fast.glsGet/glsStore/glsDel, getRun4Goid,
// newEnv4Func, Comp.Go, atomic.SpinLock) under the cooperative scheduler of package sched:
// scheduling points at spin-lock acquisition, thread start and the scenario's own join points;
// the identity seen by the interpreter is a *virtual* identity chosen by the explorer, so that
// "a new goroutine receives the identity of a goroutine that exited" is an explored choice.

import (
	"encoding/json"
	"fmt"
	"sort"
	"strings"
	"sync"
	"time"

	gatomic "github.com/cosmos72/gomacro/atomic"
	"github.com/cosmos72/gomacro/fast"
	"github.com/cosmos72/gomacro/gls"

	"verif/harness/core"
	"verif/harness/sched"
	"verif/harness/twin"
)

func init() {
	core.Register(&core.Check{ID: "C33", Level: "model_checking", Workers: -1, Run: c33Run, Replay: c33Replay})
}

// ---- scenario alphabet -----------------------------------------------------------------------

// One step of the main thread's script.
type c33Step struct {
	Kind string `json:"kind"`
	Join bool   `json:"join_before"` // wait for all threads started so far to exit first (forces identity reuse choices)
}

var c33Kinds = []string{
	"go-global",       // go statement goroutine calling a global function
	"go-closure",      // go statement goroutine calling a closure created by the main thread
	"go-nested",       // go statement goroutine that itself starts another goroutine
	"go-make-closure", // go statement goroutine creating a closure and publishing it in a global
	"foreign-global",  // compiled code calls an interpreted function from a new foreign goroutine
	"foreign-closure", // … a closure created by the main thread
	"foreign-stored",  // … the closure published by an earlier goroutine (created in another thread's frames)
	"main-call",       // the main thread itself calls function, closure and stored closure
	"go-named",        // go statement applied to a named function (no closure involved: the wrapper frame is not captured)
	"main-block",      // the main thread calls a function whose body has a nested block with locals and an inner call
}

func c33Source(steps []c33Step) string {
	var sb strings.Builder
	sb.WriteString(`
var stored func() int
func fglob(x int) int { y := x * 2; return y + 1 }
func mk(k int) func() int { z := k + 1; return func() int { return z + fglob(k) } }
func named(n int, k int) { defer func() { if e := recover(); e != nil { Pan(e) } }(); R(n, blk(k)) }
func blk(k int) int { a := k; { b := a + 1; a = b + fglob(k); { c := a * 2; a = c - fglob(b) } }; return a }
func Scenario() {
	cl := mk(5)
	stored = mk(7)
	R(1, fglob(1)+blk(1)) // the main thread's frame pool is not empty when the first goroutine is started
`)
	for i, st := range steps {
		if st.Join {
			sb.WriteString("\tJoin()\n")
		}
		n := 10 * (i + 1)
		switch st.Kind {
		case "go-global":
			fmt.Fprintf(&sb, "\tgo func() { defer func() { if e := recover(); e != nil { Pan(e) } }(); R(%d, fglob(%d)) }()\n", n, n)
		case "go-closure":
			fmt.Fprintf(&sb, "\tgo func() { defer func() { if e := recover(); e != nil { Pan(e) } }(); R(%d, cl()) }()\n", n)
		case "go-nested":
			fmt.Fprintf(&sb, "\tgo func() { defer func() { if e := recover(); e != nil { Pan(e) } }(); go func() { defer func() { if e := recover(); e != nil { Pan(e) } }(); R(%d, fglob(%d)) }(); R(%d, cl()) }()\n", n+1, n+1, n)
		case "go-make-closure":
			fmt.Fprintf(&sb, "\tgo func() { defer func() { if e := recover(); e != nil { Pan(e) } }(); stored = mk(%d); R(%d, stored()) }()\n", n, n)
		case "foreign-global":
			fmt.Fprintf(&sb, "\tCallFrom(%d, func() int { return fglob(%d) })\n", n, n)
		case "foreign-closure":
			fmt.Fprintf(&sb, "\tCallFrom(%d, cl)\n", n)
		case "foreign-stored":
			fmt.Fprintf(&sb, "\tCallFrom(%d, func() int { return stored() })\n", n)
		case "main-call":
			fmt.Fprintf(&sb, "\tR(%d, fglob(%d)+cl()+stored())\n", n, n)
		case "go-named":
			fmt.Fprintf(&sb, "\tgo named(%d, %d)\n", n, n)
		case "main-block":
			fmt.Fprintf(&sb, "\tR(%d, blk(%d))\n", n, n)
		}
	}
	sb.WriteString("\tJoin()\n\tR(99, fglob(99)+cl())\n}\n")
	return sb.String()
}

// ---- model + invariants ----------------------------------------------------------------------

type c33Model struct {
	mu       sync.Mutex
	s        *sched.S
	virt     map[int]uintptr // tid -> virtual identity
	freed    []uintptr       // identities of exited threads, available for reuse
	nextID   uintptr
	owner    map[*fast.Run]int
	inuse    map[*fast.Env]int // frame -> thread it is currently allocated to
	results  []string
	viol     []string
	started  int
	idReused int
	onViol   func(msg string, schedule []int) // reports an invariant violation at once (it may be followed by a crash)
}

func newC33Model() *c33Model {
	return &c33Model{virt: map[int]uintptr{0: 1000}, nextID: 1001, owner: map[*fast.Run]int{}, inuse: map[*fast.Env]int{}}
}

func (m *c33Model) violate(format string, args ...interface{}) {
	m.mu.Lock()
	m.viol = append(m.viol, fmt.Sprintf(format, args...))
	m.mu.Unlock()
	m.flush()
}

// flush reports the violations recorded so far immediately.
func (m *c33Model) flush() {
	m.mu.Lock()
	cb, s, n := m.onViol, m.s, len(m.viol)
	var last string
	if n > 0 {
		last = m.viol[n-1]
	}
	m.mu.Unlock()
	if cb != nil && s != nil && n > 0 {
		cb(last, s.ChoicesSoFar())
	}
}

func (m *c33Model) Enabled(parked map[int]sched.Op) []sched.Action {
	var acts []sched.Action
	var tids []int
	for tid := range parked {
		tids = append(tids, tid)
	}
	sort.Ints(tids)
	m.mu.Lock()
	defer m.mu.Unlock()
	// identities of threads that finished become reusable
	for tid, id := range m.virt {
		if tid != 0 && id != 0 && !m.s.Alive(tid) {
			m.freed = append(m.freed, id)
			m.virt[tid] = 0
		}
	}
	sort.Slice(m.freed, func(i, j int) bool { return m.freed[i] < m.freed[j] })
	for _, tid := range tids {
		op := parked[tid]
		name := m.s.ThreadName(tid)
		switch op.Kind {
		case "start":
			// environment choice: which identity the runtime gives to the new goroutine
			acts = append(acts, sched.Action{Tids: []int{tid}, Label: name + ":start(fresh id)", Data: uintptr(0)})
			for _, id := range m.freed {
				acts = append(acts, sched.Action{Tids: []int{tid}, Label: fmt.Sprintf("%s:start(reuse id %d)", name, id), Data: id})
			}
		case "lock", "spin":
			if sched.LockFree(op.Obj.(*gatomic.SpinLock)) {
				acts = append(acts, sched.Action{Tids: []int{tid}, Label: name + ":" + op.Kind})
			}
		case "join":
			// enabled when every other thread has finished (nobody else is parked anywhere)
			others := 0
			for t2, o2 := range parked {
				if t2 != tid && o2.Kind != "join" {
					others++
				}
			}
			if others == 0 {
				acts = append(acts, sched.Action{Tids: []int{tid}, Label: name + ":join"})
			}
		default:
			acts = append(acts, sched.Action{Tids: []int{tid}, Label: name + ":" + op.Kind})
		}
	}
	return acts
}

func (m *c33Model) Fire(a sched.Action, parked map[int]sched.Op) {
	tid := a.Tids[0]
	op := parked[tid]
	m.mu.Lock()
	defer m.mu.Unlock()
	switch op.Kind {
	case "start":
		id := a.Data.(uintptr)
		if id == 0 {
			id = m.nextID
			m.nextID++
		} else {
			for i, f := range m.freed {
				if f == id {
					m.freed = append(m.freed[:i], m.freed[i+1:]...)
					break
				}
			}
			m.idReused++
		}
		m.virt[tid] = id
		m.started++
	case "lock", "spin":
		m.s.NoteLock(op.Obj.(*gatomic.SpinLock), tid)
	}
}

func (m *c33Model) callbacks() sched.Callbacks {
	return sched.Callbacks{
		LockPoints: true,
		GoID: func(s *sched.S, tid int, real uintptr) uintptr {
			m.mu.Lock()
			defer m.mu.Unlock()
			if id := m.virt[tid]; id != 0 {
				return id
			}
			return real
		},
		Owner: func(s *sched.S, tid int, run *fast.Run, runGoid, goid uintptr) {
			m.mu.Lock()
			defer m.mu.Unlock()
			if runGoid != goid {
				m.viol = append(m.viol, fmt.Sprintf("invariant run.goid==goid: thread %s (identity %d) allocates a frame from the record of identity %d", s.ThreadName(tid), goid, runGoid))
			}
			if prev, ok := m.owner[run]; ok && prev != tid && s.Alive(prev) {
				m.viol = append(m.viol, fmt.Sprintf("invariant exclusive ownership: runtime record %p used by live threads %s and %s", run, s.ThreadName(prev), s.ThreadName(tid)))
			}
			m.owner[run] = tid
		},
		AllocPoints: true,
		Alloc: func(s *sched.S, tid int, env *fast.Env, run *fast.Run, runGoid uintptr) {
			m.mu.Lock()
			defer m.mu.Unlock()
			nviol := len(m.viol)
			goid := m.virt[tid]
			if goid != 0 && runGoid != goid {
				m.viol = append(m.viol, fmt.Sprintf("invariant frame record: thread %s (identity %d) allocates a frame that uses the runtime record of identity %d", s.ThreadName(tid), goid, runGoid))
			}
			if prev, ok := m.owner[run]; ok && prev != tid && s.Alive(prev) {
				m.viol = append(m.viol, fmt.Sprintf("invariant exclusive ownership: runtime record %p used by live threads %s and %s", run, s.ThreadName(prev), s.ThreadName(tid)))
			}
			m.owner[run] = tid
			if prev, busy := m.inuse[env]; busy && prev != tid && s.Alive(prev) {
				m.viol = append(m.viol, fmt.Sprintf("invariant exclusive frames: frame %p handed out to thread %s while thread %s still uses it", env, s.ThreadName(tid), s.ThreadName(prev)))
			}
			m.inuse[env] = tid
			if len(m.viol) > nviol {
				go m.flush()
			}
		},
		FreeEnv: func(env *fast.Env) {
			m.mu.Lock()
			delete(m.inuse, env)
			m.mu.Unlock()
		},
		Access: func(s *sched.S, tid int, g *fast.IrGlobals, write, locked bool) {
			if !locked {
				m.violate("lockset: thread %s touches the goroutine registry (write=%v) without the lock", s.ThreadName(tid), write)
			}
		},
	}
}

// ---- one execution ---------------------------------------------------------------------------

type c33Case struct {
	Steps    []c33Step `json:"steps"`
	Schedule []int     `json:"schedule"`
}

type c33Outcome struct {
	x       *sched.Execution
	viol    []string
	results string
	reused  int
}

var c33OnViol func(steps []c33Step, msg string, schedule []int)

func c33Exec(steps []c33Step, prefix []int) c33Outcome {
	m := newC33Model()
	if c33OnViol != nil {
		m.onViol = func(msg string, schedule []int) { c33OnViol(steps, msg, schedule) }
	}
	sched.Install(m.callbacks())
	src := c33Source(steps)
	var panicked interface{}
	x := sched.RunOnce(m, prefix, 400, func(s *sched.S) {
		m.mu.Lock()
		m.s = s
		m.mu.Unlock()
		ir := twin.NewFast() // created inside thread "0": its record is registered under thread 0's virtual identity
		ir.DeclFunc("R", func(k int, v int) {
			m.mu.Lock()
			m.results = append(m.results, fmt.Sprintf("%d=%d", k, v))
			m.mu.Unlock()
		})
		ir.DeclFunc("Pan", func(e interface{}) { m.violate("thread panicked: thread %s: %v", s.Name(), e) })
		ir.DeclFunc("Join", func() { s.Point(sched.Op{Kind: "join"}) })
		ir.DeclFunc("CallFrom", func(k int, f func() int) {
			s.Go(func() {
				defer func() {
					if e := recover(); e != nil {
						m.violate("thread panicked: foreign thread %s: %v", s.Name(), e)
					}
				}()
				v := f()
				m.mu.Lock()
				m.results = append(m.results, fmt.Sprintf("%d=%d", k, v))
				m.mu.Unlock()
			})
		})
		panicked = twin.Catch(func() {
			ir.Eval(src)
			ir.Eval("Scenario()")
		})
	})
	m.mu.Lock()
	defer m.mu.Unlock()
	out := c33Outcome{x: x, viol: append([]string{}, m.viol...), reused: m.idReused}
	if panicked != nil {
		out.viol = append(out.viol, fmt.Sprintf("main thread panicked: %v", panicked))
	}
	sort.Strings(m.results)
	out.results = strings.Join(m.results, " ")
	return out
}

func c33Expected(steps []c33Step) string {
	fglob := func(x int) int { return x*2 + 1 }
	mk := func(k int) func() int { return func() int { return k + 1 + fglob(k) } }
	blk := func(k int) int {
		a := k
		b := a + 1
		a = b + fglob(k)
		c := a * 2
		a = c - fglob(b)
		return a
	}
	cl := mk(5)
	stored := mk(7)
	var res []string
	add := func(k, v int) { res = append(res, fmt.Sprintf("%d=%d", k, v)) }
	add(1, fglob(1)+blk(1))
	for _, st := range steps {
		if st.Kind == "go-make-closure" {
			return "" // which closure is stored when it is called depends on the schedule: only invariants are checked
		}
	}
	for i, st := range steps {
		n := 10 * (i + 1)
		switch st.Kind {
		case "go-global", "foreign-global":
			add(n, fglob(n))
		case "go-closure", "foreign-closure":
			add(n, cl())
		case "go-nested":
			add(n+1, fglob(n+1))
			add(n, cl())
		case "go-make-closure":
			add(n, mk(n)())
		case "go-named", "main-block":
			add(n, blk(n))
		case "foreign-stored":
			add(n, stored())
		case "main-call":
			add(n, fglob(n)+cl()+stored())
		}
	}
	add(99, fglob(99)+cl())
	sort.Strings(res)
	return strings.Join(res, " ")
}

func c33Scenarios(maxLen int) [][]c33Step {
	var alpha []c33Step
	for _, k := range c33Kinds {
		alpha = append(alpha, c33Step{k, false}, c33Step{k, true})
	}
	var out [][]c33Step
	var rec func(cur []c33Step)
	rec = func(cur []c33Step) {
		if len(cur) > 0 {
			out = append(out, append([]c33Step{}, cur...))
		}
		if len(cur) == maxLen {
			return
		}
		for _, st := range alpha {
			if len(cur) == 0 && st.Join {
				continue // nothing to join yet
			}
			rec(append(cur, st))
		}
	}
	rec(nil)
	return out
}

func c33Run(c *core.Ctx) {
	c.Rule("scenarios = all scripts of <=L steps of the main thread over 8 step kinds (go statement calling global/closure/nested go/closure-publishing; foreign goroutine calling global/closure/stored closure; main-thread calls) x {join before or not}; " +
		"for each scenario every interleaving of lock acquisitions, thread starts and joins within the preemption bound, x every choice of identity for a new goroutine among {fresh, each identity freed so far}; " +
		"states = scheduling points visited, transitions = scheduling decisions executed on the real code; non-trivial = distinct (scenario, schedule) whose execution switched threads at least once or reused an identity")
	c.Assume("gls.GoID() is constant within a goroutine and injective over live goroutines (checked separately for up to 256 simultaneously live goroutines in this run)",
		"unsynchronised accesses are invisible to the cooperative scheduler except through the lockset hook on the registry map; data races proper are left to -race runs (sampling, not part of the verdict)")
	c33GoIDCheck(c)
	twin.NewFast() // warm-up outside the scheduler: the first interpreter of a process loads export data through `go list`
	maxLen := 2
	bound := 2
	if c.Thorough() {
		maxLen = 3
		bound = 2
	}
	scen := c33Scenarios(maxLen)
	c.Set("scenarios", len(scen))
	c.Set("preemption_bound", bound)
	c.Set("max_script_length", maxLen)
	outcomes := map[string]bool{}
	c33OnViol = func(steps []c33Step, msg string, schedule []int) {
		c.Violation("C33|"+strings.SplitN(msg, ":", 2)[0], fmt.Sprintf("scenario %v after decisions %v: %s", steps, schedule, msg), c33Case{Steps: steps, Schedule: schedule})
	}
	for i, steps := range scen {
		if !c.Mine(i) {
			continue
		}
		if c.Expired() {
			break
		}
		// quick: 1-step scenarios with preemption bound 2, 2-step scenarios with bound 1;
		// thorough: up to 2 steps with bound 2, 3-step scenarios with bound 1
		b := bound
		if len(steps) >= 3 || (c.Quick() && len(steps) >= 2) {
			b = 1
		}
		want := c33Expected(steps)
		first := true
		e := &sched.Explorer{Bound: b, Stop: c.Expired}
		e.Run = func(prefix []int) *sched.Execution { return nil }
		var lastOut c33Outcome
		e.Run = func(prefix []int) *sched.Execution {
			lastOut = c33Exec(steps, prefix)
			if first {
				// determinism proof: the very same schedule must replay identically
				first = false
				again := c33Exec(steps, lastOut.x.Choices)
				if fmt.Sprint(again.x.Choices) != fmt.Sprint(lastOut.x.Choices) || again.results != lastOut.results || again.x.Diverged != "" {
					panic(fmt.Sprintf("HARNESS: schedule replay is not deterministic for %v: %v / %v", steps, lastOut.x, again.x))
				}
			}
			return lastOut.x
		}
		e.Check = func(x *sched.Execution) {
			o := lastOut
			c.Eval(1)
			c.Transitions(len(x.Points))
			c.States(len(x.Points) + 1)
			cas := c33Case{Steps: steps, Schedule: x.Choices}
			switches := 0
			for _, p := range x.Points {
				if p.RunningEnabled && p.Chosen != p.RunningIdx {
					switches++
				}
			}
			if switches > 0 || o.reused > 0 {
				c.Nontrivial(fmt.Sprint(steps, x.Choices))
			}
			outcomes[o.results] = true
			if x.Diverged != "" || x.Stuck != "" {
				c.Violation("C33|stuck-or-diverged", fmt.Sprintf("scenario %v schedule %v: %s %s", steps, x.Choices, x.Stuck, x.Diverged), cas)
				return
			}
			if x.Deadlock {
				c.Violation("C33|deadlock", fmt.Sprintf("scenario %v schedule %v: deadlock, blocked %v", steps, x.Choices, x.Blocked), cas)
			}
			for _, v := range o.viol {
				sig := "C33|" + strings.SplitN(v, ":", 2)[0]
				c.Violation(sig, fmt.Sprintf("scenario %v schedule %v: %s", steps, x.Choices, v), cas)
			}
			if want != "" && o.results != want && !x.Deadlock {
				c.Violation("C33|results", fmt.Sprintf("scenario %v schedule %v: results %q, sequential expectation %q", steps, x.Choices, o.results, want), cas)
			}
			if c.WantSample() && switches > 0 {
				var labels []string
				for _, p := range x.Points {
					labels = append(labels, p.Enabled[p.Chosen])
				}
				c.Sample(map[string]interface{}{"scenario": steps, "schedule": labels, "results": o.results})
			}
		}
		e.Explore(nil)
		c.Traces(e.Executions)
		if e.Capped {
			c.Cap("deadline reached inside scenario")
		}
	}
	c.Count("distinct_result_sets", len(outcomes))
}

// c33GoIDCheck: the identity seam itself. For n simultaneously live goroutines the identity is stable
// within each goroutine (before/after Gosched and LockOSThread migration) and pairwise distinct.
func c33GoIDCheck(c *core.Ctx) {
	if c.Shard != 0 {
		return
	}
	for _, n := range []int{1, 2, 3, 8, 64, 256} {
		ids := make([][3]uintptr, n)
		var wg, ready sync.WaitGroup
		release := make(chan struct{})
		wg.Add(n)
		ready.Add(n)
		for i := 0; i < n; i++ {
			go func(i int) {
				defer wg.Done()
				ids[i][0] = gls.GoID()
				time.Sleep(0)
				ids[i][1] = gls.GoID()
				ready.Done()
				<-release // all n goroutines are alive at the same time here
				ids[i][2] = gls.GoID()
			}(i)
		}
		ready.Wait()
		close(release)
		wg.Wait()
		seen := map[uintptr]int{}
		for i, t := range ids {
			if t[0] != t[1] || t[1] != t[2] {
				c.Violation("C33|goid-unstable", fmt.Sprintf("goroutine %d of %d observed identities %v", i, n, t), nil)
			}
			if j, dup := seen[t[0]]; dup {
				c.Violation("C33|goid-shared", fmt.Sprintf("live goroutines %d and %d of %d share identity %d", j, i, n, t[0]), nil)
			}
			seen[t[0]] = i
		}
		c.Eval(n)
	}
}

func c33Replay(c *core.Ctx, raw json.RawMessage) {
	var cas c33Case
	if err := json.Unmarshal(raw, &cas); err != nil || cas.Steps == nil {
		fmt.Println("nothing to replay")
		return
	}
	o := c33Exec(cas.Steps, cas.Schedule)
	for _, p := range o.x.Points {
		fmt.Println("  ", p.Enabled[p.Chosen], "   enabled:", p.Enabled)
	}
	fmt.Println("results:", o.results, "deadlock:", o.x.Deadlock, o.x.Stuck, o.x.Diverged)
	for _, v := range o.viol {
		c.Violation("C33|"+strings.SplitN(v, ":", 2)[0], v, cas)
	}
	if want := c33Expected(cas.Steps); want != "" && want != o.results {
		c.Violation("C33|results", fmt.Sprintf("results %q want %q", o.results, want), cas)
	}
	if o.x.Deadlock {
		c.Violation("C33|deadlock", fmt.Sprint(o.x.Blocked), cas)
	}
}
