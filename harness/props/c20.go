package props

// C20 — macro expansion rewrites exactly the macro calls and leaves other code unchanged.
//
// Macro-free part (this file): the complete top-level node list of every corpus file (forked
// parser) goes through MacroExpandCodewalk exactly as Comp.Parse / Env.Parse do (as one NodeSlice), in
// the fast and in the classic interpreter; so do the macro-free gomacro extension snippets of C22.
// Oracle: nothing may be reported as expanded, the input tree must not be modified, and the output
// must be structurally identical to the input *modulo the documented meaning-preserving unwrapping*,
// modelled independently of ast2/base by the normal form n20 below, applied to both sides:
//
//   n20  * ParenExpr is transparent (the tree shape carries the grouping)
//        * a BlockStmt in a statement position with exactly one statement that is not a declaration,
//          a ":=" definition (possibly labeled) is that statement; with no statement it is an empty statement
//        * a BlockStmt element of a statement list that declares nothing (no DeclStmt / ":=" directly
//          inside) is its statements; EmptyStmt elements of statement lists are dropped
//        * a block position (function / loop / if / switch body, quote body) holding exactly one BlockStmt holds that block
//        * a block-in-expression (gomacro extension, UnaryExpr MACRO over a closure) with a single expression
//          statement is that expression
//        * at the root: ExprStmt and DeclStmt wrappers are dropped (the parser's top level does the same)
//      Everything else (every token, flag, name, literal, child, list length) is compared; positions are not
//      (except the three flag positions, by validity).
//
// The macro part is in c20_macro.go.

import (
	"encoding/json"
	"fmt"
	"go/ast"
	"go/token"
	"reflect"

	"github.com/cosmos72/gomacro/ast2"
	"github.com/cosmos72/gomacro/classic"
	"github.com/cosmos72/gomacro/fast"
	"github.com/cosmos72/gomacro/go/etoken"

	"verif/harness/core"
	"verif/harness/twin"
)

func init() {
	core.Register(&core.Check{ID: "C20", Level: "exploration", Workers: -1, Run: c20Run, Replay: c20Replay})
}

var (
	rtExpr      = reflect.TypeOf((*ast.Expr)(nil)).Elem()
	rtStmt      = reflect.TypeOf((*ast.Stmt)(nil)).Elem()
	rtBlockStmt = reflect.TypeOf((*ast.BlockStmt)(nil))
	rtStmtList  = reflect.TypeOf([]ast.Stmt(nil))
)

// ---------------------------------------------------------------------------------------------
// normal form

func n20ScopeSignificant(list []ast.Stmt) bool {
	for _, s := range list {
		for {
			// a label does not open a scope: look at the labeled statement
			l, ok := s.(*ast.LabeledStmt)
			if !ok {
				break
			}
			s = l.Stmt
		}
		switch x := s.(type) {
		case *ast.DeclStmt:
			return true
		case *ast.AssignStmt:
			if x.Tok == token.DEFINE {
				return true
			}
		}
	}
	return false
}

func n20Expr(e ast.Expr) ast.Expr {
	if isNilNode(e) {
		return nil
	}
	e = stripParens(e).(ast.Expr)
	if u, ok := e.(*ast.UnaryExpr); ok && u.Op == etoken.MACRO {
		if fl, ok := u.X.(*ast.FuncLit); ok && fl.Body != nil {
			list := n20StmtList(fl.Body.List)
			if len(list) == 1 {
				if es, ok := list[0].(*ast.ExprStmt); ok {
					return es.X
				}
			}
			if len(list) == 0 {
				return &ast.Ident{Name: "nil"}
			}
			return &ast.UnaryExpr{Op: etoken.MACRO, X: &ast.FuncLit{Type: &ast.FuncType{Params: &ast.FieldList{}}, Body: &ast.BlockStmt{List: list}}}
		}
	}
	return n20Node(e).(ast.Expr)
}

func n20Stmt(s ast.Stmt) ast.Stmt {
	if isNilNode(s) {
		return nil
	}
	switch x := s.(type) {
	case *ast.BlockStmt:
		list := n20StmtList(x.List)
		if n20ScopeSignificant(list) {
			return &ast.BlockStmt{List: list}
		}
		switch len(list) {
		case 0:
			return &ast.EmptyStmt{}
		case 1:
			return list[0]
		}
		return &ast.BlockStmt{List: list}
	case *ast.ExprStmt:
		e := n20Expr(x.X)
		return &ast.ExprStmt{X: e}
	case *ast.EmptyStmt:
		return &ast.EmptyStmt{}
	}
	return n20Node(s).(ast.Stmt)
}

func n20StmtList(list []ast.Stmt) []ast.Stmt {
	out := make([]ast.Stmt, 0, len(list))
	for _, s := range list {
		t := n20Stmt(s)
		switch x := t.(type) {
		case nil:
			continue
		case *ast.EmptyStmt:
			continue
		case *ast.BlockStmt:
			if !n20ScopeSignificant(x.List) {
				out = append(out, x.List...)
				continue
			}
		}
		out = append(out, t)
	}
	return out
}

func n20BlockSlot(b *ast.BlockStmt) *ast.BlockStmt {
	if b == nil {
		return nil
	}
	list := n20StmtList(b.List)
	if len(list) == 1 {
		if inner, ok := list[0].(*ast.BlockStmt); ok {
			return inner
		}
	}
	return &ast.BlockStmt{List: list}
}

// n20Node rebuilds n with every child normalised according to the kind of slot it sits in.
func n20Node(n ast.Node) ast.Node {
	if isNilNode(n) {
		return nil
	}
	v := reflect.ValueOf(n).Elem()
	p := astPlanOf(v.Type())
	out := reflect.New(v.Type())
	o := out.Elem()
	for _, af := range p.Fields {
		f := v.Field(af.Idx)
		switch af.Kind {
		case fkIgnore, fkPos:
			if af.Kind == fkPos && af.Flag {
				o.Field(af.Idx).Set(f)
			}
		case fkNode:
			c := rvNode(f)
			if c == nil {
				continue
			}
			var r ast.Node
			switch f.Type() {
			case rtExpr:
				r = n20Expr(c.(ast.Expr))
			case rtStmt:
				r = n20Stmt(c.(ast.Stmt))
			case rtBlockStmt:
				r = n20BlockSlot(c.(*ast.BlockStmt))
			default:
				r = n20Node(c)
			}
			if !isNilNode(r) {
				o.Field(af.Idx).Set(reflect.ValueOf(r))
			}
		case fkSlice:
			if f.Len() == 0 {
				continue
			}
			if f.Type() == rtStmtList {
				o.Field(af.Idx).Set(reflect.ValueOf(n20StmtList(f.Interface().([]ast.Stmt))))
				continue
			}
			s := reflect.MakeSlice(f.Type(), f.Len(), f.Len())
			for i, k := 0, f.Len(); i < k; i++ {
				c := rvNode(f.Index(i))
				if c == nil {
					continue
				}
				var r ast.Node
				if f.Type().Elem() == rtExpr {
					r = n20Expr(c.(ast.Expr))
				} else {
					r = n20Node(c)
				}
				if !isNilNode(r) {
					s.Index(i).Set(reflect.ValueOf(r))
				}
			}
			o.Field(af.Idx).Set(s)
		default:
			o.Field(af.Idx).Set(f)
		}
	}
	return out.Interface().(ast.Node)
}

// n20Root normalises a whole form.
func n20Root(n ast.Node) ast.Node {
	if isNilNode(n) {
		return nil
	}
	var r ast.Node
	switch x := n.(type) {
	case ast.Stmt:
		r = n20Stmt(x)
	case ast.Expr:
		r = n20Expr(x)
	default:
		r = n20Node(n)
	}
	for {
		switch x := r.(type) {
		case *ast.ExprStmt:
			r = x.X
			continue
		case *ast.DeclStmt:
			r = x.Decl
			continue
		}
		return r
	}
}

// n20RootList normalises a top-level node list (what the parser returns / what a NodeSlice holds).
func n20RootList(nodes []ast.Node) []ast.Node {
	var out []ast.Node
	for _, n := range nodes {
		r := n20Root(n)
		switch x := r.(type) {
		case nil:
			continue
		case *ast.EmptyStmt:
			continue
		case *ast.BlockStmt:
			if !n20ScopeSignificant(x.List) {
				for _, s := range x.List {
					out = append(out, n20Root(s))
				}
				continue
			}
		}
		out = append(out, r)
	}
	return out
}

var c20Eq = &eqOpts{Pos: posFlags}

// ---------------------------------------------------------------------------------------------
// engines

type c20Engine struct {
	name   string
	expand func(in ast2.Ast) (out ast2.Ast, expanded bool)
	eval   func(src string)
	// parse is the interpreter's own "parse without macro expansion" step (nil: the node list as a NodeSlice, as Comp.Parse does)
	parse func(src string) ast2.Ast
}

type c20World struct {
	fast    *twin.Interp
	classic *classic.Interp
	engines []c20Engine
}

func newC20World() *c20World {
	w := &c20World{}
	w.fast = twin.NewFast()
	w.classic = classic.New()
	w.classic.Globals.Stdout = &w.fast.Out
	w.classic.Globals.Stderr = &w.fast.Out
	w.engines = []c20Engine{
		{"fast", func(in ast2.Ast) (ast2.Ast, bool) { return w.fast.Comp.MacroExpandCodewalk(in) }, func(src string) { w.fast.Eval(src) }, nil},
		{"classic", func(in ast2.Ast) (ast2.Ast, bool) { return w.classic.MacroExpandAstCodewalk(in) }, func(src string) { w.classic.Eval(src) },
			func(src string) ast2.Ast { return w.classic.ParseOnly(src) }},
	}
	return w
}

// astNodesOf flattens the result of a codewalk over a NodeSlice into a node list.
func astNodesOf(a ast2.Ast) (nodes []ast.Node, problem string) {
	if a == nil {
		return nil, ""
	}
	switch x := a.(type) {
	case ast2.NodeSlice:
		return x.X, ""
	case ast2.AstWithNode:
		return []ast.Node{x.Node()}, ""
	case ast2.AstWithSlice:
		for i, n := 0, x.Size(); i < n; i++ {
			if e := x.Get(i); e != nil {
				if wn, ok := e.(ast2.AstWithNode); ok {
					nodes = append(nodes, wn.Node())
				} else {
					return nodes, fmt.Sprintf("element %d is %T, not a node", i, e)
				}
			}
		}
		return nodes, ""
	}
	return nil, fmt.Sprintf("result is %T", a)
}

type c20Case struct {
	Part   string `json:"part"` // "corpus" | "extension" | "macro"
	File   string `json:"file,omitempty"`
	Src    string `json:"src,omitempty"`
	Index  int    `json:"index"`
	Engine string `json:"engine"`
}

// c20MacroFree checks one macro-free node list on every engine. Returns the fast engine's output (for C25).
func c20MacroFree(c *core.Ctx, w *c20World, nodes []ast.Node, cas c20Case, sigPrefix string) []ast.Node {
	var fastOut []ast.Node
	clones := make([]ast.Node, len(nodes))
	for i, n := range nodes {
		clones[i] = astClone(n)
	}
	want := n20RootList(nodes)
	for _, e := range w.engines {
		cas.Engine = e.name
		var out ast2.Ast
		var expanded bool
		in := ast2.NodeSlice{X: nodes}
		if p := core.Catch(func() { out, expanded = e.expand(in) }); p != nil {
			c.Violation(sigPrefix+"|"+e.name+"|panics", fmt.Sprintf("%s%s: MacroExpandCodewalk (%s) panics on macro-free code: %v", cas.File, cas.Src, e.name, p), cas)
			continue
		}
		c.Eval(1)
		if expanded {
			c.Violation(sigPrefix+"|"+e.name+"|reports-expansion", fmt.Sprintf("%s%s: MacroExpandCodewalk (%s) reports an expansion in macro-free code", cas.File, cas.Src, e.name), cas)
		}
		outNodes, problem := astNodesOf(out)
		if problem != "" {
			c.Violation(sigPrefix+"|"+e.name+"|result-shape", fmt.Sprintf("%s%s: %s", cas.File, cas.Src, problem), cas)
			continue
		}
		if e.name == "fast" {
			fastOut = outNodes
		}
		got := n20RootList(outNodes)
		if len(got) != len(want) {
			c.Violation(sigPrefix+"|"+e.name+"|node-count", fmt.Sprintf("%s%s: %d top-level nodes in, %d out (%s)", cas.File, cas.Src, len(want), len(got), e.name), cas)
			continue
		}
		for i := range want {
			if d := astDiff(want[i], got[i], c20Eq); d != "" {
				cas.Index = i
				c.Violation(sigPrefix+"|"+e.name+"|changed|"+c25Class(d), fmt.Sprintf("%s%s node %d: macro-free code changed by MacroExpandCodewalk (%s): %s", cas.File, cas.Src, i, e.name, d), cas)
				break
			}
		}
		// the input must be left alone
		for i := range nodes {
			if d := astDiff(clones[i], nodes[i], &eqOpts{Pos: posExact}); d != "" {
				cas.Index = i
				c.Violation(sigPrefix+"|"+e.name+"|input-modified|"+c25Class(d), fmt.Sprintf("%s%s node %d: MacroExpandCodewalk (%s) modified its input: %s", cas.File, cas.Src, i, e.name, d), cas)
				break
			}
		}
	}
	return fastOut
}

func c20Run(c *core.Ctx) {
	c.Rule("macro-free part: the whole top-level node list of every corpus file and every macro-free extension snippet through MacroExpandCodewalk of the fast and of the classic interpreter, compared with the input modulo the normal form n20 (evaluations = files × engines); " +
		"macro part: 20 macros (0..3 parameters × returning {a node, a node list, nothing, a macro call, a quasiquote of the arguments}) + special result kinds, called at every position of statement lists of length 0..4 in every context " +
		"(top level, block, nested block, function body, case body, quote, quasiquote depth 1-2 with/without unquote), too-few-arguments included, compared with a reference expander on []ast.Node; " +
		"non-trivial = distinct macro programs whose reference expansion differs from the input + distinct corpus files whose output is not pointer-identical to the input")
	c.Assume("files with type parameters / rejected by go/parser / on which the forked parser fails (C24) are skipped and counted",
		"a BlockStmt returned by a macro is a node list (its statements are inserted): this is how gomacro's own macros return several statements; blocks returned by the test macros declare nothing",
		"macro names are only used in statement lists (the documented call syntax)")
	w := newC20World()
	paths := corpusPaths(c)
	c.Set("corpus_files_selected", len(paths))
	for i, p := range paths {
		if !c.Mine(i) {
			continue
		}
		if c.Expired() {
			return
		}
		pf := loadCorpusFile(p)
		c.Count("files_"+pf.Status, 1)
		if pf.Status != stOK {
			continue
		}
		before := len(pf.Nodes)
		out := c20MacroFree(c, w, pf.Nodes, c20Case{Part: "corpus", File: pf.Path}, "C20|macro-free")
		c.Count("macrofree_files", 1)
		c.Count("macrofree_toplevel_nodes", before)
		changed := false
		for j := range out {
			if j < len(pf.Nodes) && out[j] != pf.Nodes[j] {
				changed = true
			}
		}
		if changed {
			c.Nontrivial("file|" + pf.Path)
		}
		if c.WantSample() && i%60 == 11 {
			c.Sample(map[string]interface{}{"file": pf.Path, "toplevel_nodes": before})
		}
	}
	// extension snippets without macro calls
	for i, src := range c20MacroFreeExtensionSources() {
		if !c.Mine(i) {
			continue
		}
		_, nodes, err, panicked := forkParse("ext.go", []byte(src), 0)
		if err != nil || panicked != nil {
			panic(fmt.Sprintf("C20 generator error: %q: %v %v", src, err, panicked))
		}
		c20MacroFree(c, w, nodes, c20Case{Part: "extension", Src: src}, "C20|macro-free-ext")
		c.Count("macrofree_extension_snippets", 1)
	}
	c20MacroPart(c, w)
}

// c20MacroFreeExtensionSources: the C22 extension snippets that contain no macro call.
func c20MacroFreeExtensionSources() []string {
	var out []string
	for _, s := range c22ExtensionSources() {
		if s == "m2; 1; 2" || s == "{m2; 1; {m2; 2; 3}}" {
			continue
		}
		out = append(out, s)
	}
	return out
}

func c20Replay(c *core.Ctx, raw json.RawMessage) {
	var cas c20Case
	if err := json.Unmarshal(raw, &cas); err != nil {
		// macro part cases have their own type
		c20ReplayMacro(c, raw)
		return
	}
	w := newC20World()
	switch cas.Part {
	case "corpus":
		pf := loadCorpusFile(cas.File)
		if pf.Status == stOK {
			c20MacroFree(c, w, pf.Nodes, c20Case{Part: "corpus", File: pf.Path}, "C20|macro-free")
		}
	case "extension":
		_, nodes, _, _ := forkParse("ext.go", []byte(cas.Src), 0)
		c20MacroFree(c, w, nodes, c20Case{Part: "extension", Src: cas.Src}, "C20|macro-free-ext")
	default:
		c20ReplayMacro(c, raw)
	}
}

var _ = fast.New
