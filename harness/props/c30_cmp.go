package props

// C30 — lock-step comparator between a std *go/types.Package (the oracle: the very package that was
// handed to the converter, or an equal one loaded by an independent importer instance) and the
// forked *types.Package produced by gomacro's Converter / xreflect.Importer.

import (
	"fmt"
	"go/constant"
	"go/token"
	"go/types"
	"os"
	"sort"
	"strings"

	ftypes "github.com/cosmos72/gomacro/go/types"

	"verif/harness/core"
)

// ---------------------------------------------------------------------------
// std side helpers

// c30Generic reports whether the *visible* part of t (everything TypeString prints: named types are
// not entered) mentions a type parameter, an instantiated or generic named type, a union, `comparable`
// or a constraint interface. Such types cannot be represented in the pre-generics fork.
func c30Generic(t types.Type) bool {
	switch t := types.Unalias(t).(type) {
	case nil:
		return false
	case *types.Basic:
		return false
	case *types.TypeParam, *types.Union:
		return true
	case *types.Named:
		if t.TypeArgs().Len() > 0 || t.TypeParams().Len() > 0 {
			return true
		}
		return t.Obj().Pkg() == nil && t.Obj().Name() == "comparable"
	case *types.Pointer:
		return c30Generic(t.Elem())
	case *types.Slice:
		return c30Generic(t.Elem())
	case *types.Array:
		return c30Generic(t.Elem())
	case *types.Chan:
		return c30Generic(t.Elem())
	case *types.Map:
		return c30Generic(t.Key()) || c30Generic(t.Elem())
	case *types.Tuple:
		for i := 0; i < t.Len(); i++ {
			if c30Generic(t.At(i).Type()) {
				return true
			}
		}
		return false
	case *types.Signature:
		if t.TypeParams().Len() > 0 || t.RecvTypeParams().Len() > 0 {
			return true
		}
		return c30Generic(t.Params()) || c30Generic(t.Results())
	case *types.Struct:
		for i := 0; i < t.NumFields(); i++ {
			if c30Generic(t.Field(i).Type()) {
				return true
			}
		}
		return false
	case *types.Interface:
		if !t.IsMethodSet() {
			return true
		}
		for i := 0; i < t.NumExplicitMethods(); i++ {
			if c30Generic(t.ExplicitMethod(i).Type()) {
				return true
			}
		}
		for i := 0; i < t.NumEmbeddeds(); i++ {
			if c30Generic(t.EmbeddedType(i)) {
				return true
			}
		}
		return false
	}
	return true // unknown future type node: treat as not representable
}

// c30ObjGeneric classifies an object of a package scope: "" = in the domain, otherwise the reason it is excluded.
func c30ObjGeneric(o types.Object) string {
	switch o := o.(type) {
	case *types.Builtin:
		return "builtin"
	case *types.TypeName:
		if o.IsAlias() {
			if c30Generic(o.Type()) {
				return "alias-of-generic"
			}
			return ""
		}
		n, _ := o.Type().(*types.Named)
		if n == nil {
			return "" // unsafe.Pointer
		}
		if n.TypeParams().Len() > 0 {
			return "generic-type"
		}
		if it, ok := n.Underlying().(*types.Interface); ok && !it.IsMethodSet() {
			return "constraint-interface"
		}
		// a defined type whose underlying type visibly mentions generics (e.g. type X []atomic.Pointer[T])
		// stays in the domain: the walk stops at the instantiated node.
		return ""
	case *types.Func:
		if c30Generic(o.Type()) {
			return "generic-func-or-signature"
		}
	case *types.Var:
		if c30Generic(o.Type()) {
			return "var-of-generic-type"
		}
	case *types.Const:
		if c30Generic(o.Type()) {
			return "const-of-generic-type"
		}
	}
	return ""
}

// ---------------------------------------------------------------------------
// the comparator

type c30Case struct {
	Root     string `json:"root"` // package whose scenario was running (differs from Pkg when an import of it is checked)
	Tier     string `json:"tier"`
	Pkg      string `json:"pkg"`
	Object   string `json:"object"`
	Scenario string `json:"scenario"`
	Mode     string `json:"generics_mode"`
	Kind     string `json:"kind"`
	Path     string `json:"path"`
	Expected string `json:"expected"`
	Actual   string `json:"actual"`
}

type c30NamedPair struct {
	g    *types.Named
	f    *ftypes.Named
	path string
}

// c30Cmp keeps the std→fork identity maps of ONE converter (they must stay valid for the whole life
// of the converter, across Package calls) and walks objects in lock-step.
type c30Cmp struct {
	c        *core.Ctx
	root     string // package whose scenarios are running
	pkg      string // package under check
	onlyKind string // replay: report only this kind of violation
	scenario string
	mode     string
	only     string // replay: report only violations of this object ("" = all)
	evidence bool   // count evidence (only the primary scenario does, so that counts are not multiplied)

	named  map[*types.Named]*ftypes.Named
	rnamed map[*ftypes.Named]*types.Named
	pkgs   map[string]*ftypes.Package // path -> fork package object (one per path per converter)
	walked map[*types.Named]bool      // queued for deep comparison in the current pass
	deep   map[*types.Named]int       // 1 = deep comparison in progress, 2 = done (current pass)
	bad    map[*types.Named]bool      // deep comparison reported a mismatch (current pass)
	queue  []c30NamedPair

	dead       bool   // a panic escaped Converter.Package: the converter is unusable, reported once
	incomplete int    // incomplete interfaces found (follow-up mismatches of the same defined type are not reported)
	object     string // top-level object being compared
	nfail      int    // mismatches reported for the current object
	dump       []string
	fails      int // total mismatches reported by this comparator
}

func newC30Cmp(c *core.Ctx, pkg, scenario, mode string) *c30Cmp {
	return &c30Cmp{c: c, root: pkg, pkg: pkg, scenario: scenario, mode: mode,
		named: map[*types.Named]*ftypes.Named{}, rnamed: map[*ftypes.Named]*types.Named{},
		pkgs: map[string]*ftypes.Package{}, walked: map[*types.Named]bool{}, deep: map[*types.Named]int{}, bad: map[*types.Named]bool{}}
}

// newPass forgets which named types were deep-compared (identity maps are kept).
func (m *c30Cmp) newPass(scenario string) {
	m.scenario = scenario
	m.walked = map[*types.Named]bool{}
	m.deep = map[*types.Named]int{}
	m.bad = map[*types.Named]bool{}
	m.dump = nil
}

func (m *c30Cmp) count(k string, n int) {
	if m.evidence {
		m.c.Count(k, n)
	}
}

// fail reports one mismatch. sigDetail is the narrow class detail (kept small: kinds, never names,
// except where the defect is specific to one object).
func (m *c30Cmp) fail(kind, sigDetail, path, exp, act string) {
	m.nfail++
	m.fails++
	if (m.only != "" && m.only != m.object) || (m.onlyKind != "" && m.onlyKind != kind) {
		return
	}
	sig := "C30|" + kind
	if sigDetail != "" {
		sig += "|" + sigDetail
	}
	if f := os.Getenv("C30_SIGS"); f != "" { // debugging aid: log every signature (the framework keeps only a few violations)
		if fh, err := os.OpenFile(f, os.O_APPEND|os.O_CREATE|os.O_WRONLY, 0o644); err == nil {
			fmt.Fprintf(fh, "%s\t%s\t%s\t%s\n", sig, m.scenario, m.pkg, path)
			fh.Close()
		}
	}
	what := fmt.Sprintf("%s [%s, generics=%s] %s: %s: expected %s, converted package has %s", m.pkg, m.scenario, m.mode, path, kind, exp, act)
	m.c.Violation(sig, what, c30Case{Root: m.root, Tier: m.c.Tier, Pkg: m.pkg, Object: m.object, Scenario: m.scenario, Mode: m.mode, Kind: kind, Path: path, Expected: exp, Actual: act})
}

func c30Kind(t types.Type) string {
	switch t := types.Unalias(t).(type) {
	case nil:
		return "nil"
	case *types.Basic:
		return "basic"
	case *types.Array:
		return "array"
	case *types.Slice:
		return "slice"
	case *types.Struct:
		return "struct"
	case *types.Pointer:
		return "pointer"
	case *types.Tuple:
		return "tuple"
	case *types.Signature:
		return "func"
	case *types.Interface:
		return "interface"
	case *types.Map:
		return "map"
	case *types.Chan:
		return "chan"
	case *types.Named:
		return "named"
	default:
		return fmt.Sprintf("%T", t)
	}
}

func c30ForkKind(t ftypes.Type) string {
	switch t.(type) {
	case nil:
		return "nil"
	case *ftypes.Basic:
		return "basic"
	case *ftypes.Array:
		return "array"
	case *ftypes.Slice:
		return "slice"
	case *ftypes.Struct:
		return "struct"
	case *ftypes.Pointer:
		return "pointer"
	case *ftypes.Tuple:
		return "tuple"
	case *ftypes.Signature:
		return "func"
	case *ftypes.Interface:
		return "interface"
	case *ftypes.Map:
		return "map"
	case *ftypes.Chan:
		return "chan"
	case *ftypes.Named:
		return "named"
	default:
		return fmt.Sprintf("%T", t)
	}
}

// pkgSame checks that the fork package of an object corresponds to the std one and that one fork
// *Package object stands for one path (sharing).
func (m *c30Cmp) pkgSame(g *types.Package, f *ftypes.Package, path string) bool {
	if g == nil || f == nil {
		if g == nil && f == nil {
			return true
		}
		gs, fs := "<nil>", "<nil>"
		if g != nil {
			gs = g.Path()
		}
		if f != nil {
			fs = f.Path()
		}
		m.fail("object-package", "nil-vs-nonnil", path, "package "+gs, "package "+fs)
		return false
	}
	if g.Path() != f.Path() || g.Name() != f.Name() {
		m.fail("object-package", "path-or-name", path, fmt.Sprintf("package %q (name %s)", g.Path(), g.Name()), fmt.Sprintf("package %q (name %s)", f.Path(), f.Name()))
		return false
	}
	if prev, ok := m.pkgs[g.Path()]; ok {
		if prev != f {
			m.fail("package-identity", "two-fork-packages-for-one-path", path, fmt.Sprintf("one *Package for %q", g.Path()), "two distinct *Package objects")
			return false
		}
	} else {
		m.pkgs[g.Path()] = f
	}
	return true
}

// typ compares std type g with fork type f in lock-step. It returns false after reporting the first
// mismatch of the subtree.
func (m *c30Cmp) typ(g types.Type, f ftypes.Type, path string) bool {
	g = types.Unalias(g)
	if g == nil || f == nil {
		if g == nil && f == nil {
			return true
		}
		m.fail("type-nil", c30Kind(g)+"-vs-"+c30ForkKind(f), path, c30Kind(g), c30ForkKind(f))
		return false
	}
	// generic nodes are outside the domain: stop here
	switch gt := g.(type) {
	case *types.TypeParam, *types.Union:
		m.count("generic_nodes_skipped", 1)
		return true
	case *types.Named:
		if gt.TypeArgs().Len() > 0 || gt.TypeParams().Len() > 0 || (gt.Obj().Pkg() == nil && gt.Obj().Name() == "comparable") {
			m.count("generic_nodes_skipped", 1)
			return true
		}
	case *types.Interface:
		if !gt.IsMethodSet() {
			m.count("generic_nodes_skipped", 1)
			return true
		}
	}
	if gk, fk := c30Kind(g), c30ForkKind(f); gk != fk {
		m.fail("type-kind", gk+"-vs-"+fk, path, gk+" "+c30StdString(g), fk+" "+c30ForkString(f))
		return false
	}
	switch g := g.(type) {
	case *types.Basic:
		f := f.(*ftypes.Basic)
		want := types.Typ[g.Kind()] // byte→uint8, rune→int32: the converter maps by kind
		if int(f.Kind()) != int(want.Kind()) || f.Name() != want.Name() || int(f.Info()) != int(want.Info()) {
			m.fail("basic-kind", want.Name(), path, fmt.Sprintf("%s (kind %d, info %#x)", want.Name(), want.Kind(), int(want.Info())), fmt.Sprintf("%s (kind %d, info %#x)", f.Name(), f.Kind(), int(f.Info())))
			return false
		}
		if f != ftypes.Typ[f.Kind()] {
			m.fail("basic-identity", want.Name(), path, "the canonical Typ["+want.Name()+"]", "another *Basic object")
			return false
		}
		return true
	case *types.Array:
		f := f.(*ftypes.Array)
		if g.Len() != f.Len() {
			m.fail("array-len", "", path, fmt.Sprint(g.Len()), fmt.Sprint(f.Len()))
			return false
		}
		return m.typ(g.Elem(), f.Elem(), path+"/elem")
	case *types.Slice:
		return m.typ(g.Elem(), f.(*ftypes.Slice).Elem(), path+"/elem")
	case *types.Pointer:
		return m.typ(g.Elem(), f.(*ftypes.Pointer).Elem(), path+"/elem")
	case *types.Chan:
		f := f.(*ftypes.Chan)
		gd, fd := c30StdDir(g.Dir()), c30ForkDir(f.Dir())
		if gd != fd {
			m.fail("chan-dir", gd+"-became-"+fd, path, gd, fd)
			return false
		}
		return m.typ(g.Elem(), f.Elem(), path+"/elem")
	case *types.Map:
		f := f.(*ftypes.Map)
		return m.typ(g.Key(), f.Key(), path+"/key") && m.typ(g.Elem(), f.Elem(), path+"/elem")
	case *types.Struct:
		return m.structT(g, f.(*ftypes.Struct), path)
	case *types.Tuple:
		return m.tuple(g, f.(*ftypes.Tuple), path, "tuple")
	case *types.Signature:
		return m.sig(g, f.(*ftypes.Signature), path)
	case *types.Interface:
		return m.iface(g, f.(*ftypes.Interface), path)
	case *types.Named:
		return m.namedT(g, f.(*ftypes.Named), path)
	}
	m.fail("type-unknown", fmt.Sprintf("%T", g), path, fmt.Sprintf("%T", g), fmt.Sprintf("%T", f))
	return false
}

func c30StdDir(d types.ChanDir) string {
	switch d {
	case types.SendRecv:
		return "chan"
	case types.SendOnly:
		return "chan<-"
	case types.RecvOnly:
		return "<-chan"
	}
	return fmt.Sprintf("dir%d", d)
}

func c30ForkDir(d ftypes.ChanDir) string {
	switch d {
	case ftypes.SendRecv:
		return "chan"
	case ftypes.SendOnly:
		return "chan<-"
	case ftypes.RecvOnly:
		return "<-chan"
	}
	return fmt.Sprintf("dir%d", d)
}

func (m *c30Cmp) structT(g *types.Struct, f *ftypes.Struct, path string) bool {
	if g.NumFields() != f.NumFields() {
		m.fail("struct-numfields", "", path, fmt.Sprint(g.NumFields()), fmt.Sprint(f.NumFields()))
		return false
	}
	ok := true
	for i := 0; i < g.NumFields(); i++ {
		gf, ff := g.Field(i), f.Field(i)
		p := fmt.Sprintf("%s/field[%d]%s", path, i, gf.Name())
		m.count("fields_compared", 1)
		if gf.Name() != ff.Name() {
			m.fail("field-name", "", p, gf.Name(), ff.Name())
			return false
		}
		if gf.Embedded() != ff.Embedded() || gf.Anonymous() != ff.Anonymous() {
			m.fail("field-embedded", fmt.Sprintf("%v-became-%v", gf.Embedded(), ff.Embedded()), p, fmt.Sprintf("embedded=%v", gf.Embedded()), fmt.Sprintf("embedded=%v", ff.Embedded()))
			ok = false
		}
		if !ff.IsField() {
			m.fail("field-isfield", "", p, "IsField()=true", "false")
			ok = false
		}
		if gf.Exported() != ff.Exported() || gf.Id() != ff.Id() {
			m.fail("field-id", "", p, gf.Id(), ff.Id())
			ok = false
		}
		if !m.pkgSame(gf.Pkg(), ff.Pkg(), p) {
			ok = false
		}
		if g.Tag(i) != f.Tag(i) {
			m.fail("field-tag", "", p, fmt.Sprintf("%q", g.Tag(i)), fmt.Sprintf("%q", f.Tag(i)))
			ok = false
		}
		if !m.typ(gf.Type(), ff.Type(), p) {
			ok = false
		}
	}
	return ok
}

func (m *c30Cmp) tuple(g *types.Tuple, f *ftypes.Tuple, path, what string) bool {
	if g.Len() != f.Len() {
		m.fail(what+"-len", "", path, fmt.Sprint(g.Len()), fmt.Sprint(f.Len()))
		return false
	}
	ok := true
	for i := 0; i < g.Len(); i++ {
		gv, fv := g.At(i), f.At(i)
		p := fmt.Sprintf("%s/%s[%d]", path, what, i)
		if !m.typ(gv.Type(), fv.Type(), p) {
			ok = false
			continue
		}
		if gv.Name() != fv.Name() {
			m.fail("var-name", what, p, fmt.Sprintf("%s %q", what, gv.Name()), fmt.Sprintf("%q", fv.Name()))
			ok = false
		}
		if fv.IsField() || fv.Embedded() {
			m.fail(what+"-isfield", "", p, "a plain variable", "a field/embedded variable")
			ok = false
		}
	}
	return ok
}

// sig compares params/results/variadic. Receivers are compared by the callers that know what to expect.
func (m *c30Cmp) sig(g *types.Signature, f *ftypes.Signature, path string) bool {
	if g.TypeParams().Len() > 0 || g.RecvTypeParams().Len() > 0 {
		m.count("generic_nodes_skipped", 1)
		return true
	}
	ok := m.tuple(g.Params(), f.Params(), path, "param")
	if !m.tuple(g.Results(), f.Results(), path, "result") {
		ok = false
	}
	if g.Variadic() != f.Variadic() {
		m.fail("sig-variadic", fmt.Sprintf("%v-became-%v", g.Variadic(), f.Variadic()), path, fmt.Sprintf("variadic=%v", g.Variadic()), fmt.Sprintf("variadic=%v", f.Variadic()))
		ok = false
	}
	return ok
}

// recv compares the receiver of a method: named receiver (T or *T) must be the fork's named type;
// for interface methods the receiver is the interface (or its defined type) – the fork sets it lazily,
// only its kind is compared.
func (m *c30Cmp) recv(g *types.Signature, f *ftypes.Signature, path string) bool {
	gr, fr := g.Recv(), f.Recv()
	if gr == nil || fr == nil {
		if gr == nil && fr == nil {
			return true
		}
		m.fail("method-recv", "nil-vs-nonnil", path, fmt.Sprintf("receiver present=%v", gr != nil), fmt.Sprintf("receiver present=%v", fr != nil))
		return false
	}
	if gr.Name() != fr.Name() {
		m.fail("method-recv-name", "", path, fmt.Sprintf("%q", gr.Name()), fmt.Sprintf("%q", fr.Name()))
		return false
	}
	return m.typ(gr.Type(), fr.Type(), path+"/recv")
}

func (m *c30Cmp) iface(g *types.Interface, f *ftypes.Interface, path string) bool {
	ok := true
	if f.NumMethods() == 0 && strings.HasSuffix(c30ForkString(f), "/* incomplete */}") {
		// Interface.Complete() was never called: no method set, Implements/AssignableTo/NewMethodSet see no
		// methods (for the empty interface only the printed form shows it)
		m.incomplete++
		detail := ""
		if g.NumMethods() == 0 {
			detail = "empty-interface"
		}
		m.fail("iface-incomplete", detail, path, fmt.Sprintf("a completed interface with %d methods", g.NumMethods()), c30ForkString(f))
		return false
	}
	// explicit methods, by Id
	gn, fn := g.NumExplicitMethods(), f.NumExplicitMethods()
	gm := map[string]*types.Func{}
	var gids []string
	for i := 0; i < gn; i++ {
		x := g.ExplicitMethod(i)
		gm[x.Id()] = x
		gids = append(gids, x.Id())
	}
	sort.Strings(gids)
	fm := map[string]*ftypes.Func{}
	var feids []string
	for i := 0; i < fn; i++ {
		x := f.ExplicitMethod(i)
		fm[x.Id()] = x
		feids = append(feids, x.Id())
	}
	if !sort.StringsAreSorted(feids) {
		m.fail("iface-explicit-order", "", path, "explicit methods sorted by Id", strings.Join(feids, ","))
		ok = false
	}
	sort.Strings(feids)
	if strings.Join(gids, ",") != strings.Join(feids, ",") {
		m.fail("iface-explicit-methods", "", path, strings.Join(gids, ","), strings.Join(feids, ","))
		return false
	}
	for _, id := range gids {
		p := path + "/imethod " + id
		m.count("iface_methods_compared", 1)
		gs, fs := gm[id].Type().(*types.Signature), fm[id].Type().(*ftypes.Signature)
		if !m.pkgSame(gm[id].Pkg(), fm[id].Pkg(), p) {
			ok = false
		}
		if !m.sig(gs, fs, p) {
			ok = false
		}
		// the converter builds explicit interface methods without receiver; NewInterfaceType fills in
		// an unnamed receiver of the interface type itself.
		if fs.Recv() == nil {
			m.fail("iface-method-recv", "nil", p, "a receiver (the interface)", "nil")
			ok = false
		} else if fs.Recv().Type() != ftypes.Type(f) {
			if n, isNamed := fs.Recv().Type().(*ftypes.Named); !isNamed || n.Underlying() != ftypes.Type(f) {
				m.fail("iface-method-recv", "other-type", p, "receiver = the interface or its defined type", c30ForkString(fs.Recv().Type()))
				ok = false
			}
		}
	}
	// embeddeds, in the fork's canonical order
	ges := c30StdEmbeddeds(g)
	if len(ges) != f.NumEmbeddeds() {
		m.fail("iface-numembeddeds", "", path, fmt.Sprint(len(ges)), fmt.Sprint(f.NumEmbeddeds()))
		return false
	}
	for i, ge := range ges {
		if !m.typ(ge, f.EmbeddedType(i), fmt.Sprintf("%s/embedded[%d]", path, i)) {
			ok = false
		}
	}
	if !ok {
		return false
	}
	// full method set of the interface (requires the fork interface to be completed)
	var gall, fall []string
	gsig := map[string]*types.Func{}
	for i := 0; i < g.NumMethods(); i++ {
		x := g.Method(i)
		gsig[x.Id()] = x
		s := x.Id()
		if !c30Generic(x.Type()) {
			s += c30StdSigShape(x.Type().(*types.Signature))
		}
		gall = append(gall, s)
	}
	var fids []string
	for i := 0; i < f.NumMethods(); i++ {
		x := f.Method(i)
		s := x.Id()
		fids = append(fids, s)
		if gx := gsig[x.Id()]; gx == nil || !c30Generic(gx.Type()) {
			s += c30ForkSigShape(x.Type().(*ftypes.Signature))
		}
		fall = append(fall, s)
	}
	if !sort.StringsAreSorted(fids) {
		m.fail("iface-methods-order", "", path, "methods sorted by Id", strings.Join(fids, ","))
		ok = false
	}
	sort.Strings(gall)
	sort.Strings(fall)
	m.count("iface_msets_compared", 1)
	if strings.Join(gall, "; ") != strings.Join(fall, "; ") {
		detail := ""
		total := g.NumExplicitMethods()
		for i := 0; i < g.NumEmbeddeds(); i++ {
			if it, _ := g.EmbeddedType(i).Underlying().(*types.Interface); it != nil {
				total += it.NumMethods()
			}
		}
		if total > g.NumMethods() && len(fall) == total {
			// embedded interfaces with common methods (legal since go1.14): the fork keeps every copy
			detail = "overlapping-embedded-interfaces-not-merged"
			m.incomplete++ // method set and lookups of the defined type differ as a consequence
		}
		m.fail("iface-methodset", detail, path, "{"+strings.Join(gall, "; ")+"}", "{"+strings.Join(fall, "; ")+"}")
		ok = false
	}
	return ok
}

// namedT checks identity/sharing of a defined type and schedules its deep comparison.
func (m *c30Cmp) namedT(g *types.Named, f *ftypes.Named, path string) bool {
	gname, fname := c30StdString(g), c30ForkString(f)
	if gname != fname {
		m.fail("named-name", "", path, gname, fname)
		return false
	}
	if prev, ok := m.named[g]; ok {
		if prev != f {
			m.fail("named-identity", "one-std-type-two-fork-types", path, "the same *Named for every occurrence of "+gname, "a second, distinct *Named object")
			return false
		}
	} else {
		if other, ok := m.rnamed[f]; ok && other != g {
			m.fail("named-identity", "two-std-types-one-fork-type", path, "distinct *Named for "+c30StdString(other)+" and "+gname, "one shared *Named")
			return false
		}
		m.named[g] = f
		m.rnamed[f] = g
	}
	if !m.walked[g] {
		m.walked[g] = true
		m.queue = append(m.queue, c30NamedPair{g, f, gname})
	}
	return true
}

// drain deep-compares every defined type reached so far.
func (m *c30Cmp) drain() {
	for len(m.queue) > 0 {
		p := m.queue[0]
		m.queue = m.queue[1:]
		m.namedDeep(p.g, p.f, p.path)
	}
}

func (m *c30Cmp) namedDeep(g *types.Named, f *ftypes.Named, path string) {
	if m.deep[g] != 0 {
		return // done, or in progress (embedding cycle through pointers)
	}
	m.deep[g] = 1
	fails0 := m.fails
	defer func() {
		m.deep[g] = 2
		if m.fails > fails0 {
			m.bad[g] = true
		}
	}()
	m.count("named_types_walked", 1)
	m.count("named_types_walked:underlying-"+c30Kind(g.Underlying()), 1)
	// type name object: canonical, in its package scope
	gobj, fobj := g.Obj(), f.Obj()
	if fobj == nil {
		m.fail("named-obj", "nil", path, "a type name", "nil")
		return
	}
	if fobj.Type() != ftypes.Type(f) {
		m.fail("named-obj", "typename-points-elsewhere", path, "Obj().Type() == the named type", c30ForkString(fobj.Type()))
	}
	if !m.pkgSame(gobj.Pkg(), fobj.Pkg(), path) {
		return
	}
	if fp := fobj.Pkg(); fp != nil && gobj.Parent() == gobj.Pkg().Scope() {
		if fp.Scope().Lookup(fobj.Name()) != ftypes.Object(fobj) {
			m.fail("named-obj", "not-in-package-scope", path, "type name registered in the scope of "+fp.Path(), fmt.Sprint(fp.Scope().Lookup(fobj.Name())))
		}
	}
	if fobj.IsAlias() {
		m.fail("named-obj", "typename-is-alias", path, "IsAlias()=false for the declaring type name", "true")
	}
	// underlying
	fu := f.Underlying()
	if fu == nil {
		m.fail("named-underlying", "nil", path, c30Kind(g.Underlying()), "nil (incomplete defined type)")
		return
	}
	if _, isNamed := fu.(*ftypes.Named); isNamed {
		m.fail("named-underlying", "is-named", path, c30Kind(g.Underlying()), "a defined type as underlying type")
		return
	}
	inc0 := m.incomplete
	uok := m.typ(g.Underlying(), fu, path+"/underlying")
	if m.incomplete > inc0 {
		return // reported once; typestring and method set differ as a consequence
	}
	if uok && !c30Generic(g.Underlying()) {
		if gs, fs := c30StdString(g.Underlying()), c30ForkString(fu); gs != fs {
			m.fail("typestring", "underlying-"+c30Kind(g.Underlying()), path+"/underlying", gs, fs)
		} else {
			m.count("typestrings_compared", 1)
		}
	}
	// declared methods
	if !m.declared(g, f, path) {
		m.dumpNamed(f, path)
		return // the method sets differ as a consequence
	}
	// embedded defined types first: if one of them is wrong, the promoted methods are wrong as a consequence
	// (reported once, at the embedded type)
	embeddedBad := false
	for _, e := range c30EmbeddedNamed(g.Underlying()) {
		if fe := m.named[e]; fe != nil {
			m.namedDeep(e, fe, c30StdString(e))
		}
		if m.bad[e] {
			embeddedBad = true
		}
	}
	if embeddedBad {
		m.count("msets_skipped_embedded_type_mismatch", 1)
		m.dumpNamed(f, path)
		return
	}
	// method sets of T and *T: NewMethodSet on both sides, and LookupFieldOrMethod for every method.
	// With GENERICS_V2_CTI the fork's NewMethodSet also merges the predeclared contract methods of the
	// underlying type at the same depth (they collide with declared methods of the same name): that is
	// the contract machinery (property C34), not the conversion, so only the lookups are compared there.
	_, isIface := g.Underlying().(*types.Interface)
	if m.mode != "cti" {
		m.mset(g, f, path, false)
		if !isIface {
			m.mset(g, f, path, true)
		}
	}
	m.lookups(g, f, path)
	m.dumpNamed(f, path)
}

// c30CTIName: with etoken.GENERICS == GENERICS_V2_CTI the fork predeclares "contract" methods on
// defined types whose underlying type is basic/array/chan/map/slice (cti_method.go). They have no package.
func (m *c30Cmp) ctiExtra(f *ftypes.Func) bool {
	return m.mode == "cti" && f.Pkg() == nil
}

func (m *c30Cmp) declared(g *types.Named, f *ftypes.Named, path string) bool {
	gm := map[string]*types.Func{}
	var gids []string
	for i := 0; i < g.NumMethods(); i++ {
		x := g.Method(i)
		gm[x.Id()] = x
		gids = append(gids, x.Id())
	}
	fm := map[string]*ftypes.Func{}
	var fids, forder []string
	for i := 0; i < f.NumMethods(); i++ {
		x := f.Method(i)
		if _, dup := fm[x.Id()]; dup {
			m.fail("method-duplicate", "", path+"/method "+x.Id(), "each declared method once", "twice in Named.methods")
		}
		if _, declared := gm[x.Id()]; m.ctiExtra(x) {
			if declared {
				// a predeclared contract method (no package) sits where the declared method of the same name belongs
				m.fail("cti-predeclared-method-shadows-declared", "underlying-"+c30Kind(g.Underlying()), path+"/method "+x.Id(),
					"declared method "+x.Id()+c30StdSigString(gm[x.Id()].Type().(*types.Signature)), "predeclared contract method "+x.Id()+c30ForkSigString(x.Type().(*ftypes.Signature)))
				return false
			}
			m.count("cti_predeclared_methods_ignored", 1)
			continue
		}
		fm[x.Id()] = x
		fids = append(fids, x.Id())
		forder = append(forder, x.Id())
	}
	sort.Strings(fids)
	sorted := append([]string{}, gids...)
	sort.Strings(sorted)
	ukind := c30Kind(g.Underlying())
	if len(gids) > 0 && len(fids) == 0 {
		m.fail("methods-not-added", "", path, fmt.Sprintf("%d declared methods: %s", len(gids), strings.Join(sorted, ",")), "a defined type without any declared method")
		return false
	}
	for _, id := range sorted {
		if fm[id] == nil {
			m.fail("method-missing", "declared|underlying-"+ukind, path+"/method "+id, "declared method "+id+c30StdSigString(gm[id].Type().(*types.Signature)), fmt.Sprintf("absent (fork declares %d of %d methods: %s)", len(fids), len(gids), strings.Join(fids, ",")))
			return false
		}
	}
	for _, id := range fids {
		if gm[id] == nil {
			m.fail("method-extra", "declared|underlying-"+ukind, path+"/method "+id, "no such declared method", id+c30ForkSigString(fm[id].Type().(*ftypes.Signature)))
			return false
		}
	}
	// same relative order as the source declaration order (Named.Method(i))
	if m.mode != "cti" && strings.Join(gids, ",") != strings.Join(forder, ",") {
		m.fail("method-order", "declared", path, strings.Join(gids, ","), strings.Join(forder, ","))
	}
	for _, id := range sorted {
		p := path + "/method " + id
		m.count("methods_compared", 1)
		gx, fx := gm[id], fm[id]
		gs, fs := gx.Type().(*types.Signature), fx.Type().(*ftypes.Signature)
		if gx.Name() != fx.Name() || gx.Exported() != fx.Exported() {
			m.fail("method-name", "", p, gx.Name(), fx.Name())
		}
		m.pkgSame(gx.Pkg(), fx.Pkg(), p)
		if c30Generic(gs) {
			m.count("methods_with_generic_signature_skipped", 1)
			continue
		}
		okSig := m.sig(gs, fs, p)
		// receiver: T or *T, named as in the source
		gr, fr := gs.Recv(), fs.Recv()
		if fr == nil {
			m.fail("method-recv", "nil|underlying-"+ukind, p, "receiver "+c30StdString(gr.Type()), "nil")
			continue
		}
		_, gptr := types.Unalias(gr.Type()).(*types.Pointer)
		_, fptr := fr.Type().(*ftypes.Pointer)
		if gptr != fptr {
			m.fail("method-recv", fmt.Sprintf("pointer-%v-became-%v", gptr, fptr), p, c30StdString(gr.Type()), c30ForkString(fr.Type()))
			continue
		}
		m.recv(gs, fs, p)
		if okSig {
			if a, b := c30StdSigString(gs), c30ForkSigString(fs); a != b {
				m.fail("typestring", "method-signature", p, a, b)
			}
		}
	}
	return true
}

// mset compares the method set of T (ptr=false) or *T (ptr=true): names (Ids), signatures, embedding
// index paths and the indirect flag, std types.NewMethodSet vs the fork's types.NewMethodSet.
func (m *c30Cmp) mset(g *types.Named, f *ftypes.Named, path string, ptr bool) {
	var gt types.Type = g
	var ft ftypes.Type = f
	tag := "T"
	if ptr {
		gt, ft = types.NewPointer(g), ftypes.NewPointer(f)
		tag = "*T"
	}
	if c30EmbedsGeneric(g, map[*types.Named]bool{}) {
		m.count("msets_skipped_generic_embedded", 1)
		return
	}
	gset := types.NewMethodSet(gt)
	var fset *ftypes.MethodSet
	if p := core.Catch(func() { fset = ftypes.NewMethodSet(ft) }); p != nil {
		m.fail("methodset-panic", "", path+"/mset("+tag+")", "a method set", fmt.Sprintf("panic: %v", p))
		return
	}
	m.count("msets_compared", 1)
	ukind := c30Kind(g.Underlying())
	type ent struct {
		sig      string
		idx      string
		indirect bool
	}
	ge := map[string]ent{}
	var gids []string
	for i := 0; i < gset.Len(); i++ {
		s := gset.At(i)
		fn := s.Obj().(*types.Func)
		e := ent{idx: fmt.Sprint(s.Index()), indirect: s.Indirect()}
		if c30Generic(fn.Type()) {
			e.sig = "‹generic›"
		} else {
			e.sig = c30StdSigShape(fn.Type().(*types.Signature))
		}
		if m.mode == "cti" {
			e.idx = fmt.Sprint(s.Index()[:len(s.Index())-1]) // the position among the declared methods is shifted by the predeclared ones
		}
		ge[fn.Id()] = e
		gids = append(gids, fn.Id())
	}
	sort.Strings(gids)
	fe := map[string]ent{}
	var fids []string
	for i := 0; i < fset.Len(); i++ {
		s := fset.At(i)
		fn, _ := s.Obj().(*ftypes.Func)
		if fn == nil {
			m.fail("methodset-entry", "not-a-func", path+"/mset("+tag+")", "methods only", fmt.Sprint(s.Obj()))
			return
		}
		if _, inStd := ge[fn.Id()]; !inStd && m.ctiExtra(fn) {
			continue
		}
		e := ent{idx: fmt.Sprint(s.Index()), indirect: s.Indirect()}
		if ge[fn.Id()].sig == "‹generic›" {
			e.sig = "‹generic›"
		} else {
			e.sig = c30ForkSigShape(fn.Type().(*ftypes.Signature))
		}
		if m.mode == "cti" {
			e.idx = fmt.Sprint(s.Index()[:len(s.Index())-1])
		}
		fe[fn.Id()] = e
		fids = append(fids, fn.Id())
	}
	sort.Strings(fids)
	for _, id := range gids {
		if _, ok := fe[id]; !ok {
			m.fail("method-missing", "mset("+tag+")|underlying-"+ukind, path+"/mset("+tag+")/"+id, id+ge[id].sig+" index "+ge[id].idx, fmt.Sprintf("absent (fork method set has %d of %d: %s)", len(fids), len(gids), strings.Join(fids, ",")))
			return
		}
	}
	for _, id := range fids {
		if _, ok := ge[id]; !ok {
			m.fail("method-extra", "mset("+tag+")|underlying-"+ukind, path+"/mset("+tag+")/"+id, "not in the method set", id+fe[id].sig+" index "+fe[id].idx)
			return
		}
	}
	for _, id := range gids {
		m.count("mset_entries_compared", 1)
		a, b := ge[id], fe[id]
		if a.sig != b.sig {
			m.fail("method-signature", "mset("+tag+")", path+"/mset("+tag+")/"+id, a.sig, b.sig)
		}
		if a.idx != b.idx || a.indirect != b.indirect {
			m.fail("method-selection", "mset("+tag+")", path+"/mset("+tag+")/"+id, fmt.Sprintf("index %s indirect %v", a.idx, a.indirect), fmt.Sprintf("index %s indirect %v", b.idx, b.indirect))
		}
	}
}

// lookups compares LookupFieldOrMethod(T, addressable, pkg, name) for every method of the std method
// set of *T (a superset of the one of T), for addressable = false and true.
func (m *c30Cmp) lookups(g *types.Named, f *ftypes.Named, path string) {
	if c30EmbedsGeneric(g, map[*types.Named]bool{}) {
		return
	}
	var gset *types.MethodSet
	if _, isIface := g.Underlying().(*types.Interface); isIface {
		gset = types.NewMethodSet(g)
	} else {
		gset = types.NewMethodSet(types.NewPointer(g))
	}
	for i := 0; i < gset.Len(); i++ {
		gfn := gset.At(i).Obj().(*types.Func)
		var fpkg *ftypes.Package
		if gfn.Pkg() != nil {
			fpkg = m.pkgs[gfn.Pkg().Path()]
			if fpkg == nil && !gfn.Exported() {
				continue // package never seen on the fork side: reported elsewhere if it matters
			}
		}
		for _, addressable := range []bool{false, true} {
			p := fmt.Sprintf("%s/lookup(%s,addressable=%v)", path, gfn.Id(), addressable)
			gobj, gidx, gind := types.LookupFieldOrMethod(g, addressable, gfn.Pkg(), gfn.Name())
			var fobj ftypes.Object
			var fidx []int
			var find bool
			if pnc := core.Catch(func() { fobj, fidx, find = ftypes.LookupFieldOrMethod(f, addressable, fpkg, gfn.Name()) }); pnc != nil {
				m.fail("lookup-panic", "", p, "a lookup result", fmt.Sprintf("panic: %v", pnc))
				return
			}
			m.count("lookups_compared", 1)
			if m.mode == "cti" {
				if len(gidx) > 0 {
					gidx = gidx[:len(gidx)-1]
				}
				if len(fidx) > 0 {
					fidx = fidx[:len(fidx)-1]
				}
			}
			gdesc := fmt.Sprintf("found=%v index=%v indirect=%v", gobj != nil, gidx, gind)
			fdesc := fmt.Sprintf("found=%v index=%v indirect=%v", fobj != nil, fidx, find)
			if gobj != nil && !c30Generic(gobj.Type()) {
				gdesc += " " + gobj.Name() + c30StdSigShape(gobj.Type().(*types.Signature))
				if ffn, _ := fobj.(*ftypes.Func); ffn != nil {
					fdesc += " " + ffn.Name() + c30ForkSigShape(ffn.Type().(*ftypes.Signature))
					if m.mode == "cti" && ffn.Pkg() == nil && gfn.Pkg() != nil {
						fdesc += " (predeclared contract method)"
					}
				} else if fobj != nil {
					fdesc += " " + fmt.Sprint(fobj)
				}
			}
			if gdesc != fdesc {
				m.fail("method-lookup", fmt.Sprintf("addressable=%v|underlying-%s", addressable, c30Kind(g.Underlying())), p, gdesc, fdesc)
				return
			}
		}
	}
}

// c30EmbeddedNamed lists the non-generic defined types embedded (directly, T or *T) in a struct or interface type.
func c30EmbeddedNamed(u types.Type) []*types.Named {
	var out []*types.Named
	add := func(t types.Type) {
		t = types.Unalias(t)
		if p, ok := t.(*types.Pointer); ok {
			t = types.Unalias(p.Elem())
		}
		if n, ok := t.(*types.Named); ok && n.TypeArgs().Len() == 0 && n.TypeParams().Len() == 0 {
			out = append(out, n)
		}
	}
	switch u := u.(type) {
	case *types.Struct:
		for i := 0; i < u.NumFields(); i++ {
			if u.Field(i).Embedded() {
				add(u.Field(i).Type())
			}
		}
	case *types.Interface:
		for i := 0; i < u.NumEmbeddeds(); i++ {
			add(u.EmbeddedType(i))
		}
	}
	return out
}

// c30EmbedsGeneric: does the struct embedding chain of g contain an instantiated generic type
// (its promoted methods cannot be compared)?
func c30EmbedsGeneric(g *types.Named, seen map[*types.Named]bool) bool {
	if seen[g] {
		return false
	}
	seen[g] = true
	if g.TypeArgs().Len() > 0 || g.TypeParams().Len() > 0 {
		return true
	}
	st, _ := g.Underlying().(*types.Struct)
	if st == nil {
		return false
	}
	return c30StructEmbedsGeneric(st, seen)
}

func c30StructEmbedsGeneric(st *types.Struct, seen map[*types.Named]bool) bool {
	for i := 0; i < st.NumFields(); i++ {
		fl := st.Field(i)
		if !fl.Embedded() {
			continue
		}
		t := types.Unalias(fl.Type())
		if p, ok := t.(*types.Pointer); ok {
			t = types.Unalias(p.Elem())
		}
		switch t := t.(type) {
		case *types.Named:
			if c30EmbedsGeneric(t, seen) {
				return true
			}
		case *types.Struct:
			if c30StructEmbedsGeneric(t, seen) {
				return true
			}
		case *types.TypeParam:
			return true
		}
	}
	return false
}

// dumpNamed appends a fork-only description of a defined type (used to compare conversions of the
// same package made in different orders / through different entry points).
func (m *c30Cmp) dumpNamed(f *ftypes.Named, path string) {
	var sb strings.Builder
	sb.WriteString("named " + path + " = ")
	core.Catch(func() {
		sb.WriteString(c30ForkString(f.Underlying()))
		sb.WriteString(" methods[")
		for i := 0; i < f.NumMethods(); i++ {
			x := f.Method(i)
			if m.ctiExtra(x) {
				continue
			}
			sb.WriteString(x.Id())
			sig := x.Type().(*ftypes.Signature)
			if r := sig.Recv(); r != nil {
				sb.WriteString("(" + r.Name() + " " + c30ForkString(r.Type()) + ")")
			}
			sb.WriteString(c30ForkSigString(sig) + "; ")
		}
		sb.WriteString("]")
	})
	m.dump = append(m.dump, sb.String())
}

// ---------------------------------------------------------------------------
// objects

// object compares one exported, non-excluded object of the package scope.
func (m *c30Cmp) objectCmp(gp *types.Package, fp *ftypes.Package, name string) {
	m.object = name
	m.nfail = 0
	gobj := gp.Scope().Lookup(name)
	path := gp.Path() + "." + name
	defer m.drain()
	fobj := fp.Scope().Lookup(name)
	class := c30StdClass(gobj)
	if fobj == nil {
		m.fail("object-dropped", class, path, class+" "+name, "no such object in the converted package (dropped, see 'skipping import' warning)")
		return
	}
	if fc := c30ForkClass(fobj); fc != class {
		m.fail("object-class", class+"-became-"+fc, path, class, fc)
		return
	}
	if fobj.Name() != name || fobj.Exported() != gobj.Exported() {
		m.fail("object-name", class, path, name, fobj.Name())
	}
	if fobj.Pkg() != fp {
		m.fail("object-package", "not-the-converted-package", path, "Pkg() == the converted package", fmt.Sprint(fobj.Pkg()))
	}
	m.pkgSame(gobj.Pkg(), fobj.Pkg(), path)
	if fobj.Parent() != fp.Scope() {
		m.fail("object-parent", class, path, "Parent() == package scope", "another scope")
	}
	if fobj.Type() == nil {
		m.fail("object-type-nil", class, path, c30StdString(gobj.Type()), "nil type")
		return
	}
	line := class + " " + name + " " + c30ForkString(fobj.Type())
	switch gobj := gobj.(type) {
	case *types.Const:
		fc := fobj.(*ftypes.Const)
		gv, fv := gobj.Val(), fc.Val()
		if fv == nil || gv.Kind() != fv.Kind() || !constant.Compare(gv, token.EQL, fv) || gv.ExactString() != fv.ExactString() {
			act := "<nil>"
			if fv != nil {
				act = fmt.Sprintf("%s (kind %v)", fv.ExactString(), fv.Kind())
			}
			m.fail("const-value", c30Kind(gobj.Type().Underlying())+"|"+gv.Kind().String(), path, fmt.Sprintf("%s (kind %v)", gv.ExactString(), gv.Kind()), act)
		}
		if fv != nil {
			line += " = " + fv.ExactString()
		}
		m.typ(gobj.Type(), fobj.Type(), path)
	case *types.Var:
		fv := fobj.(*ftypes.Var)
		if fv.IsField() || fv.Embedded() {
			m.fail("var-isfield", "", path, "a package-level variable", "a field")
		}
		m.typ(gobj.Type(), fobj.Type(), path)
	case *types.Func:
		fs, _ := fobj.Type().(*ftypes.Signature)
		if fs == nil {
			m.fail("func-type", "", path, "a signature", c30ForkKind(fobj.Type()))
			return
		}
		if fs.Recv() != nil {
			m.fail("func-recv", "", path, "no receiver for a package-level function", "receiver "+c30ForkString(fs.Recv().Type()))
		}
		m.typ(gobj.Type(), fobj.Type(), path)
	case *types.TypeName:
		ft := fobj.(*ftypes.TypeName)
		if gobj.IsAlias() != ft.IsAlias() {
			m.fail("type-alias-flag", fmt.Sprintf("%v-became-%v", gobj.IsAlias(), ft.IsAlias()), path, fmt.Sprintf("IsAlias=%v", gobj.IsAlias()), fmt.Sprintf("IsAlias=%v", ft.IsAlias()))
		}
		if !gobj.IsAlias() {
			if gn, ok := gobj.Type().(*types.Named); ok {
				fn, _ := ft.Type().(*ftypes.Named)
				if fn == nil || fn.Obj() != ft {
					m.fail("type-decl", "typename-not-declaring", path, "the declaring name of its defined type", c30ForkString(ft.Type()))
					return
				}
				_ = gn
			}
		}
		m.typ(gobj.Type(), fobj.Type(), path)
	}
	// printed form
	if gs, fs := c30StdString(gobj.Type()), c30ForkString(fobj.Type()); gs != fs {
		if m.nfail == 0 { // otherwise the structural mismatch was reported already
			m.fail("typestring", class+"|"+c30Kind(gobj.Type()), path, gs, fs)
		}
	} else {
		m.count("typestrings_compared", 1)
	}
	m.dump = append(m.dump, line)
}

func c30StdClass(o types.Object) string {
	switch o.(type) {
	case *types.Const:
		return "const"
	case *types.Var:
		return "var"
	case *types.Func:
		return "func"
	case *types.TypeName:
		return "type"
	case *types.Builtin:
		return "builtin"
	case nil:
		return "none"
	}
	return fmt.Sprintf("%T", o)
}

func c30ForkClass(o ftypes.Object) string {
	switch o.(type) {
	case *ftypes.Const:
		return "const"
	case *ftypes.Var:
		return "var"
	case *ftypes.Func:
		return "func"
	case *ftypes.TypeName:
		return "type"
	case *ftypes.Builtin:
		return "builtin"
	case nil:
		return "none"
	}
	return fmt.Sprintf("%T", o)
}
