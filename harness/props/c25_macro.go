package props

// C25 parts B, C, D: trees built by the interpreter's macro machinery.

import (
	"fmt"
	"go/ast"

	"github.com/cosmos72/gomacro/ast2"
	"github.com/cosmos72/gomacro/base/output"
	"github.com/cosmos72/gomacro/go/etoken"

	"verif/harness/core"
)

var c25World *c20World
var c25Macros map[string]*c20Macro
var c25Values map[ast.Node]bool

func c25GetWorld() *c20World {
	if c25World == nil {
		c25World = newC20World()
		c25Macros = c20DefineMacros(c25World)
		c25Values = c21Values(c25World)
	}
	return c25World
}

// c25Ctx picks the reparse context of a single node.
func c25Ctx(n ast.Node) string {
	switch x := n.(type) {
	case *ast.FuncDecl, *ast.GenDecl:
		return "top"
	case *ast.CaseClause:
		// a type switch clause lists types, which an expression switch would reject
		for _, e := range x.List {
			switch stripParens(e).(type) {
			case *ast.ArrayType, *ast.MapType, *ast.ChanType, *ast.FuncType, *ast.StructType, *ast.InterfaceType, *ast.StarExpr:
				return "typeswitch"
			}
		}
		return "switch"
	case *ast.CommClause:
		return "select"
	case ast.Stmt, ast.Expr:
		return "func"
	}
	return "" // Field, FieldList, Spec, File...: not printable / parseable on their own
}

// part B: every declaration of a corpus file after MacroExpandCodewalk (fast interpreter)
func c25MacroParts(c *core.Ctx, pf *parsedFile, idx int) {
	w := c25GetWorld()
	// parse again: part A and S must not see trees touched by the codewalk
	_, nodes, err, panicked := forkParse(pf.Path, pf.Src, 0)
	if err != nil || panicked != nil {
		return
	}
	var out ast2.Ast
	if p := core.Catch(func() { out, _ = w.fast.Comp.MacroExpandCodewalk(ast2.NodeSlice{X: nodes}) }); p != nil {
		c.Count("B_codewalk_panics(C20)", 1)
		return
	}
	outNodes, problem := astNodesOf(out)
	if problem != "" {
		return
	}
	st := &output.Stringer{Fileset: pf.Fset}
	for i, n := range outNodes {
		if gd, ok := n.(*ast.GenDecl); ok && gd.Tok.String() == "package" {
			continue
		}
		ctx := c25Ctx(n)
		if ctx == "" {
			continue
		}
		c25Single(c, st, n, "B", c25Case{Part: "B", File: pf.Path, Index: i}, ctx)
		c.Count("B_decls", 1)
	}
}

func c25ReplayB(c *core.Ctx, cas *c25Case) {
	pf := c25Load(cas.File)
	if pf.Status != stOK {
		return
	}
	w := c25GetWorld()
	out, _ := w.fast.Comp.MacroExpandCodewalk(ast2.NodeSlice{X: pf.Nodes})
	outNodes, _ := astNodesOf(out)
	if cas.Index < len(outNodes) {
		st := &output.Stringer{Fileset: pf.Fset}
		c25Single(c, st, outNodes[cas.Index], "B", *cas, c25Ctx(outNodes[cas.Index]))
	}
}

// c25ExpandProg returns what the fast interpreter's codewalk makes of one C20 macro program (nil on error).
func c25ExpandProg(w *c20World, src string) []ast.Node {
	_, nodes, err, panicked := forkParse("macro.go", []byte(src), 0)
	if err != nil || panicked != nil {
		return nil
	}
	var out ast2.Ast
	if p := core.Catch(func() { out, _ = w.fast.Comp.MacroExpandCodewalk(ast2.NodeSlice{X: nodes}) }); p != nil {
		return nil
	}
	outNodes, problem := astNodesOf(out)
	if problem != "" {
		return nil
	}
	return outNodes
}

func c25CheckProg(c *core.Ctx, w *c20World, i int, src string) {
	st := &output.Stringer{Fileset: etoken.NewFileSet()}
	for j, n := range c25ExpandProg(w, src) {
		ctx := c25Ctx(n)
		if ctx == "" || isNilNode(n) {
			continue
		}
		c25Single(c, st, n, "C", c25Case{Part: "C", Index: i, Sub: j, Src: src}, ctx)
		c.Count("C_nodes", 1)
	}
}

// c25EvalTmpl evaluates one C21 template on every engine (no checking) and returns the resulting trees.
func c25EvalTmpl(w *c20World, src string) map[string]ast.Node {
	res := map[string]ast.Node{}
	for _, rn := range c21Runners(w) {
		var v interface{}
		if p := core.Catch(func() { v = rn.prepare(src)() }); p != nil {
			continue
		}
		if n, bad := c21AsNode(v); bad == "" && !isNilNode(n) {
			res[rn.name] = n
		}
	}
	return res
}

func c25CheckTmpl(c *core.Ctx, w *c20World, i int, src string, only string) {
	st := &output.Stringer{Fileset: etoken.NewFileSet()}
	res := c25EvalTmpl(w, src)
	for _, engine := range []string{"fast", "classic"} {
		n := res[engine]
		if n == nil || (only != "" && only != engine) {
			continue
		}
		ctx := c25Ctx(n)
		if ctx == "" {
			c.Count("D_results_not_printable_alone("+astTypeName(n)+")", 1)
			continue
		}
		c25Single(c, st, n, "D", c25Case{Part: "D", Index: i, Src: src, File: engine}, ctx)
		c.Count("D_nodes", 1)
	}
}

// parts C and D
func c25GeneratedParts(c *core.Ctx) {
	w := c25GetWorld()
	progs := c20Programs(c)
	c.Set("C_macro_programs", len(progs))
	for i := range progs {
		if !c.Mine(i) {
			continue
		}
		if c.Expired() {
			return
		}
		c25CheckProg(c, w, i, progs[i].Src)
	}
	tmpls := c21Templates(c)
	c.Set("D_templates", len(tmpls))
	for i := range tmpls {
		if !c.Mine(i) {
			continue
		}
		if c.Expired() {
			return
		}
		c25CheckTmpl(c, w, i, tmpls[i].Src, "")
	}
}

func c25ReplayMacro(c *core.Ctx, cas *c25Case) {
	w := c25GetWorld()
	switch cas.Part {
	case "B":
		c25ReplayB(c, cas)
	case "C":
		c25CheckProg(c, w, cas.Index, cas.Src)
	case "D":
		c25CheckTmpl(c, w, cas.Index, cas.Src, cas.File)
	}
}

var _ = fmt.Sprint
