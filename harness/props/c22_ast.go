package props

// Reflection based utilities on go/ast trees shared by C20, C21, C22, C25:
// a generic pre-order walker, a structural comparison with explicit options
// (what "structurally identical" ignores is decided here, in one place) and a
// compact canonical dump used for keys and messages.
//
// What the comparison ignores, and why:
//   * *ast.Object / *ast.Scope / File.Unresolved: identifier resolution data of the
//     (deprecated) go/ast resolver, not syntax; ast2.New() documents that it does not copy them
//   * comments (Doc, Comment, Comments): the interpreter parses without comments
//   * File.Imports: aliases of ImportSpecs already reachable through Decls
//   * token.Pos: according to eqOpts.Pos. Three positions are *flags* in go/ast (their validity is
//     syntax: CallExpr.Ellipsis "f(x...)", TypeSpec.Assign "type A = B", GenDecl.Lparen "grouped")
//     and are compared by validity unless positions are compared exactly.
//   * a nil slice and an empty slice are the same list.

import (
	"fmt"
	"go/ast"
	"go/token"
	"reflect"
	"sort"
	"strings"
	"sync"

	"github.com/cosmos72/gomacro/go/etoken"
)

type fkind uint8

const (
	fkIgnore fkind = iota
	fkPos
	fkTok
	fkBool
	fkStr
	fkInt
	fkNode
	fkSlice
)

type astField struct {
	Idx  int
	Name string
	Kind fkind
	Flag bool // a position whose validity is syntax
}

type astPlan struct {
	Name   string
	Fields []astField
	NChild int // number of child slots (fkNode + fkSlice), TypeParams excluded
}

var (
	rtNode         = reflect.TypeOf((*ast.Node)(nil)).Elem()
	rtPos          = reflect.TypeOf(token.NoPos)
	rtTok          = reflect.TypeOf(token.ILLEGAL)
	rtCommentGroup = reflect.TypeOf((*ast.CommentGroup)(nil))
	rtObject       = reflect.TypeOf((*ast.Object)(nil))
	rtScope        = reflect.TypeOf((*ast.Scope)(nil))
	astPlans       sync.Map
)

var astFlagPos = map[string]bool{"CallExpr.Ellipsis": true, "TypeSpec.Assign": true, "GenDecl.Lparen": true}

// astPlanOf returns the field plan of a go/ast struct type (t is the struct type, not the pointer).
func astPlanOf(t reflect.Type) *astPlan {
	if p, ok := astPlans.Load(t); ok {
		return p.(*astPlan)
	}
	p := &astPlan{Name: t.Name()}
	for i := 0; i < t.NumField(); i++ {
		f := t.Field(i)
		af := astField{Idx: i, Name: f.Name}
		ft := f.Type
		switch {
		case ft == rtPos:
			af.Kind = fkPos
			af.Flag = astFlagPos[t.Name()+"."+f.Name]
		case ft == rtTok:
			af.Kind = fkTok
		case ft.Kind() == reflect.Bool:
			af.Kind = fkBool
		case ft.Kind() == reflect.String:
			if t.Name() == "File" && f.Name == "GoVersion" {
				af.Kind = fkIgnore
			} else {
				af.Kind = fkStr
			}
		case ft.Kind() == reflect.Int: // ast.ChanDir
			af.Kind = fkInt
		case ft == rtCommentGroup || ft == rtObject || ft == rtScope || ft.Kind() == reflect.Map:
			af.Kind = fkIgnore
		case f.Name == "TypeParams":
			// Go 1.18 type parameters: not part of the syntax gomacro supports (files using them are outside every domain)
			af.Kind = fkIgnore
		case ft.Kind() == reflect.Slice:
			et := ft.Elem()
			if et == rtCommentGroup || (t.Name() == "File" && (f.Name == "Imports" || f.Name == "Unresolved")) {
				af.Kind = fkIgnore
			} else if et.Implements(rtNode) {
				af.Kind = fkSlice
			} else {
				panic("astPlanOf: unexpected slice field " + t.Name() + "." + f.Name)
			}
		case ft.Implements(rtNode):
			af.Kind = fkNode
		default:
			panic("astPlanOf: unexpected field " + t.Name() + "." + f.Name + " of type " + ft.String())
		}
		if af.Kind == fkNode || af.Kind == fkSlice {
			p.NChild++
		}
		p.Fields = append(p.Fields, af)
	}
	astPlans.Store(t, p)
	return p
}

// isNilNode reports whether n is nil or a typed nil pointer.
func isNilNode(n ast.Node) bool {
	if n == nil {
		return true
	}
	v := reflect.ValueOf(n)
	return v.Kind() == reflect.Ptr && v.IsNil()
}

func rvNode(v reflect.Value) ast.Node {
	if (v.Kind() == reflect.Interface || v.Kind() == reflect.Ptr) && v.IsNil() {
		return nil
	}
	return v.Interface().(ast.Node)
}

// astChildren calls f for every non-nil direct child of n, in field order.
func astChildren(n ast.Node, f func(child ast.Node)) {
	v := reflect.ValueOf(n).Elem()
	p := astPlanOf(v.Type())
	for _, af := range p.Fields {
		switch af.Kind {
		case fkNode:
			if c := rvNode(v.Field(af.Idx)); c != nil {
				f(c)
			}
		case fkSlice:
			s := v.Field(af.Idx)
			for i, n := 0, s.Len(); i < n; i++ {
				if c := rvNode(s.Index(i)); c != nil {
					f(c)
				}
			}
		}
	}
}

// astWalk visits n and all its descendants in pre-order. f returning false prunes the subtree.
func astWalk(n ast.Node, f func(n ast.Node) bool) {
	if isNilNode(n) {
		return
	}
	if !f(n) {
		return
	}
	astChildren(n, func(c ast.Node) { astWalk(c, f) })
}

func astCount(n ast.Node) int {
	k := 0
	astWalk(n, func(ast.Node) bool { k++; return true })
	return k
}

// astTypeName is the short go/ast type name of a node ("BinaryExpr").
func astTypeName(n ast.Node) string {
	if n == nil {
		return "nil"
	}
	t := reflect.TypeOf(n)
	if t.Kind() == reflect.Ptr {
		t = t.Elem()
	}
	return t.Name()
}

const (
	posIgnore = iota // all positions ignored, including the flag positions
	posFlags         // flag positions compared by validity, other positions ignored
	posExact         // every position compared exactly
)

type eqOpts struct {
	Pos         int
	StripParens bool // ParenExpr is transparent (grouping is already encoded by the tree shape)
	DropEmpty   bool // EmptyStmt elements of statement lists are transparent and EmptyStmt.Implicit is ignored
	SamePtrOK   bool // identical pointers are equal without descending
	// Norm (optional) is applied to every node before it is compared (property specific normalisation)
	Norm func(ast.Node) ast.Node
}

func stripParens(n ast.Node) ast.Node {
	for {
		p, ok := n.(*ast.ParenExpr)
		if !ok || p == nil {
			return n
		}
		n = p.X
	}
}

// astDiff returns "" when a and b are structurally identical under o, otherwise a description
// "<path>: <difference>" of the first difference in pre-order.
func astDiff(a, b ast.Node, o *eqOpts) string {
	return astDiff1(a, b, o, "")
}

func tokName(t token.Token) string { return etoken.String(t) }

func astDiff1(a, b ast.Node, o *eqOpts, path string) string {
	if isNilNode(a) {
		a = nil
	}
	if isNilNode(b) {
		b = nil
	}
	if o.StripParens {
		a, b = stripParens(a), stripParens(b)
	}
	if o.Norm != nil {
		if a != nil {
			a = o.Norm(a)
		}
		if b != nil {
			b = o.Norm(b)
		}
		if isNilNode(a) {
			a = nil
		}
		if isNilNode(b) {
			b = nil
		}
	}
	if a == nil || b == nil {
		if a == nil && b == nil {
			return ""
		}
		return fmt.Sprintf("%s: %s vs %s", path, astBrief(a), astBrief(b))
	}
	if o.SamePtrOK && a == b {
		return ""
	}
	ta, tb := reflect.TypeOf(a), reflect.TypeOf(b)
	if ta != tb {
		return fmt.Sprintf("%s: %s vs %s", path, astBrief(a), astBrief(b))
	}
	va, vb := reflect.ValueOf(a).Elem(), reflect.ValueOf(b).Elem()
	p := astPlanOf(va.Type())
	path = path + "/" + p.Name
	for _, af := range p.Fields {
		fa, fb := va.Field(af.Idx), vb.Field(af.Idx)
		switch af.Kind {
		case fkPos:
			pa, pb := token.Pos(fa.Int()), token.Pos(fb.Int())
			switch {
			case o.Pos == posExact:
				if pa != pb {
					return fmt.Sprintf("%s.%s: position %d vs %d", path, af.Name, pa, pb)
				}
			case o.Pos == posFlags && af.Flag:
				if pa.IsValid() != pb.IsValid() {
					return fmt.Sprintf("%s.%s: flag position valid=%v vs valid=%v", path, af.Name, pa.IsValid(), pb.IsValid())
				}
			}
		case fkTok:
			if fa.Int() != fb.Int() {
				return fmt.Sprintf("%s.%s: token %s vs %s", path, af.Name, tokName(token.Token(fa.Int())), tokName(token.Token(fb.Int())))
			}
		case fkBool:
			if fa.Bool() != fb.Bool() {
				if o.DropEmpty && p.Name == "EmptyStmt" {
					continue
				}
				return fmt.Sprintf("%s.%s: %v vs %v", path, af.Name, fa.Bool(), fb.Bool())
			}
		case fkStr:
			if fa.String() != fb.String() {
				return fmt.Sprintf("%s.%s: %q vs %q", path, af.Name, fa.String(), fb.String())
			}
		case fkInt:
			if fa.Int() != fb.Int() {
				return fmt.Sprintf("%s.%s: %d vs %d", path, af.Name, fa.Int(), fb.Int())
			}
		case fkNode:
			if d := astDiff1(rvNode(fa), rvNode(fb), o, path+"."+af.Name); d != "" {
				return d
			}
		case fkSlice:
			la, lb := astList(fa, o), astList(fb, o)
			if len(la) != len(lb) {
				return fmt.Sprintf("%s.%s: list length %d vs %d", path, af.Name, len(la), len(lb))
			}
			for i := range la {
				if d := astDiff1(la[i], lb[i], o, fmt.Sprintf("%s.%s[%d]", path, af.Name, i)); d != "" {
					return d
				}
			}
		}
	}
	return ""
}

func astList(s reflect.Value, o *eqOpts) []ast.Node {
	n := s.Len()
	out := make([]ast.Node, 0, n)
	for i := 0; i < n; i++ {
		c := rvNode(s.Index(i))
		if o.DropEmpty {
			if _, ok := c.(*ast.EmptyStmt); ok {
				continue
			}
		}
		out = append(out, c)
	}
	return out
}

// astBrief describes one node without its children.
func astBrief(n ast.Node) string {
	if isNilNode(n) {
		return "nil"
	}
	v := reflect.ValueOf(n).Elem()
	p := astPlanOf(v.Type())
	var sb strings.Builder
	sb.WriteString(p.Name)
	for _, af := range p.Fields {
		f := v.Field(af.Idx)
		switch af.Kind {
		case fkTok:
			fmt.Fprintf(&sb, " %s=%s", af.Name, tokName(token.Token(f.Int())))
		case fkBool:
			if f.Bool() {
				fmt.Fprintf(&sb, " %s", af.Name)
			}
		case fkStr:
			fmt.Fprintf(&sb, " %q", f.String())
		case fkInt:
			fmt.Fprintf(&sb, " %s=%d", af.Name, f.Int())
		case fkPos:
			if af.Flag && token.Pos(f.Int()).IsValid() {
				fmt.Fprintf(&sb, " %s", af.Name)
			}
		}
	}
	return sb.String()
}

// astDump is a canonical, position-free, single-line rendering of a whole tree (S-expression).
// Used as a structural key and in messages; ParenExpr and wrappers are shown as they are.
func astDump(n ast.Node) string {
	var sb strings.Builder
	astDump1(&sb, n)
	return sb.String()
}

func astDump1(sb *strings.Builder, n ast.Node) {
	if isNilNode(n) {
		sb.WriteString("nil")
		return
	}
	v := reflect.ValueOf(n).Elem()
	p := astPlanOf(v.Type())
	switch x := n.(type) {
	case *ast.Ident:
		sb.WriteString(x.Name)
		return
	case *ast.BasicLit:
		sb.WriteString(x.Value)
		return
	}
	sb.WriteByte('(')
	sb.WriteString(p.Name)
	for _, af := range p.Fields {
		f := v.Field(af.Idx)
		switch af.Kind {
		case fkTok:
			sb.WriteByte(' ')
			sb.WriteString(tokName(token.Token(f.Int())))
		case fkBool:
			if f.Bool() {
				sb.WriteByte(' ')
				sb.WriteString(af.Name)
			}
		case fkStr:
			fmt.Fprintf(sb, " %q", f.String())
		case fkInt:
			fmt.Fprintf(sb, " %s=%d", af.Name, f.Int())
		case fkPos:
			if af.Flag && token.Pos(f.Int()).IsValid() {
				sb.WriteByte(' ')
				sb.WriteString(af.Name)
			}
		case fkNode:
			sb.WriteByte(' ')
			astDump1(sb, rvNode(f))
		case fkSlice:
			sb.WriteString(" [")
			for i, k := 0, f.Len(); i < k; i++ {
				if i > 0 {
					sb.WriteByte(' ')
				}
				astDump1(sb, rvNode(f.Index(i)))
			}
			sb.WriteByte(']')
		}
	}
	sb.WriteByte(')')
}

// astClone deep-copies a tree (positions kept; Obj/Scope/comments dropped). Independent of ast2.
func astClone(n ast.Node) ast.Node {
	if isNilNode(n) {
		return nil
	}
	v := reflect.ValueOf(n).Elem()
	p := astPlanOf(v.Type())
	out := reflect.New(v.Type())
	o := out.Elem()
	for _, af := range p.Fields {
		f := v.Field(af.Idx)
		switch af.Kind {
		case fkIgnore:
		case fkNode:
			if c := rvNode(f); c != nil {
				o.Field(af.Idx).Set(reflect.ValueOf(astClone(c)))
			}
		case fkSlice:
			if f.IsNil() {
				continue
			}
			s := reflect.MakeSlice(f.Type(), f.Len(), f.Len())
			for i, k := 0, f.Len(); i < k; i++ {
				if c := rvNode(f.Index(i)); c != nil {
					s.Index(i).Set(reflect.ValueOf(astClone(c)))
				}
			}
			o.Field(af.Idx).Set(s)
		default:
			o.Field(af.Idx).Set(f)
		}
	}
	return out.Interface().(ast.Node)
}

// sortedKeys returns the keys of a counter map in sorted order.
func sortedKeys(m map[string]int) []string {
	ks := make([]string, 0, len(m))
	for k := range m {
		ks = append(ks, k)
	}
	sort.Strings(ks)
	return ks
}
