package props

// C36, family "line contexts": the word or dotted chain being completed is only the END of the text before the cursor.
// The declaration-sequence family (c36.go) puts it at the start of a pure-ASCII line; here ONE fixed interpreter state
// (ASCII and non-ASCII names, a struct variable and a pointer to it, a struct with non-ASCII members, an import) is
// asked with every combination of
//   text before the chain: empty, blanks, operators, brackets, earlier dots (selector, float literal), closed string /
//                          rune literals and comments containing 2-, 3- and 4-byte characters, combining marks,
//                          earlier non-ASCII identifiers;
//   the chain:             every rune-wise prefix of the names in play as a single word, after `x.`, after `x.y.`,
//                          with blanks on either side of the dots;
//   text after the cursor: empty, ASCII, multi-byte;
// the cursor always on a rune boundary (a line editor moves by characters). Reference: the same model as the sequence
// family (c36_model.go), whose identifier scanning follows the Go spec on runes; lengths are byte lengths.
// A chain whose qualifier is a parenthesised variable `(v).w` is outside the documented reach of the completer
// ("global symbols and imported packages, optionally followed by a dot-separated sequence of field or method names"):
// offering nothing is accepted, but what IS offered must be a member of v.

import (
	"fmt"
	"strings"
	"unicode/utf8"

	"verif/harness/core"
)

var c36CtxOps = []c36Op{
	{Kind: "var", Name: "ab"}, {Kind: "var", Name: "abc"}, {Kind: "var", Name: "größe"}, {Kind: "var", Name: "grün"},
	{Kind: "func", Name: "ñu"}, {Kind: "var", Name: "日本"}, {Kind: "const", Name: "日本語"}, {Kind: "var", Name: "a1"},
	{Kind: "type", Name: "Ab", Arg: "val"}, {Kind: "varof", Name: "pt", Arg: "Ab"}, {Kind: "varof", Name: "pp", Arg: "*Ab"},
	{Kind: "utype", Name: "Ü"}, {Kind: "varof", Name: "ü", Arg: "Ü"},
	{Kind: "import", Name: "fmt", Arg: "fmt"},
}

// text before the chain; none ends in an identifier character or a dot
var c36CtxBefore = []string{
	"", " ", "\t", "x := ", "(", "f(x, ", "!", "a1 + ", "fmt.Println(", "pt.a + ", "1.5 * ", "x.y.z(",
	`"é" + `, `"naïve" + `, `"日本語", `, `f("日本語"[1], `, `"😀" + `, `'é' == `, "/* é */ ", "/*é*/", "ñ := ", "é+", "größe + ", "日本 * (",
	"é + ", "\"e\u0301\" + ", "x := 1; ü.ab = ",
}

var c36CtxAfter = []string{"", " + 1", ")", " // é", "日", ".x"}

// runePrefixes: "" excluded; every prefix ending on a rune boundary
func c36RunePrefixes(names ...string) []string {
	seen := map[string]bool{}
	var out []string
	for _, n := range names {
		for i := range n {
			if i > 0 && !seen[n[:i]] {
				seen[n[:i]] = true
				out = append(out, n[:i])
			}
		}
		if !seen[n] {
			seen[n] = true
			out = append(out, n)
		}
	}
	return out
}

type c36CtxChain struct {
	quals []string // words before the last one
	word  string
}

func c36CtxChains() []c36CtxChain {
	var out []c36CtxChain
	for _, w := range c36RunePrefixes("ab", "abc", "größe", "grün", "ñu", "日本語", "a1", "fmt", "func", "pt", "ü", "Ü", "zz", "öl") {
		out = append(out, c36CtxChain{word: w})
	}
	members := append([]string{""}, c36RunePrefixes("abm", "Abp", "E", "am", "g", "zz")...)
	for _, q := range []string{"pt", "pp", "Ab"} {
		for _, w := range members {
			out = append(out, c36CtxChain{quals: []string{q}, word: w})
		}
	}
	for _, q := range []string{"ü", "Ü"} {
		for _, w := range append([]string{""}, c36RunePrefixes("größe", "Größe", "ab", "a1", "öl", "Ab2", "ü")...) {
			out = append(out, c36CtxChain{quals: []string{q}, word: w})
		}
	}
	for _, w := range []string{"", "S", "Sp", "Sprintf", "Stringer", "é"} {
		out = append(out, c36CtxChain{quals: []string{"fmt"}, word: w})
	}
	for _, w := range []string{"", "a", "ab", "abz", "G", "ö"} {
		out = append(out, c36CtxChain{quals: []string{"pt", "g"}, word: w})
		out = append(out, c36CtxChain{quals: []string{"pp", "E"}, word: w})
	}
	for _, w := range []string{"", "A", "L", "ü"} {
		out = append(out, c36CtxChain{quals: []string{"ü", "größe"}, word: w}) // int: operator methods
		out = append(out, c36CtxChain{quals: []string{"ü", "öl"}, word: w})    // a method: nothing follows
	}
	return out
}

// blanks around the dots
var c36CtxDots = []string{".", " .", ". ", " . ", ".\t"}

func (ch c36CtxChain) text(dot string) string {
	var sb strings.Builder
	for _, q := range ch.quals {
		sb.WriteString(q)
		sb.WriteString(dot)
	}
	sb.WriteString(ch.word)
	return sb.String()
}

func c36CtxWorld() (*c36World, string) {
	w := c36NewWorld()
	for _, o := range c36CtxOps {
		if msg := w.apply(o); msg != "" {
			return nil, fmt.Sprintf("the declaration %q is rejected: %s", o.Source(), msg)
		}
	}
	return w, ""
}

func c36ContextFamily(c *core.Ctx, k *c36Checker, only *c36Case) {
	w, msg := c36CtxWorld()
	if w == nil {
		c.Violation("C36|declaration-rejected|context-family", msg, c36Case{Family: "context"})
		return
	}
	k.family = "context"
	defer func() { k.family = "" }()
	if only != nil {
		c36CtxOne(c, k, w, only.Line, only.Pos)
		return
	}
	chains := c36CtxChains()
	n := 0
	for bi, before := range c36CtxBefore {
		if !c.Mine(bi) {
			continue
		}
		for _, ch := range chains {
			dots := c36CtxDots
			if len(ch.quals) == 0 {
				dots = dots[:1]
			}
			for _, dot := range dots {
				text := ch.text(dot)
				for _, after := range c36CtxAfter {
					head := before + text
					c36CtxOne(c, k, w, head+after, len(head))
					n++
					// the same chain with its first word in parentheses
					if len(ch.quals) > 0 && (ch.quals[0] == "pt" || ch.quals[0] == "pp" || ch.quals[0] == "ü") && dot == "." {
						head = before + "(" + ch.quals[0] + ")" + text[len(ch.quals[0]):]
						c36CtxOne(c, k, w, head+after, len(head))
						n++
					}
				}
			}
		}
	}
	c.Count("context_family_queries", n)
}

// c36CtxOne asks one (line, cursor) of the context family. The reference is recomputed from the line alone, so that a
// replay needs nothing else.
func c36CtxOne(c *core.Ctx, k *c36Checker, w *c36World, line string, pos int) {
	head := line[:pos]
	if !utf8.ValidString(head) || !utf8.ValidString(line[pos:]) {
		return
	}
	want := w.m.complete(head, false)
	paren := false
	if want.Qual == "dot-without-qualifier" {
		// `(v).w…`: rewrite to `v.w…` for the truth
		if i := strings.LastIndex(head, "("); i >= 0 {
			if j := strings.Index(head[i:], ")"); j > 0 {
				v := head[i+1 : i+j]
				if c36TrailingIdent(v) == v && v != "" {
					truth := w.m.complete(v+head[i+j+1:], false)
					truth.Head = head[:len(head)-len(c36TrailingIdent(head))]
					truth.Qual = "parenthesised-qualifier"
					want, paren = truth, true
				}
			}
		}
	}
	if want.Skip {
		k.excluded++
		return
	}
	k.queries++
	if len(want.Names) > 0 {
		k.nonEmpt++
		c.Nontrivial("context|" + head + "|" + want.Qual)
	}
	if paren {
		c36CtxParen(k, w, line, pos, want)
		return
	}
	k.checkOne(w, w.outer, c36CtxOps, false, line, pos, want)
}

// c36CtxParen: offering nothing is accepted (documented reach of the completer); what is offered must be valid.
func c36CtxParen(k *c36Checker, w *c36World, line string, pos int, truth *c36Want) {
	w.out.Reset()
	gotHead, got, gotTail := w.outer.CompleteWords(line, pos)
	if len(got) == 0 {
		k.c.Count("parenthesised_qualifier_nothing_offered", 1)
		if gotHead+gotTail != line {
			k.report("C36|head-no-completion|"+truth.Qual, func() string {
				return fmt.Sprintf("CompleteWords(%q, %d) has no completion but head+tail = %q is not the line", line, pos, gotHead+gotTail)
			}, func() c36Case { return c36Case{Family: "context", Ops: c36CtxOps, Line: line, Pos: pos} })
		}
		return
	}
	valid := map[string]bool{}
	for _, n := range truth.Names {
		valid[n] = true
	}
	var extra []string
	for _, g := range got {
		if !valid[g] {
			extra = append(extra, g)
		}
	}
	if len(extra) > 0 {
		k.report("C36|"+truth.Qual+"|extra:name-of-the-enclosing-scope-after-a-dot", func() string {
			return fmt.Sprintf("after %v, CompleteWords(%q, %d) returned %q: the word follows `(x).`, only fields and methods of x (%q) are valid there, but %q are offered",
				c36CtxOps, line, pos, got, truth.Names, extra)
		}, func() c36Case { return c36Case{Family: "context", Ops: c36CtxOps, Line: line, Pos: pos} })
		return
	}
	if gotHead != truth.Head || gotTail != line[pos:] {
		k.report("C36|head|"+truth.Qual, func() string {
			return fmt.Sprintf("CompleteWords(%q, %d) returned head %q tail %q, want head %q tail %q", line, pos, gotHead, gotTail, truth.Head, line[pos:])
		}, func() c36Case { return c36Case{Family: "context", Ops: c36CtxOps, Line: line, Pos: pos} })
	}
}
