package props

// Reference model for C36: what the harness declared, and what a completion at a given point
// has to offer. Nothing here looks at the interpreter's data structures.

import (
	"go/token"
	"reflect"
	"sort"
	"strings"
	"unicode"
	"unicode/utf8"

	"github.com/cosmos72/gomacro/imports"
)

type c36T struct {
	K       string // int | string | untyped | func | struct | ptr | pkg | rt
	Name    string
	Elem    *c36T
	Fields  []c36F
	Methods []string // declared on the type (value and pointer receivers)
	Path    string   // pkg
	RT      reflect.Type
}

type c36F struct {
	Name string
	T    *c36T
	Emb  bool
}

type c36Ent struct {
	Kind string // var | const | func | type | import
	T    *c36T
}

type c36Model struct {
	outer, inner map[string]*c36Ent
}

var (
	c36Int     = &c36T{K: "int"}
	c36String  = &c36T{K: "string"}
	c36Untyped = &c36T{K: "untyped"}
	c36Func    = &c36T{K: "func"}
	c36TF      = &c36T{K: "struct", Name: "F", Fields: []c36F{{"abc", c36Int, false}, {"Ab", c36String, false}}, Methods: []string{"Abc", "bF"}}
	c36TE      = &c36T{K: "struct", Name: "E", Fields: []c36F{{"F", c36TF, true}, {"ab", c36Int, false}, {"b", c36String, false}}, Methods: []string{"Ab", "abm"}}
	c36TG      = &c36T{K: "struct", Name: "G", Fields: []c36F{{"abz", c36Int, false}}, Methods: []string{"Gm", "abg"}}
)

func c36NewModel() *c36Model {
	m := &c36Model{outer: map[string]*c36Ent{}, inner: map[string]*c36Ent{}}
	m.outer["F"] = &c36Ent{"type", c36TF}
	m.outer["E"] = &c36Ent{"type", c36TE}
	m.outer["G"] = &c36Ent{"type", c36TG}
	return m
}

func (m *c36Model) clone() *c36Model {
	n := &c36Model{outer: map[string]*c36Ent{}, inner: map[string]*c36Ent{}}
	for k, v := range m.outer {
		n.outer[k] = v
	}
	for k, v := range m.inner {
		n.inner[k] = v
	}
	return n
}

func (m *c36Model) scope(inner bool) map[string]*c36Ent {
	if inner {
		return m.inner
	}
	return m.outer
}

// lookup resolves a name as seen from the outer (fromInner=false) or inner interpreter.
func (m *c36Model) lookup(name string, fromInner bool) *c36Ent {
	if fromInner {
		if e := m.inner[name]; e != nil {
			return e
		}
	}
	return m.outer[name]
}

func (m *c36Model) visibleStructTypes(fromInner bool) []string {
	var out []string
	for _, n := range c36Alphabet {
		if e := m.lookup(n, fromInner); e != nil && e.Kind == "type" {
			out = append(out, n)
		}
	}
	return out
}

// crossNamespace: would o make a name a type in one visible scope and a value/package in another (or the same) one?
func (m *c36Model) crossNamespace(o c36Op) bool {
	isType := o.Kind == "type"
	for _, sc := range []map[string]*c36Ent{m.outer, m.inner} {
		if e := sc[o.Name]; e != nil && (e.Kind == "type") != isType {
			return true
		}
	}
	return false
}

func (m *c36Model) apply(o c36Op) {
	sc := m.scope(o.Inner)
	switch o.Kind {
	case "var":
		t := c36Int
		if c36BasicOf(o.Name) == "string" {
			t = c36String
		}
		sc[o.Name] = &c36Ent{"var", t}
	case "const":
		t := c36Int
		if c36ConstUntyped(o.Name) {
			t = c36Untyped
		} else if c36BasicOf(o.Name) == "string" {
			t = c36String
		}
		sc[o.Name] = &c36Ent{"const", t}
	case "func":
		sc[o.Name] = &c36Ent{"func", c36Func}
	case "type":
		var emb *c36T = c36TE
		if o.Arg == "ptr" {
			emb = &c36T{K: "ptr", Elem: c36TE}
		}
		t := &c36T{K: "struct", Name: o.Name, Fields: []c36F{{"E", emb, true}, {"a", c36Int, false}, {"g", c36TG, false}}, Methods: []string{"am", "Abp"}}
		sc[o.Name] = &c36Ent{"type", t}
	case "varof":
		tn := strings.TrimPrefix(o.Arg, "*")
		te := m.lookup(tn, o.Inner)
		if te == nil || te.Kind != "type" {
			panic("C36 model: varof without a visible type " + tn)
		}
		t := te.T
		if strings.HasPrefix(o.Arg, "*") {
			t = &c36T{K: "ptr", Elem: t}
		}
		sc[o.Name] = &c36Ent{"var", t}
	case "import":
		sc[o.Name] = &c36Ent{"import", &c36T{K: "pkg", Path: o.Arg}}
	case "utype":
		sc[o.Name] = &c36Ent{"type", &c36T{K: "struct", Name: o.Name, Fields: []c36F{{"größe", c36Int, false}, {"Größe", c36String, false}, {"ab", c36Int, false}, {"a1", c36Int, false}}, Methods: []string{"öl", "Ab2"}}}
	}
}

func (t *c36T) desc() string {
	switch t.K {
	case "ptr":
		return "*" + t.Elem.desc()
	case "struct":
		emb := ""
		if len(t.Fields) > 0 && t.Fields[0].Emb && t.Fields[0].T.K == "ptr" {
			emb = "{*E}"
		}
		return "struct " + t.Name + emb
	case "pkg":
		return "pkg " + t.Path
	}
	return t.K
}

func (m *c36Model) key() string {
	var parts []string
	for i, sc := range []map[string]*c36Ent{m.outer, m.inner} {
		var ks []string
		for k := range sc {
			ks = append(ks, k)
		}
		sort.Strings(ks)
		for _, k := range ks {
			if i == 0 && (k == "E" || k == "F" || k == "G") {
				continue
			}
			parts = append(parts, []string{"o:", "i:"}[i]+k+"="+sc[k].Kind+" "+sc[k].T.desc())
		}
	}
	return strings.Join(parts, ";")
}

// ---------------------------------------------------------------------------------------------
// fixed vocabularies

var c36Universe = []string{
	// types
	"any", "bool", "byte", "complex128", "complex64", "error", "float32", "float64", "int", "int16", "int32", "int64", "int8",
	"rune", "string", "uint", "uint16", "uint32", "uint64", "uint8", "uintptr",
	// constants, nil, functions
	"true", "false", "nil", "append", "cap", "close", "complex", "copy", "delete", "imag", "len", "make", "new", "panic", "print", "println", "real", "recover",
	// gomacro's own
	"Eval", "EvalKeepUntyped", "EvalType", "Interp", "MacroExpand", "MacroExpand1", "MacroExpandCodeWalk", "Parse", "Pointer",
}

var c36Keywords = func() []string {
	var ks []string
	for tok := token.BREAK; tok <= token.VAR; tok++ {
		ks = append(ks, tok.String())
	}
	if len(ks) != 25 {
		panic("go/token: expected 25 keywords")
	}
	return append(ks, "macro")
}()

var (
	c36CtiInt    = []string{"Add", "Sub", "Mul", "Quo", "Neg", "Rem", "And", "AndNot", "Or", "Xor", "Not", "Lsh", "Rsh", "Cmp", "Equal", "Less"}
	c36CtiString = []string{"Add", "Index", "Len", "Slice", "Cmp", "Equal", "Less"}
	// every operator-method name of the CTI design (basic, array, slice, map, chan): used only to LABEL a mismatch
	c36CtiAll = map[string]bool{}
)

func init() {
	for _, n := range append(append([]string{}, c36CtiInt...), c36CtiString...) {
		c36CtiAll[n] = true
	}
	for _, n := range []string{"Real", "Imag", "AddrIndex", "Append", "AppendString", "Cap", "Copy", "CopyString", "SetIndex", "Slice3", "Close", "Recv", "TryRecv", "Send", "TrySend",
		"DelIndex", "TryIndex"} {
		c36CtiAll[n] = true
	}
}

// ---------------------------------------------------------------------------------------------
// the reference answer

type c36Want struct {
	Names []string // sorted, unique
	Head  string   // expected head when Names is not empty
	Skip  bool     // contract unspecified for this query
	Qual  string   // what is in front of the last word (for signatures)

	leak     map[string]bool // names that are methods of a NON-embedded field's type
	viaPtr   map[string]bool // names promoted through an embedded pointer
	imported bool
	single   bool
	viaPtrIn bool // a middle word of the chain had pointer type

	class func(name string, missing bool) string // optional: labels a mismatching name (families with their own oracle)
}

func (w *c36Want) classifyExtra(name string) string {
	if w.class != nil {
		return w.class(name, false)
	}
	switch {
	case w.single && name == "template":
		return "template-is-no-keyword-with-cti-generics"
	case w.imported && !token.IsExported(name):
		return "unexported-member-of-imported-type"
	case w.leak[name]:
		return "method-of-non-embedded-field"
	}
	return "other"
}

func (w *c36Want) classifyMissing(name string) string {
	if w.class != nil {
		return w.class(name, true)
	}
	if w.viaPtrIn {
		return "chain-through-pointer-valued-word"
	}
	if w.viaPtr[name] {
		return "method-promoted-through-embedded-pointer"
	}
	return "other"
}

// c36TrailingIdent returns the longest suffix of s that is a Go identifier (Go spec: letter { letter | unicode_digit },
// letter = '_' or Unicode category L, unicode_digit = category Nd), scanning whole runes backwards.
func c36TrailingIdent(s string) string {
	i := len(s)
	for i > 0 {
		r, n := utf8.DecodeLastRuneInString(s[:i])
		if r == utf8.RuneError && n <= 1 {
			break
		}
		if r != '_' && !unicode.IsLetter(r) && !unicode.IsDigit(r) {
			break
		}
		i -= n
	}
	// an identifier does not start with a digit
	for i < len(s) {
		r, n := utf8.DecodeRuneInString(s[i:])
		if !unicode.IsDigit(r) {
			break
		}
		i += n
	}
	return s[i:]
}

// white space may surround the dots of a selector chain
func c36TrimSpaceRight(s string) string { return strings.TrimRight(s, " \t") }

type c36Member struct {
	depth  int
	field  bool
	t      *c36T
	viaPtr bool
}

// members lists the selectors valid on a (value of) model type t: name -> shallowest member.
// leak collects the method names of non-embedded fields' types (never valid on t itself).
func c36Members(t *c36T, leak map[string]bool) map[string]c36Member {
	out := map[string]c36Member{}
	add := func(name string, m c36Member) {
		if old, ok := out[name]; !ok || m.depth < old.depth {
			out[name] = m
		}
	}
	var walk func(t *c36T, depth int, viaPtr bool)
	walk = func(t *c36T, depth int, viaPtr bool) {
		if t.K == "ptr" {
			t = t.Elem
		}
		switch t.K {
		case "int":
			for _, n := range c36CtiInt {
				add(n, c36Member{depth: depth, viaPtr: viaPtr})
			}
		case "string":
			for _, n := range c36CtiString {
				add(n, c36Member{depth: depth, viaPtr: viaPtr})
			}
		case "struct":
			for _, n := range t.Methods {
				add(n, c36Member{depth: depth, viaPtr: viaPtr})
			}
			for _, f := range t.Fields {
				add(f.Name, c36Member{depth: depth, field: true, t: f.T, viaPtr: viaPtr})
				if f.Emb {
					walk(f.T, depth+1, viaPtr || f.T.K == "ptr")
				} else if leak != nil {
					for n, m := range c36Members(f.T, nil) {
						if !m.field {
							leak[n] = true
						}
					}
				}
			}
		}
	}
	walk(t, 0, false)
	return out
}

// c36RtMembers lists the selectors valid on a value of an imported type: exported fields (promoted ones included)
// and exported methods of the addressable value. ok=false: outside the modelled kinds.
func c36RtMembers(t reflect.Type, leak map[string]bool) (names map[string]reflect.Type, ok bool) {
	names = map[string]reflect.Type{}
	if t.Kind() == reflect.Ptr {
		t = t.Elem()
		if t.Kind() == reflect.Interface {
			return names, true
		}
	}
	switch t.Kind() {
	case reflect.Interface:
		for i := 0; i < t.NumMethod(); i++ {
			if m := t.Method(i); m.PkgPath == "" {
				names[m.Name] = nil
			}
		}
		return names, true
	case reflect.Struct:
		for _, f := range reflect.VisibleFields(t) {
			if f.IsExported() {
				names[f.Name] = f.Type
			}
			if !f.Anonymous {
				ft := f.Type
				if ft.Kind() != reflect.Ptr && ft.Kind() != reflect.Interface {
					ft = reflect.PtrTo(ft)
				}
				for i := 0; i < ft.NumMethod(); i++ {
					leak[ft.Method(i).Name] = true
				}
				for n := range c36CtiAll {
					leak[n] = true
				}
			}
		}
		pt := reflect.PtrTo(t)
		for i := 0; i < pt.NumMethod(); i++ {
			if _, isField := names[pt.Method(i).Name]; !isField {
				names[pt.Method(i).Name] = nil
			}
		}
		return names, true
	case reflect.Func:
		return names, true
	}
	return names, false
}

type c36Node struct {
	t    *c36T
	rt   reflect.Type
	kind string // label
}

// complete computes the reference answer for the text before the cursor.
func (m *c36Model) complete(head string, fromInner bool) *c36Want {
	w := c36TrailingIdent(head)
	words := []string{w}
	rest := c36TrimSpaceRight(head[:len(head)-len(w)])
	for strings.HasSuffix(rest, ".") {
		r2 := c36TrimSpaceRight(rest[:len(rest)-1])
		id := c36TrailingIdent(r2)
		if id == "" {
			// a dot that does not follow an identifier: nothing to complete on
			return &c36Want{Qual: "dot-without-qualifier"}
		}
		words = append([]string{id}, words...)
		rest = c36TrimSpaceRight(r2[:len(r2)-len(id)])
	}
	want := &c36Want{Head: head[:len(head)-len(w)], leak: map[string]bool{}, viaPtr: map[string]bool{}}
	var cands []string
	if len(words) == 1 {
		want.Qual = "word"
		want.single = true
		if w == "" {
			return want
		}
		cands = append(cands, c36Universe...)
		cands = append(cands, c36Keywords...)
		for n := range m.outer {
			cands = append(cands, n)
		}
		if fromInner {
			for n := range m.inner {
				cands = append(cands, n)
			}
		}
	} else {
		ent := m.lookup(words[0], fromInner)
		if ent == nil {
			want.Qual = "undeclared"
			return want
		}
		node := c36Node{t: ent.T, kind: ent.Kind}
		if ent.Kind == "import" {
			node.kind = "pkg"
		}
		// middle words
		for i := 1; i < len(words)-1; i++ {
			y := words[i]
			if node.t != nil && node.t.K == "ptr" || node.rt != nil && node.rt.Kind() == reflect.Ptr {
				want.viaPtrIn = true
			}
			next, ok := m.step(node, y, i == 1)
			if !ok {
				want.Qual = node.label() + ".none"
				return want
			}
			node = next
		}
		want.Qual = node.label()
		switch {
		case node.rt != nil:
			want.imported = true
			names, ok := c36RtMembers(node.rt, want.leak)
			if !ok {
				want.Skip = true
				return want
			}
			for n := range names {
				cands = append(cands, n)
			}
		case node.t.K == "pkg":
			pk, ok := imports.Packages[node.t.Path]
			if !ok {
				panic("C36: imports.Packages has no " + node.t.Path)
			}
			for n := range pk.Binds {
				cands = append(cands, n)
			}
			for n := range pk.Types {
				cands = append(cands, n)
			}
		case node.t.K == "untyped":
			want.Skip = true
			return want
		default:
			for n, mem := range c36Members(node.t, want.leak) {
				cands = append(cands, n)
				if mem.viaPtr && !mem.field {
					want.viaPtr[n] = true
				}
			}
		}
	}
	seen := map[string]bool{}
	for _, n := range cands {
		if strings.HasPrefix(n, w) && !seen[n] {
			seen[n] = true
			want.Names = append(want.Names, n)
		}
	}
	sort.Strings(want.Names)
	return want
}

func (n c36Node) label() string {
	if n.rt != nil {
		k := n.rt.Kind()
		if k == reflect.Ptr {
			return "imported:*" + n.rt.Elem().Kind().String()
		}
		return "imported:" + k.String()
	}
	pre := ""
	if n.kind == "type" {
		pre = "type:"
	}
	switch n.t.K {
	case "ptr":
		return pre + "*struct"
	case "struct":
		emb := "embeds-E"
		if n.t.Fields[0].Emb && n.t.Fields[0].T.K == "ptr" {
			emb = "embeds-*E"
		} else if !n.t.Fields[0].Emb {
			emb = "plain"
		}
		if n.t.Name == "E" || n.t.Name == "F" || n.t.Name == "G" {
			emb = n.t.Name
		}
		return pre + "struct(" + emb + ")"
	}
	return pre + n.t.K
}

// step follows one middle word of a selector chain. ok=false: nothing can follow (a method, an unknown name).
func (m *c36Model) step(node c36Node, y string, first bool) (c36Node, bool) {
	if node.rt != nil {
		names, ok := c36RtMembers(node.rt, map[string]bool{})
		if !ok {
			return node, false
		}
		if ft, isField := names[y]; isField && ft != nil {
			return c36Node{rt: ft}, true
		}
		return node, false
	}
	switch node.t.K {
	case "pkg":
		if !first {
			return node, false
		}
		pk := imports.Packages[node.t.Path]
		if v, ok := pk.Binds[y]; ok {
			return c36Node{rt: v.Type()}, true
		}
		if t, ok := pk.Types[y]; ok {
			return c36Node{rt: t, kind: "type"}, true
		}
		return node, false
	case "struct", "ptr":
		if mem, ok := c36Members(node.t, nil)[y]; ok && mem.field {
			return c36Node{t: mem.t, kind: "field"}, true
		}
	}
	return node, false
}
