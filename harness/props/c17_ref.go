package props

// C17 reference side — an independent free-identifier analysis of top-level Go declarations written
// on std go/ast + go/parser (no code shared with base/dep), a cross-check of that analysis against
// std go/types (Info.Uses), and the reference "earliest in source among ready" order.

import (
	"fmt"
	"go/ast"
	"go/parser"
	"go/token"
	"go/types"
	"sort"
	"strings"
)

// refOcc is one occurrence, inside a top-level declaration, of an identifier spelled like a
// top-level name of the same run of declarations.
type refOcc struct {
	Name   string
	Free   bool   // resolves to the top-level declaration
	Binder string // what binds it instead: param result recv var const type define range typeswitch | label field-key field-decl method-name
	Depth  int    // number of local scopes open at the occurrence (0 = directly in the top-level declaration)
	Ctx    string // "kv-key": the identifier is the key of a keyed element of a map/array/slice literal
}

// refUnit is one declared top-level name.
type refUnit struct {
	Name    string
	Kind    string // Const Var VarMulti Type Func Method
	Idx     int    // rank in source order
	Line    int
	Deps    []string // sorted free top-level names (self excluded for Func and Type, as the sorter documents)
	Generic bool     // declares type parameters (Go generics: outside the sorter's input language, skipped by the go/types cross-check)
	Occs    []refOcc
}

type refScope struct {
	names map[string]string   // local name -> binder kind
	types map[string]ast.Expr // local type name -> its type expression
	outer *refScope
	depth int
}

type refAnalyzer struct {
	top      map[string]bool     // top-level names of the run
	topTypes map[string]ast.Expr // top-level type name -> type expression
	occs     []refOcc
	ctx      string
}

func (a *refAnalyzer) push(s *refScope) *refScope {
	d := 1
	if s != nil {
		d = s.depth + 1
	}
	return &refScope{names: map[string]string{}, types: map[string]ast.Expr{}, outer: s, depth: d}
}

func depthOf(s *refScope) int {
	if s == nil {
		return 0
	}
	return s.depth
}

func (a *refAnalyzer) lookup(s *refScope, name string) (string, bool) {
	for ; s != nil; s = s.outer {
		if b, ok := s.names[name]; ok {
			return b, true
		}
	}
	return "", false
}

func (a *refAnalyzer) ident(s *refScope, id *ast.Ident) {
	if id == nil || id.Name == "_" {
		return
	}
	if b, ok := a.lookup(s, id.Name); ok {
		if a.top[id.Name] {
			a.occs = append(a.occs, refOcc{Name: id.Name, Binder: b, Depth: depthOf(s)})
		}
		return
	}
	if a.top[id.Name] {
		a.occs = append(a.occs, refOcc{Name: id.Name, Free: true, Depth: depthOf(s), Ctx: a.ctx})
	}
}

// nonRef records an identifier spelled like a top-level name that is not a reference at all.
func (a *refAnalyzer) nonRef(s *refScope, id *ast.Ident, why string) {
	if id != nil && a.top[id.Name] {
		a.occs = append(a.occs, refOcc{Name: id.Name, Binder: why, Depth: depthOf(s)})
	}
}

func (a *refAnalyzer) declare(s *refScope, id *ast.Ident, binder string) {
	if id == nil || id.Name == "_" || s == nil {
		return
	}
	s.names[id.Name] = binder
}

// isStruct tells whether type expression t denotes a struct type (following named types).
func (a *refAnalyzer) isStruct(s *refScope, t ast.Expr, fuel int) bool {
	if fuel == 0 {
		return false
	}
	switch t := t.(type) {
	case *ast.StructType:
		return true
	case *ast.ParenExpr:
		return a.isStruct(s, t.X, fuel-1)
	case *ast.Ident:
		for sc := s; sc != nil; sc = sc.outer {
			if _, ok := sc.names[t.Name]; ok {
				if te, ok := sc.types[t.Name]; ok {
					return a.isStruct(sc, te, fuel-1)
				}
				return false
			}
		}
		if te, ok := a.topTypes[t.Name]; ok {
			return a.isStruct(nil, te, fuel-1)
		}
	}
	return false
}

// elemType returns the element (value) type expression and key type expression of a composite type expression.
func (a *refAnalyzer) elemType(s *refScope, t ast.Expr, fuel int) (elem, key ast.Expr) {
	if fuel == 0 || t == nil {
		return nil, nil
	}
	switch t := t.(type) {
	case *ast.ArrayType:
		return t.Elt, nil
	case *ast.MapType:
		return t.Value, t.Key
	case *ast.ParenExpr:
		return a.elemType(s, t.X, fuel-1)
	case *ast.Ident:
		for sc := s; sc != nil; sc = sc.outer {
			if _, ok := sc.names[t.Name]; ok {
				if te, ok := sc.types[t.Name]; ok {
					return a.elemType(sc, te, fuel-1)
				}
				return nil, nil
			}
		}
		if te, ok := a.topTypes[t.Name]; ok {
			return a.elemType(nil, te, fuel-1)
		}
	}
	return nil, nil
}

func (a *refAnalyzer) exprs(s *refScope, l []ast.Expr) {
	for _, e := range l {
		a.expr(s, e)
	}
}

// fieldTypes resolves the types of a field list (names are not references and bind nothing here).
func (a *refAnalyzer) fieldTypes(s *refScope, fl *ast.FieldList, nameKind string) {
	if fl == nil {
		return
	}
	for _, f := range fl.List {
		a.expr(s, f.Type)
		if nameKind != "" {
			for _, n := range f.Names {
				a.nonRef(s, n, nameKind)
			}
		}
	}
}

func (a *refAnalyzer) declareFields(s *refScope, fl *ast.FieldList, binder string) {
	if fl == nil {
		return
	}
	for _, f := range fl.List {
		for _, n := range f.Names {
			a.declare(s, n, binder)
		}
	}
}

// funcBody analyses a function (declaration or literal): signature types are resolved outside, receiver,
// parameters and results are bound in the function block, whose statements are those of the body.
func (a *refAnalyzer) funcBody(s *refScope, recv *ast.FieldList, ft *ast.FuncType, body *ast.BlockStmt) {
	a.fieldTypes(s, recv, "")
	if ft != nil && ft.TypeParams != nil {
		s = a.typeParams(s, ft.TypeParams)
	}
	if ft != nil {
		a.fieldTypes(s, ft.Params, "param-decl")
		a.fieldTypes(s, ft.Results, "param-decl")
	}
	if body == nil {
		return
	}
	fs := a.push(s)
	a.declareFields(fs, recv, "recv")
	if ft != nil {
		a.declareFields(fs, ft.Params, "param")
		a.declareFields(fs, ft.Results, "result")
	}
	a.stmts(fs, body.List)
}

// typeParams opens the scope of a type parameter list.
func (a *refAnalyzer) typeParams(s *refScope, tp *ast.FieldList) *refScope {
	ts := a.push(s)
	a.declareFields(ts, tp, "typeparam")
	a.fieldTypes(ts, tp, "")
	return ts
}

func (a *refAnalyzer) compositeLit(s *refScope, lit *ast.CompositeLit, implied ast.Expr) {
	t := lit.Type
	if t != nil {
		a.expr(s, t)
	} else {
		t = implied
		if st, ok := t.(*ast.StarExpr); ok { // &T{} elision inside []*T{{...}}
			t = st.X
		}
	}
	isStruct := t != nil && a.isStruct(s, t, 8)
	var elem, key ast.Expr
	if !isStruct {
		elem, key = a.elemType(s, t, 8)
	}
	sub := func(e ast.Expr, implied ast.Expr) {
		if cl, ok := e.(*ast.CompositeLit); ok && cl.Type == nil {
			a.compositeLit(s, cl, implied)
			return
		}
		a.expr(s, e)
	}
	for _, el := range lit.Elts {
		if kv, ok := el.(*ast.KeyValueExpr); ok {
			if id, ok := kv.Key.(*ast.Ident); ok && isStruct {
				a.nonRef(s, id, "field-key")
			} else if id, ok := kv.Key.(*ast.Ident); ok {
				a.ctx = "kv-key"
				a.ident(s, id)
				a.ctx = ""
			} else {
				sub(kv.Key, key)
			}
			sub(kv.Value, elem)
		} else {
			sub(el, elem)
		}
	}
}

func (a *refAnalyzer) expr(s *refScope, e ast.Expr) {
	switch e := e.(type) {
	case nil:
	case *ast.Ident:
		a.ident(s, e)
	case *ast.BasicLit:
	case *ast.Ellipsis:
		a.expr(s, e.Elt)
	case *ast.FuncLit:
		a.funcBody(s, nil, e.Type, e.Body)
	case *ast.CompositeLit:
		a.compositeLit(s, e, nil)
	case *ast.ParenExpr:
		a.expr(s, e.X)
	case *ast.SelectorExpr:
		a.expr(s, e.X)
	case *ast.IndexExpr:
		a.expr(s, e.X)
		a.expr(s, e.Index)
	case *ast.IndexListExpr:
		a.expr(s, e.X)
		a.exprs(s, e.Indices)
	case *ast.SliceExpr:
		a.expr(s, e.X)
		a.expr(s, e.Low)
		a.expr(s, e.High)
		a.expr(s, e.Max)
	case *ast.TypeAssertExpr:
		a.expr(s, e.X)
		a.expr(s, e.Type)
	case *ast.CallExpr:
		a.expr(s, e.Fun)
		a.exprs(s, e.Args)
	case *ast.StarExpr:
		a.expr(s, e.X)
	case *ast.UnaryExpr:
		a.expr(s, e.X)
	case *ast.BinaryExpr:
		a.expr(s, e.X)
		a.expr(s, e.Y)
	case *ast.KeyValueExpr:
		a.expr(s, e.Key)
		a.expr(s, e.Value)
	case *ast.ArrayType:
		a.expr(s, e.Len)
		a.expr(s, e.Elt)
	case *ast.StructType:
		a.fieldTypes(s, e.Fields, "field-decl")
	case *ast.FuncType:
		a.fieldTypes(s, e.Params, "functype-param")
		a.fieldTypes(s, e.Results, "functype-param")
	case *ast.InterfaceType:
		if e.Methods != nil {
			for _, f := range e.Methods.List {
				a.expr(s, f.Type)
				for _, n := range f.Names {
					a.nonRef(s, n, "method-name")
				}
			}
		}
	case *ast.MapType:
		a.expr(s, e.Key)
		a.expr(s, e.Value)
	case *ast.ChanType:
		a.expr(s, e.Value)
	default:
		panic(fmt.Sprintf("c17 reference analysis: unsupported expression %T", e))
	}
}

func (a *refAnalyzer) stmts(s *refScope, l []ast.Stmt) {
	for _, st := range l {
		a.stmt(s, st)
	}
}

// localGenDecl handles a declaration statement in scope s.
func (a *refAnalyzer) localGenDecl(s *refScope, d *ast.GenDecl) {
	var prevType ast.Expr
	var prevVals []ast.Expr
	for _, sp := range d.Specs {
		switch sp := sp.(type) {
		case *ast.ValueSpec:
			typ, vals := sp.Type, sp.Values
			if d.Tok == token.CONST {
				if typ == nil && vals == nil {
					typ, vals = prevType, prevVals
				} else {
					prevType, prevVals = typ, vals
				}
			}
			a.expr(s, typ)
			a.exprs(s, vals)
			b := "var"
			if d.Tok == token.CONST {
				b = "const"
			}
			for _, n := range sp.Names {
				a.declare(s, n, b)
			}
		case *ast.TypeSpec:
			a.declare(s, sp.Name, "type")
			if s != nil && sp.Name.Name != "_" {
				s.types[sp.Name.Name] = sp.Type
			}
			a.expr(s, sp.Type)
		}
	}
}

func (a *refAnalyzer) stmt(s *refScope, st ast.Stmt) {
	switch st := st.(type) {
	case nil:
	case *ast.EmptyStmt:
	case *ast.ExprStmt:
		a.expr(s, st.X)
	case *ast.SendStmt:
		a.expr(s, st.Chan)
		a.expr(s, st.Value)
	case *ast.IncDecStmt:
		a.expr(s, st.X)
	case *ast.AssignStmt:
		a.exprs(s, st.Rhs)
		if st.Tok == token.DEFINE {
			for _, l := range st.Lhs {
				id, ok := l.(*ast.Ident)
				if !ok {
					a.expr(s, l)
					continue
				}
				if _, have := s.names[id.Name]; have {
					a.ident(s, id) // plain assignment to the existing local
				} else {
					a.declare(s, id, "define")
					a.nonRef(s, id, "define")
				}
			}
		} else {
			a.exprs(s, st.Lhs)
		}
	case *ast.GoStmt:
		a.expr(s, st.Call)
	case *ast.DeferStmt:
		a.expr(s, st.Call)
	case *ast.ReturnStmt:
		a.exprs(s, st.Results)
	case *ast.BranchStmt:
		a.nonRef(s, st.Label, "label")
	case *ast.LabeledStmt:
		a.nonRef(s, st.Label, "label")
		a.stmt(s, st.Stmt)
	case *ast.BlockStmt:
		a.stmts(a.push(s), st.List)
	case *ast.DeclStmt:
		if gd, ok := st.Decl.(*ast.GenDecl); ok {
			a.localGenDecl(s, gd)
		}
	case *ast.IfStmt:
		is := a.push(s)
		a.stmt(is, st.Init)
		a.expr(is, st.Cond)
		a.stmt(is, st.Body)
		a.stmt(is, st.Else)
	case *ast.ForStmt:
		fs := a.push(s)
		a.stmt(fs, st.Init)
		a.expr(fs, st.Cond)
		a.stmt(fs, st.Post)
		a.stmt(fs, st.Body)
	case *ast.RangeStmt:
		a.expr(s, st.X)
		rs := a.push(s)
		if st.Tok == token.DEFINE {
			for _, kv := range []ast.Expr{st.Key, st.Value} {
				if id, ok := kv.(*ast.Ident); ok {
					a.declare(rs, id, "range")
					a.nonRef(rs, id, "range")
				}
			}
		} else {
			a.expr(rs, st.Key)
			a.expr(rs, st.Value)
		}
		a.stmt(rs, st.Body)
	case *ast.SwitchStmt:
		ss := a.push(s)
		a.stmt(ss, st.Init)
		a.expr(ss, st.Tag)
		for _, c := range st.Body.List {
			cc := c.(*ast.CaseClause)
			cs := a.push(ss)
			a.exprs(cs, cc.List)
			a.stmts(cs, cc.Body)
		}
	case *ast.TypeSwitchStmt:
		ss := a.push(s)
		a.stmt(ss, st.Init)
		var bind *ast.Ident
		switch as := st.Assign.(type) {
		case *ast.ExprStmt:
			a.expr(ss, as.X)
		case *ast.AssignStmt:
			a.exprs(ss, as.Rhs)
			if len(as.Lhs) == 1 {
				bind, _ = as.Lhs[0].(*ast.Ident)
				a.nonRef(ss, bind, "typeswitch")
			}
		}
		for _, c := range st.Body.List {
			cc := c.(*ast.CaseClause)
			cs := a.push(ss)
			a.exprs(cs, cc.List)
			if bind != nil {
				a.declare(cs, bind, "typeswitch")
			}
			a.stmts(cs, cc.Body)
		}
	case *ast.SelectStmt:
		for _, c := range st.Body.List {
			cc := c.(*ast.CommClause)
			cs := a.push(s)
			a.stmt(cs, cc.Comm)
			a.stmts(cs, cc.Body)
		}
	default:
		panic(fmt.Sprintf("c17 reference analysis: unsupported statement %T", st))
	}
}

// refAnalyze parses a run of top-level declarations (std go/parser) and returns its units in source order.
func refAnalyze(declSrc string) ([]*refUnit, *ast.File, *token.FileSet, error) {
	fset := token.NewFileSet()
	f, err := parser.ParseFile(fset, "run.go", "package p;"+declSrc, parser.SkipObjectResolution)
	if err != nil {
		return nil, nil, nil, err
	}
	return refAnalyzeFile(fset, f), f, fset, nil
}

// refAnalyzeFile analyses one parsed file.
func refAnalyzeFile(fset *token.FileSet, f *ast.File) []*refUnit {
	a := &refAnalyzer{top: map[string]bool{}, topTypes: map[string]ast.Expr{}}
	for _, d := range f.Decls {
		switch d := d.(type) {
		case *ast.GenDecl:
			for _, sp := range d.Specs {
				switch sp := sp.(type) {
				case *ast.ValueSpec:
					for _, n := range sp.Names {
						a.top[n.Name] = true
					}
				case *ast.TypeSpec:
					a.top[sp.Name.Name] = true
					a.topTypes[sp.Name.Name] = sp.Type
				}
			}
		case *ast.FuncDecl:
			if d.Recv == nil {
				a.top[d.Name.Name] = true
			}
		}
	}
	delete(a.top, "_")
	var units []*refUnit
	add := func(name, kind string, pos token.Pos, self bool, fn func()) {
		a.occs = nil
		fn()
		u := &refUnit{Name: name, Kind: kind, Idx: len(units), Line: fset.Position(pos).Line, Occs: a.occs}
		set := map[string]bool{}
		for _, o := range a.occs {
			if o.Free && !(self && o.Name == name) {
				set[o.Name] = true
			}
		}
		for n := range set {
			u.Deps = append(u.Deps, n)
		}
		sort.Strings(u.Deps)
		units = append(units, u)
	}
	for _, d := range f.Decls {
		switch d := d.(type) {
		case *ast.GenDecl:
			var prevType ast.Expr
			var prevVals []ast.Expr
			for _, sp := range d.Specs {
				switch sp := sp.(type) {
				case *ast.ValueSpec:
					typ, vals := sp.Type, sp.Values
					if d.Tok == token.CONST {
						if typ == nil && vals == nil {
							typ, vals = prevType, prevVals
						} else {
							prevType, prevVals = typ, vals
						}
					}
					multi := d.Tok == token.VAR && len(sp.Names) > 1 && len(vals) == 1
					for i, n := range sp.Names {
						kind := "Var"
						if d.Tok == token.CONST {
							kind = "Const"
						} else if multi {
							kind = "VarMulti"
						}
						i := i
						add(n.Name, kind, n.Pos(), false, func() {
							a.expr(nil, typ)
							if multi {
								a.expr(nil, vals[0])
							} else if i < len(vals) {
								a.expr(nil, vals[i])
							}
						})
					}
				case *ast.TypeSpec:
					add(sp.Name.Name, "Type", sp.Name.Pos(), true, func() {
						var ts *refScope
						if sp.TypeParams != nil {
							ts = a.typeParams(nil, sp.TypeParams)
						}
						a.expr(ts, sp.Type)
					})
					units[len(units)-1].Generic = sp.TypeParams != nil
				}
			}
		case *ast.FuncDecl:
			if d.Recv == nil {
				add(d.Name.Name, "Func", d.Name.Pos(), true, func() { a.funcBody(nil, nil, d.Type, d.Body) })
				units[len(units)-1].Generic = d.Type.TypeParams != nil
			} else {
				rt := ""
				if len(d.Recv.List) == 1 {
					t := d.Recv.List[0].Type
					if st, ok := t.(*ast.StarExpr); ok {
						t = st.X
					}
					if id, ok := t.(*ast.Ident); ok {
						rt = id.Name
					}
				}
				add(rt+"."+d.Name.Name, "Method", d.Name.Pos(), false, func() { a.funcBody(nil, d.Recv, d.Type, d.Body) })
			}
		}
	}
	return units
}

// refTypesDeps is the cross-check of refAnalyze: for a run that type-checks, the package-level objects of the
// run used by each top-level declaration according to std go/types. ok=false: the run does not type-check.
func refTypesDeps(f *ast.File, fset *token.FileSet, imp types.Importer) (deps map[string][]string, ok bool) {
	info := &types.Info{Uses: map[*ast.Ident]types.Object{}, Defs: map[*ast.Ident]types.Object{}}
	bad := false
	conf := types.Config{Importer: imp, Error: func(err error) {
		if !strings.Contains(err.Error(), "declared and not used") {
			bad = true
		}
	}}
	pkg, _ := conf.Check("p", fset, []*ast.File{f}, info)
	if bad || pkg == nil {
		return nil, false
	}
	deps = map[string][]string{}
	collect := func(name string, self bool, nodes ...ast.Node) {
		set := map[string]bool{}
		for _, n := range nodes {
			if n == nil {
				continue
			}
			ast.Inspect(n, func(x ast.Node) bool {
				if id, isId := x.(*ast.Ident); isId {
					if obj := info.Uses[id]; obj != nil && obj.Pkg() == pkg && obj.Parent() == pkg.Scope() {
						if !(self && obj.Name() == name) {
							set[obj.Name()] = true
						}
					}
				}
				return true
			})
		}
		l := []string{}
		for n := range set {
			l = append(l, n)
		}
		sort.Strings(l)
		deps[name] = l
	}
	for _, d := range f.Decls {
		switch d := d.(type) {
		case *ast.GenDecl:
			var prevType ast.Expr
			var prevVals []ast.Expr
			for _, sp := range d.Specs {
				switch sp := sp.(type) {
				case *ast.ValueSpec:
					typ, vals := sp.Type, sp.Values
					if d.Tok == token.CONST {
						if typ == nil && vals == nil {
							typ, vals = prevType, prevVals
						} else {
							prevType, prevVals = typ, vals
						}
					}
					for i, n := range sp.Names {
						var nodes []ast.Node
						if typ != nil {
							nodes = append(nodes, typ)
						}
						if len(sp.Names) > 1 && len(vals) == 1 {
							nodes = append(nodes, vals[0])
						} else if i < len(vals) {
							nodes = append(nodes, vals[i])
						}
						collect(n.Name, false, nodes...)
					}
				case *ast.TypeSpec:
					collect(sp.Name.Name, true, sp.Type)
				}
			}
		case *ast.FuncDecl:
			if d.Recv == nil {
				if d.Body != nil {
					collect(d.Name.Name, true, d.Type, d.Body)
				} else {
					collect(d.Name.Name, true, d.Type)
				}
			}
		}
	}
	return deps, true
}

// ---------------------------------------------------------------------------
// reference order

// refGraph is the dependency graph of one run of declarations.
type refGraph struct {
	Names []string            // source order
	Kind  map[string]string   // name -> kind
	Idx   map[string]int      // name -> source rank
	Deps  map[string][]string // name -> referenced names of the run
}

// breakable tells whether edge from→to is satisfied by a forward declaration of `to`.
func (g *refGraph) breakable(from, to string) bool {
	return g.Kind[from] == "Type" && g.Kind[to] == "Type"
}

// hasCycle reports a cycle in the graph restricted by keep(from,to).
func (g *refGraph) hasCycle(keep func(from, to string) bool) bool {
	state := map[string]int{}
	var visit func(n string) bool
	visit = func(n string) bool {
		state[n] = 1
		for _, d := range g.Deps[n] {
			if !keep(n, d) {
				continue
			}
			if state[d] == 1 {
				return true
			}
			if state[d] == 0 && visit(d) {
				return true
			}
		}
		state[n] = 2
		return false
	}
	for _, n := range g.Names {
		if state[n] == 0 && visit(n) {
			return true
		}
	}
	return false
}

// onCycle tells whether n lies on a dependency cycle (of length >= 2: self references of types are not edges).
func (g *refGraph) onCycle(n string) bool {
	seen := map[string]bool{}
	var reach func(x string) bool
	reach = func(x string) bool {
		for _, d := range g.Deps[x] {
			if d == n {
				return true
			}
			if !seen[d] {
				seen[d] = true
				if reach(d) {
					return true
				}
			}
		}
		return false
	}
	return reach(n)
}

// topo is the ~20-line reference order: repeatedly take the earliest declaration in the source all of whose
// dependencies were already taken. ok=false: stuck (a cycle).
func (g *refGraph) topo() (order []string, ok bool) {
	done := map[string]bool{}
	for len(order) < len(g.Names) {
		next := ""
		for _, n := range g.Names { // source order
			if done[n] {
				continue
			}
			ready := true
			for _, d := range g.Deps[n] {
				if !done[d] {
					ready = false
				}
			}
			if ready {
				next = n
				break
			}
		}
		if next == "" {
			return order, false
		}
		done[next] = true
		order = append(order, next)
	}
	return order, true
}

// sortedItem is one element of the implementation's output for a run of declarations.
type sortedItem struct {
	Kind string
	Name string
}

// validate checks an output of the sorter against graph g step by step ("lock-step reference"): every element
// must be the earliest declaration in the source whose dependencies are satisfied at that point (a dependency of
// a type on a type is also satisfied by an earlier forward declaration); forward declarations are allowed only for
// types on a cycle, once, before the type itself. Returns "" or a description of the first problem, and a class.
func (g *refGraph) validate(out []sortedItem) (class, msg string) {
	full := map[string]bool{}
	fwd := map[string]bool{}
	satisfied := func(n string) (bool, string) {
		for _, d := range g.Deps[n] {
			if full[d] || (fwd[d] && g.breakable(n, d)) {
				continue
			}
			return false, d
		}
		return true, ""
	}
	for i, it := range out {
		if _, known := g.Kind[it.Name]; !known {
			return "unknown-name", fmt.Sprintf("element %d: %s %s is not a declared name of the run", i, it.Kind, it.Name)
		}
		if it.Kind == "TypeFwd" {
			switch {
			case g.Kind[it.Name] != "Type":
				return "fwd-of-non-type", fmt.Sprintf("forward declaration of %s which is a %s", it.Name, g.Kind[it.Name])
			case fwd[it.Name]:
				return "fwd-twice", fmt.Sprintf("two forward declarations of %s", it.Name)
			case full[it.Name]:
				return "fwd-after-type", fmt.Sprintf("forward declaration of %s after its declaration", it.Name)
			case !g.onCycle(it.Name):
				return "fwd-not-on-cycle", fmt.Sprintf("forward declaration of %s which is on no dependency cycle", it.Name)
			}
			fwd[it.Name] = true
			continue
		}
		if it.Kind != g.Kind[it.Name] {
			return "kind", fmt.Sprintf("%s reported with kind %s, declared as %s", it.Name, it.Kind, g.Kind[it.Name])
		}
		if full[it.Name] {
			return "duplicate", fmt.Sprintf("%s returned twice", it.Name)
		}
		if ok, missing := satisfied(it.Name); !ok {
			return "edge-not-respected", fmt.Sprintf("%s %s is placed before %s which occurs free in it", it.Kind, it.Name, missing)
		}
		for _, n := range g.Names {
			if full[n] {
				continue
			}
			if ok, _ := satisfied(n); ok {
				if n != it.Name {
					return "not-source-stable", fmt.Sprintf("%s taken although %s (earlier in the source) was also allowed next", it.Name, n)
				}
				break
			}
		}
		full[it.Name] = true
	}
	for _, n := range g.Names {
		if !full[n] {
			return "missing", fmt.Sprintf("%s is never returned", n)
		}
	}
	return "", ""
}
