package props

// C11, part 1b — compiled functions called from interpreted code receive and return the same values as in Go.
// Every exported function of the chosen packages (enumerated by reflection on gomacro's own import tables,
// imports.Packages[pkg].Binds) whose parameters are all of basic kinds (<=3 of them, not variadic) is called
// with EVERY combination of a boundary-value alphabet per kind
//   (a) natively, through reflect, on the very function value the interpreter was given, and
//   (b) through the interpreter, in two shapes: an interpreted wrapper function (arguments arrive in
//       interpreted parameters = local slots) that is itself invoked from compiled code, and a call
//       expression with literal (constant) arguments.
// Results (canonical value form, error text) and panics must be identical.

import (
	"fmt"
	"math"
	r "reflect"
	"sort"
	"strconv"
	"strings"

	"github.com/cosmos72/gomacro/imports"

	"verif/harness/core"
	"verif/harness/h"
	"verif/harness/twin"
)

type c11Func struct {
	Pkg, Name string
	fn        r.Value
}

func c11NativePkgs(c *core.Ctx) []string {
	pk := []string{"strings", "math", "strconv", "unicode"}
	if c.Thorough() {
		pk = append(pk, "unicode/utf8", "math/bits")
	}
	return pk
}

func c11BasicKind(k r.Kind) bool {
	switch k {
	case r.Bool, r.Int, r.Int8, r.Int16, r.Int32, r.Int64, r.Uint, r.Uint8, r.Uint16, r.Uint32, r.Uint64,
		r.Float32, r.Float64, r.String:
		return true
	}
	return false
}

// c11Funcs lists the functions in scope, in canonical order.
func c11Funcs(pkgs []string) []c11Func {
	var out []c11Func
	for _, p := range pkgs {
		pkg, ok := imports.Packages[p]
		if !ok {
			panic("C11: package not in gomacro's import tables: " + p)
		}
		var names []string
		for name, v := range pkg.Binds {
			if v.Kind() != r.Func || v.IsNil() {
				continue
			}
			t := v.Type()
			if t.IsVariadic() || t.NumIn() == 0 || t.NumIn() > 3 {
				continue
			}
			ok := true
			for i := 0; i < t.NumIn(); i++ {
				if !c11BasicKind(t.In(i).Kind()) {
					ok = false
				}
			}
			if ok {
				names = append(names, name)
			}
		}
		sort.Strings(names)
		for _, n := range names {
			out = append(out, c11Func{Pkg: p, Name: n, fn: pkg.Binds[n]})
		}
	}
	return out
}

// ---- value alphabets -------------------------------------------------------------------------

var c11Strings = []string{"", "a", "aB ", " ", "-12", "é", "0x1F", "\x00\xff", "B", "a a", "1e3", "true", "+Inf", "18446744073709551616", "abcabc", "0.1"}
var c11Ints = []int64{0, 1, -1, 2, 3, 10, 16, 64, math.MaxInt64, math.MinInt64, 7, 8, 36, 37, -64, math.MaxInt64 - 1}
var c11SmallInts = []int64{0, 1, -1, 2, 3, 10, 16, 64, 7, 8, 36, 37, -64}
var c11Runes = []int64{'a', 'B', ' ', 0, -1, 0xE9, 0x10FFFF, 0x110000, 0xD800, 0xFFFD, '\n', '9', 0x1C5, math.MaxInt32, math.MinInt32, 0x2028}
var c11Bytes = []uint64{0, 'a', 'B', ' ', 'e', 255, 'g', 'x', '\n', '0'}
var c11Uints = []uint64{0, 1, 2, 3, 8, 64, math.MaxUint64, 1 << 63, 255, 256, 1 << 32, math.MaxUint64 - 1}
var c11Uint32s = []uint64{0, 1, 0x7F800000, 0x7FC00000, 0x80000000, math.MaxUint32, 0x3F800000, 0xFF800000}
var c11Floats = []float64{0, math.Copysign(0, -1), 1, -1, 0.5, 3, math.Inf(1), math.Inf(-1), math.NaN(), math.MaxFloat64, math.SmallestNonzeroFloat64,
	-2.5, 100, 1e-7, 1 << 53, -(1 << 63)}
var c11Float32s = []float64{0, math.Copysign(0, -1), 1, -1.5, math.Inf(1), math.NaN(), math.MaxFloat32, math.SmallestNonzeroFloat32}

// functions whose int parameter is a loop count or an allocation size: only small values (a huge value is
// an endless loop or an out-of-memory crash in compiled Go itself, not an interop question)
var c11SmallIntFuncs = map[string]bool{"math.Jn": true, "math.Yn": true, "strings.Repeat": true}

// c11Alphabet returns the values for parameter type t; limit > 0 keeps only the first limit values.
func c11Alphabet(fq string, t r.Type, limit int) []r.Value {
	var vs []r.Value
	add := func(x interface{}) { vs = append(vs, r.ValueOf(x).Convert(t)) }
	switch t.Kind() {
	case r.String:
		for _, s := range c11Strings {
			add(s)
		}
	case r.Bool:
		add(false)
		add(true)
	case r.Int, r.Int64:
		src := c11Ints
		if c11SmallIntFuncs[fq] {
			src = c11SmallInts
		}
		for _, i := range src {
			add(i)
		}
	case r.Int32:
		for _, i := range c11Runes {
			add(int32(i))
		}
	case r.Int16:
		for _, i := range []int16{0, 1, -1, math.MaxInt16, math.MinInt16} {
			add(i)
		}
	case r.Int8:
		for _, i := range []int8{0, 1, -1, math.MaxInt8, math.MinInt8} {
			add(i)
		}
	case r.Uint8:
		for _, u := range c11Bytes {
			add(uint8(u))
		}
	case r.Uint16:
		for _, u := range []uint16{0, 1, 255, 256, math.MaxUint16} {
			add(u)
		}
	case r.Uint32:
		for _, u := range c11Uint32s {
			add(uint32(u))
		}
	case r.Uint, r.Uint64:
		for _, u := range c11Uints {
			add(u)
		}
	case r.Float64:
		for _, f := range c11Floats {
			add(f)
		}
	case r.Float32:
		for _, f := range c11Float32s {
			add(float32(f))
		}
	default:
		panic("C11: no alphabet for " + t.String())
	}
	if limit > 0 && len(vs) > limit {
		vs = vs[:limit]
	}
	return vs
}

// c11Literal renders v as a Go literal usable as a constant argument ("" = not expressible as a literal).
func c11Literal(v r.Value) string {
	switch v.Kind() {
	case r.String:
		return strconv.Quote(v.String())
	case r.Bool:
		return strconv.FormatBool(v.Bool())
	case r.Int, r.Int8, r.Int16, r.Int32, r.Int64:
		return strconv.FormatInt(v.Int(), 10)
	case r.Uint, r.Uint8, r.Uint16, r.Uint32, r.Uint64:
		return strconv.FormatUint(v.Uint(), 10)
	case r.Float32, r.Float64:
		f := v.Float()
		if math.IsNaN(f) || math.IsInf(f, 0) || (f == 0 && math.Signbit(f)) {
			return ""
		}
		bits := 64
		if v.Kind() == r.Float32 {
			bits = 32
		}
		s := strconv.FormatFloat(f, 'g', -1, bits)
		if !strings.ContainsAny(s, ".e") {
			s += ".0"
		}
		return s
	}
	return ""
}

// c11Render gives the canonical form of a result list (errors additionally by their text).
func c11Render(vs []r.Value) string {
	var sb strings.Builder
	for i, v := range vs {
		if i > 0 {
			sb.WriteString(" ; ")
		}
		if !v.IsValid() {
			sb.WriteString("<invalid>")
			continue
		}
		var x interface{}
		if v.CanInterface() {
			x = v.Interface()
		}
		sb.WriteString(h.Fmt(x))
		if e, ok := x.(error); ok && e != nil {
			sb.WriteString(" error(" + strconv.Quote(e.Error()) + ")")
		}
	}
	return sb.String()
}

func c11PanicText(p interface{}) string {
	if e, ok := p.(error); ok {
		return "PANIC(" + e.Error() + ")"
	}
	return "PANIC(" + fmt.Sprint(p) + ")"
}

type c11NativeCase struct {
	Kind  string   `json:"kind"` // "native"
	Pkg   string   `json:"pkg"`
	Func  string   `json:"func"`
	Idx   []int    `json:"arg_indexes"`
	Limit int      `json:"alphabet_limit"`
	Shape string   `json:"shape"`
	Args  []string `json:"args"`
	Src   string   `json:"interpreted_source"`
}

// c11NativeState is one worker's interpreter for this part.
type c11NativeState struct {
	ir       *twin.Interp
	imported map[string]bool
	samples  int
}

func (st *c11NativeState) ensure(pkg string) {
	if st.ir == nil {
		st.ir = twin.NewFast()
		st.imported = map[string]bool{}
	}
	if !st.imported[pkg] {
		st.ir.Eval("import " + strconv.Quote(pkg))
		st.imported[pkg] = true
	}
}

func c11PkgIdent(pkg string) string { return pkg[strings.LastIndex(pkg, "/")+1:] }

// c11Wrapper declares (once) and returns the interpreted wrapper of f as a compiled-callable func value.
func (st *c11NativeState) wrapper(f *c11Func) (r.Value, string) {
	t := f.fn.Type()
	name := "W_" + c11PkgIdent(f.Pkg) + "_" + f.Name
	var params, args, res []string
	for i := 0; i < t.NumIn(); i++ {
		params = append(params, fmt.Sprintf("a%d %s", i, t.In(i).String()))
		args = append(args, fmt.Sprintf("a%d", i))
	}
	for i := 0; i < t.NumOut(); i++ {
		res = append(res, fmt.Sprintf("r%d", i))
	}
	call := fmt.Sprintf("%s.%s(%s)", c11PkgIdent(f.Pkg), f.Name, strings.Join(args, ", "))
	var body string
	if len(res) == 0 {
		body = call + "; return nil"
	} else {
		body = strings.Join(res, ", ") + " := " + call + "; return []interface{}{" + strings.Join(res, ", ") + "}"
	}
	src := fmt.Sprintf("func %s(%s) []interface{} { %s }", name, strings.Join(params, ", "), body)
	st.ir.Eval(src)
	v := st.ir.ValueOf(name)
	return v.ReflectValue(), src
}

// c11NativeFunc runs every argument combination of one function. Returns the number of calls compared.
func c11NativeFunc(c *core.Ctx, st *c11NativeState, f *c11Func, limit int, only []int, onlyShape string) {
	fq := f.Pkg + "." + f.Name
	t := f.fn.Type()
	st.ensure(f.Pkg)
	alph := make([][]r.Value, t.NumIn())
	for i := range alph {
		alph[i] = c11Alphabet(fq, t.In(i), limit)
	}
	var wrap r.Value
	var wsrc string
	if perr := twin.Catch(func() { wrap, wsrc = st.wrapper(f) }); perr != nil {
		c.Violation("C11|native|"+fq+"|wrapper-rejected", fmt.Sprintf("the interpreter rejects a wrapper function around %s: %v", fq, perr),
			c11NativeCase{Kind: "native", Pkg: f.Pkg, Func: f.Name, Shape: "wrapper", Limit: limit})
		return
	}
	zero := func() string {
		var zs []r.Value
		for i := 0; i < t.NumOut(); i++ {
			zs = append(zs, r.Zero(t.Out(i)))
		}
		return c11Render(zs)
	}()
	idx := make([]int, len(alph))
	for {
		if only != nil {
			copy(idx, only)
		}
		args := make([]r.Value, len(idx))
		var argtxt []string
		lits := make([]string, len(idx))
		allLit := true
		for i, k := range idx {
			args[i] = alph[i][k]
			argtxt = append(argtxt, h.Fmt(args[i].Interface()))
			lits[i] = c11Literal(args[i])
			if lits[i] == "" {
				allLit = false
			}
		}
		// (a) native
		var want string
		if p := core.Catch(func() { want = c11Render(f.fn.Call(args)) }); p != nil {
			want = c11PanicText(p)
		}
		if want != zero {
			c.Nontrivial(fq + "(" + strings.Join(argtxt, ",") + ")")
		}
		mk := func(shape, src string) c11NativeCase {
			return c11NativeCase{Kind: "native", Pkg: f.Pkg, Func: f.Name, Idx: append([]int{}, idx...), Limit: limit, Shape: shape, Args: argtxt, Src: src}
		}
		// (b1) interpreted wrapper, invoked from compiled code
		if onlyShape == "" || onlyShape == "wrapper" {
			c.Eval(1)
			var got string
			if p := core.Catch(func() {
				out := wrap.Call(args)
				var vs []r.Value
				if sl := out[0]; !sl.IsNil() {
					for i := 0; i < sl.Len(); i++ {
						e := sl.Index(i) // interface{} element
						if e.IsNil() {
							vs = append(vs, r.Zero(t.Out(i)))
						} else {
							vs = append(vs, e.Elem())
						}
					}
				}
				got = c11Render(vs)
			}); p != nil {
				got = c11PanicText(p)
			}
			if got != want {
				c.Violation("C11|native|"+fq+"|wrapper", fmt.Sprintf("%s(%s): direct native call gives %q, through an interpreted wrapper function %q", fq, strings.Join(argtxt, ", "), want, got), mk("wrapper", wsrc))
			}
		}
		// (b2) call expression with constant arguments
		if allLit && (onlyShape == "" || onlyShape == "literal") {
			c.Eval(1)
			src := fmt.Sprintf("%s.%s(%s)", c11PkgIdent(f.Pkg), f.Name, strings.Join(lits, ", "))
			var got string
			if p := twin.Catch(func() {
				xs, _ := st.ir.Eval(src)
				var vs []r.Value
				for i, x := range xs {
					v := x.ReflectValue()
					if !v.IsValid() && i < t.NumOut() {
						v = r.Zero(t.Out(i)) // nil interface result
					}
					vs = append(vs, v)
				}
				got = c11Render(vs)
			}); p != nil {
				got = c11PanicText(p)
			}
			if got != want {
				c.Violation("C11|native|"+fq+"|literal", fmt.Sprintf("%s: direct native call gives %q, interpreter gives %q", src, want, got), mk("literal", src))
			}
			if c.WantSample() && want != zero && st.samples < 2 && len(idx) > 1 {
				st.samples++
				c.Sample(map[string]string{"part": "compiled function from interpreted code", "call": src, "result": want})
			}
		}
		if only != nil {
			return
		}
		// next combination
		k := len(idx) - 1
		for k >= 0 {
			idx[k]++
			if idx[k] < len(alph[k]) {
				break
			}
			idx[k] = 0
			k--
		}
		if k < 0 {
			return
		}
	}
}

// c11NativeLimit is the alphabet limit for a function with n parameters.
func c11NativeLimit(c *core.Ctx, n int) int {
	if c.Thorough() {
		return 0
	}
	switch n {
	case 1:
		return 0
	case 2:
		return 10
	}
	return 6
}
