package props

// C29 — attribute comparison of one xreflect.Type with the reflect.Type it describes, and the independent
// printer that renders a reflect.Type the way go/types renders the corresponding type (package-path qualified).

import (
	"bytes"
	"fmt"
	"go/token"
	r "reflect"
	"sort"
	"strings"

	"github.com/cosmos72/gomacro/go/types"
	xr "github.com/cosmos72/gomacro/xreflect"

	"verif/harness/core"
)

// c29Ptr returns the address of the *xtype behind a Type (Type is a closure returning it): object identity.
func c29Ptr(t xr.Type) uintptr {
	if t == nil {
		return 0
	}
	v := r.ValueOf(t)
	out := v.Call([]r.Value{r.Zero(v.Type().In(0))})
	return out[0].Pointer()
}

func c29TypeString(rt r.Type) string {
	var b bytes.Buffer
	c29WriteType(&b, rt)
	return b.String()
}

func c29WriteType(b *bytes.Buffer, rt r.Type) {
	if name := rt.Name(); name != "" {
		if p := rt.PkgPath(); p != "" {
			b.WriteString(p)
			b.WriteByte('.')
		}
		b.WriteString(name)
		return
	}
	switch rt.Kind() {
	case r.Array:
		fmt.Fprintf(b, "[%d]", rt.Len())
		c29WriteType(b, rt.Elem())
	case r.Slice:
		b.WriteString("[]")
		c29WriteType(b, rt.Elem())
	case r.Ptr:
		b.WriteByte('*')
		c29WriteType(b, rt.Elem())
	case r.Map:
		b.WriteString("map[")
		c29WriteType(b, rt.Key())
		b.WriteByte(']')
		c29WriteType(b, rt.Elem())
	case r.Chan:
		switch rt.ChanDir() {
		case r.BothDir:
			b.WriteString("chan ")
			if e := rt.Elem(); e.Name() == "" && e.Kind() == r.Chan && e.ChanDir() == r.RecvDir {
				b.WriteByte('(')
				c29WriteType(b, e)
				b.WriteByte(')')
				return
			}
		case r.SendDir:
			b.WriteString("chan<- ")
		case r.RecvDir:
			b.WriteString("<-chan ")
		}
		c29WriteType(b, rt.Elem())
	case r.Func:
		b.WriteString("func")
		c29WriteSig(b, rt, 0)
	case r.Struct:
		b.WriteString("struct{")
		for i := 0; i < rt.NumField(); i++ {
			f := rt.Field(i)
			if i > 0 {
				b.WriteString("; ")
			}
			if !f.Anonymous {
				b.WriteString(f.Name)
				b.WriteByte(' ')
			}
			c29WriteType(b, f.Type)
			if f.Tag != "" {
				fmt.Fprintf(b, " %q", string(f.Tag))
			}
		}
		b.WriteByte('}')
	case r.Interface:
		type m struct {
			id string
			mt r.Method
		}
		var ms []m
		for i := 0; i < rt.NumMethod(); i++ {
			mt := rt.Method(i)
			id := mt.Name
			if !token.IsExported(mt.Name) {
				id = mt.PkgPath + "." + mt.Name
			}
			ms = append(ms, m{id, mt})
		}
		sort.Slice(ms, func(i, j int) bool { return ms[i].id < ms[j].id })
		b.WriteString("interface{")
		for i, x := range ms {
			if i > 0 {
				b.WriteString("; ")
			}
			b.WriteString(x.mt.Name)
			c29WriteSig(b, x.mt.Type, 0)
		}
		b.WriteByte('}')
	default:
		b.WriteString(rt.String())
	}
}

func c29WriteSig(b *bytes.Buffer, rt r.Type, skip int) {
	b.WriteByte('(')
	for i := skip; i < rt.NumIn(); i++ {
		if i > skip {
			b.WriteString(", ")
		}
		if rt.IsVariadic() && i == rt.NumIn()-1 {
			b.WriteString("...")
			c29WriteType(b, rt.In(i).Elem())
		} else {
			c29WriteType(b, rt.In(i))
		}
	}
	b.WriteByte(')')
	switch n := rt.NumOut(); n {
	case 0:
	case 1:
		b.WriteByte(' ')
		c29WriteType(b, rt.Out(0))
	default:
		b.WriteString(" (")
		for i := 0; i < n; i++ {
			if i > 0 {
				b.WriteString(", ")
			}
			c29WriteType(b, rt.Out(i))
		}
		b.WriteByte(')')
	}
}

// c29StringMatches reports whether got is the go/types rendering of rt, allowing parameter and result NAMES
// (they are not part of a type's identity; the canonical object may stem from an imported declaration that has them).
func c29StringMatches(got string, rt r.Type) bool {
	for _, end := range c29Match(got, 0, rt) {
		if end == len(got) {
			return true
		}
	}
	return false
}

func c29Lit(s string, pos []int, lit string) []int {
	var out []int
	for _, p := range pos {
		if strings.HasPrefix(s[p:], lit) {
			out = append(out, p+len(lit))
		}
	}
	return out
}

func c29Seq(s string, pos []int, rt r.Type) []int {
	seen := map[int]bool{}
	var out []int
	for _, p := range pos {
		for _, e := range c29Match(s, p, rt) {
			if !seen[e] {
				seen[e] = true
				out = append(out, e)
			}
		}
	}
	return out
}

// c29OptName: positions after an optional "identifier " prefix.
func c29OptName(s string, pos []int) []int {
	out := append([]int{}, pos...)
	for _, p := range pos {
		q := p
		for q < len(s) && (s[q] == '_' || s[q] >= 'a' && s[q] <= 'z' || s[q] >= 'A' && s[q] <= 'Z' || s[q] >= '0' && s[q] <= '9' || s[q] >= 0x80) {
			q++
		}
		if q > p && q < len(s) && s[q] == ' ' {
			out = append(out, q+1)
		}
	}
	return out
}

func c29MatchTuple(s string, pos []int, n int, at func(int) r.Type, variadic bool) []int {
	pos = c29Lit(s, pos, "(")
	for i := 0; i < n; i++ {
		if i > 0 {
			pos = c29Lit(s, pos, ", ")
		}
		pos = c29OptName(s, pos)
		if variadic && i == n-1 {
			pos = c29Seq(s, c29Lit(s, pos, "..."), at(i).Elem())
		} else {
			pos = c29Seq(s, pos, at(i))
		}
	}
	return c29Lit(s, pos, ")")
}

func c29MatchSig(s string, pos []int, rt r.Type) []int {
	pos = c29MatchTuple(s, pos, rt.NumIn(), rt.In, rt.IsVariadic())
	switch n := rt.NumOut(); n {
	case 0:
		return pos
	case 1:
		pos = c29Lit(s, pos, " ")
		// typeutil.String prints a single NAMED result of a top-level signature without parentheses ("func() ok bool");
		// go/types prints "(ok bool)": both accepted, names are not part of the type
		a := c29Seq(s, c29OptName(s, pos), rt.Out(0))
		b := c29MatchTuple(s, pos, 1, rt.Out, false)
		return append(a, b...)
	default:
		return c29MatchTuple(s, c29Lit(s, pos, " "), n, rt.Out, false)
	}
}

func c29Match(s string, p int, rt r.Type) []int {
	pos := []int{p}
	if rt.Name() != "" {
		return c29Lit(s, pos, c29TypeString(rt))
	}
	switch rt.Kind() {
	case r.Array:
		return c29Seq(s, c29Lit(s, pos, fmt.Sprintf("[%d]", rt.Len())), rt.Elem())
	case r.Slice:
		return c29Seq(s, c29Lit(s, pos, "[]"), rt.Elem())
	case r.Ptr:
		return c29Seq(s, c29Lit(s, pos, "*"), rt.Elem())
	case r.Map:
		return c29Seq(s, c29Lit(s, c29Seq(s, c29Lit(s, pos, "map["), rt.Key()), "]"), rt.Elem())
	case r.Chan:
		switch rt.ChanDir() {
		case r.SendDir:
			return c29Seq(s, c29Lit(s, pos, "chan<- "), rt.Elem())
		case r.RecvDir:
			return c29Seq(s, c29Lit(s, pos, "<-chan "), rt.Elem())
		}
		if e := rt.Elem(); e.Name() == "" && e.Kind() == r.Chan && e.ChanDir() == r.RecvDir {
			return c29Lit(s, c29Seq(s, c29Lit(s, pos, "chan ("), e), ")")
		}
		return c29Seq(s, c29Lit(s, pos, "chan "), rt.Elem())
	case r.Func:
		return c29MatchSig(s, c29Lit(s, pos, "func"), rt)
	case r.Struct:
		pos = c29Lit(s, pos, "struct{")
		for i := 0; i < rt.NumField(); i++ {
			f := rt.Field(i)
			if i > 0 {
				pos = c29Lit(s, pos, "; ")
			}
			if !f.Anonymous {
				pos = c29Lit(s, pos, f.Name+" ")
			}
			pos = c29Seq(s, pos, f.Type)
			if f.Tag != "" {
				pos = c29Lit(s, pos, fmt.Sprintf(" %q", string(f.Tag)))
			}
		}
		return c29Lit(s, pos, "}")
	case r.Interface:
		type m struct {
			id string
			mt r.Method
		}
		var ms []m
		for i := 0; i < rt.NumMethod(); i++ {
			mt := rt.Method(i)
			id := mt.Name
			if !token.IsExported(mt.Name) {
				id = mt.PkgPath + "." + mt.Name
			}
			ms = append(ms, m{id, mt})
		}
		sort.Slice(ms, func(i, j int) bool { return ms[i].id < ms[j].id })
		pos = c29Lit(s, pos, "interface{")
		for i, x := range ms {
			if i > 0 {
				pos = c29Lit(s, pos, "; ")
			}
			pos = c29MatchSig(s, c29Lit(s, pos, x.mt.Name), x.mt.Type)
		}
		return c29Lit(s, pos, "}")
	}
	return c29Lit(s, pos, rt.String())
}

var c29Forward = r.TypeOf((*xr.Forward)(nil)).Elem()

// c29Placeholder reports whether a reflect type produced by xreflect contains the Forward placeholder that stands for a
// type still under construction (recursive types converted without package metadata): documented approximation.
func c29Placeholder(rt r.Type) bool {
	if rt == c29Forward {
		return true
	}
	if rt == nil || rt.Name() != "" {
		return false
	}
	switch rt.Kind() {
	case r.Array, r.Chan, r.Ptr, r.Slice:
		return c29Placeholder(rt.Elem())
	case r.Map:
		return c29Placeholder(rt.Key()) || c29Placeholder(rt.Elem())
	case r.Func:
		for i := 0; i < rt.NumIn(); i++ {
			if c29Placeholder(rt.In(i)) {
				return true
			}
		}
		for i := 0; i < rt.NumOut(); i++ {
			if c29Placeholder(rt.Out(i)) {
				return true
			}
		}
	case r.Struct:
		for i := 0; i < rt.NumField(); i++ {
			if c29Placeholder(rt.Field(i).Type) {
				return true
			}
		}
	}
	return false
}

// c29Generic reports whether the type mentions an instantiated generic type (gomacro documents that importing
// generic declarations is not supported: such types are excluded and counted).
func c29Generic(rt r.Type, depth int) bool {
	if rt == nil || depth > 6 {
		return false
	}
	if n := rt.Name(); n != "" {
		return strings.IndexByte(n, '[') >= 0
	}
	switch rt.Kind() {
	case r.Array, r.Chan, r.Ptr, r.Slice:
		return c29Generic(rt.Elem(), depth+1)
	case r.Map:
		return c29Generic(rt.Key(), depth+1) || c29Generic(rt.Elem(), depth+1)
	case r.Func:
		for i := 0; i < rt.NumIn(); i++ {
			if c29Generic(rt.In(i), depth+1) {
				return true
			}
		}
		for i := 0; i < rt.NumOut(); i++ {
			if c29Generic(rt.Out(i), depth+1) {
				return true
			}
		}
	case r.Struct:
		for i := 0; i < rt.NumField(); i++ {
			if c29Generic(rt.Field(i).Type, depth+1) {
				return true
			}
		}
	case r.Interface:
		for i := 0; i < rt.NumMethod(); i++ {
			if c29Generic(rt.Method(i).Type, depth+1) {
				return true
			}
		}
	}
	return false
}

// c29KindClass is used in signatures: kind plus named/unnamed.
func c29KindClass(rt r.Type) string {
	s := rt.Kind().String()
	if rt.Name() != "" {
		if rt.PkgPath() == "" {
			return "predeclared-" + s
		}
		return "named-" + s
	}
	return s
}

type c29Case struct {
	Kind     string   `json:"kind"` // attrs | pair | cons
	Thorough bool     `json:"thorough"`
	Type     string   `json:"type,omitempty"`
	Index    int      `json:"index"`
	Other    string   `json:"other,omitempty"`
	Index2   int      `json:"index2,omitempty"`
	Pred     string   `json:"predicate,omitempty"`
	Recipe   string   `json:"recipe,omitempty"`
	Order    string   `json:"order,omitempty"`
	Path     []string `json:"path,omitempty"`
}

type c29Checker struct {
	c        *core.Ctx
	thorough bool
	d        *c29Domain
	u        *xr.Universe
	order    string
	consKey  string // set while checking a constructor term: violations replay as that term
	panicked bool   // FromReflectType panicked in k.u
}

// c29PanicClass turns a panic value into a signature component: the message without the type-specific parts.
func c29PanicClass(p interface{}) string {
	s := fmt.Sprint(p)
	if i := strings.IndexByte(s, '\n'); i > 0 {
		s = s[:i]
	}
	// drop the <type> parts: "type <encoding/xml.CharData>: inconsistent 3-th method ..." -> "type <>: inconsistent ..."
	for {
		i := strings.IndexByte(s, '<')
		j := strings.IndexByte(s, '>')
		if i < 0 || j < i {
			break
		}
		s = s[:i] + "‹›" + s[j+1:]
	}
	if len(s) > 70 {
		s = s[:70]
	}
	return s
}

func (k *c29Checker) viol(what string, rt r.Type, idx int, format string, args ...interface{}) {
	sig := "C29|" + what + "|" + c29KindClass(rt)
	cs := c29Case{Kind: "attrs", Thorough: k.thorough, Type: rt.String(), Index: idx, Order: k.order}
	if k.consKey != "" {
		cs = c29Case{Kind: "cons", Thorough: k.thorough, Recipe: k.consKey, Order: k.order}
		sig += "|constructed"
	}
	k.c.Violation(sig, fmt.Sprintf("%s [%s]: ", c29TypeString(rt), k.order)+fmt.Sprintf(format, args...), cs)
}

// from converts rt, catching panics (xreflect reports internal inconsistencies by panicking).
func (k *c29Checker) from(rt r.Type, idx int) (t xr.Type) {
	if p := core.Catch(func() { t = k.u.FromReflectType(rt) }); p != nil {
		k.panicked = true
		pkg := rt.PkgPath()
		k.c.Violation("C29|fromreflect-panics|"+c29PanicClass(p), fmt.Sprintf("%s [%s]: FromReflectType panics: %v (package of the type: %q)", c29TypeString(rt), k.order, p, pkg),
			c29Case{Kind: "attrs", Thorough: k.thorough, Type: rt.String(), Index: idx, Order: k.order})
		return nil
	}
	if t == nil {
		k.viol("fromreflect-nil", rt, idx, "FromReflectType returned nil")
	}
	return t
}

// canon checks that sub (obtained by navigating from a type) is THE object for reflect type rsub.
func (k *c29Checker) canon(what string, rt r.Type, idx int, sub xr.Type, rsub r.Type) {
	if sub == nil {
		k.viol(what+"-nil", rt, idx, "%s is nil, reflect has %v", what, rsub)
		return
	}
	if c29Generic(rsub, 0) {
		k.c.Count("generic_instances_excluded", 1)
		return
	}
	if c29Placeholder(sub.ReflectType()) {
		k.c.Count("placeholder_types_excluded", 1)
	} else if sub.ReflectType() != rsub {
		k.viol(what+"-reflecttype", rt, idx, "%s has reflect type %v, reflect says %v", what, sub.ReflectType(), rsub)
		return
	}
	want := k.from(rsub, idx)
	if want == nil {
		return
	}
	if c29Placeholder(sub.ReflectType()) || c29Placeholder(want.ReflectType()) {
		// recursive type converted without package metadata: the object built while the cycle was open keeps the
		// placeholder; only identity is required
		if !sub.IdenticalTo(want) {
			k.viol(what+"-not-identical", rt, idx, "%s = %v is not IdenticalTo FromReflectType(%v) = %v", what, sub, rsub, want)
		}
		return
	}
	if !sub.IdenticalTo(want) {
		k.viol(what+"-not-identical", rt, idx, "%s = %v is not IdenticalTo FromReflectType(%v) = %v", what, sub, rsub, want)
	} else if c29Ptr(sub) != c29Ptr(want) {
		k.viol(what+"-not-canonical", rt, idx, "%s = %v and FromReflectType(%v) are identical but distinct objects", what, sub, rsub)
	}
}

// attrs compares every attribute of t with rt. Returns the number of comparisons.
func (k *c29Checker) attrs(t xr.Type, rt r.Type, idx int) {
	c := k.c
	defer func() {
		if p := recover(); p != nil {
			k.viol("attribute-panics|"+c29PanicClass(p), rt, idx, "an accessor panics: %v", p)
		}
	}()
	c.Eval(1)
	if c29Generic(rt, 0) {
		c.Count("generic_instances_excluded", 1)
		return
	}
	if c29Placeholder(t.ReflectType()) {
		c.Count("placeholder_types_excluded", 1)
		return
	}
	if t.ReflectType() != rt {
		k.viol("reflecttype", rt, idx, "ReflectType() = %v", t.ReflectType())
		return
	}
	if t.Kind() != rt.Kind() {
		k.viol("kind", rt, idx, "Kind() = %v, reflect %v", t.Kind(), rt.Kind())
		return
	}
	if t.Size() != rt.Size() || t.Align() != rt.Align() || t.FieldAlign() != rt.FieldAlign() {
		k.viol("size-align", rt, idx, "Size/Align/FieldAlign = %d/%d/%d, reflect %d/%d/%d", t.Size(), t.Align(), t.FieldAlign(), rt.Size(), rt.Align(), rt.FieldAlign())
	}
	if got := t.String(); !c29StringMatches(got, rt) {
		k.viol("string", rt, idx, "String() = %q, expected %q (parameter names allowed)", got, c29TypeString(rt))
	}
	// unsafe.Pointer is modelled as a predeclared basic type (as in go/types): its PkgPath is empty by design
	if t.Name() != rt.Name() || (t.PkgPath() != rt.PkgPath() && rt.Kind() != r.UnsafePointer) || t.Named() != (rt.Name() != "") {
		k.viol("name", rt, idx, "Name/PkgPath/Named = %q %q %v, reflect %q %q", t.Name(), t.PkgPath(), t.Named(), rt.Name(), rt.PkgPath())
	}
	if t.Comparable() != rt.Comparable() {
		k.viol("comparable", rt, idx, "Comparable() = %v, reflect %v", t.Comparable(), rt.Comparable())
	}
	switch rt.Kind() {
	case r.Array:
		if t.Len() != rt.Len() {
			k.viol("len", rt, idx, "Len() = %d, reflect %d", t.Len(), rt.Len())
		}
		k.canon("elem", rt, idx, t.Elem(), rt.Elem())
	case r.Slice, r.Ptr:
		k.canon("elem", rt, idx, t.Elem(), rt.Elem())
	case r.Chan:
		if t.ChanDir() != rt.ChanDir() {
			k.viol("chandir", rt, idx, "ChanDir() = %v, reflect %v", t.ChanDir(), rt.ChanDir())
		}
		k.canon("elem", rt, idx, t.Elem(), rt.Elem())
	case r.Map:
		k.canon("key", rt, idx, t.Key(), rt.Key())
		k.canon("elem", rt, idx, t.Elem(), rt.Elem())
	case r.Func:
		if t.NumIn() != rt.NumIn() || t.NumOut() != rt.NumOut() || t.IsVariadic() != rt.IsVariadic() {
			k.viol("func-arity", rt, idx, "NumIn/NumOut/IsVariadic = %d/%d/%v, reflect %d/%d/%v", t.NumIn(), t.NumOut(), t.IsVariadic(), rt.NumIn(), rt.NumOut(), rt.IsVariadic())
			return
		}
		for i := 0; i < rt.NumIn(); i++ {
			k.canon("in", rt, idx, t.In(i), rt.In(i))
		}
		for i := 0; i < rt.NumOut(); i++ {
			k.canon("out", rt, idx, t.Out(i), rt.Out(i))
		}
	case r.Struct:
		if t.NumField() != rt.NumField() {
			k.viol("numfield", rt, idx, "NumField() = %d, reflect %d", t.NumField(), rt.NumField())
			return
		}
		// the go/types half of the type (the one that decides identity, canonicity and String()) must describe the
		// same fields as the reflect half: name, embedding and TAG of every field, position by position
		if gs, ok := t.GoType().Underlying().(*types.Struct); !ok || gs.NumFields() != rt.NumField() {
			k.viol("gotype-numfield", rt, idx, "GoType() = %v is not a struct with %d fields", t.GoType(), rt.NumField())
		} else {
			for i := 0; i < rt.NumField(); i++ {
				gf, rf := gs.Field(i), rt.Field(i)
				if gs.Tag(i) != string(rf.Tag) {
					k.viol("gotype-field-tag", rt, idx, "go/types field %d %q has tag %q, reflect %q (tags of all fields: go/types %q)", i, rf.Name, gs.Tag(i), string(rf.Tag), c29GoTags(gs))
					break
				}
				if gf.Name() != rf.Name || gf.Embedded() != rf.Anonymous {
					k.viol("gotype-field", rt, idx, "go/types field %d = {%q embedded %v}, reflect {%q %v}", i, gf.Name(), gf.Embedded(), rf.Name, rf.Anonymous)
					break
				}
			}
		}
		for i := 0; i < rt.NumField(); i++ {
			f, rf := t.Field(i), rt.Field(i)
			if f.Name != rf.Name || f.Offset != rf.Offset || f.Anonymous != rf.Anonymous || f.Tag != rf.Tag || len(f.Index) != 1 || f.Index[0] != i {
				k.viol("field", rt, idx, "Field(%d) = {Name %q Offset %d Anonymous %v Tag %q Index %v}, reflect {%q %d %v %q %v}", i,
					f.Name, f.Offset, f.Anonymous, f.Tag, f.Index, rf.Name, rf.Offset, rf.Anonymous, rf.Tag, rf.Index)
			}
			if fp := f.Pkg.Path(); !token.IsExported(rf.Name) && fp != rf.PkgPath {
				k.viol("field-pkg", rt, idx, "Field(%d) %q has package %q, reflect %q", i, rf.Name, fp, rf.PkgPath)
			}
			k.canon("field-type", rt, idx, f.Type, rf.Type)
		}
		k.fieldByName(t, rt, idx)
	case r.Interface:
		k.ifaceMethods(t, rt, idx)
	}
	if rt.Kind() != r.Interface {
		k.methods(t, rt, idx)
	}
}

func c29GoTags(gs *types.Struct) []string {
	tags := make([]string, gs.NumFields())
	for i := range tags {
		tags[i] = gs.Tag(i)
	}
	return tags
}

// ifaceMethods: an interface type lists exactly reflect's methods (all of them, unexported included).
func (k *c29Checker) ifaceMethods(t xr.Type, rt r.Type, idx int) {
	if t.NumMethod() != rt.NumMethod() {
		k.viol("iface-nummethod", rt, idx, "NumMethod() = %d, reflect %d", t.NumMethod(), rt.NumMethod())
		return
	}
	want := map[string]r.Method{}
	for i := 0; i < rt.NumMethod(); i++ {
		m := rt.Method(i)
		want[m.PkgPath+"."+m.Name] = m
	}
	for i := 0; i < t.NumMethod(); i++ {
		m := t.Method(i)
		pp := ""
		if !token.IsExported(m.Name) {
			pp = m.Pkg.Path()
		}
		rm, ok := want[pp+"."+m.Name]
		if !ok {
			k.viol("iface-method-name", rt, idx, "Method(%d) = %s.%s is not a method of the reflect type", i, pp, m.Name)
			continue
		}
		delete(want, pp+"."+m.Name)
		k.sameSig("iface-method-type", rt, idx, m, rm.Type, 0)
		m2, n := t.MethodByName(m.Name, pp)
		if n != 1 || m2.Name != m.Name || m2.Index != i {
			k.viol("iface-methodbyname", rt, idx, "MethodByName(%q, %q) = index %d count %d, expected index %d", m.Name, pp, m2.Index, n, i)
		}
	}
}

// sameSig compares a Method's type (receiver first) with a reflect func type whose first rskip inputs are the receiver.
func (k *c29Checker) sameSig(what string, rt r.Type, idx int, m xr.Method, rsig r.Type, rskip int) {
	mt := m.Type
	if mt == nil {
		if token.IsExported(m.Name) {
			k.viol(what+"-nil", rt, idx, "method %s has nil Type", m.Name)
		}
		return
	}
	if mt.Kind() != r.Func || mt.NumIn()-1 != rsig.NumIn()-rskip || mt.NumOut() != rsig.NumOut() || mt.IsVariadic() != rsig.IsVariadic() {
		k.viol(what, rt, idx, "method %s has type %v, reflect %v", m.Name, mt, rsig)
		return
	}
	for i := 1; i < mt.NumIn(); i++ {
		if mt.In(i).ReflectType() != rsig.In(i-1+rskip) {
			k.viol(what, rt, idx, "method %s parameter %d has type %v, reflect %v", m.Name, i-1, mt.In(i), rsig.In(i-1+rskip))
		}
	}
	for i := 0; i < mt.NumOut(); i++ {
		if mt.Out(i).ReflectType() != rsig.Out(i) {
			k.viol(what, rt, idx, "method %s result %d has type %v, reflect %v", m.Name, i, mt.Out(i), rsig.Out(i))
		}
	}
}

// methods: every method in reflect's method sets of T and *T is found by name exactly once with the same signature;
// every exported declared method xreflect lists (contract methods of the generics emulation have no package: skipped)
// is in reflect's method set of *T.
func (k *c29Checker) methods(t xr.Type, rt r.Type, idx int) {
	pt := rt
	if rt.Kind() != r.Ptr {
		pt = r.PtrTo(rt)
	} else if rt.Elem().Kind() == r.Ptr || rt.Elem().Kind() == r.Interface {
		return
	}
	msets := []r.Type{rt, pt}
	if rt == pt {
		msets = msets[:1]
	}
	for _, mset := range msets {
		for i := 0; i < mset.NumMethod(); i++ {
			rm := mset.Method(i)
			var m xr.Method
			var n int
			if p := core.Catch(func() { m, n = t.MethodByName(rm.Name, "") }); p != nil {
				k.viol("methodbyname-panics", rt, idx, "MethodByName(%q) panics: %v", rm.Name, p)
				continue
			}
			k.c.Count("methods_compared", 1)
			if n != 1 {
				k.viol("method-missing", rt, idx, "MethodByName(%q) finds %d methods, reflect's method set of %v has it", rm.Name, n, mset)
				continue
			}
			k.sameSig("method-type", rt, idx, m, rm.Type, 1)
		}
	}
	if rt.Kind() == r.Ptr || rt.Name() == "" {
		return
	}
	for i := 0; i < t.NumMethod(); i++ {
		m := t.Method(i)
		if m.Pkg == nil || !token.IsExported(m.Name) {
			continue
		}
		if _, ok := pt.MethodByName(m.Name); !ok {
			k.viol("method-extra", rt, idx, "declared method %s is not in reflect's method set of %v", m.Name, pt)
		}
	}
}

// fieldByName: every field name occurring at any embedding depth is looked up; the answer must be reflect's
// (found iff unique at the shallowest depth; same index path, type, embedded flag).
func (k *c29Checker) fieldByName(t xr.Type, rt r.Type, idx int) {
	type occ struct{ pkgs map[string]bool }
	names := map[string]*occ{}
	mnames := map[string]bool{} // exported methods of every embedded field type at every depth: candidates for promotion
	var walk func(st r.Type, depth int, onpath map[r.Type]bool)
	walk = func(st r.Type, depth int, onpath map[r.Type]bool) {
		if depth > 0 && depth <= 5 {
			mset := st
			if st.Kind() != r.Ptr && st.Kind() != r.Interface {
				mset = r.PtrTo(st)
			}
			for i := 0; i < mset.NumMethod(); i++ {
				mnames[mset.Method(i).Name] = true
			}
		}
		if st.Kind() == r.Ptr {
			st = st.Elem()
		}
		if st.Kind() != r.Struct || depth > 5 || onpath[st] {
			return
		}
		onpath[st] = true
		for i := 0; i < st.NumField(); i++ {
			f := st.Field(i)
			o := names[f.Name]
			if o == nil {
				o = &occ{map[string]bool{}}
				names[f.Name] = o
			}
			o.pkgs[f.PkgPath] = true
			if f.Anonymous {
				walk(f.Type, depth+1, onpath)
			}
		}
		delete(onpath, st)
	}
	walk(rt, 0, map[r.Type]bool{})
	var sorted []string
	for n := range names {
		sorted = append(sorted, n)
	}
	sort.Strings(sorted)
	for _, name := range sorted {
		o := names[name]
		if len(o.pkgs) != 1 || name == "_" {
			continue // same unexported name from several packages: reflect matches by spelling only, Go does not
		}
		pkgpath := ""
		for p := range o.pkgs {
			pkgpath = p
		}
		rf, ok := rt.FieldByName(name)
		for pass := 0; pass < 2; pass++ { // second pass answers from the cache
			f, n := t.FieldByName(name, pkgpath)
			k.c.Count("fieldbyname_lookups", 1)
			deep := ok && len(rf.Index) > 1
			if deep {
				k.c.Nontrivial("fbn|" + rt.String() + "|" + name)
			}
			if (n == 1) != ok {
				if !ok {
					k.c.Nontrivial("fbn-ambiguous|" + rt.String() + "|" + name)
				}
				k.viol("fieldbyname-count", rt, idx, "FieldByName(%q, %q) finds %d fields (pass %d), reflect found=%v index %v", name, pkgpath, n, pass, ok, rf.Index)
				break
			}
			if !ok {
				k.c.Nontrivial("fbn-ambiguous|" + rt.String() + "|" + name)
				continue
			}
			if fmt.Sprint(f.Index) != fmt.Sprint(rf.Index) || f.Name != rf.Name || f.Anonymous != rf.Anonymous || f.Type.ReflectType() != rf.Type {
				k.viol("fieldbyname-field", rt, idx, "FieldByName(%q) = {Index %v Name %q Anonymous %v Type %v} (pass %d), reflect {%v %q %v %v}", name,
					f.Index, f.Name, f.Anonymous, f.Type, pass, rf.Index, rf.Name, rf.Anonymous, rf.Type)
				break
			}
			if len(rf.Index) == 1 && f.Offset != rf.Offset {
				k.viol("fieldbyname-offset", rt, idx, "FieldByName(%q).Offset = %d, reflect %d", name, f.Offset, rf.Offset)
			}
		}
	}
	// promoted methods: a method name that some embedded type offers but that is NOT in the method set of *T
	// (ambiguous at its shallowest depth) must not be reported as found exactly once. Names that are also field
	// names somewhere in the tree are left out (fields and methods compete in one selector lookup, MethodByName
	// looks at methods only). Methods that ARE in the method set are compared by methods().
	sorted = sorted[:0]
	for n := range mnames {
		if names[n] == nil {
			sorted = append(sorted, n)
		}
	}
	sort.Strings(sorted)
	pt := r.PtrTo(rt)
	for _, name := range sorted {
		if _, ok := pt.MethodByName(name); ok {
			continue
		}
		k.c.Nontrivial("mbn-ambiguous|" + rt.String() + "|" + name)
		for pass := 0; pass < 2; pass++ { // second pass answers from the cache
			var n int
			var m xr.Method
			if p := core.Catch(func() { m, n = t.MethodByName(name, "") }); p != nil {
				k.viol("methodbyname-panics", rt, idx, "MethodByName(%q) panics: %v", name, p)
				break
			}
			k.c.Count("promoted_method_lookups_not_in_method_set", 1)
			if n == 1 {
				k.viol("methodbyname-count", rt, idx, "MethodByName(%q) finds exactly one method (field index %v, pass %d) but the method set of %v does not have it: the selector is ambiguous", name, m.FieldIndex, pass, pt)
				break
			}
		}
	}
}

func c29Short(s string, n int) string {
	s = strings.ReplaceAll(s, "\n", " ")
	if len(s) > n {
		return s[:n] + "…"
	}
	return s
}
