package props

// C17 — the dependency sorter (base/dep) returns a deterministic, source-stable topological order.
//
// Bounded-exhaustive inputs (see c17Run): every placement of a single reference between two declarations,
// every directed graph on <= N declarations of mixed kinds rendered as Go source, every short sequence of
// package clauses / imports / declarations / statements. Each input is parsed with gomacro's parser and
// sorted by dep.Sorter exactly as fast.Comp.Compile does, R times in-process (Go's map iteration order is the
// one source of nondeterminism that cannot be owned, so determinism is checked by repetition and reported so).
// Oracle: c17_ref.go (independent free-identifier analysis + lock-step "earliest in source among ready").

import (
	"encoding/json"
	"fmt"
	"go/ast"
	"go/token"
	"sort"
	"strings"

	"github.com/cosmos72/gomacro/base/dep"
	"github.com/cosmos72/gomacro/go/etoken"
	mp "github.com/cosmos72/gomacro/go/parser"

	"verif/harness/core"
)

func init() {
	core.Register(&core.Check{ID: "C17", Level: "exploration", Workers: -1, Run: c17Run, Replay: c17Replay})
}

type c17Case struct {
	Part   string     `json:"part"`
	Chunks []c17Chunk `json:"chunks"`
	Reps   int        `json:"reps"`
	Probe  *c17Probe  `json:"probe,omitempty"` // child-process screening request (see c17_screen.go)
}

// implItem is one element returned by dep.Sorter.All.
type implItem struct {
	Kind string
	Name string
	Line int
	Deps []string
}

func (it implItem) String() string {
	return fmt.Sprintf("%s:%s@%d%v", it.Kind, it.Name, it.Line, it.Deps)
}

func itemsString(items []implItem) string {
	var sb strings.Builder
	for i, it := range items {
		if i > 0 {
			sb.WriteByte(' ')
		}
		sb.WriteString(it.String())
	}
	return sb.String()
}

// c17Parse parses src with gomacro's parser configured like base.Globals.ParseBytes.
func c17Parse(src string) (nodes []ast.Node, fset *etoken.FileSet, err error) {
	var p mp.Parser
	fset = etoken.NewFileSet()
	p.Configure(0, '~')
	p.Init(fset, "repl.go", 0, []byte(src))
	if perr := core.Catch(func() { nodes, err = p.Parse() }); perr != nil {
		return nil, nil, fmt.Errorf("parser panic: %v", perr)
	}
	return nodes, fset, err
}

// c17Sort runs the sorter once.
func c17Sort(nodes []ast.Node, fset *etoken.FileSet) (items []implItem, perr string) {
	p := core.Catch(func() {
		s := dep.NewSorter()
		s.LoadNodes(nodes)
		for _, d := range s.All() {
			items = append(items, implItem{Kind: d.Kind.String(), Name: d.Name, Line: fset.Position(d.Pos).Line, Deps: append([]string{}, d.Deps...)})
		}
	})
	if p != nil {
		return nil, strings.TrimSpace(fmt.Sprint(p))
	}
	return items, ""
}

type c17Run1 struct {
	Lo, Hi int // chunk index range [Lo,Hi)
	Class  string
}

func c17Runs(chunks []c17Chunk) []c17Run1 {
	var runs []c17Run1
	for i, ch := range chunks {
		if n := len(runs); n > 0 && runs[n-1].Class == ch.Class {
			runs[n-1].Hi = i + 1
		} else {
			runs = append(runs, c17Run1{i, i + 1, ch.Class})
		}
	}
	return runs
}

type c17Checker struct {
	c    *core.Ctx
	part string
}

// viol reports a violation and counts it per signature (the framework keeps only a few examples).
func (k *c17Checker) viol(sig, what string, cas interface{}) {
	k.c.Count("cases_by_signature:"+sig, 1)
	k.c.Violation(sig, what, cas)
}

func sameStrings(a, b []string) bool {
	if len(a) != len(b) {
		return false
	}
	for i := range a {
		if a[i] != b[i] {
			return false
		}
	}
	return true
}

func diffStrings(a, b []string) (onlyA []string) {
	m := map[string]bool{}
	for _, x := range b {
		m[x] = true
	}
	for _, x := range a {
		if !m[x] {
			onlyA = append(onlyA, x)
		}
	}
	return
}

// depsClass explains one disagreement between the sorter's dependency list of unit u and the reference.
func depsClass(u *refUnit, idx map[string]int, name string, missing bool) string {
	var free, bound []refOcc
	for _, o := range u.Occs {
		if o.Name != name {
			continue
		}
		if o.Free {
			free = append(free, o)
		} else {
			bound = append(bound, o)
		}
	}
	if missing {
		// a true reference the sorter does not report
		for _, o := range bound {
			switch o.Binder {
			case "field-decl", "method-name", "functype-param", "param-decl":
				return "missing|after-same-named-" + o.Binder
			}
		}
		allKey, allNested := true, true
		for _, o := range free {
			if !strings.HasPrefix(o.Ctx, "kv-key") {
				allKey = false
			}
			if o.Depth == 0 {
				allNested = false
			}
		}
		if allKey {
			return "missing|keyed-literal-key"
		}
		_ = allNested
		if idx[name] < u.Idx {
			return "missing|target-declared-earlier"
		}
		return "missing|target-declared-later"
	}
	// the sorter reports a dependency although no occurrence is a free reference
	bs := map[string]bool{}
	for _, o := range bound {
		if o.Binder != "param-decl" {
			bs[o.Binder] = true
		}
	}
	var l []string
	for b := range bs {
		l = append(l, b)
	}
	sort.Strings(l)
	if len(l) == 0 {
		return "spurious|no-occurrence"
	}
	return "spurious|shadowed-by=" + strings.Join(l, "+")
}

// c17DeclRun is the reference analysis of one run of declarations.
type c17DeclRun struct {
	units []*refUnit
	ref   *refGraph // reference dependencies
	file  *ast.File
	fset  *token.FileSet
	src   string
}

// c17Analysis is everything the oracle knows about one input (computed once per input).
type c17Analysis struct {
	runs       []c17Run1
	decl       map[int]*c17DeclRun
	expectLoop bool   // some run has a dependency cycle that forward type declarations cannot break
	risky      bool   // a type lies on a cycle of the superset graph: only then can the sorter take its forward-declaration branch
	loopType   bool   // an unbreakable cycle exists in a run in which a type lies on a cycle
	err        string // harness problem (generator produced something the reference cannot handle)
}

func c17Analyze(chunks []c17Chunk) *c17Analysis {
	an := &c17Analysis{runs: c17Runs(chunks), decl: map[int]*c17DeclRun{}}
	for ri, run := range an.runs {
		if run.Class != "decl" {
			continue
		}
		var sb strings.Builder
		for i := 0; i < run.Lo; i++ {
			sb.WriteByte('\n') // keep the line numbers of the whole input
		}
		for i := run.Lo; i < run.Hi; i++ {
			sb.WriteString(chunks[i].Text)
			sb.WriteByte('\n')
		}
		units, f, fset, err := refAnalyze(sb.String())
		if err != nil {
			an.err = fmt.Sprintf("std go/parser rejects a generated run of declarations: %v\n%s", err, sb.String())
			return an
		}
		g := &refGraph{Kind: map[string]string{}, Idx: map[string]int{}, Deps: map[string][]string{}}
		super := &refGraph{Kind: g.Kind, Idx: g.Idx, Deps: map[string][]string{}}
		for _, u := range units {
			if _, dup := g.Kind[u.Name]; dup {
				an.err = "generated run declares " + u.Name + " twice"
				return an
			}
			g.Names = append(g.Names, u.Name)
			g.Kind[u.Name] = u.Kind
			g.Idx[u.Name] = u.Idx
			g.Deps[u.Name] = u.Deps
			seen := map[string]bool{}
			for _, o := range u.Occs {
				if !seen[o.Name] && o.Name != u.Name {
					seen[o.Name] = true
					super.Deps[u.Name] = append(super.Deps[u.Name], o.Name)
				}
			}
		}
		super.Names = g.Names
		an.decl[ri] = &c17DeclRun{units, g, f, fset, sb.String()}
		loop := g.hasCycle(func(from, to string) bool { return !g.breakable(from, to) })
		if loop {
			an.expectLoop = true
		}
		for _, u := range units {
			if u.Kind == "Type" && super.onCycle(u.Name) {
				an.risky = true
				if loop {
					an.loopType = true
				}
			}
		}
	}
	return an
}

// check runs one input R times and validates every distinct result. Returns a short outcome class (for coverage).
func (k *c17Checker) check(chunks []c17Chunk, an *c17Analysis, reps int) string {
	c := k.c
	cas := c17Case{Part: k.part, Chunks: chunks, Reps: reps}
	src := c17Source(chunks)
	if an.err != "" {
		k.viol("C17|harness|reference", an.err+"\ninput:\n"+src, cas)
		return "harness-error"
	}
	nodes, fset, err := c17Parse(src)
	if err != nil {
		k.viol("C17|harness|parse", fmt.Sprintf("gomacro's parser rejects a generated input: %v\n%s", err, src), cas)
		return "parse-error"
	}
	results := map[string]int{}
	var order []string
	byKey := map[string][]implItem{}
	errOf := map[string]string{}
	loopTexts := map[string]bool{}
	for r := 0; r < reps; r++ {
		items, perr := c17Sort(nodes, fset)
		key := itemsString(items)
		if perr != "" {
			// the cycle printed after "declaration loop" is a diagnostic, not part of the result
			if strings.HasPrefix(perr, "declaration loop") {
				loopTexts[perr] = true
				perr = "declaration loop"
			}
			key = "PANIC " + perr
		}
		if _, seen := results[key]; !seen {
			order = append(order, key)
			byKey[key] = items
			errOf[key] = perr
		}
		results[key]++
	}
	c.Eval(reps)
	if len(loopTexts) > 1 {
		c.Count("inputs_whose_declaration_loop_diagnostic_varies_between_runs(not a violation)", 1)
	}
	if len(results) > 1 {
		// classify: do the outputs differ in the set of forward declarations or otherwise?
		class := "order"
		fw := map[string]bool{}
		for _, key := range order {
			var f []string
			for _, it := range byKey[key] {
				if it.Kind == "TypeFwd" {
					f = append(f, it.Name)
				}
			}
			sort.Strings(f)
			fw[strings.Join(f, ",")] = true
		}
		if len(fw) > 1 {
			class = "typefwd-choice"
		}
		for _, key := range order {
			if errOf[key] != "" {
				class = "error-or-not"
			}
		}
		var sb strings.Builder
		for _, key := range order {
			fmt.Fprintf(&sb, "\n  %3d/%d runs: %s", results[key], reps, key)
		}
		k.viol("C17|nondeterministic|"+class, fmt.Sprintf("the same input sorted %d times in one process gives %d different results:%s\ninput:\n%s", reps, len(results), sb.String(), src), cas)
	}
	outcome := ""
	for _, key := range order {
		o := k.validate(chunks, an, cas, src, byKey[key], errOf[key])
		if outcome == "" {
			outcome = o
		}
	}
	if len(results) > 1 {
		outcome = "nondeterministic"
	}
	return outcome
}

// validate checks one result of the sorter for one input.
func (k *c17Checker) validate(chunks []c17Chunk, an *c17Analysis, cas c17Case, src string, items []implItem, perr string) string {
	_ = k.c
	runs := an.runs
	dr := an.decl
	expectLoop := an.expectLoop
	if perr != "" {
		if !strings.HasPrefix(perr, "declaration loop") {
			k.viol("C17|panic", fmt.Sprintf("the sorter panics with %q on\n%s", perr, src), cas)
			return "panic"
		}
		if expectLoop {
			return "declaration-loop"
		}
		// a loop is reported though the reference sees no unbreakable cycle: find out why
		if sig, why := k.explainByDeps(chunks, an); sig != "" {
			k.viol(sig, fmt.Sprintf("spurious %q: %s\ninput:\n%s", perr, why, src), cas)
			return "spurious-loop(deps)"
		}
		k.viol("C17|spurious-declaration-loop", fmt.Sprintf("the sorter reports %q although every dependency cycle can be broken by forward type declarations (or there is none)\ninput:\n%s", perr, src), cas)
		return "spurious-loop"
	}
	// ---- map every returned element to its chunk and run
	runOfLine := func(line int) int {
		ci := line - 1
		for ri, run := range runs {
			if ci >= run.Lo && ci < run.Hi {
				return ri
			}
		}
		return -1
	}
	perRun := make([][]implItem, len(runs))
	last := 0
	for _, it := range items {
		ri := runOfLine(it.Line)
		if ri < 0 {
			k.viol("C17|position", fmt.Sprintf("element %v has a position outside the input\n%s", it, src), cas)
			return "bad-position"
		}
		if ri < last {
			k.viol("C17|phase-crossed", fmt.Sprintf("element %v of run %d (%s) is returned after an element of run %d (%s): moved across runs\nresult: %s\ninput:\n%s",
				it, ri, runs[ri].Class, last, runs[last].Class, itemsString(items), src), cas)
			return "phase-crossed"
		}
		last = ri
		perRun[ri] = append(perRun[ri], it)
	}
	outcome := "sorted"
	for ri, run := range runs {
		got := perRun[ri]
		if run.Class != "decl" {
			// one element per expected item, in source order, with the expected kind
			var want []string
			for ci := run.Lo; ci < run.Hi; ci++ {
				for _, kd := range chunks[ci].Items {
					want = append(want, fmt.Sprintf("%s@%d", kd, ci+1))
				}
			}
			var have []string
			for _, it := range got {
				have = append(have, fmt.Sprintf("%s@%d", it.Kind, it.Line))
			}
			if !sameStrings(want, have) {
				k.viol("C17|"+run.Class+"-run", fmt.Sprintf("run %d of class %s: expected elements %v in source order, got %v\ninput:\n%s", ri, run.Class, want, have, src), cas)
				outcome = "bad-" + run.Class + "-run"
			}
			continue
		}
		d := dr[ri]
		// (1) the sorter's own dependency lists vs the reference analysis
		implDeps := map[string][]string{}
		seenImpl := map[string]bool{}
		for _, it := range got {
			if it.Kind == "TypeFwd" {
				continue
			}
			seenImpl[it.Name] = true
			implDeps[it.Name] = it.Deps
		}
		depsOK := true
		var depSigs []string
		var depWhy []string
		for _, u := range d.units {
			if !seenImpl[u.Name] {
				continue // reported below by the order check ("missing")
			}
			have := append([]string{}, implDeps[u.Name]...)
			sort.Strings(have)
			if sameStrings(have, u.Deps) {
				continue
			}
			depsOK = false
			for _, n := range diffStrings(u.Deps, have) {
				depSigs = append(depSigs, "C17|deps|"+depsClass(u, d.ref.Idx, n, true))
				depWhy = append(depWhy, fmt.Sprintf("%s %s refers to %s but the sorter does not list it", u.Kind, u.Name, n))
			}
			for _, n := range diffStrings(have, u.Deps) {
				if _, inRun := d.ref.Kind[n]; !inRun {
					depSigs = append(depSigs, "C17|deps|spurious|not-a-declared-name")
				} else {
					depSigs = append(depSigs, "C17|deps|"+depsClass(u, d.ref.Idx, n, false))
				}
				depWhy = append(depWhy, fmt.Sprintf("%s %s has no free occurrence of %s but the sorter lists it", u.Kind, u.Name, n))
			}
		}
		out := make([]sortedItem, len(got))
		for i, it := range got {
			out[i] = sortedItem{it.Kind, it.Name}
		}
		if depsOK {
			// (2) order against the reference graph
			if class, msg := d.ref.validate(out); class != "" {
				k.viol("C17|order|"+class, fmt.Sprintf("%s\nresult: %s\ninput:\n%s", msg, itemsString(got), src), cas)
				outcome = "order:" + class
			}
			continue
		}
		// dependencies differ: report each class once, and still check the graph algorithm on the sorter's own edges
		seen := map[string]bool{}
		class, msg := d.ref.validate(out)
		for i, sig := range depSigs {
			if seen[sig] {
				continue
			}
			seen[sig] = true
			extra := ""
			if class != "" {
				extra = "\nconsequence for the order: " + msg
			}
			k.viol(sig, fmt.Sprintf("%s%s\nresult: %s\ninput:\n%s", depWhy[i], extra, itemsString(got), src), cas)
		}
		outcome = "deps-differ"
		own := &refGraph{Names: d.ref.Names, Kind: d.ref.Kind, Idx: d.ref.Idx, Deps: implDeps}
		if class, msg := own.validate(out); class != "" {
			k.viol("C17|order-on-own-edges|"+class, fmt.Sprintf("even with the sorter's own dependency lists: %s\nresult: %s\ninput:\n%s", msg, itemsString(got), src), cas)
			outcome = "order-own:" + class
		}
	}
	if expectLoop && outcome == "sorted" {
		k.viol("C17|missing-declaration-loop", fmt.Sprintf("a dependency cycle that no forward type declaration can break is not reported\nresult: %s\ninput:\n%s", itemsString(items), src), cas)
		return "missing-loop"
	}
	for _, it := range items {
		if it.Kind == "TypeFwd" && outcome == "sorted" {
			return "sorted+typefwd"
		}
	}
	return outcome
}

// explainByDeps is used when the sorter reports a declaration loop the reference does not expect: the sorter's
// dependency lists are not observable then, so the input is explained by re-sorting every declaration of the run
// alone together with each single other declaration... not possible in general; instead the known classes of
// dependency disagreement are looked up from the reference occurrences: a unit with a shadowed occurrence of another
// declared name is the candidate.
func (k *c17Checker) explainByDeps(chunks []c17Chunk, an *c17Analysis) (sig, why string) {
	for ri, run := range an.runs {
		if run.Class != "decl" {
			continue
		}
		g := an.decl[ri].ref
		// sort each declaration together with the declarations it does NOT depend on, as separate 2-element inputs
		// placed in the same relative order: their Deps are then observable.
		us := an.decl[ri].units
		for _, u := range us {
			for _, v := range us {
				if u == v {
					continue
				}
				isDep := false
				for _, d := range u.Deps {
					if d == v.Name {
						isDep = true
					}
				}
				if isDep {
					continue
				}
				// u together with a stub declaration of v (same name, no references), in the same relative order
				stub := c17Chunk{Class: "decl", Text: "var " + v.Name + " = 0"}
				pair := []c17Chunk{chunks[u.Line-1], stub}
				if v.Line < u.Line {
					pair = []c17Chunk{stub, chunks[u.Line-1]}
				}
				if u.Line == v.Line {
					continue
				}
				nodes, fset, err := c17Parse(c17Source(pair))
				if err != nil {
					continue
				}
				items, perr := c17Sort(nodes, fset)
				if perr != "" {
					continue
				}
				for _, it := range items {
					if it.Name != u.Name || it.Kind == "TypeFwd" {
						continue
					}
					for _, dname := range it.Deps {
						if dname == v.Name {
							return "C17|deps|" + depsClass(u, g.Idx, v.Name, false),
								fmt.Sprintf("%s %s has no free occurrence of %s but the sorter lists it as a dependency (observed by sorting the two declarations alone)", u.Kind, u.Name, v.Name)
						}
					}
				}
			}
		}
	}
	return "", ""
}

func c17Replay(c *core.Ctx, raw json.RawMessage) {
	var cas c17Case
	if err := json.Unmarshal(raw, &cas); err != nil {
		panic(err)
	}
	if cas.Probe != nil {
		c17ProbeChild(cas.Probe)
		return
	}
	k := &c17Checker{c: c, part: cas.Part}
	if cas.Reps <= 0 {
		cas.Reps = 128
	}
	an := c17Analyze(cas.Chunks)
	if an.risky {
		if hs, _ := c17Screen([][]c17Chunk{cas.Chunks}, "replay", 1); len(hs) > 0 {
			k.reportHang(cas.Chunks, an, cas.Reps)
			return
		}
	}
	k.check(cas.Chunks, an, cas.Reps*4)
}
