package props

// C04 — generator and go/types oracle for untyped constant expression trees.
//
// The space is built level by level. The interpreter evaluates an untyped operator node from the
// (untyped kind, constant.Value) of its operands only (fast.Comp.BinaryExprUntyped / UnaryExprUntyped /
// ShiftUntyped receive UntypedLit operands), so a level-(d+1) tree is formed from *one representative
// per distinct result* (untyped kind, representation, exact value) of the level-≤d trees: every tree
// of the level is enumerated once, its result is merged with equal results (state merging), and
// the next level ranges over the merged set.

import (
	"fmt"
	"go/constant"
	"go/token"
	"go/types"
	"math/big"
	"strings"
)

// literal alphabet (35): every literal form of the Go grammar that go/constant understands
var c04Lits = []string{
	// integers: decimal, binary, octal (both spellings), hex, separators, 64-bit boundaries
	"0", "1", "2", "3", "7", "64", "200", "0b1011", "0o17", "017", "0x7f", "1_000", "0xFFFF_FFFF", "9223372036854775807", "0xFFFF_FFFF_FFFF_FFFF",
	// floats: decimal, leading dot, exponent, hex float, hex float with separators, huge and tiny
	"0.5", "1.0", "2.5", ".1", "1e3", "0x1p-2", "0x1_0.8p1", "1e400", "1e-400",
	// imaginary: decimal, fractional, binary mantissa
	"1i", "2.5i", "0b11i",
	// runes
	"'a'", `'\n'`, `'\U0010FFFF'`,
	// strings
	`"a"`, `""`, `"é\x00"`,
	// booleans
	"true", "false",
}

// medium alphabet (16): used for the level-1 × level-1 block of the quick tier
var c04Medium = []string{"0", "1", "7", "64", "200", "0x7f", "9223372036854775807", "0xFFFF_FFFF_FFFF_FFFF",
	"0.5", ".1", "1e400", "1e-400", "1i", "'a'", `"a"`, "true"}

// small alphabet (8): depth 3 in the thorough tier
var c04Small = []string{"1", "7", "200", ".1", "1e400", "2.5i", "'a'", `"a"`}

var c04Unops = []string{"+", "-", "^", "!"}
var c04Binops = []string{"+", "-", "*", "/", "%", "&", "|", "^", "&^", "<<", ">>", "&&", "||", "==", "!=", "<", "<=", ">", ">="}

// c04Node is one expression with Go's verdict on it.
type c04Node struct {
	Src   string
	Atom  bool
	Depth int
	Kind  string         // untyped kind per go/types: int rune float complex string bool ("" if Go rejects)
	Val   constant.Value // exact value per go/types
	Err   string         // go/types error ("" = valid constant expression)
	Excl  bool           // contains a shift whose left operand is an untyped float/complex constant (documented limitation)
	Op    string         // top-level operator ("" for a literal)
	LK    string         // operand kinds (for signatures)
	RK    string
}

func (n *c04Node) child() string {
	if n.Atom {
		return n.Src
	}
	return "(" + n.Src + ")"
}

// key identifies the result: untyped kind, go/constant representation and exact value.
func (n *c04Node) key() string { return c04ValueKey(n.Kind, n.Val) }

func c04ValueKey(kind string, v constant.Value) string {
	return fmt.Sprintf("%s|%T|%s", kind, v, v.ExactString())
}

// ---------------------------------------------------------------------------
// oracle: std go/types + go/constant

type c04Oracle struct {
	fset *token.FileSet
	pkg  *types.Package
}

func newC04Oracle() *c04Oracle {
	return &c04Oracle{fset: token.NewFileSet(), pkg: types.NewPackage("p", "p")}
}

func c04KindOf(t types.Type) string {
	b, ok := t.(*types.Basic)
	if !ok {
		return "?" + t.String()
	}
	switch b.Kind() {
	case types.UntypedBool:
		return "bool"
	case types.UntypedInt:
		return "int"
	case types.UntypedRune:
		return "rune"
	case types.UntypedFloat:
		return "float"
	case types.UntypedComplex:
		return "complex"
	case types.UntypedString:
		return "string"
	case types.UntypedNil:
		return "nil"
	}
	return "typed:" + b.Name()
}

// eval asks go/types for the untyped kind and exact value of a constant expression.
func (o *c04Oracle) eval(src string) (kind string, val constant.Value, err string) {
	tv, e := types.Eval(o.fset, o.pkg, token.NoPos, src)
	if e != nil {
		msg := e.Error()
		if i := strings.Index(msg, ": "); i >= 0 && strings.HasPrefix(msg, "eval:") {
			msg = msg[i+2:]
		}
		return "", nil, msg
	}
	if tv.Value == nil {
		return "", nil, "not a constant"
	}
	return c04KindOf(tv.Type), tv.Value, ""
}

// Go's own implementation restrictions (spec: "Implementation restriction"): integer constants above 512 bits,
// shift counts above 1074, float exponents beyond big.Float. An interpreter that accepts more is not wrong,
// so such trees carry no verdict (and, for the shift counts, are not run: they would allocate 2^count bits).
func c04ImplLimit(err string) bool {
	return strings.Contains(err, "invalid shift count") || strings.Contains(err, "overflow") ||
		strings.Contains(err, "not representable") || strings.Contains(err, "excessively large")
}

func (o *c04Oracle) lit(src string) *c04Node {
	n := &c04Node{Src: src, Atom: true}
	n.Kind, n.Val, n.Err = o.eval(src)
	if n.Err != "" {
		panic("C04 generator: literal " + src + " rejected by go/types: " + n.Err)
	}
	return n
}

func (o *c04Oracle) lits(srcs []string) []*c04Node {
	out := make([]*c04Node, len(srcs))
	for i, s := range srcs {
		out[i] = o.lit(s)
	}
	return out
}

func c04Max(a, b int) int {
	if a > b {
		return a
	}
	return b
}

func (o *c04Oracle) unary(op string, x *c04Node) *c04Node {
	n := &c04Node{Src: op + x.child(), Depth: x.Depth + 1, Op: "u" + op, LK: x.Kind, Excl: x.Excl}
	n.Kind, n.Val, n.Err = o.eval(n.Src)
	return n
}

func (o *c04Oracle) binary(op string, x, y *c04Node) *c04Node {
	n := &c04Node{Src: x.child() + " " + op + " " + y.child(), Depth: c04Max(x.Depth, y.Depth) + 1, Op: op, LK: x.Kind, RK: y.Kind,
		Excl: x.Excl || y.Excl}
	if (op == "<<" || op == ">>") && (x.Kind == "float" || x.Kind == "complex") {
		n.Excl = true
	}
	n.Kind, n.Val, n.Err = o.eval(n.Src)
	return n
}

// ---------------------------------------------------------------------------
// blocks: products of operand sets, addressable by index

type c04Block struct {
	Name string
	Un   bool
	Ops  []string
	L, R []*c04Node
}

func (b *c04Block) size() int {
	if b.Un {
		return len(b.Ops) * len(b.L)
	}
	return len(b.Ops) * len(b.L) * len(b.R)
}

// tree builds (and lets the oracle judge) the i-th tree of the block.
func (b *c04Block) tree(o *c04Oracle, i int) *c04Node {
	if b.Un {
		return o.unary(b.Ops[i%len(b.Ops)], b.L[i/len(b.Ops)])
	}
	op := b.Ops[i%len(b.Ops)]
	i /= len(b.Ops)
	return o.binary(op, b.L[i/len(b.R)], b.R[i%len(b.R)])
}

func c04Level1Blocks(lits []*c04Node) []*c04Block {
	return []*c04Block{
		{Name: "u(lit)", Un: true, Ops: c04Unops, L: lits},
		{Name: "lit op lit", Ops: c04Binops, L: lits, R: lits},
	}
}

// c04Merge adds the distinct valid, non-excluded results of nodes that are not in seen yet (in order).
func c04Merge(seen map[string]bool, into []*c04Node, nodes []*c04Node) []*c04Node {
	for _, n := range nodes {
		if n.Err != "" || n.Excl {
			continue
		}
		k := n.key()
		if seen[k] {
			continue
		}
		seen[k] = true
		into = append(into, n)
	}
	return into
}

// c04All evaluates every tree of the blocks sequentially (small blocks only).
func c04All(o *c04Oracle, blocks []*c04Block) []*c04Node {
	var out []*c04Node
	for _, b := range blocks {
		for i, n := 0, b.size(); i < n; i++ {
			out = append(out, b.tree(o, i))
		}
	}
	return out
}

// c04Reps returns the literals of an alphabet and the representatives of the distinct level-1 results over it
// that are not already the value of a literal.
func c04Reps(o *c04Oracle, alphabet []string) (lits, level1 []*c04Node) {
	lits = o.lits(alphabet)
	seen := map[string]bool{}
	c04Merge(seen, nil, lits)
	level1 = c04Merge(seen, nil, c04All(o, c04Level1Blocks(lits)))
	return
}

// ---------------------------------------------------------------------------
// exact value helpers

// c04Rat returns the exact rational value of a real numeric constant; ok=false for non-numeric/complex values
// and for magnitudes whose exact form would need more than ~64k bits.
func c04Rat(v constant.Value) (*big.Rat, bool) {
	switch v.Kind() {
	case constant.Int, constant.Float:
	default:
		return nil, false
	}
	switch x := constant.Val(v).(type) {
	case int64:
		return new(big.Rat).SetInt64(x), true
	case *big.Int:
		return new(big.Rat).SetInt(x), true
	case *big.Rat:
		return new(big.Rat).Set(x), true
	case *big.Float:
		if x.Sign() != 0 {
			if e := x.MantExp(nil); e > 65536 || e < -65536 {
				return nil, false
			}
		}
		r, _ := x.Rat(nil)
		return r, r != nil
	}
	return nil, false
}

func c04IsPow2(x *big.Int) bool {
	if x.Sign() <= 0 {
		return false
	}
	return x.TrailingZeroBits() == uint(x.BitLen()-1)
}
