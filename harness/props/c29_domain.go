package props

// C29 — domain: every reflect.Type reachable from the precompiled import tables (all Types, the types of all
// Binds, transitively element / key / field / parameter / result / interface-method / declared-method types)
// plus a set of compiled types declared here for the corner cases the standard library does not offer
// (fields shadowed at several depths, ambiguous promoted fields, embedded pointers, recursive and mutually
// recursive types, named func/map/chan/array types, interfaces with unexported methods).

import (
	"io"
	r "reflect"
	"sort"

	"github.com/cosmos72/gomacro/imports"
)

// ---- harness types (compiled, so reflect describes them exactly)

type C29Inner struct {
	X, Y int
	z    string
}
type C29Mid struct {
	C29Inner
	Y string // shadows C29Inner.Y
	W *C29Mid
}
type C29Other struct {
	X float64 // same depth as C29Mid... when both embedded: ambiguous
	V uint8   `json:"v,omitempty"`
}
type C29Outer struct {
	C29Mid
	*C29Other
	Z bool `k:"v"`
}
type C29Amb struct { // X is promoted from both embedded structs at the same depth: ambiguous
	C29Inner
	C29Other
}
type C29Deep struct {
	C29Outer
	z int8
}
type C29List struct {
	Elem int
	Rest *C29List
}
type C29A struct {
	B *C29B
	F func(C29A) C29B
}
type C29B struct {
	A  []C29A
	M  map[string]*C29B
	Ch <-chan C29A
}
type C29Func func(int, ...string) (bool, error)
type C29Map map[string][]C29Func
type C29Chan chan<- C29Map
type C29Array [3]C29Chan
type C29Int int
type C29Str string
type C29Iface interface {
	io.Reader
	Exported(C29Int) C29Str
	unexported() C29List
}
type C29Stringer interface{ String() string }
type C29EmbIface struct {
	C29Stringer
	io.Writer
	n int
}

func (C29Int) String() string             { return "" }
func (*C29Int) Set(int)                   {}
func (C29Inner) Get() int                 { return 0 }
func (*C29Inner) Put(int)                 {}
func (C29Mid) Get2(C29Inner) *C29Mid      { return nil }
func (C29List) Len() int                  { return 0 }
func (*C29List) Read([]byte) (int, error) { return 0, nil }
func (*C29List) Exported(C29Int) C29Str   { return "" }
func (*C29List) unexported() C29List      { return C29List{} }
func (C29Map) Keys(...int) []string       { return nil }
func (C29Func) Call()                     {}

var c29HarnessValues = []interface{}{
	C29Inner{}, C29Mid{}, C29Other{}, C29Outer{}, C29Amb{}, &C29Amb{}, C29Deep{}, &C29Deep{}, C29List{}, &C29List{}, C29A{}, C29B{},
	C29Func(nil), C29Map(nil), C29Chan(nil), C29Array{}, C29Int(0), new(C29Int), C29Str(""), (*C29Iface)(nil), (*C29Stringer)(nil),
	C29EmbIface{}, &C29EmbIface{},
	struct {
		A int `json:"a"`
		B []C29Int
	}{},
	struct {
		a int
		C29Int
	}{},
	struct{ C29Inner }{},
	struct {
		*C29Inner
		io.Reader
	}{},
	[0]int{}, [2][]map[C29Int]*C29Str{}, (func())(nil), (func(...interface{}))(nil), (func([]interface{}))(nil),
	(func(int, string) (float64, error))(nil), (chan<- int)(nil), (<-chan int)(nil), (chan int)(nil), (chan (<-chan int))(nil),
	map[interface{}]struct{}{}, map[[2]int]*int{}, (*interface{})(nil), (*error)(nil), (**int)(nil),
	(*interface {
		Len() int
		Less(i, j int) bool
	})(nil),
	(*interface{ m() })(nil),
}

const c29HarnessPkg = "verif/harness/props"

// c29Domain is the deterministic list of reflect types with the index of the package that owns (first reaches) each.
type c29Domain struct {
	paths []string
	types []r.Type
	owner []int // index into paths; len(paths) = the harness types
	seen  map[r.Type]int
}

var c29QuickPkgs = []string{"bufio", "bytes", "container/heap", "container/list", "context", "encoding/binary", "encoding/json", "errors", "fmt",
	"go/token", "io", "math", "math/big", "os", "reflect", "sort", "strconv", "strings", "sync", "text/template", "time", "unicode"}

func c29Paths(thorough bool) []string {
	var paths []string
	if thorough {
		for p := range imports.Packages {
			paths = append(paths, p)
		}
	} else {
		for _, p := range c29QuickPkgs {
			if _, ok := imports.Packages[p]; ok {
				paths = append(paths, p)
			}
		}
	}
	sort.Strings(paths)
	return paths
}

func (d *c29Domain) visit(rt r.Type, owner int) {
	if rt == nil {
		return
	}
	if _, ok := d.seen[rt]; ok {
		return
	}
	d.seen[rt] = len(d.types)
	d.types = append(d.types, rt)
	d.owner = append(d.owner, owner)
	switch rt.Kind() {
	case r.Array, r.Chan, r.Ptr, r.Slice:
		d.visit(rt.Elem(), owner)
	case r.Map:
		d.visit(rt.Key(), owner)
		d.visit(rt.Elem(), owner)
	case r.Func:
		for i := 0; i < rt.NumIn(); i++ {
			d.visit(rt.In(i), owner)
		}
		for i := 0; i < rt.NumOut(); i++ {
			d.visit(rt.Out(i), owner)
		}
	case r.Struct:
		for i := 0; i < rt.NumField(); i++ {
			d.visit(rt.Field(i).Type, owner)
		}
	case r.Interface:
		for i := 0; i < rt.NumMethod(); i++ {
			d.visit(rt.Method(i).Type, owner)
		}
	}
	if rt.Name() != "" && rt.Kind() != r.Interface {
		// declared (exported) methods: their signatures, receiver included
		pt := rt
		if rt.Kind() != r.Ptr {
			pt = r.PtrTo(rt)
		}
		for i := 0; i < pt.NumMethod(); i++ {
			d.visit(pt.Method(i).Type, owner)
		}
	}
}

func c29BuildDomain(thorough bool) *c29Domain {
	d := &c29Domain{paths: c29Paths(thorough), seen: map[r.Type]int{}}
	// harness types first: they are checked by every tier
	for _, v := range c29HarnessValues {
		d.visit(r.TypeOf(v), len(d.paths))
	}
	for pi, p := range d.paths {
		pkg := imports.Packages[p]
		var names []string
		for n := range pkg.Types {
			names = append(names, n)
		}
		sort.Strings(names)
		for _, n := range names {
			d.visit(pkg.Types[n], pi)
		}
		names = names[:0]
		for n := range pkg.Binds {
			names = append(names, n)
		}
		sort.Strings(names)
		for _, n := range names {
			if v := pkg.Binds[n]; v.IsValid() {
				d.visit(v.Type(), pi)
			}
		}
	}
	return d
}
