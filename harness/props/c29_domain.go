package props

// C29 — domain: every reflect.Type reachable from the precompiled import tables (all Types, the types of all
// Binds, transitively element / key / field / parameter / result / interface-method / declared-method types)
// plus a set of compiled types declared here for the corner cases the standard library does not offer
// (fields shadowed at several depths, ambiguous promoted fields, embedded pointers, recursive and mutually
// recursive types, named func/map/chan/array types, interfaces with unexported methods).

import (
	"io"
	r "reflect"
	"sort"

	"github.com/cosmos72/gomacro/imports"
)

// ---- harness types (compiled, so reflect describes them exactly)

type C29Inner struct {
	X, Y int
	z    string
}
type C29Mid struct {
	C29Inner
	Y string // shadows C29Inner.Y
	W *C29Mid
}
type C29Other struct {
	X float64 // same depth as C29Mid... when both embedded: ambiguous
	V uint8   `json:"v,omitempty"`
}
type C29Outer struct {
	C29Mid
	*C29Other
	Z bool `k:"v"`
}
type C29Amb struct { // X is promoted from both embedded structs at the same depth: ambiguous
	C29Inner
	C29Other
}
type C29Deep struct {
	C29Outer
	z int8
}
type C29List struct {
	Elem int
	Rest *C29List
}
type C29A struct {
	B *C29B
	F func(C29A) C29B
}
type C29B struct {
	A  []C29A
	M  map[string]*C29B
	Ch <-chan C29A
}
type C29Func func(int, ...string) (bool, error)
type C29Map map[string][]C29Func
type C29Chan chan<- C29Map
type C29Array [3]C29Chan
type C29Int int
type C29Str string
type C29Iface interface {
	io.Reader
	Exported(C29Int) C29Str
	unexported() C29List
}
type C29Stringer interface{ String() string }
type C29EmbIface struct {
	C29Stringer
	io.Writer
	n int
}

func (C29Int) String() string             { return "" }
func (*C29Int) Set(int)                   {}
func (C29Inner) Get() int                 { return 0 }
func (*C29Inner) Put(int)                 {}
func (C29Mid) Get2(C29Inner) *C29Mid      { return nil }
func (C29List) Len() int                  { return 0 }
func (*C29List) Read([]byte) (int, error) { return 0, nil }
func (*C29List) Exported(C29Int) C29Str   { return "" }
func (*C29List) unexported() C29List      { return C29List{} }
func (C29Map) Keys(...int) []string       { return nil }
func (C29Func) Call()                     {}

// ---- one struct type reached through several embedded fields (the visited-set of the breadth-first field and method
// search is keyed by the UNDERLYING struct up to type identity: a struct met again at the SAME depth must be scanned
// again - that is how ambiguity is found - while one met again DEEPER must be skipped)
type C29In struct{ X, Y int }
type C29Left struct{ C29In }
type C29Right struct{ C29In } // same underlying type as C29Left
type C29Diamond struct {      // C29In, X, Y, GetIn, PutIn: twice at depth 2; C29Left / C29Right have identical underlying types at depth 1
	C29Left
	C29Right
}
type C29LeftA struct {
	C29In
	A int
}
type C29RightB struct {
	B int
	C29In
}
type C29DiamondAB struct { // the embedding structs differ, only the struct at depth 2 is met twice
	C29LeftA
	C29RightB
}
type C29DiamondPtr struct {
	*C29Left
	*C29Right
}
type C29DiamondMix struct {
	C29LeftA
	*C29Right
}
type C29P1 struct{ V int }
type C29P2 struct{ V int } // sibling named type with the identical underlying struct
type C29P3 struct{ V int }
type C29Pair struct { // V, M1: ambiguous at depth 1
	C29P1
	C29P2
}
type C29PairPtr struct {
	*C29P1
	*C29P2
}
type C29PairMix struct {
	C29P1
	*C29P2
}
type C29Triple struct {
	C29P1
	C29P2
	C29P3
}
type C29ShallowFirst struct { // C29In at depth 1 (X unique), met again at depth 2: the deeper one loses
	C29In
	C29Left
}
type C29DeepFirst struct { // same, other field order
	C29Left
	C29In
}
type C29Override struct { // X declared at depth 0 wins; Y stays ambiguous
	C29Left
	C29Right
	X string
}
type C29WrapDiamond struct{ C29Diamond } // the ambiguity one level deeper
type C29WrapPair struct {
	C29Pair
	W int
}
type C29P1Deep struct{ C29P1 }
type C29Uneven struct { // V: C29P2.V at depth 1 wins over C29P1Deep.C29P1.V at depth 2
	C29P1Deep
	C29P2
}
type C29UnevenAmb struct { // V: depth 1 twice (C29P2, C29P3), and once more at depth 2
	C29P1Deep
	C29P2
	C29P3
}
type C29Self struct { // self-reference: the reason why the visited-set exists
	*C29Self
	S int
}
type C29Self2 struct {
	*C29Self2
	S int
}
type C29SelfPair struct { // S ambiguous; both embedded types are self-referencing
	C29Self
	C29Self2
}
type C29TwoReaders struct { // Read is promoted from two embedded interfaces: ambiguous; Close is unique
	io.Reader
	io.ReadCloser
}

func (C29In) GetIn() int     { return 0 }
func (*C29In) PutIn(int)     {}
func (C29Left) OnlyLeft()    {}
func (C29P1) M1()            {}
func (C29P2) M1()            {}
func (*C29P3) M1()           {}
func (C29P1) Only1() int     { return 0 }
func (*C29P2) Only2() int    { return 0 }
func (C29P1Deep) DeepOnly()  {}
func (C29Self) SelfM()       {}
func (*C29Self2) SelfM()     {}
func (C29Override) GetOver() {}

// ---- struct tags: every pattern of tagged / untagged fields (go/types keeps the tags in a separate slice that may be
// shorter than the fields; reflect keeps them per field). One tag string everywhere, so that a tag moving to a
// neighbouring field turns one of these types into another one of the list.
type C29TagGap struct {
	A int `k:"v"`
	B int
	C int `k:"v"`
}
type C29TagGapUnexp struct {
	a int `k:"v"`
	C29Int
	c int `k:"v"`
}
type C29TagEmb struct {
	C29P1  `k:"v"`
	B      int
	*C29P2 `k:"v"`
}

var c29HarnessValues2 = []interface{}{
	C29In{}, C29Left{}, C29Right{}, C29Diamond{}, &C29Diamond{}, C29LeftA{}, C29RightB{}, C29DiamondAB{}, C29DiamondPtr{}, C29DiamondMix{},
	C29P1{}, C29P2{}, C29P3{}, C29Pair{}, &C29Pair{}, C29PairPtr{}, C29PairMix{}, C29Triple{}, C29ShallowFirst{}, C29DeepFirst{}, C29Override{},
	C29WrapDiamond{}, C29WrapPair{}, C29P1Deep{}, C29Uneven{}, C29UnevenAmb{}, C29Self{}, C29Self2{}, C29SelfPair{}, C29TwoReaders{},
	// unnamed struct types with the same shapes
	struct {
		C29Left
		C29Right
	}{},
	struct {
		C29P1
		C29P2
	}{},
	struct{ V int }{}, // the underlying type of C29P1 / C29P2 / C29P3 itself
	C29TagGap{}, C29TagGapUnexp{}, C29TagEmb{},
	// 3 fields, all 8 tag patterns
	struct{ A, B, C int }{},
	struct {
		A int `k:"v"`
		B int
		C int
	}{},
	struct {
		A int
		B int `k:"v"`
		C int
	}{},
	struct {
		A int
		B int
		C int `k:"v"`
	}{},
	struct {
		A int `k:"v"`
		B int `k:"v"`
		C int
	}{},
	struct {
		A int `k:"v"`
		B int
		C int `k:"v"`
	}{},
	struct {
		A int
		B int `k:"v"`
		C int `k:"v"`
	}{},
	struct {
		A int `k:"v"`
		B int `k:"v"`
		C int `k:"v"`
	}{},
	// 4 fields: gaps of one and two fields, leading and trailing gaps
	struct {
		A int `k:"v"`
		B int
		C int
		D int `k:"v"`
	}{},
	struct {
		A int `k:"v"`
		B int
		C int `k:"v"`
		D int
	}{},
	struct {
		A int
		B int `k:"v"`
		C int
		D int `k:"v"`
	}{},
	struct {
		A int `k:"v"`
		B int `k:"v"`
		C int
		D int `k:"v"`
	}{},
	struct {
		A int `k:"v"`
		B int
		C int `k:"v"`
		D int `k:"v"`
	}{},
	struct {
		A int `k:"v"`
		B int `k:"v"`
		C int `k:"v"`
		D int
	}{},
	struct {
		A int
		B int `k:"v"`
		C int `k:"v"`
		D int `k:"v"`
	}{},
	// different tag strings, unexported and embedded fields in the gap
	struct {
		A int `k:"a"`
		B int
		C int `k:"c"`
	}{},
	struct {
		A int `k:"a"`
		B int `k:"c"`
		C int
	}{},
	struct {
		A int `k:"a"`
		b string
		C int `k:"c"`
	}{},
	struct {
		A int    `k:"a"`
		b string `k:"c"`
		C int
	}{},
	struct {
		a int `k:"a"`
		C29In
		c int `k:"c"`
	}{},
	struct {
		a     int `k:"a"`
		C29In `k:"c"`
		c     int
	}{},
}

var c29HarnessValues = []interface{}{
	C29Inner{}, C29Mid{}, C29Other{}, C29Outer{}, C29Amb{}, &C29Amb{}, C29Deep{}, &C29Deep{}, C29List{}, &C29List{}, C29A{}, C29B{},
	C29Func(nil), C29Map(nil), C29Chan(nil), C29Array{}, C29Int(0), new(C29Int), C29Str(""), (*C29Iface)(nil), (*C29Stringer)(nil),
	C29EmbIface{}, &C29EmbIface{},
	struct {
		A int `json:"a"`
		B []C29Int
	}{},
	struct {
		a int
		C29Int
	}{},
	struct{ C29Inner }{},
	struct {
		*C29Inner
		io.Reader
	}{},
	[0]int{}, [2][]map[C29Int]*C29Str{}, (func())(nil), (func(...interface{}))(nil), (func([]interface{}))(nil),
	(func(int, string) (float64, error))(nil), (chan<- int)(nil), (<-chan int)(nil), (chan int)(nil), (chan (<-chan int))(nil),
	map[interface{}]struct{}{}, map[[2]int]*int{}, (*interface{})(nil), (*error)(nil), (**int)(nil),
	(*interface {
		Len() int
		Less(i, j int) bool
	})(nil),
	(*interface{ m() })(nil),
}

const c29HarnessPkg = "verif/harness/props"

// c29Domain is the deterministic list of reflect types with the index of the package that owns (first reaches) each.
type c29Domain struct {
	paths []string
	types []r.Type
	owner []int // index into paths; len(paths) = the harness types
	seen  map[r.Type]int
}

var c29QuickPkgs = []string{"bufio", "bytes", "container/heap", "container/list", "context", "encoding/binary", "encoding/json", "errors", "fmt",
	"go/token", "io", "math", "math/big", "os", "reflect", "sort", "strconv", "strings", "sync", "text/template", "time", "unicode"}

func c29Paths(thorough bool) []string {
	var paths []string
	if thorough {
		for p := range imports.Packages {
			paths = append(paths, p)
		}
	} else {
		for _, p := range c29QuickPkgs {
			if _, ok := imports.Packages[p]; ok {
				paths = append(paths, p)
			}
		}
	}
	sort.Strings(paths)
	return paths
}

func (d *c29Domain) visit(rt r.Type, owner int) {
	if rt == nil {
		return
	}
	if _, ok := d.seen[rt]; ok {
		return
	}
	d.seen[rt] = len(d.types)
	d.types = append(d.types, rt)
	d.owner = append(d.owner, owner)
	switch rt.Kind() {
	case r.Array, r.Chan, r.Ptr, r.Slice:
		d.visit(rt.Elem(), owner)
	case r.Map:
		d.visit(rt.Key(), owner)
		d.visit(rt.Elem(), owner)
	case r.Func:
		for i := 0; i < rt.NumIn(); i++ {
			d.visit(rt.In(i), owner)
		}
		for i := 0; i < rt.NumOut(); i++ {
			d.visit(rt.Out(i), owner)
		}
	case r.Struct:
		for i := 0; i < rt.NumField(); i++ {
			d.visit(rt.Field(i).Type, owner)
		}
	case r.Interface:
		for i := 0; i < rt.NumMethod(); i++ {
			d.visit(rt.Method(i).Type, owner)
		}
	}
	if rt.Name() != "" && rt.Kind() != r.Interface {
		// declared (exported) methods: their signatures, receiver included
		pt := rt
		if rt.Kind() != r.Ptr {
			pt = r.PtrTo(rt)
		}
		for i := 0; i < pt.NumMethod(); i++ {
			d.visit(pt.Method(i).Type, owner)
		}
	}
}

func c29BuildDomain(thorough bool) *c29Domain {
	d := &c29Domain{paths: c29Paths(thorough), seen: map[r.Type]int{}}
	// harness types first: they are checked by every tier
	for _, v := range c29HarnessValues {
		d.visit(r.TypeOf(v), len(d.paths))
	}
	for _, v := range c29HarnessValues2 {
		d.visit(r.TypeOf(v), len(d.paths))
	}
	for pi, p := range d.paths {
		pkg := imports.Packages[p]
		var names []string
		for n := range pkg.Types {
			names = append(names, n)
		}
		sort.Strings(names)
		for _, n := range names {
			d.visit(pkg.Types[n], pi)
		}
		names = names[:0]
		for n := range pkg.Binds {
			names = append(names, n)
		}
		sort.Strings(names)
		for _, n := range names {
			if v := pkg.Binds[n]; v.IsValid() {
				d.visit(v.Type(), pi)
			}
		}
	}
	return d
}
