package props

// C19 program corpus: call chains of depth <= 3 (plus closures and deferred closures, which add frames) built from
// per-level shapes {plain, loop, defer, closure, earlyret, noreturn}, explicit "break" statements at enumerated levels,
// a trace hook T(n) in every loop iteration and around every call so that (position, hook clock) identifies a stop.

import (
	"fmt"
	"strings"
)

type c19Prog struct {
	ID       string
	Shapes   []string // shape of level 1..3
	BP       []bool   // breakpoint at level i
	Decls    string
	Main     string
	NoReturn bool // contains a function body that falls off its end
}

// a shape renders func NAME(x int) int; @CALL(e)@ is replaced by a call of the next level (or a leaf expression),
// @BP@ by a "break" statement or nothing, @Tn@ by a fresh trace hook call.
var c19ShapeSrc = map[string]string{
	"plain": `func NAME(x int) int {
	@T@
	@BP@
	r := @CALL(x + 1)@
	@T@
	return r + 1
}`,
	"loop": `func NAME(x int) int {
	r := 0
	for i := 0; i < 2; i++ {
		@T@
		@BP@
		r += @CALL(i)@
	}
	@T@
	return r
}`,
	"defer": `func NAME(x int) (r int) {
	defer T(900)
	defer func() {
		@T@
		@BP@
		r += @CALL(x)@
		return
	}()
	@T@
	return x
}`,
	"closure": `func NAME(x int) int {
	g := func(y int) int {
		@T@
		@BP@
		return @CALL(y)@ + 1
	}
	@T@
	a := g(x)
	@T@
	b := g(x + 1)
	return a + b
}`,
	"earlyret": `func NAME(x int) int {
	@T@
	if x >= 0 {
		r := @CALL(x)@
		@BP@
		@T@
		return r
	}
	@T@
	return -1
}`,
	"earlyret2": `func NAME(x int) int {
	@T@
	if x >= 0 {
		@BP@
		return @CALL(x)@
	}
	@T@
	return -1
}`,
	"noreturn": `func NAME(x int) int {
	v := func() {
		@T@
		@BP@
	}
	@T@
	v()
	@T@
	return @CALL(x)@
}`,
	// ---- shapes added for the independent executed-statement oracle (c19_ref.go): statement forms whose execution goes
	// through the signal machinery of the executor (defer installation, panics and recover, branches out of nested
	// scopes) or that open and close scopes with local bindings; one simple statement per line
	"defers": `func NAME(x int) (r int) {
	@T@
	defer T(901)
	r = x
	for i := 0; i < 2; i++ {
		defer T(902 + i)
		@T@
	}
	@BP@
	if x >= 0 {
		defer func() {
			r += @CALL(x)@
			return
		}()
		r++
	}
	defer T(905)
	return r
}`,
	"recover": `func NAME(x int) (r int) {
	defer func() {
		e := recover()
		@T@
		if e != nil {
			r = @CALL(x)@
		}
		return
	}()
	@T@
	@BP@
	var a []int
	r = a[x+5]
	@T@
	return r
}`,
	"switch": `func NAME(x int) int {
	r := 0
	for i := 0; i < 3; i++ {
		@T@
		switch {
		case i == 0:
			r++
			continue
		case i == 1:
			@BP@
			r += @CALL(i)@
		default:
			@T@
			break
		}
		@T@
	}
	return r
}`,
	"labels": `func NAME(x int) int {
	r := 0
outer:
	for _, v := range []int{1, 2} {
		@T@
		for j := 0; ; j++ {
			@T@
			if j == v {
				continue outer
			}
			if j > 0 {
				break outer
			}
			r += v
		}
	}
	@BP@
	r += @CALL(x)@
	if r != 0 {
		@T@
	}
	return r
}`,
	"scopes": `func NAME(x int) int {
	var a int
	var b, c = 1, x
	@T@
	{
		y := a + b
		@BP@
		c += @CALL(y)@
		y++
		a = y
	}
	ch := make(chan int, 1)
	ch <- c
	select {
	case v := <-ch:
		@T@
		a += v
	default:
		@T@
	}
	if z := a; z > 0 {
		@T@
		a, b = b, z
	}
	return a + b
}`,
}

var c19ShapeNames = []string{"plain", "loop", "defer", "closure", "earlyret", "earlyret2"}

// shapes used by the trace-completeness family (all of c19ShapeNames plus the statement-form shapes)
var c19ShapeNamesX = []string{"plain", "loop", "defer", "closure", "earlyret", "earlyret2", "defers", "recover", "switch", "labels", "scopes"}

func c19Make(shapes []string, bp []bool) c19Prog {
	p := c19Prog{Shapes: shapes, BP: bp}
	tn := 0
	var decls []string
	for lvl := len(shapes) - 1; lvl >= 0; lvl-- {
		src := c19ShapeSrc[shapes[lvl]]
		name := fmt.Sprintf("c19f%d", lvl+1)
		src = strings.Replace(src, "NAME", name, 1)
		for strings.Contains(src, "@T@") {
			tn++
			src = strings.Replace(src, "@T@", fmt.Sprintf("T(%d)", tn), 1)
		}
		b := ""
		if bp[lvl] {
			b = `"break"`
		}
		src = strings.Replace(src, "@BP@", b, -1)
		for {
			i := strings.Index(src, "@CALL(")
			if i < 0 {
				break
			}
			j := i + strings.Index(src[i:], ")@")
			arg := src[i+len("@CALL(") : j]
			var call string
			if lvl == len(shapes)-1 {
				call = "(" + arg + ")*2"
			} else {
				call = fmt.Sprintf("c19f%d(%s)", lvl+2, arg)
			}
			src = src[:i] + call + src[j+2:]
		}
		// drop the lines left empty by an absent breakpoint
		var lines []string
		for _, l := range strings.Split(src, "\n") {
			if strings.TrimSpace(l) != "" {
				lines = append(lines, l)
			}
		}
		decls = append(decls, strings.Join(lines, "\n"))
		if shapes[lvl] == "noreturn" {
			p.NoReturn = true
		}
	}
	p.Decls = strings.Join(decls, "\n")
	p.Main = "O(c19f1(1))"
	bs := ""
	for _, b := range bp {
		if b {
			bs += "b"
		} else {
			bs += "-"
		}
	}
	p.ID = strings.Join(shapes, ">") + "/" + bs
	return p
}

func c19ProgByID(id string) (c19Prog, bool) {
	parts := strings.Split(id, "/")
	if len(parts) != 2 {
		return c19Prog{}, false
	}
	shapes := strings.Split(parts[0], ">")
	if len(shapes) != len(parts[1]) {
		return c19Prog{}, false
	}
	var bp []bool
	for i, s := range shapes {
		if _, ok := c19ShapeSrc[s]; !ok {
			return c19Prog{}, false
		}
		bp = append(bp, parts[1][i] == 'b')
	}
	return c19Make(shapes, bp), true
}

// c19Corpus enumerates the programs of a tier.
func c19Corpus(thorough bool) []c19Prog {
	var out []c19Prog
	bpsets3 := [][]bool{{false, false, false}, {false, false, true}, {false, true, false}, {true, false, true}, {false, true, true}, {true, false, false}, {true, true, false}, {true, true, true}}
	n := 0
	if !thorough {
		// every ordered pair of shapes on levels 1,2 over a plain leaf level, breakpoint sets rotating
		for _, s1 := range c19ShapeNames {
			for _, s2 := range c19ShapeNames {
				out = append(out, c19Make([]string{s1, s2, "plain"}, bpsets3[n%len(bpsets3)]))
				n++
			}
		}
		for _, s3 := range []string{"loop", "defer", "closure"} {
			out = append(out, c19Make([]string{"plain", "earlyret", s3}, []bool{false, false, true}))
		}
		out = append(out, c19Make([]string{"plain", "noreturn"}, []bool{false, false}))
		out = append(out, c19Make([]string{"noreturn", "plain"}, []bool{false, true}))
		// the statement-form shapes as caller and as callee of a plain level
		for _, s := range c19ShapeNamesX[len(c19ShapeNames):] {
			out = append(out, c19Make([]string{s, "plain"}, []bool{false, true}))
			out = append(out, c19Make([]string{"plain", s}, []bool{false, true}))
		}
		return out
	}
	for _, s1 := range c19ShapeNames {
		for _, s2 := range c19ShapeNames {
			for _, s3 := range c19ShapeNames {
				for _, bi := range []int{0, 1, 3} {
					out = append(out, c19Make([]string{s1, s2, s3}, bpsets3[bi]))
				}
			}
		}
	}
	for _, s1 := range c19ShapeNames {
		for _, s2 := range c19ShapeNames {
			out = append(out, c19Make([]string{s1, s2}, []bool{false, true}))
		}
	}
	out = append(out, c19Make([]string{"plain", "noreturn"}, []bool{false, false}))
	out = append(out, c19Make([]string{"noreturn", "plain"}, []bool{false, true}))
	out = append(out, c19Make([]string{"loop", "noreturn", "plain"}, []bool{false, true, false}))
	for _, s1 := range c19ShapeNamesX {
		for _, s2 := range c19ShapeNamesX[len(c19ShapeNames):] {
			out = append(out, c19Make([]string{s1, s2}, []bool{false, true}))
		}
	}
	for _, s1 := range c19ShapeNamesX[len(c19ShapeNames):] {
		for _, s2 := range c19ShapeNames {
			out = append(out, c19Make([]string{s1, s2}, []bool{true, true}))
		}
	}
	return out
}

// c19TraceCorpus enumerates the programs whose single-step trace is compared with compiled Go (family 0): a superset
// of the programs explored with command sequences (one debug run per program, so the set can be much larger).
func c19TraceCorpus(thorough bool) []c19Prog {
	var out []c19Prog
	seen := map[string]bool{}
	add := func(p c19Prog) {
		if !seen[p.ID] {
			seen[p.ID] = true
			out = append(out, p)
		}
	}
	for _, p := range c19Corpus(thorough) {
		add(p)
	}
	bpsets3 := [][]bool{{false, false, true}, {false, true, false}, {true, false, true}, {false, true, true}, {true, false, false}, {true, true, false}, {true, true, true}, {false, false, false}}
	n := 0
	X := c19ShapeNamesX
	for _, s1 := range X {
		for _, s2 := range X {
			add(c19Make([]string{s1, s2, "plain"}, bpsets3[n%len(bpsets3)]))
			n++
		}
	}
	for _, s3 := range X {
		add(c19Make([]string{"plain", "plain", s3}, []bool{false, false, true}))
		add(c19Make([]string{"plain", "earlyret", s3}, []bool{false, true, true}))
	}
	if thorough {
		for _, s1 := range X {
			for _, s2 := range X {
				for _, s3 := range X {
					add(c19Make([]string{s1, s2, s3}, bpsets3[n%len(bpsets3)]))
					n++
				}
			}
		}
	}
	return out
}
