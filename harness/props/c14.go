package props

// C14 — REPL-style evaluation, one top-level statement per Eval, matches in-order Go; pointers to globals
// taken early stay valid and aliased however many declarations are added later.
//
// Explicit enumeration of ALL histories over a small operation alphabet up to depth D, each executed on a
// fresh interpreter (no state merging: the slot layout of the global Env is hidden state). Reference model:
// a Go map name -> cell with pointer aliasing. After EVERY step every declared name, every *p, every g()
// and every alias relation p == &v is read back through Eval and compared. The model itself is validated
// against compiled Go on all histories up to depth 3 rendered as one function body (c14Prepare).

import (
	"encoding/json"
	"fmt"
	"reflect"
	"sort"
	"strings"

	"verif/harness/core"
	"verif/harness/oracle"
	"verif/harness/twin"
)

func init() {
	core.Register(&core.Check{ID: "C14", Level: "model_checking", Workers: -1, Prepare: c14Prepare, Run: c14Run, Replay: c14Replay})
}

// operations
const (
	opVarInt    = "var-int"    // var vN int = c
	opVarStr    = "var-string" // var sN string = c
	opVarFloat  = "var-float"  // var fN float64 = c
	opAssign    = "assign"     // vN = c
	opAddAssign = "add-assign" // vN += c
	opAddr      = "addr"       // pN := &vM
	opRepoint   = "repoint"    // pN = &vM
	opStore     = "store"      // *pN = c
	opFunc      = "func"       // func gN() int { return vM }
	opStruct    = "struct"     // type TN struct{A int}; var tN TN; tN.A = c   (three evaluations)
	opBulk      = "bulk"       // 1100 further int variables + 40 string variables, one evaluation each
)

type c14Op struct {
	Kind string `json:"op"`
	N    int    `json:"n,omitempty"` // name index
	M    int    `json:"m,omitempty"` // second name index (target variable)
	C    int    `json:"c,omitempty"` // constant index
}

func (o c14Op) String() string { return fmt.Sprintf("%s(%d,%d,%d)", o.Kind, o.N, o.M, o.C) }

var (
	c14Ints   = []int{3, 7}
	c14Strs   = []string{"a", "bb"}
	c14Floats = []float64{1.5, -2.25}
)

const (
	c14BulkInts = 1100
	c14BulkStrs = 40
)

// ---------------------------------------------------------------------------
// reference model

type c14Cell struct {
	kind string // int string float
	i    int
	s    string
	f    float64
}

type c14Model struct {
	order []string            // declared names in declaration order
	vars  map[string]*c14Cell // variables (incl. bulk)
	ptrs  map[string]string   // pointer name -> name of the int variable it points to
	funcs map[string]string   // function name -> name of the int variable it returns
	strus map[string]int      // struct variable name -> value of field A
	bulks int                 // number of bulk ops so far
	addr  bool                // an address of an int variable was taken
}

func newC14Model() *c14Model {
	return &c14Model{vars: map[string]*c14Cell{}, ptrs: map[string]string{}, funcs: map[string]string{}, strus: map[string]int{}}
}

func (m *c14Model) declared(name string) bool {
	_, a := m.vars[name]
	_, b := m.ptrs[name]
	_, c := m.funcs[name]
	_, d := m.strus[name]
	return a || b || c || d
}

// applicable: the history stays valid in-order Go (no redeclaration, no use before declaration)
func (m *c14Model) applicable(o c14Op) bool {
	v := fmt.Sprintf("v%d", o.M)
	switch o.Kind {
	case opVarInt:
		return !m.declared(fmt.Sprintf("v%d", o.N))
	case opVarStr:
		return !m.declared(fmt.Sprintf("s%d", o.N))
	case opVarFloat:
		return !m.declared(fmt.Sprintf("f%d", o.N))
	case opAssign, opAddAssign:
		return m.declared(fmt.Sprintf("v%d", o.N))
	case opAddr:
		return !m.declared(fmt.Sprintf("p%d", o.N)) && m.declared(v)
	case opRepoint:
		return m.declared(fmt.Sprintf("p%d", o.N)) && m.declared(v)
	case opStore:
		return m.declared(fmt.Sprintf("p%d", o.N))
	case opFunc:
		return !m.declared(fmt.Sprintf("g%d", o.N)) && m.declared(v)
	case opStruct:
		return !m.declared(fmt.Sprintf("t%d", o.N))
	case opBulk:
		return m.bulks < 2
	}
	return false
}

// stmts returns the evaluations of the operation (one top-level statement each); bulkN/bulkS: size of the bulk.
func (m *c14Model) stmts(o c14Op, bulkN, bulkS int) []string {
	switch o.Kind {
	case opVarInt:
		return []string{fmt.Sprintf("var v%d int = %d", o.N, c14Ints[o.C])}
	case opVarStr:
		return []string{fmt.Sprintf("var s%d string = %q", o.N, c14Strs[o.C])}
	case opVarFloat:
		return []string{fmt.Sprintf("var f%d float64 = %v", o.N, c14Floats[o.C])}
	case opAssign:
		return []string{fmt.Sprintf("v%d = %d", o.N, c14Ints[o.C])}
	case opAddAssign:
		return []string{fmt.Sprintf("v%d += %d", o.N, c14Ints[o.C])}
	case opAddr:
		return []string{fmt.Sprintf("p%d := &v%d", o.N, o.M)}
	case opRepoint:
		return []string{fmt.Sprintf("p%d = &v%d", o.N, o.M)}
	case opStore:
		return []string{fmt.Sprintf("*p%d = %d", o.N, c14Ints[o.C]*10)}
	case opFunc:
		return []string{fmt.Sprintf("func g%d() int { return v%d }", o.N, o.M)}
	case opStruct:
		return []string{fmt.Sprintf("type T%d struct{ A int }", o.N), fmt.Sprintf("var t%d T%d", o.N, o.N), fmt.Sprintf("t%d.A = %d", o.N, c14Ints[o.C])}
	case opBulk:
		var l []string
		for i := 0; i < bulkN; i++ {
			l = append(l, fmt.Sprintf("var b%d_%d int = %d", m.bulks, i, i*3+m.bulks))
		}
		for i := 0; i < bulkS; i++ {
			l = append(l, fmt.Sprintf("var c%d_%d string = \"%d\"", m.bulks, i, i))
		}
		return l
	}
	panic("bad op")
}

func (m *c14Model) apply(o c14Op, bulkN, bulkS int) {
	decl := func(name string) { m.order = append(m.order, name) }
	switch o.Kind {
	case opVarInt:
		n := fmt.Sprintf("v%d", o.N)
		m.vars[n] = &c14Cell{kind: "int", i: c14Ints[o.C]}
		decl(n)
	case opVarStr:
		n := fmt.Sprintf("s%d", o.N)
		m.vars[n] = &c14Cell{kind: "string", s: c14Strs[o.C]}
		decl(n)
	case opVarFloat:
		n := fmt.Sprintf("f%d", o.N)
		m.vars[n] = &c14Cell{kind: "float", f: c14Floats[o.C]}
		decl(n)
	case opAssign:
		m.vars[fmt.Sprintf("v%d", o.N)].i = c14Ints[o.C]
	case opAddAssign:
		m.vars[fmt.Sprintf("v%d", o.N)].i += c14Ints[o.C]
	case opAddr:
		n := fmt.Sprintf("p%d", o.N)
		m.ptrs[n] = fmt.Sprintf("v%d", o.M)
		m.addr = true
		decl(n)
	case opRepoint:
		m.ptrs[fmt.Sprintf("p%d", o.N)] = fmt.Sprintf("v%d", o.M)
		m.addr = true
	case opStore:
		m.vars[m.ptrs[fmt.Sprintf("p%d", o.N)]].i = c14Ints[o.C] * 10
	case opFunc:
		n := fmt.Sprintf("g%d", o.N)
		m.funcs[n] = fmt.Sprintf("v%d", o.M)
		decl(n)
	case opStruct:
		n := fmt.Sprintf("t%d", o.N)
		m.strus[n] = c14Ints[o.C]
		decl(n)
	case opBulk:
		for i := 0; i < bulkN; i++ {
			n := fmt.Sprintf("b%d_%d", m.bulks, i)
			m.vars[n] = &c14Cell{kind: "int", i: i*3 + m.bulks}
		}
		for i := 0; i < bulkS; i++ {
			n := fmt.Sprintf("c%d_%d", m.bulks, i)
			m.vars[n] = &c14Cell{kind: "string", s: fmt.Sprint(i)}
		}
		decl(fmt.Sprintf("bulk%d", m.bulks))
		m.bulks++
	}
}

// c14Obs is one read-back: an expression and the value the model expects (printed with %v, type appended).
type c14Obs struct {
	Class string // var-int var-string var-float deref alias func struct bulk-int bulk-string
	Expr  string
	Want  string
}

func (m *c14Model) cellString(c *c14Cell) string {
	switch c.kind {
	case "int":
		return fmt.Sprintf("%d int", c.i)
	case "string":
		return fmt.Sprintf("%s string", c.s)
	}
	return fmt.Sprintf("%v float64", c.f)
}

// observations lists every read-back of the current state. Bulk variables are read with one expression per bulk
// (a slice literal of all of them), so that every one of them is read after every step.
func (m *c14Model) observations(bulkN, bulkS int) []c14Obs {
	var out []c14Obs
	var ptrs []string
	for _, n := range m.order {
		switch {
		case strings.HasPrefix(n, "bulk"):
			k := n[4:]
			var ids, want []string
			for i := 0; i < bulkN; i++ {
				id := fmt.Sprintf("b%s_%d", k, i)
				ids = append(ids, id)
				want = append(want, fmt.Sprint(m.vars[id].i))
			}
			out = append(out, c14Obs{"bulk-int", "[]int{" + strings.Join(ids, ", ") + "}", "[" + strings.Join(want, " ") + "] []int"})
			ids, want = nil, nil
			for i := 0; i < bulkS; i++ {
				id := fmt.Sprintf("c%s_%d", k, i)
				ids = append(ids, id)
				want = append(want, m.vars[id].s)
			}
			out = append(out, c14Obs{"bulk-string", "[]string{" + strings.Join(ids, ", ") + "}", "[" + strings.Join(want, " ") + "] []string"})
		case m.vars[n] != nil:
			out = append(out, c14Obs{"var-" + m.vars[n].kind, n, m.cellString(m.vars[n])})
		case m.ptrs[n] != "":
			ptrs = append(ptrs, n)
			out = append(out, c14Obs{"deref", "*" + n, m.cellString(m.vars[m.ptrs[n]])})
		case m.funcs[n] != "":
			out = append(out, c14Obs{"func", n + "()", m.cellString(m.vars[m.funcs[n]])})
		default:
			out = append(out, c14Obs{"struct", n + ".A", fmt.Sprintf("%d int", m.strus[n])})
		}
	}
	// aliasing: p == &v for every pointer and every int variable v0,v1
	for _, p := range ptrs {
		for _, v := range []string{"v0", "v1"} {
			if m.vars[v] != nil {
				out = append(out, c14Obs{"alias", p + " == &" + v, fmt.Sprintf("%v bool", m.ptrs[p] == v)})
			}
		}
	}
	return out
}

// ---------------------------------------------------------------------------
// enumeration

func c14Alphabet() []c14Op {
	var ops []c14Op
	for n := 0; n < 2; n++ {
		for c := 0; c < 2; c++ {
			ops = append(ops, c14Op{Kind: opVarInt, N: n, C: c})
		}
	}
	for n := 0; n < 2; n++ {
		ops = append(ops, c14Op{Kind: opVarStr, N: n, C: n})
		ops = append(ops, c14Op{Kind: opVarFloat, N: n, C: n})
	}
	for n := 0; n < 2; n++ {
		for c := 0; c < 2; c++ {
			ops = append(ops, c14Op{Kind: opAssign, N: n, C: c}, c14Op{Kind: opAddAssign, N: n, C: c}, c14Op{Kind: opStore, N: n, C: c})
		}
		for mm := 0; mm < 2; mm++ {
			ops = append(ops, c14Op{Kind: opAddr, N: n, M: mm}, c14Op{Kind: opRepoint, N: n, M: mm}, c14Op{Kind: opFunc, N: n, M: mm})
		}
		ops = append(ops, c14Op{Kind: opStruct, N: n, C: n})
	}
	ops = append(ops, c14Op{Kind: opBulk})
	return ops
}

// c14Reduced is the 12-instance alphabet used for the deepest histories of the thorough tier: one constant per operation,
// one string, one struct, one function, but both int variables and both pointers (aliasing needs two of each).
func c14Reduced() []c14Op {
	return []c14Op{
		{Kind: opVarInt, N: 0, C: 0}, {Kind: opVarInt, N: 1, C: 0}, {Kind: opVarStr, N: 0, C: 0},
		{Kind: opAddAssign, N: 0, C: 0}, {Kind: opAssign, N: 1, C: 0},
		{Kind: opAddr, N: 0, M: 0}, {Kind: opAddr, N: 1, M: 1}, {Kind: opRepoint, N: 0, M: 1}, {Kind: opStore, N: 0, C: 0},
		{Kind: opFunc, N: 0, M: 0}, {Kind: opStruct, N: 0, C: 0}, {Kind: opBulk},
	}
}

// canonical: names of each family are introduced in index order and the first constant used is constant 0
// (histories that differ only by renaming v0<->v1, p0<->p1, ... or by swapping the two constants are the same history).
func c14Canonical(hist []c14Op) bool {
	seen := map[string]int{} // family -> number of names introduced
	constSeen := false
	for _, o := range hist {
		fam := ""
		switch o.Kind {
		case opVarInt:
			fam = "v"
		case opVarStr:
			fam = "s"
		case opVarFloat:
			fam = "f"
		case opAddr:
			fam = "p"
		case opFunc:
			fam = "g"
		case opStruct:
			fam = "t"
		}
		if fam != "" {
			if o.N > seen[fam] {
				return false
			}
			if o.N == seen[fam] {
				seen[fam]++
			}
		}
		switch o.Kind {
		case opVarInt, opAssign, opAddAssign, opStore:
			if !constSeen && o.C != 0 {
				return false
			}
			constSeen = true
		}
	}
	return true
}

// c14Histories calls f for every canonical applicable history of exactly the given depth (maxBulk bulk ops at most).
func c14Histories(depth, maxBulk int, alphabet []c14Op, f func(hist []c14Op)) {
	var rec func(hist []c14Op, m *c14Model)
	rec = func(hist []c14Op, m *c14Model) {
		if len(hist) == depth {
			f(hist)
			return
		}
		for _, o := range alphabet {
			if !m.applicable(o) || (o.Kind == opBulk && m.bulks >= maxBulk) {
				continue
			}
			h2 := append(append([]c14Op{}, hist...), o)
			if !c14Canonical(h2) {
				continue
			}
			m2 := newC14Model()
			for _, p := range h2 {
				m2.apply(p, 0, 0)
			}
			rec(h2, m2)
		}
	}
	rec(nil, newC14Model())
}

// ---------------------------------------------------------------------------
// execution on the interpreter

type c14Case struct {
	Hist []c14Op `json:"history"`
}

func c14Format(v reflect.Value) string {
	if !v.IsValid() {
		return "<invalid>"
	}
	return fmt.Sprintf("%v %v", v.Interface(), v.Type())
}

// c14EvalObs evaluates one read-back expression.
func c14EvalObs(ir *twin.Interp, expr string) string {
	var got string
	if p := twin.Catch(func() {
		vals, _ := ir.Eval(expr)
		if len(vals) != 1 {
			got = fmt.Sprintf("<%d values>", len(vals))
			return
		}
		got = c14Format(vals[0].ReflectValue())
	}); p != nil {
		return "ERROR: " + c16OneLineErr(p)
	}
	return got
}

// c14RunHistory executes one history on a fresh interpreter in lock-step with the model. Returns the number of steps (evaluations of statements).
func c14RunHistory(c *core.Ctx, hist []c14Op) (steps int) {
	ir := twin.NewFast()
	m := newC14Model()
	for si, o := range hist {
		for _, st := range m.stmts(o, c14BulkInts, c14BulkStrs) {
			steps++
			if p := twin.Catch(func() { ir.Eval(st) }); p != nil {
				c.Violation("C14|step-fails|"+o.Kind+c14Ctx(m), fmt.Sprintf("history %v: evaluation %q (step %d) fails: %s", hist[:si+1], st, si+1, c16OneLineErr(p)), c14Case{hist[:si+1]})
				return
			}
		}
		m.apply(o, c14BulkInts, c14BulkStrs)
		for _, ob := range m.observations(c14BulkInts, c14BulkStrs) {
			got := c14EvalObs(ir, ob.Expr)
			c.Eval(1)
			if got != ob.Want {
				expr, want, g := ob.Expr, ob.Want, got
				if len(expr) > 200 {
					expr, want, g = c14Shorten(ob, got)
				}
				c.Violation("C14|"+ob.Class+"|after="+o.Kind+c14Ctx(m), fmt.Sprintf("history %v: after step %d, %s reads %q, in-order Go (model) gives %q", hist[:si+1], si+1, expr, g, want), c14Case{hist[:si+1]})
				return
			}
		}
	}
	return
}

// c14Ctx: the context features that select code paths in prepareEnv / NewBind
func c14Ctx(m *c14Model) string {
	s := ""
	if m.addr {
		s += "|addr-taken"
	}
	if m.bulks > 0 {
		s += "|bulk"
	}
	return s
}

// c14Shorten reduces a bulk read-back to its first differing element.
func c14Shorten(ob c14Obs, got string) (expr, want, g string) {
	ids := strings.Split(strings.TrimSuffix(ob.Expr[strings.Index(ob.Expr, "{")+1:], "}"), ", ")
	w := strings.Fields(strings.Trim(strings.SplitN(ob.Want, "]", 2)[0], "["))
	gs := strings.Fields(strings.Trim(strings.SplitN(got, "]", 2)[0], "["))
	for i := range ids {
		if i >= len(gs) || i >= len(w) || gs[i] != w[i] {
			gv := "<missing>"
			if i < len(gs) {
				gv = gs[i]
			}
			wv := ""
			if i < len(w) {
				wv = w[i]
			}
			return ids[i] + " (element " + fmt.Sprint(i) + " of the bulk read-back)", wv, gv
		}
	}
	if len(got) > 200 {
		got = got[:200] + "…"
	}
	return ob.Expr[:60] + "…", ob.Want[:60] + "…", got
}

type c14Phase struct {
	Label    string
	Alphabet []c14Op
	Depth    int
	MaxBulk  int
}

func c14Phases(c *core.Ctx) []c14Phase {
	if c.Quick() {
		return []c14Phase{{"full alphabet (35 operation instances), depth 5, at most 1 bulk", c14Alphabet(), 5, 1}}
	}
	return []c14Phase{
		{"full alphabet (35 operation instances), depth 5, at most 2 bulk", c14Alphabet(), 5, 2},
		{"reduced alphabet (12 operation instances: 2 int variables, 2 pointers, 1 string, 1 func, 1 struct, one constant per operation, bulk), depth 7, at most 2 bulk", c14Reduced(), 7, 2},
		{"full alphabet (35 operation instances), depth 6, no bulk", c14Alphabet(), 6, 0},
	}
}

func c14Run(c *core.Ctx) {
	phases := c14Phases(c)
	var labels []string
	for _, p := range phases {
		labels = append(labels, p.Label)
	}
	c.Rule(fmt.Sprintf("all canonical histories (names introduced in index order, first constant used is constant 0; only histories that are valid in-order Go: no redeclaration, no use before declaration) "+
		"of exactly the stated depth over the alphabet {var int, var string, var float64, assign, +=, p := &v, p = &v, *p = c, func reading a global, type+var of struct type, "+
		"bulk = %d int + %d string variables declared one evaluation each} in the phases [%s]; every history on a fresh interpreter; after every step every declared name, *p, g(), t.A, every bulk variable and every relation p == &v is read back and compared with the model. "+
		"non-trivial = distinct histories in which an address of an int variable is taken or a bulk declaration occurs (the paths of prepareEnv / IntBindMax). "+
		"Second family, escape scenarios (kind of the global: %d kinds = the 16 scalar kinds kept in the slot array, named scalar types, string, struct field, array element) x "+
		"(site where the address is taken: %d sites = top level, function body under 0..4 nested blocks with locals, nested loops, closures, a closure stored by an earlier evaluation, top-level blocks, implicit address of a pointer-receiver method call) x "+
		"(fill: %d ways of declaring variables one evaluation at a time before/after the address is taken: 1 or 8 per statement past the capacity of the slot array, two-slot variables of both parities, address taken when the array is exactly full / has one / two free slots or was already reallocated once, the next declaration being the very next evaluation or not, boxed variables): "+
		"quick = every kind x site with one capacity-crossing fill + every fill for 6 kinds, thorough = full product; after the address is taken and after every later declaration a value is stored through the pointer / the variable and read back through the other; every scenario is non-trivial",
		c14BulkInts, c14BulkStrs, strings.Join(labels, "; "), len(c14Kinds()), len(c14Sites()), len(c14Fills())))
	c.Assume("the reference model (Go map name -> cell with pointer aliasing) is validated against compiled Go on all histories up to depth 3 (with a 3+2 variable bulk) rendered as one function body",
		"histories shorter than the depth bound are prefixes of enumerated histories and are checked step by step inside them",
		"the expectations of the escape scenarios are validated against compiled Go with the fills scaled down to a capacity of 9 slots (the capacity has no meaning for compiled Go)")
	n := 0
	c.Set("phases", labels)
	// second family (c14_escape.go), first: it is cheap and must never be cut by the deadline
	esc := c14EscCases(c.Thorough())
	if c.Shard == 0 {
		c.Set("escape_scenarios", len(esc))
	}
	for i, cas := range esc {
		if !c.Mine(i) || c.Expired() {
			continue
		}
		st := c14EscRun(c, cas)
		c.States(1)
		c.Transitions(st.Steps)
		c.Traces(1)
		c.Count("escape_scenarios_executed", 1)
		c.Count("escape_read_backs", st.Checks)
		c.Nontrivial("escape " + cas.String())
		if c.WantSample() && i%97 == 0 {
			c.Sample(map[string]interface{}{"escape_scenario": cas.String(), "evaluations": st.Steps, "read_backs": st.Checks})
		}
	}
	for pi, ph := range phases {
		count := 0
		c14Histories(ph.Depth, ph.MaxBulk, ph.Alphabet, func(hist []c14Op) {
			n++
			count++
			if !c.Mine(n) || c.Expired() {
				return
			}
			steps := c14RunHistory(c, hist)
			c.States(1)
			c.Transitions(steps)
			c.Traces(1)
			c.Count(fmt.Sprintf("histories_executed_phase_%d", pi+1), 1)
			addr, bulk := false, false
			for _, o := range hist {
				if o.Kind == opAddr || o.Kind == opRepoint {
					addr = true
				}
				if o.Kind == opBulk {
					bulk = true
				}
			}
			if addr || bulk {
				c.Nontrivial(fmt.Sprint(hist))
			}
			if addr && bulk {
				c.Count("histories_with_address_taken_and_bulk", 1)
			}
			if c.WantSample() && addr && bulk && n%37 == 0 {
				c.Sample(map[string]interface{}{"history": fmt.Sprint(hist), "steps": steps})
			}
		})
		if c.Shard == 0 {
			c.Set(fmt.Sprintf("histories_enumerated_phase_%d", pi+1), count)
		}
		if c.Expired() {
			return
		}
	}
}

func c14Replay(c *core.Ctx, raw json.RawMessage) {
	if c14EscReplay(c, raw) {
		return
	}
	var cas c14Case
	if err := json.Unmarshal(raw, &cas); err != nil {
		panic(err)
	}
	for i := 0; i < 5; i++ {
		c14RunHistory(c, cas.Hist)
	}
}

// ---------------------------------------------------------------------------
// validation of the model against compiled Go

// c14GoProgram renders a history as one function body; after every step the observations are printed with O(...).
func c14GoProgram(id string, hist []c14Op) (oracle.Prog, string) {
	m := newC14Model()
	var body, want []string
	for _, o := range hist {
		for _, st := range m.stmts(o, 3, 2) {
			// inside a function body: function declarations become closures, unused variables must be used
			if strings.HasPrefix(st, "func g") {
				name := st[5:strings.Index(st, "(")]
				st = name + " := func" + st[strings.Index(st, "("):]
			}
			body = append(body, st)
			if strings.HasPrefix(st, "var ") {
				body = append(body, "_ = "+strings.Fields(st)[1])
			}
			if strings.Contains(st, ":=") {
				body = append(body, "_ = "+strings.Fields(st)[0])
			}
		}
		m.apply(o, 3, 2)
		for _, ob := range m.observations(3, 2) {
			body = append(body, "O("+ob.Expr+")")
			want = append(want, ob.Want)
		}
	}
	return oracle.Prog{ID: id, Body: strings.Join(body, "\n")}, strings.Join(want, "\n")
}

// c14GoCanon converts the model's expectation ("7 int") to the canonical form printed by h.O.
func c14GoCanon(want string) string {
	var out []string
	for _, w := range strings.Split(want, "\n") {
		i := strings.LastIndex(w, " ")
		val, typ := w[:i], w[i+1:]
		switch typ {
		case "int":
			out = append(out, "int:"+val)
		case "string":
			out = append(out, fmt.Sprintf("%q", val))
		case "float64":
			out = append(out, "float64:"+val)
		case "bool":
			out = append(out, val)
		case "[]int":
			var l []string
			for _, x := range strings.Fields(strings.Trim(val, "[]")) {
				l = append(l, "int:"+x)
			}
			out = append(out, "["+strings.Join(l, ",")+"]c"+fmt.Sprint(len(l)))
		case "[]string":
			var l []string
			for _, x := range strings.Fields(strings.Trim(val, "[]")) {
				l = append(l, fmt.Sprintf("%q", x))
			}
			out = append(out, "["+strings.Join(l, ",")+"]c"+fmt.Sprint(len(l)))
		default:
			out = append(out, "?"+w)
		}
	}
	return strings.Join(out, " ") + " "
}

func c14Prepare(c *core.Ctx) error {
	var progs []oracle.Prog
	wants := map[string]string{}
	hists := map[string]string{}
	for d := 1; d <= 3; d++ {
		c14Histories(d, 2, c14Alphabet(), func(hist []c14Op) {
			id := fmt.Sprintf("h%d", len(progs))
			p, want := c14GoProgram(id, hist)
			progs = append(progs, p)
			wants[id] = c14GoCanon(want)
			hists[id] = fmt.Sprint(hist)
		})
	}
	verdict, err := oracle.Classify("C14", progs)
	if err != nil {
		return err
	}
	for _, p := range progs {
		if msg := verdict[p.ID]; msg != "" {
			return fmt.Errorf("model validation: history %s is not valid Go: %s\n%s", hists[p.ID], msg, p.Source())
		}
	}
	got, err := oracle.GoResults("C14", progs)
	if err != nil {
		return err
	}
	var ids []string
	for id := range wants {
		ids = append(ids, id)
	}
	sort.Strings(ids)
	for _, id := range ids {
		if got[id] != wants[id] {
			return fmt.Errorf("model validation failed: history %s: compiled Go gives %q, the model predicts %q", hists[id], got[id], wants[id])
		}
	}
	c.Set("model_validated_against_compiled_go_histories", len(progs))
	return c14EscapePrepare(c)
}
