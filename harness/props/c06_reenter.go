package props

// C06 family "reenter": ONE call site that is entered again while an activation of it is still in progress —
// either while its own argument list is being evaluated (argument k is a recursive call of the function that
// contains the site, directly or through a function literal) or while the callee runs (the callee contains the
// site). Every activation passes different arguments at every position, the callee records what it received and
// the caller records what came back. Anything a call site keeps per SITE instead of per ACTIVATION (argument
// buffers, result buffers, cached receivers or function values, variadic slices) makes the outer activation see
// values of the inner one.
//
// Alphabet: arity 1..4 × results 0..2 × position k of the re-entering argument × route {rec, clo} (+ self) ×
// callee form {declared function, file-level function variable, local function variable, method, method value,
// interface method, variadic with 0 or 1 fixed parameters (the others are extra arguments), s... call, compiled
// variadic function O(...), compiled function Ti(k, v)} × parameter kind; plus, for one result, every basic
// result kind (the callers are specialised by result kind). One program holds all positions and routes of one
// (form, arity, results, kind) combination; the label of the first differing site goes into the signature.

import (
	"fmt"
	"strings"

	"verif/harness/core"
	"verif/harness/oracle"
)

var c06ReForms = []string{"decl", "gvar", "lvar", "method", "mvalue", "iface", "var0", "var1", "ell", "extern"}

// c06ReArg is the expression of argument j of the activation with counter n (distinct per activation and position).
func c06ReArg(k c06K, id string, tp, j int) string {
	return k.from(id, fmt.Sprintf("Ti(%d, n*7+%d)", tp, j*3+1))
}

func c06ReenterProgram(form string, A, R int, K, RK c06K, idx int) (oracle.Prog, bool) {
	id := fmt.Sprintf("rn%d", idx)
	var d, w cw
	d.f("%s", c06Prelude(id))
	kt := K.typ(id)
	P := make([]c06K, A)
	for i := range P {
		P[i] = K
	}
	Rk := make([]c06K, R)
	for i := range Rk {
		Rk[i] = K
	}
	if R >= 1 {
		Rk[0] = RK
	}
	basic := "basic"
	for _, k := range append(append([]c06K{}, P...), Rk...) {
		if k == c06Named || k == c06Struct {
			basic = "generic"
		}
	}
	s := &c06S{id: id, P: P, R: Rk}
	w.f("// reenter|%s/a%dr%d/%s|%s->%s", form, A, R, basic, c06Codes(P), c06Codes(Rk))

	// the callee and the text of a call of it with the given argument expressions
	var site func(args []string) string
	pre := "" // statements at the start of the function containing the site
	results := s.results()
	switch form {
	case "decl":
		d.f("%s", s.decl("F_"+id, "F", 1))
		site = func(args []string) string { return "F_" + id + "(" + strings.Join(args, ", ") + ")" }
	case "gvar":
		d.f("%s", s.decl("F_"+id, "F", 1))
		d.f("var GV_%s = F_%s", id, id)
		site = func(args []string) string { return "GV_" + id + "(" + strings.Join(args, ", ") + ")" }
	case "lvar":
		d.f("%s", s.decl("F_"+id, "F", 1))
		pre = "lf := F_" + id
		site = func(args []string) string { return "lf(" + strings.Join(args, ", ") + ")" }
	case "method", "mvalue", "iface":
		d.f("%s", s.method("t T_"+id, "M", "T.M", 5, "t.A", ""))
		d.f("type I_%s interface {\n\tM(%s)%s\n}", id, s.ptypes(), results)
		pre = fmt.Sprintf("t := T_%s{n + 40, \"r\"}", id) // the receiver differs between activations as well
		callee := "t.M"
		switch form {
		case "mvalue":
			pre += "\nmv := t.M"
			callee = "mv"
		case "iface":
			pre += fmt.Sprintf("\nvar it I_%s = t", id)
			callee = "it.M"
		}
		site = func(args []string) string { return callee + "(" + strings.Join(args, ", ") + ")" }
	case "var0", "var1", "ell":
		fixed := 0
		switch form {
		case "var1":
			fixed = 1
		case "ell":
			fixed = A - 1
		}
		if fixed > A {
			return oracle.Prog{}, false
		}
		var ps, rec []string
		dg := "3"
		mul := []int{1, 7, 31, 127}
		for i := 0; i < fixed; i++ {
			ps = append(ps, fmt.Sprintf("f%d %s", i, kt))
			rec = append(rec, fmt.Sprintf("f%d", i))
			dg += fmt.Sprintf(" + %s*%d", K.dig(fmt.Sprintf("f%d", i)), mul[i])
		}
		ps = append(ps, "xs ..."+kt)
		rec = append(rec, "len(xs)")
		var b cw
		b.f("\tS(\"V\")\n\tO(%s)", strings.Join(rec, ", "))
		b.f("\td := %s\n\tfor i, x := range xs {\n\t\tO(x)\n\t\td += %s * (i + 2)\n\t}\n\t_ = d", dg, K.dig("x"))
		if R > 0 {
			var rs []string
			for i, k := range Rk {
				rs = append(rs, k.from(id, fmt.Sprintf("d+%d", i)))
			}
			b.f("\treturn %s", strings.Join(rs, ", "))
		}
		d.f("func V_%s(%s)%s {\n%s}", id, strings.Join(ps, ", "), results, b.String())
		site = func(args []string) string {
			if form == "ell" {
				// the last argument becomes the first element of the spread slice
				last := args[len(args)-1]
				a := append(append([]string{}, args[:len(args)-1]...), fmt.Sprintf("[]%s{%s, %s}...", kt, last, K.lit(id, 9)))
				return "V_" + id + "(" + strings.Join(a, ", ") + ")"
			}
			return "V_" + id + "(" + strings.Join(args, ", ") + ")"
		}
	case "extern":
		// compiled functions called through reflect: the variadic O (no result), Ti (two ints, one result)
		if K != c06Int || !((R == 0) || (R == 1 && A == 2 && RK == c06Int)) {
			return oracle.Prog{}, false
		}
		if R == 0 {
			site = func(args []string) string { return "O(" + strings.Join(args, ", ") + ")" }
		} else {
			site = func(args []string) string { return "Ti(" + strings.Join(args, ", ") + ")" }
		}
	default:
		panic(form)
	}

	consume := func(call string, assign bool) string {
		switch {
		case R == 0:
			return call
		case !assign:
			return "O(" + call + ")"
		case R == 1:
			return "r0 := " + call + "\nO(r0)"
		}
		return "r0, r1 := " + call + "\nO(r0, r1)"
	}

	tp := 0
	for k := 0; k < A; k++ {
		for _, route := range []string{"rec", "clo"} {
			W := fmt.Sprintf("W%d%s_%s", k, route, id)
			var args []string
			for j := 0; j < A; j++ {
				tp++
				if j != k {
					args = append(args, c06ReArg(K, id, tp, j))
					continue
				}
				if route == "rec" {
					args = append(args, fmt.Sprintf("%s(n-1)", W))
				} else {
					args = append(args, fmt.Sprintf("func() %s {\n\t\tS(\"in\")\n\t\treturn %s(n - 1)\n\t}()", kt, W))
				}
			}
			d.f("func %s(n int) %s {", W, kt)
			d.f("\tif n == 0 {\n\t\treturn %s\n\t}", K.from(id, "2"))
			if pre != "" {
				d.f("\t%s", strings.Replace(pre, "\n", "\n\t", -1))
			}
			d.f("\t%s", strings.Replace(consume(site(args), route == "rec"), "\n", "\n\t", -1))
			d.f("\tS(\"ret\")\n\treturn %s\n}", K.from(id, "n*7+2"))
			w.f("S(\"@k%d-%s\")", k, route)
			w.f("O(%s(3))", W)
		}
	}
	if form == "decl" {
		// self: the callee contains the site (re-entered while the callee runs, not while arguments are evaluated)
		var ps, names, args, lits []string
		for j := 0; j < A; j++ {
			ps = append(ps, fmt.Sprintf("p%d %s", j, kt))
			names = append(names, fmt.Sprintf("p%d", j))
			tp++
			args = append(args, c06ReArg(K, id, tp, j))
			lits = append(lits, K.lit(id, 50+j))
		}
		d.f("func SF_%s(n int, %s)%s {", id, strings.Join(ps, ", "), results)
		d.f("\tif n > 0 {\n\t\t%s\n\t}", strings.Replace(consume("SF_"+id+"(n-1, "+strings.Join(args, ", ")+")", true), "\n", "\n\t\t", -1))
		d.f("\tS(\"SF\")\n\tO(n, %s)", strings.Join(names, ", "))
		if R > 0 {
			dg := "n"
			for j := 0; j < A; j++ {
				dg += fmt.Sprintf(" + %s*%d", K.dig(names[j]), []int{1, 7, 31, 127}[j])
			}
			var rs []string
			for i, k := range Rk {
				rs = append(rs, k.from(id, fmt.Sprintf("%s+%d", dg, i)))
			}
			d.f("\treturn %s", strings.Join(rs, ", "))
		}
		d.f("}")
		w.f("S(\"@self\")")
		w.f("%s", consume("SF_"+id+"(3, "+strings.Join(lits, ", ")+")", false))
	}
	return oracle.Prog{ID: id, Decls: d.String(), Body: w.String()}, true
}

func c06ReenterPrograms(c *core.Ctx) []oracle.Prog {
	var progs []oracle.Prog
	idx := 0
	kinds := c06Kinds
	if c.Quick() {
		kinds = []c06K{c06Int, c06Struct} // the specialised ("basic") and the generic call paths
	}
	add := func(form string, A, R int, K, RK c06K) {
		idx++
		if p, ok := c06ReenterProgram(form, A, R, K, RK, idx); ok {
			progs = append(progs, p)
		}
	}
	for _, form := range c06ReForms {
		for A := 1; A <= 4; A++ {
			for R := 0; R <= 2; R++ {
				for _, K := range kinds {
					add(form, A, R, K, K)
				}
			}
		}
	}
	// one result of every other basic kind (call*ret1 / call_variadic_ret1 / call_ellipsis_ret1 are specialised by it)
	for _, form := range []string{"decl", "lvar", "var1", "ell"} {
		for _, RK := range append([]c06K{c06Str}, c06SlotKinds...) {
			As := []int{3}
			if c.Thorough() {
				As = []int{1, 2, 3, 4}
			}
			for _, A := range As {
				add(form, A, 1, c06Int, RK)
			}
		}
	}
	return progs
}
