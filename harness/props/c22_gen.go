package props

// Generator of go/ast nodes for C22 (also reused by C20 and C25): for every go/ast node type the
// cartesian product of
//   * every own token field over the tokens valid for it,
//   * every own bool / ChanDir field over all its values,
//   * every flag position (CallExpr.Ellipsis, TypeSpec.Assign, GenDecl.Lparen) valid / NoPos,
//   * every optional child absent / present (and a few alternative child kinds where the wrapper converts),
//   * every list child with 0 (nil and empty), 1 and 2 elements.
// Every node and child is freshly allocated and every position is distinct and valid, so that a
// copy that drops or swaps anything is visible. Purely deterministic.

import (
	"fmt"
	"go/ast"
	"go/token"
	"reflect"

	"github.com/cosmos72/gomacro/go/etoken"
)

type c22g struct {
	pos  token.Pos
	name int
}

func (g *c22g) p() token.Pos { g.pos += 3; return g.pos }
func (g *c22g) id() *ast.Ident {
	g.name++
	return &ast.Ident{NamePos: g.p(), Name: fmt.Sprintf("v%d", g.name)}
}
func (g *c22g) lit(kind token.Token) *ast.BasicLit {
	v := map[token.Token]string{token.INT: "7", token.FLOAT: "1.5", token.IMAG: "2i", token.CHAR: "'c'", token.STRING: `"s"`}[kind]
	return &ast.BasicLit{ValuePos: g.p(), Kind: kind, Value: v}
}
func (g *c22g) call() *ast.CallExpr {
	return &ast.CallExpr{Fun: g.id(), Lparen: g.p(), Args: []ast.Expr{g.id()}, Rparen: g.p()}
}
func (g *c22g) exprStmt() ast.Stmt { return &ast.ExprStmt{X: g.call()} }
func (g *c22g) block(n int) *ast.BlockStmt {
	b := &ast.BlockStmt{Lbrace: g.p()}
	for i := 0; i < n; i++ {
		b.List = append(b.List, g.exprStmt())
	}
	b.Rbrace = g.p()
	return b
}
func (g *c22g) field(names int) *ast.Field {
	f := &ast.Field{Type: g.id()}
	for i := 0; i < names; i++ {
		f.Names = append(f.Names, g.id())
	}
	return f
}
func (g *c22g) fieldList(n int) *ast.FieldList {
	l := &ast.FieldList{Opening: g.p()}
	for i := 0; i < n; i++ {
		l.List = append(l.List, g.field(1))
	}
	l.Closing = g.p()
	return l
}
func (g *c22g) funcType() *ast.FuncType {
	return &ast.FuncType{Func: g.p(), Params: g.fieldList(1), Results: g.fieldList(1)}
}
func (g *c22g) quoteBody() *ast.FuncLit {
	return &ast.FuncLit{Type: &ast.FuncType{Params: &ast.FieldList{}}, Body: g.block(2)}
}
func (g *c22g) spec(tok token.Token) ast.Spec {
	switch tok {
	case token.IMPORT:
		return &ast.ImportSpec{Path: g.lit(token.STRING), EndPos: g.p()}
	case token.TYPE:
		return &ast.TypeSpec{Name: g.id(), Type: g.id()}
	case token.PACKAGE:
		return &ast.ValueSpec{Names: []*ast.Ident{g.id()}}
	}
	return &ast.ValueSpec{Names: []*ast.Ident{g.id()}, Type: g.id(), Values: []ast.Expr{g.lit(token.INT)}}
}
func (g *c22g) genDecl(tok token.Token, n int, paren bool) *ast.GenDecl {
	d := &ast.GenDecl{TokPos: g.p(), Tok: tok}
	if paren {
		d.Lparen = g.p()
	}
	for i := 0; i < n; i++ {
		d.Specs = append(d.Specs, g.spec(tok))
	}
	if paren {
		d.Rparen = g.p()
	}
	return d
}

type thunk func(g *c22g) interface{}

type dimension struct {
	field int
	vals  []thunk
}

func constThunks(vals ...interface{}) []thunk {
	var out []thunk
	for _, v := range vals {
		v := v
		out = append(out, func(*c22g) interface{} { return v })
	}
	return out
}

func tokThunks(toks ...token.Token) []thunk {
	var out []thunk
	for _, t := range toks {
		t := t
		out = append(out, func(*c22g) interface{} { return t })
	}
	return out
}

var c22BinaryOps = []token.Token{token.ADD, token.SUB, token.MUL, token.QUO, token.REM, token.AND, token.OR, token.XOR, token.SHL, token.SHR, token.AND_NOT,
	token.LAND, token.LOR, token.EQL, token.LSS, token.GTR, token.NEQ, token.LEQ, token.GEQ}
var c22AssignOps = []token.Token{token.ASSIGN, token.DEFINE, token.ADD_ASSIGN, token.SUB_ASSIGN, token.MUL_ASSIGN, token.QUO_ASSIGN, token.REM_ASSIGN,
	token.AND_ASSIGN, token.OR_ASSIGN, token.XOR_ASSIGN, token.SHL_ASSIGN, token.SHR_ASSIGN, token.AND_NOT_ASSIGN}
var c22UnaryOps = []token.Token{token.ADD, token.SUB, token.NOT, token.XOR, token.AND, token.ARROW}
var c22QuoteOps = []token.Token{etoken.QUOTE, etoken.QUASIQUOTE, etoken.UNQUOTE, etoken.UNQUOTE_SPLICE, etoken.MACRO}

// nilT is the "absent" thunk.
var nilT thunk = func(*c22g) interface{} { return nil }

func exprT(g *c22g) interface{}  { return ast.Expr(g.id()) }
func stmtT(g *c22g) interface{}  { return g.exprStmt() }
func blockT(g *c22g) interface{} { return g.block(1) }

func exprList(n int) thunk {
	return func(g *c22g) interface{} {
		l := make([]ast.Expr, n)
		for i := range l {
			l[i] = g.id()
		}
		return l
	}
}
func stmtList(n int) thunk {
	return func(g *c22g) interface{} {
		l := make([]ast.Stmt, n)
		for i := range l {
			l[i] = g.exprStmt()
		}
		return l
	}
}
func identList(n int) thunk {
	return func(g *c22g) interface{} {
		l := make([]*ast.Ident, n)
		for i := range l {
			l[i] = g.id()
		}
		return l
	}
}

// c22Overrides gives the value domain of specific fields; fields not listed get the default of their type.
func c22Overrides() map[string][]thunk {
	opt := func(t thunk) []thunk { return []thunk{nilT, t} }
	lens := func(mk func(int) thunk, ns ...int) []thunk {
		var out []thunk
		for _, n := range ns {
			if n < 0 {
				out = append(out, nilT)
			} else {
				out = append(out, mk(n))
			}
		}
		return out
	}
	return map[string][]thunk{
		"BasicLit.Kind":       tokThunks(token.INT, token.FLOAT, token.IMAG, token.CHAR, token.STRING),
		"BinaryExpr.Op":       tokThunks(c22BinaryOps...),
		"UnaryExpr.Op":        tokThunks(c22UnaryOps...),
		"AssignStmt.Tok":      tokThunks(c22AssignOps...),
		"AssignStmt.Lhs":      lens(exprList, 1, 2),
		"AssignStmt.Rhs":      lens(exprList, 1, 2),
		"IncDecStmt.Tok":      tokThunks(token.INC, token.DEC),
		"BranchStmt.Tok":      tokThunks(token.BREAK, token.CONTINUE, token.GOTO, token.FALLTHROUGH),
		"BranchStmt.Label":    opt(func(g *c22g) interface{} { return g.id() }),
		"RangeStmt.Tok":       tokThunks(token.ILLEGAL, token.ASSIGN, token.DEFINE),
		"RangeStmt.Key":       opt(exprT),
		"RangeStmt.Value":     opt(exprT),
		"Field.Names":         lens(identList, -1, 1, 2),
		"Field.Type":          opt(exprT),
		"Field.Tag":           opt(func(g *c22g) interface{} { return g.lit(token.STRING) }),
		"Ellipsis.Elt":        opt(exprT),
		"CompositeLit.Type":   opt(exprT),
		"CompositeLit.Elts":   lens(exprList, -1, 0, 1, 2),
		"SliceExpr.Low":       opt(exprT),
		"SliceExpr.High":      opt(exprT),
		"SliceExpr.Max":       opt(exprT),
		"TypeAssertExpr.Type": opt(exprT),
		"ArrayType.Len":       []thunk{nilT, exprT, func(g *c22g) interface{} { return ast.Expr(&ast.Ellipsis{Ellipsis: g.p()}) }},
		"CallExpr.Args":       lens(exprList, -1, 0, 1, 2),
		"FuncType.Params":     []thunk{func(g *c22g) interface{} { return g.fieldList(0) }, func(g *c22g) interface{} { return g.fieldList(2) }},
		"FuncType.Results":    []thunk{nilT, func(g *c22g) interface{} { return g.fieldList(1) }},
		"FuncDecl.Recv":       []thunk{nilT, func(g *c22g) interface{} { return g.fieldList(1) }, func(g *c22g) interface{} { return &ast.FieldList{List: []*ast.Field{}} /* macro marker */ }},
		"FuncDecl.Body":       opt(blockT),
		"IfStmt.Init":         opt(stmtT),
		"IfStmt.Else": []thunk{nilT, func(g *c22g) interface{} { return ast.Stmt(g.block(1)) },
			func(g *c22g) interface{} { return ast.Stmt(&ast.IfStmt{If: g.p(), Cond: g.id(), Body: g.block(0)}) }},
		"CaseClause.List": lens(exprList, -1, 1, 2),
		"CaseClause.Body": lens(stmtList, -1, 0, 1, 2),
		"CommClause.Comm": []thunk{nilT,
			func(g *c22g) interface{} { return ast.Stmt(&ast.SendStmt{Chan: g.id(), Arrow: g.p(), Value: g.id()}) },
			func(g *c22g) interface{} {
				return ast.Stmt(&ast.ExprStmt{X: &ast.UnaryExpr{OpPos: g.p(), Op: token.ARROW, X: g.id()}})
			},
			func(g *c22g) interface{} {
				return ast.Stmt(&ast.AssignStmt{Lhs: []ast.Expr{g.id(), g.id()}, TokPos: g.p(), Tok: token.DEFINE, Rhs: []ast.Expr{&ast.UnaryExpr{OpPos: g.p(), Op: token.ARROW, X: g.id()}}})
			}},
		"CommClause.Body":     lens(stmtList, -1, 0, 1, 2),
		"SwitchStmt.Init":     opt(stmtT),
		"SwitchStmt.Tag":      opt(exprT),
		"TypeSwitchStmt.Init": opt(stmtT),
		"TypeSwitchStmt.Assign": []thunk{
			func(g *c22g) interface{} {
				return ast.Stmt(&ast.ExprStmt{X: &ast.TypeAssertExpr{X: g.id(), Lparen: g.p(), Rparen: g.p()}})
			},
			func(g *c22g) interface{} {
				return ast.Stmt(&ast.AssignStmt{Lhs: []ast.Expr{g.id()}, TokPos: g.p(), Tok: token.DEFINE, Rhs: []ast.Expr{&ast.TypeAssertExpr{X: g.id(), Lparen: g.p(), Rparen: g.p()}}})
			}},
		"ForStmt.Init":       opt(stmtT),
		"ForStmt.Cond":       opt(exprT),
		"ForStmt.Post":       opt(stmtT),
		"ImportSpec.Name":    []thunk{nilT, func(g *c22g) interface{} { return g.id() }, func(g *c22g) interface{} { return &ast.Ident{NamePos: g.p(), Name: "."} }, func(g *c22g) interface{} { return &ast.Ident{NamePos: g.p(), Name: "_"} }},
		"ImportSpec.Path":    []thunk{func(g *c22g) interface{} { return g.lit(token.STRING) }},
		"ValueSpec.Names":    lens(identList, 1, 2),
		"ValueSpec.Type":     opt(exprT),
		"ValueSpec.Values":   lens(exprList, -1, 1, 2),
		"ReturnStmt.Results": lens(exprList, -1, 0, 1, 2),
		"BlockStmt.List":     lens(stmtList, -1, 0, 1, 2),
		"FieldList.List": []thunk{nilT, func(g *c22g) interface{} { return []*ast.Field{} }, func(g *c22g) interface{} { return []*ast.Field{g.field(1)} },
			func(g *c22g) interface{} { return []*ast.Field{g.field(2), g.field(0)} }},
		"File.Decls": []thunk{nilT, func(g *c22g) interface{} { return []ast.Decl{g.genDecl(token.IMPORT, 1, false)} },
			func(g *c22g) interface{} {
				return []ast.Decl{g.genDecl(token.VAR, 1, false), &ast.FuncDecl{Name: g.id(), Type: g.funcType(), Body: g.block(1)}}
			}},
		"StructType.Fields":     []thunk{func(g *c22g) interface{} { return g.fieldList(0) }, func(g *c22g) interface{} { return g.fieldList(2) }},
		"InterfaceType.Methods": []thunk{func(g *c22g) interface{} { return g.fieldList(0) }, func(g *c22g) interface{} { return g.fieldList(2) }},
		"DeclStmt.Decl": []thunk{func(g *c22g) interface{} { return ast.Decl(g.genDecl(token.VAR, 1, false)) }, func(g *c22g) interface{} { return ast.Decl(g.genDecl(token.CONST, 2, true)) },
			func(g *c22g) interface{} { return ast.Decl(g.genDecl(token.TYPE, 1, false)) }},
		"LabeledStmt.Stmt": []thunk{stmtT, func(g *c22g) interface{} { return ast.Stmt(&ast.EmptyStmt{Semicolon: g.p(), Implicit: true}) }},
	}
}

// c22NodeTypes lists every concrete go/ast node type except comments and the Go 1.18 IndexListExpr.
func c22NodeTypes() []reflect.Type {
	vals := []interface{}{
		ast.ArrayType{}, ast.AssignStmt{}, ast.BadDecl{}, ast.BadExpr{}, ast.BadStmt{}, ast.BasicLit{}, ast.BinaryExpr{}, ast.BlockStmt{},
		ast.BranchStmt{}, ast.CallExpr{}, ast.CaseClause{}, ast.ChanType{}, ast.CommClause{}, ast.CompositeLit{}, ast.DeclStmt{}, ast.DeferStmt{},
		ast.Ellipsis{}, ast.EmptyStmt{}, ast.ExprStmt{}, ast.Field{}, ast.FieldList{}, ast.File{}, ast.ForStmt{}, ast.FuncDecl{}, ast.FuncLit{},
		ast.FuncType{}, ast.GoStmt{}, ast.Ident{}, ast.IfStmt{}, ast.ImportSpec{}, ast.IncDecStmt{}, ast.IndexExpr{}, ast.InterfaceType{},
		ast.KeyValueExpr{}, ast.LabeledStmt{}, ast.MapType{}, ast.Package{}, ast.ParenExpr{}, ast.RangeStmt{}, ast.ReturnStmt{}, ast.SelectStmt{},
		ast.SelectorExpr{}, ast.SendStmt{}, ast.SliceExpr{}, ast.StarExpr{}, ast.StructType{}, ast.SwitchStmt{}, ast.TypeAssertExpr{},
		ast.TypeSpec{}, ast.TypeSwitchStmt{}, ast.UnaryExpr{}, ast.ValueSpec{},
	}
	var out []reflect.Type
	for _, v := range vals {
		out = append(out, reflect.TypeOf(v))
	}
	return out
}

// defaultThunks gives the domain of a field from its static type.
func c22DefaultThunks(t reflect.Type, f reflect.StructField, af astField) []thunk {
	ft := f.Type
	switch af.Kind {
	case fkPos:
		if af.Flag {
			return []thunk{func(*c22g) interface{} { return token.NoPos }, func(g *c22g) interface{} { return g.p() }}
		}
		return []thunk{func(g *c22g) interface{} { return g.p() }}
	case fkBool:
		return constThunks(false, true)
	case fkInt:
		return constThunks(ast.SEND, ast.RECV, ast.SEND|ast.RECV)
	case fkStr:
		return []thunk{func(g *c22g) interface{} { g.name++; return fmt.Sprintf("n%d", g.name) }}
	case fkTok:
		panic("c22 generator: token field without a domain: " + t.Name() + "." + f.Name)
	case fkSlice:
		switch ft.Elem() {
		case reflect.TypeOf((*ast.Expr)(nil)).Elem():
			return []thunk{exprList(1)}
		case reflect.TypeOf((*ast.Stmt)(nil)).Elem():
			return []thunk{stmtList(1)}
		case reflect.TypeOf((*ast.Ident)(nil)):
			return []thunk{identList(1)}
		}
		panic("c22 generator: list field without a domain: " + t.Name() + "." + f.Name)
	case fkNode:
		switch ft {
		case reflect.TypeOf((*ast.Expr)(nil)).Elem():
			return []thunk{exprT}
		case reflect.TypeOf((*ast.Stmt)(nil)).Elem():
			return []thunk{stmtT}
		case reflect.TypeOf((*ast.BlockStmt)(nil)):
			return []thunk{blockT}
		case reflect.TypeOf((*ast.Ident)(nil)):
			return []thunk{func(g *c22g) interface{} { return g.id() }}
		case reflect.TypeOf((*ast.BasicLit)(nil)):
			return []thunk{func(g *c22g) interface{} { return g.lit(token.STRING) }}
		case reflect.TypeOf((*ast.FieldList)(nil)):
			return []thunk{func(g *c22g) interface{} { return g.fieldList(1) }}
		case reflect.TypeOf((*ast.FuncType)(nil)):
			return []thunk{func(g *c22g) interface{} { return g.funcType() }}
		case reflect.TypeOf((*ast.CallExpr)(nil)):
			return []thunk{func(g *c22g) interface{} { return g.call() }}
		}
		panic("c22 generator: child field without a domain: " + t.Name() + "." + f.Name + " " + ft.String())
	}
	return nil
}

// c22Generate returns the generated root nodes (deterministic order).
func c22Generate() []ast.Node {
	g := &c22g{pos: 100}
	over := c22Overrides()
	var out []ast.Node
	for _, t := range c22NodeTypes() {
		if t.Name() == "GenDecl" || t.Name() == "BasicLit" {
			continue // built below (fields depend on each other)
		}
		plan := astPlanOf(t)
		var dims []dimension
		for _, af := range plan.Fields {
			if af.Kind == fkIgnore {
				continue
			}
			vals, ok := over[t.Name()+"."+af.Name]
			if !ok {
				vals = c22DefaultThunks(t, t.Field(af.Idx), af)
			}
			dims = append(dims, dimension{af.Idx, vals})
		}
		total := 1
		for _, d := range dims {
			total *= len(d.vals)
		}
		if total > 5000 {
			panic(fmt.Sprintf("c22 generator: %s has %d combinations", t.Name(), total))
		}
		ctr := make([]int, len(dims))
		for k := 0; k < total; k++ {
			nv := reflect.New(t)
			for di, d := range dims {
				v := d.vals[ctr[di]](g)
				if v == nil {
					continue
				}
				nv.Elem().Field(d.field).Set(reflect.ValueOf(v))
			}
			out = append(out, nv.Interface().(ast.Node))
			for di := len(dims) - 1; di >= 0; di-- {
				ctr[di]++
				if ctr[di] < len(dims[di].vals) {
					break
				}
				ctr[di] = 0
			}
		}
	}
	// BasicLit: kind and value go together
	for _, k := range []token.Token{token.INT, token.FLOAT, token.IMAG, token.CHAR, token.STRING} {
		out = append(out, g.lit(k))
	}
	// GenDecl: Tok × grouped × number of specs (spec type follows Tok; PACKAGE is gomacro's representation of the package clause)
	for _, tok := range []token.Token{token.IMPORT, token.CONST, token.TYPE, token.VAR, token.PACKAGE} {
		for _, paren := range []bool{false, true} {
			for n := 0; n <= 2; n++ {
				if n == 0 && !paren {
					continue
				}
				out = append(out, g.genDecl(tok, n, paren))
			}
		}
	}
	// TypeSpec alias / ValueSpec inside their declarations, iota-style const groups
	out = append(out, &ast.GenDecl{TokPos: g.p(), Tok: token.TYPE, Specs: []ast.Spec{&ast.TypeSpec{Name: g.id(), Assign: g.p(), Type: g.id()}}})
	out = append(out, &ast.GenDecl{TokPos: g.p(), Tok: token.CONST, Lparen: g.p(), Rparen: g.p(), Specs: []ast.Spec{
		&ast.ValueSpec{Names: []*ast.Ident{g.id()}, Values: []ast.Expr{&ast.Ident{NamePos: g.p(), Name: "iota"}}},
		&ast.ValueSpec{Names: []*ast.Ident{g.id()}}}})
	// gomacro extension operators as UnaryExpr over the fictitious closure
	for _, op := range c22QuoteOps {
		out = append(out, &ast.UnaryExpr{OpPos: g.p(), Op: op, X: g.quoteBody()})
	}
	// nested quotes: quasiquote{ a; unquote{b}; unquote_splice{c} }
	qq := &ast.UnaryExpr{OpPos: g.p(), Op: etoken.QUASIQUOTE, X: &ast.FuncLit{Type: &ast.FuncType{Params: &ast.FieldList{}}, Body: &ast.BlockStmt{List: []ast.Stmt{
		g.exprStmt(),
		&ast.ExprStmt{X: &ast.UnaryExpr{OpPos: g.p(), Op: etoken.UNQUOTE, X: g.quoteBody()}},
		&ast.ExprStmt{X: &ast.UnaryExpr{OpPos: g.p(), Op: etoken.UNQUOTE_SPLICE, X: g.quoteBody()}},
	}}}}
	out = append(out, qq)
	// generics extension shapes: Pair#[A,B]; func with type parameters stored as second receiver (nil first receiver)
	out = append(out, &ast.IndexExpr{X: g.id(), Lbrack: g.p(), Index: &ast.CompositeLit{Lbrace: g.p(), Elts: []ast.Expr{g.id(), &ast.KeyValueExpr{Key: g.id(), Colon: g.p(), Value: g.id()}}, Rbrace: g.p()}, Rbrack: g.p()})
	out = append(out, &ast.FuncDecl{Recv: &ast.FieldList{Opening: g.p(), List: []*ast.Field{nil, {Type: &ast.CompositeLit{Lbrace: g.p(), Elts: []ast.Expr{g.id()}, Rbrace: g.p()}}}, Closing: g.p()},
		Name: g.id(), Type: g.funcType(), Body: g.block(1)})
	return out
}

// c22ExtensionSources are gomacro-syntax snippets parsed by the forked parser (GENERICS_V2_CTI as in gomacro's main).
func c22ExtensionSources() []string {
	return []string{
		"~quote{x}",
		"~quote{x; y}",
		"~'x",
		"~'{x + 1}",
		"~quasiquote{x; ~unquote{y}; ~unquote_splice{z}}",
		"~\"{a + ~,b}",
		"~\"{f(~,@args)}",
		"~\"~\"{zero ; ~,~,@ab ; one}",
		"~\"~\"{zero ; ~,@~,@ab ; one}",
		"~quote{~quasiquote{~unquote{~unquote{x}}}}",
		"~quote{case a, b: c; d}",
		"~quote{default: c}",
		"~quote{~typecase int, string: x}",
		"~quote{package foo}",
		"~quote{}",
		"macro m0() ast.Node { return nil }",
		"macro m2(a, b ast.Node) ast.Node { return ~\"{~,a + ~,b} }",
		"~macro m3(a, b, c interface{}) (interface{}, interface{}) { return b, c }",
		"~func f(a int) int { return a }",
		"x := ~lambda(a int) int { return a }",
		"x := {a; b}",
		"y := f({1}, {2; 3})",
		"v := Pair#[int, string]{1, \"a\"}",
		"var p Pair#[]",
		"var q Set#[T: Eq]",
		"var r SortedMap#[K: Ord, V: Container#[SortedMap#[K,V],K,V]]",
		"type Pair#[T1,T2] struct { First T1; Second T2 }",
		"type Eq#[T] interface { func (T) Equal(T) bool }",
		"~func Sum#[T] (a []T) T { var s T; return s }",
		"~func (x Pair) Rest#[T] () T { return x.Second }",
		"func Map#[T: Ord, U] (a []T, f func(T) U) []U { return nil }",
		"m2; 1; 2",
		"{m2; 1; {m2; 2; 3}}",
		"package \"foo/bar\"",
		"import . \"fmt\"; import _ \"os\"; import ( a \"a\"; \"b\" )",
		"s[1:2:3]; s[:2]; s[1:]; s[:]; s[:2:3]",
		"f(a...); f(a, b...)",
		"var c1 chan int; var c2 <-chan int; var c3 chan<- int",
		"type A = B; type ( C = D; E F )",
		"L: for { break L; continue L; goto L }; switch { case true: fallthrough; default: }",
		"for i, v := range x {}; for i = range x {}; for range x {}; for i, v = range x {}",
		"struct{ a, b int `tag`; C }{}; interface{ M(int) (string, error); io.Reader }(nil)",
	}
}
