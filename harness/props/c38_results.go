package props

// C38's own corpus: the value-copy points at function boundaries in the presence of deferred code, inside the
// classic interpreter's documented subset (default-typed int/float64/string/bool, slices, maps, plain structs,
// functions/closures, defer/recover). The classic interpreter evaluates `x`, `w.F`, `a[i]`, `*p` to the settable
// reflect.Value that IS the variable: every place where Go takes a copy (results at `return`, arguments and the
// function value at `defer`, arguments at a call) must take one explicitly, and the deferred functions run between
// the evaluation of the results and the moment the caller receives them.
//
// Families (header of every program = "<family>|<class parameters>"):
//   ret     results vs deferred functions: kind × storage class of the returned operand × mutator × arity/position × call context
//   named   named results: explicit / bare / constant return, modified by deferred functions, several results
//   dargs   arguments and function value of a defer statement are saved at the defer statement
//   recov   a function with 0..2 results recovers from a panic at call depth 1..6: results, execution continues in the caller
//   cargs   arguments of an ordinary call are copies (parameter modified by the callee / by a deferred function of the callee)

import (
	"fmt"
	"strings"

	"verif/harness/core"
	"verif/harness/oracle"
)

type c38Kind struct {
	name string
	typ  string // "@" is replaced by the program id
	decl string // type declaration needed (with "@")
	v    [3]string
	obs  string // how a value of this kind is observed: format with one %s
	add  string // statement modifying the place %[1]s in a way that depends on its old value
}

var c38Kinds = []c38Kind{
	{"int", "int", "", [3]string{"1", "20", "300"}, "O(%s)", "%[1]s += 1000"},
	{"float64", "float64", "", [3]string{"1.5", "20.25", "0.125"}, "O(%s)", "%[1]s *= 4"},
	{"string", "string", "", [3]string{`"a"`, `"bc"`, `"def"`}, "O(%s)", `%[1]s += "+"`},
	{"bool", "bool", "", [3]string{"true", "false", "true"}, "O(%s)", "%[1]s = !%[1]s"},
	{"slice", "[]int", "", [3]string{"[]int{1, 2}", "[]int{7}", "[]int{}"}, "O(%s)", "%[1]s = append(%[1]s, 9)"},
	{"map", "map[string]int", "", [3]string{`map[string]int{"a": 1}`, `map[string]int{"b": 2}`, `map[string]int{}`}, "O(%s)", `%[1]s = map[string]int{"z": len(%[1]s)}`},
	{"struct", "S_@", "type S_@ struct {\n\tA int\n\tB string\n}", [3]string{`S_@{1, "a"}`, `S_@{2, "b"}`, `S_@{B: "c"}`}, "O(%s)", "%[1]s = S_@{(%[1]s).A + 1000, (%[1]s).B}"},
	{"func", "func() int", "", [3]string{"func() int { return 1 }", "func() int { return 20 }", "func() int { return 300 }"}, "O((%s)())", "%[1]s = func() int { return 4000 }"},
}

// storage class of the returned operand
type c38Store struct {
	name   string
	param  bool   // the operand is the parameter x
	setup  string // statements defining the place, %[1]s = type, %[2]s = initial value, %[3]s = program id
	place  string // the operand, %[1]s = program id
	addr   bool   // &place is valid
	decl   string // package-level declarations, same verbs as setup
	global bool   // the place outlives the call: its final value is observed too
}

var c38Stores = []c38Store{
	{name: "local", setup: "x := %[2]s", place: "x", addr: true},
	{name: "param", param: true, place: "x", addr: true},
	{name: "field", setup: "w := W_%[3]s{N: 3, F: %[2]s}", place: "w.F", addr: true, decl: "type W_%[3]s struct {\n\tN int\n\tF %[1]s\n}"},
	{name: "elem", setup: "a := []%[1]s{%[2]s, %[2]s}", place: "a[1]", addr: true},
	{name: "mapelem", setup: "m := map[string]%[1]s{\"k\": %[2]s}", place: "m[\"k\"]"},
	{name: "deref", setup: "y := %[2]s\np := &y", place: "*p", addr: true},
	{name: "global", setup: "G_%[3]s = %[2]s", place: "G_%[1]s", addr: true, decl: "var G_%[3]s %[1]s", global: true},
}

// mutators: how the place is modified after the results were evaluated. %[1]s place, %[2]s new value, %[3]s id, %[4]s third value, %[5]s add statement
type c38Mut struct {
	name     string
	stmt     string
	needAddr bool
}

var c38Muts = []c38Mut{
	{"closure", "defer func() {\n%[1]s = %[2]s\n}()", false},
	{"closure-add", "defer func() {\n%[5]s\n}()", false},
	{"setptr", "defer set_%[3]s(&%[1]s, %[2]s)", true},
	{"funcvar", "d := func() {\n%[1]s = %[2]s\n}\ndefer d()", false},
	{"two", "defer func() {\n%[1]s = %[4]s\n}()\ndefer func() {\n%[1]s = %[2]s\n}()", false},
	{"loop", "for i := 0; i < 2; i++ {\ndefer func() {\n%[5]s\n}()\n}", false},
	{"nested", "defer func() {\ndefer func() {\n%[1]s = %[2]s\n}()\n}()", false},
	{"recover-nil", "defer func() {\nR(recover())\n%[1]s = %[2]s\n}()", false},
}

// arity / position of the operand among the results
var c38Arities = []string{"1", "2first", "2last", "2same"}

// call contexts
var c38Ctxs = []string{"assign", "arg", "forward", "twice", "funcvalue", "upvalue"}

type c38Gen struct {
	progs []oracle.Prog
	n     int
}

// c38f is Sprintf for templates that use only some of their (string) arguments, all through explicit indexes.
func c38f(format string, a ...interface{}) string {
	return fmt.Sprintf(format+"%.0[1]s", a...)
}

func (g *c38Gen) add(header, decls, body string) {
	g.n++
	id := fmt.Sprintf("r%d", g.n)
	decls = strings.ReplaceAll(decls, "@", id)
	body = strings.ReplaceAll(body, "@", id)
	g.progs = append(g.progs, oracle.Prog{ID: id, Decls: decls, Body: "// " + header + "\n" + body})
}

// ret renders one program of family ret.
func (g *c38Gen) ret(k c38Kind, st c38Store, mu c38Mut, arity, ctx, retform string) {
	if mu.needAddr && !st.addr {
		return
	}
	typ := k.typ
	place := st.place
	if st.global {
		place = "G_@"
	}
	var d, f cw
	if k.decl != "" {
		d.f("%s", k.decl)
	}
	if st.decl != "" {
		d.f("%s", c38f(st.decl, typ, k.v[0], "@"))
	}
	if mu.needAddr {
		d.f("func set_@(p *%s, v %s) {\n\t*p = v\n}", typ, typ)
	}
	if retform == "call" {
		d.f("func id_@(v %s) %s {\n\treturn v\n}", typ, typ)
	}
	results, ret := "", ""
	op := place
	switch retform {
	case "paren":
		op = "(" + place + ")"
	case "call":
		op = "id_@(" + place + ")"
	}
	switch arity {
	case "1":
		results, ret = typ, op
	case "2first":
		results, ret = "("+typ+", int)", op+", 5"
	case "2last":
		results, ret = "(int, "+typ+")", "5, "+op
	case "2same":
		results, ret = "("+typ+", "+typ+")", op+", "+op
	}
	nres := 1
	if arity != "1" {
		nres = 2
	}
	params, callArgs := "", ""
	if st.param {
		params, callArgs = "x "+typ, k.v[0]
	}
	// the function under test
	var fb cw
	fb.f("S(\"in\")")
	if st.setup != "" {
		fb.f("%s", c38f(st.setup, typ, k.v[0], "@"))
	}
	fb.f("%s", c38f(mu.stmt, place, k.v[1], "@", k.v[2], c38f(k.add, place)))
	fb.f("return %s", ret)
	if ctx == "upvalue" {
		// the function under test is a closure, its operand lives in the enclosing function
		if st.param || st.global {
			return
		}
		var ob cw
		ob.f("func F_@(%s) %s {", params, results)
		if st.setup != "" {
			ob.f("%s", c38f(st.setup, typ, k.v[0], "@"))
		}
		ob.f("inner := func() %s {", results)
		ob.f("S(\"in\")")
		ob.f("%s", c38f(mu.stmt, place, k.v[1], "@", k.v[2], c38f(k.add, place)))
		ob.f("return %s", ret)
		ob.f("}")
		if nres == 1 {
			ob.f("r := inner()\nS(\"back\")\n%s\nreturn r", fmt.Sprintf(k.obs, place))
		} else {
			ob.f("r, s := inner()\nS(\"back\")\n%s\nreturn r, s", fmt.Sprintf(k.obs, place))
		}
		ob.f("}")
		d.f("%s", ob.String())
	} else {
		d.f("func F_@(%s) %s {\n%s}", params, results, fb.String())
	}
	obsAll := func(names ...string) string {
		var out []string
		for i, n := range names {
			isK := true
			if (arity == "2first" && i == 1) || (arity == "2last" && i == 0) {
				isK = false
			}
			if isK {
				out = append(out, fmt.Sprintf(k.obs, n))
			} else {
				out = append(out, "O("+n+")")
			}
		}
		return strings.Join(out, "\n")
	}
	call := "F_@(" + callArgs + ")"
	switch ctx {
	case "assign", "upvalue":
		if nres == 1 {
			f.f("r := %s\n%s", call, obsAll("r"))
		} else {
			f.f("r, s := %s\n%s", call, obsAll("r", "s"))
		}
	case "arg":
		if nres != 1 {
			return
		}
		f.f("%s", fmt.Sprintf(k.obs, call))
	case "forward":
		d.f("func H_@() %s {\n\tS(\"h\")\n\treturn %s\n}", results, call)
		if nres == 1 {
			f.f("r := H_@()\n%s", obsAll("r"))
		} else {
			f.f("r, s := H_@()\n%s", obsAll("r", "s"))
		}
	case "twice":
		if nres == 1 {
			f.f("for i := 0; i < 2; i++ {\nr := %s\n%s\n}", call, obsAll("r"))
		} else {
			f.f("for i := 0; i < 2; i++ {\nr, s := %s\n%s\n}", call, obsAll("r", "s"))
		}
	case "funcvalue":
		if nres == 1 {
			f.f("fv := F_@\nr := fv(%s)\n%s", callArgs, obsAll("r"))
		} else {
			f.f("fv := F_@\nr, s := fv(%s)\n%s", callArgs, obsAll("r", "s"))
		}
	}
	if st.global {
		f.f("%s", fmt.Sprintf(k.obs, "G_@"))
	}
	f.f("S(\"done\")")
	g.add(fmt.Sprintf("ret|kind=%s|store=%s|mut=%s|arity=%s|ctx=%s|ret=%s", k.name, st.name, mu.name, arity, ctx, retform), d.String(), f.String())
}

func (g *c38Gen) genRet(c *core.Ctx) {
	for _, k := range c38Kinds {
		for _, st := range c38Stores {
			for mi, mu := range c38Muts {
				for ai, ar := range c38Arities {
					for ci, ctx := range c38Ctxs {
						// quick: the full product kind × store × mutator (arity 1, assigned) and, for every (kind, store),
						// every arity and every context with the plain closure mutator; thorough: the full product
						if c.Quick() && !(ai == 0 && ci == 0) && mi != 0 {
							continue
						}
						if c.Quick() && ai != 0 && ci != 0 && !(ctx == "forward" || ctx == "upvalue") {
							continue
						}
						g.ret(k, st, mu, ar, ctx, "plain")
					}
				}
			}
			// other forms of the returned expression: a redundant parenthesis still denotes the variable, a call yields a fresh value
			g.ret(k, st, c38Muts[0], "1", "assign", "paren")
			g.ret(k, st, c38Muts[0], "2last", "assign", "paren")
			g.ret(k, st, c38Muts[0], "1", "assign", "call")
		}
	}
}

// ---------------------------------------------------------------------------------------------
// named results

func (g *c38Gen) genNamed(c *core.Ctx) {
	// how the function returns; %[1]s first value, %[2]s second value, %[3]s third value
	rets := []struct{ name, stmt string }{
		{"bare", "r = %[1]s\nreturn"},
		{"explicit-self", "r = %[1]s\nreturn r"},
		{"explicit-const", "return %[1]s"},
		{"explicit-local", "x := %[1]s\nreturn x"},
		{"fallthrough-if", "r = %[3]s\nif len(Ts(1, \"c\")) == 1 {\nr = %[1]s\nreturn\n}\nreturn"},
	}
	// deferred modification of the named result; %[1]s = add statement on r, %[2]s second value
	muts := []struct{ name, stmt string }{
		{"none", ""},
		{"closure-add", "defer func() {\n%[1]s\n}()"},
		{"closure-set", "defer func() {\nr = %[2]s\n}()"},
		{"two", "defer func() {\n%[1]s\n}()\ndefer func() {\nr = %[2]s\n}()"},
		{"observe", "defer func() {\n%[3]s\n}()"},
		{"setptr", "defer set_@(&r, %[2]s)"},
		{"recover-nil-add", "defer func() {\nR(recover())\n%[1]s\n}()"},
	}
	shapes := []string{"1", "2first", "2last", "unnamed-blank"}
	ctxs := []string{"assign", "forward", "twice"}
	for _, k := range c38Kinds {
		for _, rt := range rets {
			for _, mu := range muts {
				for si, shape := range shapes {
					for ci, ctx := range ctxs {
						if c.Quick() && si != 0 && ci != 0 {
							continue
						}
						if c.Quick() && (si != 0 || ci != 0) && !(mu.name == "closure-add" || mu.name == "none") {
							continue
						}
						var d, f cw
						if k.decl != "" {
							d.f("%s", k.decl)
						}
						if mu.name == "setptr" {
							d.f("func set_@(p *%s, v %s) {\n\t*p = v\n}", k.typ, k.typ)
						}
						results := ""
						two := false
						switch shape {
						case "1":
							results = "(r " + k.typ + ")"
						case "2first":
							results, two = "(r "+k.typ+", n int)", true
						case "2last":
							results, two = "(n int, r "+k.typ+")", true
						case "unnamed-blank":
							results, two = "(r "+k.typ+", _ int)", true
						}
						stmt := c38f(rt.stmt, k.v[0], k.v[1], k.v[2])
						if two {
							// explicit returns name both results
							switch shape {
							case "2first", "unnamed-blank":
								stmt = strings.ReplaceAll(stmt, "return r", "return r, 6")
								stmt = strings.ReplaceAll(stmt, "return x", "return x, 6")
								stmt = strings.ReplaceAll(stmt, "return "+k.v[0], "return "+k.v[0]+", 6")
							case "2last":
								stmt = strings.ReplaceAll(stmt, "return r", "return 6, r")
								stmt = strings.ReplaceAll(stmt, "return x", "return 6, x")
								stmt = strings.ReplaceAll(stmt, "return "+k.v[0], "return 6, "+k.v[0])
							}
						}
						var fb cw
						fb.f("S(\"in\")")
						if shape == "2first" || shape == "2last" {
							fb.f("n = 4\ndefer func() {\nn += 10\n}()")
						}
						if mu.stmt != "" {
							fb.f("%s", c38f(mu.stmt, c38f(k.add, "r"), k.v[1], fmt.Sprintf(k.obs, "r")))
						}
						fb.f("%s", stmt)
						d.f("func F_@() %s {\n%s}", results, fb.String())
						obs := func(names ...string) string {
							var out []string
							for i, n := range names {
								if (shape == "2last") == (i == 1) {
									out = append(out, fmt.Sprintf(k.obs, n))
								} else {
									out = append(out, "O("+n+")")
								}
							}
							return strings.Join(out, "\n")
						}
						call := "F_@()"
						if ctx == "forward" {
							ures := k.typ
							if two {
								ures = "(" + k.typ + ", int)"
								if shape == "2last" {
									ures = "(int, " + k.typ + ")"
								}
							}
							d.f("func H_@() %s {\n\treturn F_@()\n}", ures)
							call = "H_@()"
						}
						lhs, names := "r", []string{"r"}
						if two {
							lhs, names = "r, s", []string{"r", "s"}
						}
						if ctx == "twice" {
							f.f("for i := 0; i < 2; i++ {\n%s := %s\n%s\n}", lhs, call, obs(names...))
						} else {
							f.f("%s := %s\n%s", lhs, call, obs(names...))
						}
						f.f("S(\"done\")")
						g.add(fmt.Sprintf("named|kind=%s|return=%s|mut=%s|shape=%s|ctx=%s", k.name, rt.name, mu.name, shape, ctx), d.String(), f.String())
					}
				}
			}
		}
	}
}

// ---------------------------------------------------------------------------------------------
// defer statement: function value and arguments are saved when the statement executes

func (g *c38Gen) genDeferArgs(c *core.Ctx) {
	forms := []struct {
		name string
		// %[1]s place, %[2]s type, %[3]s observation of v
		stmt string
		decl string
	}{
		{"closure-param", "defer func(v %[2]s) {\nS(\"d\")\n%[3]s\n}(%[1]s)", ""},
		{"declared", "defer show_@(%[1]s)", "func show_@(v %[2]s) {\n\tS(\"d\")\n\t%[3]s\n}"},
		{"declared-2args", "defer show2_@(%[1]s, %[1]s)", "func show2_@(v, u %[2]s) {\n\tS(\"d\")\n\t%[3]s\n\t%[4]s\n}"},
		{"hook", "defer O(%[1]s)", ""},
		{"funcvar", "fv := show_@\ndefer fv(%[1]s)", "func show_@(v %[2]s) {\n\tS(\"d\")\n\t%[3]s\n}"},
		{"variadic", "defer showv_@(%[1]s, %[1]s)", "func showv_@(vs ...%[2]s) {\n\tS(\"d\")\n\tfor _, v := range vs {\n\t\t%[3]s\n\t}\n}"},
	}
	for _, k := range c38Kinds {
		for _, st := range c38Stores {
			for fi, fm := range forms {
				if k.name == "func" && fm.name == "hook" {
					continue // O prints a function as "func": nothing to observe
				}
				for _, after := range []string{"assign", "add"} {
					if c.Quick() && after == "add" && fi > 1 {
						continue
					}
					typ := k.typ
					place := st.place
					if st.global {
						place = "G_@"
					}
					var d, f, fb cw
					if k.decl != "" {
						d.f("%s", k.decl)
					}
					if st.decl != "" {
						d.f("%s", c38f(st.decl, typ, k.v[0], "@"))
					}
					if fm.decl != "" {
						d.f("%s", c38f(fm.decl, place, typ, fmt.Sprintf(k.obs, "v"), fmt.Sprintf(k.obs, "u")))
					}
					params, callArgs := "", ""
					if st.param {
						params, callArgs = "x "+typ, k.v[0]
					}
					fb.f("S(\"in\")")
					if st.setup != "" {
						fb.f("%s", c38f(st.setup, typ, k.v[0], "@"))
					}
					fb.f("%s", c38f(fm.stmt, place, typ, fmt.Sprintf(k.obs, "v")))
					if after == "assign" {
						fb.f("%s = %s", place, k.v[1])
					} else {
						fb.f("%s", c38f(k.add, place))
					}
					fb.f("%s", fmt.Sprintf(k.obs, place))
					fb.f("S(\"out\")")
					d.f("func F_@(%s) {\n%s}", params, fb.String())
					f.f("F_@(%s)\nS(\"done\")", callArgs)
					g.add(fmt.Sprintf("dargs|kind=%s|store=%s|form=%s|after=%s", k.name, st.name, fm.name, after), d.String(), f.String())
				}
			}
		}
		// the function value itself is saved at the defer statement
		for _, holder := range []string{"local", "field", "elem", "global"} {
			var d, f, fb cw
			if k.decl != "" {
				d.f("%s", k.decl)
			}
			d.f("func a_@(v %s) {\n\tS(\"a\")\n\t%s\n}", k.typ, fmt.Sprintf(k.obs, "v"))
			d.f("func b_@(v %s) {\n\tS(\"b\")\n\t%s\n}", k.typ, fmt.Sprintf(k.obs, "v"))
			fb.f("S(\"in\")")
			fv := "fv"
			switch holder {
			case "local":
				fb.f("fv := a_@")
			case "field":
				d.f("type H_@ struct {\n\tFn func(%s)\n}", k.typ)
				fb.f("h := H_@{a_@}")
				fv = "h.Fn"
			case "elem":
				fb.f("fs := []func(%s){a_@}", k.typ)
				fv = "fs[0]"
			case "global":
				d.f("var GF_@ func(%s)", k.typ)
				fb.f("GF_@ = a_@")
				fv = "GF_@"
			}
			fb.f("defer %s(%s)", fv, k.v[0])
			fb.f("%s = b_@", fv)
			fb.f("%s(%s)", fv, k.v[1])
			fb.f("S(\"out\")")
			d.f("func F_@() {\n%s}", fb.String())
			f.f("F_@()\nS(\"done\")")
			g.add(fmt.Sprintf("dargs|kind=%s|funcvalue-holder=%s", k.name, holder), d.String(), f.String())
		}
	}
}

// ---------------------------------------------------------------------------------------------
// recover: a function with results recovers from a panic, at different call depths

func (g *c38Gen) genRecover(c *core.Ctx) {
	sources := []struct{ name, stmt, decl string }{
		{"panic-string", "panic(\"boom\")", ""},
		{"panic-int", "panic(7)", ""},
		{"panic-struct", "panic(PV_@{3, \"v\"})", "type PV_@ struct {\n\tA int\n\tB string\n}"},
		{"nil-map", "var m map[string]int\nm[\"a\"] = 1", ""},
		{"index", "a := []int{1}\ni := 5\nO(a[i])", ""},
		{"divide", "z := 0\nO(10 / z)", ""},
		{"callee-panics", "boom_@()", "func boom_@() {\n\tS(\"boom\")\n\tpanic(\"deep\")\n}"},
	}
	// deferred handlers; %[1]s statement executed after a successful recover
	handlers := []struct{ name, stmt string }{
		{"bare", "defer func() {\nS(\"d\")\nrecover()\n%[1]s\n}()"},
		{"record", "defer func() {\nS(\"d\")\nR(recover())\n%[1]s\n}()"},
		{"var", "defer func() {\nS(\"d\")\nvar e interface{} = recover()\nR(e)\n%[1]s\n}()"},
		{"second-of-two", "defer func() {\nS(\"d1\")\nR(recover())\n}()\ndefer func() {\nS(\"d2\")\n%[1]s\n}()"},
		{"first-of-two", "defer func() {\nS(\"d1\")\n%[1]s\n}()\ndefer func() {\nS(\"d2\")\nR(recover())\n}()"},
		{"declared-handler", "defer handler_@()"},
		{"helper-no-effect", "defer func() {\nS(\"d\")\nR(helper_@())\n}()"},
		{"none", "defer func() {\nS(\"d\")\n}()"},
		{"short-var-decl-idiom", "defer func() {\nif e := recover(); e != nil {\nR(e)\n%[1]s\n}\n}()"},
	}
	shapes := []struct{ name, results, set, after, zero string }{
		{"0", "", "", "S(\"rec\")", ""},
		{"1-unnamed", "int", "", "S(\"rec\")", ""},
		{"2-unnamed", "(string, []int)", "", "S(\"rec\")", ""},
		{"1-named", "(r int)", "r = 5", "r += 100", ""},
		{"2-named", "(r string, q []int)", "r = \"s\"\nq = []int{1}", "r += \"+\"\nq = append(q, 2)", ""},
	}
	for depth := 1; depth <= 6; depth++ {
		for si, src := range sources {
			for hi, hd := range handlers {
				for _, sh := range shapes {
					// quick: depth × handler × shape with two panic sources, every source at depths 1 and 3 with two handlers
					if c.Quick() && !(si == 0 || si == 3 || ((depth == 1 || depth == 3) && hi < 2)) {
						continue
					}
					var d, f, fb cw
					if src.decl != "" {
						d.f("%s", src.decl)
					}
					if hd.name == "declared-handler" {
						d.f("func handler_@() {\n\tS(\"dh\")\n\tR(recover())\n}")
					}
					if hd.name == "helper-no-effect" {
						d.f("func helper_@() interface{} {\n\treturn recover()\n}")
					}
					fb.f("S(\"in\")")
					if sh.set != "" {
						fb.f("%s", sh.set)
					}
					fb.f("%s", c38f(hd.stmt, sh.after))
					fb.f("%s", src.stmt)
					fb.f("S(\"not-reached\")")
					switch sh.name {
					case "1-unnamed":
						fb.f("return 9")
					case "2-unnamed":
						fb.f("return \"x\", []int{9}")
					case "1-named", "2-named":
						fb.f("return")
					}
					d.f("func F_@() %s {\n%s}", sh.results, fb.String())
					// wrappers W1 … W(depth-1): the recovering frame runs at call depth `depth` below the program function
					call, lhs := "F_@()", ""
					switch sh.name {
					case "1-unnamed", "1-named":
						lhs = "r := "
					case "2-unnamed", "2-named":
						lhs = "r, q := "
					}
					obs := ""
					if lhs != "" {
						obs = "O(" + strings.TrimSuffix(lhs, " := ") + ")"
					}
					for w := depth - 1; w >= 1; w-- {
						if sh.results == "" {
							d.f("func W%d_@() {\n\tS(\"w%d\")\n\tdefer S(\"w%d.d\")\n\t%s\n\tS(\"w.back\")\n}", w, w, w, call)
						} else {
							d.f("func W%d_@() %s {\n\tS(\"w%d\")\n\tdefer S(\"w%d.d\")\n\treturn %s\n}", w, sh.results, w, w, call)
						}
						call = fmt.Sprintf("W%d_@()", w)
					}
					f.f("%s%s", lhs, call)
					f.f("S(\"back\")")
					if obs != "" {
						f.f("%s", obs)
					}
					f.f("S(\"done\")")
					g.add(fmt.Sprintf("recov|depth=%d|source=%s|handler=%s|results=%s", depth, src.name, hd.name, sh.name), d.String(), f.String())
				}
			}
		}
	}
}

// ---------------------------------------------------------------------------------------------
// arguments of an ordinary call are copies

func (g *c38Gen) genCallArgs(c *core.Ctx) {
	callees := []struct{ name, body string }{
		{"assign", "v = %[2]s\n%[3]s"},
		{"add", "%[4]s\n%[3]s"},
		{"deferred-assign", "defer func() {\nv = %[2]s\n%[3]s\n}()"},
		{"closure-assign", "func() {\nv = %[2]s\n}()\n%[3]s"},
	}
	for _, k := range c38Kinds {
		for _, st := range c38Stores {
			for _, ce := range callees {
				typ := k.typ
				place := st.place
				if st.global {
					place = "G_@"
				}
				var d, f, fb cw
				if k.decl != "" {
					d.f("%s", k.decl)
				}
				if st.decl != "" {
					d.f("%s", c38f(st.decl, typ, k.v[0], "@"))
				}
				d.f("func callee_@(v %s) {\n\tS(\"c\")\n%s\n}", typ, c38f(ce.body, "", k.v[1], fmt.Sprintf(k.obs, "v"), c38f(k.add, "v")))
				params, callArgs := "", ""
				if st.param {
					params, callArgs = "x "+typ, k.v[0]
				}
				fb.f("S(\"in\")")
				if st.setup != "" {
					fb.f("%s", c38f(st.setup, typ, k.v[0], "@"))
				}
				fb.f("callee_@(%s)", place)
				fb.f("%s", fmt.Sprintf(k.obs, place))
				d.f("func F_@(%s) {\n%s}", params, fb.String())
				f.f("F_@(%s)\nS(\"done\")", callArgs)
				g.add(fmt.Sprintf("cargs|kind=%s|store=%s|callee=%s", k.name, st.name, ce.name), d.String(), f.String())
			}
		}
	}
}

func c38ResultsCorpus(c *core.Ctx) []oracle.Prog {
	g := &c38Gen{}
	g.genRet(c)
	g.genNamed(c)
	g.genDeferArgs(c)
	g.genRecover(c)
	g.genCallArgs(c)
	return g.progs
}

// c38ResultsSig: family + the class parameters that select the code path in the interpreter (kind, call context, depth
// and panic source are dropped, and for the families named/dargs/recov also the parameters that only multiply the
// observations of one mechanism: one defect must not need one known-findings entry per combination).
func c38ResultsSig(p *oracle.Prog, want, got string) string {
	parts := strings.Split(c06Header(p), "|")
	fam := parts[0]
	keepPrefix := map[string][]string{
		"ret":   {"store=", "mut=", "arity=", "ret="},
		"named": {"return="},
		"dargs": {"form=", "funcvalue-holder="},
		"recov": {"handler=", "results="},
		"cargs": {"store=", "callee="},
	}[fam]
	keep := []string{fam}
	for _, x := range parts[1:] {
		for _, pre := range keepPrefix {
			if strings.HasPrefix(x, pre) {
				if pre == "funcvalue-holder=" {
					x = "funcvalue"
				}
				keep = append(keep, x)
			}
		}
	}
	how := "value"
	switch {
	case strings.HasPrefix(got, "ERROR"), strings.Contains(got, "PANIC(error:\"repl.go:"):
		how = "interpreter-error"
	case strings.HasPrefix(got, "TIMEOUT"):
		how = "timeout"
	case strings.Contains(got, "wrong return count"):
		how = "wrong-return-count"
	case strings.Contains(got, "PANIC(") && !strings.Contains(want, "PANIC("):
		how = "panic"
	case !strings.Contains(got, "PANIC(") && strings.Contains(want, "PANIC("):
		how = "panic-lost"
	}
	return "C38|results|" + strings.Join(keep, "|") + "|" + how
}

var c38ResultsSpec = &diffSpec{
	ID:      "C38r",
	Gen:     c38ResultsCorpus,
	Classic: func(p *oracle.Prog) bool { return true },
	Sig:     c38ResultsSig,
}
