package props

// C11, part 1a, second half of the corpus: IDENTITY dimensions of the interop machinery.
//
// The first half (c11_seq.go) varies the input of ONE interpreted type / ONE callback per program.
// Everything gomacro builds for interop is built per *something* (per conversion site, per concrete type,
// per function literal, per closure ...) and a realistic mistake is to key it by too little:
//   * interpreted named types SHARE the reflect.Type of their underlying type, so anything keyed by
//     reflect.Type (or by kind, size, method names) confuses `type A int` with `type B int`;
//   * a table keyed by the concrete type alone confuses two compiled interfaces implemented by one type;
//   * state kept per function literal (instead of per closure / per call) confuses two closures
//     created from the same literal, or two activations of one closure that are alive at the same time.
// Hence the programs below always contain >= 2 individuals that agree on everything except the thing
// that must tell them apart, use them alternately through >= 2 conversion sites, in both orders.

import (
	"fmt"
	"strings"
)

// ---- two (three) interpreted types with the same underlying type, one compiled interface -----------------

type c11Kind struct {
	name  string
	under string // underlying type
	mk    string // value constructor; %[1]s = type name, %[2]d = a small integer that varies
	show  string // expression of type string describing receiver x (x has the named type)
	pshow string // same for a pointer receiver x
}

var c11Kinds = []c11Kind{
	{"int", "int", "%[1]s(%[2]d)", "fmt.Sprint(int(x))", "fmt.Sprint(int(*x))"},
	{"uint8", "uint8", "%[1]s(%[2]d)", "fmt.Sprint(uint8(x))", "fmt.Sprint(uint8(*x))"},
	{"float64", "float64", "%[1]s(%[2]d.5)", "fmt.Sprint(float64(x))", "fmt.Sprint(float64(*x))"},
	{"string", "string", "%[1]s(\"s%[2]d\")", "string(x)", "string(*x)"},
	{"bool", "bool", "%[1]s(%[2]d > 0)", "fmt.Sprint(bool(x))", "fmt.Sprint(bool(*x))"},
	{"struct", "struct{ V int }", "%[1]s{%[2]d}", "fmt.Sprint(x.V)", "fmt.Sprint(x.V)"},
	{"slice", "[]int", "%[1]s{%[2]d, 1}", "fmt.Sprint(len(x), x[0])", "fmt.Sprint(len(*x), (*x)[0])"},
	{"array", "[2]int", "%[1]s{%[2]d, 1}", "fmt.Sprint(x[0])", "fmt.Sprint(x[0])"},
	{"map", "map[string]int", "%[1]s{\"k\": %[2]d}", "fmt.Sprint(x[\"k\"])", "fmt.Sprint((*x)[\"k\"])"},
	{"func", "func() int", "%[1]s(func() int { return %[2]d })", "fmt.Sprint(x())", "fmt.Sprint((*x)())"},
	{"chan", "chan int", "make(%[1]s, %[2]d)", "fmt.Sprint(cap(x))", "fmt.Sprint(cap(*x))"},
}

type c11Iface struct {
	fam    string // family name in the header
	name   string // compiled interface type
	method string // "String() string"
	ret    string // "%s" -> return statement producing the text
	use    string // compiled consumer, %s = interface value
	imp    []string
}

var c11TextIfaces = []c11Iface{
	{"fmt.Stringer", "fmt.Stringer", "String() string", "return %s", "SprintStringer(%s)", []string{"fmt"}},
	{"error", "error", "Error() string", "return %s", "SprintError(%s)", []string{"fmt"}},
	{"fmt.GoStringer", "fmt.GoStringer", "GoString() string", "return %s", "SprintGoStringer(%s)", []string{"fmt"}},
	{"fmt.Formatter", "fmt.Formatter", "Format(st fmt.State, verb rune)", "fmt.Fprintf(st, \"%%c/%%s\", verb, %s)", "SprintFormatter(%s)", []string{"fmt"}},
}

// c11Sites: the ways a value of concrete type T reaches the compiled interface type I.
// Each returns statements leaving the converted value in variable `dst` (already declared: var dst I).
var c11Sites = []struct {
	name string
	stmt func(dst, val, tname, iface string) string
}{
	{"assign", func(dst, val, tname, iface string) string { return dst + " = " + val }},
	{"return", func(dst, val, tname, iface string) string { return dst + " = as" + tname + "(" + val + ")" }},
	{"conversion-expr", func(dst, val, tname, iface string) string { return dst + " = " + iface + "(" + val + ")" }},
	{"slice-literal", func(dst, val, tname, iface string) string { return dst + " = []" + iface + "{" + val + "}[0]" }},
	{"append", func(dst, val, tname, iface string) string {
		return "{\n\tvar tmp []" + iface + "\n\ttmp = append(tmp, " + val + ")\n\t" + dst + " = tmp[0]\n}"
	}},
	{"map-value", func(dst, val, tname, iface string) string {
		return "{\n\ttmp := map[int]" + iface + "{}\n\ttmp[1] = " + val + "\n\t" + dst + " = tmp[1]\n}"
	}},
	{"chan-send", func(dst, val, tname, iface string) string {
		return "{\n\ttmp := make(chan " + iface + ", 1)\n\ttmp <- " + val + "\n\t" + dst + " = <-tmp\n}"
	}},
	{"struct-field", func(dst, val, tname, iface string) string {
		return "{\n\ttmp := struct{ F " + iface + " }{" + val + "}\n\t" + dst + " = tmp.F\n}"
	}},
	{"struct-field-keyed", func(dst, val, tname, iface string) string {
		return "{\n\ttmp := struct{ F " + iface + " }{F: " + val + "}\n\t" + dst + " = tmp.F\n}"
	}},
	{"array-literal", func(dst, val, tname, iface string) string { return dst + " = [1]" + iface + "{" + val + "}[0]" }},
	{"map-literal-value", func(dst, val, tname, iface string) string { return dst + " = map[int]" + iface + "{1: " + val + "}[1]" }},
	{"var-declaration", func(dst, val, tname, iface string) string {
		return "{\n\tvar tmp " + iface + " = " + val + "\n\t" + dst + " = tmp\n}"
	}},
	{"slice-element-assign", func(dst, val, tname, iface string) string {
		return "{\n\ttmp := make([]" + iface + ", 1)\n\ttmp[0] = " + val + "\n\t" + dst + " = tmp[0]\n}"
	}},
	{"array-element-assign", func(dst, val, tname, iface string) string {
		return "{\n\tvar tmp [1]" + iface + "\n\ttmp[0] = " + val + "\n\t" + dst + " = tmp[0]\n}"
	}},
	{"field-assign", func(dst, val, tname, iface string) string {
		return "{\n\tvar tmp struct{ F " + iface + " }\n\ttmp.F = " + val + "\n\t" + dst + " = tmp.F\n}"
	}},
	{"pointer-assign", func(dst, val, tname, iface string) string {
		return "{\n\tvar tmp " + iface + "\n\tp := &tmp\n\t*p = " + val + "\n\t" + dst + " = tmp\n}"
	}},
	{"multiple-assign", func(dst, val, tname, iface string) string {
		return "{\n\tn := 0\n\t" + dst + ", n = " + val + ", 1\n\t_ = n\n}"
	}},
	{"select-send", func(dst, val, tname, iface string) string {
		return "{\n\ttmp := make(chan " + iface + ", 1)\n\tselect {\n\tcase tmp <- " + val + ":\n\tdefault:\n\t}\n\t" + dst + " = <-tmp\n}"
	}},
	{"variadic-argument", func(dst, val, tname, iface string) string { return dst + " = va" + tname + "(" + val + ")" }},
	{"named-result-assign", func(dst, val, tname, iface string) string { return dst + " = nr" + tname + "(" + val + ")" }},
	{"named-result-return", func(dst, val, tname, iface string) string { return dst + " = nrr" + tname + "(" + val + ")" }},
	{"closure-result", func(dst, val, tname, iface string) string {
		return dst + " = func() " + iface + " { return " + val + " }()"
	}},
	{"func-value-argument", func(dst, val, tname, iface string) string {
		return "{\n\tf := func(i " + iface + ") " + iface + " { return i }\n\t" + dst + " = f(" + val + ")\n}"
	}},
	{"deferred-call-argument", func(dst, val, tname, iface string) string {
		return "func() {\n\tdefer func(i " + iface + ") { " + dst + " = i }(" + val + ")\n}()"
	}},
}

// c11SiteDecls returns the helper functions of type tname (receiver type recvT) used by the sites.
func c11SiteDecls(tname, recvT, iface string) string {
	return "func as" + tname + "(x " + recvT + ") " + iface + " { return x }\n" +
		"func va" + tname + "(xs ..." + iface + ") " + iface + " { return xs[len(xs)-1] }\n" +
		"func nr" + tname + "(x " + recvT + ") (r " + iface + ") { r = x; return }\n" +
		"func nrr" + tname + "(x " + recvT + ") (r " + iface + ") { return x }\n"
}

// sharedUnderlying: types A, B (and C defined as `type C A`) differ only in name and method body.
func (g *c11Gen) sharedUnderlying(thorough bool) {
	names := []string{"A", "B", "C"}
	// quick tier: fmt.Stringer with every kind and receiver through the three commonest sites plus one rarer site
	// per kind; the other interfaces with a rotating subset of the kinds through two sites; two of the three orders
	quickKeep := func(ii, ki, si int, order string) bool {
		if order == "BAC" {
			return false
		}
		if ii == 0 {
			return si < 3 || c11Kinds[ki].name == "struct" || si == 3+ki%(len(c11Sites)-3)
		}
		return ki%4 == ii && (si == 0 || si == 1+(ki+ii)%(len(c11Sites)-1))
	}
	for ii, it := range c11TextIfaces {
		for ki, k := range c11Kinds {
			for _, recv := range []string{"value", "pointer"} {
				var decls strings.Builder
				for ni, n := range names {
					under := k.under
					if n == "C" {
						under = "A@" // defined from another named type: same underlying type, no methods inherited
					}
					show := k.show
					rcv := "x " + n + "@"
					if recv == "pointer" {
						show = k.pshow
						rcv = "x *" + n + "@"
					}
					text := fmt.Sprintf("\"%s%d:\" + %s", n, ni, show)
					fmt.Fprintf(&decls, "type %s@ %s\nfunc (%s) %s { %s }\n", n, under, rcv, it.method, fmt.Sprintf(it.ret, text))
					arg := n + "@"
					if recv == "pointer" {
						arg = "*" + n + "@"
					}
					decls.WriteString(c11SiteDecls(n+"@", arg, it.name))
				}
				for si, site := range c11Sites {
					for _, order := range []string{"ABC", "CBA", "BAC"} {
						if !thorough && !quickKeep(ii, ki, si, order) {
							continue
						}
						var body strings.Builder
						fmt.Fprintf(&body, "var dst %s\n", it.name)
						// round 1 through the site under test, round 2 through the plain assignment (a second site per type)
						for round := 0; round < 2; round++ {
							for oi, ch := range order {
								n := string(ch)
								val := fmt.Sprintf(k.mk, n+"@", round*3+oi+1)
								// the value always sits in a variable (constants of interpreted types: see typedConstants)
								pre := fmt.Sprintf("v%d%d := %s\n", round, oi, val)
								val = fmt.Sprintf("v%d%d", round, oi)
								if recv == "pointer" {
									val = "&" + val
								}
								st := site.stmt
								if round == 1 {
									st = c11Sites[0].stmt
								}
								body.WriteString(pre + st("dst", val, n+"@", it.name) + "\nO(" + fmt.Sprintf(it.use, "dst") + ")\n")
							}
						}
						g.add(it.fam, "same-underlying-type/"+k.name+"/"+recv+"-receiver/"+site.name, "order="+order, it.imp, decls.String(), body.String())
					}
				}
			}
		}
	}
}

// typedConstants: a CONSTANT of an interpreted named basic type with methods reaches the compiled interface
// (the conversion of constants is compiled by different code than the conversion of variables).
func (g *c11Gen) typedConstants() {
	for ii, it := range c11TextIfaces {
		for ki, k := range c11Kinds {
			switch k.under {
			case "int", "uint8", "float64", "string", "bool":
			default:
				continue
			}
			var decls strings.Builder
			for ni, n := range []string{"A", "B"} {
				text := fmt.Sprintf("\"%s%d:\" + %s", n, ni, k.show)
				fmt.Fprintf(&decls, "type %s@ %s\nfunc (x %s@) %s { %s }\n%sconst k%s@ %s@ = %s\n",
					n, k.under, n, it.method, fmt.Sprintf(it.ret, text), c11SiteDecls(n+"@", n+"@", it.name), n, n, fmt.Sprintf(k.mk, n+"@", 7+ni))
			}
			for si, site := range c11Sites {
				if ii != 0 && si != (ki+ii)%len(c11Sites) {
					continue
				}
				var body strings.Builder
				fmt.Fprintf(&body, "var dst %s\n", it.name)
				for oi, n := range []string{"A", "B"} {
					val := fmt.Sprintf(k.mk, n+"@", oi+1)
					if site.name == "return" {
						val = "k" + n + "@" // a declared constant (the conversion expression T(1) is exercised by the other sites)
					}
					body.WriteString(site.stmt("dst", val, n+"@", it.name) + "\nO(" + fmt.Sprintf(it.use, "dst") + ")\n")
				}
				g.add(it.fam, "typed-constant/"+k.name+"/"+site.name, "AB", it.imp, decls.String(), body.String())
			}
		}
	}
}

// sharedUnderlyingBehaviour: the same for the interfaces whose methods DO something (sort, heap, io).
func (g *c11Gen) sharedUnderlyingBehaviour(perms [][]int) {
	// sort.Interface: ascending / descending / by-last-digit over the same underlying type
	lessOf := map[string]string{"A": "%[1]s < %[2]s", "B": "%[1]s > %[2]s", "C": "%[1]s%%2 < %[2]s%%2"}
	for _, sh := range []string{"named-slice/value-receivers", "struct/value-receivers", "struct/pointer-receivers"} {
		var decls strings.Builder
		for _, n := range []string{"A", "B", "C"} {
			var under, recv, el string
			switch sh {
			case "named-slice/value-receivers":
				under, recv, el = "[]int", "s "+n+"@", "s"
			case "struct/value-receivers":
				under, recv, el = "struct{ v []int }", "s "+n+"@", "s.v"
			default:
				under, recv, el = "struct{ v []int; n int }", "s *"+n+"@", "s.v"
			}
			if n == "C" && sh != "struct/pointer-receivers" {
				under = "A@"
			}
			fmt.Fprintf(&decls, "type %s@ %s\nfunc (%s) Len() int { return len(%s) }\nfunc (%s) Less(i, j int) bool { return %s }\nfunc (%s) Swap(i, j int) { %s[i], %s[j] = %s[j], %s[i] }\n",
				n, under, recv, el, recv, fmt.Sprintf(lessOf[n], el+"[i]", el+"[j]"), recv, el, el, el, el)
		}
		for _, p := range perms {
			if len(p) != 3 && len(p) != 4 {
				continue
			}
			if len(p) == 4 && sh != "named-slice/value-receivers" {
				continue
			}
			lit := c11IntsLit(p)
			for _, order := range []string{"ABC", "CBA", "BCA"} {
				var body strings.Builder
				for _, ch := range order {
					n := string(ch)
					switch sh {
					case "named-slice/value-receivers":
						fmt.Fprintf(&body, "{\n\tx := %s@(%s)\n\tsort.Sort(x)\n\tO(\"%s\", []int(x), sort.IsSorted(x))\n}\n", n, lit, n)
					case "struct/value-receivers":
						fmt.Fprintf(&body, "{\n\tx := %s@{%s}\n\tsort.Sort(x)\n\tO(\"%s\", x.v, sort.IsSorted(x))\n\tsort.Stable(sort.Reverse(x))\n\tO(x.v)\n}\n", n, lit, n)
					default:
						fmt.Fprintf(&body, "{\n\tx := &%s@{v: %s}\n\tsort.Sort(x)\n\tO(\"%s\", x.v, sort.IsSorted(x))\n\tvar si sort.Interface = x\n\tO(si.Less(0, 1))\n}\n", n, lit, n)
					}
				}
				g.add("sort.Sort", "same-underlying-type/"+sh, fmt.Sprint(p)+" order="+order, []string{"sort"}, decls.String(), body.String())
			}
		}
	}
	// container/heap: min-heap and max-heap over the same underlying type
	heapDecl := func(n, less string) string {
		return "type " + n + "@ []int\nfunc (h " + n + "@) Len() int { return len(h) }\nfunc (h " + n + "@) Less(i, j int) bool { return h[i] " + less + " h[j] }\nfunc (h " + n + "@) Swap(i, j int) { h[i], h[j] = h[j], h[i] }\n" +
			"func (h *" + n + "@) Push(x interface{}) { *h = append(*h, x.(int)) }\nfunc (h *" + n + "@) Pop() interface{} { old := *h; n := len(old); x := old[n-1]; *h = old[:n-1]; return x }\n"
	}
	for _, p := range perms {
		if len(p) != 3 {
			continue
		}
		for _, order := range []string{"AB", "BA"} {
			var body strings.Builder
			for _, ch := range order {
				n := string(ch)
				fmt.Fprintf(&body, "{\n\th := &%s@{}\n\tfor _, x := range %s {\n\t\theap.Push(h, x)\n\t}\n\tfor h.Len() > 0 && Fuel() {\n\t\tO(\"%s\", heap.Pop(h))\n\t}\n}\n", n, c11IntsLit(p), n)
			}
			g.add("container/heap", "same-underlying-type/named-slice/min-and-max-heap", fmt.Sprint(p)+" order="+order, []string{"container/heap"},
				heapDecl("A", "<")+heapDecl("B", ">"), body.String())
		}
	}
	// io.Reader / io.Writer: two transformations over the same underlying struct
	rd := func(n, tr string) string {
		return "type " + n + "@ struct { s string; pos int }\nfunc (r *" + n + "@) Read(p []byte) (int, error) {\n\tif r.pos >= len(r.s) {\n\t\treturn 0, io.EOF\n\t}\n\tn := 0\n\tfor n < len(p) && n < 2 && r.pos < len(r.s) {\n\t\tp[n] = " + tr + "\n\t\tn++\n\t\tr.pos++\n\t}\n\treturn n, nil\n}\n"
	}
	wr := func(n, tr string) string {
		return "type " + n + "@ struct { got []string }\nfunc (w *" + n + "@) Write(p []byte) (int, error) { w.got = append(w.got, " + tr + "); return len(p), nil }\n"
	}
	for _, order := range []string{"AB", "BA", "ABA"} {
		var body strings.Builder
		for i, ch := range order {
			n := string(ch)
			fmt.Fprintf(&body, "{\n\tbs, err := io.ReadAll(&%s@{s: \"aBc%d\"})\n\tO(\"%s\", string(bs), err)\n}\n", n, i, n)
		}
		g.add("io.ReadAll", "same-underlying-type/interpreted-io.Reader/pointer-receiver", "order="+order, []string{"io"},
			rd("A", "r.s[r.pos]")+rd("B", "r.s[r.pos] ^ 0x20"), body.String())
		body.Reset()
		for i, ch := range order {
			n := string(ch)
			fmt.Fprintf(&body, "{\n\tw := &%s@{}\n\tn, err := fmt.Fprintf(w, \"x%%dy\", %d)\n\tO(\"%s\", n, err, w.got)\n\tn, err = io.WriteString(w, \"zz\")\n\tO(n, err, w.got)\n}\n", n, i, n)
		}
		g.add("fmt.Fprintf", "same-underlying-type/interpreted-io.Writer/pointer-receiver", "order="+order, []string{"fmt", "io", "strings"},
			wr("A", "string(p)")+wr("B", "strings.ToUpper(string(p))"), body.String())
	}
}

// oneTypeManyInterfaces: ONE interpreted type converted to several compiled interfaces, in every order.
func (g *c11Gen) oneTypeManyInterfaces() {
	decl := "type T@ struct{ A int }\nfunc (t T@) String() string { return fmt.Sprintf(\"S<%d>\", t.A) }\nfunc (t T@) Error() string { return fmt.Sprintf(\"E<%d>\", t.A) }\n" +
		"func (t T@) GoString() string { return fmt.Sprintf(\"G<%d>\", t.A) }\nfunc (t T@) Format(st fmt.State, verb rune) { fmt.Fprintf(st, \"F<%d,%c>\", t.A, verb) }\n"
	uses := map[byte]string{
		's': "{\n\tvar i fmt.Stringer = T@{%d}\n\tO(\"s\", i.String(), CallString(i))\n}\n",
		'e': "{\n\tvar i error = T@{%d}\n\tO(\"e\", i.Error(), CallError(i))\n}\n",
		'g': "{\n\tvar i fmt.GoStringer = T@{%d}\n\tO(\"g\", i.GoString(), CallGoString(i))\n}\n",
		'f': "{\n\tvar i fmt.Formatter = T@{%d}\n\tO(\"f\", SprintFormatter(i))\n}\n",
	}
	for _, order := range c11PermStrings("segf") {
		var body strings.Builder
		for i := 0; i < len(order); i++ {
			fmt.Fprintf(&body, uses[order[i]], i+1)
		}
		g.add("fmt.Stringer", "one-type/many-compiled-interfaces{Stringer,error,GoStringer,Formatter}", "order="+order, []string{"fmt"}, decl, body.String())
	}
	// io.Reader, io.Writer, io.ReadWriter, io.ByteReader... of one type (method tables that are prefixes / subsets of each other)
	rw := "type RW@ struct { buf []byte; nr, nw int }\nfunc (b *RW@) Read(p []byte) (int, error) {\n\tb.nr++\n\tif len(b.buf) == 0 {\n\t\treturn 0, io.EOF\n\t}\n\tn := copy(p, b.buf[:1])\n\tb.buf = b.buf[n:]\n\treturn n, nil\n}\n" +
		"func (b *RW@) Write(p []byte) (int, error) { b.nw++; b.buf = append(b.buf, p...); return len(p), nil }\n"
	ioUses := map[byte]string{
		'r': "{\n\tvar r io.Reader = b\n\tp := make([]byte, 4)\n\tn, err := r.Read(p)\n\tO(\"r\", n, err, string(p[:n]))\n}\n",
		'w': "{\n\tvar w io.Writer = b\n\tn, err := io.WriteString(w, \"xy\")\n\tO(\"w\", n, err)\n}\n",
		'b': "{\n\tvar rw io.ReadWriter = b\n\tn, err := rw.Write([]byte(\"q\"))\n\tp := make([]byte, 4)\n\tn2, err2 := rw.Read(p)\n\tO(\"b\", n, err, n2, err2, string(p[:n2]))\n}\n",
	}
	for _, order := range c11PermStrings("rwb") {
		var body strings.Builder
		body.WriteString("b := &RW@{buf: []byte(\"ab\")}\n")
		for i := 0; i < len(order); i++ {
			body.WriteString(ioUses[order[i]])
		}
		body.WriteString("O(b.nr, b.nw, string(b.buf))")
		g.add("io.ReadAll", "one-type/many-compiled-interfaces{Reader,Writer,ReadWriter}", "order="+order, []string{"io"}, rw, body.String())
	}
	// a compiled interface holding an interpreted value is converted to a NARROWER compiled interface
	g.add("io.ReadAll", "compiled-interface-to-narrower-compiled-interface/ReadWriter-to-Reader/argument", "ab", []string{"io"}, rw,
		"b := &RW@{buf: []byte(\"ab\")}\nvar rw io.ReadWriter = b\nbs, err := io.ReadAll(rw)\nO(string(bs), err, b.nr)")
	g.add("io.WriteString", "compiled-interface-to-narrower-compiled-interface/ReadWriter-to-Writer/assignment", "ab", []string{"io"}, rw,
		"b := &RW@{buf: []byte(\"ab\")}\nvar rw io.ReadWriter = b\nvar w io.Writer = rw\nn, err := io.WriteString(w, \"xy\")\nO(n, err, string(b.buf), b.nw)")
	// sort.Interface and heap.Interface (which embeds it) of one type
	hp := "type H@ []int\nfunc (h H@) Len() int { return len(h) }\nfunc (h H@) Less(i, j int) bool { return h[i] < h[j] }\nfunc (h H@) Swap(i, j int) { h[i], h[j] = h[j], h[i] }\n" +
		"func (h *H@) Push(x interface{}) { *h = append(*h, x.(int)) }\nfunc (h *H@) Pop() interface{} { old := *h; n := len(old); x := old[n-1]; *h = old[:n-1]; return x }\n"
	for _, order := range []string{"sort,heap", "heap,sort"} {
		var body strings.Builder
		body.WriteString("h := &H@{3, 1, 2}\n")
		for _, w := range strings.Split(order, ",") {
			if w == "sort" {
				body.WriteString("sort.Sort(sort.Reverse(h))\nO([]int(*h))\nsort.Sort(h)\nO([]int(*h))\n")
			} else {
				body.WriteString("heap.Init(h)\nheap.Push(h, 0)\nO(heap.Pop(h), heap.Pop(h), []int(*h))\n")
			}
		}
		g.add("container/heap", "one-type/many-compiled-interfaces{sort.Interface,heap.Interface}", "order="+order, []string{"container/heap", "sort"}, hp, body.String())
	}
	g.add("sort.Sort", "compiled-interface-to-narrower-compiled-interface/heap.Interface-to-sort.Interface/argument", "[3 1 2]", []string{"container/heap", "sort"}, hp,
		"h := &H@{3, 1, 2}\nvar hi heap.Interface = h\nsort.Sort(hi)\nO([]int(*h), hi.Len())")
	// same underlying type, different RECEIVER kinds and an override of a promoted method
	for _, order := range []string{"AB", "BA"} {
		decls := "type A@ struct{ V int }\nfunc (x A@) String() string { return fmt.Sprint(\"A:\", x.V) }\ntype B@ struct{ V int }\nfunc (x *B@) String() string { x.V++; return fmt.Sprint(\"B:\", x.V) }\n"
		use := map[byte]string{'A': "O(SprintStringer(A@{1}), SprintStringer(&A@{2}))\n", 'B': "pb := &B@{3}\nO(SprintStringer(pb), pb.V)\n"}
		g.add("fmt.Stringer", "same-underlying-type/value-receiver-vs-pointer-receiver", "order="+order, []string{"fmt"}, decls, use[order[0]]+use[order[1]])
		decls = "type In@ struct{ V int }\nfunc (x In@) String() string { return fmt.Sprint(\"In:\", x.V) }\ntype EA@ struct{ In@ }\ntype EB@ struct{ In@ }\nfunc (x EB@) String() string { return fmt.Sprint(\"EB:\", x.V) }\n"
		use = map[byte]string{'A': "O(SprintStringer(EA@{In@{1}}))\n", 'B': "O(SprintStringer(EB@{In@{2}}))\n"}
		g.add("fmt.Stringer", "same-underlying-type/promoted-method-vs-own-method", "order="+order, []string{"fmt"}, decls, use[order[0]]+use[order[1]]+use[order[0]])
	}
}

func c11PermStrings(s string) []string {
	if len(s) <= 1 {
		return []string{s}
	}
	var out []string
	for i := range s {
		for _, rest := range c11PermStrings(s[:i] + s[i+1:]) {
			out = append(out, string(s[i])+rest)
		}
	}
	return out
}

// ---- several closures of one literal, several activations of one callback alive at the same time ---------

// c11Sigs: callback signatures on the type-specialised paths of fast/func*ret*.go and on the generic path
// (funcGeneric: >= 2 results, > 2 parameters, non-basic kinds, variadic).
var c11Sigs = []struct {
	name, params, result, body, call string // body uses the captured/receiver value `c`; call: %s = callback expr, %d = small int
}{
	{"func(int)int", "a int", "int", "return a*10 + c", "%s(%d)"},
	{"func(int,int)bool", "a, b int", "bool", "return (a+b+c)%%2 == 0", "%s(%d, 1)"},
	{"func(int,int)(int,int)", "a, b int", "(int, int)", "return a + c, b * c", "%s(%d, 3)"},
	{"func(string)(string,error)", "s string", "(string, error)", "if c%%2 == 0 { return s, nil }; return s + \"!\", errOdd@", "%s(\"q%d\")"},
	{"func(...int)[]int", "xs ...int", "[]int", "return append([]int{c}, xs...)", "%s(%d, 2)"},
	{"func()(r,s int)/named-results", "", "(r, s int)", "r = c; s = -c; return", "%[1]s()"},
	{"func(struct)struct", "p pt@", "pt@", "return pt@{p.Y + c, p.X}", "%s(pt@{%d, 4})"},
	{"func(int,int,int)int", "a, b, d int", "int", "return a*100 + b*10 + d + c", "%s(%d, 2, 3)"},
}

// closureIdentity: two closures made from ONE function literal with different captured values (and two method
// values of ONE method with different receivers) are used alternately by compiled code; and one callback is
// re-entered through compiled code while an outer activation of the same callback is still running.
func (g *c11Gen) closureIdentity() {
	for _, sg := range c11Sigs {
		sig := "(" + sg.params + ") " + sg.result
		body := strings.ReplaceAll(sg.body, "%%", "%")
		decls := "type pt@ struct{ X, Y int }\nvar errOdd@ = errors.New(\"odd\")\n" +
			"func mk@(c int) func" + sig + " { return func" + sig + " { " + body + " } }\n" +
			"type K@ struct{ c int }\nfunc (k *K@) M" + sig + " { c := k.c; " + body + " }\nfunc (k K@) V" + sig + " { c := k.c; " + body + " }\n"
		call := func(f string, n int) string {
			s := fmt.Sprintf(sg.call, f, n)
			if i := strings.Index(s, "%!(EXTRA"); i >= 0 {
				s = s[:i]
			}
			return "O(" + s + ")"
		}
		for _, shape := range []string{"two-closures-of-one-literal", "two-method-values-of-one-method/pointer-receiver", "two-method-values-of-one-method/value-receiver"} {
			var mk1, mk2 string
			switch shape {
			case "two-closures-of-one-literal":
				mk1, mk2 = "mk@(1)", "mk@(2)"
			case "two-method-values-of-one-method/pointer-receiver":
				mk1, mk2 = "(&K@{1}).M", "(&K@{2}).M"
			default:
				mk1, mk2 = "K@{1}.V", "K@{2}.V"
			}
			// Apply2 is compiled: it calls both callbacks alternately (f, g, f, g) through reflection-free typed thunks
			b := "f, g := " + mk1 + ", " + mk2 + "\n" +
				"Alternate(func() { " + call("f", 1) + " }, func() { " + call("g", 2) + " })\n" +
				call("f", 3) + "\n" + call("g", 4)
			g.add("compiled-caller/Alternate", shape, sg.name, []string{"errors"}, decls, b)
		}
	}
	// the callbacks handed to compiled code directly (typed), two closures of one literal, nested use:
	// the less of an outer sort.Slice runs an inner sort.Slice with the sibling closure
	for _, p := range [][]int{{2, 3, 1}, {3, 1, 2}, {1, 3, 2, 4}} {
		lit := c11IntsLit(p)
		g.add("sort.Slice", "two-closures-of-one-literal/nested-in-each-other", fmt.Sprint(p), []string{"sort"},
			"func mk@(x []int, desc bool, inner func()) func(i, j int) bool {\n\treturn func(i, j int) bool {\n\t\tif inner != nil {\n\t\t\tinner()\n\t\t}\n\t\tif desc {\n\t\t\treturn x[i] > x[j]\n\t\t}\n\t\treturn x[i] < x[j]\n\t}\n}\n",
			"x := "+lit+"\ny := "+lit+"\nn := 0\ninner := func() {\n\tn++\n\tz := "+lit+"\n\tsort.Slice(z, mk@(z, true, nil))\n\tif n == 1 {\n\t\tO(z)\n\t}\n}\n"+
				"sort.Slice(x, mk@(x, false, inner))\nsort.Slice(y, mk@(y, true, nil))\nO(x, y, n > 0)")
		g.add("sort.Sort", "same-underlying-type/Less-of-one-type-sorts-the-other-type", fmt.Sprint(p), []string{"sort"},
			"type A@ []int\nfunc (s A@) Len() int { return len(s) }\nfunc (s A@) Less(i, j int) bool {\n\tif depth@ == 0 {\n\t\tdepth@++\n\t\tb := B@("+lit+")\n\t\tsort.Sort(b)\n\t\tlast@ = []int(b)\n\t\tdepth@--\n\t}\n\treturn s[i] < s[j]\n}\nfunc (s A@) Swap(i, j int) { s[i], s[j] = s[j], s[i] }\n"+
				"type B@ []int\nfunc (s B@) Len() int { return len(s) }\nfunc (s B@) Less(i, j int) bool { return s[i] > s[j] }\nfunc (s B@) Swap(i, j int) { s[i], s[j] = s[j], s[i] }\nvar depth@ int\nvar last@ []int\n",
			"a := A@("+lit+")\nsort.Sort(a)\nO([]int(a), last@)")
	}
	// re-entrancy through compiled code: strings.Map's callback calls strings.Map with ITSELF on a shorter string
	// (two activations of the same closure, with different arguments, alive at once; results combined afterwards)
	for _, s := range []string{"a", "aB", "aBc", "abcd"} {
		g.add("strings.Map", "callback-re-entered-through-compiled-code", fmt.Sprintf("%q", s), []string{"strings"}, "",
			"var trace []string\nvar f func(r rune) rune\ndepth := 0\nf = func(r rune) rune {\n\tres := r + rune(depth)\n\tif depth < 2 {\n\t\tdepth++\n\t\tinner := strings.Map(f, string(r)+\"x\")\n\t\tdepth--\n\t\ttrace = append(trace, inner)\n\t}\n\treturn res\n}\nO(strings.Map(f, "+fmt.Sprintf("%q", s)+"), trace)")
		g.add("compiled-caller/CallMulti", "callback-re-entered-through-compiled-code/multiple-results", fmt.Sprintf("%q", s), []string{"errors"},
			"var errOdd@ = errors.New(\"odd\")\n",
			"var f func(s string, n int, b bool) (int, string, error)\nf = func(s string, n int, b bool) (int, string, error) {\n\tif n > 0 && len(s) < 6 {\n\t\tinner := CallMulti(f, s+\"-\", n-1)\n\t\treturn n, inner, nil\n\t}\n\tif b {\n\t\treturn n + len(s), s + \"!\", nil\n\t}\n\treturn -n, s, errOdd@\n}\nO(CallMulti(f, "+fmt.Sprintf("%q", s)+", 2))")
	}
}
