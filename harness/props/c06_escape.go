package props

// C06 family "escape": things (closures, pointers) that keep a frame's variable alive after the frame's function
// returned, followed by intervening calls that recycle frames, then used (read and written) twice.

import (
	"fmt"
	"strings"

	"verif/harness/core"
	"verif/harness/oracle"
)

type c06Esc struct {
	VK    c06K // kind of the captured variable (int, named: integer slot; string, struct: boxed)
	Scope int  // index in c06Scopes
	Thing int  // 0..3: closure nested that many function literals below the variable's frame; 4: pointer; 5: method value v.PM bound to &v (named/struct only)
	CS    int  // closure signature, index in c06CSigs (0 for pointers)
	Route int  // index in c06Routes
	// Nest (optional, overrides Scope) = "owner@chain": the variable has storage class owner (c06Owners) and the thing
	// is created inside the chain of nested frames (c06_nest.go), e.g. "param@for.blk".
	Nest string
}

var (
	c06Scopes = []string{"param", "local", "block", "loop", "forvar", "blockret"}
	c06CSigs  = []string{"get", "set", "upd", "set2", "gen"}
	c06Routes = []string{"ret", "slice", "global"}
)

func (e c06Esc) thingName() string {
	if e.Thing == 4 {
		return "ptr"
	}
	if e.Thing == 5 {
		return "pmv"
	}
	return fmt.Sprintf("clo%d-%s", e.Thing, c06CSigs[e.CS])
}

func (e c06Esc) scopeName() string {
	if e.Nest != "" {
		return e.Nest
	}
	return c06Scopes[e.Scope]
}

func (e c06Esc) class() string {
	return e.thingName() + "/" + e.VK.name() + "/" + e.scopeName()
}

func (e c06Esc) String() string { return e.class() + "/" + c06Routes[e.Route] }

func (e c06Esc) nproducts() int {
	if e.Nest != "" {
		return 1
	}
	if c06Scopes[e.Scope] == "loop" || c06Scopes[e.Scope] == "forvar" {
		return 2
	}
	return 1
}

// xtype is the type of the escaping thing.
func (e c06Esc) xtype(id string) string {
	t := e.VK.typ(id)
	if e.Thing == 4 {
		return "*" + t
	}
	if e.Thing == 5 {
		return "func(" + t + ") " + t
	}
	switch c06CSigs[e.CS] {
	case "get":
		return "func() " + t
	case "set":
		return "func(" + t + ")"
	case "upd":
		return "func(" + t + ") " + t
	case "set2":
		return "func(" + t + ", " + t + ")"
	}
	return "func() (" + t + ", int)"
}

// thing is the expression creating the escaping thing for variable v.
func (e c06Esc) thing(id, v string) string {
	if e.Thing == 4 {
		return "&" + v
	}
	if e.Thing == 5 {
		return v + ".PM" // pointer-receiver method of an addressable variable: binds &v
	}
	t := e.VK.typ(id)
	var lit string
	switch c06CSigs[e.CS] {
	case "get":
		lit = fmt.Sprintf("func() %s {\nold := %s\n%s\nreturn old\n}", t, v, e.VK.next(v))
	case "set":
		lit = fmt.Sprintf("func(n %s) {\nO(%s)\n%s = n\n}", t, v, v)
	case "upd":
		lit = fmt.Sprintf("func(n %s) %s {\nold := %s\n%s = n\nreturn old\n}", t, t, v, v)
	case "set2":
		lit = fmt.Sprintf("func(a, b %s) {\nO(%s)\n%s = a\n_ = b\n}", t, v, v)
	default:
		lit = fmt.Sprintf("func() (%s, int) {\nold := %s\n%s\nreturn old, %s\n}", t, v, e.VK.next(v), e.VK.dig(v))
	}
	for d := 0; d < e.Thing; d++ {
		lit = fmt.Sprintf("func() %s {\nw%d := %d\n_ = w%d\nreturn %s\n}()", e.xtype(id), d, d+1, d, lit)
	}
	return lit
}

// use is the statement(s) using product x for the u-th time.
func (e c06Esc) use(id, x string, u int) string {
	a, b := e.VK.lit(id, 200+u), e.VK.lit(id, 300+u)
	if e.Thing == 4 {
		return fmt.Sprintf("O(*%s)\n*%s = %s", x, x, a)
	}
	if e.Thing == 5 {
		return fmt.Sprintf("O(%s(%s))", x, a)
	}
	switch c06CSigs[e.CS] {
	case "get", "gen":
		return fmt.Sprintf("O(%s())", x)
	case "set":
		return fmt.Sprintf("%s(%s)", x, a)
	case "upd":
		return fmt.Sprintf("O(%s(%s))", x, a)
	}
	return fmt.Sprintf("%s(%s, %s)", x, a, b)
}

// maker writes the package-level declarations of maker m ("A","B","C") for spec e.
func (e c06Esc) maker(d *cw, id, m string) {
	X := e.xtype(id)
	kt := e.VK.typ(id)
	np := e.nproducts()
	route := c06Routes[e.Route]
	switch route {
	case "slice":
		d.f("var GS%s_%s []%s", m, id, X)
	case "global":
		d.f("var GA%s_%s, GB%s_%s %s", m, id, m, id, X)
	}
	res := ""
	if route == "ret" {
		res = " " + X
		if np == 2 {
			res = " (" + X + ", " + X + ")"
		}
	}
	deliver := func(xs ...string) string {
		switch route {
		case "ret":
			return "return " + strings.Join(xs, ", ")
		case "slice":
			return fmt.Sprintf("GS%s_%s = append(GS%s_%s, %s)", m, id, m, id, strings.Join(xs, ", "))
		}
		if len(xs) == 2 {
			return fmt.Sprintf("GA%s_%s, GB%s_%s = %s, %s", m, id, m, id, xs[0], xs[1])
		}
		return fmt.Sprintf("GA%s_%s = %s", m, id, xs[0])
	}
	if e.Nest != "" {
		owner, chain := e.Nest, ""
		if i := strings.Index(owner, "@"); i >= 0 {
			owner, chain = owner[:i], owner[i+1:]
		}
		if owner == "result" {
			if route == "ret" {
				res = " (x " + X + ", rv " + kt + ")"
			} else {
				res = " (rv " + kt + ")"
			}
		}
		if owner == "global" {
			d.f("var gv%s_%s %s", m, id, kt)
		}
		d.f("func mk%s_%s(seed int, pv %s)%s {", m, id, kt, res)
		d.f("k := seed + 1\n_ = k")
		if !(owner == "result" && route == "ret") {
			d.f("var x %s", X)
		}
		v, closeOwner := "v", ""
		switch owner {
		case "param":
			v = "pv"
		case "local":
			d.f("v := %s", e.VK.from(id, "seed"))
		case "result":
			v = "rv"
			d.f("rv = %s", e.VK.from(id, "seed"))
		case "global": // file-level variable: both products of the maker legitimately alias it
			v = fmt.Sprintf("gv%s_%s", m, id)
			d.f("%s = %s", v, e.VK.from(id, "seed"))
		case "blockvar":
			d.f("{\nv := %s\nw0 := 5\n_ = w0", e.VK.from(id, "seed"))
			closeOwner = "}"
		case "forvar":
			d.f("for i0, v := 0, (%s); i0 < 1; i0++ {", e.VK.from(id, "seed"))
			closeOwner = "}"
		default:
			panic("owner " + owner)
		}
		op, cl := c06Chain(chain)
		if op != "" {
			d.f("%s", op)
		}
		d.f("x = %s", e.thing(id, v))
		if cl != "" {
			d.f("%s", cl)
		}
		if closeOwner != "" {
			d.f("%s", closeOwner)
		}
		switch {
		case owner == "result" && route == "ret":
			d.f("return x, rv")
		case owner == "result":
			d.f("%s\nreturn rv", deliver("x"))
		default:
			d.f("%s", deliver("x"))
		}
		d.f("}")
		return
	}
	d.f("func mk%s_%s(seed int, pv %s)%s {", m, id, kt, res)
	d.f("k := seed + 1\n_ = k")
	switch c06Scopes[e.Scope] {
	case "param":
		d.f("x := %s\n%s", e.thing(id, "pv"), deliver("x"))
	case "local":
		d.f("v := %s\nx := %s\n%s", e.VK.from(id, "seed"), e.thing(id, "v"), deliver("x"))
	case "block":
		d.f("var x %s\n{\nv := %s\nw := 5\n_ = w\nx = %s\n}\n%s", X, e.VK.from(id, "seed"), e.thing(id, "v"), deliver("x"))
	case "blockret":
		d.f("{\nv := %s\nw := 5\n_ = w\nx := %s\n%s", e.VK.from(id, "seed"), e.thing(id, "v"), deliver("x"))
		if route != "ret" {
			d.f("return")
		}
		d.f("}")
	case "loop":
		d.f("var xs [2]%s\nfor i := 0; i < 2; i++ {\nv := %s\nxs[i] = %s\n}\n%s", X, e.VK.from(id, "seed+i"), e.thing(id, "v"), deliver("xs[0]", "xs[1]"))
	case "forvar":
		d.f("var xs [2]%s\nfor i, v := 0, (%s); i < 2; i++ {\nxs[i] = %s\n}\n%s", X, e.VK.from(id, "seed"), e.thing(id, "v"), deliver("xs[0]", "xs[1]"))
	}
	d.f("}")
}

// obtain writes the statements of P calling maker m and binding the products to local names; returns the names.
func (e c06Esc) obtain(w *cw, id, m string, el, seed int) []string {
	np := e.nproducts()
	names := []string{fmt.Sprintf("e%da", el)}
	if np == 2 {
		names = append(names, fmt.Sprintf("e%db", el))
	}
	call := fmt.Sprintf("mk%s_%s(%d, %s)", m, id, seed, e.VK.from(id, fmt.Sprint(seed+3)))
	switch c06Routes[e.Route] {
	case "ret":
		if strings.HasPrefix(e.Nest, "result") {
			w.f("%s, _ := %s", names[0], call)
		} else {
			w.f("%s := %s", strings.Join(names, ", "), call)
		}
	case "slice":
		w.f("%s", call)
		g := fmt.Sprintf("GS%s_%s", m, id)
		if np == 2 {
			w.f("%s := %s[len(%s)-2], %s[len(%s)-1]", strings.Join(names, ", "), g, g, g, g)
		} else {
			w.f("%s := %s[len(%s)-1]", names[0], g, g)
		}
	default:
		w.f("%s", call)
		if np == 2 {
			w.f("%s := GA%s_%s, GB%s_%s", strings.Join(names, ", "), m, id, m, id)
		} else {
			w.f("%s := GA%s_%s", names[0], m, id)
		}
	}
	return names
}

// intervening calls

type c06IV struct {
	Rec bool
	K   int
}

func (iv c06IV) String() string {
	if iv.K == 0 {
		return "none"
	}
	if iv.Rec {
		return fmt.Sprintf("rec%d", iv.K)
	}
	return fmt.Sprintf("seq%d", iv.K)
}

func c06IVs(ks []int) []c06IV {
	ivs := []c06IV{{false, 0}}
	for _, rec := range []bool{false, true} {
		for _, k := range ks {
			if k > 0 {
				ivs = append(ivs, c06IV{rec, k})
			}
		}
	}
	return ivs
}

func (iv c06IV) write(w *cw, id string) {
	if iv.K == 0 {
		return
	}
	if iv.Rec {
		w.f("O(rec_%s(%d))", id, iv.K)
		return
	}
	w.f("acc = 0\nfor i := 0; i < %d; i++ {\nacc += un_%s(i)\n}\nO(acc)", iv.K, id)
}

func c06IVDecls(d *cw, id string) {
	d.f("func un_%s(i int) int {\n\ta, b, c, d := i+1000, i+2000, i+3000, i+4000\n\ts, t, u := \"cs\", \"ct\", \"cu\"\n\tq := T_%s{a, s}\n\treturn a + b + c + d + len(s) + len(t) + len(u) + q.A\n}", id, id)
	d.f("func rec_%s(n int) int {\n\ta, b := n+5000, n+6000\n\ts := \"cr\"\n\tif n <= 1 {\n\t\treturn a + b + len(s)\n\t}\n\tr := rec_%s(n - 1)\n\treturn r + a - b + len(s)\n}", id, id)
}

// c06EscapeProgram builds the program: obtain every element (with intervening calls after each), then two rounds
// of uses (with intervening calls after each round). Equal specs share one maker function (A-B-A call orders).
func c06EscapeProgram(id string, els []c06Esc, iv c06IV) oracle.Prog {
	var d, w cw
	d.f("%s", c06Prelude(id))
	c06IVDecls(&d, id)
	var classes, routes []string
	makerOf := map[c06Esc]string{}
	pmDone := map[c06K]bool{}
	for _, e := range els {
		if e.Thing == 5 && !pmDone[e.VK] {
			pmDone[e.VK] = true
			t := e.VK.typ(id)
			d.f("func (r *%s) PM(n %s) %s {\n\told := *r\n\t*r = n\n\treturn old\n}", t, t, t)
		}
		classes = append(classes, e.class())
		routes = append(routes, c06Routes[e.Route])
		if _, ok := makerOf[e]; !ok {
			m := string(rune('A' + len(makerOf)))
			makerOf[e] = m
			e.maker(&d, id, m)
		}
	}
	fam := "escape"
	if len(els) > 1 {
		fam = fmt.Sprintf("escape%d", len(els))
	}
	w.f("// %s|%s|route=%s|iv=%s", fam, strings.Join(classes, "+"), strings.Join(routes, "+"), iv)
	w.f("acc := 0\n_ = acc")
	type prod struct {
		e    c06Esc
		name string
	}
	var prods []prod
	for i, e := range els {
		w.f("S(\"@make%d\")", i+1)
		for _, n := range e.obtain(&w, id, makerOf[e], i+1, 10*(i+1)) {
			prods = append(prods, prod{e, n})
		}
		iv.write(&w, id)
	}
	u := 0
	for round := 1; round <= 2; round++ {
		for _, p := range prods {
			u++
			w.f("S(\"@use%d-%s\")", round, p.name)
			w.f("%s", p.e.use(id, p.name, u))
		}
		iv.write(&w, id)
	}
	// final read-out of every product
	for _, p := range prods {
		u++
		w.f("S(\"@final-%s\")", p.name)
		w.f("%s", p.e.use(id, p.name, u))
	}
	return oracle.Prog{ID: id, Decls: d.String(), Body: w.String()}
}

func c06AllEscapes(kinds []c06K) []c06Esc {
	var out []c06Esc
	for _, vk := range kinds {
		for sc := range c06Scopes {
			for th := 0; th <= 5; th++ {
				ncs := len(c06CSigs)
				if th >= 4 {
					ncs = 1
				}
				if th == 5 && vk != c06Named && vk != c06Struct {
					continue // a pointer-receiver method value needs a declared type
				}
				for cs := 0; cs < ncs; cs++ {
					for rt := range c06Routes {
						out = append(out, c06Esc{vk, sc, th, cs, rt, ""})
					}
				}
			}
		}
	}
	return out
}

// c06Reduced is the alphabet of the 2- and 3-element combinations: one representative per protection mechanism
// (closure stub kind × depth, int-slot vs boxed pointer, nested-frame scopes, routes). Quick uses the first 8.
var c06Reduced = []c06Esc{
	{c06Int, 1, 0, 0, 0, ""},    // clo0-get int local ret
	{c06Str, 2, 2, 1, 1, ""},    // clo2-set string block slice
	{c06Int, 1, 4, 0, 0, ""},    // ptr int local ret
	{c06Str, 2, 4, 0, 2, ""},    // ptr string block global
	{c06Int, 3, 1, 4, 0, ""},    // clo1-gen int loop ret
	{c06Int, 0, 3, 2, 2, ""},    // clo3-upd int param global
	{c06Int, 3, 4, 0, 1, ""},    // ptr int loop slice
	{c06Int, 4, 0, 3, 0, ""},    // clo0-set2 int forvar ret
	{c06Struct, 1, 0, 0, 0, ""}, // clo0-get struct local ret
	{c06Named, 5, 4, 0, 0, ""},  // ptr named blockret ret
	{c06Str, 0, 1, 2, 1, ""},    // clo1-upd string param slice
	{c06Int, 5, 2, 0, 2, ""},    // clo2-get int blockret global
	{c06Named, 2, 0, 1, 0, ""},  // clo0-set named block ret
	{c06Struct, 3, 4, 0, 1, ""}, // ptr struct loop slice
	{c06Int, 2, 3, 3, 0, ""},    // clo3-set2 int block ret
	{c06Str, 4, 1, 4, 2, ""},    // clo1-gen string forvar global
}

func c06EscapePrograms(c *core.Ctx) []oracle.Prog {
	var progs []oracle.Prog
	kinds := c06Kinds
	ivs := c06IVs([]int{1, 31, 32, 33, 64})
	civs := ivs
	red := c06Reduced
	if c.Quick() {
		kinds = []c06K{c06Int, c06Str}
		ivs = []c06IV{{false, 0}, {false, 1}, {false, 32}, {false, 33}, {true, 33}, {true, 64}}
		civs = []c06IV{{false, 1}, {true, 33}}
		red = c06Reduced[:8]
	}
	n := 0
	for _, e := range c06AllEscapes(kinds) {
		for _, iv := range ivs {
			n++
			progs = append(progs, c06EscapeProgram(fmt.Sprintf("e1x%d", n), []c06Esc{e}, iv))
		}
	}
	for _, e1 := range red {
		for _, e2 := range red {
			for _, iv := range civs {
				n++
				progs = append(progs, c06EscapeProgram(fmt.Sprintf("e2x%d", n), []c06Esc{e1, e2}, iv))
			}
			for _, e3 := range red {
				for _, iv := range civs {
					n++
					progs = append(progs, c06EscapeProgram(fmt.Sprintf("e3x%d", n), []c06Esc{e1, e2, e3}, iv))
				}
			}
		}
	}
	progs = append(progs, c06NestedEscapePrograms(c)...)
	return progs
}

// c06NestedEscapePrograms: family "escape2" over the structured scopes owner@chain (c06_nest.go). Every program
// calls ONE maker twice with different seeds (the second call reuses the frames of the first), with intervening
// calls, and uses both products twice: a frame that was recycled although a pointer / closure / bound method
// still refers to one of its slots shows up as aliasing between the two products, or as a poisoned value.
//
//	A. address of a variable: every kind (4 + the 15 other integer-slot kinds) × every distance 0..4 between the
//	   owner frame and the frame of the & operator (the specialisations of fast/address.go are indexed by exactly
//	   this pair); owner, chain of that depth and route rotate.
//	B. every owner × every chain of the alphabet for the things {pointer, closure, pointer-receiver method value},
//	   kinds rotating.
//
// thorough: every kind × owner × chain (all 64 pairs of wrappers) for pointers, and B with all closure signatures.
func c06NestedEscapePrograms(c *core.Ctx) []oracle.Prog {
	var progs []oracle.Prog
	n := 0
	ivs := []c06IV{{false, 1}, {true, 33}, {false, 33}}
	add := func(e c06Esc) {
		n++
		progs = append(progs, c06EscapeProgram(fmt.Sprintf("enx%d", n), []c06Esc{e, e}, ivs[n%len(ivs)]))
	}
	owners := c06Owners
	if c.Thorough() {
		for _, vk := range c06AllKinds {
			for _, ow := range owners {
				for _, ch := range c06Chains(true) {
					n++
					add(c06Esc{VK: vk, Thing: 4, Route: n % len(c06Routes), Nest: ow + "@" + ch})
				}
			}
		}
	} else {
		for ki, vk := range c06AllKinds {
			for depth := 0; depth <= 4; depth++ {
				chs := c06ExactChainsOfDepth(depth)
				ch := chs[ki%len(chs)]
				ow := owners[(ki+depth)%len(owners)]
				add(c06Esc{VK: vk, Thing: 4, Route: (ki + depth) % len(c06Routes), Nest: ow + "@" + ch})
			}
		}
	}
	// file-level variables (the "file" specialisations of fast/address.go): every kind, the depth of the site rotating
	for ki, vk := range c06AllKinds {
		depths := []int{ki % 5}
		if c.Thorough() {
			depths = []int{0, 1, 2, 3, 4}
		}
		for _, depth := range depths {
			chs := c06ChainsOfDepth(depth)
			add(c06Esc{VK: vk, Thing: 4, Route: ki % len(c06Routes), Nest: "global@" + chs[ki%len(chs)]})
		}
	}
	rot := []c06K{c06Int, c06Uint64, c06Float64, c06Bool, c06Complex128, c06Int8, c06Str, c06Uint16}
	i := 0
	for _, ow := range owners {
		for _, ch := range c06Chains(false) {
			i++
			if !c.Thorough() { // thorough has the full pointer product above
				add(c06Esc{VK: rot[i%len(rot)], Thing: 4, Route: i % len(c06Routes), Nest: ow + "@" + ch})
			}
			if c.Thorough() || c06ChainDepth(ch) <= 1 {
				css := []int{i % len(c06CSigs)}
				if c.Thorough() {
					css = []int{0, 1, 2, 3, 4}
				}
				for _, cs := range css {
					add(c06Esc{VK: []c06K{c06Int, c06Str}[i%2], Thing: i % 2, CS: cs, Route: i % len(c06Routes), Nest: ow + "@" + ch})
				}
			}
			if c.Thorough() || c06ChainDepth(ch) <= 2 {
				add(c06Esc{VK: []c06K{c06Named, c06Struct}[i%2], Thing: 5, Route: i % len(c06Routes), Nest: ow + "@" + ch})
			}
		}
	}
	return progs
}
