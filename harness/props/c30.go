package props

// C30 — converting std go/types package descriptions into gomacro's forked go/types representation
// (go/types/converter.go, xreflect/importer.go) preserves every exported object.
//
// Domain: every package of `go list std` (quick: a fixed subset of 45 chosen for variety) loaded
// offline from source (go/importer "source") and from export data (go/importer "gc", which is what
// xreflect.DefaultImporter uses); every exported object of the package scope; generic declarations
// and objects whose visible type mentions generics are excluded and counted.
// Oracle: the std *types.Package itself, compared in lock-step with the converted package (c30_cmp.go).
// Orders/entry points: fresh converter; shared converter with all dependencies converted first;
// package first and dependencies afterwards (re-checked after every later conversion); Package()
// called twice; one converter over the whole package list in alphabetical and in reverse order;
// types.Converter directly on the export-data package vs xreflect.Importer.ImportFrom / Import
// (fresh importer, and importer that imported some dependencies first). All must give the same result.

import (
	"encoding/json"
	"fmt"
	"go/build"
	"go/importer"
	"go/token"
	"go/types"
	"io"
	"io/ioutil"
	"os"
	"os/exec"
	"path/filepath"
	"regexp"
	"sort"
	"strings"
	"time"

	"github.com/cosmos72/gomacro/go/etoken"
	ftypes "github.com/cosmos72/gomacro/go/types"
	"github.com/cosmos72/gomacro/xreflect"

	"verif/harness/core"
)

func init() {
	core.Register(&core.Check{ID: "C30", Level: "exploration", Workers: 8, Prepare: c30Prepare, Run: c30Run, Replay: c30Replay})
}

var c30QuickPkgs = []string{
	"bufio", "bytes", "container/heap", "container/list", "context", "crypto/tls", "database/sql",
	"encoding/binary", "encoding/json", "errors", "flag", "fmt", "go/ast", "go/types", "hash/crc32",
	"html/template", "image", "image/color", "io", "iter", "log", "maps", "math", "math/big", "net",
	"net/http", "net/url", "os", "os/exec", "path/filepath", "reflect", "regexp", "runtime", "slices",
	"sort", "strconv", "strings", "sync", "sync/atomic", "syscall", "text/template", "time", "unicode",
	"unsafe", "cmp",
}

type c30World struct {
	c         *core.Ctx
	fset      *token.FileSet
	src       types.Importer // go/importer "source": type-checks GOROOT sources, shared by the whole process
	gc        types.Importer // independent go/importer "gc" instance: the oracle for the xreflect.Importer scenarios
	out       *os.File       // capture of the converter's "skipping import" warnings (it prints to os.Stdout)
	tier      string
	only      string // replay filters
	onlySc    string
	onlyK     string
	list      []string
	exports   map[string]string
	refFailed map[string]bool // reference scenario of the current package had lock-step mismatches
}

func newC30World(c *core.Ctx) *c30World {
	w := &c30World{c: c, fset: token.NewFileSet(), tier: c.Tier}
	// cgo files would need gcc at load time; the pure-Go variants of the std packages are used on the source side
	build.Default.CgoEnabled = false
	w.src = importer.ForCompiler(w.fset, "source", nil)
	w.gc = importer.ForCompiler(w.fset, "gc", w.lookup)
	dir := filepath.Join(core.VerifDir, "work", "C30")
	os.MkdirAll(dir, 0o755)
	f, err := ioutil.TempFile(dir, "stdout-*.txt")
	if err != nil {
		panic(err)
	}
	w.out = f
	return w
}

// c30ExportsFile lists `import path=export data file` for every std package: written once by Prepare
// (one `go list -export std`), so that the oracle's gc importer needs no `go list` call per package.
func c30ExportsFile() string { return filepath.Join(core.VerifDir, "work", "C30", "exports.txt") }

func c30Prepare(c *core.Ctx) error {
	os.MkdirAll(filepath.Dir(c30ExportsFile()), 0o755)
	cmd := exec.Command("go", "list", "-export", "-f", "{{.ImportPath}}={{.Export}}", "std")
	cmd.Env = append(os.Environ(), "GOFLAGS=-mod=mod", "GOPROXY=off", "GOSUMDB=off", "GOTOOLCHAIN=local")
	out, err := cmd.Output()
	if err != nil {
		return fmt.Errorf("go list -export std: %v", err)
	}
	return ioutil.WriteFile(c30ExportsFile(), out, 0o644)
}

func (w *c30World) lookup(path string) (io.ReadCloser, error) {
	if w.exports == nil {
		data, err := ioutil.ReadFile(c30ExportsFile())
		if err != nil {
			if err = c30Prepare(w.c); err == nil {
				data, err = ioutil.ReadFile(c30ExportsFile())
			}
			if err != nil {
				return nil, err
			}
		}
		w.exports = map[string]string{}
		for _, line := range strings.Split(string(data), "\n") {
			if i := strings.Index(line, "="); i > 0 {
				w.exports[line[:i]] = line[i+1:]
			}
		}
	}
	file := w.exports[path]
	if file == "" {
		return nil, fmt.Errorf("no export data for %q", path)
	}
	return os.Open(file)
}

func (w *c30World) close() {
	if w.out != nil {
		w.out.Close()
		os.Remove(w.out.Name())
	}
}

// capture runs f with os.Stdout redirected to a file and returns what was printed.
func (w *c30World) capture(f func()) string {
	w.out.Truncate(0)
	w.out.Seek(0, 0)
	saved := os.Stdout
	os.Stdout = w.out
	func() {
		defer func() { os.Stdout = saved }()
		f()
	}()
	w.out.Seek(0, 0)
	data, _ := ioutil.ReadAll(w.out)
	return string(data)
}

func c30StdList() ([]string, error) {
	cmd := exec.Command("go", "list", "std")
	cmd.Env = append(os.Environ(), "GOFLAGS=-mod=mod", "GOPROXY=off", "GOSUMDB=off", "GOTOOLCHAIN=local")
	out, err := cmd.Output()
	if err != nil {
		return nil, fmt.Errorf("go list std: %v", err)
	}
	l := strings.Fields(string(out))
	sort.Strings(l)
	return l, nil
}

func (w *c30World) packages() []string {
	if w.list != nil {
		return w.list
	}
	if w.tier != "thorough" {
		l := append([]string{}, c30QuickPkgs...)
		sort.Strings(l)
		w.list = l
		return l
	}
	l, err := c30StdList()
	if err != nil {
		panic(err)
	}
	w.list = l
	return l
}

func c30Declare(c *core.Ctx) {
	c.Rule("distinct (package, exported object) compared whose type is composite or a defined type with methods/struct/interface underlying, or a constant with a non-zero value (plain vars/consts of basic type with zero value are trivial)")
	c.Assume(
		"oracle = the std go/types package handed to the converter (source importer, CgoEnabled=false) or an equal one loaded by an independent gc-importer instance (xreflect.Importer does not expose its input)",
		"harness module is `go 1.18`: gotypesalias=0, std go/types produces no *types.Alias nodes (measured: alias_nodes_seen); types.Unalias is applied anyway",
		"excluded and counted: builtins of package unsafe, generic functions/types, constraint interfaces, objects whose visible type mentions a type parameter or an instantiated generic type; below a non-generic object the walk stops at instantiated/generic nodes",
		"documented representation differences encoded in the comparison: byte/rune become uint8/int32 (converter maps basic types by kind), `any` prints as interface{}, interface embeddeds are ordered by unique type name, converted packages have no Imports()/Complete flag and positions are not compared",
		"etoken.GENERICS = GENERICS_NONE (package default) for all scenarios; one extra scenario converts with GENERICS_V2_CTI (gomacro's main sets it) where predeclared contract methods without package are ignored unless they replace a declared method",
	)
}

func c30Run(c *core.Ctx) {
	c30Declare(c)
	w := newC30World(c)
	defer w.close()
	pkgs := w.packages()
	c.Set("packages_in_tier", len(pkgs))
	c.Count("alias_nodes_seen", 0)
	for i, path := range pkgs {
		if !c.Mine(i) {
			continue
		}
		if c.Expired() {
			return
		}
		w.checkPackage(path, i)
	}
	// whole-list orders on one shared converter: two extra work items
	for k, sc := range []string{"all/alphabetical", "all/reverse"} {
		if !c.Mine(len(pkgs) + k) {
			continue
		}
		if c.Expired() {
			return
		}
		w.checkAll(sc)
	}
}

// ---------------------------------------------------------------------------

func (w *c30World) want(scenario string) bool {
	if os.Getenv("C30_DEBUG") != "" {
		fmt.Fprintf(os.Stderr, "C30_DEBUG %s +%.2fs\n", scenario, time.Since(w.c.Start).Seconds())
	}
	return w.onlySc == "" || w.onlySc == scenario
}

func c30NewConverter() *ftypes.Converter {
	conv := &ftypes.Converter{}
	conv.Init(ftypes.Universe)
	return conv
}

// convert calls Converter.Package and returns the converted package, the warnings printed and a recovered panic.
func (w *c30World) convert(conv *ftypes.Converter, g *types.Package) (fp *ftypes.Package, warnings string, pnc interface{}) {
	warnings = w.capture(func() {
		pnc = core.Catch(func() { fp = conv.Package(g) })
	})
	if pnc != nil && os.Getenv("C30_DEBUG") != "" {
		fmt.Fprintf(os.Stderr, "C30_DEBUG panic converting %s: %v\n", g.Path(), pnc)
	}
	return
}

// convertDep converts a package that is not itself under check in this scenario; a panic escaping
// Converter.Package is reported (once per converter: afterwards the converter is unusable).
func (w *c30World) convertDep(m *c30Cmp, conv *ftypes.Converter, g *types.Package) (fp *ftypes.Package, warnings string, pnc interface{}) {
	fp, warnings, pnc = w.convert(conv, g)
	if pnc != nil && !m.dead {
		m.dead = true
		saved := m.pkg
		m.pkg, m.object, m.only, m.onlyKind = g.Path(), "", w.only, w.onlyK
		m.fail("convert-panic", c30PanicClass(pnc), g.Path(), "a converted package", fmt.Sprintf("Converter.Package panicked: %v", pnc))
		m.pkg = saved
	}
	return
}

func c30PanicClass(p interface{}) string {
	s := fmt.Sprint(p)
	if len(s) > 50 {
		s = s[:50]
	}
	return s
}

// deps returns the transitive imports of g, dependencies first (deterministic DFS post-order), without g.
func c30Deps(g *types.Package) []*types.Package {
	var out []*types.Package
	seen := map[*types.Package]bool{g: true}
	var visit func(p *types.Package)
	visit = func(p *types.Package) {
		imps := append([]*types.Package{}, p.Imports()...)
		sort.Slice(imps, func(i, j int) bool { return imps[i].Path() < imps[j].Path() })
		for _, q := range imps {
			if !seen[q] {
				seen[q] = true
				visit(q)
				out = append(out, q)
			}
		}
	}
	visit(g)
	return out
}

var c30WarnRe = regexp.MustCompile(`^// warning: skipping import of (func|type|var|const) ([^\s\[(]+)[\s\[(]`)

// a method of a generic type: "func (*pkg/path.T[P]).Name(...)"; the receiver shows its type parameters
var c30WarnMethodRe = regexp.MustCompile(`^// warning: skipping import of func \(\*?[^\s\[()]+\[[^()]*\]\)\.`)

// check compares the whole exported scope of g with fp.
func (w *c30World) check(m *c30Cmp, g *types.Package, fp *ftypes.Package, warnings string, pnc interface{}) []string {
	m.pkg = g.Path()
	m.object = ""
	m.only = w.only
	m.onlyKind = w.onlyK
	if pnc != nil {
		if !m.dead {
			m.dead = true
			m.fail("convert-panic", c30PanicClass(pnc), g.Path(), "a converted package", fmt.Sprintf("Converter.Package panicked: %v", pnc))
		}
		return nil
	}
	if m.dead {
		m.count("checks_skipped_converter_dead_after_panic", 1)
		return nil
	}
	if fp == nil {
		m.fail("convert-nil", "", g.Path(), "a converted package", "nil")
		return nil
	}
	if fp.Path() != g.Path() || fp.Name() != g.Name() {
		m.fail("package-name", "", g.Path(), g.Path()+" "+g.Name(), fp.Path()+" "+fp.Name())
	}
	m.pkgSame(g, fp, g.Path())
	scope := g.Scope()
	excluded := map[string]string{}
	nExported := 0
	for _, name := range scope.Names() {
		obj := scope.Lookup(name)
		if _, isAlias := obj.Type().(*types.Alias); isAlias {
			m.count("alias_nodes_seen", 1)
		}
		why := c30ObjGeneric(obj)
		if why != "" {
			excluded[name] = why
		}
		if !obj.Exported() {
			continue
		}
		nExported++
		if why != "" {
			if why == "builtin" {
				m.count("builtin_excluded", 1)
			} else {
				m.count("generic_excluded", 1)
				m.count("generic_excluded:"+why, 1)
			}
			continue
		}
		if m.evidence {
			w.c.Eval(1)
		} else {
			w.c.Count("order_and_entrypoint_comparisons", 1)
		}
		if p := core.Catch(func() { m.objectCmp(g, fp, name) }); p != nil {
			m.object = name
			m.fail("compare-panic", c30StdClass(obj), g.Path()+"."+name, "comparable converted object", fmt.Sprintf("panic while reading the converted object: %v", p))
			m.queue = nil
		}
		if m.evidence {
			w.evidenceFor(m, g, obj)
		}
	}
	// nothing exported may appear from nowhere
	m.object = ""
	for _, name := range fp.Scope().Names() {
		if token.IsExported(name) && scope.Lookup(name) == nil {
			m.object = name
			m.fail("object-extra", c30ForkClass(fp.Scope().Lookup(name)), g.Path()+"."+name, "no such object", fmt.Sprint(fp.Scope().Lookup(name)))
		}
	}
	// "skipping import" warnings: allowed for excluded (generic) objects only
	m.object = ""
	for _, line := range strings.Split(warnings, "\n") {
		if strings.TrimSpace(line) == "" {
			continue
		}
		m.count("skip_warnings_seen", 1)
		if c30WarnMethodRe.MatchString(line) {
			m.count("skip_warnings_for_methods_of_generic_types", 1)
			continue
		}
		sub := c30WarnRe.FindStringSubmatch(line)
		if sub == nil {
			m.fail("skip-warning", "unparsed", g.Path(), "warnings of the form '// warning: skipping import of <object>'", line)
			continue
		}
		q := sub[2]
		name := q[strings.LastIndex(q, ".")+1:]
		if q[:len(q)-len(name)] != g.Path()+"." {
			m.fail("skip-warning", "foreign-object", g.Path(), "warnings about objects of "+g.Path(), line)
			continue
		}
		if excluded[name] == "" || excluded[name] == "builtin" {
			m.object = name
			m.fail("skip-warning", sub[1]+"|non-generic", g.Path()+"."+name, "non-generic object converted", line)
		} else {
			m.count("skip_warnings_for_generic_objects", 1)
		}
	}
	if m.evidence {
		m.count("exported_objects", nExported)
	}
	return m.dump
}

func (w *c30World) evidenceFor(m *c30Cmp, g *types.Package, obj types.Object) {
	c := w.c
	key := g.Path() + "." + obj.Name()
	nontrivial := false
	switch o := obj.(type) {
	case *types.Const:
		c.Count("consts", 1)
		if s := o.Val().ExactString(); s != "0" && s != `""` && s != "false" {
			nontrivial = true
		}
	case *types.Var:
		c.Count("vars", 1)
	case *types.Func:
		c.Count("funcs", 1)
		nontrivial = true
	case *types.TypeName:
		c.Count("types", 1)
		if o.IsAlias() {
			c.Count("type_aliases", 1)
		}
	}
	switch t := types.Unalias(obj.Type()).(type) {
	case *types.Basic:
	case *types.Named:
		if _, basic := t.Underlying().(*types.Basic); !basic || t.NumMethods() > 0 {
			nontrivial = true
		}
	default:
		nontrivial = true
	}
	if nontrivial {
		c.Nontrivial(key)
	}
	if c.WantSample() && nontrivial && m.nfail == 0 {
		if _, isType := obj.(*types.TypeName); isType {
			prefix := "named " + g.Path() + "." + obj.Name() + " = "
			for _, line := range m.dump {
				if strings.HasPrefix(line, prefix) {
					if len(line) > 600 {
						line = line[:600] + "…"
					}
					c.Sample(map[string]string{"package": g.Path(), "object": obj.Name(), "std": types.ObjectString(obj, nil), "converted (underlying type and declared methods, fork TypeString)": line})
					break
				}
			}
		}
	}
}

func (w *c30World) sameDump(m *c30Cmp, ref, got []string, refName string) {
	if w.only != "" {
		return // replay filters by object; dumps are whole-package
	}
	if m.fails > 0 || ref == nil || got == nil || w.refFailed[refName] {
		w.c.Count("dump_comparisons_skipped_mismatch_reported_or_nothing_to_describe", 1)
		return // the lock-step comparison reported the difference already (or the package has no object in the domain)
	}
	w.c.Count("dump_comparisons", 1)
	n := len(ref)
	if len(got) < n {
		n = len(got)
	}
	for i := 0; i < n; i++ {
		if ref[i] != got[i] {
			m.object = ""
			m.fail("order-dependence", m.scenario+"-vs-"+refName, m.pkg, ref[i], got[i])
			return
		}
	}
	if len(ref) != len(got) {
		m.object = ""
		m.fail("order-dependence", m.scenario+"-vs-"+refName, m.pkg, fmt.Sprintf("%d description lines", len(ref)), fmt.Sprintf("%d description lines", len(got)))
	}
}

func (w *c30World) loadSrc(path string) *types.Package {
	g, err := w.src.Import(path)
	if err != nil || g == nil {
		w.c.Count("packages_failed_source", 1)
		w.c.Count("packages_failed_source:"+c30ErrClass(err), 1)
		return nil
	}
	return g
}

func c30ErrClass(err error) string {
	if err == nil {
		return "nil-package"
	}
	s := err.Error()
	if len(s) > 60 {
		s = s[:60]
	}
	return s
}

// checkPackage runs every scenario for one package.
func (w *c30World) checkPackage(path string, index int) {
	c := w.c
	mode := "none"
	etoken.GENERICS = etoken.GENERICS_NONE
	w.refFailed = map[string]bool{}
	g := w.loadSrc(path)
	var d1 []string
	if g != nil {
		c.Count("packages_loaded_source", 1)
		if strings.Contains(path, "internal/") || strings.HasPrefix(path, "internal/") {
			c.Count("packages_loaded_source:internal", 1)
		} else if strings.HasPrefix(path, "vendor/") {
			c.Count("packages_loaded_source:vendor", 1)
		} else {
			c.Count("packages_loaded_source:public", 1)
		}
		deps := c30Deps(g)

		// S1: fresh converter, package alone (primary scenario: evidence counted here)
		if w.want("src/fresh") || w.want("src/fresh/again") {
			conv := c30NewConverter()
			fp, warn, pnc := w.convert(conv, g)
			m := newC30Cmp(c, path, "src/fresh", mode)
			m.evidence = w.onlySc == "" && w.only == ""
			d1 = w.check(m, g, fp, warn, pnc)
			w.refFailed["src/fresh"] = m.fails > 0
			// S1b: Package() again on the same converter: same object, same content
			fp2, warn2, pnc2 := w.convert(conv, g)
			m.evidence = false
			m.newPass("src/fresh/again")
			if fp2 != fp {
				m.fail("package-identity", "second-Package-call-new-object", path, "the same *Package", "a different *Package")
			}
			d1b := w.check(m, g, fp2, warn2, pnc2)
			w.sameDump(m, d1, d1b, "src/fresh")
		}

		// S2: dependencies first (topological order), one shared converter; the dependencies are checked too
		if w.want("src/deps-first") {
			conv := c30NewConverter()
			m := newC30Cmp(c, path, "src/deps-first", mode)
			type conv1 struct {
				g    *types.Package
				fp   *ftypes.Package
				warn string
				pnc  interface{}
			}
			var done []conv1
			for _, d := range deps {
				fp, warn, pnc := w.convertDep(m, conv, d)
				done = append(done, conv1{d, fp, warn, pnc})
			}
			fp, warn, pnc := w.convert(conv, g)
			d2 := w.check(m, g, fp, warn, pnc)
			if d1 != nil {
				w.sameDump(m, d1, d2, "src/fresh")
			}
			// direct imports converted before: still intact after the later conversions
			direct := map[*types.Package]bool{}
			for _, q := range g.Imports() {
				direct[q] = true
			}
			for _, x := range done {
				if direct[x.g] {
					m.dump = nil
					m.scenario = "src/deps-first(import of " + path + ")"
					w.check(m, x.g, x.fp, x.warn, x.pnc)
				}
			}
		}

		// S3: package first, then its dependencies in reverse topological order on the same converter;
		// the package is re-checked afterwards, and so is every direct import
		if w.want("src/pkg-first") {
			conv := c30NewConverter()
			m := newC30Cmp(c, path, "src/pkg-first", mode)
			fp, warn, pnc := w.convert(conv, g)
			d3 := w.check(m, g, fp, warn, pnc)
			if d1 != nil {
				w.sameDump(m, d1, d3, "src/fresh")
			}
			direct := map[*types.Package]bool{}
			for _, q := range g.Imports() {
				direct[q] = true
			}
			for i := len(deps) - 1; i >= 0; i-- {
				d := deps[i]
				dfp, dwarn, dpnc := w.convertDep(m, conv, d)
				if direct[d] {
					m.newPass("src/pkg-first(import of " + path + ")")
					w.check(m, d, dfp, dwarn, dpnc)
				}
			}
			m.newPass("src/pkg-first/after-deps")
			d3b := w.check(m, g, fp, "", nil)
			if d1 != nil {
				w.sameDump(m, d1, d3b, "src/fresh")
			}
		}

		// S1c: gomacro's production setting GENERICS_V2_CTI
		if w.want("src/fresh/cti") {
			etoken.GENERICS = etoken.GENERICS_V2_CTI
			conv := c30NewConverter()
			fp, warn, pnc := w.convert(conv, g)
			m := newC30Cmp(c, path, "src/fresh/cti", "cti")
			w.check(m, g, fp, warn, pnc)
			etoken.GENERICS = etoken.GENERICS_NONE
		}
	}

	// export-data side: types.Converter directly vs the xreflect.Importer wrapper
	gcg, err := w.gc.Import(path)
	if err != nil || gcg == nil {
		c.Count("packages_failed_gc", 1)
		c.Count("packages_failed_gc:"+c30ErrClass(err), 1)
		return
	}
	c.Count("packages_loaded_gc", 1)
	var d4 []string
	if w.want("gc/converter") {
		conv := c30NewConverter()
		fp, warn, pnc := w.convert(conv, gcg)
		m := newC30Cmp(c, path, "gc/converter", mode)
		d4 = w.check(m, gcg, fp, warn, pnc)
		w.refFailed["gc/converter"] = m.fails > 0
	}
	// every Importer.Import runs one `go list -export` process (seconds of CPU): the quick tier drives the
	// importer for every third package, the thorough tier for all (importer/deps-first: every third)
	if w.want("importer/fresh") && (w.tier == "thorough" || index%3 == 0) {
		imp := xreflect.DefaultImporter()
		var fp, fp2 *ftypes.Package
		var ierr, ierr2 error
		var pnc interface{}
		warn := w.capture(func() {
			pnc = core.Catch(func() { fp, ierr = imp.ImportFrom(path, "", 0) })
		})
		m := newC30Cmp(c, path, "importer/fresh", mode)
		if ierr != nil {
			m.fail("importer-error", "", path, "package imported (go/importer gc loads it)", ierr.Error())
		} else {
			d5 := w.check(m, gcg, fp, warn, pnc)
			if d4 != nil {
				w.sameDump(m, d4, d5, "gc/converter")
			}
			w.capture(func() {
				pnc = core.Catch(func() { fp2, ierr2 = imp.Import(path) })
			})
			if pnc != nil || ierr2 != nil || fp2 != fp {
				m.fail("package-identity", "second-Import-call", path, "the same *Package from a second Import", fmt.Sprintf("panic=%v err=%v same=%v", pnc, ierr2, fp2 == fp))
			}
		}
	}
	if w.want("importer/deps-first") && g != nil && index%3 == 0 {
		// importer that already imported the first direct import of the package
		imp := xreflect.DefaultImporter()
		var paths []string
		for _, q := range g.Imports() {
			paths = append(paths, q.Path())
		}
		sort.Strings(paths)
		if len(paths) > 1 {
			paths = paths[:1] // every Import is one `go list -export` process
		}
		w.capture(func() {
			for _, p := range paths {
				core.Catch(func() { imp.Import(p) })
			}
		})
		var fp *ftypes.Package
		var ierr error
		var pnc interface{}
		warn := w.capture(func() {
			pnc = core.Catch(func() { fp, ierr = imp.Import(path) })
		})
		m := newC30Cmp(c, path, "importer/deps-first", mode)
		if ierr != nil {
			m.fail("importer-error", "", path, "package imported (go/importer gc loads it)", ierr.Error())
		} else {
			d6 := w.check(m, gcg, fp, warn, pnc)
			if d4 != nil {
				w.sameDump(m, d4, d6, "gc/converter")
			}
		}
	}
}

// checkAll converts the whole package list of the tier with ONE converter, in the given order, and
// checks every package after all conversions are done (so every later conversion had its chance to
// disturb an earlier result).
func (w *c30World) checkAll(scenario string) {
	if !w.want(scenario) {
		return
	}
	etoken.GENERICS = etoken.GENERICS_NONE
	pkgs := append([]string{}, w.packages()...)
	if scenario == "all/reverse" {
		for i, j := 0, len(pkgs)-1; i < j; i, j = i+1, j-1 {
			pkgs[i], pkgs[j] = pkgs[j], pkgs[i]
		}
	}
	conv := c30NewConverter()
	type item struct {
		g    *types.Package
		fp   *ftypes.Package
		warn string
		pnc  interface{}
	}
	var items []item
	for _, path := range pkgs {
		g := w.loadSrc(path)
		if g == nil {
			continue
		}
		fp, warn, pnc := w.convert(conv, g)
		items = append(items, item{g, fp, warn, pnc})
	}
	m := newC30Cmp(w.c, "", scenario, "none")
	for _, it := range items {
		if w.c.Expired() {
			return
		}
		m.dump = nil
		w.check(m, it.g, it.fp, it.warn, it.pnc)
		w.c.Count("packages_checked_in_whole_list_orders", 1)
	}
}

// ---------------------------------------------------------------------------

func c30Replay(c *core.Ctx, raw json.RawMessage) {
	var cs c30Case
	if err := json.Unmarshal(raw, &cs); err != nil {
		fmt.Fprintln(os.Stderr, "C30 replay:", err)
		return
	}
	c30Declare(c)
	w := newC30World(c)
	defer w.close()
	w.only = cs.Object
	w.onlyK = cs.Kind
	tries := 1
	switch cs.Kind {
	case "methods-not-added", "iface-incomplete", "method-missing", "method-lookup", "typestring", "order-dependence":
		// which defined type loses its methods / stays incomplete depends on Go's map iteration order inside
		// Converter.Package: any instance of the same kind in the same package and scenario reproduces the case
		w.only = ""
		tries = 5
	}
	for ; tries > 0 && c.Violations() == 0; tries-- {
		c30ReplayOnce(w, cs)
	}
}

func c30ReplayOnce(w *c30World, cs c30Case) {
	if cs.Tier != "" {
		w.tier = cs.Tier
	}
	sc := cs.Scenario
	if strings.HasPrefix(sc, "all/") {
		w.onlySc = sc
		w.checkAll(sc)
		return
	}
	root := cs.Pkg
	if cs.Root != "" {
		root = cs.Root
	}
	if i := strings.Index(sc, "(import of "); i >= 0 {
		sc = sc[:i]
	}
	switch sc {
	case "src/fresh/again":
		sc = "src/fresh"
	case "src/pkg-first/after-deps":
		sc = "src/pkg-first"
	}
	w.onlySc = sc
	w.checkPackage(root, 0)
}
