package props

// C13 — an interrupt delivered while interpreted code runs stops it promptly; the interpreter stays usable.
//
// Fault enumeration over (loop shape) x (delivery point k) x (poll phase p) [x (pre-padding q)]. The only coupling
// between Interp.Interrupt and the executor is the word Run.Signals: Interrupt() stores Signals.Async and the
// executor polls it
//   - at every function entry (exec / reExecWithFlags), at function exit (finish: / signal: / restore),
//   - after each block of 14 statements during the first 5 blocks of a frame ("fast phase"), then after each block of
//     15 statements ("slow phase", run.Interrupt = spinInterrupt),
// so the phase of the delivering statement inside its block, and the fast/slow phase of the frame, are the whole
// schedule space. The compiled hook hi(cnt) calls ir.Interrupt(nil) on its k-th call from inside the evaluation
// (deterministic, no clocks); p in 0..16 padding statements shift the block phase of everything after them, q
// pre-padding statements move the frame into its slow phase before the delivery.
//
// Bound derived from the code: after the delivering statement at most 14 more statements of that frame run (the
// remainder of a 15-statement block), no callee runs a single statement (entry poll) and the frame cannot return to
// its caller (exit poll): every counted statement executed after delivery is one of those <= 14.
//
// Oracle: Eval panics with exactly base.SigInterrupt; cnt(after) - cnt(at delivery) <= 14; every deferred call
// registered was run (pend == 0); hidden-state invariant; earlier definitions read back as in the no-interrupt run;
// the C12 battery equals the never-interrupted reference; an interrupt posted BETWEEN two evaluations is dropped.

import (
	"encoding/json"
	"fmt"
	"strings"

	"github.com/cosmos72/gomacro/base"

	"verif/harness/core"
	"verif/harness/h"
	"verif/harness/twin"
)

func init() {
	core.Register(&core.Check{ID: "C13", Level: "fault_enumeration", Workers: -1, Run: c13Run, Replay: c13Replay})
}

const c13Bound = 14

const c13Prelude = `var cnt, pre, pend, dcnt int
var keepV = 42
var keepS = "abc"
const keepC = 7
type keepT struct{ A int }
func keepF(x int) int { return x*2 + keepV }
func w13() { cnt++; return }
func rec13(d int) {
	hi(cnt)
	cnt++
	if d > 0 {
		rec13(d - 1)
	}
	cnt++
	return
}`

const c13Keep = `O(keepV, keepS, keepC, keepT{3}.A, keepF(4))`

type c13Shape struct {
	Name string
	Top  bool   // evaluated as top-level statements instead of a function body
	Body string // @PAD@ = p padding statements, @L@ = loop limit
	L    int
	User bool // the no-interrupt run ends with panic("user")
	// the hook argument is evaluated when the defer statement runs, long before the deferred call delivers the
	// interrupt: the counter at delivery is unknown (nothing but the exit poll runs after it anyway)
	NoBound bool
}

var c13Shapes = []c13Shape{
	{Name: "tight", Body: "hi(cnt)\n@PAD@for cnt < @L@ {\ncnt++\n}", L: 400},
	{Name: "calls", Body: "@PAD@for i := 0; i < @L@; i++ {\nhi(cnt)\nw13()\ncnt++\n}", L: 30},
	{Name: "defers", Body: "@PAD@for i := 0; i < @L@; i++ {\nfunc() {\npend++\ndefer func() {\npend--\ndcnt++\nreturn\n}()\nhi(cnt)\ncnt++\nreturn\n}()\n}", L: 30},
	{Name: "defers-hook-in-deferred", Body: "@PAD@for i := 0; i < @L@; i++ {\nfunc() {\npend++\ndefer func() {\nhi(cnt)\npend--\ndcnt++\nreturn\n}()\ncnt++\nreturn\n}()\ncnt++\n}", L: 30},
	{Name: "defers-compiled-hook-deferred", Body: "@PAD@for i := 0; i < @L@; i++ {\nfunc() {\ndefer hi(cnt)\ncnt++\nreturn\n}()\ncnt++\n}", L: 30},
	{Name: "outermost-compiled-hook-deferred", Body: "defer hi(cnt)\n@PAD@cnt++", L: 1, NoBound: true},
	{Name: "nested3", Body: "@PAD@for a := 0; a < 3; a++ {\nfor b := 0; b < 3; b++ {\nfor c := 0; c < @L@; c++ {\nhi(cnt)\ncnt++\n}\ncnt++\n}\ncnt++\n}", L: 4},
	{Name: "in-deferred", Body: "defer func() {\n@PAD@for i := 0; i < @L@; i++ {\nhi(cnt)\ncnt++\n}\nreturn\n}()\ncnt++", L: 30},
	{Name: "in-deferred-while-panicking", Body: "defer func() {\n@PAD@for i := 0; i < @L@; i++ {\nhi(cnt)\ncnt++\n}\nreturn\n}()\npanic(\"user\")", L: 30, User: true},
	{Name: "select-default", Body: "ch := make(chan int)\n@PAD@for i := 0; i < @L@; i++ {\nselect {\ncase v := <-ch:\ncnt += v\ndefault:\nhi(cnt)\ncnt++\n}\n}", L: 30},
	{Name: "recursive", Body: "@PAD@rec13(@L@)", L: 24},
	{Name: "toplevel", Top: true, Body: "@PAD@for i := 0; i < @L@; i++ {\nhi(cnt)\nw13()\ncnt++\n}", L: 30},
}

func c13ShapeByName(n string) *c13Shape {
	for i := range c13Shapes {
		if c13Shapes[i].Name == n {
			return &c13Shapes[i]
		}
	}
	return nil
}

type c13Case struct {
	Shape  string `json:"shape"`
	K      int    `json:"k"` // the k-th hook call delivers the interrupt (0 = never)
	P      int    `json:"padding"`
	Q      int    `json:"pre_padding"`
	Src    string `json:"source,omitempty"`
	noPost bool   // reference only: do not post an interrupt between the evaluations
}

func (sh *c13Shape) source(p, q int) (decl, call string) {
	body := strings.Repeat("pre++\n", q) + strings.Replace(strings.Replace(sh.Body, "@PAD@", strings.Repeat("cnt++\n", p), 1), "@L@", fmt.Sprint(sh.L), -1)
	if sh.Top {
		return "", body
	}
	return "func probe13() {\n" + body + "\nreturn\n}", "probe13()"
}

type c13Outcome struct {
	Delivered bool
	Calls     int // hook calls
	Panic     interface{}
	CntAt     int
	Vars      string // "cnt pend dcnt" after the evaluation
	Cnt, Pend int
	BadState  []string
	Keep      string
	Battery   []string
	Dropped   string // result of the evaluation following an interrupt posted between evaluations
	BadState2 []string
}

func c13Exec(cas c13Case, withBattery bool) c13Outcome {
	sh := c13ShapeByName(cas.Shape)
	if sh == nil {
		panic("C13: unknown shape " + cas.Shape)
	}
	w := newC12World()
	ir := w.ir
	ir.Eval(c13Prelude)
	decl, call := sh.source(cas.P, cas.Q)
	if decl != "" {
		ir.Eval(decl)
	}
	ir.Eval("keepF(0)")
	idle := c12Snap(ir)
	e := ir.Compile(call)
	w.arm(cas.K, func(w *c12World) { w.ir.Interrupt(nil) })
	cntAt := -1
	w.fault = func(w *c12World) { cntAt = w.lastCB; w.ir.Interrupt(nil) }
	var out c13Outcome
	out.Panic = twin.Catch(func() { h.Reset(); ir.RunExpr(e) })
	out.Delivered, out.Calls, out.CntAt = w.fired, w.n, cntAt
	w.arm(0, nil)
	st := c12Snap(ir)
	out.BadState = c12Invariant(idle, st)
	out.Vars = h.Exec(func() { ir.Eval("O(cnt, pend, dcnt)") })
	fmt.Sscanf(strings.NewReplacer("int:", "").Replace(out.Vars), "%d %d", &out.Cnt, &out.Pend)
	out.Keep = h.Exec(func() { ir.Eval(c13Keep) })
	if withBattery {
		out.Battery = w.runBattery()
	}
	// an interrupt posted while nothing runs must be dropped by the next evaluation
	if !cas.noPost {
		ir.Interrupt(nil)
	}
	out.Dropped = h.Exec(func() { ir.Eval("O(keepF(1)); for i := 0; i < 100; i++ { w13() }; O(keepF(2))") })
	st2 := c12Snap(ir)
	out.BadState2 = c12Invariant(idle, st2)
	return out
}

type c13Ref struct {
	battery []string
	keep    string
	dropped string
}

func c13MakeRef() c13Ref {
	a := c13Exec(c13Case{Shape: "calls", K: 0, noPost: true}, true)
	b := c13Exec(c13Case{Shape: "tight", K: 0, noPost: true}, true)
	if c12DiffBattery(a.Battery, b.Battery) >= 0 || a.Keep != b.Keep || a.Dropped != b.Dropped {
		panic("C13 harness: reference runs are not deterministic")
	}
	if a.Panic != nil || b.Panic != nil || strings.Contains(a.Keep+a.Dropped, "PANIC") {
		panic(fmt.Sprintf("C13 harness: reference run failed: %v %v %q %q", a.Panic, b.Panic, a.Keep, a.Dropped))
	}
	// the battery must also agree with C12's own reference (an interpreter that ran nothing else before)
	return c13Ref{a.Battery, a.Keep, a.Dropped}
}

// c13Check runs one case and applies the oracle; ctl is the no-interrupt run of the same (shape,p,q).
func c13Check(c *core.Ctx, cas c13Case, ctl *c13Outcome, ref c13Ref, withBattery bool) c13Outcome {
	out := c13Exec(cas, withBattery)
	sh := c13ShapeByName(cas.Shape)
	var fails [][2]string
	fail := func(kind, what string) { fails = append(fails, [2]string{kind, what}) }
	if out.Delivered {
		sig, isSig := out.Panic.(base.Signal)
		switch {
		case out.Panic == nil:
			fail("not-interrupted", fmt.Sprintf("interrupt delivered at hook call %d (cnt=%d) but Eval returned normally with cnt=%d", cas.K, out.CntAt, out.Cnt))
		case !isSig || sig != base.SigInterrupt:
			fail("wrong-panic", fmt.Sprintf("interrupt delivered at hook call %d but Eval panicked with %T %v instead of base.SigInterrupt", cas.K, out.Panic, out.Panic))
		}
		if d := out.Cnt - out.CntAt; !sh.NoBound && (d > c13Bound || d < 0) {
			fail("late", fmt.Sprintf("%d counted statements executed after the delivery at hook call %d (cnt %d -> %d), bound %d", d, cas.K, out.CntAt, out.Cnt, c13Bound))
		}
	} else {
		// not delivered: must behave as the control run
		want := "<nil>"
		if sh.User {
			want = "user"
		}
		if fmt.Sprint(out.Panic) != want {
			fail("control-panic", fmt.Sprintf("no interrupt delivered, Eval panicked with %v, want %s", out.Panic, want))
		}
		if ctl != nil && out.Vars != ctl.Vars {
			fail("control-differs", fmt.Sprintf("no interrupt delivered, final counters %q differ from the control run %q", out.Vars, ctl.Vars))
		}
	}
	if out.Pend != 0 {
		fail("defer-not-run", fmt.Sprintf("after the evaluation %d registered deferred calls were never run (counters %q)", out.Pend, out.Vars))
	}
	if len(out.BadState) != 0 {
		fail("state:"+c12BadFields(out.BadState), "hidden state after the interrupted evaluation differs from idle: "+strings.Join(out.BadState, "; "))
	}
	if out.Keep != ref.keep {
		fail("definitions", fmt.Sprintf("earlier definitions read back as %q, without interrupt %q", out.Keep, ref.keep))
	}
	if withBattery {
		if i := c12DiffBattery(ref.battery, out.Battery); i >= 0 {
			got := "(missing)"
			if i < len(out.Battery) {
				got = out.Battery[i]
			}
			fail("battery:"+c12BatteryName(i), fmt.Sprintf("later evaluation %q gives %q, without interrupt %q", c12BatteryName(i), got, ref.battery[i]))
		}
	}
	if out.Dropped != ref.dropped {
		fail("between-evals-not-dropped", fmt.Sprintf("interrupt posted between evaluations: next evaluation gives %q, want %q", out.Dropped, ref.dropped))
	}
	if len(out.BadState2) != 0 {
		fail("state-after-dropped:"+c12BadFields(out.BadState2), "hidden state after the evaluation that followed a between-evaluations interrupt: "+strings.Join(out.BadState2, "; "))
	}
	for _, f := range fails {
		sig := fmt.Sprintf("C13|%s|%s", f[0], cas.Shape)
		// reproduce on fresh interpreters
		for i := 0; i < 4; i++ {
			again := c13Exec(cas, withBattery)
			if fmt.Sprint(again.Panic) != fmt.Sprint(out.Panic) || again.Vars != out.Vars || fmt.Sprint(again.BadState) != fmt.Sprint(out.BadState) || again.Dropped != out.Dropped {
				sig = "FLAKY|" + sig
				break
			}
		}
		cc := cas
		d, call := sh.source(cas.P, cas.Q)
		cc.Src = d + "\n" + call
		c.Violation(sig, fmt.Sprintf("shape %s k=%d padding=%d pre-padding=%d: %s", cas.Shape, cas.K, cas.P, cas.Q, f[1]), cc)
	}
	return out
}

func c13Run(c *core.Ctx) {
	c.Rule("one run per (loop shape in 12 shapes, delivery point k = k-th call of the compiled hook which calls Interp.Interrupt from inside the evaluation, " +
		"padding p in 0..16 statements before the loop, pre-padding q moving the frame into its slow polling phase) on a fresh interpreter; " +
		"oracle: panic value == base.SigInterrupt, counted statements after delivery <= 14, all registered defers ran, hidden-state invariant, earlier definitions, C12 battery, " +
		"between-evaluations interrupt dropped. non-trivial = distinct (shape,k,p,q) in which the interrupt was delivered while interpreted code was running")
	c.Assume("asynchronous delivery from another goroutine is equivalent to a store of Signals.Async between two statements; the store is made by a compiled hook called by the interpreted code (no wall-clock)",
		"interpreted code that recovers every panic in a loop can swallow the interrupt like any panic: not part of the shapes")
	ref := c13MakeRef()

	type pq struct{ p, q int }
	idx := 0
	latest := map[string]int{}
	for si := range c13Shapes {
		sh := &c13Shapes[si]
		var pqs []pq
		qs := []int{0}
		if sh.Name == "tight" {
			// the hook runs once, before the loop: q moves it through the fast phase (5 blocks of 14) into the slow phase
			for q := 1; q <= c.Pick(75, 120); q++ {
				qs = append(qs, q)
			}
		} else if c.Thorough() {
			for q := 58; q <= 73; q++ {
				qs = append(qs, q)
			}
		} else {
			qs = append(qs, 66)
		}
		for _, q := range qs {
			for p := 0; p <= 16; p++ {
				pqs = append(pqs, pq{p, q})
			}
		}
		for _, x := range pqs {
			idx++
			if !c.Mine(idx) {
				continue
			}
			if c.Expired() {
				return
			}
			// control: never delivered
			ctl := c13Check(c, c13Case{Shape: sh.Name, K: 0, P: x.p, Q: x.q}, nil, ref, true)
			c.Eval(1)
			kmax := ctl.Calls
			if lim := c.Pick(20, 1000); kmax > lim {
				kmax = lim
			}
			for k := 1; k <= kmax; k++ {
				// the battery after every 3rd delivery point and always in the thorough tier (it dominates the cost)
				withBattery := c.Thorough() || (k+x.p)%3 == 0
				out := c13Check(c, c13Case{Shape: sh.Name, K: k, P: x.p, Q: x.q}, &ctl, ref, withBattery)
				c.Eval(1)
				if withBattery {
					c.Count("runs_with_battery", 1)
				}
				if out.Delivered {
					c.Nontrivial(fmt.Sprintf("%s|%d|%d|%d", sh.Name, k, x.p, x.q))
					d := out.Cnt - out.CntAt
					if !sh.NoBound {
						c.Count(fmt.Sprintf("late_by_%02d", d), 1)
					}
					if d > latest[sh.Name] {
						latest[sh.Name] = d
					}
					c.Count("panic: "+fmt.Sprint(out.Panic), 1)
					if c.WantSample() && k == kmax/2 && x.p == 5 {
						c.Sample(map[string]interface{}{"shape": sh.Name, "k": k, "padding": x.p, "pre_padding": x.q, "cnt_at_delivery": out.CntAt, "cnt_after": out.Cnt, "panic": fmt.Sprint(out.Panic)})
					}
				}
			}
		}
	}
	_ = latest
}

func c13Replay(c *core.Ctx, raw json.RawMessage) {
	var cas c13Case
	if err := json.Unmarshal(raw, &cas); err != nil {
		panic(err)
	}
	ref := c13MakeRef()
	ctl := c13Exec(c13Case{Shape: cas.Shape, K: 0, P: cas.P, Q: cas.Q}, false)
	c13Check(c, cas, &ctl, ref, true)
}
