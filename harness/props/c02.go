package props

// C02 — assignments, compound assignments and ++/-- on every kind of place.
//
// Part A (this file): single statements.  For every (basic kind × place shape × statement × rhs shape)
// one function is compiled by the interpreter and called with every pair of the value alphabet;
// the expected observation comes from natively compiled Go operators (package c02nat); acceptance
// or rejection of the statement comes from std go/types.  Index/key/pointer operands go through
// the counting hook C(i,v): "evaluated exactly once" is Cnt(i)==1 in the observation.
//
// Part B (c02_twin.go): multi-assignments, statement sequences, panicking places and statements
// Go rejects, by twin execution against compiled Go.

import (
	"encoding/json"
	"fmt"
	"math/big"
	"os"
	"reflect"
	"runtime/pprof"
	"strings"

	"github.com/cosmos72/gomacro/fast"

	"verif/harness/c02nat"
	"verif/harness/core"
	"verif/harness/h"
	"verif/harness/oracle"
	"verif/harness/twin"
)

// ---------------------------------------------------------------------------------------------
// place shapes

type c02Shape struct {
	Name   string
	Family string // signature family: var-slot, var-boxed, var-global, ptr, index, map, field, blank
	Pre    string
	Place  string
	Post   string
	Nest   int
	Obs    []string // "r" new value, "x" initial, "z" zero value, "c" operand counter (must be 1), "=text" literal text
	FromZ  bool     // the place initially holds the zero value (absent map key)
	Wrap   string   // rhs / literal wrapper, e.g. "My_@K(%s)"
	Global bool     // operates on the interpreter-level globals g_@K (int-slot in interpreter A, boxed in B)
	Top    bool     // statement compiled at top level (not inside a function)
	Assign bool     // only "=" is valid Go
	KeyIsX bool     // map[@K]@K indexed by x: NaN keys are never found
	Thin   bool     // quick tier: run with a reduced operator/constant set
}

const c02KindDecls = `type S_@K struct { g @K; a int8; f @K; b string }
type N_@K struct { pre int16; in S_@K }
type E_@K struct { pre int16; S_@K }
type A_@K struct { pre int8; arr [2]@K }
type My_@K @K
func pick_@K(ps []*@K, i int) *@K { return ps[i] }
`

// globals are declared separately: in interpreter B they must come after the slot array is frozen.
const c02KindGlobals = `var g_@K, gw_@K, gy_@K @K
func set_@K(x, y @K) { g_@K = x; gw_@K = x; gy_@K = y }
`
const c02CountGlobals = `var gn_@K @K
func setn_@K(n @K) { gn_@K = n }
`

func c02Shapes() []c02Shape {
	var out []c02Shape
	for n := 0; n <= 4; n++ {
		out = append(out, c02Shape{Name: fmt.Sprintf("var-depth%d", n), Family: "var-slot", Pre: "v := x\nw := x\n_ = w", Place: "v", Post: "O(v, w)", Nest: n, Obs: []string{"r", "x"}, Thin: n == 2 || n == 4})
	}
	out = append(out,
		c02Shape{Name: "param", Family: "var-slot", Place: "x", Post: "O(x)", Obs: []string{"r"}, Thin: true},
		c02Shape{Name: "param-depth1", Family: "var-slot", Place: "x", Post: "O(x)", Nest: 1, Obs: []string{"r"}, Thin: true},
		c02Shape{Name: "namedvar", Family: "var-slot", Pre: "var v My_@K = My_@K(x)", Place: "v", Post: "O(@K(v))", Obs: []string{"r"}, Wrap: "My_@K(%s)", Thin: true},
	)
	for n := 0; n <= 3; n++ {
		out = append(out, c02Shape{Name: fmt.Sprintf("global-depth%d", n), Family: "var-global", Pre: "g_@K = x\ngw_@K = x", Place: "g_@K", Post: "O(g_@K, gw_@K)", Nest: n, Obs: []string{"r", "x"}, Global: true})
	}
	out = append(out,
		c02Shape{Name: "global-toplevel", Family: "var-global", Place: "g_@K", Post: "O(g_@K, gw_@K)", Obs: []string{"r", "x"}, Global: true, Top: true},
		c02Shape{Name: "ptr-to-slot", Family: "ptr", Pre: "v := x\np := &v", Place: "*p", Post: "O(v, *p)", Obs: []string{"r", "r"}},
		c02Shape{Name: "ptr-new-counted", Family: "ptr", Pre: "p := new(@K)\n*p = x\nps := []*@K{nil, p}", Place: "*ps[C(0, 1)]", Post: "O(*p, Cnt(0))", Obs: []string{"r", "c"}},
		c02Shape{Name: "ptr-ptr", Family: "ptr", Pre: "v := x\np := &v\npp := &p", Place: "**pp", Post: "O(v)", Obs: []string{"r"}, Thin: true},
		c02Shape{Name: "ptr-from-call", Family: "ptr", Pre: "v := x\nps := []*@K{nil, &v}", Place: "*pick_@K(ps, C(0, 1))", Post: "O(v, Cnt(0))", Obs: []string{"r", "c"}, Thin: true},
		c02Shape{Name: "array-constidx", Family: "index", Pre: "a := [3]@K{x, x}", Place: "a[1]", Post: "O(a[0], a[1], a[2])", Obs: []string{"x", "r", "z"}},
		c02Shape{Name: "array-idx", Family: "index", Pre: "a := [3]@K{x, x}", Place: "a[C(0, 1)]", Post: "O(a[0], a[1], a[2], Cnt(0))", Obs: []string{"x", "r", "z", "c"}},
		c02Shape{Name: "array-idx0", Family: "index", Pre: "a := [3]@K{x, x}", Place: "a[C(0, 0)]", Post: "O(a[0], a[1], a[2], Cnt(0))", Obs: []string{"r", "x", "z", "c"}, Thin: true},
		c02Shape{Name: "arrayptr-idx", Family: "index", Pre: "a := [3]@K{x, x}\npa := &a", Place: "pa[C(0, 1)]", Post: "O(a[0], a[1], a[2], Cnt(0))", Obs: []string{"x", "r", "z", "c"}},
		c02Shape{Name: "slice-constidx", Family: "index", Pre: "s := []@K{1: x, 2: x}", Place: "s[2]", Post: "O(s[0], s[1], s[2], len(s))", Obs: []string{"z", "x", "r", "=int:3"}},
		c02Shape{Name: "slice-idx", Family: "index", Pre: "s := []@K{1: x, 2: x}", Place: "s[C(0, 1)]", Post: "O(s[0], s[1], s[2], len(s), Cnt(0))", Obs: []string{"z", "r", "x", "=int:3", "c"}},
		c02Shape{Name: "slice-idx-depth2", Family: "index", Pre: "s := []@K{1: x, 2: x}", Place: "s[C(0, 1)]", Post: "O(s[0], s[1], s[2], len(s), Cnt(0))", Nest: 2, Obs: []string{"z", "r", "x", "=int:3", "c"}, Thin: true},
		c02Shape{Name: "slice-of-slice", Family: "index", Pre: "ss := [][]@K{nil, {x, x}}", Place: "ss[C(0, 1)][C(1, 0)]", Post: "O(ss[1][0], ss[1][1], Cnt(0), Cnt(1))", Obs: []string{"r", "x", "c", "c"}, Thin: true},
		c02Shape{Name: "named-slice-elem", Family: "index", Pre: "s := []My_@K{My_@K(x), My_@K(x)}", Place: "s[C(0, 1)]", Post: "O(@K(s[0]), @K(s[1]), Cnt(0))", Obs: []string{"x", "r", "c"}, Wrap: "My_@K(%s)", Thin: true},
		c02Shape{Name: "map-present", Family: "map", Pre: "m := map[int]@K{1: x, 2: x}", Place: "m[C(0, 1)]", Post: "O(m[1], m[2], len(m), Cnt(0))", Obs: []string{"r", "x", "=int:2", "c"}},
		c02Shape{Name: "map-absent", Family: "map", Pre: "m := map[int]@K{2: x}", Place: "m[C(0, 1)]", Post: "O(m[1], m[2], len(m), Cnt(0))", Obs: []string{"r", "x", "=int:2", "c"}, FromZ: true},
		c02Shape{Name: "map-strkey-const", Family: "map", Pre: `m := map[string]@K{"a": x, "b": x}`, Place: `m["a"]`, Post: `O(m["a"], m["b"], len(m))`, Obs: []string{"r", "x", "=int:2"}},
		c02Shape{Name: "map-in-slice", Family: "map", Pre: "ms := []map[int]@K{nil, {1: x}}", Place: "ms[C(0, 1)][C(1, 1)]", Post: "O(ms[1][1], len(ms[1]), Cnt(0), Cnt(1))", Obs: []string{"r", "=int:1", "c", "c"}, Thin: true},
		c02Shape{Name: "map-key-of-kind", Family: "map", Pre: "mk := map[@K]@K{x: x}", Place: "mk[x]", Post: "O(mk[x], len(mk))", KeyIsX: true, Thin: true},
		c02Shape{Name: "field", Family: "field", Pre: `st := S_@K{x, 1, x, "b"}`, Place: "st.f", Post: "O(st.g, st.a, st.f, st.b)", Obs: []string{"x", "=int8:1", "r", `="b"`}},
		c02Shape{Name: "field-first", Family: "field", Pre: `st := S_@K{x, 1, x, "b"}`, Place: "st.g", Post: "O(st.g, st.a, st.f, st.b)", Obs: []string{"r", "=int8:1", "x", `="b"`}, Thin: true},
		c02Shape{Name: "nested-field", Family: "field", Pre: `n := N_@K{7, S_@K{x, 1, x, "b"}}`, Place: "n.in.f", Post: "O(n.pre, n.in.g, n.in.f)", Obs: []string{"=int16:7", "x", "r"}},
		c02Shape{Name: "embedded-field", Family: "field", Pre: `e := E_@K{7, S_@K{x, 1, x, "b"}}`, Place: "e.f", Post: "O(e.pre, e.g, e.f)", Obs: []string{"=int16:7", "x", "r"}, Thin: true},
		c02Shape{Name: "ptr-field-explicit", Family: "field", Pre: `st := S_@K{x, 1, x, "b"}` + "\nps := &st", Place: "(*ps).f", Post: "O(st.g, st.f)", Obs: []string{"x", "r"}},
		c02Shape{Name: "ptr-field-implicit", Family: "field", Pre: `st := S_@K{x, 1, x, "b"}` + "\nps := &st", Place: "ps.f", Post: "O(st.g, st.f)", Obs: []string{"x", "r"}, Thin: true},
		c02Shape{Name: "ptr-field-counted", Family: "field", Pre: `st := S_@K{x, 1, x, "b"}` + "\npss := []*S_@K{nil, &st}", Place: "pss[C(0, 1)].f", Post: "O(st.g, st.f, Cnt(0))", Obs: []string{"x", "r", "c"}, Thin: true},
		c02Shape{Name: "slice-struct-field", Family: "field", Pre: `sts := []S_@K{{}, {x, 1, x, "b"}}`, Place: "sts[C(0, 1)].f", Post: "O(sts[1].g, sts[1].f, sts[0].f, Cnt(0))", Obs: []string{"x", "r", "z", "c"}},
		c02Shape{Name: "struct-array-elem", Family: "field", Pre: "sa := A_@K{3, [2]@K{x, x}}", Place: "sa.arr[C(0, 1)]", Post: "O(sa.pre, sa.arr[0], sa.arr[1], Cnt(0))", Obs: []string{"=int8:3", "x", "r", "c"}, Thin: true},
		c02Shape{Name: "blank", Family: "blank", Place: "_", Post: "O(x)", Obs: []string{"x"}, Assign: true},
	)
	return out
}

var c02Ops = []string{"=", "+=", "-=", "*=", "/=", "%=", "&=", "|=", "^=", "&^=", "<<=", ">>=", "++", "--"}

// c02Case is one compiled function: (kind, shape, statement, rhs).
type c02Case struct {
	Kind  string `json:"kind"`
	Shape string `json:"shape"`
	Op    string `json:"op"`
	// Rhs: "var" | "const" | "none" (++/--)
	Rhs string `json:"rhs"`
	// Lit: the constant's text (Rhs=="const"); CI its index in the constant alphabet (-1: a shift-count literal)
	Lit string `json:"lit,omitempty"`
	CI  int    `json:"const_index,omitempty"`
	// Count: kind of the shift count variable (shifts with Rhs=="var")
	Count string `json:"count_kind,omitempty"`
	Boxed bool   `json:"boxed_globals,omitempty"`
	Large bool   `json:"large_alphabet,omitempty"`
	// replay of one value pair
	XI     int    `json:"x_index"`
	YI     int    `json:"y_index"`
	X      string `json:"x,omitempty"`
	Y      string `json:"y,omitempty"`
	Source string `json:"source,omitempty"`
	Want   string `json:"want,omitempty"`
	Got    string `json:"got,omitempty"`
}

func c02ConstAlphabet(k *c02nat.Kind) []interface{} {
	rv := func(vals ...interface{}) []interface{} { return vals }
	conv := func(ints ...int64) []interface{} {
		var out []interface{}
		seen := map[interface{}]bool{}
		for _, i := range ints {
			v := reflect.ValueOf(i).Convert(k.RT).Interface()
			if !seen[v] {
				seen[v] = true
				out = append(out, v)
			}
		}
		return out
	}
	switch k.Class {
	case c02nat.Bool:
		return rv(false, true)
	case c02nat.String:
		return rv("", "a", "é")
	case c02nat.Int:
		w := uint(k.Bits)
		return conv(0, 1, -1, 2, 3, 4, 7, 8, -2, -8, 16, 100, int64(1)<<(w-2), -(int64(1) << (w - 2)), -(int64(1) << (w - 1)), int64(1)<<(w-1)-1, -(int64(1)<<(w-1))+1)
	case c02nat.Uint:
		w := uint(k.Bits)
		out := conv(0, 1, 2, 3, 4, 7, 8, 16, 100, int64(1)<<(w-2))
		top := reflect.ValueOf(uint64(1) << (w - 1)).Convert(k.RT).Interface()
		max := reflect.ValueOf(^uint64(0)).Convert(k.RT).Interface()
		return append(out, top, max)
	case c02nat.Float:
		var out []interface{}
		for _, f := range []float64{0, 1, -1, 2, 0.5, 0.1, 3, 4, -2.5, 1e10} {
			out = append(out, reflect.ValueOf(f).Convert(k.RT).Interface())
		}
		return out
	case c02nat.Complex:
		var out []interface{}
		for _, c := range []complex128{0, 1, -1, 2, 1i, 0.5 + 2i, complex(0.1, -0.1)} {
			out = append(out, reflect.ValueOf(c).Convert(k.RT).Interface())
		}
		return out
	}
	return nil
}

// shift count literals: text, and the count value (nil: Go must reject the statement)
var c02ShiftLits = []struct {
	Text string
	N    interface{}
}{{"0", uint(0)}, {"1", uint(1)}, {"2", uint(2)}, {"7", uint(7)}, {"8", uint(8)}, {"15", uint(15)}, {"16", uint(16)}, {"31", uint(31)}, {"32", uint(32)},
	{"63", uint(63)}, {"64", uint(64)}, {"65", uint(65)}, {"1000", uint(1000)}, {"2.0", uint(2)}, {"'\\x03'", uint(3)}, {"-1", nil}, {"1.5", nil}}

// ---------------------------------------------------------------------------------------------
// world: the interpreters of one worker

type c02World struct {
	boxed bool
	ir    *twin.Interp
	kinds map[string]bool // kinds whose declarations were evaluated
	nfun  int
}

func c02Subst(s, kind string) string { return strings.ReplaceAll(s, "@K", kind) }

func newC02World(boxed bool) *c02World {
	w := &c02World{boxed: boxed, ir: twin.NewFast(), kinds: map[string]bool{}}
	if boxed {
		// Taking the address of an integer-slot global freezes the slot array of the top-level frame;
		// once its capacity is used up every further numeric global is stored boxed (reflect.Value).
		w.ir.Eval("var c02az int\nvar c02pz = &c02az")
		w.ir.Eval("c02pz = c02pz")
		cb := &w.ir.Comp.CompBinds
		if cb.IntBindMax == 0 {
			panic("C02: could not freeze the integer slot array (IntBindMax==0)")
		}
		for i := 0; cb.IntBindNum < cb.IntBindMax; i++ {
			w.ir.Eval(fmt.Sprintf("var c02fill%d int", i))
			if i > 100000 {
				panic("C02: filler loop does not terminate")
			}
		}
	}
	return w
}

func (w *c02World) needKind(k *c02nat.Kind) {
	if w.kinds[k.Name] {
		return
	}
	w.kinds[k.Name] = true
	w.ir.Eval(c02Subst(c02KindDecls, k.Name))
	w.ir.Eval(c02Subst(c02KindGlobals, k.Name))
	if k.IsInteger() {
		w.ir.Eval(c02Subst(c02CountGlobals, k.Name))
	}
	// storage class of the globals must be what the shape names claim
	bind := w.ir.Comp.Binds["g_"+k.Name]
	if bind == nil {
		panic("C02: global not declared: g_" + k.Name)
	}
	cl := bind.Desc.Class()
	wantBoxed := w.boxed || k.Class == c02nat.String
	if (cl == fast.VarBind) != wantBoxed || (cl != fast.VarBind && cl != fast.IntBind) {
		panic(fmt.Sprintf("C02: global g_%s has storage class %v, boxed world=%v", k.Name, cl, w.boxed))
	}
}

// goDecls returns the declarations a generated function needs, as Go source for go/types.
func c02GoDecls(k *c02nat.Kind, count *c02nat.Kind) string {
	s := c02Subst(c02KindDecls+c02KindGlobals, k.Name)
	if k.IsInteger() {
		s += c02Subst(c02CountGlobals, k.Name)
	}
	if count != nil && count != k {
		s += c02Subst(c02CountGlobals, count.Name)
	}
	return s
}

// c02Stmt renders the statement of a case.
func c02Stmt(sh *c02Shape, cs *c02Case) string {
	place := c02Subst(sh.Place, cs.Kind)
	wrap := func(s string) string {
		if sh.Wrap != "" && cs.Op != "<<=" && cs.Op != ">>=" {
			return fmt.Sprintf(c02Subst(sh.Wrap, cs.Kind), s)
		}
		return s
	}
	switch {
	case cs.Op == "++" || cs.Op == "--":
		return place + cs.Op
	case cs.Rhs == "const":
		return place + " " + cs.Op + " " + wrap(cs.Lit)
	case sh.Top && (cs.Op == "<<=" || cs.Op == ">>="):
		return place + " " + cs.Op + " gn_" + cs.Count
	case sh.Top:
		return place + " " + cs.Op + " " + wrap("gy_"+cs.Kind)
	}
	return place + " " + cs.Op + " " + wrap("y")
}

// c02Source renders the function (or top-level statement list) of a case.
func c02Source(sh *c02Shape, cs *c02Case, fname string) string {
	stmt := c02Stmt(sh, cs)
	if sh.Top {
		return stmt + "\n" + c02Subst(sh.Post, cs.Kind)
	}
	ytype := cs.Kind
	if cs.Count != "" {
		ytype = cs.Count
	}
	var sb strings.Builder
	fmt.Fprintf(&sb, "func %s(x %s, y %s) {\n", fname, cs.Kind, ytype)
	if sh.Pre != "" {
		sb.WriteString(c02Subst(sh.Pre, cs.Kind) + "\n")
	}
	for i := 0; i < sh.Nest; i++ {
		sb.WriteString("func() {\n")
	}
	sb.WriteString(stmt + "\n")
	for i := 0; i < sh.Nest; i++ {
		sb.WriteString("}()\n")
	}
	sb.WriteString(c02Subst(sh.Post, cs.Kind) + "\n}\n")
	return sb.String()
}

// c02GoAccepts asks go/types whether the case is valid Go.
func c02GoAccepts(sh *c02Shape, cs *c02Case, k, count *c02nat.Kind) (bool, string) {
	src := "package p\nimport . \"orc/h\"\nvar _ = T\n" + c02GoDecls(k, count)
	if sh.Top {
		src += "func c02top() {\n" + c02Source(sh, cs, "") + "\n}\n"
	} else {
		src += c02Source(sh, cs, "c02f")
	}
	_, _, err := oracle.CheckSource(src)
	if err != nil {
		return false, err.Error()
	}
	return true, ""
}

// compiled case ready to be invoked with value pairs
type c02Compiled struct {
	call func(x, y interface{}) string // returns trace + panic class
}

func c02Invoke(f func()) string {
	h.Reset()
	p := twin.Catch(f)
	return h.Finish(p)
}

// compile declares the function of the case in the world's interpreter. A non-empty error text means the
// interpreter rejected it before execution.
func (w *c02World) compile(sh *c02Shape, cs *c02Case, k, count *c02nat.Kind) (*c02Compiled, string, string) {
	w.needKind(k)
	if count != nil {
		w.needKind(count)
	}
	w.nfun++
	fname := fmt.Sprintf("c02f%d", w.nfun)
	src := c02Source(sh, cs, fname)
	ir := w.ir
	if sh.Top {
		var e *fast.Expr
		if perr := twin.Catch(func() { e = ir.Compile(src) }); perr != nil {
			return nil, fmt.Sprint(perr), src
		}
		setv := ir.ValueOf("set_" + k.Name).ReflectValue()
		var setn reflect.Value
		if count != nil {
			setn = ir.ValueOf("setn_" + count.Name).ReflectValue()
		}
		return &c02Compiled{call: func(x, y interface{}) string {
			return c02Invoke(func() {
				if count != nil {
					setv.Call([]reflect.Value{reflect.ValueOf(x), reflect.ValueOf(x)})
					setn.Call([]reflect.Value{reflect.ValueOf(y)})
				} else {
					setv.Call([]reflect.Value{reflect.ValueOf(x), c02Arg(y, setv.Type().In(1))})
				}
				ir.RunExpr(e)
			})
		}}, "", src
	}
	if perr := twin.Catch(func() { ir.Eval(src) }); perr != nil {
		return nil, fmt.Sprint(perr), src
	}
	fv := ir.ValueOf(fname).ReflectValue()
	if !fv.IsValid() || fv.Kind() != reflect.Func {
		panic("C02: function not declared: " + fname)
	}
	return &c02Compiled{call: func(x, y interface{}) string {
		return c02Invoke(func() { fv.Call([]reflect.Value{reflect.ValueOf(x), c02Arg(y, fv.Type().In(1))}) })
	}}, "", src
}

// c02Arg passes y if it has the parameter's type; a constant rhs leaves the parameter unused (zero is passed).
func c02Arg(y interface{}, t reflect.Type) reflect.Value {
	v := reflect.ValueOf(y)
	if v.Type() != t {
		return reflect.Zero(t)
	}
	return v
}

// ---------------------------------------------------------------------------------------------
// expected observation

func c02IsNaN(v interface{}) bool {
	switch x := v.(type) {
	case float32:
		return x != x
	case float64:
		return x != x
	case complex64:
		return x != x
	case complex128:
		return x != x
	}
	return false
}

// c02Expect returns the expected trace of one call and the outcome class (identity/changed/wrapped/panic).
func c02Expect(sh *c02Shape, cs *c02Case, k *c02nat.Kind, x, y interface{}) (want string, class string) {
	from := x
	if sh.FromZ || (sh.KeyIsX && c02IsNaN(x)) {
		from = k.Zero
	}
	var res c02nat.Result
	switch cs.Op {
	case "=":
		res = c02nat.Result{Val: y}
	case "++":
		res = k.Op("+", from, k.One())
	case "--":
		res = k.Op("-", from, k.One())
	case "<<=":
		res = k.Shift(true, from, y)
	case ">>=":
		res = k.Shift(false, from, y)
	default:
		res = k.Op(strings.TrimSuffix(cs.Op, "="), from, y)
	}
	if res.Panic != nil {
		return "PANIC(" + h.PanicClass(res.Panic) + ")", "panic"
	}
	r := res.Val
	var sb strings.Builder
	obs := sh.Obs
	if sh.KeyIsX {
		if c02IsNaN(x) {
			// the statement stored under a fresh NaN key; mk[x] finds nothing
			obs = []string{"z", "=int:2"}
		} else {
			obs = []string{"r", "c"}
		}
	}
	if sh.Assign {
		r = x
	}
	for _, o := range obs {
		switch {
		case o == "r":
			sb.WriteString(h.Fmt(r))
		case o == "x":
			sb.WriteString(h.Fmt(x))
		case o == "z":
			sb.WriteString(h.Fmt(k.Zero))
		case o == "c":
			sb.WriteString("int:1")
		case strings.HasPrefix(o, "="):
			sb.WriteString(o[1:])
		default:
			panic("C02: bad observation token " + o)
		}
		sb.WriteByte(' ')
	}
	class = "changed"
	if h.Fmt(r) == h.Fmt(from) {
		class = "identity"
	} else if k.IsInteger() && c02Wrapped(cs.Op, k, from, y) {
		class = "wrapped"
	}
	return sb.String(), class
}

func c02Big(v interface{}) *big.Int {
	rv := reflect.ValueOf(v)
	switch rv.Kind() {
	case reflect.Int, reflect.Int8, reflect.Int16, reflect.Int32, reflect.Int64:
		return big.NewInt(rv.Int())
	}
	return new(big.Int).SetUint64(rv.Uint())
}

// c02Wrapped tells whether the exact mathematical result does not fit the kind (wrap-around happened).
func c02Wrapped(op string, k *c02nat.Kind, x, y interface{}) bool {
	bx := c02Big(x)
	var exact *big.Int
	switch op {
	case "+=":
		exact = new(big.Int).Add(bx, c02Big(y))
	case "-=":
		exact = new(big.Int).Sub(bx, c02Big(y))
	case "*=":
		exact = new(big.Int).Mul(bx, c02Big(y))
	case "++":
		exact = new(big.Int).Add(bx, big.NewInt(1))
	case "--":
		exact = new(big.Int).Sub(bx, big.NewInt(1))
	case "<<=":
		n := c02Big(y)
		if n.Sign() < 0 {
			return false
		}
		if n.Cmp(big.NewInt(200)) > 0 {
			return bx.Sign() != 0
		}
		exact = new(big.Int).Lsh(bx, uint(n.Uint64()))
	case "/=":
		// min / -1
		exact = new(big.Int).Quo(bx, c02Big(y))
	default:
		return false
	}
	var lo, hi *big.Int
	if k.Class == c02nat.Int {
		lo = new(big.Int).Neg(new(big.Int).Lsh(big.NewInt(1), uint(k.Bits-1)))
		hi = new(big.Int).Sub(new(big.Int).Lsh(big.NewInt(1), uint(k.Bits-1)), big.NewInt(1))
	} else {
		lo = big.NewInt(0)
		hi = new(big.Int).Sub(new(big.Int).Lsh(big.NewInt(1), uint(k.Bits)), big.NewInt(1))
	}
	return exact.Cmp(lo) < 0 || exact.Cmp(hi) > 0
}

// ---------------------------------------------------------------------------------------------
// enumeration

type c02Plan struct {
	shapes []c02Shape
}

var c02ShapeCache = map[string]*c02Shape{}

func c02ShapeByName(name string) *c02Shape {
	if len(c02ShapeCache) == 0 {
		for _, s := range c02Shapes() {
			s := s
			c02ShapeCache[s.Name] = &s
		}
	}
	return c02ShapeCache[name]
}

// c02Cases enumerates every compiled case of the tier in a fixed order; it returns their number.
func c02Cases(c *core.Ctx, emit func(i int, cs *c02Case)) int {
	quick := c.Quick()
	n := 0
	var out c02Emitter = func(cs c02Case) {
		if emit != nil {
			emit(n, &cs)
		}
		n++
	}
	shapes := c02Shapes()
	for _, k := range c02nat.Kinds {
		consts := c02ConstAlphabet(k)
		for si := range shapes {
			sh := &shapes[si]
			thin := quick && sh.Thin
			worlds := []bool{false}
			if sh.Global && k.Class != c02nat.String {
				worlds = []bool{false, true}
			}
			for _, boxed := range worlds {
				for _, op := range c02Ops {
					base := c02Case{Kind: k.Name, Shape: sh.Name, Op: op, Boxed: boxed}
					switch op {
					case "++", "--":
						cs := base
						cs.Rhs = "none"
						out(cs)
					case "<<=", ">>=":
						if !k.IsInteger() {
							// one rejection case
							cs := base
							cs.Rhs, cs.Lit, cs.CI = "const", "1", -1
							out(cs)
							continue
						}
						for ci, ck := range c02nat.IntKinds() {
							if thin && ci%4 != si%4 {
								continue
							}
							cs := base
							cs.Rhs, cs.Count = "var", ck.Name
							out(cs)
						}
						for li, l := range c02ShiftLits {
							if thin && li%3 != 0 {
								continue
							}
							cs := base
							cs.Rhs, cs.Lit, cs.CI = "const", l.Text, -1-li
							out(cs)
						}
					default:
						cs := base
						cs.Rhs = "var"
						out(cs)
						if !k.ValidOp(strings.TrimSuffix(op, "=")) && op != "=" {
							continue // rejection is tested once, with the variable rhs
						}
						for ci, cv := range consts {
							if thin && ci >= 3 {
								continue
							}
							lit, ok := k.Lit(cv)
							if !ok {
								continue
							}
							cs := base
							cs.Rhs, cs.Lit, cs.CI = "const", lit, ci
							out(cs)
						}
					}
				}
			}
		}
	}
	return n
}

type c02Emitter func(cs c02Case)

func c02FamilyOf(sh *c02Shape, cs *c02Case, k *c02nat.Kind) string {
	if sh.Global {
		if cs.Boxed || k.Class == c02nat.String {
			return "var-global-boxed"
		}
		return "var-global-slot"
	}
	if sh.Family == "var-slot" && k.Class == c02nat.String {
		return "var-boxed"
	}
	return sh.Family
}

// c02RhsClass is the rhs part of the signature.
func c02RhsClass(cs *c02Case, k *c02nat.Kind) string {
	switch cs.Rhs {
	case "none":
		return "none"
	case "var":
		if cs.Count != "" {
			ck := c02nat.ByName(cs.Count)
			return "count-var-" + ck.Class.String()
		}
		return "var"
	}
	if cs.CI < 0 {
		return "count-const"
	}
	if k.IsInteger() {
		v := c02Big(c02ConstAlphabet(k)[cs.CI])
		switch {
		case v.Sign() == 0:
			return "const0"
		case v.Cmp(big.NewInt(1)) == 0:
			return "const1"
		case v.Cmp(big.NewInt(-1)) == 0:
			return "const-1"
		}
		abs := new(big.Int).Abs(v)
		if new(big.Int).And(abs, new(big.Int).Sub(abs, big.NewInt(1))).Sign() == 0 {
			if v.Sign() < 0 {
				return "const-negpow2"
			}
			return "const-pow2"
		}
		return "const"
	}
	switch cs.Lit {
	case "0", "(0 + 0i)", `""`:
		return "const0"
	case "1", "(1 + 0i)":
		return "const1"
	case "-1", "(-1 + 0i)":
		return "const-1"
	}
	return "const"
}

func c02Sig(sh *c02Shape, cs *c02Case, k *c02nat.Kind, failure string) string {
	return fmt.Sprintf("C02|%s|%s|%s|%s|%s", cs.Op, k.Class, c02FamilyOf(sh, cs, k), c02RhsClass(cs, k), failure)
}

// shapes whose place is swept with the large x alphabet in the thorough tier; on c02AllPairs the 8-bit kinds run all 256×256 pairs
var c02Deep = map[string]bool{"var-depth0": true, "var-depth3": true, "global-depth2": true, "slice-idx": true, "map-absent": true, "field": true}
var c02AllPairs = map[string]bool{"var-depth0": true, "slice-idx": true, "map-present": true}

// c02Values returns the (x, y) alphabets of a case. quick: small × small. thorough (large): x over the large alphabet on
// the "deep" shapes, y small; 8-bit kinds: every pair of values on three shapes.
func c02Values(cs *c02Case, k, count *c02nat.Kind, large bool) (xs, ys []interface{}) {
	allPairs := large && k.Bits == 8 && k.IsInteger() && c02AllPairs[cs.Shape]
	xs = k.Values(large && (c02Deep[cs.Shape] || allPairs))
	switch {
	case cs.Rhs == "none":
		ys = []interface{}{k.Zero}
	case cs.Rhs == "const" && cs.CI < 0:
		n := c02ShiftLits[-1-cs.CI].N
		if n == nil {
			n = uint(0)
		}
		ys = []interface{}{n}
	case cs.Rhs == "const":
		ys = []interface{}{c02ConstAlphabet(k)[cs.CI]}
	case count != nil:
		ys = count.ShiftCounts(large && allPairs)
	default:
		ys = k.Values(allPairs)
	}
	return
}

type c02Runner struct {
	c      *core.Ctx
	worlds [2]*c02World
}

func (r *c02Runner) world(boxed bool) *c02World {
	i := 0
	if boxed {
		i = 1
	}
	if r.worlds[i] == nil {
		r.worlds[i] = newC02World(boxed)
	}
	return r.worlds[i]
}

// c02Failure classifies a mismatch of traces.
func c02Failure(sh *c02Shape, want, got string) string {
	wp, gp := strings.Contains(want, "PANIC("), strings.Contains(got, "PANIC(")
	switch {
	case wp && !gp:
		return "missing-panic"
	case !wp && gp:
		return "unexpected-panic"
	case wp && gp:
		return "panic-class"
	}
	wf, gf := strings.Fields(want), strings.Fields(got)
	if len(wf) == len(gf) && len(wf) == len(sh.Obs) {
		onlyCounters := true
		for i := range wf {
			if wf[i] != gf[i] && sh.Obs[i] != "c" {
				onlyCounters = false
			}
		}
		if onlyCounters {
			return "operand-evaluation-count"
		}
	}
	return "wrong-state"
}

// runCase compiles and runs one case over its alphabets. one>=0 restricts to a single pair (replay).
func (r *c02Runner) runCase(cs c02Case, large bool, only bool) {
	c := r.c
	k := c02nat.ByName(cs.Kind)
	sh := c02ShapeByName(cs.Shape)
	if k == nil || sh == nil {
		panic("C02: unknown kind/shape in case")
	}
	var count *c02nat.Kind
	if cs.Count != "" {
		count = c02nat.ByName(cs.Count)
	}
	w := r.world(cs.Boxed)
	goOK, goMsg := c02GoAccepts(sh, &cs, k, count)
	comp, cerr, src := w.compile(sh, &cs, k, count)
	cs.Source = src
	c.Eval(1)
	if !goOK {
		c.Count("statements_go_rejects", 1)
		c.Nontrivial(fmt.Sprintf("%s|%s|%s|%s|rejected", cs.Kind, cs.Shape, cs.Op, cs.Lit))
		if cerr == "" {
			// outside the property (it speaks about the state after statements Go accepts): recorded, not a violation
			_ = goMsg
			c.Count("observed (not a violation): interpreter accepts a statement Go rejects: "+c02Sig(sh, &cs, k, "accepts-invalid-go"), 1)
		}
		return
	}
	if cerr != "" {
		cs.Got = "COMPILE-ERROR: " + cerr
		c02Violation(c, c02Sig(sh, &cs, k, "rejects-valid-go"), fmt.Sprintf("valid Go statement rejected by the interpreter: %s\n%s", oneLineErr(cerr), src), cs)
		return
	}
	c.Count("statements_compiled", 1)
	xs, ys := c02Values(&cs, k, count, large)
	reported := 0
	for xi, x := range xs {
		for yi, y := range ys {
			if only && (xi != cs.XI || yi != cs.YI) {
				continue
			}
			want, class := c02Expect(sh, &cs, k, x, y)
			got := comp.call(x, y)
			c.Eval(1)
			c.Count("outcome_"+class, 1)
			if class != "identity" {
				c.Nontrivial(fmt.Sprintf("%s|%s|%s|%s|%s|%s|%s|%v", cs.Kind, cs.Shape, cs.Op, cs.Rhs, cs.Lit, cs.Count, class, cs.Boxed))
			}
			if got == want {
				continue
			}
			if reported >= 3 {
				c.Count("mismatching_value_pairs_not_listed", 1)
				continue
			}
			reported++
			// confirm on a fresh interpreter (the shared one has seen thousands of other declarations)
			v := cs
			v.XI, v.YI, v.X, v.Y, v.Want, v.Got, v.Large = xi, yi, h.Fmt(x), h.Fmt(y), want, got, large
			fresh := newC02World(cs.Boxed)
			comp2, cerr2, _ := fresh.compile(sh, &v, k, count)
			got2 := "COMPILE-ERROR: " + cerr2
			if comp2 != nil {
				got2 = comp2.call(x, y)
			}
			if got2 != got {
				c02Violation(c, "C02|history-dependent", fmt.Sprintf("the interpreter answers %q in a fresh interpreter but %q after other declarations (Go: %q) for x=%s y=%s in\n%s", got2, got, want, v.X, v.Y, src), v)
				continue
			}
			c02Violation(c, c02Sig(sh, &cs, k, c02Failure(sh, want, got)), fmt.Sprintf("x=%s y=%s: compiled Go gives %q, interpreter %q for\n%s", v.X, v.Y, want, got, src), v)
		}
	}
	if c.WantSample() && cs.Rhs == "var" && len(xs) > 2 {
		x, y := xs[len(xs)/2], ys[len(ys)/3]
		want, _ := c02Expect(sh, &cs, k, x, y)
		c.Sample(map[string]string{"source": src, "x": h.Fmt(x), "y": h.Fmt(y), "result": want})
	}
}

func oneLineErr(s string) string {
	s = strings.ReplaceAll(s, "\n", " ")
	if len(s) > 300 {
		s = s[:300]
	}
	return s
}

const c02Rule = "part A: every (17 basic kinds × 41 place shapes [local variable/parameter at closure depth 0..4, global at depth 0..3 and at top level in integer-slot and boxed storage, named type, *p (4 forms), " +
	"array/slice/pointer-to-array element with constant and counted index, nested slices, map element present/absent/constant key/map in slice/key of the kind itself, struct field first/middle/nested/embedded/through pointer/in slice/array in struct, blank] " +
	"× 14 statements [=, 11 op=, ++, --] × rhs [variable | each constant of the kind's constant alphabet incl. 0, ±1, ±2^k, min, max | shift count variable of each of the 11 integer kinds | shift count literal]) is compiled once and executed on every (x, y) of the value alphabet; " +
	"statements Go rejects (go/types) must be rejected at compile time. part B (twin execution): all 2-place and 3-place multi-assignments over aliasing place/value alphabets, all statement sequences of length <=3 over a 12-statement alphabet on 2 variables, places whose evaluation panics, invalid statements; " +
	"re-entrant corpus (c02_reent.go): every statement form [single with each operator, 2 and 3 places = values, 2 places = f(), comma-ok] over 11 place classes is re-entered (recursion through, or a goroutine started and awaited by, " +
	"the operand at EVERY window position: operand of each place, each right-hand side, each argument) while an outer execution of the same site is suspended between evaluating its operands and storing, 3 executions deep and then a second non-nested round, " +
	"in closure/top-level/nested frames, element kinds int, uint8, float64, string, struct. " +
	"non-trivial = distinct (kind, shape, statement, rhs, outcome class) with outcome class changed/wrapped/panic/rejected (identity outcomes not counted), plus distinct part-B programs whose Go result is not empty"

func c02Run(c *core.Ctx) {
	c.Rule(c02Rule)
	c.Assume("native Go operators compiled into the harness (generic functions instantiated per kind) are the reference for single statements; std go/types is the reference for acceptance",
		"constant operands behave at run time like variables holding the same value (Go folds constants IEEE-exactly on amd64)")
	if pf := os.Getenv("VERIF_C02_PROF"); pf != "" {
		if f, err := os.Create(fmt.Sprintf("%s.%d", pf, c.Shard)); err == nil {
			pprof.StartCPUProfile(f)
			defer pprof.StopCPUProfile()
		}
	}
	r := &c02Runner{c: c}
	large := c.Thorough()
	// development aids (not used by run.sh): VERIF_C02_FILTER=substring of "kind|shape|op|rhs", VERIF_C02_PART=A|B
	filter, part := os.Getenv("VERIF_C02_FILTER"), os.Getenv("VERIF_C02_PART")
	if filter != "" || part != "" || os.Getenv("VERIF_C02_CORPUS") != "" {
		c.Cap("development filter active")
	}
	// part B first: it is the cheaper and the more varied part (multi-assignments, re-entrancy); if the internal deadline
	// cuts the run short on a loaded machine, part B has been covered completely
	if part != "A" {
		c02TwinRun(c, c02Cases(c, nil))
	}
	expired := false
	ncases := c02Cases(c, func(i int, cs *c02Case) {
		if expired || !c.Mine(i) || part == "B" {
			return
		}
		if filter != "" && !strings.Contains(cs.Kind+"|"+cs.Shape+"|"+cs.Op+"|"+cs.Rhs, filter) {
			return
		}
		if c.Expired() {
			expired = true
			return
		}
		r.runCase(*cs, large, false)
	})
	c.Set("partA_compiled_cases", ncases)
}

func c02Replay(c *core.Ctx, raw json.RawMessage) {
	var probe struct {
		Prog *oracle.Prog `json:"prog"`
	}
	if json.Unmarshal(raw, &probe) == nil && probe.Prog != nil {
		c02TwinReplay(c, raw)
		return
	}
	var cs c02Case
	if err := json.Unmarshal(raw, &cs); err != nil {
		panic(err)
	}
	r := &c02Runner{c: c}
	r.runCase(cs, cs.Large, cs.Source != "" && cs.X != "")
}

func init() {
	core.Register(&core.Check{ID: "C02", Level: "exploration", Workers: -1, Prepare: c02TwinPrepare, Run: c02Run, Replay: c02Replay})
}

// c02Violation reports a violation; with VERIF_SIGS=<file prefix> set (development) every signature is also counted
// in the evidence and the first case of each signature is appended to <prefix>.<shard>.
func c02Violation(c *core.Ctx, sig, what string, cas interface{}) {
	devSig(c, sig, what)
	c.Violation(sig, what, cas)
}

var devSigSeen = map[string]bool{}

func devSig(c *core.Ctx, sig, what string) {
	pf := os.Getenv("VERIF_SIGS")
	if pf == "" {
		return
	}
	c.Count("sig "+sig, 1)
	if devSigSeen[sig] {
		return
	}
	devSigSeen[sig] = true
	if f, err := os.OpenFile(fmt.Sprintf("%s.%d", pf, c.Shard), os.O_APPEND|os.O_CREATE|os.O_WRONLY, 0o644); err == nil {
		fmt.Fprintf(f, "%s\t%s\n", sig, strings.ReplaceAll(what, "\n", " ; "))
		f.Close()
	}
}
