package props

// C26 — the multiline reader base.ReadMultiline splits input losslessly at complete-statement boundaries.
// Bounded-exhaustive sequences of line templates + a dedicated sweep of every continuation token + every
// GOROOT//repo file, each delivered through several Readline implementations and option sets.

import (
	"bufio"
	"bytes"
	"encoding/json"
	"fmt"
	"go/ast"
	stdparser "go/parser"
	stdscanner "go/scanner"
	"go/token"
	"io"
	"os"
	"strconv"
	"strings"
	"testing/iotest"

	"github.com/cosmos72/gomacro/base"

	"verif/harness/core"
)

func init() {
	core.Register(&core.Check{ID: "C26", Level: "exploration", Run: c26Run, Replay: c26Replay})
}

// ---------------------------------------------------------------------------
// delivery

// c26Lines is a scripted Readline: one line per Read, like a terminal (every line ends in '\n'), then io.EOF.
type c26Lines struct {
	lines [][]byte
	i     int
}

func (r *c26Lines) Read(prompt string) ([]byte, error) {
	if r.i >= len(r.lines) {
		return nil, io.EOF
	}
	l := append([]byte{}, r.lines[r.i]...) // the reader patches the line in place ('#!' -> '//')
	r.i++
	return bytes.Replace(l, []byte("\u2029"), []byte("\n"), -1), nil
}

func c26SplitLines(text string) [][]byte {
	var out [][]byte
	for len(text) > 0 {
		i := strings.IndexByte(text, '\n')
		if i < 0 {
			out = append(out, []byte(text+"\n")) // a terminal always delivers complete lines
			break
		}
		out = append(out, []byte(text[:i+1]))
		text = text[i+1:]
	}
	return out
}

const (
	c26Buf        = iota // base.MakeBufReadline over the whole text, bufio.NewReader (4096-byte buffer) as EvalReader / EvalFile do
	c26BufNoNL           // the same, text without the final newline
	c26Scripted          // scripted terminal-like Readline, one line per Read: the reference delivery
	c26BufSmall          // base.MakeBufReadline over bufio.NewReaderSize(16): every line longer than 16 bytes exceeds the buffer
	c26BufOneByte        // base.MakeBufReadline over a source that delivers one byte per Read and the last byte together with io.EOF
	c26NDelivery
)

var c26DeliveryName = []string{"BufReadline", "BufReadline,no final newline", "line-by-line Readline", "BufReadline,16-byte bufio buffer", "BufReadline,source delivers single bytes"}

type c26Chunk struct {
	Text  string
	First int
}

// c26Read drives ReadMultiline until the input is exhausted.
func c26Read(text string, delivery int, opts base.ReadOptions) (chunks []c26Chunk, rerr string, expected string) {
	var rl base.Readline
	expected = strings.Replace(text, "\u2029", "\n", -1)
	switch delivery {
	case c26Buf:
		rl = base.MakeBufReadline(bufio.NewReader(strings.NewReader(text)))
	case c26BufNoNL:
		text = strings.TrimSuffix(text, "\n")
		expected = strings.TrimSuffix(expected, "\n")
		rl = base.MakeBufReadline(bufio.NewReader(strings.NewReader(text)))
	case c26BufSmall:
		rl = base.MakeBufReadline(bufio.NewReaderSize(strings.NewReader(text), 16))
	case c26BufOneByte:
		rl = base.MakeBufReadline(bufio.NewReader(iotest.DataErrReader(iotest.OneByteReader(strings.NewReader(text)))))
	default:
		rl = &c26Lines{lines: c26SplitLines(text)}
		if expected != "" && !strings.HasSuffix(expected, "\n") {
			expected += "\n"
		}
	}
	for n := 0; n < len(text)+8; n++ {
		src, first, err := base.ReadMultiline(rl, opts, "")
		if err != nil && err != io.EOF && err != io.ErrUnexpectedEOF {
			rerr = err.Error()
		}
		if src == "" && err != nil {
			break
		}
		chunks = append(chunks, c26Chunk{src, first})
		if err != nil {
			break
		}
	}
	return
}

// ---------------------------------------------------------------------------
// oracle: lexical structure (go/scanner) and statement boundaries (go/parser)

type c26Lex struct {
	ok     bool     // go/scanner reports no error
	multi  [][2]int // extents [start,end) of tokens that contain a newline (raw strings, general comments)
	brk    []int    // offsets of bracket tokens, sign: +off+1 opening, -(off+1) closing
	toks   []c26LexTok
	hasExt bool
}

type c26LexTok struct {
	off, end int
	tok      token.Token
}

func c26Scan(text string) *c26Lex {
	lx := &c26Lex{ok: true}
	fset := token.NewFileSet()
	f := fset.AddFile("x.go", -1, len(text))
	var s stdscanner.Scanner
	s.Init(f, []byte(text), func(token.Position, string) { lx.ok = false }, stdscanner.ScanComments)
	for {
		pos, tok, lit := s.Scan()
		if tok == token.EOF {
			break
		}
		off := int(pos) - f.Base()
		switch tok {
		case token.LPAREN, token.LBRACK, token.LBRACE:
			lx.brk = append(lx.brk, off+1)
		case token.RPAREN, token.RBRACK, token.RBRACE:
			lx.brk = append(lx.brk, -(off + 1))
		case token.TILDE:
			lx.hasExt = true
		case token.IDENT:
			if lit == "macro" {
				lx.hasExt = true
			}
		case token.ILLEGAL:
			lx.hasExt = true
		}
		if tok == token.SEMICOLON && lit == "\n" {
			continue
		}
		end := off + len(lit)
		if lit == "" {
			end = off + len(tok.String())
		}
		if tok == token.COMMENT || (tok == token.STRING && lit[0] == '`') {
			// the literal may have lost carriage returns: find the real end in the text
			if tok == token.COMMENT && strings.HasPrefix(text[off:], "//") {
				if i := strings.IndexByte(text[off:], '\n'); i >= 0 {
					end = off + i
				} else {
					end = len(text)
				}
			} else if tok == token.COMMENT {
				end = off + 2 + strings.Index(text[off+2:], "*/") + 2
			} else {
				end = off + 1 + strings.IndexByte(text[off+1:], '`') + 1
			}
			if strings.IndexByte(text[off:end], '\n') >= 0 && !strings.HasPrefix(text[off:], "//") {
				lx.multi = append(lx.multi, [2]int{off, end})
			}
		}
		lx.toks = append(lx.toks, c26LexTok{off, end, tok})
	}
	return lx
}

// stateAt describes the lexical state at offset e: inside a multi-line token, and the bracket depth.
func (lx *c26Lex) stateAt(e int) (inside bool, depth int) {
	for _, m := range lx.multi {
		if m[0] < e && e < m[1] {
			inside = true
		}
	}
	for _, b := range lx.brk {
		if b > 0 && b-1 < e {
			depth++
		} else if b < 0 && -b-1 < e {
			depth--
		}
	}
	return
}

// lastTokenBefore returns the last non-comment token that ends at or before offset e.
func (lx *c26Lex) lastTokenBefore(e int) string {
	last := "none"
	for _, t := range lx.toks {
		if t.end > e {
			break
		}
		if t.tok != token.COMMENT {
			last = t.tok.String()
			if t.tok.IsLiteral() {
				last = strings.ToLower(t.tok.String())
			}
		}
	}
	return last
}

// firstToken returns the offset of the first non-comment token in text[lo:hi] relative to lo, or -1.
func (lx *c26Lex) firstToken(lo, hi int) int {
	for _, t := range lx.toks {
		if t.off >= lo && t.off < hi && t.tok != token.COMMENT {
			return t.off - lo
		}
	}
	return -1
}

// c26Extents returns the [pos,end) extents of the top-level statements (asStmts: text is a statement list, parsed inside
// a function body) or of the top-level declarations incl. the package clause (text is a file). ok=false: go/parser rejects.
func c26Extents(text string, asStmts bool) (ext [][2]int, ok bool) {
	fset := token.NewFileSet()
	if asStmts {
		const pre = "package p\nfunc _() {\n"
		f, err := stdparser.ParseFile(fset, "x.go", pre+text+"\n}\n", stdparser.SkipObjectResolution)
		if err != nil || len(f.Decls) != 1 {
			return nil, false
		}
		fd, _ := f.Decls[0].(*ast.FuncDecl)
		if fd == nil || fd.Body == nil {
			return nil, false
		}
		base := fset.File(f.Pos()).Base() + len(pre)
		if int(fd.Body.Rbrace)-base < len(text) {
			return nil, false // the text closed the function body itself
		}
		for _, s := range fd.Body.List {
			ext = append(ext, [2]int{int(s.Pos()) - base, int(s.End()) - base})
		}
		return ext, true
	}
	f, err := stdparser.ParseFile(fset, "x.go", text, stdparser.SkipObjectResolution)
	if err != nil {
		return nil, false
	}
	base := fset.File(f.Pos()).Base()
	ext = append(ext, [2]int{int(f.Package) - base, int(f.Name.End()) - base})
	for _, d := range f.Decls {
		ext = append(ext, [2]int{int(d.Pos()) - base, int(d.End()) - base})
	}
	return ext, true
}

func c26ParsesAlone(chunk string, asStmts bool) bool {
	fset := token.NewFileSet()
	var err error
	if asStmts {
		_, err = stdparser.ParseFile(fset, "x.go", "package p\nfunc _() {\n"+chunk+"\n}\n", stdparser.SkipObjectResolution)
	} else if strings.Contains(chunk, "package") {
		_, err = stdparser.ParseFile(fset, "x.go", chunk, stdparser.SkipObjectResolution)
		if err != nil {
			_, err = stdparser.ParseFile(fset, "x.go", "package p\n"+chunk, stdparser.SkipObjectResolution)
		}
	} else {
		_, err = stdparser.ParseFile(fset, "x.go", "package p\n"+chunk, stdparser.SkipObjectResolution)
	}
	return err == nil
}

// ---------------------------------------------------------------------------
// one input

type c26Case struct {
	Origin  string `json:"origin"`
	Text    string `json:"text"`
	AsStmts bool   `json:"statement_list"`
}

type c26Stats struct {
	evals, lossless, complete, chunks, exemptDot, notLexical, firstTokenDiff, deliveryDiff int64
}

// c26Check runs every delivery x option combination on one input text.
// complete: the text is a sequence of complete statements/declarations (go/parser accepts it).
func c26Check(vc *vcollector, ks *keyset, st *c26Stats, idx int64, origin, text string, asStmts bool) {
	c26CheckDeliveries(vc, st, idx, origin, text, asStmts, c26AllDeliveries)
}

// the line-by-line Readline comes first: its chunks are the reference for the deliveries that read the same text
// through a bufio.Reader (the chunks are a function of the text, not of buffer sizes or of how the source hands out bytes)
var c26AllDeliveries = []int{c26Scripted, c26Buf, c26BufNoNL, c26BufSmall, c26BufOneByte}
var c26BaseDeliveries = []int{c26Scripted, c26Buf, c26BufNoNL}

func c26CheckDeliveries(vc *vcollector, st *c26Stats, idx int64, origin, text string, asStmts bool, deliveries []int) {
	// the oracle works on the text as the reader is specified to return it
	oracleText := strings.Replace(text, "\u2029", "\n", -1)
	if strings.HasPrefix(oracleText, "#!") {
		oracleText = "//" + oracleText[2:]
	}
	lx := c26Scan(oracleText)
	if !lx.ok || lx.hasExt {
		st.notLexical++
		return // not Go source text (lexical error) or uses a lexical extension
	}
	ext, complete := c26Extents(oracleText, asStmts)
	if complete {
		st.complete++
	}
	isBoundary := func(e int) bool { // e = offset just behind a newline (or the end of the text)
		if e >= len(oracleText) {
			return true
		}
		nl := e - 1
		for _, x := range ext {
			if x[0] <= nl && nl < x[1] {
				return false
			}
		}
		return true
	}
	mk := func(delivery int, opts base.ReadOptions, what string) func() (string, interface{}) {
		return func() (string, interface{}) {
			q := "input " + strconv.Quote(text)
			if len(q) > 300 {
				q = fmt.Sprintf("input of %d bytes", len(text))
			}
			return fmt.Sprintf("%s [%s, opts=%d] %s: %s", origin, c26DeliveryName[delivery], opts, q, what), c26Case{Origin: origin, Text: text, AsStmts: asStmts}
		}
	}
	short := func(chunk string) string { // the last two lines of a chunk
		t := strings.TrimRight(chunk, "\n")
		if i := strings.LastIndexByte(t, '\n'); i >= 0 {
			if j := strings.LastIndexByte(t[:i], '\n'); j >= 0 {
				t = "…" + t[j+1:]
			}
		}
		if len(t) > 200 {
			t = "…" + t[len(t)-200:]
		}
		return strconv.Quote(t)
	}
	parses := map[string]bool{}
	parsesAlone := func(chunk string) bool {
		ok, seen := parses[chunk]
		if !seen {
			ok = c26ParsesAlone(chunk, asStmts)
			parses[chunk] = ok
		}
		return ok
	}
	var ref [2][]c26Chunk
	var refOK [2]bool
	for _, delivery := range deliveries {
		for oi, opts := range []base.ReadOptions{0, base.ReadOptCollectAllComments} {
			st.evals++
			tag := "ReadOptCollectAllComments off"
			if opts != 0 {
				tag = "ReadOptCollectAllComments on"
			}
			chunks, rerr, expected := c26Read(text, delivery, opts)
			if strings.HasPrefix(expected, "#!") {
				expected = "//" + expected[2:]
			}
			st.chunks += int64(len(chunks))
			if delivery == c26Scripted {
				ref[oi], refOK[oi] = chunks, rerr == ""
			} else if delivery != c26BufNoNL && refOK[oi] && rerr == "" && strings.HasSuffix(text, "\n") {
				if d := c26ChunksDiffer(ref[oi], chunks); d >= 0 {
					st.deliveryDiff++
					got, want := "nothing", "nothing"
					if d < len(chunks) {
						got = short(chunks[d].Text) + fmt.Sprintf(" (%d bytes, first token at %d)", len(chunks[d].Text), chunks[d].First)
					}
					if d < len(ref[oi]) {
						want = short(ref[oi][d].Text) + fmt.Sprintf(" (%d bytes, first token at %d)", len(ref[oi][d].Text), ref[oi][d].First)
					}
					vc.add(idx, "C26|chunks-depend-on-delivery|"+c26DeliveryName[delivery], mk(delivery, opts, fmt.Sprintf("%d chunks, the line-by-line Readline gives %d for the same text; chunk #%d is %s, line-by-line %s", len(chunks), len(ref[oi]), d, got, want)))
				}
			}
			var sb strings.Builder
			for _, ch := range chunks {
				sb.WriteString(ch.Text)
			}
			if rerr != "" {
				vc.add(idx, "C26|read-error|"+c26ErrClass(rerr), mk(delivery, opts, "ReadMultiline reports an error on lexically valid Go: "+rerr))
				continue
			}
			if sb.String() != expected {
				vc.add(idx, "C26|lossless|"+tag, mk(delivery, opts, fmt.Sprintf("concatenation of the %d chunks differs from the input: %s", len(chunks), short(sb.String()))))
				continue
			}
			st.lossless++
			off := 0
			for ci, ch := range chunks {
				lo := off
				off += len(ch.Text)
				if want := lx.firstToken(lo, off); want != ch.First {
					st.firstTokenDiff++
					if os.Getenv("VERIF_DUMP") == "first" && st.firstTokenDiff < 4 {
						fmt.Fprintf(os.Stderr, "FIRST %s opts=%d chunk %q: ReadMultiline %d, go/scanner %d\n", c26DeliveryName[delivery], opts, ch.Text, ch.First, want)
					}
				}
				if off >= len(expected) {
					break // the end of the input is always a legitimate end
				}
				if inside, depth := lx.stateAt(off); inside {
					vc.add(idx, "C26|ends-inside-token|"+tag, mk(delivery, opts, fmt.Sprintf("chunk #%d %s ends inside a raw string or comment", ci, short(ch.Text))))
					break
				} else if depth > 0 {
					vc.add(idx, "C26|ends-with-open-bracket|after "+lx.lastTokenBefore(off), mk(delivery, opts, fmt.Sprintf("chunk #%d %s ends with %d open bracket(s)", ci, short(ch.Text), depth)))
					break
				}
				if !complete {
					continue
				}
				if !isBoundary(off) {
					last := lx.lastTokenBefore(off)
					if last == "." {
						st.exemptDot++ // a trailing '.' is deliberately not treated as a continuation by the reader
						break
					}
					ctx := "first line of the chunk"
					if strings.Count(ch.Text, "\n") > 1 {
						ctx = "chunk has earlier lines"
					}
					vc.add(idx, "C26|cut|after "+last+"|"+ctx+"|"+tag, mk(delivery, opts, fmt.Sprintf("chunk #%d %s ends inside a statement (last token %s)", ci, short(ch.Text), last)))
					break
				}
				if ch.First >= 0 && !parsesAlone(ch.Text) {
					vc.add(idx, "C26|chunk-does-not-parse|"+tag, mk(delivery, opts, fmt.Sprintf("chunk #%d %s ends at a statement boundary but does not parse on its own", ci, short(ch.Text))))
					break
				}
			}
		}
	}
}

// c26ChunksDiffer returns the index of the first chunk that differs (text or first-token offset), -1 if none.
func c26ChunksDiffer(a, b []c26Chunk) int {
	for i := 0; i < len(a) || i < len(b); i++ {
		if i >= len(a) || i >= len(b) || a[i] != b[i] {
			return i
		}
	}
	return -1
}

func c26ErrClass(msg string) string {
	// unexpected character '\t' inside string literal
	if i := strings.Index(msg, " inside "); i >= 0 {
		j := strings.Index(msg, "'")
		if j >= 0 && j < i {
			return "unexpected character " + msg[j:i] + " inside" + msg[i+7:]
		}
	}
	return msg
}

func c26Replay(c *core.Ctx, raw json.RawMessage) {
	var cas c26Case
	if err := json.Unmarshal(raw, &cas); err != nil {
		panic(err)
	}
	vc := newVCollector()
	vc.keep = 12
	st := &c26Stats{}
	c26Check(vc, newKeyset(c), st, 0, cas.Origin, cas.Text, cas.AsStmts)
	vc.flush(c)
}
