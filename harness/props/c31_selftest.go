package props

// C31 part B engine self-test (vacuity guard): the tables of this platform contain no variadic proxy method and,
// on a correct tree, no faulty proxy at all, so the detector itself is exercised on hand-written proxies linked into
// the harness: one correct proxy (must pass every call of the same enumeration) and one deliberately wrong proxy per
// defect class (each must be reported with the expected class). A failing self-test is a harness error (panic), never
// a finding about gomacro.

import (
	"fmt"
	"reflect"

	"verif/harness/core"
)

type c31TestIface interface {
	A(x int) int
	B(x int) int
	V(a int, b string, rest ...interface{}) (int, error)
	W(x, y int) (int, int)
}

// correct proxy, same shape as the generated ones
type c31GoodProxy struct {
	Object interface{}
	A_     func(interface{}, int) int
	B_     func(interface{}, int) int
	V_     func(interface{}, int, string, ...interface{}) (int, error)
	W_     func(interface{}, int, int) (int, int)
}

func (p *c31GoodProxy) A(x int) int { return p.A_(p.Object, x) }
func (p *c31GoodProxy) B(x int) int { return p.B_(p.Object, x) }
func (p *c31GoodProxy) V(a int, b string, rest ...interface{}) (int, error) {
	return p.V_(p.Object, a, b, rest...)
}
func (p *c31GoodProxy) W(x, y int) (int, int) { return p.W_(p.Object, x, y) }

// wrong proxy: one defect per method
type c31BadProxy struct {
	Object interface{}
	A_     func(interface{}, int) int
	B_     func(interface{}, int) int
	V_     func(interface{}, int, string, ...interface{}) (int, error)
	W_     func(interface{}, int, int) (int, int)
}

func (p *c31BadProxy) A(x int) int { return p.B_(p.Object, x) } // forwards to the wrong field
func (p *c31BadProxy) B(x int) int { return p.B_(p, x) }        // passes the proxy instead of its Object
func (p *c31BadProxy) V(a int, b string, rest ...interface{}) (int, error) { // re-packs (copies) the variadic slice
	return p.V_(p.Object, a, b, append([]interface{}{}, rest...)...)
}
func (p *c31BadProxy) W(x, y int) (int, int) { return p.W_(p.Object, y, x) } // swaps the arguments

// second wrong proxy: result-side defects
type c31BadProxy2 struct {
	Object interface{}
	A_     func(interface{}, int) int
	B_     func(interface{}, int) int
	V_     func(interface{}, int, string, ...interface{}) (int, error)
	W_     func(interface{}, int, int) (int, int)
}

func (p *c31BadProxy2) A(x int) int { p.A_(p.Object, x); return p.A_(p.Object, x) } // calls twice
func (p *c31BadProxy2) B(x int) int { return p.B_(p.Object, x+0) + 1 }              // alters the result
func (p *c31BadProxy2) V(a int, b string, rest ...interface{}) (int, error) { // drops the first variadic argument
	if len(rest) > 0 {
		rest = rest[1:]
	}
	return p.V_(p.Object, a, b, rest...)
}
func (p *c31BadProxy2) W(x, y int) (int, int) { r0, r1 := p.W_(p.Object, x, y); return r1, r0 } // swaps the results

// c31EnumerateMethod runs the enumeration of part B for one method and returns the class of the first discrepancy ("" = none)
// and the number of calls made. It is the single implementation used by both the real run and the self-test.
func (s *c31Sentinels) enumerateMethod(pc *c31ProxyCase, meth reflect.Method, report func(kind, what string, argIdx, outIdx []int, varN int)) (calls int, perPositionOnly bool) {
	mt := meth.Type
	nin, nout := mt.NumIn(), mt.NumOut()
	argCombos, ex := c31Combos(nin)
	outCombos, _ := c31Combos(nout)
	// every argument combination, results rotating with the combination number
	for k, argIdx := range argCombos {
		outIdx := make([]int, nout)
		for r := range outIdx {
			outIdx[r] = (k + r) % 3
		}
		calls++
		if kind, what := s.proxyCall(pc, meth.Name, argIdx, outIdx, -1); kind != "" {
			report(kind, what, argIdx, outIdx, -1)
			return calls, !ex
		}
	}
	// every result combination with default arguments
	if nout > 0 {
		for _, outIdx := range outCombos {
			calls++
			if kind, what := s.proxyCall(pc, meth.Name, make([]int, nin), outIdx, -1); kind != "" {
				report(kind, what, make([]int, nin), outIdx, -1)
				return calls, !ex
			}
		}
	}
	// variadic methods: also the spread form with 0, 1, 2 individual arguments
	if mt.IsVariadic() {
		for varN := 0; varN <= 2; varN++ {
			calls++
			argIdx := make([]int, nin)
			for p := range argIdx {
				argIdx[p] = (p + varN) % 3
			}
			if kind, what := s.proxyCall(pc, meth.Name, argIdx, make([]int, nout), varN); kind != "" {
				report(kind, what, argIdx, make([]int, nout), varN)
				return calls, !ex
			}
		}
	}
	return calls, !ex
}

func c31ProxySelfTest(c *core.Ctx, s *c31Sentinels) {
	it := reflect.TypeOf((*c31TestIface)(nil)).Elem()
	expect := []struct {
		pt   reflect.Type
		want map[string]string // method -> expected class
	}{
		{reflect.TypeOf(c31GoodProxy{}), map[string]string{"A": "", "B": "", "V": "", "W": ""}},
		{reflect.TypeOf(c31BadProxy{}), map[string]string{"A": "called", "B": "object", "V": "variadic", "W": "args"}},
		{reflect.TypeOf(c31BadProxy2{}), map[string]string{"A": "called", "B": "results", "V": "variadic", "W": "results"}},
	}
	for _, e := range expect {
		pc := &c31ProxyCase{path: "verif/selftest", name: "c31TestIface", it: it, pt: e.pt}
		for mi := 0; mi < it.NumMethod(); mi++ {
			meth := it.Method(mi)
			got := ""
			detail := ""
			calls, _ := s.enumerateMethod(pc, meth, func(kind, what string, _, _ []int, _ int) { got, detail = kind, what })
			if got != e.want[meth.Name] {
				panic(fmt.Sprintf("C31 part B self-test: proxy %v method %s: detector reported %q (%s), expected %q", e.pt, meth.Name, got, detail, e.want[meth.Name]))
			}
			c.Count("B_selftest_calls", calls)
			if got != "" {
				c.Count("B_selftest_defects_detected", 1)
			}
		}
	}
}
