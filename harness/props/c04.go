package props

// C04 — untyped constant expressions are exact and agree with Go's constant arithmetic.
//
// Stage U (untyped): every tree of the bounded space (see c04_gen.go) is evaluated by std go/types
// (types.Eval: untyped kind + exact constant.Value) and by a real fast.Interp with OptKeepUntyped,
// which hands back the untyped.Lit. Kind and value (constant.Compare, exact) must agree; expressions
// Go rejects must be rejected.
// Stage T (typed): every distinct result × {var v T = e, T(e)} × 17 basic kinds: fits ⇒ identical typed
// value (bit-exact), does not fit ⇒ rejected; and × {*big.Int, *big.Rat, *big.Float}: exact whenever
// representable.

import (
	"encoding/json"
	"fmt"
	"go/constant"
	"go/token"
	"io/ioutil"
	"math"
	"math/big"
	"os"
	"path/filepath"
	"reflect"
	"runtime"
	"runtime/pprof"
	"sort"
	"strings"
	"sync"

	"github.com/cosmos72/gomacro/base"
	"github.com/cosmos72/gomacro/base/untyped"

	"verif/harness/core"
	"verif/harness/twin"
)

func init() {
	core.Register(&core.Check{ID: "C04", Level: "exploration", Workers: -1, Prepare: c04Prepare, Run: c04Run, Replay: c04Replay})
}

const c04RuleText = "stage U: all constant expression trees of depth<=2 (thorough: depth 3 over an 8-literal alphabet) over 35 literals, 4 unary and 19 binary operators, " +
	"sub-trees merged by (untyped kind, go/constant representation, exact value); each tree evaluated by go/types (types.Eval) and by fast.Interp with OptKeepUntyped; " +
	"stage T: each distinct result (+ boundary seeds) in 'var v T = e' and 'T(e)' for the 17 basic kinds and in *big.Int/*big.Rat/*big.Float contexts; " +
	"stage F (freshness, c04_fresh.go): constants of every go/constant representation converted to the mutable targets *big.Int/*big.Rat/*big.Float and string constants converted to byte/rune slices (unnamed and named), " +
	"in 26 site forms (var, conversion, assignment, return, argument, composite-literal element, send, multi-assignment, assignment to each place kind, interface, local/package-level/typed named constant); the site runs 3 times per call and " +
	"the function is called again after each of 8 (slices: 4) in-place mutations of an earlier result: every value handed out must be exact and a distinct object, untouched values must stay exact. " +
	"non-trivial = distinct (untyped kind, exact value) results of valid trees with at least one operator, distinct (operator, operand kinds, error class) of trees Go rejects, " +
	"distinct (value, context) pairs of stage T whose Go outcome is a rejection or a representation change (rounding, kind change, big conversion), and distinct (form, target, constant) cases of stage F in which at least one mutation changed the mutated value"

// ---------------------------------------------------------------------------
// plan: the blocks of one tier

type c04Plan struct {
	o       *c04Oracle
	lits    []*c04Node
	v1      []*c04Node // distinct level-1 results over the full alphabet (not literals)
	blocks  []*c04Block
	offsets []int // first global tree index of each block
	total   int
}

type c04Shared struct {
	Values []c04Stored `json:"values"` // distinct results of the depth-2 blocks u(L1) and L1 op lit (typed stage, thorough)
	V2s    []c04Stored `json:"v2s"`    // distinct depth<=2 results over the small alphabet (children of depth 3)
}

type c04Stored struct {
	Src   string `json:"s"`
	Kind  string `json:"k"`
	Depth int    `json:"d"`
}

func c04SharedPath(tier string) string {
	return filepath.Join(core.VerifDir, "work", "C04", "shared-"+tier+".json")
}

// c04MakePlan builds the block list. shared (thorough only) carries the merged results computed by Prepare.
func c04MakePlan(c *core.Ctx, shared *c04Shared) *c04Plan {
	p := &c04Plan{o: newC04Oracle()}
	o := p.o
	p.lits, p.v1 = c04Reps(o, c04Lits)
	p.blocks = append(p.blocks, c04Level1Blocks(p.lits)...)
	// depth 2
	p.blocks = append(p.blocks,
		&c04Block{Name: "u(L1)", Un: true, Ops: c04Unops, L: p.v1},
		&c04Block{Name: "L1 op lit", Ops: c04Binops, L: p.v1, R: p.lits},
		&c04Block{Name: "lit op L1", Ops: c04Binops, L: p.lits, R: p.v1})
	_, smallL1 := c04Reps(o, c04Small)
	p.blocks = append(p.blocks, &c04Block{Name: fmt.Sprintf("L1 op L1 (L1 over the %d-literal alphabet)", len(c04Small)), Ops: c04Binops, L: smallL1, R: smallL1})
	if c.Thorough() && shared != nil {
		// depth 3 over the small alphabet
		small := o.lits(c04Small)
		v2s := make([]*c04Node, len(shared.V2s))
		for i, s := range shared.V2s {
			v2s[i] = &c04Node{Src: s.Src, Kind: s.Kind, Depth: s.Depth}
		}
		p.blocks = append(p.blocks,
			&c04Block{Name: "u(L2 small)", Un: true, Ops: c04Unops, L: v2s},
			&c04Block{Name: "L2 small op lit", Ops: c04Binops, L: v2s, R: small},
			&c04Block{Name: "lit op L2 small", Ops: c04Binops, L: small, R: v2s})
		// depth 2, both operands of level 1, over the medium alphabet
		_, medL1 := c04Reps(o, c04Medium)
		p.blocks = append(p.blocks, &c04Block{Name: fmt.Sprintf("L1 op L1 (L1 over the %d-literal alphabet)", len(c04Medium)), Ops: c04Binops, L: medL1, R: medL1})
	}
	for _, b := range p.blocks {
		p.offsets = append(p.offsets, p.total)
		p.total += b.size()
	}
	return p
}

// c04SmallLevel2 returns the blocks whose merged results are the children of depth 3: all depth<=2 trees over the small alphabet.
func c04SmallLevel2(o *c04Oracle) (lits, l1 []*c04Node, blocks []*c04Block) {
	lits, l1 = c04Reps(o, c04Small)
	all := append(append([]*c04Node{}, lits...), l1...)
	blocks = []*c04Block{
		{Name: "u(L1 small)", Un: true, Ops: c04Unops, L: l1},
		{Name: "L<=1 op L<=1 small", Ops: c04Binops, L: all, R: all},
	}
	return
}

// c04ParallelMerge evaluates all trees of the blocks with go/types on all CPUs and returns the distinct valid
// results in order of first (lowest) tree index — deterministic whatever the goroutine interleaving.
func c04ParallelMerge(blocks []*c04Block, seen map[string]bool) []*c04Node {
	type item struct {
		idx int
		n   *c04Node
	}
	nw := runtime.NumCPU()
	var mu sync.Mutex
	best := map[string]item{}
	total := 0
	offs := make([]int, len(blocks))
	for i, b := range blocks {
		offs[i] = total
		total += b.size()
	}
	var wg sync.WaitGroup
	for w := 0; w < nw; w++ {
		wg.Add(1)
		go func(w int) {
			defer wg.Done()
			o := newC04Oracle()
			local := map[string]item{}
			for bi, b := range blocks {
				for i, n := 0, b.size(); i < n; i++ {
					g := offs[bi] + i
					if g%nw != w {
						continue
					}
					t := b.tree(o, i)
					if t.Err != "" || t.Excl {
						continue
					}
					k := t.key()
					if old, ok := local[k]; !ok || g < old.idx {
						local[k] = item{g, t}
					}
				}
			}
			mu.Lock()
			for k, it := range local {
				if old, ok := best[k]; !ok || it.idx < old.idx {
					best[k] = it
				}
			}
			mu.Unlock()
		}(w)
	}
	wg.Wait()
	order := make([]item, 0, len(best))
	for k, it := range best {
		if !seen[k] {
			order = append(order, it)
		}
	}
	sort.Slice(order, func(a, b int) bool { return order[a].idx < order[b].idx })
	out := make([]*c04Node, len(order))
	for i := range order {
		out[i] = order[i].n
		seen[order[i].n.key()] = true
	}
	return out
}

func c04Prepare(c *core.Ctx) error {
	if c.Quick() {
		return nil
	}
	os.MkdirAll(filepath.Dir(c04SharedPath(c.Tier)), 0o755)
	p := c04MakePlan(c, nil)
	var sh c04Shared
	// typed-stage population of the thorough tier: distinct results of the depth-2 blocks u(L1) and L1 op lit
	seen := map[string]bool{}
	c04Merge(seen, nil, p.lits)
	c04Merge(seen, nil, p.v1)
	for _, n := range c04ParallelMerge(p.blocks[2:4], seen) {
		sh.Values = append(sh.Values, c04Stored{n.Src, n.Kind, n.Depth})
	}
	// children of depth 3
	lits, l1, blocks := c04SmallLevel2(p.o)
	seen = map[string]bool{}
	c04Merge(seen, nil, lits)
	for _, n := range c04Merge(seen, nil, l1) {
		sh.V2s = append(sh.V2s, c04Stored{n.Src, n.Kind, n.Depth})
	}
	for _, n := range c04ParallelMerge(blocks, seen) {
		sh.V2s = append(sh.V2s, c04Stored{n.Src, n.Kind, n.Depth})
	}
	data, err := json.Marshal(&sh)
	if err != nil {
		return err
	}
	return ioutil.WriteFile(c04SharedPath(c.Tier), data, 0o644)
}

// ---------------------------------------------------------------------------
// interpreter side

type c04World struct {
	ir    *twin.Interp
	decls int
	big   bool
	// stage F
	fserial int
	ftypes  map[*twin.Interp]map[string]bool
}

func (w *c04World) interp(needBig bool) *twin.Interp {
	if w.ir == nil || w.decls > 3000 {
		w.ir = twin.NewFast()
		w.ir.Comp.Globals.Options |= base.OptKeepUntyped
		w.decls = 0
		w.big = false
	}
	if needBig && !w.big {
		w.ir.Eval(`import "math/big"`)
		w.big = true
	}
	w.ir.Out.Reset()
	return w.ir
}

type c04Got struct {
	Rejected string // non-empty: the interpreter refused the source (panic text)
	Untyped  bool   // result is an untyped constant
	Kind     string // untyped kind
	Val      constant.Value
	Value    interface{} // typed result
	Type     string
}

func c04UntypedKind(k untyped.Kind) string {
	switch k {
	case untyped.Bool:
		return "bool"
	case untyped.Int:
		return "int"
	case untyped.Rune:
		return "rune"
	case untyped.Float:
		return "float"
	case untyped.Complex:
		return "complex"
	case untyped.String:
		return "string"
	case untyped.None:
		return "nil"
	}
	return fmt.Sprint("kind", int(k))
}

func (w *c04World) eval(src string, needBig bool) (g c04Got) {
	ir := w.interp(needBig)
	perr := twin.Catch(func() {
		vs, ts := ir.Eval(src)
		if len(vs) == 0 || !vs[0].IsValid() {
			g.Rejected = "no value"
			return
		}
		x := vs[0].Interface()
		if l, ok := x.(untyped.Lit); ok {
			g.Untyped, g.Kind, g.Val = true, c04UntypedKind(l.Kind), l.Val
			return
		}
		g.Value = x
		if len(ts) > 0 && ts[0] != nil {
			g.Type = ts[0].String()
		}
	})
	if perr != nil {
		g = c04Got{Rejected: fmt.Sprint(perr)}
		if g.Rejected == "" {
			g.Rejected = "panic"
		}
	}
	return
}

func (g *c04Got) String() string {
	switch {
	case g.Rejected != "":
		return "rejected: " + oneLineC04(g.Rejected)
	case g.Untyped:
		s := "<nil constant.Value>"
		if g.Val != nil {
			s = g.Val.ExactString()
		}
		return fmt.Sprintf("untyped %s %s", g.Kind, s)
	}
	return fmt.Sprintf("typed <%s> %s", g.Type, c04Show(g.Value))
}

func oneLineC04(s string) string {
	s = strings.ReplaceAll(s, "\n", " ")
	if len(s) > 200 {
		s = s[:200] + "…"
	}
	return s
}

func c04Show(x interface{}) string {
	switch v := x.(type) {
	case float32:
		return fmt.Sprintf("%v (bits %#x)", v, math.Float32bits(v))
	case float64:
		return fmt.Sprintf("%v (bits %#x)", v, math.Float64bits(v))
	case complex64:
		return fmt.Sprintf("%v (bits %#x,%#x)", v, math.Float32bits(real(v)), math.Float32bits(imag(v)))
	case complex128:
		return fmt.Sprintf("%v (bits %#x,%#x)", v, math.Float64bits(real(v)), math.Float64bits(imag(v)))
	case string:
		return fmt.Sprintf("%q", v)
	case *big.Int:
		if v == nil {
			return "(*big.Int)(nil)"
		}
		return "big.Int " + c04Clip(v.String())
	case *big.Rat:
		if v == nil {
			return "(*big.Rat)(nil)"
		}
		return "big.Rat " + c04Clip(v.String())
	case *big.Float:
		if v == nil {
			return "(*big.Float)(nil)"
		}
		return fmt.Sprintf("big.Float prec=%d %s", v.Prec(), c04Clip(v.Text('p', 0)))
	}
	return fmt.Sprintf("%v", x)
}

func c04Clip(s string) string {
	if len(s) > 120 {
		return s[:60] + "…" + s[len(s)-40:] + fmt.Sprintf(" (%d chars)", len(s))
	}
	return s
}

// ---------------------------------------------------------------------------
// stage U

type c04Case struct {
	Stage string `json:"stage"` // "untyped" | "typed" | "big"
	Src   string `json:"src"`
	Op    string `json:"op,omitempty"`
	LK    string `json:"left_kind,omitempty"`
	RK    string `json:"right_kind,omitempty"`
	Form  string `json:"form,omitempty"` // var | conv
	T     string `json:"type,omitempty"`
	Want  string `json:"want_go"`
	Got   string `json:"got_interpreter"`
}

func c04ErrClass(err string) string {
	for _, k := range []string{"mismatched types", "not defined on", "division by zero", "negative shift count", "must be integer", "truncated", "cannot convert", "cannot use"} {
		if strings.Contains(err, k) {
			return k
		}
	}
	return "other"
}

// checkTree runs one tree on the interpreter and compares with Go's verdict (already in n).
func (w *c04World) checkTree(c *core.Ctx, n *c04Node) {
	switch {
	case n.Excl:
		c.Count("trees_excluded_documented_shift_limitation", 1)
		return
	case n.Err != "" && c04ImplLimit(n.Err):
		c.Count("trees_beyond_go_implementation_limits_no_verdict", 1)
		return
	}
	c.Eval(1)
	g := w.eval(n.Src, false)
	ops := c04OpFamily(n.Op) + "|" + c04KindClass(n.LK) + "," + c04KindClass(n.RK)
	cas := c04Case{Stage: "untyped", Src: n.Src, Op: n.Op, LK: n.LK, RK: n.RK, Got: g.String()}
	if n.Err != "" {
		c.Count("trees_go_rejects", 1)
		c.Nontrivial("rej|" + n.Op + "|" + n.LK + "," + n.RK + "|" + c04ErrClass(n.Err))
		cas.Want = "rejected: " + n.Err
		if g.Rejected == "" {
			c04Viol(c, "C04|untyped|accepts-invalid|"+ops, fmt.Sprintf("%s : Go rejects (%s), interpreter gives %s", n.Src, n.Err, g.String()), cas, n.Src, &g)
		}
		return
	}
	c.Count("trees_valid", 1)
	c.Count("trees_valid_depth"+fmt.Sprint(n.Depth), 1)
	if n.Depth > 0 {
		c.Nontrivial("u|" + n.Kind + "|" + n.Val.ExactString())
	}
	cas.Want = fmt.Sprintf("untyped %s %s", n.Kind, n.Val.ExactString())
	if c.WantSample() && n.Depth >= 2 && n.Val.Kind() != constant.Bool {
		c.Sample(map[string]string{"expr": n.Src, "go": cas.Want, "interpreter": g.String()})
	}
	switch {
	case g.Rejected != "":
		c04Viol(c, "C04|untyped|rejects-valid|"+ops, fmt.Sprintf("%s : Go gives %s, interpreter: %s", n.Src, cas.Want, g.String()), cas, n.Src, &g)
	case !g.Untyped:
		c04Viol(c, "C04|untyped|not-untyped|"+ops, fmt.Sprintf("%s : Go gives %s, interpreter (OptKeepUntyped): %s", n.Src, cas.Want, g.String()), cas, n.Src, &g)
	case g.Val == nil || !c04SameValue(n.Val, g.Val):
		c04Viol(c, "C04|untyped|value|"+ops, fmt.Sprintf("%s : Go gives %s, interpreter: %s", n.Src, cas.Want, g.String()), cas, n.Src, &g)
	case g.Kind != n.Kind:
		c04Viol(c, "C04|untyped|kind|"+ops+"|"+n.Kind+"->"+g.Kind, fmt.Sprintf("%s : Go gives %s, interpreter: %s", n.Src, cas.Want, g.String()), cas, n.Src, &g)
	}
}

// signature classes: comparison operators form one family; int and rune operands one class.
func c04OpFamily(op string) string {
	switch op {
	case "==", "!=", "<", "<=", ">", ">=":
		return "cmp"
	case "<<", ">>":
		return "shift"
	}
	return op
}

func c04KindClass(k string) string {
	switch k {
	case "int", "rune":
		return "integer"
	}
	return k
}

// c04SameValue: exact equality of two constants (never through float formatting).
func c04SameValue(a, b constant.Value) bool {
	ka, kb := a.Kind(), b.Kind()
	num := func(k constant.Kind) bool { return k == constant.Int || k == constant.Float || k == constant.Complex }
	if num(ka) && num(kb) {
		return constant.Compare(a, token.EQL, b)
	}
	if ka != kb {
		return false
	}
	switch ka {
	case constant.Bool:
		return constant.BoolVal(a) == constant.BoolVal(b)
	case constant.String:
		return constant.StringVal(a) == constant.StringVal(b)
	}
	return false
}

// ---------------------------------------------------------------------------
// run

func c04Run(c *core.Ctx) {
	c.Rule(c04RuleText)
	c.Assume("std go/types + go/constant of the installed toolchain (go1.23.5) are the reference for Go's constant arithmetic (the compiler uses the same packages' logic)",
		"an untyped operator node depends on its operands only through (untyped kind, go/constant representation, exact value): sub-trees with equal results are merged",
		"Go's implementation restrictions (integer constants > 512 bits, shift counts > 1074, exponents beyond big.Float) carry no verdict; shifts with an untyped float/complex left operand are excluded (documented limitation)")
	var shared *c04Shared
	if c.Thorough() {
		data, err := ioutil.ReadFile(c04SharedPath(c.Tier))
		if err != nil {
			panic(err)
		}
		shared = &c04Shared{}
		if err := json.Unmarshal(data, shared); err != nil {
			panic(err)
		}
	}
	p := c04MakePlan(c, shared)
	if c.Shard == 0 {
		sizes := map[string]int{}
		for _, b := range p.blocks {
			sizes[b.Name] = b.size()
		}
		c.Set("blocks", sizes)
		c.Set("trees_total", p.total)
		c.Set("distinct_level1_results", len(p.v1)+len(p.lits))
	}
	if pf := os.Getenv("VERIF_C04_PROF"); pf != "" && c.Shard == 0 {
		f, _ := os.Create(pf)
		pprof.StartCPUProfile(f)
		defer pprof.StopCPUProfile()
	}
	w := &c04World{}
	only := os.Getenv("VERIF_C04_ONLY") // debugging aid: "untyped", "typed", "fresh" or "deep" restricts the run to one phase (the run is then marked non-exhaustive)
	if only != "" {
		c.Cap("VERIF_C04_ONLY=" + only)
	}
	// order: level 1, the typed stage, depth 2, then (thorough) the deeper blocks: if the internal deadline
	// cuts a run short, the cheapest and most varied parts have been covered completely.
	done := 0
	runBlocks := func(from, to int) bool {
		for bi := from; bi < to && bi < len(p.blocks); bi++ {
			b, off := p.blocks[bi], p.offsets[bi]
			for i, n := 0, b.size(); i < n; i++ {
				if !c.Mine(off + i) {
					continue
				}
				if done++; done&255 == 0 && c.Expired() {
					return false
				}
				w.checkTree(c, b.tree(p.o, i))
			}
		}
		return true
	}
	if only == "" || only == "untyped" {
		if !runBlocks(0, c04Level1Blocks_) {
			return
		}
	}
	if only == "" || only == "typed" {
		values := c04TypedPopulation(p, shared)
		if c.Shard == 0 {
			c.Set("typed_stage_values", len(values))
		}
		for i, v := range values {
			if !c.Mine(i) {
				continue
			}
			if c.Expired() {
				return
			}
			if v.Val == nil {
				v.Kind, v.Val, v.Err = p.o.eval(v.Src)
				if v.Err != "" {
					panic("C04: stored value no longer valid: " + v.Src + ": " + v.Err)
				}
			}
			w.checkTyped(c, p.o, v)
		}
	}
	if only == "" || only == "fresh" {
		w.runFresh(c, p.o)
		if c.Expired() {
			return
		}
	}
	if only == "" || only == "untyped" {
		if !runBlocks(c04Level1Blocks_, c04Depth2Blocks) {
			return
		}
	}
	if only == "" || only == "deep" {
		runBlocks(c04Depth2Blocks, len(p.blocks))
	}
}

// block indices: [0,2) level 1, [2,6) depth 2, [6,..) thorough-only blocks
const (
	c04Level1Blocks_ = 2
	c04Depth2Blocks  = 6
)

func c04Replay(c *core.Ctx, raw json.RawMessage) {
	var cas c04Case
	if err := json.Unmarshal(raw, &cas); err != nil {
		panic(err)
	}
	if cas.Stage == "fresh" {
		var fc c04FCase
		if err := json.Unmarshal(raw, &fc); err != nil {
			panic(err)
		}
		c04FreshReplay(c, &fc)
		return
	}
	o := newC04Oracle()
	w := &c04World{}
	n := &c04Node{Src: cas.Src, Op: cas.Op, LK: cas.LK, RK: cas.RK, Depth: 1}
	n.Kind, n.Val, n.Err = o.eval(n.Src)
	switch cas.Stage {
	case "untyped":
		w.checkTree(c, n)
	default:
		w.checkTypedOne(c, o, n, cas.Form, cas.T)
	}
}

var _ = reflect.TypeOf

// c04Viol reports a violation; with VERIF_C04_SURVEY=1 it also counts every signature (debugging aid for triage).
// A violation that is going to be recorded (the framework keeps the first 20 per worker) is first re-run on a fresh
// interpreter: a different outcome there is reported as nondeterminism instead.
func c04Viol(c *core.Ctx, sig, what string, cas c04Case, rerun string, got *c04Got) {
	if os.Getenv("VERIF_C04_SURVEY") != "" {
		c.Count("survey:"+sig, 1)
		c.Set("ex:"+sig, what)
	}
	if c.Violations() < 20 && rerun != "" {
		fresh := &c04World{}
		g2 := fresh.eval(rerun, cas.Stage == "big")
		if g2.String() != got.String() {
			c.Violation("C04|nondeterministic", fmt.Sprintf("%s gave %s, then on a fresh interpreter %s", rerun, got.String(), g2.String()), cas)
			return
		}
	}
	c.Violation(sig, what, cas)
}
