package props

// Shared by C12, C13 and C19: the hidden-state snapshot of the interpreter's Run (through the
// verif-only hook fast.VerifRunInfo, hooks/c12-runstate.diff), the invariant on it, and the fixed
// battery of evaluations whose results must not depend on what the interpreter went through before.

import (
	"fmt"
	"go/token"
	"sort"
	"strings"

	"github.com/cosmos72/gomacro/base"
	"github.com/cosmos72/gomacro/fast"

	"verif/harness/h"
	"verif/harness/twin"
)

// c12State is the JSON-able snapshot of the hidden per-goroutine state.
type c12State map[string]interface{}

func c12Snap(ir *fast.Interp) c12State { return c12State(fast.VerifRunInfo(ir)) }

func (s c12State) String() string {
	ks := make([]string, 0, len(s))
	for k := range s {
		ks = append(ks, k)
	}
	sort.Strings(ks)
	var sb strings.Builder
	for _, k := range ks {
		fmt.Fprintf(&sb, "%s=%v ", k, s[k])
	}
	return strings.TrimSpace(sb.String())
}

// fields that must be equal to the idle value they had before the evaluation ran
var c12StrictFields = []string{"ExecFlags", "SigDebug", "SigAsync", "CurrEnvNil", "CurrEnvIsTop", "CurrEnvDepth",
	"InstallDeferNil", "DeferOfFunNil", "DebugDepth", "TopCallDepth", "TopCallerNil"}

// fields that must be zero/false whatever happened (consistency of the pool of recycled frames)
var c12ZeroFields = []string{"PoolNilBelow", "PoolNonNilAbove", "PoolDup", "PoolDirty", "PoolUsedByClosure", "PoolLive", "PoolOutOfRange"}

// fields that are recorded but not required: PoolSize is a cache level (frames of an aborted call are simply not
// recycled); Run.PanicFun/Run.Panic keep the last escaped panic (recover() can only see them from a deferred call of
// exactly that frame, which is gone; they are overwritten by the next panic) and Run.Interrupt is re-initialised by
// every executor entry. None of them can be observed by a later evaluation; they are counted as observations.
// Signals.Sync can be left at SigReturn when the exit poll of a frame turns a pending interrupt into a panic; it is
// cleared by prepareEnv and by every executor entry before anything reads it.
var c12LooseFields = []string{"PoolSize", "PanicFunNil", "PanicNil", "InterruptNil", "SigSync"}

// c12Invariant returns the list of violated fields ("field: idle=.. now=..").
func c12Invariant(idle, now c12State) []string {
	var bad []string
	for _, f := range c12StrictFields {
		if fmt.Sprint(idle[f]) != fmt.Sprint(now[f]) {
			bad = append(bad, fmt.Sprintf("%s: idle=%v now=%v", f, idle[f], now[f]))
		}
	}
	for _, f := range c12ZeroFields {
		if s := fmt.Sprint(now[f]); s != "0" && s != "false" {
			bad = append(bad, fmt.Sprintf("%s: want 0 now=%v", f, now[f]))
		}
	}
	return bad
}

// c12BadFields extracts the field names from c12Invariant's output (for signatures).
func c12BadFields(bad []string) string {
	var fs []string
	for _, b := range bad {
		fs = append(fs, b[:strings.Index(b, ":")])
	}
	return strings.Join(fs, ",")
}

// ---------------------------------------------------------------------------
// recording debugger stub used by the battery: steps (or continues) and records what it is shown

type c12Stub struct {
	g     *base.Globals
	step  bool
	calls int
	log   []string
	limit int
}

func (d *c12Stub) note(kind string, env *fast.Env) {
	d.calls++
	if d.calls > 500000 {
		panic("C12-STEP-BUDGET: debugger consulted 500000 times in one evaluation")
	}
	p := token.NoPos
	if env.IP < len(env.DebugPos) {
		p = env.DebugPos[env.IP]
	}
	if p == token.NoPos {
		return // synthetic statement
	}
	if len(d.log) < d.limit {
		_, pos := d.g.Fileset.Source(p)
		d.log = append(d.log, fmt.Sprintf("%s@%d:%d", kind, env.CallDepth, pos.Line))
	}
}

func (d *c12Stub) At(ir *fast.Interp, env *fast.Env) fast.DebugOp {
	d.note("at", env)
	if d.step {
		return fast.DebugOpStep
	}
	return fast.DebugOpContinue
}

func (d *c12Stub) Breakpoint(ir *fast.Interp, env *fast.Env) fast.DebugOp {
	d.note("bp", env)
	if d.step {
		return fast.DebugOpStep
	}
	return fast.DebugOpContinue
}

// ---------------------------------------------------------------------------
// the battery

type c12Item struct {
	Name string
	Src  string
	Mode string // "" Eval | "debug" DebugExpr under a stepping stub | "bp" Eval under a continuing stub | "optdbg" set OptDebugger
}

// every item is self-contained or uses only definitions made by earlier items of the battery
var c12Battery = []c12Item{
	// The first items take EVERY frame of the pool of recycled frames (32) for a function that does not panic and whose
	// deferred call recovers: whatever an earlier, aborted evaluation left attached to a recycled frame (it may have been
	// registered as "the panicking function") shows up as a non-nil recover(). The recursion is started from top level,
	// so that the first frame taken from the pool already belongs to such a function.
	{"pool-drain-decl", `var c12acc []interface{}; func c12drainRec(acc *[]interface{}) { *acc = append(*acc, recover()) }; ` +
		`func c12drain(n int, acc *[]interface{}) { defer c12drainRec(acc); if n > 0 { c12drain(n-1, acc) } }; ` +
		`func c12nonnil(l []interface{}) (n int) { for _, x := range l { if x != nil { n++ } }; return n }`, ""},
	{"pool-drain-recover-nil", `c12drain(40, &c12acc); O(len(c12acc), c12nonnil(c12acc))`, ""},
	{"pool-drain-closure-recover-nil", `O(func() (bad int) { var f func(n int); f = func(n int) { defer func() { if recover() != nil { bad++ } }(); if n > 0 { f(n - 1) } }; f(40); return }())`, ""},
	{"defer-order", `O(func() (s string) { for i := 0; i < 3; i++ { defer func(i int) { s += string(rune('a' + i)) }(i) }; return "x" }())`, ""},
	{"recover-in-defer", `O(func() (r interface{}) { defer func() { r = recover() }(); panic("p") }())`, ""},
	{"recover-outside-defer", `O(func() (r interface{}) { r = recover(); return }())`, ""},
	{"recover-nested-not-deferred", `O(func() (r interface{}) { defer func() { r = recover() }(); defer func() { func() { O(recover()) }() }(); panic("q") }())`, ""},
	{"panic-replaced-in-defer", `O(func() (r interface{}) { defer func() { r = recover() }(); defer func() { panic("second") }(); panic("first") }())`, ""},
	{"recover-rethrow-recover", `O(func() (r interface{}) { defer func() { r = recover() }(); func() { defer func() { x := recover(); S("inner"); O(x); panic("again") }(); panic(1) }(); return "notreached" }())`, ""},
	{"recover-twice", `O(func() (r interface{}) { defer func() { a := recover(); b := recover(); r = []interface{}{a, b} }(); panic("once") }())`, ""},
	{"defer-without-panic-recover-nil", `O(func() (r interface{}) { r = "unset"; defer func() { r = recover() }(); return "ret" }())`, ""},
	{"closure-counter", `O(func() int { c := 0; inc := func() int { c++; return c }; inc(); inc(); return inc() }())`, ""},
	{"named-result-defer", `O(func() (x int) { defer func() { x *= 2 }(); x = 21; return x }())`, ""},
	{"named-result-recover-runtime", `O(func() (x int, e interface{}) { defer func() { if r := recover(); r != nil { e = "recovered"; x = -1 } }(); var a []int; _ = a[3]; return 7, nil }())`, ""},
	{"defer-args-evaluated-early", `O(func() (s []int) { for i := 0; i < 3; i++ { defer func(j int) { s = append(s, j) }(i * 10) }; return nil }())`, ""},
	{"recursion-with-defers", `func c12rec(n int, acc *[]int) int { defer func() { *acc = append(*acc, n) }(); if n == 0 { return 0 }; return n + c12rec(n-1, acc) }`, ""},
	{"recursion-with-defers-run", `O(func() (int, []int) { var acc []int; v := c12rec(4, &acc); return v, acc }())`, ""},
	{"global-var-and-func", `var c12g = 10; func c12inc() int { c12g++; return c12g }`, ""},
	{"global-var-and-func-run", `O(c12inc(), c12inc(), c12g)`, ""},
	{"uncaught-panic-with-defers", `(func() { defer S("d1"); defer func() { S("d2") }(); func() { defer S("d3"); var m map[string]int; m["a"] = 1 }(); S("notreached") })()`, ""},
	{"after-uncaught-panic", `O(1 + 1)`, ""},
	{"long-loop-slow-phase", `O(func() int { s := 0; for i := 0; i < 200; i++ { s += i }; return s }())`, ""},
	{"long-loop-with-calls-and-defers", `O(func() int { s := 0; f := func(i int) (r int) { defer func() { r++ }(); return i }; for i := 0; i < 60; i++ { s += f(i) }; return s }())`, ""},
	{"select-switch-range", `O(func() (s int) { ch := make(chan int, 1); for i, v := range []int{3, 4, 5} { select { case x := <-ch: s += x; default: ch <- v }; switch { case i == 1: s += 100; default: s++ } }; return }())`, ""},
	{"method-and-interface", `type c12T struct{ n int }; func (t *c12T) Inc() int { t.n++; return t.n }; type c12I interface{ Inc() int }`, ""},
	{"method-and-interface-run", `O(func() int { var i c12I = &c12T{5}; i.Inc(); return i.Inc() }())`, ""},
	{"compiled-callback", `hcb(func() { defer S("cb-defer"); S("cb") }); O(hv())`, ""},
	{"optdebugger-on", ``, "optdbg"},
	{"debug-decl", "func c12d(n int) int {\n\tif n == 0 {\n\t\treturn 1\n\t}\n\tdefer S(\"dd\")\n\treturn n * c12d(n-1)\n}", ""},
	{"debug-step-call-depth", `O(c12d(2))`, "debug"},
	{"after-debug-normal-eval", `O(c12d(3))`, "bp"},
	{"breakpoint-call-depth", "func c12b(n int) int {\n\tif n == 0 {\n\t\t\"break\"\n\t\treturn 0\n\t}\n\treturn 1 + c12b(n-1)\n}", ""},
	{"breakpoint-call-depth-run", `O(c12b(2))`, "bp"},
	{"debug-panic-in-step-mode", `O(func() (r interface{}) { defer func() { r = recover(); return }(); var p *int; return *p }())`, "debug"},
	{"final-plain", `O(c12inc(), len(c12rec2()))`, ""},
}

func init() {
	// c12rec2 is declared together with c12rec's companion so that "final-plain" exercises a function declared early
	for i := range c12Battery {
		if c12Battery[i].Name == "recursion-with-defers" {
			c12Battery[i].Src += `; func c12rec2() []int { var acc []int; c12rec(2, &acc); return acc }`
		}
	}
}

// c12World is one interpreter with the fault-injecting hooks of C12/C13 declared.
type c12World struct {
	t  *twin.Interp
	ir *fast.Interp
	// fault injection
	n      int // dynamic calls of the hooks so far
	k      int // the k-th call faults (0 = never)
	fault  func(w *c12World)
	fired  bool
	lastCB int
}

type c12Boom struct{ K int }

func (b c12Boom) String() string { return fmt.Sprintf("boom#%d", b.K) }

func newC12World() *c12World {
	w := &c12World{t: twin.NewFast()}
	w.ir = w.t.Interp
	tick := func() {
		w.n++
		if w.n == w.k && w.fault != nil {
			w.fired = true
			w.fault(w)
		}
	}
	w.ir.DeclFunc("h", func() { tick() })
	w.ir.DeclFunc("hv", func() int { tick(); return 1 })
	w.ir.DeclFunc("hi", func(cnt int) { w.lastCB = cnt; tick() })
	w.ir.DeclFunc("hcb", func(f func()) { f() })
	return w
}

func (w *c12World) arm(k int, fault func(w *c12World)) {
	w.n, w.k, w.fault, w.fired = 0, k, fault, false
}

func c12PanicFault(w *c12World) { panic(c12Boom{w.k}) }

// runBattery evaluates the battery and returns one canonical result string per item, followed by the
// invariant status of the hidden state after the whole battery.
func (w *c12World) runBattery() []string {
	w.arm(0, nil)
	ir := w.ir
	g := &ir.Comp.Globals
	res := make([]string, 0, len(c12Battery)+1)
	for _, it := range c12Battery {
		if it.Mode == "optdbg" {
			g.Options |= base.OptDebugger
			res = append(res, "ok")
			continue
		}
		var stub *c12Stub
		if it.Mode != "" {
			stub = &c12Stub{g: g, step: it.Mode == "debug", limit: 200}
			ir.SetDebugger(stub)
		} else {
			// a debugger must never be consulted by a plain evaluation
			stub = &c12Stub{g: g, limit: 50}
			ir.SetDebugger(stub)
		}
		var e *fast.Expr
		out := ""
		if perr := twin.Catch(func() { e = ir.Compile(it.Src) }); perr != nil {
			out = "COMPILE-ERROR " + fmt.Sprint(perr)
		} else {
			out = h.Exec(func() {
				if it.Mode == "debug" {
					ir.DebugExpr(e)
				} else {
					ir.RunExpr(e)
				}
			})
		}
		if it.Mode != "" || stub.calls != 0 {
			out += fmt.Sprintf(" dbg[%d]=%s", stub.calls, strings.Join(stub.log, ","))
		}
		res = append(res, out)
	}
	// bring the interpreter back to non-debug idle, then look at the hidden state
	h.Exec(func() { ir.Eval("1") })
	st := c12Snap(ir)
	var parts []string
	for _, f := range append(append([]string{}, c12StrictFields...), c12ZeroFields...) {
		parts = append(parts, fmt.Sprintf("%s=%v", f, st[f]))
	}
	res = append(res, strings.Join(parts, " "))
	return res
}

// c12BatteryNames returns the item name for index i of runBattery's result.
func c12BatteryName(i int) string {
	if i < len(c12Battery) {
		return c12Battery[i].Name
	}
	return "state-after-battery"
}

// c12DiffBattery compares two battery results; returns index of the first difference or -1.
func c12DiffBattery(want, got []string) int {
	for i := range want {
		if i >= len(got) || want[i] != got[i] {
			return i
		}
	}
	if len(got) != len(want) {
		return len(want)
	}
	return -1
}
