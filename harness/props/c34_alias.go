package props

// C34 part 2b: memory-sharing scenarios. The builtins append / copy / slicing are specified not only by the values
// they return but by WHICH memory the result uses: append writes in place when the capacity suffices and returns
// fresh memory (shared with neither operand) otherwise; copy is a memmove (overlapping operands); a slice expression
// shares the operand's array. Values, length and capacity cannot tell these apart, so every scenario below reports
//   * the complete sharing relation (pointer identity over the full-capacity windows) between each result and each
//     slice operand, and between the results of two evaluations of the same call site,
//   * the effect of a write through every slot of the result's full capacity on the operands' full-capacity windows
//     (extra tuple elements that are not passed to the function: they only make the backing arrays observable),
// for receivers/operands that are independent, that overlap inside one array at every small offset, or that are the
// same slice. The reference is the builtin, run on identically laid out operands.

import (
	"fmt"

	"verif/harness/h"
)

// c34Share describes how two slices share memory: the first pair of identical slots of their full-capacity windows
// (one of the two indexes is 0), or "disjoint". A slice of capacity 0 has no slot.
func c34Share[E any](a, b []E) string {
	a, b = a[:cap(a)], b[:cap(b)]
	for i := range a {
		for j := range b {
			if &a[i] == &b[j] {
				return fmt.Sprintf("shared[%d~%d]", i, j)
			}
		}
	}
	return "disjoint"
}

// c34Poke writes a distinct sentinel through every slot of r's full capacity.
func c34Poke[E any](r []E, mk func(int) E, from int) {
	r = r[:cap(r)]
	for i := range r {
		r[i] = mk(from + i)
	}
}

// c34Lay is one memory layout of (receiver, operand): rfull/ofull are the full backing arrays.
type c34Lay[E any] struct {
	recv, other, rfull, ofull []E
}

func c34Layouts[E any](mk func(int) E) []c34Lay[E] {
	var out []c34Lay[E]
	mkN := func(n, c, from int) []E {
		s := make([]E, n, c)
		for i := range s[:c] {
			s[:c][i] = mk(from + i)
		}
		return s
	}
	// independent operands
	nRecv, nOther := 8, 5
	for ri := 0; ri < nRecv; ri++ {
		for oi := 0; oi < nOther; oi++ {
			var l c34Lay[E]
			switch ri {
			case 0: // nil
			case 1:
				l.recv = []E{}
			case 2: // capacity 0 inside a non-empty array
				l.rfull = mkN(3, 3, 0)
				l.recv = l.rfull[:0:0]
			case 3: // empty, spare capacity
				l.rfull = mkN(3, 3, 0)
				l.recv = l.rfull[:0]
			case 4:
				l.rfull = mkN(1, 1, 0)
				l.recv = l.rfull
			case 5:
				l.rfull = mkN(5, 5, 0)
				l.recv = l.rfull[:3]
			case 6:
				l.rfull = mkN(3, 3, 0)
				l.recv = l.rfull
			case 7: // capacity limited by a 3-index slice in the middle of a larger array
				l.rfull = mkN(6, 6, 0)
				l.recv = l.rfull[1:3:5]
			}
			switch oi {
			case 0:
			case 1:
				l.other = []E{}
			case 2:
				l.ofull = mkN(1, 1, 20)
				l.other = l.ofull
			case 3: // operand with spare capacity
				l.ofull = mkN(5, 5, 20)
				l.other = l.ofull[:2]
			case 4:
				l.ofull = mkN(3, 3, 20)
				l.other = l.ofull
			}
			out = append(out, l)
		}
	}
	// both operands inside one array of 6, every small offset
	for i := 0; i <= 1; i++ {
		for j := i; j <= i+2; j++ {
			for _, k := range []int{j, j + 1, 6} {
				for p := 0; p <= 2; p++ {
					for q := p; q <= p+2; q++ {
						base := mkN(6, 6, 0)
						out = append(out, c34Lay[E]{recv: base[i:j:k], other: base[p:q], rfull: base, ofull: base})
					}
				}
			}
		}
	}
	return out
}

func sliceAliasScens[E comparable](en string, mk func(int) E) []c34Scen {
	T := "[]" + en
	var out []c34Scen
	add := func(name, src string, nin int, args func() [][]interface{}, ref func(a []interface{}) []interface{}, post func(a, res []interface{}) []interface{}) {
		out = append(out, c34Scen{name: T + "." + name, src: src, nin: nin, args: args, ref: ref, post: post})
	}
	// tuples: (receiver, operand, receiver's array, operand's array); only the first nin are passed
	lays := func() [][]interface{} {
		var r [][]interface{}
		for _, l := range c34Layouts(mk) {
			r = append(r, []interface{}{l.recv, l.other, l.rfull, l.ofull})
		}
		return r
	}
	// results are all slices; report value (growth-normalised), sharing with both operands and among the results, then
	// write through every slot of every result (the tuple printed afterwards shows what the writes reached)
	postAny := func(growth bool) func(a, res []interface{}) []interface{} {
		return func(a, res []interface{}) []interface{} {
			recv, other := a[0].([]E), a[1].([]E)
			var o []interface{}
			for i, ri := range res {
				r := ri.([]E)
				if growth {
					// the capacity after a growing append is implementation-defined
					o = append(o, h.Fmt(normGrown(recv, r)))
				} else {
					o = append(o, h.Fmt(r))
				}
				o = append(o, "recv:"+c34Share(r, recv), "arg:"+c34Share(r, other))
				for j := 0; j < i; j++ {
					o = append(o, fmt.Sprintf("res%d:%s", j, c34Share(r, res[j].([]E))))
				}
			}
			for i, ri := range res {
				c34Poke(ri.([]E), mk, 50+10*i)
			}
			for _, ri := range res {
				r := ri.([]E)
				o = append(o, "after:"+h.Fmt(append([]E{}, r...)))
			}
			return o
		}
	}
	postSlices, postExact := postAny(true), postAny(false)
	add("Append(o...)/memory", fmt.Sprintf("(func(s %s, o %s) %s { return s.Append(o...) })", T, T, T), 2, lays,
		func(a []interface{}) []interface{} { return []interface{}{append(a[0].([]E), a[1].([]E)...)} }, postSlices)
	add("Append(o...)/method value", fmt.Sprintf("(func(s %s, o %s) %s { f := s.Append; return f(o...) })", T, T, T), 2, lays,
		func(a []interface{}) []interface{} { return []interface{}{append(a[0].([]E), a[1].([]E)...)} }, postSlices)
	add("Append(o...)/same call site twice", fmt.Sprintf("(func(s %s, o %s) (%s, %s) { var rs [2]%s; for i := 0; i < 2; i++ { rs[i] = s.Append(o...) }; return rs[0], rs[1] })", T, T, T, T, T), 2, lays,
		func(a []interface{}) []interface{} {
			var rs [2][]E
			for i := 0; i < 2; i++ {
				rs[i] = append(a[0].([]E), a[1].([]E)...)
			}
			return []interface{}{rs[0], rs[1]}
		}, postSlices)
	add("Append(o...).Append(o...)", fmt.Sprintf("(func(s %s, o %s) %s { return s.Append(o...).Append(o...) })", T, T, T), 2, lays,
		func(a []interface{}) []interface{} {
			return []interface{}{append(append(a[0].([]E), a[1].([]E)...), a[1].([]E)...)}
		}, postSlices)
	// the receiver is its own operand
	selfLays := func() [][]interface{} {
		var r [][]interface{}
		seen := map[string]bool{}
		for _, l := range c34Layouts(mk) {
			key := fmt.Sprint(len(l.recv), cap(l.recv), len(l.rfull), l.recv == nil)
			if seen[key] {
				continue
			}
			seen[key] = true
			r = append(r, []interface{}{l.recv, l.recv, l.rfull, l.rfull})
		}
		return r
	}
	add("Append(s...)/self", fmt.Sprintf("(func(s %s) %s { return s.Append(s...) })", T, T), 1, selfLays,
		func(a []interface{}) []interface{} { return []interface{}{append(a[0].([]E), a[0].([]E)...)} }, postSlices)
	// explicit arguments: 1 and 2 values, the same call site evaluated twice (the argument slice must be fresh each time)
	recvOnly := func() [][]interface{} {
		var r [][]interface{}
		seen := map[string]bool{}
		for _, l := range c34Layouts(mk) {
			key := fmt.Sprint(len(l.recv), cap(l.recv), len(l.rfull), l.recv == nil)
			if seen[key] {
				continue
			}
			seen[key] = true
			var none []E
			r = append(r, []interface{}{l.recv, none, l.rfull, none, mk(8), mk(9)})
		}
		return r
	}
	add("Append(a)/memory", fmt.Sprintf("(func(s %s, o %s, u %s, w %s, a %s) %s { return s.Append(a) })", T, T, T, T, en, T), 5, recvOnly,
		func(a []interface{}) []interface{} { return []interface{}{append(a[0].([]E), a[4].(E))} }, postSlices)
	add("Append(a,b)/same call site twice", fmt.Sprintf("(func(s %s, o %s, u %s, w %s, a, b %s) (%s, %s) { var rs [2]%s; for i := 0; i < 2; i++ { rs[i] = s.Append(a, b) }; return rs[0], rs[1] })", T, T, T, T, en, T, T, T), 6, recvOnly,
		func(a []interface{}) []interface{} {
			var rs [2][]E
			for i := 0; i < 2; i++ {
				rs[i] = append(a[0].([]E), a[4].(E), a[5].(E))
			}
			return []interface{}{rs[0], rs[1]}
		}, postSlices)
	add("Append()/memory", fmt.Sprintf("(func(s %s, o %s) %s { return s.Append() })", T, T, T), 2, recvOnly,
		func(a []interface{}) []interface{} { var none []E; return []interface{}{append(a[0].([]E), none...)} }, postSlices)
	// copy is a memmove: overlapping operands at every offset, in both directions
	add("Copy/memory", fmt.Sprintf("(func(s %s, o %s) { s.Copy(o) })", T, T), 2, lays,
		func(a []interface{}) []interface{} { copy(a[0].([]E), a[1].([]E)); return nil }, nil)
	// slicing shares the operand's array
	sliceArgs := func(ix []int, three bool) func() [][]interface{} {
		return func() [][]interface{} {
			var r [][]interface{}
			var none []E
			seen := map[string]bool{}
			for _, l := range c34Layouts(mk) {
				key := fmt.Sprint(len(l.recv), cap(l.recv), len(l.rfull), l.recv == nil)
				if seen[key] {
					continue
				}
				seen[key] = true
				for _, i := range ix {
					for _, j := range ix {
						if !three {
							r = append(r, []interface{}{l.recv, none, l.rfull, none, i, j})
							continue
						}
						for _, k := range ix {
							r = append(r, []interface{}{l.recv, none, l.rfull, none, i, j, k})
						}
					}
				}
			}
			return r
		}
	}
	add("Slice/memory", fmt.Sprintf("(func(s %s, o %s, u %s, w %s, i, j int) %s { return s.Slice(i, j) })", T, T, T, T, T), 6, sliceArgs([]int{0, 1, 2, 3, 5}, false),
		func(a []interface{}) []interface{} { return []interface{}{a[0].([]E)[a[4].(int):a[5].(int)]} }, postExact)
	add("Slice3/memory", fmt.Sprintf("(func(s %s, o %s, u %s, w %s, i, j, k int) %s { return s.Slice3(i, j, k) })", T, T, T, T, T), 7, sliceArgs([]int{0, 1, 3, 5}, true),
		func(a []interface{}) []interface{} {
			return []interface{}{a[0].([]E)[a[4].(int):a[5].(int):a[6].(int)]}
		}, postExact)
	return out
}

func byteAliasScens() []c34Scen {
	mk := func(i int) uint8 { return uint8(65 + i) }
	args := func() [][]interface{} {
		var r [][]interface{}
		seen := map[string]bool{}
		for _, l := range c34Layouts(mk) {
			key := fmt.Sprint(len(l.recv), cap(l.recv), len(l.rfull), l.recv == nil)
			if seen[key] {
				continue
			}
			seen[key] = true
			for _, s := range []string{"", "x", "héllo"} {
				r = append(r, []interface{}{l.recv, s, l.rfull})
			}
		}
		return r
	}
	post := func(a, res []interface{}) []interface{} {
		recv, r := a[0].([]uint8), res[0].([]uint8)
		o := []interface{}{h.Fmt(normGrown(recv, r)), "recv:" + c34Share(r, recv)}
		c34Poke(r, mk, 50)
		return o
	}
	return []c34Scen{
		{name: "[]uint8.AppendString/memory", src: "(func(s []uint8, t string) []uint8 { return s.AppendString(t) })", nin: 2, args: args,
			ref: func(a []interface{}) []interface{} { return []interface{}{append(a[0].([]uint8), a[1].(string)...)} }, post: post},
		{name: "[]uint8.AppendString/same call site twice", src: "(func(s []uint8, t string) ([]uint8, []uint8) { var rs [2][]uint8; for i := 0; i < 2; i++ { rs[i] = s.AppendString(t) }; return rs[0], rs[1] })", nin: 2, args: args,
			ref: func(a []interface{}) []interface{} {
				var rs [2][]uint8
				for i := 0; i < 2; i++ {
					rs[i] = append(a[0].([]uint8), a[1].(string)...)
				}
				return []interface{}{rs[0], rs[1]}
			},
			post: func(a, res []interface{}) []interface{} {
				recv, r0, r1 := a[0].([]uint8), res[0].([]uint8), res[1].([]uint8)
				o := []interface{}{h.Fmt(normGrown(recv, r0)), h.Fmt(normGrown(recv, r1)), "recv:" + c34Share(r0, recv), "recv:" + c34Share(r1, recv), "res0:" + c34Share(r1, r0)}
				c34Poke(r0, mk, 50)
				c34Poke(r1, mk, 60)
				return append(o, "after:"+h.Fmt(append([]uint8{}, r0...)), "after:"+h.Fmt(append([]uint8{}, r1...)))
			}},
		{name: "[]uint8.CopyString/memory", src: "(func(s []uint8, t string) { s.CopyString(t) })", nin: 2, args: args,
			ref: func(a []interface{}) []interface{} { copy(a[0].([]uint8), a[1].(string)); return nil }},
	}
}

// arrays: the operand of Copy is a slice of the receiver itself; methods called on an addressable array VALUE act on
// that variable, not on a copy of it.
func arrayAliasScens[E comparable](en string, mk func(int) E) []c34Scen {
	T := "[3]" + en
	S := "[]" + en
	newArr := func() *[3]E { return &[3]E{mk(0), mk(1), mk(2)} }
	var out []c34Scen
	add := func(name, src string, nin int, args func() [][]interface{}, ref func(a []interface{}) []interface{}, post func(a, res []interface{}) []interface{}) {
		out = append(out, c34Scen{name: T + "." + name, src: src, nin: nin, args: args, ref: ref, post: post})
	}
	add("Copy/memory", fmt.Sprintf("(func(p *%s, o %s) { p.Copy(o) })", T, S), 2,
		func() [][]interface{} {
			var r [][]interface{}
			for i := 0; i <= 3; i++ {
				for j := i; j <= 3; j++ {
					p := newArr()
					r = append(r, []interface{}{p, p[i:j]})
				}
			}
			return r
		},
		func(a []interface{}) []interface{} { copy(a[0].(*[3]E)[:], a[1].([]E)); return nil }, nil)
	idx := func() [][]interface{} {
		var r [][]interface{}
		for _, i := range []int{-1, 0, 2, 3} {
			r = append(r, []interface{}{*newArr(), i, mk(9)})
		}
		return r
	}
	add("SetIndex(addressable value)", fmt.Sprintf("(func(v %s, i int, x %s) %s { v.SetIndex(i, x); return v })", T, en, T), 3, idx,
		func(a []interface{}) []interface{} {
			v := a[0].([3]E)
			v[a[1].(int)] = a[2].(E)
			return []interface{}{v}
		}, nil)
	add("AddrIndex(addressable value)", fmt.Sprintf("(func(v %s, i int, x %s) %s { *v.AddrIndex(i) = x; return v })", T, en, T), 3, idx,
		func(a []interface{}) []interface{} {
			v := a[0].([3]E)
			*(&v[a[1].(int)]) = a[2].(E)
			return []interface{}{v}
		}, nil)
	add("Slice(addressable value)", fmt.Sprintf("(func(v %s, i int, x %s) %s { s := v.Slice(0, 3); s[i] = x; return v })", T, en, T), 3, idx,
		func(a []interface{}) []interface{} {
			v := a[0].([3]E)
			s := v[0:3]
			s[a[1].(int)] = a[2].(E)
			return []interface{}{v}
		}, nil)
	add("Copy(addressable value)", fmt.Sprintf("(func(v %s, o %s) %s { v.Copy(o); return v })", T, S, T), 2,
		func() [][]interface{} {
			return [][]interface{}{{*newArr(), []E{mk(7), mk(8)}}, {*newArr(), []E(nil)}}
		},
		func(a []interface{}) []interface{} { v := a[0].([3]E); copy(v[:], a[1].([]E)); return []interface{}{v} }, nil)
	add("Slice/memory", fmt.Sprintf("(func(p *%s, i, j int) (%s, %s) { return p.Slice(i, j), p.Slice(i, j) })", T, S, S), 3,
		func() [][]interface{} {
			var r [][]interface{}
			for i := 0; i <= 3; i++ {
				for j := i; j <= 3; j++ {
					r = append(r, []interface{}{newArr(), i, j})
				}
			}
			return r
		},
		func(a []interface{}) []interface{} {
			p, i, j := a[0].(*[3]E), a[1].(int), a[2].(int)
			return []interface{}{p[i:j], p[i:j]}
		},
		func(a, res []interface{}) []interface{} {
			p := a[0].(*[3]E)
			r0, r1 := res[0].([]E), res[1].([]E)
			o := []interface{}{h.Fmt(r0), h.Fmt(r1), "recv:" + c34Share(r0, p[:]), "recv:" + c34Share(r1, p[:]), "res0:" + c34Share(r1, r0)}
			c34Poke(r0, mk, 50)
			return o
		})
	return out
}
