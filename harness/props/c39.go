package props

// C39 — preprocessor mode (`gomacro -m -w -f file.gomacro`). Every package of the corpus is written as
// pN.gomacro and run through gomacro's real command (cmd.Cmd.Main, in a worker process); the written
// pN.go is compared with the source: package clause, import set, declaration names/kinds/order and the
// declarations themselves (std go/parser; structural normal form without positions and redundant parentheses); then ALL outputs and ALL reference
// sources are built ONCE into one comparison binary (module under work/, results cached by content hash)
// which calls Run() of both members of every pair.

import (
	"bufio"
	"bytes"
	"crypto/sha256"
	"encoding/hex"
	"encoding/json"
	"fmt"
	"go/ast"
	"go/parser"
	"go/printer"
	"go/token"
	"io/ioutil"
	"os"
	"os/exec"
	"path/filepath"
	"reflect"
	"regexp"
	"runtime"
	"sort"
	"strconv"
	"strings"
	"time"

	"github.com/cosmos72/gomacro/cmd"

	"verif/harness/core"
)

func init() {
	core.Register(&core.Check{ID: "C39", Level: "exploration", Workers: -1,
		Prepare: c39Prepare, Run: c39Run, Finish: c39Finish, Replay: c39Replay})
}

func c39Dir() string { return filepath.Join(core.VerifDir, "work", "C39-pkgs") }

func c39Prepare(c *core.Ctx) error {
	os.RemoveAll(c39Dir())
	return os.MkdirAll(c39Dir(), 0o755)
}

type c39Case struct {
	Pkg    c39Pkg `json:"package"`
	Output string `json:"written_go_file,omitempty"`
	// the package was preprocessed as one of several arguments of one invocation
	Inv *c39InvCase `json:"invocation,omitempty"`
}

// c39Preprocess runs gomacro's command on the package source and returns the written file ("" if none) and the messages printed.
func c39Preprocess(dir string, p *c39Pkg) (out string, msgs string, err error) {
	pdir := filepath.Join(dir, p.Name)
	os.RemoveAll(pdir)
	if err := os.MkdirAll(pdir, 0o755); err != nil {
		return "", "", err
	}
	in := filepath.Join(pdir, p.Name+".gomacro")
	if err := ioutil.WriteFile(in, []byte(p.Src), 0o644); err != nil {
		return "", "", err
	}
	var buf bytes.Buffer
	cm := cmd.New()
	g := &cm.Interp.Comp.Globals
	g.Stdout = &buf
	g.Stderr = &buf
	var rec interface{}
	func() {
		defer func() { rec = recover() }()
		err = cm.Main([]string{"-m", "-w", "-f", in})
	}()
	if rec != nil {
		return "", buf.String(), fmt.Errorf("gomacro command panicked: %v", rec)
	}
	if err != nil {
		return "", buf.String(), err
	}
	data, rerr := ioutil.ReadFile(filepath.Join(pdir, p.Name+".go"))
	if rerr != nil {
		return "", buf.String(), nil
	}
	return string(data), buf.String(), nil
}

// ---------------------------------------------------------------------------------------------
// static comparison (std go/parser, go/printer)

type c39File struct {
	pkg      string
	imports  []string // "name path", sorted
	decls    []string // "kind name" in order
	texts    []string // printed text of each declaration, in order
	norms    []string // structural normal form of each declaration
	isImport []bool
}

func c39Parse(src string) (*c39File, error) {
	fset := token.NewFileSet()
	f, err := parser.ParseFile(fset, "p.go", src, 0)
	if err != nil {
		return nil, err
	}
	res := &c39File{pkg: f.Name.Name}
	cfg := printer.Config{Mode: printer.UseSpaces | printer.TabIndent, Tabwidth: 8}
	for _, d := range f.Decls {
		switch d := d.(type) {
		case *ast.GenDecl:
			if d.Tok == token.IMPORT {
				for _, s := range d.Specs {
					is := s.(*ast.ImportSpec)
					n := ""
					if is.Name != nil {
						n = is.Name.Name
					}
					res.imports = append(res.imports, n+" "+is.Path.Value)
				}
				continue
			}
			for _, s := range d.Specs {
				switch s := s.(type) {
				case *ast.ValueSpec:
					for _, n := range s.Names {
						res.decls = append(res.decls, d.Tok.String()+" "+n.Name)
					}
				case *ast.TypeSpec:
					res.decls = append(res.decls, "type "+s.Name.Name)
				}
			}
		case *ast.FuncDecl:
			recv := ""
			if d.Recv != nil && len(d.Recv.List) == 1 {
				var b bytes.Buffer
				cfg.Fprint(&b, fset, d.Recv.List[0].Type)
				recv = "(" + b.String() + ") "
			}
			res.decls = append(res.decls, "func "+recv+d.Name.Name)
		}
		// pretty text (for messages) and structural normal form (positions, comments and resolver objects filtered out)
		var b bytes.Buffer
		cfg.Fprint(&b, fset, d)
		res.texts = append(res.texts, b.String()+"\n")
		var nb bytes.Buffer
		c39Simplify(reflect.ValueOf(d), false)
		ast.Fprint(&nb, nil, d, c39Filter)
		res.norms = append(res.norms, nb.String())
		_, isImport := d.(*ast.GenDecl)
		res.isImport = append(res.isImport, isImport && d.(*ast.GenDecl).Tok == token.IMPORT)
	}
	sort.Strings(res.imports)
	return res, nil
}

var c39PosType = reflect.TypeOf(token.NoPos)

// c39Filter keeps the structure of a declaration and drops positions, comments and the parser's resolver objects.
func c39Filter(name string, v reflect.Value) bool {
	if v.Type() == c39PosType {
		return false
	}
	switch name {
	case "Obj", "Scope", "Unresolved", "Comments", "Doc", "Comment":
		return false
	}
	return ast.NotNilFilter(name, v)
}

var (
	c39ExprType = reflect.TypeOf((*ast.Expr)(nil)).Elem()
	c39StmtType = reflect.TypeOf((*ast.Stmt)(nil)).Elem()
)

// c39Simplify rewrites a declaration in place into the form used for the structural comparison: parentheses are
// removed (the tree shape already carries the grouping: a dropped *necessary* parenthesis changes the tree),
// `else { if … }` is written `else if …` and `{ { … } }` is written `{ … }` (same statements in Go; gomacro's
// parser hands a block holding a single statement on as that statement).
func c39Simplify(v reflect.Value, isElse bool) {
	switch v.Kind() {
	case reflect.Interface:
		if v.IsNil() {
			return
		}
		if v.CanSet() {
			if v.Type() == c39ExprType {
				for {
					pe, ok := v.Interface().(*ast.ParenExpr)
					if !ok {
						break
					}
					v.Set(reflect.ValueOf(pe.X))
				}
			} else if v.Type() == c39StmtType && isElse {
				if blk, ok := v.Interface().(*ast.BlockStmt); ok && len(blk.List) == 1 {
					if inner, ok := blk.List[0].(*ast.IfStmt); ok {
						v.Set(reflect.ValueOf(inner))
					}
				}
			}
		}
		c39Simplify(v.Elem(), false)
	case reflect.Ptr:
		if !v.IsNil() {
			if blk, ok := v.Interface().(*ast.BlockStmt); ok {
				// a block that is the only statement of a block: same scope contents, one level less
				for len(blk.List) == 1 {
					inner, ok := blk.List[0].(*ast.BlockStmt)
					if !ok {
						break
					}
					blk.List = inner.List
				}
			}
			c39Simplify(v.Elem(), false)
		}
	case reflect.Struct:
		t := v.Type()
		for i := 0; i < v.NumField(); i++ {
			switch t.Field(i).Name {
			case "Obj", "Scope", "Unresolved", "Comments", "Doc", "Comment":
				continue
			}
			c39Simplify(v.Field(i), t == c39IfType && t.Field(i).Name == "Else")
		}
	case reflect.Slice:
		for i := 0; i < v.Len(); i++ {
			c39Simplify(v.Index(i), false)
		}
	}
}

var c39IfType = reflect.TypeOf(ast.IfStmt{})

// c39Static compares the written file with the reference source. Returns (signature suffix, description) of each difference.
func c39Static(p *c39Pkg, out string) [][2]string {
	var diffs [][2]string
	ref, err := c39Parse(p.Ref)
	if err != nil {
		panic(fmt.Sprintf("C39 generator: reference source of %s does not parse: %v\n%s", p.Name, err, p.Ref))
	}
	got, err := c39Parse(out)
	if err != nil {
		return [][2]string{{"output-does-not-parse", fmt.Sprintf("the written file is not valid Go: %v", err)}}
	}
	if got.pkg != ref.pkg {
		diffs = append(diffs, [2]string{"package-clause", fmt.Sprintf("package clause %q, want %q", got.pkg, ref.pkg)})
	}
	if strings.Join(got.imports, ";") != strings.Join(ref.imports, ";") {
		diffs = append(diffs, [2]string{"import-set", fmt.Sprintf("imports %q, want %q", got.imports, ref.imports)})
	}
	if strings.Join(got.decls, ";") != strings.Join(ref.decls, ";") {
		diffs = append(diffs, [2]string{"declaration-list", fmt.Sprintf("declarations (kind name, in order)\n got  %q\n want %q", got.decls, ref.decls)})
		return diffs
	}
	// same list: compare the declarations one by one
	gi, gt := c39NonImport(got)
	ri, rt := c39NonImport(ref)
	for i := range ri {
		if i < len(gi) && gi[i] != ri[i] {
			kind := strings.Fields(rt[i])[0]
			diffs = append(diffs, [2]string{"declaration-differs|" + kind, fmt.Sprintf("declaration %d differs structurally\n--- written\n%s--- source\n%s", i, gt[i], rt[i])})
			break
		}
	}
	if len(gi) != len(ri) {
		diffs = append(diffs, [2]string{"declaration-grouping", fmt.Sprintf("%d declarations written, %d in the source", len(gi), len(ri))})
	}
	return diffs
}

func c39NonImport(f *c39File) (norms, texts []string) {
	for i := range f.texts {
		if !f.isImport[i] {
			norms = append(norms, f.norms[i])
			texts = append(texts, f.texts[i])
		}
	}
	return
}

// ---------------------------------------------------------------------------------------------
// worker: preprocess + static checks; the outputs are left in work/C39-pkgs/<name>/<name>.go for Finish

func c39Run(c *core.Ctx) {
	if c.NShards > 1 {
		runtime.GOMAXPROCS(4)
	}
	c.Rule("every package of the corpus (C05 control-flow bodies, 3 per package in quick / all of them in thorough, + 4 of 36 declaration forms + 4 import shapes; + macro-using packages: 6 statement macros × 3-4 argument lists × 4 positions and a declaration-generating macro × 4 types, with hand-written expansion) is preprocessed by the real command in -m -w -f mode; " +
		"invocation shapes: one file per invocation for the packages above, and groups g… preprocessed by ONE invocation with several arguments: {2 files, 3 files, directory of 2, directory of 3, file+directory, directory+file, directory+directory, macro source before a plain one, plain/macro/plain, directory(macro, plain)} × 4 rotations of import shapes / imported packages / declaration forms (consecutive sources always differ): the output for the k-th source must equal its reference whatever was processed before; " +
		"force-evaluated chunks: sources whose ':' chunks are declarations AND statements/expressions {for, assignment, ++, +=, if/else, append, call of a ':func', range, switch, block, bare expression, := followed by use, tuple assignment} building preprocessing-time state read by a macro: every single chunk before the first use and between two uses, every sequence of two chunks (quick: 7-chunk core; thorough: full alphabet, and triples over the core); the reference expansion is computed by a model of the chunks; " +
		"compared: package clause, import set, declaration kinds/names/order, each declaration in go/printer normal form, compilation of the output, Run() of output vs source in one compiled binary; " +
		"non-trivial = distinct packages whose Run() result (equal on both sides) contains a trace of at least two events")
	c.Assume("the Go toolchain installed in the image (go1.23.5, module mode go 1.21) is the reference for 'compiles' and for Run()",
		"for sources using macros the reference is the hand-written expansion: a quasi-quoted block returned by a macro in statement position is spliced into the enclosing statement list",
		"declarations are compared structurally modulo redundant parentheses, `else { if … }` vs `else if …`, and a block that is the only statement of a block (all three are the same program in Go)",
		"the files of a directory argument are processed in the order of their names (ioutil.ReadDir)")
	pkgs := c39Corpus(c)
	dir := c39Dir()
	byName := map[string]*c39Pkg{}
	job := 0
	for i := range pkgs {
		byName[pkgs[i].Name] = &pkgs[i]
		if pkgs[i].InvName != "" {
			continue // preprocessed with the other arguments of its invocation
		}
		job++
		if !c.Mine(job) {
			continue
		}
		if c.Expired() {
			return
		}
		c39One(c, dir, &pkgs[i])
	}
	for i := range c39InvList {
		job++
		if !c.Mine(job) {
			continue
		}
		if c.Expired() {
			return
		}
		c39OneInvocation(c, dir, &c39InvList[i], byName, "")
	}
}

// c39One preprocesses one package and runs the static checks. Returns the output text.
func c39One(c *core.Ctx, dir string, p *c39Pkg) string {
	c.Eval(1)
	out, msgs, err := c39Preprocess(dir, p)
	cas := c39Case{Pkg: *p, Output: out}
	if err != nil {
		c.Violation("C39|command-failed|"+p.sigClass(), fmt.Sprintf("gomacro -m -w -f %s.gomacro failed: %v\nmessages: %s\n%s", p.Name, err, msgs, p.Src), cas)
		return ""
	}
	if out == "" {
		c.Violation("C39|no-output|"+p.sigClass(), fmt.Sprintf("gomacro -m -w -f %s.gomacro wrote no %s.go; messages: %s\n%s", p.Name, p.Name, msgs, p.Src), cas)
		return ""
	}
	if strings.TrimSpace(msgs) != "" {
		c.Count("packages_with_messages", 1)
	}
	for _, d := range c39Static(p, out) {
		c.Violation("C39|"+d[0]+"|"+p.sigClass(), fmt.Sprintf("package %s (%s): %s\nmessages: %s", p.Name, p.Class, d[1], strings.TrimSpace(msgs)), cas)
	}
	return out
}

func (p *c39Pkg) sigClass() string {
	cl := "macro-free"
	if p.Macro {
		cl = p.Class
		if strings.HasPrefix(cl, "macro-forced-") {
			// the chunk sequence is in the message: one mechanism, one signature per position
			if i := strings.Index(cl, ":"); i > 0 {
				cl = cl[:i]
			}
		}
	}
	if p.Inv != "" {
		cl += "|" + p.Inv
	}
	return cl
}

// ---------------------------------------------------------------------------------------------
// parent: one build for everything

type c39Pair struct {
	name     string
	ref, out string
}

// c39BuildRun builds all pairs into one binary and returns name -> [refRun, outRun], plus the packages that do not compile
// (name -> compiler message; prefix "out/" or "orig/").
func c39BuildRun(tag string, pairs []c39Pair) (map[string][2]string, map[string]string, error) {
	hs := sha256.New()
	hs.Write([]byte("c39-v1"))
	hdir := filepath.Join(core.VerifDir, "harness", "h")
	hfiles, _ := filepath.Glob(filepath.Join(hdir, "*.go"))
	sort.Strings(hfiles)
	hsrc := map[string][]byte{}
	for _, f := range hfiles {
		if strings.HasSuffix(f, "_test.go") {
			continue
		}
		data, err := ioutil.ReadFile(f)
		if err != nil {
			return nil, nil, err
		}
		hsrc[filepath.Base(f)] = data
		hs.Write(data)
	}
	for _, p := range pairs {
		fmt.Fprintf(hs, "%s\x00%s\x00%s\x00", p.name, p.ref, p.out)
	}
	key := tag + "-" + hex.EncodeToString(hs.Sum(nil)[:12])
	cdir := filepath.Join(core.VerifDir, ".cache", "oracle")
	os.MkdirAll(cdir, 0o755)
	cfile := filepath.Join(cdir, key+".json")
	type cached struct {
		Results map[string][2]string `json:"results"`
		Broken  map[string]string    `json:"broken"`
	}
	if data, err := ioutil.ReadFile(cfile); err == nil {
		var cv cached
		if json.Unmarshal(data, &cv) == nil && len(cv.Results)+len(c39BrokenNames(cv.Broken)) >= len(pairs) {
			return cv.Results, cv.Broken, nil
		}
	}
	dir := filepath.Join(core.VerifDir, "work", "c39cmp-"+key)
	os.RemoveAll(dir)
	defer os.RemoveAll(dir)
	os.MkdirAll(filepath.Join(dir, "h"), 0o755)
	ioutil.WriteFile(filepath.Join(dir, "go.mod"), []byte("module orc\n\ngo 1.21\n"), 0o644)
	for n, data := range hsrc {
		ioutil.WriteFile(filepath.Join(dir, "h", n), data, 0o644)
	}
	for _, p := range pairs {
		os.MkdirAll(filepath.Join(dir, "orig", p.name), 0o755)
		os.MkdirAll(filepath.Join(dir, "out", p.name), 0o755)
		ioutil.WriteFile(filepath.Join(dir, "orig", p.name, "p.go"), []byte(p.ref), 0o644)
		ioutil.WriteFile(filepath.Join(dir, "out", p.name, "p.go"), []byte(p.out), 0o644)
	}
	env := append(os.Environ(), "GOFLAGS=-mod=mod", "GOPROXY=off", "GOSUMDB=off", "GOTOOLCHAIN=local", "GOWORK=off")
	broken := map[string]string{}
	re := regexp.MustCompile(`(?m)^(?:\./)?(orig|out)/([a-z]+[0-9]+)/p\.go:(.*)$`)
	for attempt := 0; ; attempt++ {
		var mainsb strings.Builder
		mainsb.WriteString("package main\n\nimport (\n\t\"bufio\"\n\t\"encoding/json\"\n\t\"os\"\n")
		for _, p := range pairs {
			if broken["orig/"+p.name] == "" && broken["out/"+p.name] == "" {
				fmt.Fprintf(&mainsb, "\to_%s \"orc/orig/%s\"\n\tg_%s \"orc/out/%s\"\n", p.name, p.name, p.name, p.name)
			}
		}
		mainsb.WriteString(")\n\nfunc main() {\n\tw := bufio.NewWriter(os.Stdout)\n\tdefer w.Flush()\n\tenc := json.NewEncoder(w)\n")
		for _, p := range pairs {
			if broken["orig/"+p.name] == "" && broken["out/"+p.name] == "" {
				fmt.Fprintf(&mainsb, "\tenc.Encode([3]string{%q, o_%s.Run(), g_%s.Run()})\n", p.name, p.name, p.name)
			}
		}
		mainsb.WriteString("}\n")
		ioutil.WriteFile(filepath.Join(dir, "main.go"), []byte(mainsb.String()), 0o644)
		build := exec.Command("go", "build", "-gcflags=-e", "-o", "cmp.bin", ".")
		build.Dir = dir
		build.Env = env
		outb, err := build.CombinedOutput()
		if err == nil {
			break
		}
		found := false
		for _, m := range re.FindAllStringSubmatch(string(outb), -1) {
			k := m[1] + "/" + m[2]
			if broken[k] == "" {
				broken[k] = strings.TrimSpace(m[3])
				found = true
			}
		}
		if !found || attempt > 20 {
			o := string(outb)
			if len(o) > 6000 {
				o = o[:6000]
			}
			return nil, nil, fmt.Errorf("comparison build failed: %v\n%s", err, o)
		}
	}
	run := exec.Command(filepath.Join(dir, "cmp.bin"))
	run.Dir = dir
	var stdout, stderr bytes.Buffer
	run.Stdout = &stdout
	run.Stderr = &stderr
	if err := run.Start(); err != nil {
		return nil, nil, err
	}
	done := make(chan error, 1)
	go func() { done <- run.Wait() }()
	select {
	case err := <-done:
		if err != nil {
			e := stderr.String()
			if len(e) > 4000 {
				e = e[:4000]
			}
			return nil, nil, fmt.Errorf("comparison binary failed: %v\n%s", err, e)
		}
	case <-time.After(10 * time.Minute):
		run.Process.Kill()
		return nil, nil, fmt.Errorf("comparison binary timed out")
	}
	res := map[string][2]string{}
	sc := bufio.NewScanner(&stdout)
	sc.Buffer(make([]byte, 1<<20), 1<<26)
	for sc.Scan() {
		var kv [3]string
		if err := json.Unmarshal(sc.Bytes(), &kv); err != nil {
			return nil, nil, err
		}
		res[kv[0]] = [2]string{kv[1], kv[2]}
	}
	data, _ := json.Marshal(cached{res, broken})
	ioutil.WriteFile(cfile, data, 0o644)
	return res, broken, nil
}

func c39BrokenNames(b map[string]string) map[string]bool {
	m := map[string]bool{}
	for k := range b {
		m[k[strings.IndexByte(k, '/')+1:]] = true
	}
	return m
}

func c39Finish(c *core.Ctx) {
	pkgs := c39Corpus(c)
	dir := c39Dir()
	var pairs []c39Pair
	byName := map[string]*c39Pkg{}
	nMacro := 0
	for i := range pkgs {
		p := &pkgs[i]
		byName[p.Name] = p
		if p.Macro {
			nMacro++
		}
		data, err := ioutil.ReadFile(filepath.Join(dir, p.Name, p.Name+".go"))
		if err != nil {
			continue // not processed (deadline) or already reported as no-output
		}
		out := string(data)
		if _, perr := c39Parse(out); perr != nil {
			continue // reported by the worker
		}
		pairs = append(pairs, c39Pair{p.Name, p.Ref, out})
	}
	c.Set("packages", len(pkgs))
	c.Set("packages_with_macros", nMacro)
	c.Set("packages_built", len(pairs))
	c.Set("declaration_forms", len(c39Forms))
	c.Set("c05_bodies_available", c39BodiesAvailable)
	c.Set("c05_bodies_used", c39BodiesUsed)
	if len(pairs) == 0 {
		return
	}
	res, broken, err := c39BuildRun("C39-"+c.Tier, pairs)
	if err != nil {
		panic(err)
	}
	c39Compare(c, pairs, byName, res, broken)
	os.RemoveAll(dir)
}

func c39Compare(c *core.Ctx, pairs []c39Pair, byName map[string]*c39Pkg, res map[string][2]string, broken map[string]string) {
	outcomes := map[string]bool{}
	for _, pr := range pairs {
		p := byName[pr.name]
		cas := c39Case{Pkg: *p, Output: pr.out, Inv: c39InvCaseOf(p, byName)}
		if msg := broken["orig/"+pr.name]; msg != "" {
			panic(fmt.Sprintf("C39 generator: reference source of %s does not compile: %s\n%s", pr.name, msg, pr.ref))
		}
		if msg := broken["out/"+pr.name]; msg != "" {
			c.Violation("C39|output-does-not-compile|"+p.sigClass(), fmt.Sprintf("package %s (%s): the written file does not compile: %s\n--- written\n%s", p.Name, p.Class, msg, pr.out), cas)
			continue
		}
		r, ok := res[pr.name]
		if !ok {
			panic("C39: no result for " + pr.name)
		}
		outcomes[r[0]] = true
		if strings.Count(r[0], " ") >= 2 && r[0] == r[1] {
			c.Nontrivial(pr.name + "|" + r[0])
		}
		if c.WantSample() && !p.Macro {
			c.Sample(map[string]string{"package": p.Name, "forms": p.Class, "run_result": r[0]})
		}
		if r[0] != r[1] {
			c.Violation("C39|run-differs|"+p.sigClass(), fmt.Sprintf("package %s (%s): Run() of the source gives %q, Run() of the written file gives %q\n--- written\n%s", p.Name, p.Class, r[0], r[1], pr.out), cas)
		}
	}
	c.Set("distinct_run_results", len(outcomes))
}

func c39Replay(c *core.Ctx, raw json.RawMessage) {
	var cas c39Case
	if err := json.Unmarshal(raw, &cas); err != nil {
		panic(err)
	}
	dir := filepath.Join(core.VerifDir, "work", "C39-replay-"+strconv.Itoa(os.Getpid()))
	defer os.RemoveAll(dir)
	p := cas.Pkg
	var out string
	if cas.Inv != nil {
		byName := map[string]*c39Pkg{}
		for i := range cas.Inv.Pkgs {
			byName[cas.Inv.Pkgs[i].Name] = &cas.Inv.Pkgs[i]
		}
		out = c39OneInvocation(c, dir, &cas.Inv.Inv, byName, p.Name)[p.Name]
	} else {
		out = c39One(c, dir, &p)
	}
	if out == "" {
		return
	}
	if _, err := c39Parse(out); err != nil {
		return
	}
	pairs := []c39Pair{{p.Name, p.Ref, out}}
	res, broken, err := c39BuildRun("C39-replay", pairs)
	if err != nil {
		panic(err)
	}
	c39Compare(c, pairs, map[string]*c39Pkg{p.Name: &p}, res, broken)
}
