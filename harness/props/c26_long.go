package props

// C26 generators, part 2: lines around the buffer sizes of the readers in play.
//
// base.BufReadline reads through a bufio.Reader (4096 bytes by default: Interp.EvalReader, EvalFile, Repl), which hands
// out long lines in buffer-sized pieces internally and grows its result in 4096-byte steps; ReadMultiline decides
// "statement complete?" once per Readline.Read and resets its line-bound state there. The family below places every
// byte of every lexical context at the offsets k*4096 (and 65536, bufio.MaxScanTokenSize) of a line, and lets the line
// end (the newline, or the token before it) fall at every offset around those sizes.

import (
	"fmt"
	"strings"
)

// c26LongA: line = head + pad blanks + unit repeated + tail; the pad sweep moves every byte of the unit onto the offset T.
// head may contain earlier complete lines of the same statement (the long line is then a continuation line);
// cont holds the lines that complete the statement after the long line.
type c26LongA struct {
	name, head, unit, tail, cont string
	firstOnly                    bool // only as the first line of the input ('#!')
}

func c26LongAContexts() []c26LongA {
	const bq = "`"
	commentUnit := `c ) " ' ( ` + bq + ` /* `
	blockUnit := `c ( " ' * / ** `
	return []c26LongA{
		{name: "identifier", head: "x = ", unit: "value + ", tail: "c"},
		{name: "number", head: "x = ", unit: "12345.678e+9 * 0x1F - 7i / ", tail: "1"},
		{name: "string", head: "x = ", unit: `"s(t[r{\"\\ // /* ' ` + bq + `" + `, tail: "c"},
		{name: "rune", head: "x = ", unit: `'\'' + '(' + '"' + '\\' + `, tail: "c"},
		{name: "raw-string", head: "x = ", unit: bq + `r("' // /* \` + bq + " + ", tail: "c"},
		{name: "inline-block-comment", head: "x = ", unit: `v /* c ( " ' * / ** */ + `, tail: "c"},
		{name: "binary-operators", head: "x = ", unit: "a<<1&^b|c^d-e/f%g*h + ", tail: "c"},
		{name: "unary-and-comparison-operators", head: "x = ", unit: "!a == -b && +c != ^d || <-e <= *f || ", tail: "c"},
		{name: "brackets-returning-to-depth-0", head: "x = ", unit: "f(a, b)[i].g(T{1: 2}).h + ", tail: "c"},
		{name: "inc-dec-statements", unit: "a++; b--; ", tail: "c++"},
		{name: "keyword-statements", unit: "go f(); defer g(); var v int; type t struct{}; if a {}; for {}; ", tail: "a = 1"},
		{name: "selectors", head: "x = ", unit: "pkg.Sel.", tail: "c"},
		{name: "inside-call", head: "f(", unit: `a, "s", 'r', x.y, `, tail: "c)"},
		{name: "inside-nested-literal", head: "v := [][]int{", unit: "{1, 2}, ", tail: "{3}}"},
		{name: "trailing-line-comment", head: "x = 1 // ", unit: commentUnit, tail: "end"},
		{name: "line-comment", head: "// ", unit: commentUnit, tail: "end"},
		{name: "shebang", head: "#!/usr/bin/env gomacro ", unit: commentUnit, tail: "end", firstOnly: true},
		{name: "block-comment-alone", head: "/* ", unit: blockUnit, tail: "*/"},
		{name: "block-comment-then-code", head: "/* ", unit: blockUnit, tail: "*/ a = 1"},
		{name: "multibyte-characters", head: "x = ", unit: "é + \"ü→\" + 'ö' + ", tail: "c"},
		{name: "paragraph-separated-statements", unit: "a = 1 ", tail: "b = 2"},
		{name: "paragraph-separator-after-operator", head: "x = ", unit: "v + ", tail: "c"},
		{name: "continuation-line", head: "x = a +\n\t", unit: "value + ", tail: "c"},
		{name: "ends-in-operator", head: "x = ", unit: "value + ", tail: "value +", cont: "\tc\n"},
		{name: "ends-in-open-call", head: "x = f(", unit: "a, ", tail: "b,", cont: "\tc)\n"},
		{name: "line-of-multi-line-raw-string", head: "s := " + bq + "raw\n", unit: `l ( " ' // /* `, tail: "end", cont: "fin" + bq + " + x\n"},
		{name: "line-of-multi-line-block-comment", head: "/* open\n", unit: blockUnit, tail: "e", cont: " */ a = 2\n"},
		{name: "crlf", head: "x = ", unit: "value + ", tail: "c\r"},
	}
}

// c26LongB: line = head + fill repeated + tail, total length (newline included) T+d for every d in -2..len(tail)+2:
// the end of the line, and each byte of the tail, at the buffer boundary.
type c26LongB struct {
	name, head, fill, tail, cont string
}

func c26LongBContexts() []c26LongB {
	const bq = "`"
	return []c26LongB{
		{name: "ends-in-identifier", head: "x = ", fill: "a"},
		{name: "ends-in-number", head: "x = 1", fill: "0"},
		{name: "ends-in-inc", fill: "a", tail: "++"},
		{name: "ends-in-dec", fill: "a", tail: "--"},
		{name: "ends-in-plus", head: "x = ", fill: "a", tail: " +", cont: "\tc\n"},
		{name: "ends-in-minus", head: "x = ", fill: "a", tail: " -", cont: "\tc\n"},
		{name: "ends-in-slash", head: "x = ", fill: "a", tail: " /", cont: "\tc\n"},
		{name: "ends-in-and-not", head: "x = ", fill: "a", tail: " &^", cont: "\tc\n"},
		{name: "ends-in-comma", head: "x, y = ", fill: "a", tail: ",", cont: "\tc\n"},
		{name: "ends-in-label-colon", fill: "a", tail: ":", cont: "\ta = 1\n"},
		{name: "ends-in-line-comment", head: "x = ", fill: "a", tail: ` // c ) "`},
		{name: "ends-in-block-comment", head: "x = ", fill: "a", tail: " /* c ( */"},
		{name: "ends-in-open-block-comment", head: "x = ", fill: "a", tail: " /* open (", cont: " close */\n"},
		{name: "ends-in-string", head: `x = "`, fill: "a", tail: `"`},
		{name: "ends-in-escaped-quote-string", head: `x = "`, fill: "a", tail: `\""`},
		{name: "ends-in-rune", head: "x = ", fill: "a", tail: ` + '\''`},
		{name: "ends-in-raw-string", head: "x = " + bq, fill: "a", tail: bq},
		{name: "ends-in-open-raw-string", head: "x = " + bq, fill: "a", cont: "end" + bq + "\n"},
		{name: "ends-in-close-paren", head: "f(", fill: "a", tail: ")"},
		{name: "ends-in-comma-inside-call", head: "f(", fill: "a", tail: ",", cont: "\tc)\n"},
		{name: "ends-in-open-brace", head: "v := T{ /* ", fill: "c", tail: " */", cont: "\tc}\n"},
		{name: "ends-in-carriage-return", head: "x = ", fill: "a", tail: "\r"},
		{name: "line-comment", head: "// ", fill: "c"},
		{name: "line-comment-with-closers", head: "// ", fill: "c", tail: ` ) " '`},
		{name: "block-comment", head: "/* ", fill: "c", tail: " */"},
		{name: "block-comment-star-run", head: "/* ", fill: "c", tail: "***/"},
		{name: "ends-in-keyword-go", head: "/* ", fill: "c", tail: " */ go", cont: "\tf()\n"},
		{name: "ends-in-keyword-var", head: "/* ", fill: "c", tail: " */ var", cont: "\tv int\n"},
		{name: "ends-in-keyword-return", head: "/* ", fill: "c", tail: " */ return"},
		{name: "paragraph-separator-at-end", head: "x = ", fill: "a", tail: " b = 2"},
	}
}

type c26LongInput struct{ name, text string }

// c26LongLines enumerates the long-line inputs for the buffer sizes Ts; frames: which sizes get a preceding statement too.
func c26LongLines(Ts []int, framed func(T int) bool) []c26LongInput {
	var out []c26LongInput
	const after = "f(\n\tc)\ny = 9\n"
	lineStart := func(s string) int { return len(s) - (strings.LastIndexByte(s, '\n') + 1) }
	for _, T := range Ts {
		befores := []struct{ name, text string }{{"none", ""}}
		if framed(T) {
			befores = append(befores, struct{ name, text string }{"statement", "z = 0\n"})
		}
		for _, b := range befores {
			for _, cx := range c26LongAContexts() {
				if cx.firstOnly && b.text != "" {
					continue
				}
				u := len(cx.unit)
				for pad := 0; pad < u; pad++ {
					s := lineStart(cx.head) + pad // offset in its line of the first unit
					n := 2
					if s < T {
						n = (T-s)/u + 2 // the unit region covers offsets [s, >= T+u)
					}
					text := b.text + cx.head + strings.Repeat(" ", pad) + strings.Repeat(cx.unit, n) + cx.tail + "\n" + cx.cont + after
					out = append(out, c26LongInput{fmt.Sprintf("long line|%s|byte %d of the line is byte %d of %q|before %s", cx.name, T, ((T-s)%u+u)%u, cx.unit, b.name), text})
				}
			}
			for _, cx := range c26LongBContexts() {
				for d := -2; d <= len(cx.tail)+2; d++ {
					m := T + d - 1 - len(cx.head) - len(cx.tail)
					if m < 1 {
						continue
					}
					text := b.text + cx.head + strings.Repeat(cx.fill, m) + cx.tail + "\n" + cx.cont + after
					out = append(out, c26LongInput{fmt.Sprintf("line end at the buffer size|%s|line of %d%+d bytes|before %s", cx.name, T, d, b.name), text})
				}
			}
		}
	}
	return out
}
