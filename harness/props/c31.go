package props

// C31 — precompiled import tables (/repo/imports, imports/syscall, imports/thirdparty) bind each name to
// exactly that exported symbol.
//
// Part A (parent process, Prepare): an INDEPENDENT reference is generated with the standard library's source
//   importer (harness/c31ref, no base/genimport), compiled together with gomacro's imports package into a
//   side binary, which compares every table entry with its reference entry (c31ref/side_main.go.txt).
// Part B (workers): every proxy type P_* of every table, every method: recorder funcs in every field, call
//   through the interface with per-position distinct sentinels from a 3-value alphabet (c31_proxy.go).
// Part C (workers): every bound name is evaluated through a fresh interpreter after `import "path"` and
//   compared with the table (c31_interp.go).

import (
	"encoding/json"
	"fmt"
	"os"
	"reflect"
	"runtime"
	"sort"
	"strings"
	"time"

	"github.com/cosmos72/gomacro/imports"

	"verif/harness/c31ref"
	"verif/harness/core"
)

func init() {
	// 8 worker processes, not one per CPU: the first use of a package's type information in a process makes
	// go/importer exec `go list -export` once per package, so more processes mostly repeat that work
	core.Register(&core.Check{ID: "C31", Level: "exploration", Workers: 8,
		Prepare: c31Prepare, Run: c31Run, Replay: c31Replay})
}

const c31Rule = "an entry counts as non-trivial when its comparison is more than code-pointer/type identity of a plain function or " +
	"plain named type: variables (address+type), typed constants (value + named type), untyped constants (decoded kind+exact value, " +
	"per distinct kind/representation shape, overflow of int64, non-int Binds approximation), alias/interface types, wrapper lists, " +
	"variadic functions, proxy methods (per method: forwarding observable through ≥1 argument, result or the receiver object), and " +
	"names evaluated through the interpreter whose class is not plain func (part C)"

type c31Case struct {
	Part  string `json:"part"` // A | B | C
	Pkg   string `json:"pkg"`
	Name  string `json:"name,omitempty"`   // bound name / proxied interface name
	Class string `json:"class,omitempty"`  // part C: func var const untyped type
	Meth  string `json:"method,omitempty"` // part B
	Args  []int  `json:"args,omitempty"`   // part B: alphabet index per parameter
	Outs  []int  `json:"outs,omitempty"`   // part B: alphabet index per result
	VarN  int    `json:"variadic_len,omitempty"`
	Sig   string `json:"sig,omitempty"` // part A: the signature, so that a replay reports exactly this entry
}

const c31Own = "github.com/cosmos72/gomacro"

// c31SelfPath is the table that imports/a_package.go registers for package imports itself.
const c31SelfPath = c31Own + "/imports"

// c31Paths returns the table paths of the harness process, sorted. gomacro's own x_package.go tables (generated in
// "inception" mode inside gomacro's packages, with an older proxy convention) are outside the property's anchors
// (imports/*.go, imports/syscall, imports/thirdparty) and are dropped; self=true keeps the one table that
// imports/a_package.go itself registers (it is checked natively in part A, see c31SelfTable).
func c31Paths(self bool) []string {
	var paths []string
	for p := range imports.Packages {
		if strings.HasPrefix(p, c31Own) && !(self && p == c31SelfPath) {
			continue
		}
		paths = append(paths, p)
	}
	sort.Strings(paths)
	return paths
}

// c31SelfTable checks the table of package imports itself against the symbols as the Go compiler resolves them here.
func c31SelfTable(c *core.Ctx) {
	tb, ok := imports.Packages[c31SelfPath]
	if !ok {
		return
	}
	viol := func(name, what string) {
		c.Violation("C31|bind|"+c31SelfPath+"."+name, what, c31Case{Part: "A", Pkg: c31SelfPath, Name: name})
	}
	wantTypes := map[string]reflect.Type{
		"Package":           reflect.TypeOf((*imports.Package)(nil)).Elem(),
		"PackageMap":        reflect.TypeOf((*imports.PackageMap)(nil)).Elem(),
		"PackageName":       reflect.TypeOf((*imports.PackageName)(nil)).Elem(),
		"PackageUnderlying": reflect.TypeOf((*imports.PackageUnderlying)(nil)).Elem(),
	}
	var names []string
	for n := range tb.Binds {
		names = append(names, n)
	}
	sort.Strings(names)
	for _, n := range names {
		c.Eval(1)
		c.Count("A_vars", 1)
		bv := tb.Binds[n]
		if n != "Packages" {
			viol(n, fmt.Sprintf("%s.%s is bound but is not an exported function/variable/constant known to the check", c31SelfPath, n))
		} else if !bv.IsValid() || !bv.CanAddr() || bv.Addr().Pointer() != reflect.ValueOf(&imports.Packages).Pointer() || bv.Type() != reflect.TypeOf(imports.Packages) {
			viol(n, fmt.Sprintf("%s.Packages is not bound to the variable imports.Packages", c31SelfPath))
		}
	}
	names = names[:0]
	for n := range tb.Types {
		names = append(names, n)
	}
	sort.Strings(names)
	for _, n := range names {
		c.Eval(1)
		c.Count("A_types", 1)
		if want, ok := wantTypes[n]; !ok || tb.Types[n] != want {
			c.Violation("C31|type|"+c31SelfPath+"."+n, fmt.Sprintf("%s.%s is bound to %v, expected %v", c31SelfPath, n, tb.Types[n], want), c31Case{Part: "A", Pkg: c31SelfPath, Name: n})
		}
	}
	c.Count("A_packages", 1)
}

// ---------------------------------------------------------------------------------------------
// Part A

func c31Prepare(c *core.Ctx) error {
	c.Rule(c31Rule)
	paths := c31Paths(false)
	bin, info, err := c31ref.BuildSide(paths)
	if err != nil {
		return err
	}
	lines, err := c31ref.RunSide(bin, "")
	if err != nil {
		return err
	}
	c.Set("partA_side_binary", map[string]interface{}{"key": info.Key, "ref_cache_hit": info.RefCacheHit, "bin_cache_hit": info.BinCacheHit,
		"generate_s": info.GenSeconds, "build_s": info.BuildSecs, "reference_stats": info.Stats})
	c31SelfTable(c)
	return c31Absorb(c, lines, "")
}

// c31Absorb turns side-binary lines into evidence; onlySig != "" (replay) keeps only that signature.
func c31Absorb(c *core.Ctx, lines []c31ref.Line, onlySig string) error {
	var missingEx []string
	for _, l := range lines {
		switch l.T {
		case "oracle":
			return fmt.Errorf("C31 reference is inconsistent (harness error, not a finding): %s", l.What)
		case "viol":
			if onlySig != "" && l.Sig != onlySig {
				continue
			}
			c.Violation(l.Sig, l.What, c31Case{Part: "A", Pkg: l.Pkg, Name: l.Name, Sig: l.Sig})
		case "nt":
			c.Nontrivial(l.K)
		case "sample":
			if onlySig == "" {
				var v interface{}
				json.Unmarshal(l.V, &v)
				c.Sample(v)
			}
		case "missing":
			for _, n := range l.Names {
				if len(missingEx) < 16 {
					missingEx = append(missingEx, l.Pkg+"."+n)
				}
			}
		case "noref":
			c.Set("partA_tables_without_reference", l.Names)
		case "count":
			k := l.K
			switch k {
			case "funcs", "vars", "typed_consts", "untyped_consts", "untyped_const_binds", "types", "wrappers", "proxies_static", "evals_pkgname":
				c.Eval(l.N) // one comparison per entry
				if k != "evals_pkgname" {
					c.Count("A_"+k, l.N)
				}
			default:
				c.Count("A_"+k, l.N)
			}
		}
	}
	if onlySig == "" {
		c.Set("missing_from_table_examples", missingEx)
	}
	return nil
}

// ---------------------------------------------------------------------------------------------

func c31Run(c *core.Ctx) {
	c.Rule(c31Rule)
	if c.NShards > 1 {
		// one interpreter thread per worker process; GC helpers of 16 workers x 16 Ps only fight each other
		runtime.GOMAXPROCS(2)
		os.Setenv("GOMAXPROCS", "2") // inherited by the `go list -export` children of go/importer
	}
	t0 := time.Now()
	c31RunProxies(c)
	c31Trace("B shard %d: %v", c.Shard, time.Since(t0))
	c31RunInterp(c)
	c31Trace("B+C shard %d: %v", c.Shard, time.Since(t0))
}

func c31Replay(c *core.Ctx, raw json.RawMessage) {
	var cs c31Case
	if err := json.Unmarshal(raw, &cs); err != nil {
		fmt.Println("bad case:", err)
		return
	}
	switch cs.Part {
	case "A":
		if cs.Pkg == c31SelfPath {
			c31SelfTable(c)
			return
		}
		bin, _, err := c31ref.BuildSide(c31Paths(false))
		if err != nil {
			fmt.Println("HARNESS-ERROR:", err)
			return
		}
		lines, err := c31ref.RunSide(bin, cs.Pkg)
		if err != nil {
			fmt.Println("HARNESS-ERROR:", err)
			return
		}
		var keep []c31ref.Line
		for _, l := range lines {
			if l.T == "viol" && l.Name == cs.Name && (cs.Sig == "" || l.Sig == cs.Sig) || l.T == "oracle" {
				keep = append(keep, l)
			}
		}
		if err := c31Absorb(c, keep, ""); err != nil {
			fmt.Println("HARNESS-ERROR:", err)
		}
	case "B":
		c31ReplayProxy(c, &cs)
	case "C":
		c31ReplayInterp(c, &cs)
	}
}
