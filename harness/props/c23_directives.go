package props

// C23 family (4): line directives and carriage returns inside comments.
//
// The string alphabet of family (1) cannot spell "line " and the corpus contains no directive with CRLF line ends,
// with a column, with an empty file name, at a column other than 1, ... — so the whole directive interpreter of the
// scanner (scanComment's CR handling before/after the directive is analysed, the column-1 rule of //line, the
// "line " prefix, trailingDigits, the line/column range checks, the empty file name rule, the relative file name
// rule, the offset from which the directive applies) was compared on a handful of inputs only. This family is the
// complete product of
//
//	position of the comment  x  //-form | /*-form (terminated, unterminated, spanning lines)  x  end of line (LF, CRLF, EOF,
//	more tokens on the same line)  x  keyword spelling  x  file name  x  line text  x  column text  x  trailing bytes
//	x  what follows (plain tokens | further directives that refer to the previous file name)
//
// scanned in both modes, with a file name that has a directory (relative directive file names are joined to it).
// The oracle is unchanged: error iff go/scanner reports one; without error identical (offset, line, column, file,
// token, literal) streams — the positions are the *adjusted* ones, so an ignored, misplaced or misparsed directive shows.

import (
	"fmt"

	"verif/harness/core"
)

type c23DirForm struct {
	open, close string // comment delimiters; close is written after the body ("" for //-comments and unterminated /*)
	eol         string // bytes after the comment
	lastLine    bool   // nothing may follow (EOF right after the comment / unterminated comment)
}

var c23DirContexts = []string{
	"",         // first byte of the file
	"x\n",      // column 1 of the second line
	"x\r\n",    // column 1 after a CRLF line end
	"x ",       // after a token on the same line
	" ",        // column 2
	"\t",       // after a tab
	"\ufeff",   // after a byte order mark at the file start
	"/**/",     // after another comment on the same line
	"\n\n\t\n", // column 1 after blank lines
}

var c23DirForms = []c23DirForm{
	{"//", "", "\n", false},
	{"//", "", "\r\n", false},
	{"//", "", "", true},
	{"/*", "*/", "\n", false},
	{"/*", "*/", "\r\n", false},
	{"/*", "*/", " y\n", false},
	{"/*", "*/", "y /*line :4:4*/ y\n", false},
	{"/*", "*/", "", true},
	{"/*", "\n*/", "\n", false},
	{"/*", "\n*/", " y\n", false},
	{"/*", "\r\n*/", "\r\n", false},
	{"/*", "", "\n", true}, // not terminated: an error on both sides, must not be taken as a directive
	{"/*", "* /", "\n", true},
}

var (
	c23DirFiles = []string{"", "f.go", "d/../g.go", "/abs/h.go", "c:\\w.go", "a b.go", "\u00e9.go"}
	c23DirLines = []string{"-", "", "0", "1", "12", "007", "+3", "x", "1073741823", "1073741824", "1073741825", "99999999999999999999", " 5", "5 ", "08", "0x1f", "1_0"} // "-": no ":line" part at all
	c23DirCols  = []string{"-", "", "0", "1", "9", "x", "1073741824", "1073741825", "08", "0b1"}
	c23DirTrail = []string{"", " ", "\r", "\t", "\r\r"}
	c23DirTails = []string{
		"y\nz z\n",
		"y\n//line :7:3\nw\n/*line :2:9*/v\n//line k.go:3\r\nu\n",
	}
)

// c23DirBodies returns the texts between the comment opener and the end of the comment.
func c23DirBodies() []string {
	var out []string
	add := func(kw string, files, lines, cols, trails []string) {
		for _, f := range files {
			for _, l := range lines {
				for _, co := range cols {
					if l == "-" && co != "-" {
						continue // "file:col" is the same text as "file:line"
					}
					for _, t := range trails {
						s := kw + f
						if l != "-" {
							s += ":" + l
						}
						if co != "-" {
							s += ":" + co
						}
						out = append(out, s+t)
					}
				}
			}
		}
	}
	add("line ", c23DirFiles, c23DirLines, c23DirCols, c23DirTrail)
	for _, kw := range []string{"line\t", "line", "line  ", " line ", "Line ", "lin e "} {
		add(kw, []string{"f.go"}, []string{"12", "x"}, []string{"-", "3"}, []string{"", "\r"})
	}
	return out
}

// directiveKey records the observable outcome of the directives of the current input (standard scanner):
// first error class, and file:line:column of the last token.
func (k *c23Worker) directiveKey() {
	k.kbuf = append(k.kbuf[:0], "dir|"...)
	if len(k.std.Errs) > 0 {
		k.kbuf = append(k.kbuf, c23ErrClass(k.std.Errs[0])...)
	}
	if n := len(k.std.Toks); n > 0 {
		t := k.std.Toks[n-1]
		k.kbuf = append(k.kbuf, fmt.Sprintf("|%s:%d:%d", t.File, t.Line, t.Col)...)
	}
	k.keys.add(k.kbuf)
}

func c23Directives(c *core.Ctx, vc *vcollector, get func(int) *c23Worker, base int64) int64 {
	bodies := c23DirBodies()
	names := []string{"sub/dir/f.go"}
	ctxs := c23DirContexts
	if c.Thorough() {
		names = append(names, "f.go", "/root/r.go")
	}
	nb, nf, nc, nt := int64(len(bodies)), int64(len(c23DirForms)), int64(len(ctxs)), int64(len(c23DirTails))
	per := nb * nf * nc * nt
	total := per * int64(len(names))
	bufs := make([][]byte, 64)
	parFor(c, total, 4096, func(w int, i int64) {
		k := get(w)
		j := i
		name := names[j/per]
		j %= per
		body := bodies[j%nb]
		j /= nb
		form := c23DirForms[j%nf]
		j /= nf
		ctx := ctxs[j%nc]
		j /= nc
		tail := c23DirTails[j]
		b := append(bufs[w][:0], ctx...)
		b = append(b, form.open...)
		b = append(b, body...)
		b = append(b, form.close...)
		b = append(b, form.eol...)
		if !form.lastLine {
			b = append(b, tail...)
		}
		bufs[w] = b
		k.name, k.dirKeys = name, true
		k.check(c, vc, base+2*i, "line directive", b, false)
		k.check(c, vc, base+2*i+1, "line directive", b, true)
		k.name, k.dirKeys = "", false
	})
	c.Set("directive_inputs", total)
	c.Set("directive_dimensions", fmt.Sprintf("%d comment bodies (keyword x file x line x column x trailing bytes) x %d comment forms/line ends x %d positions x %d continuations x %d file names given to Init",
		nb, nf, nc, nt, len(names)))
	return base + 2*total
}

// c23CommentCR: every comment body of length <= 5 over {CR, *, /, a, LF, space}, as //-comment and as /*-comment,
// at column 1 and after a token, followed by LF / CRLF+token / EOF: the carriage-return stripping of comment literals
// (all CRs of a //-comment, all but the one in "*\r/"... of a /*-comment) and the line-end look-ahead after a comment.
func c23CommentCR(c *core.Ctx, vc *vcollector, get func(int) *c23Worker, base int64) {
	alpha := []string{"\r", "*", "/", "a", "\n", " "}
	L := 5
	var bodies []string
	var rec func(prefix string, l int)
	rec = func(prefix string, l int) {
		bodies = append(bodies, prefix)
		if l == L {
			return
		}
		for _, a := range alpha {
			rec(prefix+a, l+1)
		}
	}
	rec("", 0)
	type shape struct{ pre, open, close, post string }
	var shapes []shape
	for _, pre := range []string{"", "x "} {
		for _, oc := range [][2]string{{"//", ""}, {"/*", "*/"}} {
			for _, post := range []string{"\ny\n", "\r\ny", ""} {
				shapes = append(shapes, shape{pre, oc[0], oc[1], post})
			}
		}
	}
	ns := int64(len(shapes))
	total := int64(len(bodies)) * ns
	parFor(c, total, 4096, func(w int, i int64) {
		k := get(w)
		sh := shapes[i%ns]
		src := []byte(sh.pre + sh.open + bodies[i/ns] + sh.close + sh.post)
		k.check(c, vc, base+2*i, "comment with carriage returns", src, false)
		k.check(c, vc, base+2*i+1, "comment with carriage returns", src, true)
	})
	c.Set("comment_cr_inputs", total)
}
