package props

// C10 — interpreted goroutines and channels behave as Go permits on every schedule.
// Every program of a bounded alphabet of channel scripts (2–3 goroutines, ≤2–3 operations each,
// ≤2 channels with capacity 0 or 1) is executed under EVERY schedule within the preemption bound
// (a) by the interpreter (gomacro's own `go`, `<-`, close, range, select code on real Go channels) and
// (b) by a native executor that performs the same script with real Go channel operations, both under
// the same cooperative scheduler whose enabledness comes from a small reference model of Go channels.
// For every schedule the events observed by (a) and by (b) must equal the model's prediction.

import (
	"encoding/json"
	"fmt"
	r "reflect"
	"sort"
	"strings"
	"sync"

	"github.com/cosmos72/gomacro/fast"
	"github.com/cosmos72/gomacro/gls"

	"verif/harness/core"
	"verif/harness/h"
	"verif/harness/sched"
	"verif/harness/twin"
)

func init() {
	core.Register(&core.Check{ID: "C10", Level: "model_checking", Workers: -1, Run: c10Run, Replay: c10Replay})
}

// ---- scripts ---------------------------------------------------------------------------------

type c10Case_ struct { // one case of a select
	Send bool `json:"send"`
	Ch   int  `json:"ch"`
	Val  int  `json:"val,omitempty"`
	Ok   bool `json:"comma_ok,omitempty"`
}

type c10Op struct {
	Kind    string     `json:"kind"` // send recv recv2 close range select
	Ch      int        `json:"ch"`
	Val     int        `json:"val,omitempty"`
	Cases   []c10Case_ `json:"cases,omitempty"`
	Default bool       `json:"default,omitempty"`
}

type c10Prog struct {
	Caps    [2]int    `json:"caps"`
	Threads [][]c10Op `json:"threads"` // Threads[0] = main thread, others are started with `go` in order
	// Shared: goroutines 1 and 2 run the SAME function value (one compiled body, `go w(1, c0, c1); go w(2, c1, c0)`):
	// Threads[2] is then Threads[1] with the two channels swapped
	Shared bool `json:"shared_body,omitempty"`
}

func c10Swap(ops []c10Op) []c10Op {
	out := make([]c10Op, len(ops))
	for i, o := range ops {
		o.Ch ^= 1
		cs := make([]c10Case_, len(o.Cases))
		for j, k := range o.Cases {
			k.Ch ^= 1
			cs[j] = k
		}
		if len(cs) > 0 {
			o.Cases = cs
		}
		out[i] = o
	}
	return out
}

func (o c10Op) String() string {
	switch o.Kind {
	case "send":
		return fmt.Sprintf("c%d<-%d", o.Ch, o.Val)
	case "recv":
		return fmt.Sprintf("<-c%d", o.Ch)
	case "recv2":
		return fmt.Sprintf("v,ok=<-c%d", o.Ch)
	case "close":
		return fmt.Sprintf("close(c%d)", o.Ch)
	case "range":
		return fmt.Sprintf("range c%d", o.Ch)
	}
	var cs []string
	for _, k := range o.Cases {
		if k.Send {
			cs = append(cs, fmt.Sprintf("c%d<-%d", k.Ch, k.Val))
		} else if k.Ok {
			cs = append(cs, fmt.Sprintf("v,ok=<-c%d", k.Ch))
		} else {
			cs = append(cs, fmt.Sprintf("<-c%d", k.Ch))
		}
	}
	if o.Default {
		cs = append(cs, "default")
	}
	return "select{" + strings.Join(cs, "|") + "}"
}

func (p *c10Prog) String() string {
	var ts []string
	for i, t := range p.Threads {
		var os []string
		for _, o := range t {
			os = append(os, o.String())
		}
		ts = append(ts, fmt.Sprintf("T%d[%s]", i, strings.Join(os, "; ")))
	}
	sh := ""
	if p.Shared {
		sh = " shared-body"
	}
	return fmt.Sprintf("caps=%v%s %s", p.Caps, sh, strings.Join(ts, " "))
}

// Source renders the program as interpreted Go.
func (p *c10Prog) Source() string {
	var sb strings.Builder
	fmt.Fprintf(&sb, "func Prog() {\n\tc0 := make(chan int, %d)\n\tc1 := make(chan int, %d)\n\t_ = c0\n\t_ = c1\n\tx := 0\n\tres := make([]int, %d)\n", p.Caps[0], p.Caps[1], len(p.Threads))
	chn := func(ch int) string { return fmt.Sprintf("c%d", ch) }
	tis := func(ti int) string { return fmt.Sprint(ti) }
	body := func(ti int, ops []c10Op, indent string) {
		fmt.Fprintf(&sb, "%sdefer func() {\n%s\tif e := recover(); e != nil {\n%s\t\tPan(e)\n%s\t}\n%s}()\n", indent, indent, indent, indent, indent)
		if ti == 1 && !p.Shared {
			fmt.Fprintf(&sb, "%sx = 7\n", indent)
		}
		for i, o := range ops {
			if o.Kind != "select" {
				// for a select the scheduling point is inside the interpreter, between filling the cases and executing the select
				fmt.Fprintf(&sb, "%sP(%d)\n", indent, i)
			}
			switch o.Kind {
			case "send":
				fmt.Fprintf(&sb, "%s%s <- %d\n%sEv(\"sent\", %d, true)\n", indent, chn(o.Ch), o.Val, indent, o.Val)
			case "recv":
				fmt.Fprintf(&sb, "%sEv(\"recv\", <-%s, true)\n", indent, chn(o.Ch))
			case "recv2":
				fmt.Fprintf(&sb, "%s{\n%s\tv, ok := <-%s\n%s\tEv(\"recv2\", v, ok)\n%s}\n", indent, indent, chn(o.Ch), indent, indent)
			case "close":
				fmt.Fprintf(&sb, "%sclose(%s)\n%sEv(\"closed\", 0, true)\n", indent, chn(o.Ch), indent)
			case "range":
				fmt.Fprintf(&sb, "%sfor v := range %s {\n%s\tEv(\"range\", v, true)\n%s\tP(%d)\n%s}\n%sEv(\"range-end\", 0, false)\n", indent, chn(o.Ch), indent, indent, i, indent, indent)
			case "select":
				fmt.Fprintf(&sb, "%sselect {\n", indent)
				for ci, k := range o.Cases {
					switch {
					case k.Send:
						fmt.Fprintf(&sb, "%scase %s <- %d:\n%s\tEv(\"sel%d-sent\", %d, true)\n", indent, chn(k.Ch), k.Val, indent, ci, k.Val)
					case k.Ok:
						fmt.Fprintf(&sb, "%scase v, ok := <-%s:\n%s\tEv(\"sel%d-recv2\", v, ok)\n", indent, chn(k.Ch), indent, ci)
					default:
						fmt.Fprintf(&sb, "%scase v := <-%s:\n%s\tEv(\"sel%d-recv\", v, true)\n", indent, chn(k.Ch), indent, ci)
					}
				}
				if o.Default {
					fmt.Fprintf(&sb, "%sdefault:\n%s\tEv(\"sel-default\", 0, false)\n", indent, indent)
				}
				fmt.Fprintf(&sb, "%s}\n", indent)
			}
			fmt.Fprintf(&sb, "%sres[%s]++\n", indent, tis(ti))
		}
	}
	if p.Shared {
		// one function value, run by two goroutines on swapped channels
		chn = func(ch int) string { return []string{"a", "b"}[ch] }
		tis = func(int) string { return "ti" }
		sb.WriteString("\tw := func(ti int, a chan int, b chan int) {\n")
		body(1, p.Threads[1], "\t\t")
		sb.WriteString("\t}\n\tx = 7\n\tgo w(1, c0, c1)\n\tgo w(2, c1, c0)\n")
		chn = func(ch int) string { return fmt.Sprintf("c%d", ch) }
		tis = func(ti int) string { return fmt.Sprint(ti) }
	} else {
		for ti := 1; ti < len(p.Threads); ti++ {
			sb.WriteString("\tgo func() {\n")
			body(ti, p.Threads[ti], "\t\t")
			sb.WriteString("\t}()\n")
		}
	}
	sb.WriteString("\tfunc() {\n")
	body(0, p.Threads[0], "\t\t")
	sb.WriteString("\t}()\n\tJoin()\n\tFin(len(c0), len(c1), x, res)\n}\n")
	return sb.String()
}

// ---- reference model of Go channels ----------------------------------------------------------

type c10Chan struct {
	cap    int
	q      []int
	closed bool
}

type c10Offer struct {
	send bool
	ch   int
	val  int
	cas  int // select case index, -1 for a plain operation
}

type c10Act struct { // Action.Data
	kind   string // start join solo pair default
	cas    int    // chosen select case of the primary thread (-1 = plain op)
	cas2   int    // chosen select case of the partner
	offer  c10Offer
	offer2 c10Offer
}

type c10Model struct {
	mu     sync.Mutex
	prog   *c10Prog
	s      *sched.S
	ch     [2]*c10Chan
	pc     map[string]int      // thread name -> index of the op it is parked at
	dead   map[string]bool     // thread panicked (model prediction)
	want   map[string][]string // predicted events per thread
	got    map[string][]string // observed events per thread
	selCas map[int]int         // tid -> chosen select case for the select it is about to run (-2 = default)
	fin    string
}

func newC10Model(p *c10Prog) *c10Model {
	m := &c10Model{prog: p, pc: map[string]int{}, dead: map[string]bool{}, want: map[string][]string{}, got: map[string][]string{}, selCas: map[int]int{}}
	for i := range m.ch {
		m.ch[i] = &c10Chan{cap: p.Caps[i]}
	}
	return m
}

func c10ThreadIndex(name string) int {
	if name == "0" {
		return 0
	}
	var k int
	fmt.Sscanf(name, "0.%d", &k)
	return k
}

// opIndex: the index of the operation a parked thread is about to perform. Points placed in the program text
// carry it; the point inside the interpreter's select does not, there the model's own program counter is used.
func (m *c10Model) opIndex(name string, op sched.Op) int {
	if i, ok := op.Arg.(int); ok {
		return i
	}
	return m.pc[name]
}

func (m *c10Model) opOf(name string, idx int) *c10Op {
	ti := c10ThreadIndex(name)
	if ti < 0 || ti >= len(m.prog.Threads) || idx < 0 || idx >= len(m.prog.Threads[ti]) {
		return nil
	}
	return &m.prog.Threads[ti][idx]
}

func (m *c10Model) offers(o *c10Op) []c10Offer {
	switch o.Kind {
	case "send":
		return []c10Offer{{true, o.Ch, o.Val, -1}}
	case "recv", "recv2", "range":
		return []c10Offer{{false, o.Ch, 0, -1}}
	case "select":
		var out []c10Offer
		for i, k := range o.Cases {
			out = append(out, c10Offer{k.Send, k.Ch, k.Val, i})
		}
		return out
	}
	return nil
}

func (m *c10Model) soloReady(of c10Offer) bool {
	c := m.ch[of.ch]
	if of.send {
		return c.closed || len(c.q) < c.cap
	}
	return len(c.q) > 0 || c.closed
}

func (m *c10Model) Enabled(parked map[int]sched.Op) []sched.Action {
	m.mu.Lock()
	defer m.mu.Unlock()
	var tids []int
	for tid := range parked {
		tids = append(tids, tid)
	}
	sort.Ints(tids)
	var acts []sched.Action
	hasComm := map[int]bool{}
	type pend struct {
		tid    int
		name   string
		op     *c10Op
		offers []c10Offer
	}
	var ps []pend
	for _, tid := range tids {
		name := m.s.ThreadName(tid)
		op := parked[tid]
		switch op.Kind {
		case "start":
			acts = append(acts, sched.Action{Tids: []int{tid}, Label: name + ":start", Data: c10Act{kind: "start"}})
		case "alloc":
			acts = append(acts, sched.Action{Tids: []int{tid}, Label: name + ":" + op.Kind, Data: c10Act{kind: "start"}})
		case "join":
			others := 0
			for t2, o2 := range parked {
				if t2 != tid && o2.Kind != "join" {
					others++
				}
			}
			if others == 0 {
				acts = append(acts, sched.Action{Tids: []int{tid}, Label: name + ":join", Data: c10Act{kind: "join"}})
			}
		case "op", "in-select":
			o := m.opOf(name, m.opIndex(name, op))
			if o == nil {
				continue
			}
			if o.Kind == "close" {
				acts = append(acts, sched.Action{Tids: []int{tid}, Label: fmt.Sprintf("%s:%s", name, o), Data: c10Act{kind: "solo", cas: -1}})
				hasComm[tid] = true
				continue
			}
			ps = append(ps, pend{tid, name, o, m.offers(o)})
		}
	}
	for _, p := range ps {
		for _, of := range p.offers {
			if m.soloReady(of) {
				acts = append(acts, sched.Action{Tids: []int{p.tid}, Label: fmt.Sprintf("%s:%s#%d", p.name, p.op, of.cas), Data: c10Act{kind: "solo", cas: of.cas, offer: of}})
				hasComm[p.tid] = true
			}
			c := m.ch[of.ch]
			if of.send && c.cap == 0 && !c.closed {
				for _, q := range ps {
					if q.tid == p.tid {
						continue
					}
					for _, of2 := range q.offers {
						if !of2.send && of2.ch == of.ch {
							acts = append(acts, sched.Action{Tids: []int{p.tid, q.tid}, Label: fmt.Sprintf("%s:%s#%d=>%s#%d", p.name, p.op, of.cas, q.name, of2.cas),
								Data: c10Act{kind: "pair", cas: of.cas, cas2: of2.cas, offer: of, offer2: of2}})
							hasComm[p.tid] = true
							hasComm[q.tid] = true
						}
					}
				}
			}
		}
	}
	for _, p := range ps {
		if p.op.Kind == "select" && p.op.Default && !hasComm[p.tid] {
			acts = append(acts, sched.Action{Tids: []int{p.tid}, Label: fmt.Sprintf("%s:%s#default", p.name, p.op), Data: c10Act{kind: "default", cas: -2}})
		}
	}
	sort.SliceStable(acts, func(i, j int) bool {
		if acts[i].Tids[0] != acts[j].Tids[0] {
			return acts[i].Tids[0] < acts[j].Tids[0]
		}
		return false
	})
	return acts
}

// advance moves the model's program counter of a thread past the operation being fired
// (a range operation stays current until its channel is closed and drained: recomputed at each firing).
func (m *c10Model) advance(name string, idx int, o *c10Op, d c10Act) {
	if o.Kind == "range" {
		c := m.ch[o.Ch]
		if d.kind == "solo" && len(c.q) == 0 && c.closed {
			m.pc[name] = idx + 1
		} else {
			m.pc[name] = idx
		}
		return
	}
	m.pc[name] = idx + 1
}

func (m *c10Model) predict(name, ev string) { m.want[name] = append(m.want[name], ev) }

func evs(kind string, v int, ok bool) string { return fmt.Sprintf("%s(%d,%v)", kind, v, ok) }

// apply one offer of thread `name` whose op is o; v is the transferred value for a rendezvous receive.
func (m *c10Model) applyRecv(name string, o *c10Op, cas int, v int, ok bool) {
	switch o.Kind {
	case "recv":
		m.predict(name, evs("recv", v, true))
	case "recv2":
		m.predict(name, evs("recv2", v, ok))
	case "range":
		if ok {
			m.predict(name, evs("range", v, true))
		} else {
			m.predict(name, evs("range-end", 0, false))
		}
	case "select":
		if o.Cases[cas].Ok {
			m.predict(name, evs(fmt.Sprintf("sel%d-recv2", cas), v, ok))
		} else {
			m.predict(name, evs(fmt.Sprintf("sel%d-recv", cas), v, true))
		}
	}
}

func (m *c10Model) applySent(name string, o *c10Op, cas int, v int) {
	if o.Kind == "select" {
		m.predict(name, evs(fmt.Sprintf("sel%d-sent", cas), v, true))
	} else {
		m.predict(name, evs("sent", v, true))
	}
}

func (m *c10Model) Fire(a sched.Action, parked map[int]sched.Op) {
	m.mu.Lock()
	defer m.mu.Unlock()
	d := a.Data.(c10Act)
	tid := a.Tids[0]
	name := m.s.ThreadName(tid)
	switch d.kind {
	case "start", "join":
		return
	}
	idx := m.opIndex(name, parked[tid])
	o := m.opOf(name, idx)
	m.selCas[tid] = d.cas
	m.advance(name, idx, o, d)
	switch d.kind {
	case "default":
		m.predict(name, evs("sel-default", 0, false))
	case "solo":
		if o.Kind == "close" {
			c := m.ch[o.Ch]
			if c.closed {
				m.predict(name, "panic:rt:chan")
			} else {
				c.closed = true
				m.predict(name, evs("closed", 0, true))
			}
			return
		}
		c := m.ch[d.offer.ch]
		if d.offer.send {
			if c.closed {
				m.predict(name, "panic:rt:chan")
			} else {
				c.q = append(c.q, d.offer.val)
				m.applySent(name, o, d.cas, d.offer.val)
			}
		} else {
			if len(c.q) > 0 {
				v := c.q[0]
				c.q = c.q[1:]
				m.applyRecv(name, o, d.cas, v, true)
			} else {
				m.applyRecv(name, o, d.cas, 0, false)
			}
		}
	case "pair":
		tid2 := a.Tids[1]
		name2 := m.s.ThreadName(tid2)
		idx2 := m.opIndex(name2, parked[tid2])
		o2 := m.opOf(name2, idx2)
		m.selCas[tid2] = d.cas2
		m.advance(name2, idx2, o2, d)
		m.applySent(name, o, d.cas, d.offer.val)
		m.applyRecv(name2, o2, d.cas2, d.offer.val, true)
	}
}

// selectMask implements the environment answer for `select`: all communication cases but the chosen one are
// replaced by nil channels (never ready); when a communication case was chosen the default case is masked too.
func (m *c10Model) selectMask(tid int, cases []r.SelectCase) []r.SelectCase {
	m.mu.Lock()
	chosen, ok := m.selCas[tid]
	m.mu.Unlock()
	if !ok {
		return cases
	}
	out := make([]r.SelectCase, len(cases))
	k := 0 // index among communication cases, in source order
	for i, c := range cases {
		out[i] = c
		if c.Dir == r.SelectDefault {
			if chosen >= 0 {
				out[i] = r.SelectCase{Dir: r.SelectRecv} // nil channel: ignored
			}
			continue
		}
		if k != chosen {
			out[i].Chan = r.Value{}
			out[i].Send = r.Value{}
		}
		k++
	}
	return out
}

// ---- executing one schedule ------------------------------------------------------------------

type c10Abort struct{}

type c10Outcome struct {
	x    *sched.Execution
	want map[string][]string
	got  map[string][]string
	fin  string
	err  string
}

// c10Cur is the model/scheduler of the execution in progress: the hooks declared once in an interpreter dispatch through it.
var c10Cur struct {
	mu sync.Mutex
	m  *c10Model
	s  *sched.S
}

func c10DeclHooks(ir *twin.Interp) {
	get := func() (*c10Model, *sched.S) {
		c10Cur.mu.Lock()
		defer c10Cur.mu.Unlock()
		return c10Cur.m, c10Cur.s
	}
	ir.DeclFunc("P", func(i int) { m, s := get(); P, _, _, _, _ := m.hooks(s); P(i) })
	ir.DeclFunc("Ev", func(k string, v int, ok bool) { m, s := get(); _, Ev, _, _, _ := m.hooks(s); Ev(k, v, ok) })
	ir.DeclFunc("Pan", func(e interface{}) { m, s := get(); _, _, Pan, _, _ := m.hooks(s); Pan(e) })
	ir.DeclFunc("Join", func() { m, s := get(); _, _, _, Join, _ := m.hooks(s); Join() })
	ir.DeclFunc("Fin", func(a, b, x int, res []int) { m, s := get(); _, _, _, _, Fin := m.hooks(s); Fin(a, b, x, res) })
}

func (m *c10Model) hooks(s *sched.S) (P func(int), Ev func(string, int, bool), Pan func(interface{}), Join func(), Fin func(int, int, int, []int)) {
	P = func(i int) {
		if !s.PointOK(sched.Op{Kind: "op", Arg: i}) {
			panic(c10Abort{})
		}
	}
	Ev = func(kind string, v int, ok bool) {
		name := s.Name()
		m.mu.Lock()
		m.got[name] = append(m.got[name], evs(kind, v, ok))
		m.mu.Unlock()
	}
	Pan = func(e interface{}) {
		if _, isAbort := e.(c10Abort); isAbort {
			return
		}
		if _, isAbort := e.(sched.SelectAborted); isAbort {
			return
		}
		name := s.Name()
		m.mu.Lock()
		m.got[name] = append(m.got[name], "panic:"+h.PanicClass(e))
		m.mu.Unlock()
	}
	Join = func() {
		if !s.PointOK(sched.Op{Kind: "join"}) {
			panic(c10Abort{})
		}
	}
	Fin = func(l0, l1, x int, res []int) {
		m.mu.Lock()
		m.fin = fmt.Sprintf("len(c0)=%d len(c1)=%d x=%d res=%v", l0, l1, x, res)
		m.mu.Unlock()
	}
	return
}

// c10ExecInterp runs one schedule of p on the interpreter ir (which has Prog compiled).
func c10ExecInterp(p *c10Prog, ir *twin.Interp, prefix []int) c10Outcome {
	m := newC10Model(p)
	guard := newC10FrameGuard()
	sched.Install(sched.Callbacks{SelectPoints: true,
		Select:  func(s *sched.S, tid int, cases []r.SelectCase) []r.SelectCase { return m.selectMask(tid, cases) },
		Alloc:   guard.alloc,
		FreeEnv: guard.free})
	var perr interface{}
	x := sched.RunOnce(m, prefix, 200, func(s *sched.S) {
		m.mu.Lock()
		m.s = s
		m.mu.Unlock()
		c10Cur.mu.Lock()
		c10Cur.m, c10Cur.s = m, s
		c10Cur.mu.Unlock()
		perr = twin.Catch(func() { ir.Eval("Prog()") })
	})
	out := c10Outcome{x: x, want: m.want, got: m.got, fin: m.fin}
	if perr != nil {
		_, isAbort := perr.(c10Abort)
		_, isAbort2 := perr.(sched.SelectAborted)
		if !isAbort && !isAbort2 {
			out.err = fmt.Sprint("main thread panicked: ", perr)
		}
	}
	if v := guard.violations(); len(v) > 0 {
		out.err += " " + strings.Join(v, "; ")
	}
	return out
}

// c10ExecNative performs the same script with real Go channel operations.
func c10ExecNative(p *c10Prog, prefix []int) c10Outcome {
	m := newC10Model(p)
	sched.Install(sched.Callbacks{})
	x := sched.RunOnce(m, prefix, 200, func(s *sched.S) {
		m.mu.Lock()
		m.s = s
		m.mu.Unlock()
		P, Ev, Pan, Join, Fin := m.hooks(s)
		ch := [2]chan int{make(chan int, p.Caps[0]), make(chan int, p.Caps[1])}
		xv := 0
		res := make([]int, len(p.Threads))
		run := func(ti int) {
			defer func() {
				if e := recover(); e != nil {
					Pan(e)
				}
			}()
			if ti == 1 {
				xv = 7
			}
			for i, o := range p.Threads[ti] {
				P(i)
				switch o.Kind {
				case "send":
					ch[o.Ch] <- o.Val
					Ev("sent", o.Val, true)
				case "recv":
					Ev("recv", <-ch[o.Ch], true)
				case "recv2":
					v, ok := <-ch[o.Ch]
					Ev("recv2", v, ok)
				case "close":
					close(ch[o.Ch])
					Ev("closed", 0, true)
				case "range":
					for v := range ch[o.Ch] {
						Ev("range", v, true)
						P(i)
					}
					Ev("range-end", 0, false)
				case "select":
					var cases []r.SelectCase
					for _, k := range o.Cases {
						if k.Send {
							cases = append(cases, r.SelectCase{Dir: r.SelectSend, Chan: r.ValueOf(ch[k.Ch]), Send: r.ValueOf(k.Val)})
						} else {
							cases = append(cases, r.SelectCase{Dir: r.SelectRecv, Chan: r.ValueOf(ch[k.Ch])})
						}
					}
					if o.Default {
						cases = append(cases, r.SelectCase{Dir: r.SelectDefault})
					}
					cases = m.selectMask(s.Tid(), cases)
					chosen, v, ok := r.Select(cases)
					switch {
					case chosen >= len(o.Cases):
						Ev("sel-default", 0, false)
					case o.Cases[chosen].Send:
						Ev(fmt.Sprintf("sel%d-sent", chosen), o.Cases[chosen].Val, true)
					case o.Cases[chosen].Ok:
						Ev(fmt.Sprintf("sel%d-recv2", chosen), int(v.Int()), ok)
					default:
						Ev(fmt.Sprintf("sel%d-recv", chosen), int(v.Int()), true)
					}
				}
				res[ti]++
			}
		}
		for ti := 1; ti < len(p.Threads); ti++ {
			ti := ti
			s.Go(func() { run(ti) })
		}
		func() {
			defer func() {
				if e := recover(); e != nil {
					if _, isAbort := e.(c10Abort); !isAbort {
						panic(e)
					}
				}
			}()
			run(0)
			Join()
			Fin(len(ch[0]), len(ch[1]), xv, res)
		}()
	})
	return c10Outcome{x: x, want: m.want, got: m.got, fin: m.fin}
}

func c10Fmt(m map[string][]string) string {
	var ks []string
	for k := range m {
		ks = append(ks, k)
	}
	sort.Strings(ks)
	var out []string
	for _, k := range ks {
		out = append(out, "T"+k+":"+strings.Join(m[k], ","))
	}
	return strings.Join(out, " ")
}

// c10FrameGuard: invariants on the frames handed out by the interpreter while goroutines run
// (the record of a frame belongs to the goroutine that allocates it; a frame is never in use by two live threads).
type c10FrameGuard struct {
	mu    sync.Mutex
	inuse map[*fast.Env]int
	viol  []string
}

func newC10FrameGuard() *c10FrameGuard { return &c10FrameGuard{inuse: map[*fast.Env]int{}} }

func (g *c10FrameGuard) alloc(s *sched.S, tid int, env *fast.Env, run *fast.Run, runGoid uintptr) {
	g.mu.Lock()
	defer g.mu.Unlock()
	if runGoid != gls.GoID() {
		g.viol = append(g.viol, fmt.Sprintf("thread %s allocates a frame that uses the runtime record of another goroutine", s.ThreadName(tid)))
	}
	if prev, busy := g.inuse[env]; busy && prev != tid && s.Alive(prev) {
		g.viol = append(g.viol, fmt.Sprintf("frame handed out to thread %s while thread %s still uses it", s.ThreadName(tid), s.ThreadName(prev)))
	}
	g.inuse[env] = tid
}

func (g *c10FrameGuard) free(env *fast.Env) {
	g.mu.Lock()
	delete(g.inuse, env)
	g.mu.Unlock()
}

func (g *c10FrameGuard) violations() []string {
	g.mu.Lock()
	defer g.mu.Unlock()
	return append([]string{}, g.viol...)
}

// ---- program enumeration ---------------------------------------------------------------------

func c10Alphabet(thorough bool) []c10Op {
	a := []c10Op{
		{Kind: "send", Ch: 0, Val: 5},
		{Kind: "recv", Ch: 0},
		{Kind: "recv2", Ch: 0},
		{Kind: "close", Ch: 0},
		{Kind: "range", Ch: 0},
		{Kind: "select", Cases: []c10Case_{{Ch: 0, Ok: true}}, Default: true},
		{Kind: "select", Cases: []c10Case_{{Send: true, Ch: 0, Val: 6}}, Default: true},
		{Kind: "select", Cases: []c10Case_{{Ch: 0}, {Send: true, Ch: 1, Val: 8}}},
		{Kind: "select", Cases: []c10Case_{{Send: true, Ch: 0, Val: 9}, {Ch: 1, Ok: true}}},
	}
	if thorough {
		a = append(a,
			c10Op{Kind: "send", Ch: 1, Val: 4},
			c10Op{Kind: "recv2", Ch: 1},
			c10Op{Kind: "close", Ch: 1},
			c10Op{Kind: "select", Cases: []c10Case_{{Ch: 0, Ok: true}, {Ch: 1, Ok: true}}, Default: true},
		)
	}
	return a
}

func c10Scripts(alpha []c10Op, maxLen int) [][]c10Op {
	var out [][]c10Op
	var rec func(cur []c10Op)
	rec = func(cur []c10Op) {
		if len(cur) > 0 {
			out = append(out, append([]c10Op{}, cur...))
		}
		if len(cur) == maxLen {
			return
		}
		for _, o := range alpha {
			rec(append(cur, o))
		}
	}
	rec(nil)
	return out
}

// c10Programs: main thread script of length 0..1 (quick) and two spawned threads (unordered pair of scripts).
func c10Programs(c *core.Ctx) []c10Prog {
	alpha := c10Alphabet(c.Thorough())
	spawnedLen := 2
	scripts := c10Scripts(alpha, spawnedLen)
	mains := append([][]c10Op{nil}, c10Scripts(alpha, 1)...)
	var progs []c10Prog
	capsList := [][2]int{{0, 1}, {1, 0}}
	if c.Thorough() {
		capsList = [][2]int{{0, 0}, {0, 1}, {1, 0}, {1, 1}}
	}
	for _, caps := range capsList {
		// two threads: main + one spawned
		for _, mn := range mains {
			for _, s1 := range scripts {
				progs = append(progs, c10Prog{Caps: caps, Threads: [][]c10Op{mn, s1}})
			}
		}
		// shared body: two goroutines run one function value on swapped channels (main without own ops, or one op)
		// (quick: of the one-op mains only those whose operation opens a block, i.e. allocates a frame while the goroutines run)
		for mi, mn := range mains {
			if c.Quick() && mi > 0 && !(mn[0].Kind == "recv2" || mn[0].Kind == "range") {
				continue
			}
			for _, s1 := range scripts {
				progs = append(progs, c10Prog{Caps: caps, Shared: true, Threads: [][]c10Op{mn, s1, c10Swap(s1)}})
			}
		}
		// three threads: main (no own ops in quick) + two spawned, unordered
		for mi, mn := range mains {
			if c.Quick() && mi > 0 {
				break
			}
			for i, s1 := range scripts {
				for j := i; j < len(scripts); j++ {
					if c.Quick() && len(s1)+len(scripts[j]) > 3 {
						continue
					}
					progs = append(progs, c10Prog{Caps: caps, Threads: [][]c10Op{mn, s1, scripts[j]}})
				}
			}
		}
	}
	return progs
}

// ---- the check ---------------------------------------------------------------------------------

type c10Replayed struct {
	Prog     c10Prog `json:"program"`
	Schedule []int   `json:"schedule"`
	Source   string  `json:"interpreted_source"`
}

func c10Run(c *core.Ctx) {
	c.Rule("programs = all scripts over an alphabet of channel operations (send, recv, recv comma-ok, close, range, 4 select forms with/without default over 2 channels of capacity 0/1) for a main thread and 1–2 goroutines started with `go` (unordered pairs), each <=2 operations; " +
		"for every program EVERY schedule within the preemption bound is executed on the interpreter and on a native executor using real Go channels, under one cooperative scheduler whose enabledness and select-case choices come from a reference model of Go channels; " +
		"states = scheduling points, transitions = scheduling decisions; traces = executions; non-trivial = distinct (program, schedule) with at least one communication event")
	c.Assume("between two scheduling points only the released thread (or a rendezvous pair) runs; data races proper are invisible to a cooperative scheduler and are left to free-running -race runs (sampling, not part of the verdict)",
		"the reference channel model is validated on every schedule against real Go channels (native executor)")
	progs := c10Programs(c)
	bound := 2
	c.Set("programs", len(progs))
	c.Set("preemption_bound", bound)
	twin.NewFast() // warm-up outside the scheduler
	outcomes := map[string]bool{}
	for pi := range progs {
		if !c.Mine(pi) {
			continue
		}
		if c.Expired() {
			break
		}
		p := &progs[pi]
		src := p.Source()
		ir := twin.NewFast()
		c10DeclHooks(ir)
		if perr := twin.Catch(func() { ir.Eval(src) }); perr != nil {
			c.Violation("C10|compile", fmt.Sprintf("program does not compile: %v\n%s", perr, src), c10Replayed{Prog: *p, Source: src})
			continue
		}
		first := true
		var last c10Outcome
		e := &sched.Explorer{Bound: bound, Stop: c.Expired}
		e.Run = func(prefix []int) *sched.Execution {
			last = c10ExecInterp(p, ir, prefix)
			if first {
				first = false
				again := c10ExecInterp(p, ir, last.x.Choices)
				if fmt.Sprint(again.x.Choices) != fmt.Sprint(last.x.Choices) || c10Fmt(again.got) != c10Fmt(last.got) {
					panic(fmt.Sprintf("HARNESS: schedule replay is not deterministic for %s: %v %s / %v %s", p, last.x.Choices, c10Fmt(last.got), again.x.Choices, c10Fmt(again.got)))
				}
			}
			return last.x
		}
		e.Check = func(x *sched.Execution) {
			o := last
			c.Eval(1)
			c.Transitions(len(x.Points))
			c.States(len(x.Points) + 1)
			cas := c10Replayed{Prog: *p, Schedule: x.Choices, Source: src}
			if x.Diverged != "" || x.Stuck != "" {
				c.Violation("C10|stuck", fmt.Sprintf("%s schedule %v: interpreter %s %s (model predicted %s, observed %s)", p, x.Choices, x.Stuck, x.Diverged, c10Fmt(o.want), c10Fmt(o.got)), cas)
				return
			}
			// the native executor under the very same schedule
			n := c10ExecNative(p, x.Choices)
			if n.x.Diverged != "" || n.x.Stuck != "" || fmt.Sprint(n.x.Choices) != fmt.Sprint(x.Choices) {
				c.Violation("C10|schedule-not-admissible-in-go", fmt.Sprintf("%s: schedule %v taken by the interpreter cannot be followed by real Go channels: %s %s %v", p, x.Choices, n.x.Stuck, n.x.Diverged, n.x.Choices), cas)
				return
			}
			if c10Fmt(n.got) != c10Fmt(n.want) || n.x.Deadlock != x.Deadlock {
				panic(fmt.Sprintf("HARNESS: reference model disagrees with real Go channels for %s schedule %v: model %s / go %s", p, x.Choices, c10Fmt(n.want), c10Fmt(n.got)))
			}
			for bi := range x.Blocked {
				x.Blocked[bi] = strings.Replace(x.Blocked[bi], "@in-select", "@op", 1)
			}
			gi, gn := c10Fmt(o.got), c10Fmt(n.got)
			if gi != "" {
				c.Nontrivial(p.String() + fmt.Sprint(x.Choices))
			}
			outcomes[gn+"|"+n.fin] = true
			if o.err != "" {
				c.Violation("C10|main-panic", fmt.Sprintf("%s schedule %v: %s", p, x.Choices, o.err), cas)
			}
			if gi != gn || o.fin != n.fin || fmt.Sprint(x.Blocked) != fmt.Sprint(n.x.Blocked) {
				sig := "C10|events"
				for _, t := range p.Threads {
					for _, op := range t {
						if op.Kind == "select" {
							sig = "C10|events|select"
						}
					}
				}
				c.Violation(sig, fmt.Sprintf("%s schedule %v:\n  Go channels : %s | %s | blocked %v\n  interpreter : %s | %s | blocked %v", p, x.Choices, gn, n.fin, n.x.Blocked, gi, o.fin, x.Blocked), cas)
			}
			if c.WantSample() && len(x.Points) > 6 {
				var labels []string
				for _, pt := range x.Points {
					labels = append(labels, pt.Enabled[pt.Chosen])
				}
				c.Sample(map[string]interface{}{"program": p.String(), "schedule": labels, "events": gn, "final": n.fin, "deadlock": x.Deadlock})
			}
		}
		e.Explore(nil)
		c.Traces(e.Executions)
		if e.Capped {
			c.Cap("deadline reached inside a program")
		}
	}
	c.Count("distinct_outcomes", len(outcomes))
}

func c10Replay(c *core.Ctx, raw json.RawMessage) {
	var cas c10Replayed
	if err := json.Unmarshal(raw, &cas); err != nil {
		panic(err)
	}
	p := &cas.Prog
	ir := twin.NewFast()
	c10DeclHooks(ir)
	ir.Eval(p.Source())
	o := c10ExecInterp(p, ir, cas.Schedule)
	n := c10ExecNative(p, cas.Schedule)
	for _, pt := range o.x.Points {
		fmt.Println("  ", pt.Enabled[pt.Chosen])
	}
	fmt.Printf("Go channels : %s | %s | deadlock=%v blocked %v\ninterpreter : %s | %s | deadlock=%v blocked %v %s %s\n", c10Fmt(n.got), n.fin, n.x.Deadlock, n.x.Blocked, c10Fmt(o.got), o.fin, o.x.Deadlock, o.x.Blocked, o.x.Stuck, o.err)
	if c10Fmt(o.got) != c10Fmt(n.got) || o.fin != n.fin || o.x.Stuck != "" || o.err != "" {
		c.Violation("C10|events", "interpreter and Go disagree under this schedule", cas)
	}
}
