package props

// C02 part B, corpus "reentrant" — the same assignment statement is RE-ENTERED while one execution of it is
// suspended between the evaluation of its operands and its stores.
//
// Go evaluates the index/key/pointer operands of the places and the right-hand sides first and stores afterwards;
// everything an execution of the statement has evaluated so far is private to that execution. An interpreter that
// compiles a statement once into a closure can break this with any state attached to the SITE (scratch buffers for
// the evaluated places, keys or values hoisted out of the run-time closure, a per-site temporary, a per-goroutine
// or per-frame-depth pool): invisible while the statement runs start-to-end, wrong as soon as a second execution of
// the same site starts in the window. The alphabet of this corpus is that window:
//
//   statement form   single (=, the 11 op=, ++, --), 2 places = 2 values, 3 places = 3 values, 2 places = f(),
//                    the three comma-ok forms
//   places           local of the activation, variable shared by all activations, slice/array/map element,
//                    *pointer, field of a slice element, field through a pointer, map inside a slice (operand in the
//                    map position or in the key position), blank
//   window position  the operand of each place that has one, each right-hand side, each argument of f()
//   re-entry         recursion: the operand at the window position calls the function that contains the statement;
//                    goroutine: it starts a goroutine that runs that function to completion and waits for it
//                    (a deterministic hand-off: exactly one goroutine is runnable at any time)
//   depth            three nested executions (d = 2, 1, 0), then a second, non-nested round (d = 1, 0) of the same site
//   frame            the statement directly in the function, or inside one more closure; function = closure whose
//                    places are captured variables, or top-level function whose places are globals
//   element kind     int, uint8, float64, string, a struct (single statements; 2-place swaps)
//
// Every activation works on its own places (index d), so compiled Go's result does not depend on any evaluation
// order the language leaves open: right-hand sides never read a variable that an inner activation writes.

import (
	"fmt"
	"strings"

	"verif/harness/core"
	"verif/harness/oracle"
)

// c02RKind is an element kind of the re-entrant corpus.
type c02RKind struct {
	Name  string
	Type  string                 // element type
	Decl  string                 // extra type declaration
	Lit   func(i int) string     // distinct initial values
	Fresh func(re string) string // an rhs of the kind computed from the int expression re (the re-entry call or a local)
	Loc   string                 // initial value of the activation's local
	Ops   []string
}

var c02RKinds = []c02RKind{
	{Name: "int", Type: "int", Lit: func(i int) string { return fmt.Sprint(100 + i) }, Fresh: func(re string) string { return re + " + 3" }, Loc: "d * 7",
		Ops: []string{"=", "+=", "-=", "*=", "/=", "%=", "&=", "|=", "^=", "&^=", "<<=", ">>=", "++", "--"}},
	{Name: "uint8", Type: "uint8", Lit: func(i int) string { return fmt.Sprint(200 + i) }, Fresh: func(re string) string { return "uint8(" + re + ") + 3" }, Loc: "uint8(d * 7)",
		Ops: []string{"=", "+=", "*=", "/=", "&^=", "<<=", ">>=", "--"}},
	{Name: "float64", Type: "float64", Lit: func(i int) string { return fmt.Sprintf("%d.25", 100+i) }, Fresh: func(re string) string { return "float64(" + re + ") + 0.5" }, Loc: "float64(d * 7)",
		Ops: []string{"=", "+=", "-=", "*=", "/=", "++"}},
	{Name: "string", Type: "string", Lit: func(i int) string { return fmt.Sprintf(`"a%d"`, i) }, Fresh: func(re string) string { return "sv@[" + re + "]" }, Loc: `"l" + sv@[d]`,
		Ops: []string{"=", "+="}},
	{Name: "struct", Type: "E@", Decl: "type E@ struct{ a, b int }\n", Lit: func(i int) string { return fmt.Sprintf("E@{%d, %d}", 100+i, 200+i) },
		Fresh: func(re string) string { return "E@{" + re + ", 5}" }, Loc: "E@{d * 7, 1}", Ops: []string{"="}},
}

// c02RPlace is a place of the re-entrant corpus. %s receives the operand (d, or the re-entry call returning d).
type c02RPlace struct {
	Text  string
	Class string
	Blank bool
}

func (p c02RPlace) hasOperand() bool { return strings.Contains(p.Text, "%s") }
func (p c02RPlace) with(op string) string {
	if p.hasOperand() {
		return fmt.Sprintf(p.Text, op)
	}
	return p.Text
}

var c02RPlaces = []c02RPlace{
	{Text: "loc", Class: "var"},
	{Text: "g@", Class: "var-shared"},
	{Text: "s@[%s]", Class: "index"},
	{Text: "arr@[%s]", Class: "index-array"},
	{Text: "m@[%s]", Class: "map"},
	{Text: "*ps@[%s]", Class: "ptr"},
	{Text: "sts@[%s].f", Class: "field"},
	{Text: "pst@[%s].g", Class: "field-ptr"},
	{Text: "ms@[%s][d]", Class: "map-in-slice"},
	{Text: "ms@[d][%s]", Class: "map-key"},
	{Text: "_", Class: "blank", Blank: true},
}

func c02RPlaceByClass(classes ...string) []c02RPlace {
	var out []c02RPlace
	for _, cl := range classes {
		for _, p := range c02RPlaces {
			if p.Class == cl {
				out = append(out, p)
			}
		}
	}
	return out
}

// c02RProg assembles one program.
//
//	mode: "recursion" | "goroutine";  top: top-level function + globals instead of closure + captured variables;
//	nest: statement inside one more closure.
type c02RSpec struct {
	ID, Corpus, Class string
	Kind              *c02RKind
	Stmt              string // uses d, loc, ok, R@(k, d), pair@(x, y)
	Mode              string
	Top               bool
	Nest              bool
}

func c02RBuild(sp *c02RSpec) oracle.Prog {
	k := sp.Kind
	lits := func(from, n int) string {
		var xs []string
		for i := 0; i < n; i++ {
			xs = append(xs, k.Lit(from+i))
		}
		return strings.Join(xs, ", ")
	}
	var vars strings.Builder // variable declarations (package level or local), one per line, all in "var" form
	fmt.Fprintf(&vars, "var g@ %s = %s\n", k.Type, k.Lit(90))
	fmt.Fprintf(&vars, "var s@ = []%s{%s}\n", k.Type, lits(0, 3))
	fmt.Fprintf(&vars, "var arr@ = [3]%s{%s}\n", k.Type, lits(10, 3))
	fmt.Fprintf(&vars, "var m@ = map[int]%s{0: %s, 1: %s}\n", k.Type, k.Lit(20), k.Lit(21))
	fmt.Fprintf(&vars, "var v0@, v1@, v2@ %s = %s\n", k.Type, lits(30, 3))
	fmt.Fprintf(&vars, "var ps@ = []*%s{&v0@, &v1@, &v2@}\n", k.Type)
	fmt.Fprintf(&vars, "var sts@ = []ST@{{%s}, {%s}, {%s}}\n", lits(40, 2), lits(42, 2), lits(44, 2))
	fmt.Fprintf(&vars, "var pst@ = []*ST@{{%s}, {%s}, {%s}}\n", lits(50, 2), lits(52, 2), lits(54, 2))
	fmt.Fprintf(&vars, "var ms@ = []map[int]%s{{0: %s}, {1: %s, 7: %s}, {}}\n", k.Type, k.Lit(60), k.Lit(61), k.Lit(67))
	fmt.Fprintf(&vars, "var sv@ = []string{\"x\", \"y\", \"z\", \"w\"}\n")
	fmt.Fprintf(&vars, "var bs@ = []bool{false, false, false}\n")
	fmt.Fprintf(&vars, "var es@ = []interface{}{%s, 1.5, %s}\n", k.Lit(70), k.Lit(72))
	fmt.Fprintf(&vars, "var chs@ = []chan %s{make(chan %s, 2), make(chan %s, 2), make(chan %s, 2)}\n", k.Type, k.Type, k.Type, k.Type)
	types := k.Decl + fmt.Sprintf("type ST@ struct{ f, g %s }\n", k.Type)

	reenter := "rec@(d - 1)"
	if sp.Mode == "goroutine" {
		reenter = "done := make(chan bool)\ngo func() {\nrec@(d - 1)\ndone <- true\n}()\n<-done"
	}
	rBody := "T(k)\nif d > 0 {\n" + reenter + "\n}\nreturn d"
	pairBody := fmt.Sprintf("return x, y")
	stmt := sp.Stmt
	if sp.Nest {
		stmt = "func() {\n" + stmt + "\n}()"
	}
	recBody := fmt.Sprintf("loc, ok := %s, d == 7\n_, _ = loc, ok\n%s\nO(d, loc, ok)\nreturn d", k.Loc, stmt)
	post := "O(g@, s@, arr@, m@, v0@, v1@, v2@, sts@, pst@, ms@, bs@, es@, len(chs@[0]), len(chs@[1]), len(chs@[2]))"
	fill := "chs@[0] <- " + k.Lit(80) + "\nchs@[1] <- " + k.Lit(81) + "\nchs@[1] <- " + k.Lit(82) + "\nclose(chs@[0])\nclose(chs@[1])\nclose(chs@[2])\n_, _ = sv@, ps@"
	main := fill + "\nrec@(2)\n" + post + "\nT(99)\nrec@(1)\n" + post

	var p oracle.Prog
	p.ID = sp.ID
	hdr := c02Header(sp.Corpus, sp.Class, sp.Stmt)
	if sp.Top {
		p.Decls = types + vars.String() +
			"var R@ func(k, d int) int\n" + // a variable: two top-level functions calling each other are a documented limitation (C16)
			fmt.Sprintf("func pair@(x %s, y %s) (%s, %s) {\n%s\n}\n", k.Type, k.Type, k.Type, k.Type, pairBody) +
			"func rec@(d int) int {\n" + recBody + "\n}\n"
		p.Body = hdr + "R@ = func(k, d int) int {\n" + rBody + "\n}\n" + main
		p.Decls = strings.ReplaceAll(p.Decls, "@", "_"+sp.ID)
		p.Body = strings.ReplaceAll(p.Body, "@", "_"+sp.ID)
		return p
	}
	p.Body = hdr + types + vars.String() +
		"var rec@ func(d int) int\n" +
		"R@ := func(k, d int) int {\n" + rBody + "\n}\n" +
		fmt.Sprintf("pair@ := func(x %s, y %s) (%s, %s) {\n%s\n}\n", k.Type, k.Type, k.Type, k.Type, pairBody) +
		"_, _ = R@, pair@\n" +
		"rec@ = func(d int) int {\n" + recBody + "\n}\n" + main
	p.Body = strings.ReplaceAll(p.Body, "@", "")
	return p
}

// c02ReentProgs enumerates the corpus.
func c02ReentProgs(c *core.Ctx) []oracle.Prog {
	var progs []oracle.Prog
	n := 0
	add := func(corpus, class string, k *c02RKind, stmt, mode string, top, nest bool) {
		n++
		frame := "closure"
		if top {
			frame = "toplevel"
		}
		if nest {
			frame += "+nested"
		}
		sp := &c02RSpec{ID: fmt.Sprintf("x%d", n), Corpus: "reentrant-" + corpus, Class: mode + "," + frame + "," + class, Kind: k, Stmt: stmt, Mode: mode, Top: top, Nest: nest}
		progs = append(progs, c02RBuild(sp))
	}
	modes := []string{"recursion", "goroutine"}
	intK := &c02RKinds[0]
	re := func(k int) string { return fmt.Sprintf("R@(%d, d)", k) }

	// ---- single statements: every kind × place × operator × window position (operand of the place | right-hand side)
	for ki := range c02RKinds {
		k := &c02RKinds[ki]
		for _, pl := range c02RPlaces {
			for _, op := range k.Ops {
				incdec := op == "++" || op == "--"
				if pl.Blank && op != "=" {
					continue
				}
				type variant struct{ pos, stmt string }
				var vs []variant
				rhsPlain, rhsRe := k.Fresh("d"), k.Fresh(re(2))
				if op == "<<=" || op == ">>=" {
					rhsPlain, rhsRe = "d + 1", re(2)+" + 1"
				}
				if pl.hasOperand() {
					if incdec {
						vs = append(vs, variant{"place-operand", pl.with(re(1)) + op})
					} else {
						vs = append(vs, variant{"place-operand", pl.with(re(1)) + " " + op + " " + rhsPlain})
					}
				}
				// 'g op= f()' with f writing g: Go leaves the order of the read of g and the call open — only '=' is generated
				if !incdec && !(pl.Class == "var-shared" && op != "=") {
					vs = append(vs, variant{"rhs", pl.with("d") + " " + op + " " + rhsRe})
				}
				for _, v := range vs {
					for mi, mode := range modes {
						for fi := 0; fi < 4; fi++ {
							top, nest := fi&1 != 0, fi&2 != 0
							// quick: every (kind, place, op, position) in recursion mode in the plain closure frame; the other
							// frames and the goroutine mode on the int kind with a rotating third of the operators
							if fi+mi > 0 && (ki != 0 || (c.Quick() && (n+fi+mi)%3 != 0)) {
								continue
							}
							add("assign1", k.Name+","+pl.Class+","+opClassC02R(op)+"/"+v.pos, k, v.stmt, mode, top, nest)
						}
					}
				}
			}
		}
	}

	// ---- two places = two values
	fresh := func(j int) string { return fmt.Sprintf("loc + %d", 10*(j+1)) }
	for _, mode := range modes {
		for fi := 0; fi < 2; fi++ {
			top := fi == 1
			if top && mode == "goroutine" {
				continue
			}
			for i0, p0 := range c02RPlaces {
				for i1, p1 := range c02RPlaces {
					if top && c.Quick() && (i0+i1)%2 != 0 {
						continue
					}
					// window at operand of place 0, operand of place 1, rhs 0, rhs 1
					for pos := 0; pos < 4; pos++ {
						ops := [2]string{"d", "d"}
						rhs := [2]string{fresh(0), fresh(1)}
						switch pos {
						case 0, 1:
							pl := []c02RPlace{p0, p1}[pos]
							if !pl.hasOperand() {
								continue
							}
							ops[pos] = re(pos + 1)
						default:
							rhs[pos-2] = intK.Fresh(re(pos + 1))
						}
						stmt := fmt.Sprintf("%s, %s = %s, %s", p0.with(ops[0]), p1.with(ops[1]), rhs[0], rhs[1])
						add("assign2", fmt.Sprintf("%s,%s=fresh/%s", p0.Class, p1.Class, c02RPos(pos, 2)), intK, stmt, mode, top, false)
					}
					// swap: the values of the two places themselves, exchanged; window at the place operands
					if p0.Blank || p1.Blank || top {
						continue
					}
					for pos := 0; pos < 2; pos++ {
						pl := []c02RPlace{p0, p1}[pos]
						if !pl.hasOperand() {
							continue
						}
						ops := [2]string{"d", "d"}
						ops[pos] = re(pos + 1)
						stmt := fmt.Sprintf("%s, %s = %s, %s", p0.with(ops[0]), p1.with(ops[1]), p1.with("d"), p0.with("d"))
						add("assign2", fmt.Sprintf("%s,%s=swap/%s", p0.Class, p1.Class, c02RPos(pos, 2)), intK, stmt, mode, false, false)
					}
				}
			}
		}
	}
	// swaps and fresh values of string and struct kind (values copied by the statement before the first store)
	for _, ki := range []int{3, 4} {
		k := &c02RKinds[ki]
		pls := c02RPlaceByClass("var", "index", "map", "ptr", "field", "map-key")
		for _, p0 := range pls {
			for _, p1 := range pls {
				for pos := 0; pos < 4; pos++ {
					ops := [2]string{"d", "d"}
					rhs := [2]string{p1.with("d"), p0.with("d")}
					cl := "swap"
					switch pos {
					case 0, 1:
						pl := []c02RPlace{p0, p1}[pos]
						if !pl.hasOperand() {
							continue
						}
						ops[pos] = re(pos + 1)
					default:
						cl = "fresh"
						rhs = [2]string{k.Fresh("d"), k.Fresh("d + 1")}
						rhs[pos-2] = k.Fresh(re(pos + 1))
					}
					stmt := fmt.Sprintf("%s, %s = %s, %s", p0.with(ops[0]), p1.with(ops[1]), rhs[0], rhs[1])
					add("assign2", fmt.Sprintf("%s:%s,%s=%s/%s", k.Name, p0.Class, p1.Class, cl, c02RPos(pos, 2)), k, stmt, "recursion", false, false)
				}
			}
		}
	}

	// ---- three places = three values
	p3 := c02RPlaceByClass("var", "index", "map", "ptr", "field", "map-key", "blank")
	if c.Quick() {
		p3 = c02RPlaceByClass("var", "index", "map", "ptr", "blank")
	}
	for _, mode := range modes {
		if mode == "goroutine" && c.Quick() {
			continue
		}
		for _, p0 := range p3 {
			for _, p1 := range p3 {
				for _, p2 := range p3 {
					pls := []c02RPlace{p0, p1, p2}
					for pos := 0; pos < 6; pos++ {
						ops := [3]string{"d", "d", "d"}
						rhs := [3]string{fresh(0), fresh(1), fresh(2)}
						if pos < 3 {
							if !pls[pos].hasOperand() {
								continue
							}
							ops[pos] = re(pos + 1)
						} else {
							rhs[pos-3] = intK.Fresh(re(pos + 1))
						}
						stmt := fmt.Sprintf("%s, %s, %s = %s, %s, %s", p0.with(ops[0]), p1.with(ops[1]), p2.with(ops[2]), rhs[0], rhs[1], rhs[2])
						add("assign3", fmt.Sprintf("%s,%s,%s=fresh/%s", p0.Class, p1.Class, p2.Class, c02RPos(pos, 3)), intK, stmt, mode, false, false)
					}
				}
			}
		}
	}

	// ---- two places = f(x, y): window at the place operands and at the arguments
	for _, mode := range modes {
		for _, p0 := range c02RPlaces {
			for _, p1 := range c02RPlaces {
				for pos := 0; pos < 4; pos++ {
					ops := [2]string{"d", "d"}
					args := [2]string{fresh(0), fresh(1)}
					switch pos {
					case 0, 1:
						pl := []c02RPlace{p0, p1}[pos]
						if !pl.hasOperand() {
							continue
						}
						ops[pos] = re(pos + 1)
					default:
						if mode == "goroutine" && c.Quick() {
							continue
						}
						args[pos-2] = intK.Fresh(re(pos + 1))
					}
					stmt := fmt.Sprintf("%s, %s = pair@(%s, %s)", p0.with(ops[0]), p1.with(ops[1]), args[0], args[1])
					add("assign-call", fmt.Sprintf("%s,%s=call2/%s", p0.Class, p1.Class, c02RPosCall(pos)), intK, stmt, mode, false, false)
				}
			}
		}
	}

	// ---- comma-ok forms: value place × ok place × source, window at each operand
	okPlaces := []c02RPlace{{Text: "ok", Class: "var"}, {Text: "bs@[%s]", Class: "index"}, {Text: "_", Class: "blank", Blank: true}}
	srcs := []c02RPlace{{Text: "m@[%s]", Class: "map-commaok"}, {Text: "ms@[%s][d]", Class: "map-commaok-obj"}, {Text: "es@[%s].(int)", Class: "assert-commaok"}, {Text: "<-chs@[%s]", Class: "recv-commaok"}}
	for _, mode := range modes {
		for _, p0 := range c02RPlaces {
			for _, p1 := range okPlaces {
				for _, src := range srcs {
					for pos := 0; pos < 3; pos++ {
						ops := [3]string{"d", "d", "d"}
						pl := []c02RPlace{p0, p1, src}[pos]
						if !pl.hasOperand() {
							continue
						}
						ops[pos] = re(pos + 1)
						stmt := fmt.Sprintf("%s, %s = %s", p0.with(ops[0]), p1.with(ops[1]), src.with(ops[2]))
						add("assign-commaok", fmt.Sprintf("%s,%s=%s/%s", p0.Class, p1.Class, src.Class, []string{"place0-operand", "place1-operand", "source-operand"}[pos]), intK, stmt, mode, false, false)
					}
				}
			}
		}
	}
	return progs
}

func c02RPos(pos, n int) string {
	if pos < n {
		return fmt.Sprintf("place%d-operand", pos)
	}
	return fmt.Sprintf("rhs%d", pos-n)
}

func c02RPosCall(pos int) string {
	if pos < 2 {
		return fmt.Sprintf("place%d-operand", pos)
	}
	return fmt.Sprintf("arg%d", pos-2)
}

// operator class of a signature: the compound operators share their generated code per family
func opClassC02R(op string) string {
	switch op {
	case "=":
		return "set"
	case "++", "--":
		return "incdec"
	case "<<=", ">>=":
		return "shift"
	}
	return "op"
}
