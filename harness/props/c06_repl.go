package props

// C06 family "repl": the address of a FILE-LEVEL variable must keep referring to that variable when later
// top-level declarations make the file-level frame grow. The frame's integer slots (Env.Ints) are reallocated by
// Interp.prepareEnv in chunks of 1024 unless one of them had its address taken (Env.IntAddressTaken, set by the
// "file" specialisations of fast/address.go): a pointer taken before a reallocation would silently refer to the
// abandoned array.
//
// The body of such a program is a list of chunks separated by the line "//--". Compiled Go runs them as one
// function body; the interpreter evaluates the Decls, then every chunk as a separate top-level Eval of the same
// interpreter (the declared variables become file-level variables), all inside one h.Exec trace.
// Alphabet: every integer-slot kind (16) + string + struct (boxed: control) × {variable declared by an earlier
// Eval, variable declared by the Eval that takes its address} × {pointer, closure} … followed by the declaration
// of 1100 further integer-slot variables (more than one reallocation chunk), a write through the variable and a
// read through the pointer, and vice versa.

import (
	"fmt"
	"strings"

	"verif/harness/core"
	"verif/harness/h"
	"verif/harness/oracle"
	"verif/harness/twin"
)

const c06ReplSep = "\n//--\n"

func c06IsRepl(p *oracle.Prog) bool { return strings.HasPrefix(p.Body, "// repl|") }

func c06RunRepl(ir *twin.Interp, p *oracle.Prog) (res twin.Result) {
	h.Reset()
	if p.Decls != "" {
		if perr := twin.Catch(func() { ir.Eval(p.Decls) }); perr != nil {
			res.CompileErr = fmt.Sprint("decls: ", perr)
			return
		}
	}
	chunks := strings.Split(p.Body, c06ReplSep)
	res.Out = h.Exec(func() {
		for _, ch := range chunks {
			ir.Eval(ch)
		}
	})
	return
}

func c06ReplPrograms(c *core.Ctx) []oracle.Prog {
	var progs []oracle.Prog
	idx := 0
	const nfill = 1100
	for _, k := range c06AllKinds {
		if k == c06Named {
			continue
		}
		for _, where := range []string{"earlier", "same"} {
			for _, thing := range []string{"ptr", "clo"} {
				if thing == "clo" && !(k == c06Int || k == c06Uint64 || k == c06Str) {
					continue
				}
				idx++
				id := fmt.Sprintf("rp%d", idx)
				kt := k.typ(id)
				var d cw
				d.f("%s", c06Prelude(id))
				var chunks []string
				hdr := fmt.Sprintf("// repl|%s|%s/%s|fill%d", thing, k.name(), where, nfill)
				v := "g_" + id
				take := fmt.Sprintf("p := &%s", v)
				if thing == "clo" {
					take = fmt.Sprintf("p := func() %s {\n\told := %s\n\t%s\n\treturn old\n}", kt, v, k.next(v))
				}
				if where == "earlier" {
					d.f("var %s %s = %s", v, kt, k.lit(id, 5))
					chunks = append(chunks, hdr+"\nS(\"@take\")\n"+take)
				} else {
					v = "h"
					take = strings.Replace(take, "g_"+id, "h", -1)
					chunks = append(chunks, hdr+"\nS(\"@take\")\nh := "+k.lit(id, 5)+"\n"+take)
				}
				// filler: integer-slot variables of the same kind where possible (complex128 takes two slots)
				fk := k
				if k == c06Str || k == c06Struct || k == c06Bool {
					fk = c06Int
				}
				var names, sum []string
				for i := 0; i < nfill; i++ {
					names = append(names, fmt.Sprintf("n%d", i))
				}
				for i := 0; i < nfill; i += 100 {
					sum = append(sum, fmt.Sprintf("n%d", i))
				}
				var fill cw
				fill.f("S(\"@fill\")\nvar %s %s", strings.Join(names, ", "), fk.typ(id))
				for i := 0; i < nfill; i++ {
					fill.f("n%d = %s", i, fk.lit(id, i%90+1))
				}
				fill.f("O(%s)", strings.Join(sum, " + "))
				// every filler variable is used (compiled Go rejects unused locals)
				var use cw
				use.f("_, _ = %s, 0", strings.Join(names[:2], " + "))
				for i := 2; i+50 <= nfill+49; i += 50 {
					j := i + 50
					if j > nfill {
						j = nfill
					}
					if i < j {
						use.f("_ = []%s{%s}", fk.typ(id), strings.Join(names[i:j], ", "))
					}
				}
				chunks = append(chunks, fill.String()+use.String())
				var u cw
				u.f("S(\"@use\")")
				if thing == "ptr" {
					u.f("%s = %s\nO(*p, %s)", v, k.lit(id, 7), v)
					u.f("*p = %s\nO(*p, %s)", k.lit(id, 9), v)
					u.f("%s\nO(*p, %s)", k.next(v), v)
				} else {
					u.f("%s = %s\nO(p(), %s)", v, k.lit(id, 7), v)
					u.f("O(p(), %s)", v)
				}
				chunks = append(chunks, u.String())
				progs = append(progs, oracle.Prog{ID: id, Decls: d.String(), Body: strings.Join(chunks, c06ReplSep)})
			}
		}
	}
	return progs
}
