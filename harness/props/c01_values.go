package props

// Value alphabets of C01/C34: boundary values per basic kind, their exact encodings (JSON replay),
// Go literal spellings for the constant operand shapes, and small classification helpers.

import (
	"fmt"
	"math"
	"strconv"
	"strings"

	"verif/harness/h"
)

var c01Kinds = []string{"bool", "int", "int8", "int16", "int32", "int64", "uint", "uint8", "uint16", "uint32", "uint64", "uintptr",
	"float32", "float64", "complex64", "complex128", "string"}

var c01IntKinds = []string{"int", "int8", "int16", "int32", "int64", "uint", "uint8", "uint16", "uint32", "uint64", "uintptr"}

func c01Family(kind string) string {
	switch {
	case kind == "bool" || kind == "string":
		return kind
	case strings.HasPrefix(kind, "int"):
		return "int"
	case strings.HasPrefix(kind, "uint"):
		return "uint"
	case strings.HasPrefix(kind, "float"):
		return "float"
	case strings.HasPrefix(kind, "complex"):
		return "complex"
	}
	return "?"
}

func c01Width(kind string) int {
	switch kind {
	case "int8", "uint8":
		return 8
	case "int16", "uint16":
		return 16
	case "int32", "uint32":
		return 32
	}
	return 64
}

func c01Signed(kind string) bool { return strings.HasPrefix(kind, "int") }

func mkInt(kind string, v int64) interface{} {
	switch kind {
	case "int":
		return int(v)
	case "int8":
		return int8(v)
	case "int16":
		return int16(v)
	case "int32":
		return int32(v)
	case "int64":
		return int64(v)
	case "uint":
		return uint(v)
	case "uint8":
		return uint8(v)
	case "uint16":
		return uint16(v)
	case "uint32":
		return uint32(v)
	case "uint64":
		return uint64(v)
	case "uintptr":
		return uintptr(v)
	}
	panic("mkInt " + kind)
}

// fitsInt reports whether the mathematical value v (given as int64, or as uint64 when big is set) fits the kind.
func fitsSigned(kind string, v int64) bool {
	w := uint(c01Width(kind))
	if c01Signed(kind) {
		if w == 64 {
			return true
		}
		return v >= -(int64(1)<<(w-1)) && v <= int64(1)<<(w-1)-1
	}
	if v < 0 {
		return false
	}
	if w == 64 {
		return true
	}
	return uint64(v) <= uint64(1)<<w-1
}

const (
	tierCore = iota
	tierFull
)

type valSet struct {
	seen map[string]bool
	out  []interface{}
}

func (s *valSet) add(v interface{}) {
	if s.seen == nil {
		s.seen = map[string]bool{}
	}
	k := c01Enc(v)
	if !s.seen[k] {
		s.seen[k] = true
		s.out = append(s.out, v)
	}
}

// c01IntVals: boundary alphabet of an integer kind. tierCore: 7–8 values; tierFull: ~36 values (8-bit kinds: all 256 when all8).
func c01IntVals(kind string, tier int, all8 bool) []interface{} {
	var s valSet
	w := uint(c01Width(kind))
	signed := c01Signed(kind)
	addS := func(v int64) {
		if fitsSigned(kind, v) {
			s.add(mkInt(kind, v))
		}
	}
	addU := func(v uint64) { // value given modulo 2^64, truncated to the width (unsigned kinds only)
		if w < 64 {
			v &= uint64(1)<<w - 1
		}
		s.add(mkInt(kind, int64(v)))
	}
	if signed {
		min := -(int64(1) << (w - 1))
		max := int64(1)<<(w-1) - 1
		for _, v := range []int64{0, 1, -1, 7, 8, -8, min, max} {
			addS(v)
		}
		if tier == tierCore {
			return s.out
		}
		if w == 8 && all8 {
			for v := int64(-128); v <= 127; v++ {
				addS(v)
			}
			return s.out
		}
		q := int64(1) << (w - 2)
		hf := int64(1) << (w / 2)
		for _, v := range []int64{2, 3, -2, -3, -7, 64, -64, 100, -100, min + 1, max - 1, q, q + 1, q - 1, -q, -q - 1, hf, hf - 1, hf + 1, -hf,
			0x5555555555555555 & max, -(0x5555555555555555 & max), 0x2AAAAAAAAAAAAAAA & max, 12345 & max, -(12345 & max), 3 * (q / 2), 9, 10, -10, 16, 15, 17} {
			addS(v)
		}
		return s.out
	}
	maxu := ^uint64(0)
	if w < 64 {
		maxu = uint64(1)<<w - 1
	}
	top := uint64(1) << (w - 1)
	for _, v := range []uint64{0, 1, 7, 8, top, maxu, maxu - 1} {
		addU(v)
	}
	if tier == tierCore {
		return s.out
	}
	if w == 8 && all8 {
		for v := uint64(0); v <= 255; v++ {
			addU(v)
		}
		return s.out
	}
	q := uint64(1) << (w - 2)
	hf := uint64(1) << (w / 2)
	for _, v := range []uint64{2, 3, 64, 100, top + 1, top - 1, q, q + 1, q - 1, hf, hf - 1, hf + 1, 0x5555555555555555 & maxu, 0xAAAAAAAAAAAAAAAA & maxu,
		12345 & maxu, 3 * (q / 2), top + q, 9, 10, 16, 15, 17, 255 & maxu, 128, maxu - 7, maxu - 8, maxu / 3} {
		addU(v)
	}
	return s.out
}

// c01Pow2Consts: every ±2^k and 2^k±1 that fits the kind (constant operands of the mul/quo/rem power-of-two shortcuts).
func c01Pow2Consts(kind string) []interface{} {
	var s valSet
	w := uint(c01Width(kind))
	if c01Signed(kind) {
		for k := uint(0); k < w-1; k++ {
			p := int64(1) << k
			for _, v := range []int64{p, p + 1, p - 1, -p, -p + 1, -p - 1} {
				if fitsSigned(kind, v) {
					s.add(mkInt(kind, v))
				}
			}
		}
		s.add(mkInt(kind, -(int64(1) << (w - 1))))
		return s.out
	}
	for k := uint(0); k < w; k++ {
		p := uint64(1) << k
		for _, v := range []uint64{p, p + 1, p - 1} {
			if w < 64 && v > uint64(1)<<w-1 {
				continue
			}
			s.add(mkInt(kind, int64(v)))
		}
	}
	return s.out
}

// c01ShiftCounts: shift-count alphabet of a count kind (negative counts for signed kinds included).
func c01ShiftCounts(kind string, tier int) []interface{} {
	var s valSet
	w := uint(c01Width(kind))
	core := []int64{0, 1, 7, 8, 31, 32, 63, 64}
	full := []int64{2, 3, 9, 15, 16, 17, 33, 65, 100, 127, 128, 255, 256, 1 << 20}
	add := func(v int64) {
		if fitsSigned(kind, v) {
			s.add(mkInt(kind, v))
		}
	}
	for _, v := range core {
		add(v)
	}
	if c01Signed(kind) {
		s.add(mkInt(kind, int64(1)<<(w-1)-1))
		add(-1)
		s.add(mkInt(kind, -(int64(1) << (w - 1))))
	} else if w == 64 {
		s.add(mkInt(kind, -1)) // all ones
	} else {
		s.add(mkInt(kind, int64(uint64(1)<<w-1)))
	}
	if tier == tierCore {
		return s.out
	}
	for _, v := range full {
		add(v)
	}
	if c01Signed(kind) {
		add(-2)
		add(-8)
		add(-64)
		s.add(mkInt(kind, -(int64(1)<<(w-1))+1))
		s.add(mkInt(kind, int64(1)<<(w-1)-2))
	} else {
		s.add(mkInt(kind, int64(uint64(1)<<(w-1))))
	}
	return s.out
}

func mkFloat(kind string, v float64) interface{} {
	if kind == "float32" {
		return float32(v)
	}
	return v
}

func c01FloatList(kind string, tier int) []float64 {
	max, den, norm := math.MaxFloat64, math.SmallestNonzeroFloat64, 0x1p-1022
	if kind == "float32" || kind == "complex64" {
		max, den, norm = math.MaxFloat32, math.SmallestNonzeroFloat32, 0x1p-126
	}
	negz := math.Copysign(0, -1)
	l := []float64{0, negz, 1, -2, 0.5, math.Inf(1), math.Inf(-1), math.NaN(), den, max}
	if tier == tierCore {
		return l
	}
	return append(l, -1, 2, 3, -0.5, -3, -max, -den, norm, -norm, 4, 8, 1024, 0.1, 1.0/3, 1e10, -2.5, 1.5, 16777217, 9007199254740993, 1e-5, -7, 0.75, max/2, 1e30)
}

func c01FloatVals(kind string, tier int) []interface{} {
	var s valSet
	for _, f := range c01FloatList(kind, tier) {
		s.add(mkFloat(kind, f))
	}
	return s.out
}

func mkComplex(kind string, re, im float64) interface{} {
	if kind == "complex64" {
		return complex(float32(re), float32(im))
	}
	return complex(re, im)
}

func c01ComplexVals(kind string, tier int) []interface{} {
	var s valSet
	negz := math.Copysign(0, -1)
	inf, nan := math.Inf(1), math.NaN()
	for _, p := range [][2]float64{{0, 0}, {negz, negz}, {1, 0}, {0, 1}, {2, 3}, {-1, 0.5}, {inf, 0}, {nan, 1}, {1, inf}, {inf, nan}} {
		s.add(mkComplex(kind, p[0], p[1]))
	}
	if tier == tierCore {
		return s.out
	}
	sub := []float64{0, negz, 1, inf, nan}
	for _, re := range sub {
		for _, im := range sub {
			s.add(mkComplex(kind, re, im))
		}
	}
	max, den := math.MaxFloat64, math.SmallestNonzeroFloat64
	if kind == "complex64" {
		max, den = math.MaxFloat32, math.SmallestNonzeroFloat32
	}
	for _, p := range [][2]float64{{-2, -0.5}, {0.5, -1}, {max, max}, {den, 0}, {-inf, 1}, {1, -inf}, {-inf, -inf}, {-1, 0}, {0, -1}, {3, -4}, {max, -max}, {0.1, 1e10}} {
		s.add(mkComplex(kind, p[0], p[1]))
	}
	return s.out
}

func c01StringVals(tier int) []interface{} {
	l := []interface{}{"", "a", "ab", "b", "é", "\x00"}
	if tier == tierCore {
		return l
	}
	return append(l, "a\x00", "aa", "A", "\xff", "abé", "abc")
}

// c01Vals is the variable-operand alphabet of a kind.
func c01Vals(kind string, tier int, all8 bool) []interface{} {
	switch c01Family(kind) {
	case "bool":
		return []interface{}{false, true}
	case "int", "uint":
		return c01IntVals(kind, tier, all8)
	case "float":
		return c01FloatVals(kind, tier)
	case "complex":
		return c01ComplexVals(kind, tier)
	case "string":
		return c01StringVals(tier)
	}
	panic("c01Vals " + kind)
}

// c01IsConstable: Go constants cannot be NaN, ±Inf or -0; complex/float constants are further restricted to
// values with a short exact decimal spelling so that the literal denotes exactly the run-time value.
func c01IsConstable(v interface{}) bool {
	okf := func(f float64) bool {
		return !math.IsNaN(f) && !math.IsInf(f, 0) && !(f == 0 && math.Signbit(f))
	}
	switch x := v.(type) {
	case float32:
		return okf(float64(x))
	case float64:
		return okf(x)
	case complex64:
		return okSimple(float64(real(x))) && okSimple(float64(imag(x)))
	case complex128:
		return okSimple(real(x)) && okSimple(imag(x))
	}
	return true
}

func okSimple(f float64) bool {
	if math.IsNaN(f) || math.IsInf(f, 0) || (f == 0 && math.Signbit(f)) {
		return false
	}
	return f*4 == math.Trunc(f*4) && math.Abs(f) < 1e6
}

// c01Consts is the constant-operand alphabet for (kind, op): the variable alphabet restricted to constant-representable
// values, plus (tierFull) every ±2^k, 2^k±1 for the operators with power-of-two shortcuts.
func c01Consts(kind, op string, tier int, all8 bool) []interface{} {
	var s valSet
	for _, v := range c01Vals(kind, tier, all8) {
		if c01IsConstable(v) {
			s.add(v)
		}
	}
	fam := c01Family(kind)
	if fam == "int" || fam == "uint" {
		// dedicated inputs for the shortcut paths: 2, 4, -4 (and 2^k family in the full tier)
		for _, v := range []int64{2, 4, -4, 3, -1, 16} {
			if fitsSigned(kind, v) {
				s.add(mkInt(kind, v))
			}
		}
		if tier == tierFull && (op == "*" || op == "/" || op == "%") {
			for _, v := range c01Pow2Consts(kind) {
				s.add(v)
			}
		}
	}
	if fam == "float" {
		for _, f := range []float64{-1, 2, 4} {
			s.add(mkFloat(kind, f))
		}
	}
	if fam == "complex" {
		for _, p := range [][2]float64{{-1, 0}, {2, 0}, {4, 0}, {0.5, 0}, {0, -1}} {
			s.add(mkComplex(kind, p[0], p[1]))
		}
	}
	return s.out
}

// ---- encoding -------------------------------------------------------------

func c01KindOf(v interface{}) string { return fmt.Sprintf("%T", v) }

// c01Enc encodes a value exactly (floats by bit pattern).
func c01Enc(v interface{}) string {
	switch x := v.(type) {
	case bool:
		return "bool:" + strconv.FormatBool(x)
	case string:
		return "string:" + strconv.Quote(x)
	case float32:
		return fmt.Sprintf("float32:%08x", math.Float32bits(x))
	case float64:
		return fmt.Sprintf("float64:%016x", math.Float64bits(x))
	case complex64:
		return fmt.Sprintf("complex64:%08x,%08x", math.Float32bits(real(x)), math.Float32bits(imag(x)))
	case complex128:
		return fmt.Sprintf("complex128:%016x,%016x", math.Float64bits(real(x)), math.Float64bits(imag(x)))
	case nil:
		return "nil"
	}
	return fmt.Sprintf("%T:%d", v, v)
}

func c01Dec(s string) interface{} {
	if s == "nil" || s == "" {
		return nil
	}
	i := strings.Index(s, ":")
	kind, p := s[:i], s[i+1:]
	switch kind {
	case "bool":
		return p == "true"
	case "string":
		u, err := strconv.Unquote(p)
		if err != nil {
			panic(err)
		}
		return u
	case "float32":
		b, _ := strconv.ParseUint(p, 16, 32)
		return math.Float32frombits(uint32(b))
	case "float64":
		b, _ := strconv.ParseUint(p, 16, 64)
		return math.Float64frombits(b)
	case "complex64":
		q := strings.Split(p, ",")
		a, _ := strconv.ParseUint(q[0], 16, 32)
		b, _ := strconv.ParseUint(q[1], 16, 32)
		return complex(math.Float32frombits(uint32(a)), math.Float32frombits(uint32(b)))
	case "complex128":
		q := strings.Split(p, ",")
		a, _ := strconv.ParseUint(q[0], 16, 64)
		b, _ := strconv.ParseUint(q[1], 16, 64)
		return complex(math.Float64frombits(a), math.Float64frombits(b))
	}
	if c01Signed(kind) {
		n, err := strconv.ParseInt(p, 10, 64)
		if err != nil {
			panic(err)
		}
		return mkInt(kind, n)
	}
	n, err := strconv.ParseUint(p, 10, 64)
	if err != nil {
		panic(err)
	}
	return mkInt(kind, int64(n))
}

// c01Show is the human-readable form used in messages.
func c01Show(v interface{}) string {
	if v == nil {
		return "-"
	}
	return h.Fmt(v)
}

// ---- literal spellings ------------------------------------------------------

func floatLit(f float64, bits int, forceDot bool) string {
	if f == math.Trunc(f) && math.Abs(f) < 1e15 {
		s := strconv.FormatFloat(f, 'f', -1, bits)
		if forceDot {
			s += ".0"
		}
		return s
	}
	if f*1024 == math.Trunc(f*1024) && math.Abs(f) < 1e6 {
		return strconv.FormatFloat(f, 'f', -1, bits) // short exact decimal (0.5, -2.5, 0.75…)
	}
	return strconv.FormatFloat(f, 'x', -1, bits) // exact hexadecimal spelling
}

// c01Untyped spells v as an untyped Go constant. dot: integral numbers are written with ".0" (untyped float constant).
func c01Untyped(v interface{}, dot bool) string {
	switch x := v.(type) {
	case bool:
		return strconv.FormatBool(x)
	case string:
		return strconv.Quote(x)
	case float32:
		return floatLit(float64(x), 32, dot)
	case float64:
		return floatLit(x, 64, dot)
	case complex64:
		return complexLit(float64(real(x)), float64(imag(x)), 32)
	case complex128:
		return complexLit(real(x), imag(x), 64)
	}
	s := fmt.Sprintf("%d", v)
	if dot {
		s += ".0"
	}
	return s
}

func complexLit(re, im float64, bits int) string {
	ims := strconv.FormatFloat(im, 'f', -1, bits)
	if im >= 0 {
		ims = "+" + ims
	}
	return "(" + strconv.FormatFloat(re, 'f', -1, bits) + ims + "i)"
}

// c01Typed spells v as a typed constant: the conversion T(literal).
func c01Typed(v interface{}) string {
	return c01KindOf(v) + "(" + c01Untyped(v, false) + ")"
}

// c01ConstClass names the class of a constant operand for violation signatures.
func c01ConstClass(v interface{}) string {
	kind := c01KindOf(v)
	switch c01Family(kind) {
	case "bool":
		return fmt.Sprint(v)
	case "string":
		if v.(string) == "" {
			return "empty"
		}
		return "other"
	case "float", "complex":
		var re, im float64
		switch x := v.(type) {
		case float32:
			re = float64(x)
		case float64:
			re = x
		case complex64:
			re, im = float64(real(x)), float64(imag(x))
		case complex128:
			re, im = real(x), imag(x)
		}
		if im != 0 {
			return "other"
		}
		switch re {
		case 0:
			return "0"
		case 1:
			return "1"
		case -1:
			return "-1"
		}
		if fr, _ := math.Frexp(re); fr == 0.5 {
			return "pow2"
		}
		return "other"
	}
	w := uint(c01Width(kind))
	var u uint64
	var sv int64
	fmt.Sscan(fmt.Sprintf("%d", v), &sv)
	if c01Signed(kind) {
		switch {
		case sv == 0:
			return "0"
		case sv == 1:
			return "1"
		case sv == -1:
			return "-1"
		case sv == -(int64(1) << (w - 1)):
			return "min"
		case sv > 0 && sv&(sv-1) == 0:
			return "pow2"
		case sv < 0 && (-sv)&(-sv-1) == 0:
			return "-pow2"
		}
		return "other"
	}
	fmt.Sscan(fmt.Sprintf("%d", v), &u)
	maxu := ^uint64(0)
	if w < 64 {
		maxu = uint64(1)<<w - 1
	}
	switch {
	case u == 0:
		return "0"
	case u == 1:
		return "1"
	case u == maxu:
		return "max"
	case u&(u-1) == 0:
		return "pow2"
	}
	return "other"
}
