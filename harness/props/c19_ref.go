package props

// C19 — an INDEPENDENT notion of "executed statement" for the single-step trace.
//
// The stop rule of c19.go is evaluated on T, the full single-step trace produced by the interpreter itself. A defect
// that executes a statement behind the debugger's back removes the statement from T as well, so that oracle stays
// self-consistent. Here T itself is validated against a reference that does not involve the interpreter:
//
//   - the program source is parsed with go/parser; every SIMPLE statement (expression, assignment, inc/dec, send,
//     go, defer, return, break/continue/goto, declaration; one per source line by construction of the corpus) of
//     every statement list gets a marker S("q<line>") inserted in front of it, the "break" statements become
//     S("b<line>"), every function body (declared functions and function literals) starts with
//     S("i"); defer S("o") so that the call depth is known;
//   - the instrumented program is built and run by COMPILED GO (oracle.GoResults). Its trace gives the sequence of
//     executed simple statements with (line, call depth, hook clock = bytes written by the program's own T hooks);
//   - under the command step "the next stop is the next executed statement at any call depth": the stops of T that lie
//     on lines of simple statements must be exactly that sequence (same line, depth and clock; a "break" statement is
//     one ordinary stop followed by one breakpoint stop). Stops on other lines are tolerated only on lines that carry
//     the header or the closing brace of a compound statement, a case clause, a label or a func declaration (the
//     interpreter compiles loop conditions, post statements, scope exits and function entries to statements of their
//     own; the property does not say whether those are "statements"): anything else is a stop at a non-statement.

import (
	"fmt"
	"go/ast"
	"go/parser"
	"go/token"
	"sort"
	"strconv"
	"strings"

	"verif/harness/core"
	"verif/harness/oracle"
)

type c19Stmt struct {
	Line, Col       int
	EndLine, EndCol int    // position just past the statement
	Kind            string // defer | return | define | assign | call | panic | expr | incdec | send | go | break | continue | goto | decl | bp
}

// covers tells whether line:col lies within the statement (its end position included: implicit jumps at the end of
// a clause body are compiled to statements positioned there).
func (s c19Stmt) covers(l, c int) bool {
	if l < s.Line || l > s.EndLine {
		return false
	}
	if l == s.Line && c < s.Col {
		return false
	}
	if l == s.EndLine && c > s.EndCol {
		return false
	}
	return true
}

type c19SrcInfo struct {
	Simple   map[int]c19Stmt // line -> the simple statement starting there
	Optional map[int]string  // line -> why a stop there is tolerated
	LitEntry map[string]bool // "line:col" of every function literal (the entry of a called literal may be a stop of its own)
	Instr    string          // instrumented source (same line structure as the original)
}

const c19RefPrefix = "package p\n"

func c19StmtKind(s ast.Stmt) string {
	switch s := s.(type) {
	case *ast.DeferStmt:
		return "defer"
	case *ast.ReturnStmt:
		return "return"
	case *ast.AssignStmt:
		if s.Tok == token.DEFINE {
			return "define"
		}
		return "assign"
	case *ast.ExprStmt:
		if bl, ok := s.X.(*ast.BasicLit); ok && bl.Kind == token.STRING && bl.Value == `"break"` {
			return "bp"
		}
		if c, ok := s.X.(*ast.CallExpr); ok {
			if id, ok := c.Fun.(*ast.Ident); ok && id.Name == "panic" {
				return "panic"
			}
			return "call"
		}
		return "expr"
	case *ast.IncDecStmt:
		return "incdec"
	case *ast.SendStmt:
		return "send"
	case *ast.GoStmt:
		return "go"
	case *ast.BranchStmt:
		return s.Tok.String()
	case *ast.DeclStmt:
		return "decl"
	}
	return ""
}

// c19Analyze parses the program, classifies its lines and produces the instrumented source.
func c19Analyze(decls string) (*c19SrcInfo, error) {
	fset := token.NewFileSet()
	f, err := parser.ParseFile(fset, "p.go", c19RefPrefix+decls, 0)
	if err != nil {
		return nil, err
	}
	info := &c19SrcInfo{Simple: map[int]c19Stmt{}, Optional: map[int]string{}, LitEntry: map[string]bool{}}
	line := func(p token.Pos) int { return fset.Position(p).Line - 1 }
	off := func(p token.Pos) int { return fset.Position(p).Offset - len(c19RefPrefix) }
	type ins struct {
		at   int
		del  int
		text string
	}
	var edits []ins
	opt := func(from, to token.Pos, why string) {
		for l := line(from); l <= line(to); l++ {
			if _, dup := info.Optional[l]; !dup {
				info.Optional[l] = why
			}
		}
	}
	var errs []string
	var list func(l []ast.Stmt)
	var body func(b *ast.BlockStmt, what string)
	var lits func(n ast.Node)
	body = func(b *ast.BlockStmt, what string) {
		// a function body
		edits = append(edits, ins{off(b.Lbrace) + 1, 0, ` S("i"); defer S("o");`})
		opt(b.Rbrace, b.Rbrace, "closing brace of "+what)
		list(b.List)
	}
	lits = func(n ast.Node) {
		// function literals directly inside a simple statement or a header (not those nested in other literals: body() recurses)
		ast.Inspect(n, func(x ast.Node) bool {
			if fl, ok := x.(*ast.FuncLit); ok {
				info.LitEntry[fmt.Sprintf("%d:%d", line(fl.Pos()), fset.Position(fl.Pos()).Column)] = true
				body(fl.Body, "a function literal")
				return false
			}
			return true
		})
	}
	var stmt func(s ast.Stmt)
	stmt = func(s ast.Stmt) {
		switch s := s.(type) {
		case nil:
		case *ast.EmptyStmt:
		case *ast.LabeledStmt:
			opt(s.Pos(), s.Colon, "label")
			if k := c19StmtKind(s.Stmt); k != "" {
				errs = append(errs, fmt.Sprintf("line %d: labeled simple statement is not supported by the instrumentation", line(s.Pos())))
			}
			stmt(s.Stmt)
		case *ast.BlockStmt:
			opt(s.Lbrace, s.Lbrace, "opening brace of a block")
			opt(s.Rbrace, s.Rbrace, "closing brace of a block")
			list(s.List)
		case *ast.IfStmt:
			opt(s.Pos(), s.Body.Lbrace, "if header")
			opt(s.Body.Rbrace, s.Body.Rbrace, "closing brace of if")
			if s.Init != nil {
				lits(s.Init)
			}
			lits(s.Cond)
			list(s.Body.List)
			if s.Else != nil {
				stmt(s.Else)
			}
		case *ast.ForStmt:
			opt(s.Pos(), s.Body.Lbrace, "for header")
			opt(s.Body.Rbrace, s.Body.Rbrace, "closing brace of for")
			list(s.Body.List)
		case *ast.RangeStmt:
			opt(s.Pos(), s.Body.Lbrace, "range header")
			opt(s.Body.Rbrace, s.Body.Rbrace, "closing brace of range")
			list(s.Body.List)
		case *ast.SwitchStmt:
			opt(s.Pos(), s.Body.Lbrace, "switch header")
			opt(s.Body.Rbrace, s.Body.Rbrace, "closing brace of switch")
			list(s.Body.List)
		case *ast.TypeSwitchStmt:
			opt(s.Pos(), s.Body.Lbrace, "type switch header")
			opt(s.Body.Rbrace, s.Body.Rbrace, "closing brace of type switch")
			list(s.Body.List)
		case *ast.SelectStmt:
			opt(s.Pos(), s.Body.Lbrace, "select header")
			opt(s.Body.Rbrace, s.Body.Rbrace, "closing brace of select")
			list(s.Body.List)
		case *ast.CaseClause:
			opt(s.Pos(), s.Colon, "case clause")
			list(s.Body)
		case *ast.CommClause:
			opt(s.Pos(), s.Colon, "select case clause")
			list(s.Body)
		default:
			k := c19StmtKind(s)
			if k == "" {
				errs = append(errs, fmt.Sprintf("line %d: unsupported statement %T", line(s.Pos()), s))
				return
			}
			l := line(s.Pos())
			if prev, dup := info.Simple[l]; dup {
				errs = append(errs, fmt.Sprintf("line %d: two simple statements start on the same line (%s, %s)", l, prev.Kind, k))
				return
			}
			info.Simple[l] = c19Stmt{Line: l, Col: fset.Position(s.Pos()).Column, EndLine: line(s.End()), EndCol: fset.Position(s.End()).Column, Kind: k}
			if k == "bp" {
				edits = append(edits, ins{off(s.Pos()), int(s.End() - s.Pos()), fmt.Sprintf(`S("b%d")`, l)})
			} else {
				edits = append(edits, ins{off(s.Pos()), 0, fmt.Sprintf(`S("q%d"); `, l)})
				lits(s)
			}
		}
	}
	list = func(l []ast.Stmt) {
		for _, s := range l {
			stmt(s)
		}
	}
	for _, d := range f.Decls {
		fd, ok := d.(*ast.FuncDecl)
		if !ok || fd.Body == nil {
			continue
		}
		opt(fd.Pos(), fd.Body.Lbrace, "func declaration (function entry)")
		body(fd.Body, "a function body")
	}
	for l := range info.Simple {
		if why, both := info.Optional[l]; both {
			errs = append(errs, fmt.Sprintf("line %d holds a simple statement and %s", l, why))
		}
	}
	if len(errs) != 0 {
		sort.Strings(errs)
		return nil, fmt.Errorf("C19 corpus not suitable for instrumentation: %s", strings.Join(errs, "; "))
	}
	sort.SliceStable(edits, func(i, j int) bool { return edits[i].at > edits[j].at })
	src := decls
	for _, e := range edits {
		src = src[:e.at] + e.text + src[e.at+e.del:]
	}
	info.Instr = src
	return info, nil
}

// c19RefEv is one executed simple statement according to compiled Go.
type c19RefEv struct {
	Line  int
	Depth int
	Clock int
	BP    bool
}

func c19ParseRef(res string) ([]c19RefEv, error) {
	var out []c19RefEv
	depth, clock := 0, 0
	for _, tok := range strings.Fields(res) {
		switch {
		case tok == "i":
			depth++
		case tok == "o":
			depth--
		case tok[0] == 'q' || tok[0] == 'b':
			n, err := strconv.Atoi(tok[1:])
			if err != nil {
				return nil, fmt.Errorf("bad marker %q", tok)
			}
			out = append(out, c19RefEv{Line: n, Depth: depth, Clock: clock, BP: tok[0] == 'b'})
		default:
			clock += len(tok) + 1
		}
	}
	if depth != 0 {
		return nil, fmt.Errorf("unbalanced function entry/exit markers (depth %d at the end)", depth)
	}
	return out, nil
}

// c19RefCorpus returns, per program ID, the source classification and the executed-statement sequence of compiled Go.
type c19RefData struct {
	Info *c19SrcInfo
	Evs  []c19RefEv
}

var c19RefCache = map[string]map[string]*c19RefData{}

func c19RefCorpus(tier string, progs []c19Prog) (map[string]*c19RefData, error) {
	if m, ok := c19RefCache[tier]; ok {
		return m, nil
	}
	out := map[string]*c19RefData{}
	var ops []oracle.Prog
	ids := map[string]string{}
	for i, p := range progs {
		if _, dup := out[p.ID]; dup {
			continue
		}
		info, err := c19Analyze(p.Decls)
		if err != nil {
			return nil, fmt.Errorf("program %s: %v\n%s", p.ID, err, p.Decls)
		}
		out[p.ID] = &c19RefData{Info: info}
		pfx := fmt.Sprintf("c19p%df", i)
		oid := fmt.Sprintf("r%d", i)
		ids[oid] = p.ID
		ops = append(ops, oracle.Prog{ID: oid, Decls: strings.ReplaceAll(info.Instr, "c19f", pfx), Body: strings.ReplaceAll(p.Main, "c19f", pfx)})
	}
	res, err := oracle.GoResults("C19-"+tier, ops)
	if err != nil {
		return nil, err
	}
	for oid, r := range res {
		evs, err := c19ParseRef(r)
		if err != nil {
			return nil, fmt.Errorf("program %s: %v: %q", ids[oid], err, r)
		}
		out[ids[oid]].Evs = evs
	}
	c19RefCache[tier] = out
	return out, nil
}

func c19PosLine(pos string) int {
	i := strings.IndexByte(pos, ':')
	if i < 0 {
		return -1
	}
	n, err := strconv.Atoi(pos[:i])
	if err != nil {
		return -1
	}
	return n
}

func c19PosCol(pos string) int {
	i := strings.IndexByte(pos, ':')
	if i < 0 {
		return -1
	}
	n, err := strconv.Atoi(pos[i+1:])
	if err != nil {
		return -1
	}
	return n
}

type c19TraceStats struct {
	Matched       int // stops that are the next executed simple statement of compiled Go
	HeaderStops   int // stops on header / clause / closing-brace / func-declaration lines
	LitEntries    int // stops at the position of a function literal (entry of the called literal)
	WithinCurrent int // further stops inside the extent of the statement matched last at the same depth
}

// c19CheckTrace validates the single-step trace of the model against the compiled-Go reference.
func c19CheckTrace(m *c19Model, ref *c19RefData) (vs []c19Verdict, st c19TraceStats) {
	add := func(sig, what string) { vs = append(vs, c19Verdict{Sig: sig, What: what}) }
	kindOf := func(l int) string { return ref.Info.Simple[l].Kind }
	// expected stops on simple-statement lines
	type exp struct {
		kind  string // at | bp
		ev    c19RefEv
		stmt  string
		after string // kind of the statement executed just before (in any frame)
	}
	var want []exp
	prev := "start"
	for _, e := range ref.Evs {
		k := kindOf(e.Line)
		want = append(want, exp{"at", e, k, prev})
		if e.BP {
			want = append(want, exp{"bp", e, k, prev})
		}
		prev = k
	}
	same := func(w exp, e c19Event) bool {
		return w.kind == e.Kind && w.ev.Line == c19PosLine(e.Pos) && w.ev.Depth == e.Depth && w.ev.Clock == e.Clock
	}
	wi := 0
	reported := map[string]bool{}
	last := map[int]c19Stmt{} // call depth -> simple statement matched last in that frame
	for ti, e := range m.E {
		if !e.prompts() || e.Pos == "end" {
			continue
		}
		l, col := c19PosLine(e.Pos), c19PosCol(e.Pos)
		// 1. the next executed statement
		if wi < len(want) && same(want[wi], e) {
			wi++
			st.Matched++
			last[e.Depth] = ref.Info.Simple[l]
			for d := range last {
				if d > e.Depth {
					delete(last, d)
				}
			}
			continue
		}
		// 2. entry of a called function literal
		if e.Kind == "at" && ref.Info.LitEntry[e.Pos] {
			st.LitEntries++
			continue
		}
		_, simple := ref.Info.Simple[l]
		// 3. a later executed statement: the ones in between ran without being offered
		if simple {
			found := -1
			for j := wi + 1; j < len(want); j++ {
				if same(want[j], e) {
					found = j
					break
				}
			}
			if found >= 0 {
				for j := wi; j < found; j++ {
					w := want[j]
					what := "executed-statement-not-offered"
					if w.kind == "bp" {
						what = "breakpoint-not-offered"
					}
					sig := fmt.Sprintf("C19|single-step-trace|%s|%s|after-%s", what, w.stmt, w.after)
					if !reported[sig] {
						reported[sig] = true
						add(sig, fmt.Sprintf("single-stepping with the command step never stopped at the %s statement of line %d (call depth %d, hook clock %d), which compiled Go executes right after a %s statement and before T[%d] %s: the statement ran behind the debugger's back", w.stmt, w.ev.Line, w.ev.Depth, w.ev.Clock, w.after, ti, e))
					}
				}
				wi = found + 1
				st.Matched++
				last[e.Depth] = ref.Info.Simple[l]
				continue
			}
		}
		// 4. another stop inside the statement this frame is executing (the interpreter compiles some statements to several
		// steps, and gives the exit of a scope with local bindings the position of the statement before it)
		if cur, ok := last[e.Depth]; ok && e.Kind == "at" && cur.covers(l, col) {
			st.WithinCurrent++
			continue
		}
		// 5. headers, clauses, closing braces, func declarations
		if !simple {
			if _, ok := ref.Info.Optional[l]; ok {
				st.HeaderStops++
			} else {
				sig := "C19|single-step-trace|stop-at-non-statement"
				if !reported[sig] {
					reported[sig] = true
					add(sig, fmt.Sprintf("T[%d] %s: the debugger stopped at a position where no statement, compound-statement header, clause, closing brace or func declaration is", ti, e))
				}
			}
			continue
		}
		sig := "C19|single-step-trace|unexpected-stop|" + e.Kind + "-at-" + kindOf(l)
		if !reported[sig] {
			reported[sig] = true
			exps := "none (compiled Go executes no further statement)"
			if wi < len(want) {
				exps = fmt.Sprintf("%s line %d depth %d clock %d", want[wi].kind, want[wi].ev.Line, want[wi].ev.Depth, want[wi].ev.Clock)
			}
			add(sig, fmt.Sprintf("T[%d] %s: compiled Go does not execute this statement here (with this call depth and hook clock); next executed statement according to compiled Go: %s", ti, e, exps))
		}
	}
	for j := wi; j < len(want); j++ {
		w := want[j]
		sig := fmt.Sprintf("C19|single-step-trace|executed-statement-not-offered|%s|after-%s", w.stmt, w.after)
		if !reported[sig] {
			reported[sig] = true
			add(sig, fmt.Sprintf("single-stepping with the command step never stopped at the %s statement of line %d (call depth %d, hook clock %d), which compiled Go executes right after a %s statement (no later stop either)", w.stmt, w.ev.Line, w.ev.Depth, w.ev.Clock, w.after))
		}
	}
	return vs, st
}

// c19TraceUnit runs the independent check for one program and reports.
func c19TraceUnit(c *core.Ctx, m *c19Model, ref *c19RefData) {
	vs, st := c19CheckTrace(m, ref)
	c.Eval(1)
	c.Count("trace_vs_compiled_go: programs", 1)
	c.Count("trace_vs_compiled_go: executed simple statements (compiled Go)", len(ref.Evs))
	c.Count("trace_vs_compiled_go: stops matched with the next executed statement", st.Matched)
	c.Count("trace_vs_compiled_go: tolerated stops on header/clause/closing-brace/func lines", st.HeaderStops)
	c.Count("trace_vs_compiled_go: tolerated stops at the entry of a called function literal", st.LitEntries)
	c.Count("trace_vs_compiled_go: tolerated further stops inside the statement being executed (multi-step statements, scope exits)", st.WithinCurrent)
	for _, e := range ref.Evs {
		c.Nontrivial(fmt.Sprintf("trace|%s|%d|%d|%d", m.prog.ID, e.Line, e.Depth, e.Clock))
	}
	for _, v := range vs {
		c.Violation(v.Sig, fmt.Sprintf("program %s, full single-step trace (Interp.DebugExpr, always step) against the statements executed by compiled Go: %s", m.prog.ID, v.What),
			c19Case{Prog: m.prog.ID, Start: "trace", Decls: m.prog.Decls})
	}
}
