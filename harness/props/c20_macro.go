package props

// C20, macro part: a fixed family of macros is defined once per interpreter (fast and classic); every
// program = (context, statement list, macro call position[s]) is expanded by MacroExpandCodewalk
// through the same entry shape Comp.Parse / Env.Parse use, and compared (modulo the normal form n20
// of c20.go) with a reference expander written directly on go/ast statement lists:
//
//   expand(list)  = repeat { scan left to right; a statement that is the name of a macro with p
//                   parameters consumes the next p statements (error if fewer remain) and is replaced
//                   by the macro's results in order } until nothing was expanded
//   walk(n, d)    = pre-order: lists of a node are expanded when d <= 0, then the elements are walked;
//                   ~quote at d == 0 stops everything below it; ~quasiquote walks its body with d+1,
//                   ~unquote / ~unquote_splice with d-1; a ~quote met inside a quasiquote is transparent
//
// The reference knows what each test macro computes (it is given as a Go function next to the
// macro's source text).

import (
	"encoding/json"
	"fmt"
	"go/ast"
	"go/token"
	"os"
	"reflect"
	"strings"

	"github.com/cosmos72/gomacro/ast2"
	"github.com/cosmos72/gomacro/go/etoken"

	"verif/harness/core"
)

type c20Macro struct {
	Name string
	P    int
	Src  string
	Fn   func(args []ast.Node) []ast.Node
	Kind string
}

func idn(name string) *ast.Ident { return &ast.Ident{Name: name} }
func call0(name string) ast.Node { return &ast.CallExpr{Fun: idn(name)} }
func asStmt(n ast.Node) ast.Stmt {
	switch x := n.(type) {
	case ast.Stmt:
		return x
	case ast.Expr:
		return &ast.ExprStmt{X: x}
	case ast.Decl:
		return &ast.DeclStmt{Decl: x}
	}
	panic(fmt.Sprintf("asStmt: %T", n))
}
func stmtsOf(ns ...ast.Node) []ast.Stmt {
	out := make([]ast.Stmt, len(ns))
	for i, n := range ns {
		out[i] = asStmt(n)
	}
	return out
}

func c20Macros() []c20Macro {
	return []c20Macro{
		// N: a node
		{"mN0", 0, "macro mN0() ast.Node { return ~'{n0()} }", func(a []ast.Node) []ast.Node { return []ast.Node{call0("n0")} }, "node"},
		{"mN1", 1, "macro mN1(a ast.Node) ast.Node { return a }", func(a []ast.Node) []ast.Node { return []ast.Node{a[0]} }, "node"},
		{"mN2", 2, "macro mN2(a, b ast.Node) ast.Node { return b }", func(a []ast.Node) []ast.Node { return []ast.Node{a[1]} }, "node"},
		{"mN3", 3, "macro mN3(a, b, c ast.Node) ast.Node { return c }", func(a []ast.Node) []ast.Node { return []ast.Node{a[2]} }, "node"},
		// L: a node list (slice, or several results)
		{"mL0", 0, "macro mL0() []ast.Node { return []ast.Node{~'{l0()}, ~'{l1()}} }", func(a []ast.Node) []ast.Node { return []ast.Node{call0("l0"), call0("l1")} }, "list"},
		{"mL1", 1, "macro mL1(a ast.Node) []ast.Node { return []ast.Node{a, ~'{l1()}} }", func(a []ast.Node) []ast.Node { return []ast.Node{a[0], call0("l1")} }, "list"},
		{"mL2", 2, "macro mL2(a, b ast.Node) (ast.Node, ast.Node) { return b, a }", func(a []ast.Node) []ast.Node { return []ast.Node{a[1], a[0]} }, "list"},
		{"mL3", 3, "macro mL3(a, b, c ast.Node) []ast.Node { return []ast.Node{c, b, a} }", func(a []ast.Node) []ast.Node { return []ast.Node{a[2], a[1], a[0]} }, "list"},
		// Z: nothing
		{"mZ0", 0, "macro mZ0() { }", func(a []ast.Node) []ast.Node { return nil }, "nothing"},
		{"mZ1", 1, "macro mZ1(a ast.Node) { }", func(a []ast.Node) []ast.Node { return nil }, "nothing"},
		{"mZ2", 2, "macro mZ2(a, b ast.Node) ast.Node { return nil }", func(a []ast.Node) []ast.Node { return nil }, "nothing"},
		{"mZ3", 3, "macro mZ3(a, b, c ast.Node) []ast.Node { return nil }", func(a []ast.Node) []ast.Node { return nil }, "nothing"},
		// M: a macro call (re-expansion)
		{"mM0", 0, "macro mM0() ast.Node { return ~'mN0 }", func(a []ast.Node) []ast.Node { return []ast.Node{idn("mN0")} }, "macrocall"},
		{"mM1", 1, "macro mM1(a ast.Node) []ast.Node { return []ast.Node{~'mN1, a} }", func(a []ast.Node) []ast.Node { return []ast.Node{idn("mN1"), a[0]} }, "macrocall"},
		{"mM2", 2, "macro mM2(a, b ast.Node) []ast.Node { return []ast.Node{~'mL2, a, b} }", func(a []ast.Node) []ast.Node { return []ast.Node{idn("mL2"), a[0], a[1]} }, "macrocall"},
		{"mM3", 3, "macro mM3(a, b, c ast.Node) ast.Node { return ~\"{mN3; ~,a; ~,b; ~,c} }", func(a []ast.Node) []ast.Node { return []ast.Node{idn("mN3"), a[0], a[1], a[2]} }, "macrocall"},
		// Q: a quasiquote of the arguments
		{"mQ0", 0, "macro mQ0() ast.Node { return ~\"{if q0 { }} }", func(a []ast.Node) []ast.Node { return []ast.Node{&ast.IfStmt{Cond: idn("q0"), Body: &ast.BlockStmt{}}} }, "quasiquote"},
		{"mQ1", 1, "macro mQ1(a ast.Node) ast.Node { return ~\"{if q1 { ~,a }} }", func(a []ast.Node) []ast.Node {
			return []ast.Node{&ast.IfStmt{Cond: idn("q1"), Body: &ast.BlockStmt{List: stmtsOf(a[0])}}}
		}, "quasiquote"},
		{"mQ2", 2, "macro mQ2(a, b ast.Node) ast.Node { return ~\"{if q2 { ~,a; ~,b }} }", func(a []ast.Node) []ast.Node {
			return []ast.Node{&ast.IfStmt{Cond: idn("q2"), Body: &ast.BlockStmt{List: stmtsOf(a[0], a[1])}}}
		}, "quasiquote"},
		{"mQ3", 3, "macro mQ3(a, b, c ast.Node) ast.Node { return ~\"{for q3 { ~,a; ~,b; ~,c }} }", func(a []ast.Node) []ast.Node {
			return []ast.Node{&ast.ForStmt{Cond: idn("q3"), Body: &ast.BlockStmt{List: stmtsOf(a[0], a[1], a[2])}}}
		}, "quasiquote"},
		// special result kinds
		{"mB0", 0, "macro mB0() ast.Node { return ~'{b0(); b1()} }", func(a []ast.Node) []ast.Node { return []ast.Node{call0("b0"), call0("b1")} }, "block"},
		{"mI0", 0, "macro mI0() int { return 7 }", func(a []ast.Node) []ast.Node { return []ast.Node{&ast.BasicLit{Kind: token.INT, Value: "7"}} }, "int"},
		{"mS1", 1, "macro mS1(a ast.Node) (string, ast.Node) { return \"s\", a }", func(a []ast.Node) []ast.Node {
			return []ast.Node{&ast.BasicLit{Kind: token.STRING, Value: `"s"`}, a[0]}
		}, "string+node"},
		{"mR0", 0, "macro mR0() ast.Node { return ~'{return r1, r2} }", func(a []ast.Node) []ast.Node {
			return []ast.Node{&ast.ReturnStmt{Results: []ast.Expr{idn("r1"), idn("r2")}}}
		}, "returnstmt"},
		{"mD0", 0, "macro mD0() ast.Node { return ~'{var d1, d2 = 1, 2} }", func(a []ast.Node) []ast.Node {
			return []ast.Node{&ast.GenDecl{Tok: token.VAR, Specs: []ast.Spec{&ast.ValueSpec{Names: []*ast.Ident{idn("d1"), idn("d2")},
				Values: []ast.Expr{&ast.BasicLit{Kind: token.INT, Value: "1"}, &ast.BasicLit{Kind: token.INT, Value: "2"}}}}}}
		}, "gendecl"},
	}
}

// ---------------------------------------------------------------------------------------------
// reference expander

type c20Ref struct {
	macros   map[string]*c20Macro
	expanded int
}

type c20TooFew struct{ name string }

func (r *c20Ref) macroOf(s ast.Stmt) *c20Macro {
	var n ast.Node = s
	for {
		switch x := n.(type) {
		case *ast.ExprStmt:
			n = x.X
			continue
		case *ast.ParenExpr:
			n = x.X
			continue
		case *ast.Ident:
			return r.macros[x.Name]
		}
		return nil
	}
}

// expandList expands the macro calls of one statement list to a fixpoint. panics with c20TooFew.
func (r *c20Ref) expandList(list []ast.Stmt) []ast.Stmt {
	for round := 0; ; round++ {
		if round > 50 {
			panic("c20Ref: expansion does not terminate")
		}
		var out []ast.Stmt
		changed := false
		for i := 0; i < len(list); i++ {
			m := r.macroOf(list[i])
			if m == nil {
				out = append(out, list[i])
				continue
			}
			if m.P > len(list)-i-1 {
				panic(c20TooFew{m.Name})
			}
			args := make([]ast.Node, m.P)
			for j := 0; j < m.P; j++ {
				args[j] = list[i+1+j]
			}
			for _, res := range m.Fn(args) {
				out = append(out, asStmt(astClone(res)))
			}
			i += m.P
			changed = true
			r.expanded++
		}
		list = out
		if !changed {
			return list
		}
	}
}

func (r *c20Ref) walkList(list []ast.Stmt, depth int) []ast.Stmt {
	if depth <= 0 {
		list = r.expandList(list)
	}
	out := make([]ast.Stmt, len(list))
	for i, s := range list {
		out[i] = r.walk(s, depth).(ast.Stmt)
	}
	return out
}

func (r *c20Ref) walk(n ast.Node, depth int) ast.Node {
	if isNilNode(n) {
		return nil
	}
	if u, ok := n.(*ast.UnaryExpr); ok {
		switch u.Op {
		case etoken.QUOTE:
			if depth == 0 {
				return astClone(n)
			}
		case etoken.QUASIQUOTE:
			depth++
		case etoken.UNQUOTE, etoken.UNQUOTE_SPLICE:
			depth--
		}
	}
	v := reflect.ValueOf(n).Elem()
	p := astPlanOf(v.Type())
	out := reflect.New(v.Type())
	o := out.Elem()
	for _, af := range p.Fields {
		f := v.Field(af.Idx)
		switch af.Kind {
		case fkIgnore:
		case fkNode:
			if c := rvNode(f); c != nil {
				o.Field(af.Idx).Set(reflect.ValueOf(r.walk(c, depth)))
			}
		case fkSlice:
			if f.Len() == 0 {
				continue
			}
			if f.Type() == rtStmtList {
				o.Field(af.Idx).Set(reflect.ValueOf(r.walkList(f.Interface().([]ast.Stmt), depth)))
				continue
			}
			s := reflect.MakeSlice(f.Type(), f.Len(), f.Len())
			for i, k := 0, f.Len(); i < k; i++ {
				if c := rvNode(f.Index(i)); c != nil {
					s.Index(i).Set(reflect.ValueOf(r.walk(c, depth)))
				}
			}
			o.Field(af.Idx).Set(s)
		default:
			o.Field(af.Idx).Set(f)
		}
	}
	return out.Interface().(ast.Node)
}

// expandTop is the reference for a whole top-level node list.
func (r *c20Ref) expandTop(nodes []ast.Node) (out []ast.Node, tooFew string) {
	defer func() {
		if p := recover(); p != nil {
			if tf, ok := p.(c20TooFew); ok {
				out, tooFew = nil, tf.name
				return
			}
			panic(p)
		}
	}()
	list := make([]ast.Stmt, len(nodes))
	for i, n := range nodes {
		list[i] = asStmt(n)
	}
	for _, s := range r.walkList(list, 0) {
		out = append(out, s)
	}
	return out, ""
}

// ---------------------------------------------------------------------------------------------
// programs

type c20Prog struct {
	Src     string `json:"src"`
	Macro   string `json:"macro"`
	Context string `json:"context"`
	Shape   string `json:"shape"`
	Engine  string `json:"engine,omitempty"`
	Part    string `json:"part"`
}

type c20Context struct {
	Name string
	Tmpl string // LIST is replaced by the statement list
}

func c20Contexts() []c20Context {
	return []c20Context{
		{"top", "LIST"},
		{"block", "{ LIST }"},
		{"nested-block", "{ pre(); { LIST }; post() }"},
		{"func-body", "func fn() { LIST }"},
		{"funclit-body", "fl := func() { LIST }"},
		{"case-body", "switch tag { case 1: LIST; default: other() }"},
		{"if-else", "if cond { LIST } else { LIST }"},
		{"quote", "~quote{ LIST }"},
		{"quote-unquote", "~quote{ pre(); ~unquote{ LIST } }"},
		{"qq1", "~quasiquote{ LIST }"},
		{"qq1-unquote", "~quasiquote{ pre(); ~unquote{ LIST } }"},
		{"qq1-unquote_splice", "~quasiquote{ pre(); ~unquote_splice{ LIST } }"},
		{"qq1-quote-unquote", "~quasiquote{ ~quote{ pre(); ~unquote{ LIST } } }"},
		{"qq2", "~quasiquote{ ~quasiquote{ LIST } }"},
		{"qq2-unquote1", "~quasiquote{ ~quasiquote{ pre(); ~unquote{ LIST } } }"},
		{"qq2-unquote2", "~quasiquote{ ~quasiquote{ pre(); ~unquote{ pre2(); ~unquote{ LIST } } } }"},
		{"qq1-unquote-qq-unquote", "~quasiquote{ ~unquote{ ~quasiquote{ pre(); ~unquote{ LIST } } } }"},
	}
}

var c20Plain = []string{"a", "b", "c", "d"}

// variants of one plain statement
// (no variant declares anything: a block handed back by a macro is inserted as a statement list, see the assumption in c20.go)
var c20Variants = []string{"f(x)", "(y)", "{ mN1; z }", "v = 1", "{ w }", "{ if t { u } }"}

func c20Programs(c *core.Ctx) []c20Prog {
	var progs []c20Prog
	macros := c20Macros()
	ctxs := c20Contexts()
	maxPlain := c.Pick(3, 4)
	add := func(m, ctx, shape string, list []string, tmpl string) {
		progs = append(progs, c20Prog{Src: strings.ReplaceAll(tmpl, "LIST", strings.Join(list, "; ")), Macro: m, Context: ctx, Shape: shape, Part: "macro"})
	}
	// 1. every macro × every context × every position of lists with n plain statements
	for _, m := range macros {
		for _, cx := range ctxs {
			for n := 0; n <= maxPlain; n++ {
				for i := 0; i <= n; i++ {
					var list []string
					list = append(list, c20Plain[:i]...)
					list = append(list, m.Name)
					list = append(list, c20Plain[i:n]...)
					add(m.Name, cx.Name, fmt.Sprintf("n%d@%d", n, i), list, cx.Tmpl)
				}
			}
		}
	}
	// 2. statement shapes: one plain statement replaced by a variant
	varCtx := map[string]bool{"block": true, "func-body": true, "qq1-unquote": true, "top": true}
	for _, m := range macros {
		for _, cx := range ctxs {
			if !varCtx[cx.Name] {
				continue
			}
			for n := c.Pick(2, 1); n <= c.Pick(2, 4); n++ {
				for i := 0; i <= n; i++ {
					for j := 0; j < n; j++ {
						for vi, v := range c20Variants {
							plain := append([]string{}, c20Plain[:n]...)
							plain[j] = v
							var list []string
							list = append(list, plain[:i]...)
							list = append(list, m.Name)
							list = append(list, plain[i:]...)
							add(m.Name, cx.Name, fmt.Sprintf("n%d@%d,v%d@%d", n, i, vi, j), list, cx.Tmpl)
						}
					}
				}
			}
		}
	}
	// 3. two macro calls in one list
	for _, m1 := range macros {
		for _, m2 := range macros {
			list := []string{m1.Name, "a", "b", m2.Name, "c", "d", "e"}
			add(m1.Name+"+"+m2.Name, "block", "pair", list, "{ LIST }")
			if c.Thorough() {
				add(m1.Name+"+"+m2.Name, "top", "pair", list, "LIST")
				add(m1.Name+"+"+m2.Name, "qq1-unquote", "pair", list, "~quasiquote{ pre(); ~unquote{ LIST } }")
				list2 := []string{"a", m1.Name, m2.Name, "b", "c", "d"}
				add(m1.Name+"+"+m2.Name, "block", "adjacent", list2, "{ LIST }")
			}
		}
	}
	return progs
}

// c20RunProg expands one program on one engine and compares with the reference. Returns the engine's output nodes.
func c20RunProg(c *core.Ctx, w *c20World, e *c20Engine, p *c20Prog, macros map[string]*c20Macro) []ast.Node {
	cas := *p
	cas.Engine = e.name
	shape := "list"
	switch {
	case p.Shape == "n0@0":
		shape = "sole-call" // the macro call is the only statement of its list
	case strings.Contains(p.Shape, ",v"):
		shape = "variant"
	case p.Shape == "pair" || p.Shape == "adjacent":
		shape = p.Shape
	}
	sig := func(class string) string {
		s := "C20|macro|" + e.name + "|" + p.Context + "|" + shape + "|" + p.Macro + "|" + class
		if class == "call-ignored" {
			// the output is the input: the call was not recognised at all, whatever the macro does
			s = "C20|macro|" + e.name + "|" + p.Context + "|" + shape + "|call-ignored"
		}
		if os.Getenv("VERIF_DEBUG_SIGS") != "" {
			fmt.Printf("SIG %s\t%s\t%s\n", s, p.Shape, p.Src)
		}
		return s
	}
	_, nodes, err, panicked := forkParse("macro.go", []byte(p.Src), 0)
	if err != nil || panicked != nil {
		panic(fmt.Sprintf("C20 generator error: %q does not parse: %v %v", p.Src, err, panicked))
	}
	_, refIn, _, _ := forkParse("macro.go", []byte(p.Src), 0)
	ref := &c20Ref{macros: macros}
	want, tooFew := ref.expandTop(refIn)
	c.Eval(1)

	var in ast2.Ast = ast2.NodeSlice{X: nodes}
	if e.parse != nil {
		in = e.parse(p.Src)
	}
	var out ast2.Ast
	var expanded bool
	perr := core.Catch(func() { out, expanded = e.expand(in) })
	ignored := false
	if perr == nil && !expanded && (tooFew != "" || ref.expanded > 0) {
		if outNodes, problem := astNodesOf(out); problem == "" {
			_, orig, _, _ := forkParse("macro.go", []byte(p.Src), 0)
			a, b := n20RootList(orig), n20RootList(outNodes)
			ignored = len(a) == len(b)
			for i := 0; ignored && i < len(a); i++ {
				ignored = astDiff(a[i], b[i], c20Eq) == ""
			}
		}
	}
	if ignored {
		c.Violation(sig("call-ignored"), fmt.Sprintf("%s (%s): the macro call is not expanded (and no error is reported): the output is the input; reference: %s", p.Src, e.name, c20RefDesc(want, tooFew)), cas)
		return nil
	}
	if tooFew != "" {
		if perr == nil {
			c.Violation(sig("too-few-arguments-accepted"), fmt.Sprintf("%s: macro %s has too few arguments but MacroExpandCodewalk (%s) did not fail; result %v", p.Src, tooFew, e.name, out), cas)
		} else if !strings.Contains(fmt.Sprint(perr), "not enough arguments") {
			c.Violation(sig("too-few-arguments-other-error"), fmt.Sprintf("%s: expected 'not enough arguments' error, got: %v", p.Src, perr), cas)
		}
		return nil
	}
	if perr != nil {
		c.Violation(sig("panics"), fmt.Sprintf("%s: MacroExpandCodewalk (%s) fails: %v; reference expansion: %s", p.Src, e.name, clip(fmt.Sprint(perr), 300), c20DumpList(want)), cas)
		return nil
	}
	outNodes, problem := astNodesOf(out)
	if problem != "" {
		c.Violation(sig("result-shape"), fmt.Sprintf("%s: %s", p.Src, problem), cas)
		return nil
	}
	wantN, gotN := n20RootList(want), n20RootList(outNodes)
	if expanded != (ref.expanded > 0) {
		c.Violation(sig("expanded-flag"), fmt.Sprintf("%s: anythingExpanded=%v but the reference performed %d expansions", p.Src, expanded, ref.expanded), cas)
	}
	if len(wantN) != len(gotN) {
		c.Violation(sig("mismatch"), fmt.Sprintf("%s (%s): expected %s, got %s", p.Src, e.name, c20DumpList(wantN), c20DumpList(gotN)), cas)
		return outNodes
	}
	for i := range wantN {
		if d := astDiff(wantN[i], gotN[i], c20Eq); d != "" {
			c.Violation(sig("mismatch"), fmt.Sprintf("%s (%s): expected %s, got %s [%s]", p.Src, e.name, c20DumpList(wantN), c20DumpList(gotN), d), cas)
			break
		}
	}
	if ref.expanded > 0 {
		c.Nontrivial("macro|" + p.Src)
	}
	return outNodes
}

func c20RefDesc(want []ast.Node, tooFew string) string {
	if tooFew != "" {
		return "error: not enough arguments for " + tooFew
	}
	return c20DumpList(want)
}

func c20DumpList(nodes []ast.Node) string {
	var parts []string
	for _, n := range nodes {
		parts = append(parts, astDump(n))
	}
	return "[" + strings.Join(parts, " ; ") + "]"
}

func c20DefineMacros(w *c20World) map[string]*c20Macro {
	macros := c20Macros()
	table := map[string]*c20Macro{}
	for _, e := range w.engines {
		e.eval(`import "go/ast"`)
		for i := range macros {
			e.eval(macros[i].Src)
		}
	}
	for i := range macros {
		table[macros[i].Name] = &macros[i]
	}
	return table
}

func c20MacroPart(c *core.Ctx, w *c20World) {
	macros := c20DefineMacros(w)
	progs := c20Programs(c)
	c.Set("macro_programs", len(progs))
	c.Set("macros_defined", len(macros))
	for i := range progs {
		if !c.Mine(i) {
			continue
		}
		if c.Expired() {
			return
		}
		for k := range w.engines {
			c20RunProg(c, w, &w.engines[k], &progs[i], macros)
		}
		c.Count("macro_programs_run", 1)
		if c.WantSample() && i%977 == 13 {
			c.Sample(map[string]interface{}{"program": progs[i].Src, "macro": progs[i].Macro, "context": progs[i].Context})
		}
	}
}

func c20ReplayMacro(c *core.Ctx, raw json.RawMessage) {
	var p c20Prog
	if err := json.Unmarshal(raw, &p); err != nil || p.Src == "" {
		return
	}
	w := newC20World()
	macros := c20DefineMacros(w)
	for k := range w.engines {
		if p.Engine == "" || p.Engine == w.engines[k].name {
			c20RunProg(c, w, &w.engines[k], &p, macros)
		}
	}
}
