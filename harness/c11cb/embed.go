package c11cb

import (
	_ "embed"
	"strings"
)

//go:embed callbacks.go
var file string

// Imports are the packages the interpreted text needs.
var Imports = []string{"errors", "fmt", "io", "sort"}

// Source returns the part of callbacks.go that is given to the interpreter.
func Source() string {
	const marker = "// ==== INTERPRETED FROM HERE ====\n"
	i := strings.Index(file, marker)
	if i < 0 {
		panic("c11cb: marker not found")
	}
	return file[i+len(marker):]
}

// Native maps the name of a constructor to the compiled constructor.
var Native = map[string]interface{}{
	"MkInt1": MkInt1, "MkStr1": MkStr1, "MkNoArg": MkNoArg, "MkMapper": MkMapper,
	"MkLess": MkLess, "MkPair": MkPair, "MkTriple": MkTriple, "MkNamed": MkNamed, "MkStrErr": MkStrErr,
	"MkVariadic": MkVariadic, "MkStruct": MkStruct, "MkIface": MkIface, "MkNested": MkNested, "MkDefer": MkDefer,
	"MkRecur": MkRecur, "MkPanic": MkPanic, "MkSortInside": MkSortInside, "MkGlobal": MkGlobal,
	"MkMethodPtr": MkMethodPtr, "MkMethodVal": MkMethodVal,
	"MkSliceJob": MkSliceJob, "MkSortJob": MkSortJob, "MkStringer": MkStringer, "MkReader": MkReader,
}
