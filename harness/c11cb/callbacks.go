// Package c11cb holds the callbacks and interface implementations used by the concurrent part of C11.
//
// This file is compiled into the harness (compiled Go = the oracle) AND, from the marker line below on,
// given verbatim to the interpreter (see Source in embed.go): one text, two executions.
// Every Mk* constructor takes a small integer c that individualises the value it returns, so that two values
// made by the same constructor (same function literal, same method, same type) behave differently.
package c11cb

import (
	"errors"
	"fmt"
	"io"
	"sort"
)

// ==== INTERPRETED FROM HERE ====

var ErrOdd = errors.New("odd")

type Pt struct{ X, Y int }

// Twice is called in the middle of some callbacks: a nested interpreted call while locals are alive.
func Twice(k int) int {
	d := k + k
	return d
}

// Perm returns a small slice that depends on c.
func Perm(c int) []int {
	return []int{c % 5, 4 - c%3, (c / 2) % 4}
}

// ---- type-specialised function shapes (fast/func0ret1.go, func1ret1.go, func2ret0.go ...) ----

func MkInt1(c int) func(int) int {
	return func(a int) int {
		w := a * 10
		return w + c
	}
}

func MkStr1(c int) func(string) string {
	return func(s string) string { return fmt.Sprint(s, "/", c) }
}

func MkNoArg(c int) func() int {
	return func() int { return c * 7 }
}

func MkMapper(c int) func(rune) rune {
	return func(r rune) rune { return r + rune(c%3) }
}

// ---- generic function shape (fast/function.go funcGeneric): >1 result, >2 parameters, non-basic kinds ----

func MkLess(c int) func(int, int) bool {
	return func(a, b int) bool { return (a+b+c)%3 == 0 }
}

func MkPair(c int) func(int, int) (int, int) {
	return func(a, b int) (int, int) { return a + c, b * c }
}

func MkTriple(c int) func(int, int, int) int {
	return func(a, b, d int) int { return a*100 + b*10 + d + c }
}

func MkNamed(c int) func(int) (q, r int) {
	return func(a int) (q, r int) {
		q = a / c
		r = a % c
		return
	}
}

func MkStrErr(c int) func(string, int) (string, error) {
	return func(s string, n int) (string, error) {
		if (n+c)%2 == 1 {
			return s, ErrOdd
		}
		return fmt.Sprint(s, n+c), nil
	}
}

func MkVariadic(c int) func(...int) []int {
	return func(xs ...int) []int { return append([]int{c}, xs...) }
}

func MkStruct(c int) func(Pt) Pt {
	return func(p Pt) Pt { return Pt{p.Y + c, p.X} }
}

func MkIface(c int) func(int) interface{} {
	return func(a int) interface{} {
		switch (a + c) % 3 {
		case 0:
			return a + c
		case 1:
			return fmt.Sprint("s", a)
		}
		return Pt{a, c}
	}
}

func MkNested(c int) func(int, int) (int, int) {
	return func(a, b int) (int, int) {
		x := a + c
		y := Twice(b)
		return x + Twice(y), y - x
	}
}

func MkDefer(c int) func(int, int) (r1, r2 int) {
	return func(a, b int) (r1, r2 int) {
		defer func() { r2 += c }()
		r1 = a * b
		r2 = a
		return r1, r2
	}
}

func MkRecur(c int) func(int, int) (int, int) {
	var f func(int, int) (int, int)
	f = func(a, b int) (int, int) {
		if a%3 == 0 {
			return c, b
		}
		x, y := f(a-1, b+1)
		return x + a, y
	}
	return f
}

func MkPanic(c int) func(int, int) (int, int) {
	return func(a, b int) (int, int) {
		if (a+c)%2 == 1 {
			panic(fmt.Sprint("boom", a))
		}
		return a - c, b + c
	}
}

func MkSortInside(c int) func(int) (int, int) {
	return func(k int) (int, int) {
		s := []int{3, k % 7, c}
		sort.Slice(s, func(i, j int) bool { return s[i] < s[j] })
		return s[0], s[2]
	}
}

// ---- a declared function and method values ----

func GlobalPair(a, b int) (int, int) { return a * 3, b + 1 }

func MkGlobal(c int) func(int, int) (int, int) { return GlobalPair }

type Acc struct{ Base int }

func (m *Acc) Pair(a, b int) (int, int) { return a + m.Base, b - m.Base }

func (m Acc) PairV(a, b int) (int, int) { return a * m.Base, b + m.Base }

func MkMethodPtr(c int) func(int, int) (int, int) {
	m := &Acc{c}
	return m.Pair
}

func MkMethodVal(c int) func(int, int) (int, int) { return Acc{c}.PairV }

// ---- values consumed by std entry points ----

type SliceJob struct {
	X    []int
	Less func(i, j int) bool
}

func MkSliceJob(c int) SliceJob {
	x := Perm(c)
	if c%2 == 0 {
		return SliceJob{x, func(i, j int) bool { return x[i] < x[j] }}
	}
	return SliceJob{x, func(i, j int) bool { return x[i] > x[j] }}
}

// two types with the same underlying type implementing one compiled interface
type Asc []int

func (s Asc) Len() int           { return len(s) }
func (s Asc) Less(i, j int) bool { return s[i] < s[j] }
func (s Asc) Swap(i, j int)      { s[i], s[j] = s[j], s[i] }

type Desc []int

func (s Desc) Len() int           { return len(s) }
func (s Desc) Less(i, j int) bool { return s[i] > s[j] }
func (s Desc) Swap(i, j int)      { s[i], s[j] = s[j], s[i] }

type SortJob struct {
	Sorter sort.Interface
	X      []int
}

func MkSortJob(c int) SortJob {
	x := Perm(c)
	if c%2 == 0 {
		return SortJob{Asc(x), x}
	}
	return SortJob{Desc(x), x}
}

type Tag struct{ N int }

func (t Tag) String() string { return fmt.Sprint("tag", t.N) }

type Gat struct{ N int }

func (t Gat) String() string { return fmt.Sprint("gat", -t.N) }

func MkStringer(c int) fmt.Stringer {
	if c%2 == 0 {
		return Tag{c}
	}
	return Gat{c}
}

type Rd struct {
	Text string
	Pos  int
}

func (r *Rd) Read(p []byte) (int, error) {
	if r.Pos >= len(r.Text) {
		return 0, io.EOF
	}
	n := 0
	for n < len(p) && n < 2 && r.Pos < len(r.Text) {
		p[n] = r.Text[r.Pos]
		n++
		r.Pos++
	}
	return n, nil
}

func MkReader(c int) io.Reader { return &Rd{Text: fmt.Sprint("data", c*c)} }
