package h

// Len returns the number of bytes recorded in the trace so far: a deterministic clock that
// advances with every hook call of the running program (used by C19 to tell loop iterations apart).
func Len() int { return buf.Len() }
