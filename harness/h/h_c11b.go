package h

import "fmt"

// More compiled consumers for C11 (identity dimensions, see props/c11_seq2.go).

func init() {
	Hooks["Alternate"] = Alternate
}

// Alternate calls two thunks alternately from compiled code: f, g, f, g.
func Alternate(f, g func()) {
	f()
	g()
	f()
	g()
}

// CallString, CallError, CallGoString call the single method of the interface from compiled code, without fmt
// (fmt probes its operand for further optional methods, which the proxies of the interpreter do not have).
func CallString(s fmt.Stringer) string     { return "String=" + s.String() }
func CallError(e error) string             { return "Error=" + e.Error() }
func CallGoString(g fmt.GoStringer) string { return "GoString=" + g.GoString() }

func init() {
	Hooks["CallString"] = CallString
	Hooks["CallError"] = CallError
	Hooks["CallGoString"] = CallGoString
}
