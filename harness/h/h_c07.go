package h

// Hooks for C07 (defer/panic/recover) programs.

import "errors"

func init() {
	Hooks["Err"] = Err
	Hooks["R"] = R
}

// Err returns a real (compiled) error value, so that both sides panic with / recover an identical error:
// an interpreted type with an Error method would not be seen as an error by compiled code.
func Err(s string) error { return errors.New(s) }

// R records a recovered value: "r=nil" when recover() returned nil, otherwise the canonical class of the value
// (the same classification that is applied to a panic escaping the program).
func R(r interface{}) {
	if r == nil {
		buf.WriteString("r=nil ")
		return
	}
	buf.WriteString("r=" + PanicClass(r) + " ")
}
