// Package h holds the compiled hooks called by generated programs. The very same
// file is linked into the harness (interpreter side, registered with DeclFunc)
// and copied into the generated oracle module (compiled-Go side), so both sides
// record traces and print values with identical code.
package h

import (
	"fmt"
	"math"
	"reflect"
	"sort"
	"strconv"
	"strings"
)

// Hooks is the registry of compiled hooks visible to generated programs (name -> function).
// Every file of this package may add entries from an init function; twin.DeclHooks declares them
// all in the interpreter, and the oracle module sees them through the dot import.
var Hooks = map[string]interface{}{}

func init() {
	for k, v := range map[string]interface{}{"T": T, "Ti": Ti, "Tb": Tb, "Ts": Ts, "C": C, "Cnt": Cnt, "Fuel": Fuel, "S": S, "O": O, "Om": Om} {
		Hooks[k] = v
	}
}

var (
	buf  strings.Builder
	fuel int
	cnt  [8]int
)

// Reset clears the trace and refills the loop fuel.
func Reset() {
	buf.Reset()
	fuel = 200
	cnt = [8]int{}
}

// T records trace point k.
func T(k int) { buf.WriteString(strconv.Itoa(k)); buf.WriteByte(' ') }

// Ti records trace point k and returns v (for use inside expressions).
func Ti(k int, v int) int { T(k); return v }

// Tb records trace point k and returns v.
func Tb(k int, v bool) bool { T(k); return v }

// Ts records trace point k and returns v.
func Ts(k int, v string) string { T(k); return v }

// C counts calls of counter i and returns v (exactly-once evaluation checks).
func C(i int, v int) int { cnt[i]++; return v }

// Cnt returns the counter i.
func Cnt(i int) int { return cnt[i] }

// Fuel returns true while loop fuel remains; every loop condition of a generated program includes it.
func Fuel() bool { fuel--; return fuel >= 0 }

// S records a string event.
func S(s string) { buf.WriteString(s); buf.WriteByte(' ') }

// O records values in canonical form.
func O(vs ...interface{}) {
	for _, v := range vs {
		buf.WriteString(Fmt(v))
		buf.WriteByte(' ')
	}
}

// Om records an unordered multiset of ints (map iteration order independence).
func Om(vs []int) {
	w := append([]int{}, vs...)
	sort.Ints(w)
	buf.WriteString(fmt.Sprint(w))
	buf.WriteByte(' ')
}

// Finish returns the trace followed by the canonical panic class (if any).
func Finish(r interface{}) string {
	s := buf.String()
	if r != nil {
		s += "PANIC(" + PanicClass(r) + ")"
	}
	return s
}

// Exec runs f with a fresh trace and returns trace + panic class.
func Exec(f func()) (res string) {
	Reset()
	defer func() { res = Finish(recover()) }()
	f()
	return
}

// PanicClass maps a recovered value to a coarse, implementation-independent class.
func PanicClass(r interface{}) string {
	switch v := r.(type) {
	case error:
		return ErrClass(v.Error(), true)
	case string:
		// reflect panics are strings wrapped in *reflect.ValueError or plain strings
		if cl := ErrClass(v, false); cl != "" {
			return cl
		}
		return "string:" + strconv.Quote(v)
	case fmt.Stringer:
		return "val:" + Fmt(r)
	}
	return "val:" + Fmt(r)
}

// ErrClass classifies a run-time error message. user=true: an unknown message is a user error value.
func ErrClass(msg string, isErr bool) string {
	m := msg
	switch {
	case strings.Contains(m, "divide by zero"), strings.Contains(m, "division by zero"):
		return "rt:divide"
	case strings.Contains(m, "negative shift"):
		return "rt:shift"
	case strings.Contains(m, "out of range"), strings.Contains(m, "out of bounds"), strings.Contains(m, "slice bounds"), strings.Contains(m, "len larger than cap"), strings.Contains(m, "cap out of range"), strings.Contains(m, "len out of range"):
		return "rt:bounds"
	case strings.Contains(m, "nil map"):
		return "rt:nilmap"
	case strings.Contains(m, "nil pointer"), strings.Contains(m, "invalid memory address"), strings.Contains(m, "on zero Value"), strings.Contains(m, "nil Value"):
		return "rt:nil"
	case strings.Contains(m, "closed channel"), strings.Contains(m, "close of nil channel"):
		return "rt:chan"
	case strings.Contains(m, "interface conversion"), strings.Contains(m, "type assertion"), strings.Contains(m, "is not"), strings.Contains(m, "missing method"):
		return "rt:assert"
	case strings.Contains(m, "all goroutines are asleep"):
		return "rt:deadlock"
	case strings.Contains(m, "unhashable"), strings.Contains(m, "uncomparable"), strings.Contains(m, "incomparable"):
		return "rt:uncomparable"
	}
	if isErr {
		if strings.HasPrefix(m, "runtime error") || strings.HasPrefix(m, "reflect") {
			return "rt:other:" + m
		}
		return "error:" + strconv.Quote(m)
	}
	if strings.HasPrefix(m, "reflect") {
		return "rt:other:" + m
	}
	return ""
}

// Fmt prints a value in a canonical, type-name-free form (basic kinds carry their kind).
func Fmt(v interface{}) string {
	if v == nil {
		return "nil"
	}
	return fmtv(reflect.ValueOf(v), 0)
}

func ffloat(f float64, bits int) string {
	switch {
	case math.IsNaN(f):
		return "NaN"
	case f == 0 && math.Signbit(f):
		return "-0"
	}
	return strconv.FormatFloat(f, 'g', -1, bits)
}

func fmtv(v reflect.Value, depth int) string {
	if !v.IsValid() {
		return "nil"
	}
	if depth > 6 {
		return "..."
	}
	switch v.Kind() {
	case reflect.Bool:
		return strconv.FormatBool(v.Bool())
	case reflect.Int, reflect.Int8, reflect.Int16, reflect.Int32, reflect.Int64:
		return v.Kind().String() + ":" + strconv.FormatInt(v.Int(), 10)
	case reflect.Uint, reflect.Uint8, reflect.Uint16, reflect.Uint32, reflect.Uint64, reflect.Uintptr:
		return v.Kind().String() + ":" + strconv.FormatUint(v.Uint(), 10)
	case reflect.Float32:
		return "float32:" + ffloat(v.Float(), 32)
	case reflect.Float64:
		return "float64:" + ffloat(v.Float(), 64)
	case reflect.Complex64:
		c := v.Complex()
		return "complex64:(" + ffloat(real(c), 32) + "," + ffloat(imag(c), 32) + ")"
	case reflect.Complex128:
		c := v.Complex()
		return "complex128:(" + ffloat(real(c), 64) + "," + ffloat(imag(c), 64) + ")"
	case reflect.String:
		return strconv.Quote(v.String())
	case reflect.Slice:
		if v.IsNil() {
			return "nil[]"
		}
		fallthrough
	case reflect.Array:
		var sb strings.Builder
		sb.WriteByte('[')
		for i := 0; i < v.Len(); i++ {
			if i > 0 {
				sb.WriteByte(',')
			}
			sb.WriteString(fmtv(v.Index(i), depth+1))
		}
		sb.WriteByte(']')
		if v.Kind() == reflect.Slice {
			sb.WriteString("c" + strconv.Itoa(v.Cap()))
		}
		return sb.String()
	case reflect.Map:
		if v.IsNil() {
			return "nilmap"
		}
		var items []string
		for _, k := range v.MapKeys() {
			items = append(items, fmtv(k, depth+1)+"=>"+fmtv(v.MapIndex(k), depth+1))
		}
		sort.Strings(items)
		return "map{" + strings.Join(items, ",") + "}"
	case reflect.Struct:
		var sb strings.Builder
		sb.WriteByte('{')
		for i := 0; i < v.NumField(); i++ {
			if i > 0 {
				sb.WriteByte(',')
			}
			sb.WriteString(fmtv(v.Field(i), depth+1))
		}
		sb.WriteByte('}')
		return sb.String()
	case reflect.Ptr:
		if v.IsNil() {
			return "nilptr"
		}
		return "&" + fmtv(v.Elem(), depth+1)
	case reflect.Interface:
		if v.IsNil() {
			return "nil"
		}
		return fmtv(v.Elem(), depth+1)
	case reflect.Func:
		if v.IsNil() {
			return "nilfunc"
		}
		return "func"
	case reflect.Chan:
		if v.IsNil() {
			return "nilchan"
		}
		return "chan(len" + strconv.Itoa(v.Len()) + ",cap" + strconv.Itoa(v.Cap()) + ")"
	}
	return "?" + v.Kind().String()
}
