package h

// Hooks added for C08/C09 (composite types, methods/embedding): independent "sites" inside one program.

import (
	"regexp"
	"strconv"
	"strings"
)

func init() {
	Hooks["Site"] = Site
	Hooks["Onc"] = Onc
}

// Site runs f as the independent site number k of a program: its output is recorded between "<k " and ">",
// a panic raised by f is recorded (by class) inside the brackets and does not stop the program.
func Site(k int, f func()) {
	buf.WriteString("<" + strconv.Itoa(k) + " ")
	defer func() {
		if r := recover(); r != nil {
			buf.WriteString("PANIC(" + SiteClass(r) + ")")
		}
		buf.WriteString("> ")
	}()
	f()
}

// SiteClass is PanicClass with the run-time errors of make() folded into the bounds class: compiled Go says
// "makeslice: len out of range", an implementation built on reflect says "reflect.MakeSlice: negative len".
func SiteClass(r interface{}) string {
	cl := PanicClass(r)
	if strings.HasPrefix(cl, "rt:other:") {
		m := cl[len("rt:other:"):]
		switch {
		case strings.Contains(m, "call of nil function"), strings.Contains(m, "Method on nil interface value"), strings.Contains(m, "Call using zero Value argument"):
			return "rt:nil" // reflect's wordings for calling a nil func value / a method of a nil interface / through a nil embedded pointer
		case strings.Contains(m, "MakeSlice"), strings.Contains(m, "MakeChan"), strings.Contains(m, "makeslice"), strings.Contains(m, "makechan"),
			strings.Contains(m, "MakeMapWithSize"):
			return "rt:bounds"
		}
	}
	return cl
}

var capRx = regexp.MustCompile(`\]c[0-9]+`)

// Onc is O without slice capacities (used where the capacity is implementation-defined: append beyond capacity).
func Onc(vs ...interface{}) {
	for _, v := range vs {
		buf.WriteString(capRx.ReplaceAllString(Fmt(v), "]"))
		buf.WriteByte(' ')
	}
}
