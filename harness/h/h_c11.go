package h

// Hooks for C11 (interop with compiled code). These are the *compiled* consumers of interpreted
// values: each takes its argument with the static type of a compiled interface, so that the
// interpreter hands over its proxy for that interface and compiled code (fmt, errors) uses the
// interpreted methods through it. The same file is compiled into the oracle module, where the
// arguments are ordinary Go values.

import (
	"errors"
	"fmt"
)

func init() {
	for k, v := range map[string]interface{}{
		"SprintStringer": SprintStringer, "SprintError": SprintError, "SprintFormatter": SprintFormatter,
		"SprintGoStringer": SprintGoStringer, "WrapErr": WrapErr, "ErrChain": ErrChain, "Call3": Call3, "CallMulti": CallMulti,
	} {
		Hooks[k] = v
	}
}

// SprintStringer formats s with the fmt verbs that consult fmt.Stringer.
func SprintStringer(s fmt.Stringer) string {
	return fmt.Sprint(s) + "|" + fmt.Sprintf("%v|%s|%q|%x|%6s|%-6v.", s, s, s, s, s, s) + "|" + fmt.Sprintln(s, s)
}

// SprintError formats e with the fmt verbs that consult the error interface.
func SprintError(e error) string {
	return fmt.Sprint(e) + "|" + fmt.Sprintf("%v|%s|%q|%x", e, e, e, e) + "|" + e.Error()
}

// SprintFormatter formats f with several verbs and flags: all of them are routed to f.Format.
func SprintFormatter(f fmt.Formatter) string {
	return fmt.Sprint(f) + "|" + fmt.Sprintf("%v|%d|%+x|%#q|%6.2f|%-4s|% 05d", f, f, f, f, f, f, f)
}

// SprintGoStringer formats g with %#v.
func SprintGoStringer(g fmt.GoStringer) string {
	return fmt.Sprintf("%#v|%#v", g, g)
}

// WrapErr wraps e with compiled code (fmt.Errorf %w).
func WrapErr(e error) error { return fmt.Errorf("wrap(%w)", e) }

// ErrChain walks the Unwrap chain of e with compiled code and returns the messages.
func ErrChain(e error) []string {
	var out []string
	for i := 0; e != nil && i < 8; i++ {
		out = append(out, e.Error())
		e = errors.Unwrap(e)
	}
	return out
}

// Call3 calls f three times from compiled code and returns the results (callback invoked by plain compiled Go).
func Call3(f func(int) int) [3]int {
	return [3]int{f(1), f(2), f(3)}
}

// CallMulti calls a callback with several parameters and several results from compiled code.
func CallMulti(f func(string, int, bool) (int, string, error), s string, n int) string {
	a, b, err := f(s, n, n%2 == 0)
	c, d, err2 := f(b, a, err == nil)
	return fmt.Sprint(a, b, err, c, d, err2)
}
