package oracle

import (
	"go/ast"
	"go/parser"
	"go/token"
	"go/types"
	"strings"
)

// FileInfo is the type information of a complete file together with its syntax tree (used by C38's subset predicate).
type FileInfo struct {
	types.Info
	File *ast.File
	Fset *token.FileSet
}

// CheckSourceFile type-checks a complete file like CheckSource and also returns the syntax tree, Uses and Selections.
func CheckSourceFile(src string) (*types.Package, *FileInfo, error) {
	tcInit()
	fset := token.NewFileSet()
	f, err := parser.ParseFile(fset, "p.go", src, 0)
	if err != nil {
		return nil, nil, err
	}
	var first error
	conf := types.Config{Importer: mapImporter{}, GoVersion: "go1.21", Error: func(e error) {
		if first == nil {
			msg := e.Error()
			if strings.Contains(msg, "declared and not used") || strings.Contains(msg, "imported and not used") || strings.Contains(msg, "is not used") {
				return
			}
			first = e
		}
	}}
	info := &FileInfo{File: f, Fset: fset}
	info.Types = map[ast.Expr]types.TypeAndValue{}
	info.Defs = map[*ast.Ident]types.Object{}
	info.Uses = map[*ast.Ident]types.Object{}
	info.Selections = map[*ast.SelectorExpr]*types.Selection{}
	pkg, _ := conf.Check("p", fset, []*ast.File{f}, &info.Info)
	return pkg, info, first
}
