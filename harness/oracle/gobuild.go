// Package oracle provides the "compiled Go" side of twin execution:
// GoResults builds generated programs with the installed toolchain and runs them.
package oracle

import (
	"bufio"
	"bytes"
	"crypto/sha256"
	"encoding/hex"
	"encoding/json"
	"fmt"
	"io/ioutil"
	"os"
	"os/exec"
	"path/filepath"
	"sort"
	"strings"
	"sync"

	"verif/harness/core"
)

// Prog is one generated program. Decls are package-level declarations (all top-level names must be
// unique across the programs of one corpus: generators suffix them with the program id); Body is the
// body of the program's entry function. Both sides see hooks of package h through a dot import / DeclFunc.
type Prog struct {
	ID      string   `json:"id"`
	Decls   string   `json:"decls,omitempty"`
	Body    string   `json:"body"`
	Imports []string `json:"imports,omitempty"`
}

// Source renders the program as it is given to the interpreter (without package clause/imports).
func (p *Prog) Source() string {
	var sb strings.Builder
	if p.Decls != "" {
		sb.WriteString(p.Decls)
		sb.WriteString("\n")
	}
	sb.WriteString("func P_" + p.ID + "() {\n" + p.Body + "\n}\n")
	return sb.String()
}

const shardSize = 150

var mu sync.Mutex

// hooksFiles returns name -> content of every file of package h (the shared hooks).
func hooksFiles() map[string][]byte {
	dir := filepath.Join(core.VerifDir, "harness", "h")
	ents, err := ioutil.ReadDir(dir)
	if err != nil {
		panic(err)
	}
	m := map[string][]byte{}
	for _, e := range ents {
		if strings.HasSuffix(e.Name(), ".go") && !strings.HasSuffix(e.Name(), "_test.go") {
			data, err := ioutil.ReadFile(filepath.Join(dir, e.Name()))
			if err != nil {
				panic(err)
			}
			m[e.Name()] = data
		}
	}
	return m
}

func hooksSource() []byte {
	m := hooksFiles()
	var names []string
	for n := range m {
		names = append(names, n)
	}
	sort.Strings(names)
	var all []byte
	for _, n := range names {
		all = append(all, m[n]...)
	}
	return all
}

// GoResults returns id -> canonical result for every program, computed by compiled Go.
// Results are cached under .cache/oracle keyed by the hash of all generated sources (they depend on
// the Go toolchain only, never on /repo). Programs must compile; a build failure is a harness error
// (the generator or the go/types pre-filter is wrong), reported with the compiler output.
func GoResults(tag string, progs []Prog) (map[string]string, error) {
	mu.Lock()
	defer mu.Unlock()
	sort.SliceStable(progs, func(i, j int) bool { return progs[i].ID < progs[j].ID })
	hs := sha256.New()
	hs.Write(hooksSource())
	hs.Write([]byte("v3"))
	for i := range progs {
		p := &progs[i]
		fmt.Fprintf(hs, "%s\x00%s\x00%s\x00%v\x00", p.ID, p.Decls, p.Body, p.Imports)
	}
	key := tag + "-" + hex.EncodeToString(hs.Sum(nil)[:12])
	cdir := filepath.Join(core.VerifDir, ".cache", "oracle")
	os.MkdirAll(cdir, 0o755)
	cfile := filepath.Join(cdir, key+".json")
	if data, err := ioutil.ReadFile(cfile); err == nil {
		var m map[string]string
		if json.Unmarshal(data, &m) == nil && len(m) == len(progs) {
			return m, nil
		}
	}
	dir := filepath.Join(core.VerifDir, "work", "oracle-"+key)
	os.RemoveAll(dir)
	defer os.RemoveAll(dir)
	if err := os.MkdirAll(filepath.Join(dir, "h"), 0o755); err != nil {
		return nil, err
	}
	ioutil.WriteFile(filepath.Join(dir, "go.mod"), []byte("module orc\n\ngo 1.21\n"), 0o644)
	for n, data := range hooksFiles() {
		ioutil.WriteFile(filepath.Join(dir, "h", n), data, 0o644)
	}
	var mainsb strings.Builder
	mainsb.WriteString("package main\n\nimport (\n\t\"bufio\"\n\t\"encoding/json\"\n\t\"os\"\n")
	nsh := (len(progs) + shardSize - 1) / shardSize
	for s := 0; s < nsh; s++ {
		fmt.Fprintf(&mainsb, "\t\"orc/s%d\"\n", s)
	}
	mainsb.WriteString(")\n\nfunc main() {\n\tw := bufio.NewWriter(os.Stdout)\n\tdefer w.Flush()\n\tenc := json.NewEncoder(w)\n\temit := func(id, res string) { enc.Encode([2]string{id, res}) }\n")
	for s := 0; s < nsh; s++ {
		fmt.Fprintf(&mainsb, "\ts%d.Run(emit)\n", s)
	}
	mainsb.WriteString("}\n")
	ioutil.WriteFile(filepath.Join(dir, "main.go"), []byte(mainsb.String()), 0o644)
	for s := 0; s < nsh; s++ {
		lo, hi := s*shardSize, (s+1)*shardSize
		if hi > len(progs) {
			hi = len(progs)
		}
		imps := map[string]bool{}
		for _, p := range progs[lo:hi] {
			for _, im := range p.Imports {
				imps[im] = true
			}
		}
		var sb strings.Builder
		fmt.Fprintf(&sb, "package s%d\n\nimport (\n\t. \"orc/h\"\n", s)
		var il []string
		for im := range imps {
			il = append(il, im)
		}
		sort.Strings(il)
		for _, im := range il {
			fmt.Fprintf(&sb, "\t%q\n", im)
		}
		sb.WriteString(")\n\nvar _ = T\n")
		for _, im := range il {
			// keep every import used
			fmt.Fprintf(&sb, "var _ = %s\n", importUse(im))
		}
		for _, p := range progs[lo:hi] {
			sb.WriteString("\n// ---- " + p.ID + "\n")
			sb.WriteString(p.Source())
		}
		sb.WriteString("\nfunc Run(emit func(id, res string)) {\n")
		for _, p := range progs[lo:hi] {
			fmt.Fprintf(&sb, "\temit(%q, Exec(P_%s))\n", p.ID, p.ID)
		}
		sb.WriteString("}\n")
		os.MkdirAll(filepath.Join(dir, fmt.Sprintf("s%d", s)), 0o755)
		ioutil.WriteFile(filepath.Join(dir, fmt.Sprintf("s%d", s), "p.go"), []byte(sb.String()), 0o644)
	}
	env := append(os.Environ(), "GOFLAGS=-mod=mod", "GOPROXY=off", "GOSUMDB=off", "GOTOOLCHAIN=local", "GOWORK=off")
	build := exec.Command("go", "build", "-gcflags=-e", "-o", "orc.bin", ".")
	build.Dir = dir
	build.Env = env
	if out, err := build.CombinedOutput(); err != nil {
		o := string(out)
		if len(o) > 6000 {
			o = o[:6000]
		}
		return nil, fmt.Errorf("oracle build failed (%s): %v\n%s", tag, err, o)
	}
	run := exec.Command(filepath.Join(dir, "orc.bin"))
	run.Dir = dir
	var stdout, stderr bytes.Buffer
	run.Stdout = &stdout
	run.Stderr = &stderr
	if err := run.Run(); err != nil {
		e := stderr.String()
		if len(e) > 4000 {
			e = e[:4000]
		}
		return nil, fmt.Errorf("oracle run failed (%s): %v\n%s", tag, err, e)
	}
	m := map[string]string{}
	sc := bufio.NewScanner(&stdout)
	sc.Buffer(make([]byte, 1<<20), 1<<26)
	for sc.Scan() {
		var kv [2]string
		if err := json.Unmarshal(sc.Bytes(), &kv); err != nil {
			return nil, err
		}
		m[kv[0]] = kv[1]
	}
	if len(m) != len(progs) {
		return nil, fmt.Errorf("oracle produced %d results for %d programs", len(m), len(progs))
	}
	data, _ := json.Marshal(m)
	ioutil.WriteFile(cfile, data, 0o644)
	return m, nil
}

func importUse(path string) string {
	base := path[strings.LastIndex(path, "/")+1:]
	use := map[string]string{
		"fmt": "fmt.Sprint", "sort": "sort.Ints", "strings": "strings.Map", "errors": "errors.New", "io": "io.EOF",
		"bytes": "bytes.Map", "strconv": "strconv.Itoa", "math": "math.Pi", "sync": "sync.NewCond", "bufio": "bufio.NewReader",
		"container/heap": "heap.Init", "unicode": "unicode.IsUpper", "os": "os.Args", "time": "time.Second", "math/big": "big.NewInt",
		"unsafe": "unsafe.Sizeof(0)",
	}
	if u, ok := use[path]; ok {
		return u
	}
	panic("oracle: add importUse entry for " + path + " (" + base + ")")
}
