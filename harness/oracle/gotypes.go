package oracle

import (
	"fmt"
	"go/ast"
	"go/constant"
	"go/importer"
	"go/parser"
	"go/token"
	"go/types"
	"strings"
	"sync"
)

// std go/types as the compile-time oracle: acceptance, static type, constant value.

var (
	tcOnce  sync.Once
	hPkg    *types.Package
	srcImp  types.Importer
	tcFset  = token.NewFileSet()
	impMu   sync.Mutex
	impSeen = map[string]*types.Package{}
)

type mapImporter struct{}

func (mapImporter) Import(path string) (*types.Package, error) {
	if path == "orc/h" {
		return hPkg, nil
	}
	impMu.Lock()
	defer impMu.Unlock()
	if p, ok := impSeen[path]; ok {
		return p, nil
	}
	p, err := srcImp.Import(path)
	if err == nil {
		impSeen[path] = p
	}
	return p, err
}

func tcInit() {
	tcOnce.Do(func() {
		srcImp = importer.ForCompiler(tcFset, "source", nil)
		var files []*ast.File
		for n, data := range hooksFiles() {
			f, err := parser.ParseFile(tcFset, n, data, 0)
			if err != nil {
				panic(err)
			}
			files = append(files, f)
		}
		conf := types.Config{Importer: mapImporter{}}
		var err error
		hPkg, err = conf.Check("orc/h", tcFset, files, nil)
		if err != nil {
			panic(err)
		}
	})
}

// TypeCheck type-checks a program exactly as the oracle build would see it. nil = valid Go.
func TypeCheck(p *Prog) error {
	_, _, err := CheckSource(progFile(p))
	return err
}

func progFile(p *Prog) string {
	var sb strings.Builder
	sb.WriteString("package p\nimport . \"orc/h\"\n")
	for _, im := range p.Imports {
		fmt.Fprintf(&sb, "import %q\n", im)
	}
	sb.WriteString("var _ = T\n")
	for _, im := range p.Imports {
		fmt.Fprintf(&sb, "var _ = %s\n", importUse(im))
	}
	sb.WriteString(p.Source())
	return sb.String()
}

// CheckSource type-checks a complete file (package clause included).
func CheckSource(src string) (*types.Package, *types.Info, error) {
	tcInit()
	fset := token.NewFileSet()
	f, err := parser.ParseFile(fset, "p.go", src, 0)
	if err != nil {
		return nil, nil, err
	}
	var first error
	conf := types.Config{Importer: mapImporter{}, GoVersion: "go1.21", Error: func(e error) {
		if first == nil {
			// "declared and not used" / "imported and not used" are not interpreter errors: ignore them
			msg := e.Error()
			if strings.Contains(msg, "declared and not used") || strings.Contains(msg, "imported and not used") || strings.Contains(msg, "is not used") {
				return
			}
			first = e
		}
	}}
	info := &types.Info{Types: map[ast.Expr]types.TypeAndValue{}, Defs: map[*ast.Ident]types.Object{}}
	pkg, _ := conf.Check("p", fset, []*ast.File{f}, info)
	return pkg, info, first
}

// ExprInfo is what go/types says about an expression in a given declaration context.
type ExprInfo struct {
	Err   error
	Type  string         // types.TypeString, "untyped int" etc. for untyped constants
	Const constant.Value // nil if not constant
}

// EvalExpr type-checks decls (package-level Go declarations) and then the expression in that scope.
func EvalExpr(decls string, expr string) ExprInfo {
	tcInit()
	fset := token.NewFileSet()
	f, err := parser.ParseFile(fset, "p.go", "package p\n"+decls, 0)
	if err != nil {
		return ExprInfo{Err: err}
	}
	conf := types.Config{Importer: mapImporter{}, GoVersion: "go1.21", Error: func(error) {}}
	pkg, _ := conf.Check("p", fset, []*ast.File{f}, nil)
	tv, err := types.Eval(fset, pkg, token.NoPos, expr)
	if err != nil {
		return ExprInfo{Err: err}
	}
	return ExprInfo{Type: types.TypeString(tv.Type, func(*types.Package) string { return "" }), Const: tv.Value}
}

// PkgScope lets callers evaluate many expressions against one checked declaration set.
type PkgScope struct {
	fset *token.FileSet
	pkg  *types.Package
}

func NewPkgScope(decls string) (*PkgScope, error) {
	tcInit()
	fset := token.NewFileSet()
	f, err := parser.ParseFile(fset, "p.go", "package p\n"+decls, 0)
	if err != nil {
		return nil, err
	}
	var first error
	conf := types.Config{Importer: mapImporter{}, GoVersion: "go1.21", Error: func(e error) {
		if first == nil && !strings.Contains(e.Error(), "not used") {
			first = e
		}
	}}
	pkg, _ := conf.Check("p", fset, []*ast.File{f}, nil)
	return &PkgScope{fset, pkg}, first
}

func (s *PkgScope) Eval(expr string) ExprInfo {
	tv, err := types.Eval(s.fset, s.pkg, token.NoPos, expr)
	if err != nil {
		return ExprInfo{Err: err}
	}
	return ExprInfo{Type: types.TypeString(tv.Type, func(*types.Package) string { return "" }), Const: tv.Value}
}
