package oracle

import (
	"crypto/sha256"
	"encoding/hex"
	"encoding/json"
	"fmt"
	"io/ioutil"
	"os"
	"path/filepath"
	"runtime"
	"sync"

	"verif/harness/core"
)

// Classify type-checks every program with go/types (in parallel, cached) and returns id -> error text ("" = valid Go).
func Classify(tag string, progs []Prog) (map[string]string, error) {
	hs := sha256.New()
	hs.Write(hooksSource())
	hs.Write([]byte("tc-v2"))
	for i := range progs {
		p := &progs[i]
		fmt.Fprintf(hs, "%s\x00%s\x00%s\x00%v\x00", p.ID, p.Decls, p.Body, p.Imports)
	}
	cdir := filepath.Join(core.VerifDir, ".cache", "oracle")
	os.MkdirAll(cdir, 0o755)
	cfile := filepath.Join(cdir, tag+"-tc-"+hex.EncodeToString(hs.Sum(nil)[:12])+".json")
	if data, err := ioutil.ReadFile(cfile); err == nil {
		var m map[string]string
		if json.Unmarshal(data, &m) == nil && len(m) == len(progs) {
			return m, nil
		}
	}
	tcInit()
	m := make(map[string]string, len(progs))
	var mu sync.Mutex
	var wg sync.WaitGroup
	nw := runtime.NumCPU()
	for w := 0; w < nw; w++ {
		wg.Add(1)
		go func(w int) {
			defer wg.Done()
			for i := w; i < len(progs); i += nw {
				msg := ""
				if err := TypeCheck(&progs[i]); err != nil {
					msg = err.Error()
				}
				mu.Lock()
				m[progs[i].ID] = msg
				mu.Unlock()
			}
		}(w)
	}
	wg.Wait()
	data, _ := json.Marshal(m)
	ioutil.WriteFile(cfile, data, 0o644)
	return m, nil
}
