// Package core is the plumbing shared by all checks: registration, tiers,
// sharding over worker processes, evidence files, violation/replay artefacts
// and the known-findings filter.
package core

import (
	"bytes"
	"crypto/sha256"
	"encoding/hex"
	"encoding/json"
	"fmt"
	"hash/fnv"
	"io/ioutil"
	"os"
	"os/exec"
	"path/filepath"
	"runtime"
	"sort"
	"strconv"
	"strings"
	"sync"
	"time"
)

// VerifDir is the root of the verification tree (overridable for snapshots run by `vp run`).
var VerifDir = func() string {
	if d := os.Getenv("VERIF_DIR"); d != "" {
		return d
	}
	return "/verif"
}()

// Check is one registered property check.
type Check struct {
	ID    string
	Level string // exploration | fault_enumeration | model_checking
	// Workers > 0: the check is run as that many worker *processes* (0 = in-process, -1 = NumCPU).
	Workers int
	// WorkerEnv (optional) returns extra environment variables for worker number shard of n.
	WorkerEnv func(shard, n int) []string
	// Prepare (optional) runs once in the parent before the workers start (e.g. builds the oracle cache).
	Prepare func(c *Ctx) error
	// Run enumerates the bounded space. It is called once per worker with c.Shard/c.NShards set.
	Run func(c *Ctx)
	// Replay re-executes one recorded case (the "case" member of a replay file) without the explorer.
	Replay func(c *Ctx, raw json.RawMessage)
	// Finish (optional) runs in the parent after merging workers (e.g. cross-shard checks).
	Finish func(c *Ctx)
}

var registry = map[string]*Check{}

func Register(ch *Check) {
	if _, dup := registry[ch.ID]; dup {
		panic("duplicate check " + ch.ID)
	}
	registry[ch.ID] = ch
}

func Lookup(id string) *Check { return registry[id] }

func IDs() []string {
	var ids []string
	for id := range registry {
		ids = append(ids, id)
	}
	sort.Strings(ids)
	return ids
}

// Violation is one recorded failing case.
type Violation struct {
	Sig    string      `json:"signature"`
	What   string      `json:"what"`
	Case   interface{} `json:"case"`
	Replay string      `json:"replay,omitempty"`
}

// Ctx carries the state of one run (or one worker's share of it).
type Ctx struct {
	ID      string
	Tier    string
	Seed    int64
	Shard   int
	NShards int
	Start   time.Time
	Budget  time.Duration // internal deadline; when hit the run stops enumerating and reports exhaustive:false

	mu         sync.Mutex
	evals      int64
	keys       map[uint64]struct{}
	samples    []interface{}
	maxSamples int
	extra      map[string]interface{}
	counters   map[string]int64
	assume     []string
	rule       string
	exhaustive bool
	capped     string
	viol       []Violation
	known      map[string]string // signature -> what (seen this run)
	kf         *KnownFindings
	replaying  bool
	states     int64
	trans      int64
	traces     int64
	sidecar    string // worker only: violations are appended here at once, so that they survive a crash of the process
}

func newCtx(id, tier string, seed int64) *Ctx {
	c := &Ctx{ID: id, Tier: tier, Seed: seed, NShards: 1, Start: time.Now(),
		keys: map[uint64]struct{}{}, extra: map[string]interface{}{}, counters: map[string]int64{},
		known: map[string]string{}, maxSamples: 8, exhaustive: true}
	c.kf = LoadKnownFindings()
	if tier == "quick" {
		c.Budget = 4 * time.Minute
	} else {
		c.Budget = 40 * time.Minute
	}
	if s := os.Getenv("VERIF_BUDGET_S"); s != "" {
		if n, err := strconv.Atoi(s); err == nil {
			c.Budget = time.Duration(n) * time.Second
		}
	}
	return c
}

// WithTier returns a detached context of the given tier (used to regenerate another check's corpus).
func (c *Ctx) WithTier(tier string) *Ctx {
	n := newCtx(c.ID, tier, c.Seed)
	n.Shard, n.NShards, n.Start, n.Budget = c.Shard, c.NShards, c.Start, c.Budget
	return n
}

func (c *Ctx) Quick() bool    { return c.Tier != "thorough" }
func (c *Ctx) Thorough() bool { return c.Tier == "thorough" }

// Pick returns q in the quick tier and t in the thorough tier.
func (c *Ctx) Pick(q, t int) int {
	if c.Quick() {
		return q
	}
	return t
}

// Mine tells whether case number i belongs to this worker's shard.
func (c *Ctx) Mine(i int) bool {
	if c.NShards <= 1 {
		return true
	}
	return (i+int(c.Seed))%c.NShards == c.Shard
}

// Expired reports whether the internal deadline passed; the first time it does the run is marked non-exhaustive.
func (c *Ctx) Expired() bool {
	if time.Since(c.Start) < c.Budget {
		return false
	}
	c.Cap("internal deadline " + c.Budget.String())
	return true
}

// Cap records that some cap was hit: the run is then not exhaustive.
func (c *Ctx) Cap(why string) {
	c.mu.Lock()
	c.exhaustive = false
	if c.capped == "" {
		c.capped = why
	}
	c.mu.Unlock()
}

func (c *Ctx) Eval(n int) {
	c.mu.Lock()
	c.evals += int64(n)
	c.mu.Unlock()
}

// Nontrivial records one distinct non-trivial case key (see Rule).
func (c *Ctx) Nontrivial(key string) {
	h := fnv.New64a()
	h.Write([]byte(key))
	k := h.Sum64()
	c.mu.Lock()
	c.keys[k] = struct{}{}
	c.mu.Unlock()
}

func (c *Ctx) Rule(s string)      { c.rule = s }
func (c *Ctx) Assume(s ...string) { c.mu.Lock(); c.assume = append(c.assume, s...); c.mu.Unlock() }
func (c *Ctx) Set(k string, v interface{}) {
	c.mu.Lock()
	if v == nil {
		delete(c.extra, k)
	} else {
		c.extra[k] = v
	}
	c.mu.Unlock()
}

// Extra returns a value stored with Set (in the parent: merged from the workers).
func (c *Ctx) Extra(k string) interface{} { c.mu.Lock(); defer c.mu.Unlock(); return c.extra[k] }
func (c *Ctx) Count(k string, n int)      { c.mu.Lock(); c.counters[k] += int64(n); c.mu.Unlock() }
func (c *Ctx) States(n int)               { c.mu.Lock(); c.states += int64(n); c.mu.Unlock() }
func (c *Ctx) Transitions(n int)          { c.mu.Lock(); c.trans += int64(n); c.mu.Unlock() }
func (c *Ctx) Traces(n int)               { c.mu.Lock(); c.traces += int64(n); c.mu.Unlock() }

// Sample keeps a few actual cases for the evidence file.
func (c *Ctx) Sample(v interface{}) {
	c.mu.Lock()
	if len(c.samples) < c.maxSamples {
		c.samples = append(c.samples, v)
	}
	c.mu.Unlock()
}

// WantSample is true while fewer than the maximum number of samples were recorded.
func (c *Ctx) WantSample() bool {
	c.mu.Lock()
	defer c.mu.Unlock()
	return len(c.samples) < c.maxSamples
}

// Violation reports a failing case. sig is the narrow class signature matched against known_findings.json.
func (c *Ctx) Violation(sig, what string, cas interface{}) {
	c.mu.Lock()
	defer c.mu.Unlock()
	if c.kf.IsKnown(c.ID, sig) {
		if _, seen := c.known[sig]; !seen {
			c.known[sig] = what
		}
		c.counters["known_finding_hits"]++
		return
	}
	// keep at most 20 full violations, count the rest
	c.counters["violations_total"]++
	if len(c.viol) >= 20 {
		return
	}
	for _, v := range c.viol {
		if v.Sig == sig && len(c.viol) >= 5 {
			return // enough examples of this class
		}
	}
	c.viol = append(c.viol, Violation{Sig: sig, What: what, Case: cas})
	if c.sidecar != "" {
		if f, err := os.OpenFile(c.sidecar, os.O_APPEND|os.O_CREATE|os.O_WRONLY, 0o644); err == nil {
			if data, err := json.Marshal(Violation{Sig: sig, What: what, Case: cas}); err == nil {
				f.Write(append(data, '\n'))
			}
			f.Close()
		}
	}
}

func (c *Ctx) Violations() int { c.mu.Lock(); defer c.mu.Unlock(); return len(c.viol) }

// ---------------------------------------------------------------------------
// worker result exchange

type partial struct {
	Evals      int64                  `json:"evals"`
	Keys       []uint64               `json:"keys"`
	Samples    []interface{}          `json:"samples"`
	Extra      map[string]interface{} `json:"extra"`
	Counters   map[string]int64       `json:"counters"`
	Assume     []string               `json:"assume"`
	Rule       string                 `json:"rule"`
	Exhaustive bool                   `json:"exhaustive"`
	Capped     string                 `json:"capped"`
	Viol       []Violation            `json:"viol"`
	Known      map[string]string      `json:"known"`
	States     int64                  `json:"states"`
	Trans      int64                  `json:"trans"`
	Traces     int64                  `json:"traces"`
}

func (c *Ctx) toPartial() *partial {
	p := &partial{Evals: c.evals, Samples: c.samples, Extra: c.extra, Counters: c.counters, Assume: c.assume,
		Rule: c.rule, Exhaustive: c.exhaustive, Capped: c.capped, Viol: c.viol, Known: c.known,
		States: c.states, Trans: c.trans, Traces: c.traces}
	for k := range c.keys {
		p.Keys = append(p.Keys, k)
	}
	return p
}

func (c *Ctx) merge(p *partial) {
	c.evals += p.Evals
	for _, k := range p.Keys {
		c.keys[k] = struct{}{}
	}
	for _, s := range p.Samples {
		if len(c.samples) < c.maxSamples {
			c.samples = append(c.samples, s)
		}
	}
	for k, v := range p.Extra {
		c.extra[k] = v
	}
	for k, v := range p.Counters {
		c.counters[k] += v
	}
	for _, a := range p.Assume {
		dup := false
		for _, b := range c.assume {
			if a == b {
				dup = true
			}
		}
		if !dup {
			c.assume = append(c.assume, a)
		}
	}
	if p.Rule != "" {
		c.rule = p.Rule
	}
	if !p.Exhaustive {
		c.exhaustive = false
		if c.capped == "" {
			c.capped = p.Capped
		}
	}
	c.viol = append(c.viol, p.Viol...)
	for k, v := range p.Known {
		c.known[k] = v
	}
	c.states += p.States
	c.trans += p.Trans
	c.traces += p.Traces
}

// ---------------------------------------------------------------------------
// entry points

// Main is called by cmd/mc.
func Main(args []string) int {
	if len(args) < 1 {
		fmt.Fprintln(os.Stderr, "usage: mc check <ID> [--tier quick|thorough] | mc worker <ID> <tier> <shard> <nshards> <outfile> | mc replay <path> | mc list")
		return 2
	}
	switch args[0] {
	case "list":
		for _, id := range IDs() {
			fmt.Println(id)
		}
		return 0
	case "check":
		id := args[1]
		tier := os.Getenv("VERIF_TIER")
		for i := 2; i < len(args); i++ {
			if args[i] == "--tier" && i+1 < len(args) {
				tier = args[i+1]
				i++
			} else if args[i] == "quick" || args[i] == "thorough" {
				tier = args[i]
			}
		}
		if tier == "" {
			tier = "quick"
		}
		return runCheck(id, tier)
	case "worker":
		return runWorker(args[1:])
	case "replay":
		return runReplay(args[1])
	}
	fmt.Fprintln(os.Stderr, "unknown subcommand", args[0])
	return 2
}

func seed() int64 {
	if s := os.Getenv("VERIF_SEED"); s != "" {
		if n, err := strconv.ParseInt(s, 10, 64); err == nil {
			if n < 0 {
				n = -n
			}
			return n
		}
	}
	return 0
}

func runCheck(id, tier string) int {
	ch := Lookup(id)
	if ch == nil {
		fmt.Fprintln(os.Stderr, "no such check:", id)
		return 2
	}
	c := newCtx(id, tier, seed())
	nw := ch.Workers
	if nw < 0 {
		nw = runtime.NumCPU()
	}
	if s := os.Getenv("VERIF_WORKERS"); s != "" && nw > 0 {
		if n, err := strconv.Atoi(s); err == nil && n > 0 {
			nw = n
		}
	}
	if ch.Prepare != nil {
		if err := ch.Prepare(c); err != nil {
			fmt.Fprintf(os.Stderr, "HARNESS-ERROR: %s prepare: %v\n", id, err)
			return 3
		}
	}
	if nw == 0 {
		runGuarded(ch, c)
	} else {
		work := filepath.Join(VerifDir, "work", id)
		os.MkdirAll(work, 0o755)
		exe, _ := os.Executable()
		var wg sync.WaitGroup
		outs := make([]string, nw)
		errs := make([]error, nw)
		stderrs := make([]bytes.Buffer, nw)
		for i := 0; i < nw; i++ {
			outs[i] = filepath.Join(work, fmt.Sprintf("shard-%d.json", i))
			os.Remove(outs[i])
			os.Remove(outs[i] + ".viol")
			wg.Add(1)
			go func(i int) {
				defer wg.Done()
				cmd := exec.Command(exe, "worker", id, tier, strconv.Itoa(i), strconv.Itoa(nw), outs[i])
				if ch.WorkerEnv != nil {
					cmd.Env = append(os.Environ(), ch.WorkerEnv(i, nw)...)
				}
				cmd.Stdout = os.Stderr
				cmd.Stderr = &stderrs[i]
				errs[i] = cmd.Run()
			}(i)
		}
		wg.Wait()
		for i := 0; i < nw; i++ {
			data, err := ioutil.ReadFile(outs[i])
			if err != nil || errs[i] != nil {
				full := stderrs[i].String()
				tail := full
				if len(tail) > 4000 {
					tail = tail[len(tail)-4000:]
				}
				// a worker that crashed inside the code under test is evidence, not a harness failure:
				// keep the violations it had already reported and add the crash itself
				if crashInCodeUnderTest(full) {
					if side, err := ioutil.ReadFile(outs[i] + ".viol"); err == nil {
						for _, line := range strings.Split(string(side), "\n") {
							var v Violation
							if json.Unmarshal([]byte(line), &v) == nil && v.Sig != "" {
								c.viol = append(c.viol, v)
							}
						}
					}
					head := full
					if k := strings.Index(head, "\ngoroutine "); k > 0 && k < 600 {
						head = head[:k]
					} else if len(head) > 600 {
						head = head[:600]
					}
					c.viol = append(c.viol, Violation{Sig: id + "|worker-crash-in-gomacro", What: "worker process crashed inside gomacro code: " + oneLine(head, 500), Case: map[string]string{"stderr_tail": tail}})
					c.Cap("a worker crashed")
					continue
				}
				fmt.Fprintf(os.Stderr, "HARNESS-ERROR: worker %d of %s failed: %v %v\n%s\n", i, id, errs[i], err, tail)
				return 3
			}
			var p partial
			if err := json.Unmarshal(data, &p); err != nil {
				fmt.Fprintf(os.Stderr, "HARNESS-ERROR: worker %d output: %v\n", i, err)
				return 3
			}
			c.merge(&p)
			os.Remove(outs[i])
			os.Remove(outs[i] + ".viol")
		}
	}
	if ch.Finish != nil {
		ch.Finish(c)
	}
	return c.finish(ch)
}

// runGuarded runs the check body; a panic in the harness itself is a harness error, not a violation.
func runGuarded(ch *Check, c *Ctx) {
	ch.Run(c)
}

// crashInCodeUnderTest: the fatal panic's first goroutine trace runs through gomacro frames before any harness frame.
func crashInCodeUnderTest(stderr string) bool {
	k := strings.Index(stderr, "\ngoroutine ")
	if k < 0 || !(strings.Contains(stderr[:k], "panic:") || strings.Contains(stderr[:k], "fatal error:")) {
		return false
	}
	trace := stderr[k:]
	if e := strings.Index(trace[1:], "\ngoroutine "); e > 0 {
		trace = trace[:e+1]
	}
	g := strings.Index(trace, "github.com/cosmos72/gomacro/")
	h := strings.Index(trace, "verif/harness/")
	return g >= 0 && (h < 0 || g < h)
}

func runWorker(a []string) int {
	id, tier := a[0], a[1]
	shard, _ := strconv.Atoi(a[2])
	n, _ := strconv.Atoi(a[3])
	out := a[4]
	ch := Lookup(id)
	c := newCtx(id, tier, seed())
	c.Shard, c.NShards = shard, n
	c.sidecar = out + ".viol"
	ch.Run(c)
	data, err := json.Marshal(c.toPartial())
	if err != nil {
		fmt.Fprintln(os.Stderr, "marshal:", err)
		return 3
	}
	if err := ioutil.WriteFile(out, data, 0o644); err != nil {
		fmt.Fprintln(os.Stderr, err)
		return 3
	}
	return 0
}

func runReplay(path string) int {
	data, err := ioutil.ReadFile(path)
	if err != nil {
		fmt.Fprintln(os.Stderr, err)
		return 2
	}
	var f struct {
		Property string          `json:"property"`
		Sig      string          `json:"signature"`
		What     string          `json:"what"`
		Case     json.RawMessage `json:"case"`
	}
	if err := json.Unmarshal(data, &f); err != nil {
		fmt.Fprintln(os.Stderr, err)
		return 2
	}
	ch := Lookup(f.Property)
	if ch == nil || ch.Replay == nil {
		fmt.Printf("property %s: no programmatic replay; recorded case:\n%s\nwhat: %s\n", f.Property, f.Case, f.What)
		return 0
	}
	c := newCtx(f.Property, "quick", 0)
	c.replaying = true
	c.kf = &KnownFindings{} // a replay reports the case even if it is a known finding
	ch.Replay(c, f.Case)
	if len(c.viol) > 0 {
		for _, v := range c.viol {
			fmt.Printf("REPRODUCED property=%s signature=%s\n  %s\n", f.Property, v.Sig, v.What)
		}
		return 1
	}
	fmt.Printf("NOT-REPRODUCED property=%s (recorded signature %s)\n", f.Property, f.Sig)
	return 0
}

func (c *Ctx) finish(ch *Check) int {
	wall := time.Since(c.Start).Seconds()
	// known findings
	var ksigs []string
	for s := range c.known {
		ksigs = append(ksigs, s)
	}
	sort.Strings(ksigs)
	for _, s := range ksigs {
		fmt.Printf("KNOWN-FINDING: property=%s %s [%s]\n", c.ID, c.kf.Describe(c.ID, s), s)
	}
	// violations → replay files (at most 12 after merging workers, distinct signatures first)
	if len(c.viol) > 12 {
		var first, rest []Violation
		seenSig := map[string]bool{}
		for _, v := range c.viol {
			if !seenSig[v.Sig] {
				seenSig[v.Sig] = true
				first = append(first, v)
			} else {
				rest = append(rest, v)
			}
		}
		c.viol = append(first, rest...)[:12]
	}
	rdir := filepath.Join(VerifDir, "replays", c.ID)
	for i := range c.viol {
		v := &c.viol[i]
		body, _ := json.MarshalIndent(map[string]interface{}{"property": c.ID, "signature": v.Sig, "what": v.What, "case": v.Case}, "", " ")
		sum := sha256.Sum256(body)
		os.MkdirAll(rdir, 0o755)
		v.Replay = filepath.Join(rdir, hex.EncodeToString(sum[:8])+".json")
		ioutil.WriteFile(v.Replay, body, 0o644)
		fmt.Printf("VIOLATION property=%s replay=%s\n", c.ID, v.Replay)
		fmt.Printf("  signature: %s\n  %s\n", v.Sig, oneLine(v.What, 600))
	}
	cov := map[string]interface{}{}
	for k, v := range c.extra {
		cov[k] = v
	}
	for k, v := range c.counters {
		cov[k] = v
	}
	cov["evaluations"] = c.evals
	cov["distinct_nontrivial"] = len(c.keys)
	cov["rule"] = c.rule
	if len(c.samples) == 0 {
		c.samples = append(c.samples, "(no sample recorded)")
	}
	cov["samples"] = c.samples
	cov["exhaustive"] = c.exhaustive
	if c.capped != "" {
		cov["cap_hit"] = c.capped
	}
	if ch.Level == "model_checking" {
		cov["states"] = c.states
		cov["transitions"] = c.trans
		cov["traces_validated_against_impl"] = c.traces
	}
	if len(ksigs) > 0 {
		cov["known_findings_seen"] = ksigs
	}
	ev := map[string]interface{}{
		"property_id": c.ID, "tier": c.Tier, "seed": c.Seed, "level": ch.Level,
		"coverage": cov, "assumptions": c.assume, "wall_s": wall, "violations": len(c.viol),
	}
	if c.assume == nil {
		ev["assumptions"] = []string{}
	}
	data, _ := json.MarshalIndent(ev, "", " ")
	os.MkdirAll(filepath.Join(VerifDir, "evidence"), 0o755)
	if err := ioutil.WriteFile(filepath.Join(VerifDir, "evidence", c.ID+".json"), data, 0o644); err != nil {
		fmt.Fprintln(os.Stderr, "HARNESS-ERROR:", err)
		return 3
	}
	fmt.Printf("%s %s: evaluations=%d distinct_nontrivial=%d states=%d transitions=%d exhaustive=%v violations=%d known=%d wall=%.1fs\n",
		c.ID, c.Tier, c.evals, len(c.keys), c.states, c.trans, c.exhaustive, len(c.viol), len(ksigs), wall)
	if len(c.viol) > 0 {
		return 1
	}
	return 0
}

func oneLine(s string, max int) string {
	s = strings.ReplaceAll(s, "\n", " ⏎ ")
	if len(s) > max {
		s = s[:max] + "…"
	}
	return s
}

// ---------------------------------------------------------------------------
// known findings

type KnownFinding struct {
	Property  string `json:"property"`
	Signature string `json:"signature"`
	What      string `json:"what"`
}

type KnownFindings struct {
	Known []KnownFinding `json:"known"`
	Fixed []string       `json:"fixed"`
}

func LoadKnownFindings() *KnownFindings {
	kf := &KnownFindings{}
	data, err := ioutil.ReadFile(filepath.Join(VerifDir, "known_findings.json"))
	if err != nil {
		return kf
	}
	if err := json.Unmarshal(data, kf); err != nil {
		fmt.Fprintln(os.Stderr, "HARNESS-ERROR: known_findings.json:", err)
		os.Exit(3)
	}
	return kf
}

func (kf *KnownFindings) IsKnown(prop, sig string) bool {
	for _, k := range kf.Known {
		if k.Property == prop && k.Signature == sig {
			return true
		}
	}
	return false
}

func (kf *KnownFindings) Describe(prop, sig string) string {
	for _, k := range kf.Known {
		if k.Property == prop && k.Signature == sig {
			return k.What
		}
	}
	return sig
}

// Catch runs f and returns the recovered panic value (nil if none).
func Catch(f func()) (p interface{}) {
	defer func() {
		if r := recover(); r != nil {
			p = r
		}
	}()
	f()
	return nil
}

// NewProbeCtx returns a stand-alone context (development probes).
func NewProbeCtx(id, tier string) *Ctx { return newCtx(id, tier, 0) }
