// Package twin drives the interpreter side of twin execution.
package twin

import (
	"bytes"
	"fmt"
	"os"
	"runtime/debug"
	"sort"
	"strconv"
	"time"

	"github.com/cosmos72/gomacro/base"
	"github.com/cosmos72/gomacro/fast"
	"github.com/cosmos72/gomacro/go/etoken"

	"verif/harness/h"
	"verif/harness/oracle"
)

func init() {
	// same configuration as gomacro's own main() and test-suite; VERIF_GENERICS=none|v1 overrides (C18)
	switch os.Getenv("VERIF_GENERICS") {
	case "none":
		etoken.GENERICS = etoken.GENERICS_NONE
	case "v1":
		etoken.GENERICS = etoken.GENERICS_V1_CXX
	default:
		etoken.GENERICS = etoken.GENERICS_V2_CTI
	}
}

// Interp wraps a fast interpreter with captured output.
type Interp struct {
	*fast.Interp
	Out bytes.Buffer
}

// NewFast returns a fresh fast interpreter with the h hooks declared and output captured.
func NewFast() *Interp {
	t := &Interp{Interp: fast.New()}
	g := &t.Comp.Globals
	g.Stdout = &t.Out
	g.Stderr = &t.Out
	DeclHooks(t.Interp)
	return t
}

// DeclHooks registers the hooks of package h as compiled functions.
func DeclHooks(ir *fast.Interp) {
	names := make([]string, 0, len(h.Hooks))
	for k := range h.Hooks {
		names = append(names, k)
	}
	sort.Strings(names)
	for _, k := range names {
		ir.DeclFunc(k, h.Hooks[k])
	}
}

// Result of running one program on the interpreter.
type Result struct {
	CompileErr string // non-empty: rejected before execution
	Out        string // trace + panic class
	TimedOut   bool
}

// Run compiles and runs p in ir. The compile step and the run step are separated so that
// "rejected before execution" can be told apart from a run-time panic.
func Run(ir *Interp, p *oracle.Prog) (res Result) {
	for _, im := range p.Imports {
		if perr := catch(func() { ir.Eval("import " + strconv.Quote(im)) }); perr != nil {
			return Result{CompileErr: fmt.Sprint("import ", im, ": ", perr)}
		}
	}
	return RunSrc(ir, p.Source(), "P_"+p.ID+"()")
}

// RunSrc compiles+executes decls, then compiles and runs call under h.Exec.
func RunSrc(ir *Interp, decls string, call string) (res Result) {
	var declExpr *fast.Expr
	h.Reset()
	if perr := catch(func() { declExpr = ir.Compile(decls) }); perr != nil {
		res.CompileErr = fmt.Sprint(perr)
		return
	}
	if declExpr != nil {
		if perr := catch(func() { ir.RunExpr(declExpr) }); perr != nil {
			res.Out = "DECL-" + h.Finish(perr)
			return
		}
	}
	var callExpr *fast.Expr
	if perr := catch(func() { callExpr = ir.Compile(call) }); perr != nil {
		res.CompileErr = fmt.Sprint(perr)
		return
	}
	done := make(chan struct{})
	timedOut := false
	go func() {
		select {
		case <-done:
		case <-time.After(20 * time.Second):
			timedOut = true
			ir.Interrupt(nil)
		}
	}()
	res.Out = h.Exec(func() { ir.RunExpr(callExpr) })
	close(done)
	res.TimedOut = timedOut
	return
}

func catch(f func()) (p interface{}) {
	defer func() {
		if r := recover(); r != nil {
			p = r
			if os.Getenv("VERIF_DEBUG") != "" {
				fmt.Fprintf(os.Stderr, "twin.catch: %v\n%s\n", r, debug.Stack())
			}
		}
	}()
	f()
	return nil
}

// Catch is exported for checks.
func Catch(f func()) interface{} { return catch(f) }

var _ = base.OptDebugger
